package rules

import (
	"fmt"
	"go/constant"
	"go/token"
	"go/types"
	"strings"

	"golang.org/x/tools/go/ssa"

	"verif/internal/core"
)

// C23 — chunked transfer coding is decoded exactly.
func init() {
	Register(&Rule{
		ID: "C23", Section: "5 C23",
		Technique: "conditional constant propagation of parseHexUint's loop body for all 256 byte values and for the boundary digit counts; resolved branch facts (control dependence with && / || expansion and store-to-load resolution) in chunkedReader.beginChunk/Read, readLine, readTransfer, body.readLocked/readTrailer and the chunk encoder; feasible-path enumeration of chunkedReader.Read for the CRLF clause",
		Meta: core.Meta{
			Level:       "other",
			Explanation: "Decides, in bfe_http: (1) parseHexUint, folded with the current byte bound to each of the 256 values: the 22 hex digits continue the loop with accumulator = accumulator*16 + digit value, every other byte reaches a return with a non-nil error; the 17th digit (or a 17-byte line) reaches an error return while the 16th is accepted; a zero-length line reaches an error return. (2) beginChunk parses exactly the line returned by readLine(cr.r), only after its error was tested, stores the parsed size to cr.n, publishes both errors in cr.err and stores io.EOF only under `parse error == nil && size == 0`. (3) chunkedReader.Read: nothing is read while cr.err is set; beginChunk runs only when cr.n == 0 and its error is tested before data is read; the slice handed to the buffered reader is clamped to cr.n; cr.n is decreased by exactly the count read on every path; when cr.n reaches 0 without error two bytes are read into cr.buf and, unless both compare equal to CR and LF, an error is stored (every feasible path). (4) readLine reads up to LF, returns a line only when ReadSlice succeeded and len < maxLineLength, returns a non-nil error otherwise, and trims only trailing bytes from the set {SP, HT, CR, LF} (must include CR and LF). (5) readTransfer installs newChunkedReader(r) on the connection's own reader exactly under chunked(TransferEncoding) with hdr = msg; body.readLocked reads the trailer only on io.EOF with hdr != nil; readTrailer's fast path requires the two bytes CRLF. (6) the encoder writes no chunk for empty data, the size line is \"%x\\r\\n\" of len(data), the data, then CRLF; Close writes \"0\\r\\n\" and WriteBody terminates a chunked body with CRLF. Not covered: equality of decoded and encoded data as byte strings (round trip), chunk extensions (a ';' in the size line is rejected as an invalid byte), trailer field semantics, behaviour of bfe_bufio.Reader itself (C22).",
			RuleText:    "obligations = 4 byte classes + 16th/17th digit + empty line of parseHexUint; value-flow, guard and store obligations of beginChunk; guard/clamp/consume/CRLF obligations of chunkedReader.Read; readLine returns; trim set; readTransfer/readLocked/readTrailer wiring; encoder constants and order",
			Assumptions: []string{"errors.New / fmt.Errorf results and package-level Err* / io.EOF variables are non-nil errors"},
		},
		Run: runC23,
		Mutants: []Mutant{
			{Name: "hex-upper-bound-g", File: "bfe_http/chunked.go", Old: "case 'a' <= b && b <= 'f':", New: "case 'a' <= b && b <= 'g':", Expect: "hex-digit|parseHexUint:other"},
			{Name: "hex-value-off", File: "bfe_http/chunked.go", Old: "b = b - 'A' + 10", New: "b = b - 'A' + 9", Expect: "hex-digit|parseHexUint:A-F"},
			{Name: "hex-shift-3", File: "bfe_http/chunked.go", Old: "		n <<= 4\n", New: "		n <<= 3\n", Expect: "hex-digit|parseHexUint"},
			{Name: "hex-default-skips", File: "bfe_http/chunked.go", Old: "			return 0, errors.New(\"invalid byte in chunk length\")", New: "			continue", Expect: "hex-digit|parseHexUint:other"},
			{Name: "begin-parse-error-ignored", File: "bfe_http/chunked.go", Old: "	cr.n, cr.err = parseHexUint(line)\n	if cr.err != nil {\n		return\n	}\n", New: "	cr.n, cr.err = parseHexUint(line)\n", Expect: "begin-chunk|beginChunk:eof-store"},
			{Name: "begin-line-error-ignored", File: "bfe_http/chunked.go", Old: "	line, cr.err = readLine(cr.r)\n	if cr.err != nil {\n		return\n	}\n", New: "	line, cr.err = readLine(cr.r)\n", Expect: "begin-chunk|beginChunk:line-error-tested"},
			{Name: "read-crlf-and", File: "bfe_http/chunked.go", Old: "if cr.buf[0] != '\\r' || cr.buf[1] != '\\n' {", New: "if cr.buf[0] != '\\r' && cr.buf[1] != '\\n' {", Expect: "read-crlf|"},
			{Name: "read-crlf-dropped", File: "bfe_http/chunked.go", Old: "			if cr.buf[0] != '\\r' || cr.buf[1] != '\\n' {\n				cr.err = errors.New(\"malformed chunked encoding\")\n			}\n", New: "", Expect: "read-crlf|"},
			{Name: "read-clamp-off-by-one", File: "bfe_http/chunked.go", Old: "		b = b[0:cr.n]\n", New: "		b = b[0 : cr.n+1]\n", Expect: "read-clamp|"},
			{Name: "read-begin-always", File: "bfe_http/chunked.go", Old: "	if cr.n == 0 {\n		cr.beginChunk()\n		if cr.err != nil {\n			return 0, cr.err\n		}\n	}", New: "	{\n		cr.beginChunk()\n		if cr.err != nil {\n			return 0, cr.err\n		}\n	}", Expect: "read-guard|Read:begin-on-zero"},
			{Name: "read-begin-error-untested", File: "bfe_http/chunked.go", Old: "		cr.beginChunk()\n		if cr.err != nil {\n			return 0, cr.err\n		}\n", New: "		cr.beginChunk()\n", Expect: "read-guard|Read:begin-error-tested"},
			{Name: "read-consume-dropped", File: "bfe_http/chunked.go", Old: "	cr.n -= uint64(n)\n	if cr.n == 0 && cr.err == nil {", New: "	if cr.n == 0 && cr.err == nil {", Expect: "read-consume|"},
			{Name: "readline-limit-dropped", File: "bfe_http/chunked.go", Old: "	if len(p) >= maxLineLength {\n		return nil, ErrLineTooLong\n	}\n", New: "", Expect: "readline|readLine:max-length"},
			{Name: "trim-eats-zero", File: "bfe_http/chunked.go", Old: "return b == ' ' || b == '\\t' || b == '\\n' || b == '\\r'", New: "return b == ' ' || b == '\\t' || b == '\\n' || b == '\\r' || b == '0'", Expect: "trim|isASCIISpace"},
			{Name: "encode-decimal-size", File: "bfe_http/chunked.go", Old: "fmt.Fprintf(cw.Wire, \"%x\\r\\n\", len(data))", New: "fmt.Fprintf(cw.Wire, \"%d\\r\\n\", len(data))", Expect: "encode|Write:size-line"},
			{Name: "encode-empty-chunk", File: "bfe_http/chunked.go", Old: "	if len(data) == 0 {\n		return 0, nil\n	}\n\n	if _, err = fmt.Fprintf", New: "	if _, err = fmt.Fprintf", Expect: "encode|Write:nonempty"},
			{Name: "wiring-chunked-on-limit", File: "bfe_http/transfer.go", Old: "			t.Body = &body{src: newChunkedReader(r), hdr: msg, r: r, closing: t.Close}", New: "			t.Body = &body{src: newChunkedReader(r), r: r, closing: t.Close}", Expect: "wiring|readTransfer:chunked-body"},
			{Name: "trailer-read-on-any-error", File: "bfe_http/transfer.go", Old: "	if err == io.EOF {\n		// Chunked case. Read the trailer.", New: "	if err != nil {\n		// Chunked case. Read the trailer.", Expect: "wiring|readLocked:trailer-on-eof"},
			{Name: "silent-rename-receiver-and-log", Silent: true, File: "bfe_http/chunked.go", Old: "func (cr *chunkedReader) beginChunk() {\n	// chunk-size CRLF\n	var line []byte\n	line, cr.err = readLine(cr.r)\n	if cr.err != nil {\n		return\n	}\n	cr.n, cr.err = parseHexUint(line)\n	if cr.err != nil {\n		return\n	}\n	if cr.n == 0 {\n		cr.err = io.EOF\n	}\n}", New: "func (r *chunkedReader) beginChunk() {\n	// chunk-size CRLF\n	var sizeLine []byte\n	sizeLine, r.err = readLine(r.r)\n	if r.err != nil {\n		return\n	}\n	_ = len(sizeLine)\n	r.n, r.err = parseHexUint(sizeLine)\n	if r.err != nil {\n		return\n	}\n	if r.n == 0 {\n		r.err = io.EOF\n	}\n}"},
			{Name: "silent-hex-if-chain", Silent: true, File: "bfe_http/chunked.go", Old: "		switch {\n		case '0' <= b && b <= '9':\n			b -= '0'\n		case 'a' <= b && b <= 'f':\n			b = b - 'a' + 10\n		case 'A' <= b && b <= 'F':\n			b = b - 'A' + 10\n		default:\n			return 0, errors.New(\"invalid byte in chunk length\")\n		}", New: "		if b >= '0' && b <= '9' {\n			b = b - '0'\n		} else if b >= 'A' && b <= 'F' {\n			b = b - 'A' + 10\n		} else if b >= 'a' && b <= 'f' {\n			b = b - 'a' + 10\n		} else {\n			return 0, errors.New(\"invalid byte in chunk length\")\n		}"},
		},
	})
}

func c23Hexval(b int) (int, bool) {
	switch {
	case '0' <= b && b <= '9':
		return b - '0', true
	case 'a' <= b && b <= 'f':
		return b - 'a' + 10, true
	case 'A' <= b && b <= 'F':
		return b - 'A' + 10, true
	}
	return 0, false
}

// c23LoadOf: v is a load of <root>.<field> (root rendered as given).
func c23LoadOf(v ssa.Value, path string) bool {
	u, ok := v.(*ssa.UnOp)
	return ok && u.Op == token.MUL && core.Render(u.X) == path
}

// c23Rx renders values with the receiver's actual name replaced by the name
// the rule tables use, so that renaming the receiver does not change verdicts.
type c23Rx struct{ recv, canon string }

func c23NewRx(fn *ssa.Function, canon string) c23Rx {
	if len(fn.Params) == 0 {
		return c23Rx{canon, canon}
	}
	return c23Rx{fn.Params[0].Name(), canon}
}

func (r c23Rx) S(s string) string {
	if r.recv == r.canon || r.recv == "" {
		return s
	}
	var out strings.Builder
	isId := func(b byte) bool {
		return b == '_' || b >= '0' && b <= '9' || b >= 'a' && b <= 'z' || b >= 'A' && b <= 'Z'
	}
	for i := 0; i < len(s); {
		if strings.HasPrefix(s[i:], r.recv) && (i == 0 || !isId(s[i-1])) && i+len(r.recv) < len(s) && (s[i+len(r.recv)] == '.' || s[i+len(r.recv)] == '[') {
			out.WriteString(r.canon)
			i += len(r.recv)
			continue
		}
		out.WriteByte(s[i])
		i++
	}
	return out.String()
}

func (r c23Rx) R(v ssa.Value) string { return r.S(core.Render(v)) }

func (r c23Rx) LoadOf(v ssa.Value, path string) bool {
	u, ok := v.(*ssa.UnOp)
	return ok && u.Op == token.MUL && r.R(u.X) == path
}

func (r c23Rx) Atom(e c23Event) string { return r.S(c23Atom(e)) }

func c23IsErrorReturn(out h1aOutcome, fx *h1aFacts) bool {
	if out.Kind != "return" || out.Ret == nil || len(out.Vals) == 0 {
		return false
	}
	if out.Vals[len(out.Vals)-1].k == 'n' {
		return false
	}
	return h1aNonNilErr(h1aRetErr(out.Ret), fx.At(out.Ret.Block()), nil)
}

func c23Describe(out h1aOutcome) string {
	switch out.Kind {
	case "return":
		var vs []string
		for _, v := range out.Vals {
			vs = append(vs, v.String())
		}
		return "returns (" + strings.Join(vs, ", ") + ")"
	case "stop":
		return "continues with the next byte"
	case "unknown":
		if out.At != nil {
			return "reaches a branch that constants do not decide (" + core.Render(out.At.(*ssa.If).Cond) + ")"
		}
		return "reaches an instruction the folder cannot follow"
	}
	return out.Kind
}

func runC23(c *core.Ctx) {
	h1aDebugDump(c)
	const pkg = "bfe_http"
	if c.P.Pkg(pkg) == nil {
		c.Missing(pkg)
		return
	}
	fx := h1aNewFacts()
	c23ParseHex(c, fx)
	c23BeginChunk(c, fx)
	c23Read(c, fx)
	c23ReadLine(c, fx)
	c23Wiring(c, fx)
	c23Encoder(c, fx)
}

// ------------------------------------------------------------ parseHexUint

func c23ParseHex(c *core.Ctx, fx *h1aFacts) {
	const pkg = "bfe_http"
	fn := c.P.Func(pkg, "parseHexUint")
	if fn == nil {
		c.Missing(pkg + ".parseHexUint")
		return
	}
	c.Analysed(core.FuncKey(fn))
	c.Min("hex-digit", 5)
	c.Min("hex-bound", 1)
	c.Min("hex-empty", 1)
	if len(fn.Params) != 1 {
		c.Check("hex-digit", "parseHexUint:shape", fn.Pos(), false, "parseHexUint no longer takes the single size line")
		return
	}
	elems := h1aElems(fn, fn.Params[0])
	// accumulator = result #0 of the success return
	var acc *ssa.Phi
	for _, r := range core.Returns(fn) {
		rv := core.RetVals(r)
		if len(rv) == 2 && h1aIsNil(rv[1]) {
			if phi, ok := rv[0].(*ssa.Phi); ok {
				acc = phi
			}
		}
	}
	if len(elems) != 1 || acc == nil {
		c.Check("hex-digit", "parseHexUint:shape", fn.Pos(), false, fmt.Sprintf("cannot identify the digit loop: %d loads of the current byte, accumulator found=%v (expected one `for … range v` loop whose accumulator is returned on success)", len(elems), acc != nil))
		c.Check("hex-bound", "parseHexUint:17th-digit", fn.Pos(), false, "digit loop not identified")
		c.Check("hex-empty", "parseHexUint:empty-line", fn.Pos(), false, "digit loop not identified")
		return
	}
	elem := elems[0]
	eb := elem.(ssa.Instruction).Block()
	if !acc.Block().Dominates(eb) {
		c.Check("hex-digit", "parseHexUint:shape", fn.Pos(), false, "the value returned on success is not the loop accumulator")
		return
	}
	// first-iteration seeds for the other loop-carried integers (range index)
	seedsAt := func(iter int64, accVal uint64) map[ssa.Value]h1aV {
		env := map[ssa.Value]h1aV{}
		for _, in := range acc.Block().Instrs {
			phi, ok := in.(*ssa.Phi)
			if !ok {
				break
			}
			if phi == acc {
				env[phi] = h1aV{k: 'i', u: h1aWrap(accVal, phi.Type())}
				continue
			}
			for i, e := range phi.Edges {
				if acc.Block().Dominates(phi.Block().Preds[i]) {
					continue // back edge
				}
				if k, ok := h1aConstInt(e); ok {
					env[phi] = h1aV{k: 'i', u: h1aWrap(uint64(k+iter), phi.Type())}
				}
			}
		}
		return env
	}
	ev := &h1aEvaluator{Global: h1aTableResolver(c)}
	fold := func(b int, iter int64, accVal uint64) h1aOutcome {
		env := seedsAt(iter, accVal)
		// values the loop header derives from the seeded phis (the range index i = phi + 1)
		nphi := 0
		for _, in := range acc.Block().Instrs {
			if _, ok := in.(*ssa.Phi); !ok {
				break
			}
			nphi++
		}
		ev.steps = 0
		ev.Seeded = map[ssa.Value]bool{}
		for k := range env {
			ev.Seeded[k] = true
		}
		ev.Run(acc.Block(), nphi, nil, env, func(*ssa.BasicBlock) bool { return true }, 0)
		ev.Seeded = map[ssa.Value]bool{elem: true}
		env[elem] = h1aV{k: 'i', u: uint64(b)}
		ev.steps = 0
		return ev.Run(eb, h1aIdx(elem.(ssa.Instruction))+1, nil, env, func(to *ssa.BasicBlock) bool { return to.Dominates(eb) }, 0)
	}
	const acc0 = 0x1234
	classes := []struct {
		key    string
		member func(b int) bool
	}{
		{"0-9", func(b int) bool { return '0' <= b && b <= '9' }},
		{"a-f", func(b int) bool { return 'a' <= b && b <= 'f' }},
		{"A-F", func(b int) bool { return 'A' <= b && b <= 'F' }},
		{"other", func(b int) bool { _, ok := c23Hexval(b); return !ok }},
	}
	for _, cl := range classes {
		bad := ""
		for b := 0; b < 256 && bad == ""; b++ {
			if !cl.member(b) {
				continue
			}
			out := fold(b, 0, acc0)
			if d, isHex := c23Hexval(b); isHex {
				want := uint64(acc0)<<4 | uint64(d)
				if out.Kind != "stop" {
					bad = fmt.Sprintf("byte %q: expected the loop to continue, but it %s", rune(b), c23Describe(out))
				} else if got := out.Env[acc]; got.k != 'i' || got.u != want {
					bad = fmt.Sprintf("byte %q with accumulator 0x%x: accumulator becomes %s, expected 0x%x (= n*16 + %d)", rune(b), acc0, got, want, d)
				}
			} else if !c23IsErrorReturn(out, fx) {
				bad = fmt.Sprintf("byte 0x%02x is not a hex digit but parseHexUint %s instead of returning an error", b, c23Describe(out))
			}
		}
		c.Check("hex-digit", "parseHexUint:"+cl.key, fn.Pos(), bad == "", bad)
	}
	// 16th digit accepted
	out16 := fold('f', 15, 0x0fffffffffffffff)
	ok16 := out16.Kind == "stop" && out16.Env[acc].k == 'i' && out16.Env[acc].u == 0xffffffffffffffff
	c.Check("hex-digit", "parseHexUint:16th-digit-accepted", fn.Pos(), ok16, "the 16th hex digit (ffffffffffffffff) must be accepted: the loop "+c23Describe(out16))

	// length bound: 17th digit in the loop, or a 17-byte line before the loop
	foldEntry := func(n int64) h1aOutcome {
		env := map[ssa.Value]h1aV{}
		core.Instrs(fn, func(in ssa.Instruction) {
			if call, ok := in.(*ssa.Call); ok {
				if bi, ok := call.Call.Value.(*ssa.Builtin); ok && bi.Name() == "len" && len(call.Call.Args) == 1 && call.Call.Args[0] == ssa.Value(fn.Params[0]) {
					env[call] = h1aV{k: 'i', u: uint64(n)}
				}
			}
		})
		ev2 := &h1aEvaluator{Global: h1aTableResolver(c), Seeded: map[ssa.Value]bool{}}
		for k := range env {
			ev2.Seeded[k] = true
		}
		return ev2.Run(fn.Blocks[0], 0, nil, env, func(to *ssa.BasicBlock) bool { return to == eb }, 0)
	}
	out17 := fold('1', 16, 0x0123456789abcdef)
	pre17 := foldEntry(17)
	bounded := c23IsErrorReturn(out17, fx) || c23IsErrorReturn(pre17, fx)
	detail := "a 17th hex digit is neither rejected inside the loop (the loop " + c23Describe(out17) + ") nor by a length test before it (with len(v)=17 the function " + c23Describe(pre17) + "): 17 or more digits shift the high bits out of the uint64 and a different chunk size is used"
	if !bounded {
		ovf := fold('1', 0, 1<<60)
		if c23IsErrorReturn(ovf, fx) {
			detail += " (an overflow test on the accumulator exists, but the digit count is not limited to 16)"
		}
	}
	c.Check("hex-bound", "parseHexUint:17th-digit", fn.Pos(), bounded, detail)
	if bounded {
		pre16 := foldEntry(16)
		c.Check("hex-bound", "parseHexUint:16-digits-accepted", fn.Pos(), !c23IsErrorReturn(pre16, fx), "a 16-digit size line is rejected by the length test")
	}
	// empty size line
	pre0 := foldEntry(0)
	emptyOK := c23IsErrorReturn(pre0, fx)
	why := "with len(v)=0 parseHexUint " + c23Describe(pre0)
	if !emptyOK {
		// or the only caller rejects it
		if bc := c.P.Func(pkg, "chunkedReader.beginChunk"); bc != nil {
			for _, call := range core.Calls(bc, pkg+".parseHexUint") {
				arg := call.Common().Args[0]
				for _, f := range fx.At(call.(ssa.Instruction).Block()) {
					x, op, y, ok := f.Cmp()
					if !ok {
						continue
					}
					lc, isLen := x.(*ssa.Call)
					k, isK := h1aConstInt(y)
					if !isLen || !isK || len(lc.Call.Args) != 1 || h1aResolve(lc.Call.Args[0]) != h1aResolve(arg) {
						continue
					}
					if bi, ok := lc.Call.Value.(*ssa.Builtin); !ok || bi.Name() != "len" {
						continue
					}
					if !constant.Compare(constant.MakeInt64(0), op, constant.MakeInt64(k)) {
						emptyOK = true
					}
				}
			}
		}
	}
	c.Check("hex-empty", "parseHexUint:empty-line", fn.Pos(), emptyOK, "an empty chunk-size line is not rejected: "+why+", i.e. size 0 = last chunk, so a body whose size line is blank is silently terminated instead of being an error")
}

// ------------------------------------------------------------ beginChunk

func c23BeginChunk(c *core.Ctx, fx *h1aFacts) {
	const pkg = "bfe_http"
	fn := c.P.Func(pkg, "chunkedReader.beginChunk")
	if fn == nil {
		c.Missing(pkg + ".chunkedReader.beginChunk")
		return
	}
	c.Analysed(core.FuncKey(fn))
	rx := c23NewRx(fn, "cr")
	c.Min("begin-chunk", 6)
	parses := core.Calls(fn, pkg+".parseHexUint")
	lines := core.Calls(fn, pkg+".readLine")
	if len(parses) != 1 || len(lines) != 1 {
		c.Check("begin-chunk", "beginChunk:shape", fn.Pos(), false, fmt.Sprintf("expected one readLine and one parseHexUint call, found %d and %d", len(lines), len(parses)))
		return
	}
	parse, _ := parses[0].(*ssa.Call)
	line, _ := lines[0].(*ssa.Call)
	if parse == nil || line == nil {
		c.Check("begin-chunk", "beginChunk:shape", fn.Pos(), false, "readLine/parseHexUint are not plain calls")
		return
	}
	c.Check("begin-chunk", "beginChunk:line-source", line.Pos(), rx.R(line.Call.Args[0]) == "cr.r",
		"the size line is read from "+core.Render(line.Call.Args[0])+", expected the chunked reader's own buffered reader cr.r")
	c.Check("begin-chunk", "beginChunk:line-parsed", parse.Pos(), h1aIsResultOf(parse.Call.Args[0], line, 0),
		"parseHexUint is applied to "+core.Render(h1aResolve(parse.Call.Args[0]))+", expected the line returned by readLine")
	pf := fx.At(parse.Block())
	c.Check("begin-chunk", "beginChunk:line-error-tested", parse.Pos(), h1aErrIs(pf, line, 1, true),
		"parseHexUint runs although readLine's error was not tested to be nil; facts here: "+strings.Join(h1aFactStrs(pf), " && "))
	// stores
	nStores, sizeStored, lineErrStored, parseErrStored := 0, false, false, false
	core.Instrs(fn, func(in ssa.Instruction) {
		st, ok := in.(*ssa.Store)
		if !ok {
			return
		}
		switch rx.R(st.Addr) {
		case "cr.n":
			nStores++
			if h1aIsResultOf(st.Val, parse, 0) {
				sizeStored = true
			} else {
				c.Check("begin-chunk", "beginChunk:size-store", st.Pos(), false, "cr.n is set to "+core.Render(st.Val)+", expected only the value parsed by parseHexUint")
			}
		case "cr.err":
			switch {
			case h1aIsResultOf(st.Val, line, 1):
				lineErrStored = true
			case h1aIsResultOf(st.Val, parse, 1):
				parseErrStored = true
			case c23LoadOf(st.Val, "io.EOF"):
				f := fx.At(st.Block())
				okErr := h1aErrIs(f, parse, 1, true)
				okZero := h1aHasCmp(f, func(v ssa.Value) bool { return h1aIsResultOf(v, parse, 0) }, h1aOpIs(token.EQL), func(v ssa.Value) bool { k, ok := h1aConstInt(v); return ok && k == 0 })
				c.Check("begin-chunk", "beginChunk:eof-store", st.Pos(), okErr && okZero,
					"io.EOF (end of body) is stored although it is not established that parseHexUint succeeded and returned 0; facts: "+strings.Join(h1aFactStrs(f), " && "))
			default:
				c.Check("begin-chunk", "beginChunk:err-store", st.Pos(), h1aNonNilErr(st.Val, fx.At(st.Block()), nil), "cr.err is overwritten with "+core.Render(st.Val))
			}
		}
	})
	c.Check("begin-chunk", "beginChunk:size-stored", parse.Pos(), sizeStored, "the parsed chunk size is not stored to cr.n")
	c.Check("begin-chunk", "beginChunk:errors-published", fn.Pos(), lineErrStored && parseErrStored,
		fmt.Sprintf("errors must be left in cr.err for Read to return: readLine error stored=%v, parseHexUint error stored=%v", lineErrStored, parseErrStored))
}

// ------------------------------------------------------------ Read

type c23Event struct {
	In   ssa.Instruction
	Cond ssa.Value
	Pol  bool
}

func c23Events(p *core.Path) []c23Event {
	var out []c23Event
	for i, b := range p.Blocks {
		for _, in := range b.Instrs {
			out = append(out, c23Event{In: in})
		}
		if i+1 < len(p.Blocks) {
			if ifi, ok := b.Instrs[len(b.Instrs)-1].(*ssa.If); ok && b.Succs[0] != b.Succs[1] {
				cond, pol := ifi.Cond, b.Succs[0] == p.Blocks[i+1]
				for {
					u, ok := cond.(*ssa.UnOp)
					if !ok || u.Op != token.NOT {
						break
					}
					cond, pol = u.X, !pol
				}
				out = append(out, c23Event{Cond: cond, Pol: pol})
			}
		}
	}
	return out
}

// c23Atom renders an edge condition without resolving loads: "cr.n == 0".
func c23Atom(e c23Event) string {
	bo, ok := e.Cond.(*ssa.BinOp)
	if !ok {
		if e.Pol {
			return core.Render(e.Cond)
		}
		return "!" + core.Render(e.Cond)
	}
	op := bo.Op
	if !e.Pol {
		op = h1aNegate(op)
	}
	x, y := bo.X, bo.Y
	if _, xc := x.(*ssa.Const); xc {
		x, y = y, x
		op = h1aFlip(op)
	}
	return core.Render(x) + " " + op.String() + " " + core.Render(y)
}

func c23Read(c *core.Ctx, fx *h1aFacts) {
	const pkg = "bfe_http"
	fn := c.P.Func(pkg, "chunkedReader.Read")
	if fn == nil {
		c.Missing(pkg + ".chunkedReader.Read")
		return
	}
	c.Analysed(core.FuncKey(fn))
	rx := c23NewRx(fn, "cr")
	c.Min("read-guard", 4)
	c.Min("read-clamp", 1)
	c.Min("read-consume", 2)
	c.Min("read-crlf", 2)
	begins := core.Calls(fn, pkg+".chunkedReader.beginChunk")
	reads := core.Calls(fn, "bfe_bufio.Reader.Read")
	fulls := core.Calls(fn, "io.ReadFull")
	if len(begins) != 1 || len(reads) != 1 || len(fulls) != 1 {
		c.Check("read-guard", "Read:shape", fn.Pos(), false, fmt.Sprintf("expected one call each of beginChunk, (*bfe_bufio.Reader).Read and io.ReadFull, found %d, %d, %d", len(begins), len(reads), len(fulls)))
		return
	}
	begin, _ := begins[0].(*ssa.Call)
	read, _ := reads[0].(*ssa.Call)
	full, _ := fulls[0].(*ssa.Call)
	if begin == nil || read == nil || full == nil {
		c.Check("read-guard", "Read:shape", fn.Pos(), false, "deferred or go calls where plain calls were expected")
		return
	}
	isInitialErrNil := func(fs []h1aFact) bool {
		for _, f := range fs {
			bo, ok := f.Cond.(*ssa.BinOp)
			if !ok {
				continue
			}
			x, op, y, ok := f.Cmp()
			if !ok || op != token.EQL || !h1aIsNil(y) {
				continue
			}
			// the load must be of cr.err with no earlier store/call: the state left by the previous Read
			if rx.LoadOf(x, "cr.err") && (rx.LoadOf(bo.X, "cr.err") || rx.LoadOf(bo.Y, "cr.err")) {
				ld := x.(*ssa.UnOp)
				clean := true
				for _, in := range ld.Block().Instrs[:h1aIdx(ld)] {
					if _, isCall := in.(*ssa.Call); isCall {
						clean = false
					}
				}
				if clean && ld.Block() == fn.Blocks[0] {
					return true
				}
			}
		}
		return false
	}
	for _, cs := range []struct {
		key  string
		call *ssa.Call
	}{{"beginChunk", begin}, {"data-read", read}, {"crlf-read", full}} {
		c.Check("read-guard", "Read:sticky-error:"+cs.key, cs.call.Pos(), isInitialErrNil(fx.At(cs.call.Block())),
			"the call is reachable although the error left in cr.err by an earlier Read was not tested on entry: after an error (or io.EOF) more bytes of the connection would be consumed as body")
	}
	// beginChunk only between chunks
	bf := fx.At(begin.Block())
	c.Check("read-guard", "Read:begin-on-zero", begin.Pos(),
		h1aHasCmp(bf, func(v ssa.Value) bool { return rx.LoadOf(v, "cr.n") }, h1aOpIs(token.EQL), func(v ssa.Value) bool { k, ok := h1aConstInt(v); return ok && k == 0 }),
		"beginChunk is called although cr.n == 0 is not established: a size line would be parsed in the middle of chunk data; facts: "+strings.Join(h1aFactStrs(bf), " && "))
	// path rules
	type pathBad struct{ beginErr, consume, crlfMissing, crlfUnchecked string }
	var bad pathBad
	nPaths, nFull := 0, 0
	isSubStore := func(in ssa.Instruction) bool {
		st, ok := in.(*ssa.Store)
		if !ok || rx.R(st.Addr) != "cr.n" {
			return false
		}
		bo, ok := st.Val.(*ssa.BinOp)
		if !ok || bo.Op != token.SUB || !rx.LoadOf(bo.X, "cr.n") {
			return false
		}
		return h1aIsResultOf(core.StripConv(bo.Y), read, 0)
	}
	complete := core.EnumPaths(fn, 1, 4000, func(p *core.Path) {
		nPaths++
		evs := c23Events(p)
		sawBegin, beginTested := false, false
		sawRead, sawSub := false, false
		zero, errNil := false, false
		sawFull, fullOK, fullFailed, errStored, cr, lf := false, false, false, false, false, false
		for _, e := range evs {
			if e.In != nil {
				switch {
				case e.In == ssa.Instruction(begin):
					sawBegin = true
				case e.In == ssa.Instruction(read):
					if sawBegin && !beginTested && bad.beginErr == "" {
						bad.beginErr = pathSig(p)
					}
					sawRead = true
				case isSubStore(e.In):
					sawSub = true
				case e.In == ssa.Instruction(full):
					sawFull = true
				}
				if st, ok := e.In.(*ssa.Store); ok && sawFull && e.In != ssa.Instruction(full) && rx.R(st.Addr) == "cr.err" && !h1aIsResultOf(st.Val, full, 1) && h1aNonNilErr(st.Val, nil, nil) {
					errStored = true
				}
				continue
			}
			a := rx.Atom(e)
			switch {
			case sawBegin && !sawRead && a == "cr.err == nil":
				beginTested = true
			case sawSub && !sawFull && a == "cr.n == 0":
				zero = true
			case sawSub && !sawFull && a == "cr.err == nil":
				errNil = true
			case sawFull && a == "cr.err == nil":
				fullOK = true
			case sawFull && a == "cr.err != nil":
				fullFailed = true
			case sawFull && a == "cr.buf[0] == 13":
				cr = true
			case sawFull && a == "cr.buf[1] == 10":
				lf = true
			}
		}
		if _, isRet := p.Last().(*ssa.Return); !isRet {
			return
		}
		if sawRead && !sawSub && bad.consume == "" {
			bad.consume = pathSig(p)
		}
		if zero && errNil && !sawFull && bad.crlfMissing == "" {
			bad.crlfMissing = pathSig(p)
		}
		if sawFull {
			nFull++
			_ = fullOK
			if !fullFailed && !errStored && !(cr && lf) && bad.crlfUnchecked == "" {
				bad.crlfUnchecked = pathSig(p)
			}
		}
	})
	if !complete {
		c.Check("read-crlf", "Read:paths", fn.Pos(), false, "path enumeration of chunkedReader.Read did not complete")
		return
	}
	c.Note("chunkedReader.Read: %d feasible paths, %d through the CRLF read", nPaths, nFull)
	c.Check("read-guard", "Read:begin-error-tested", begin.Pos(), bad.beginErr == "", "a path reads chunk data after beginChunk without testing cr.err (malformed size line or end of body ignored); branches: "+bad.beginErr)
	// clamp
	arg := read.Call.Args[1]
	var edges []ssa.Value
	var preds []*ssa.BasicBlock
	if phi, ok := arg.(*ssa.Phi); ok {
		edges, preds = phi.Edges, phi.Block().Preds
	} else {
		edges, preds = []ssa.Value{arg}, []*ssa.BasicBlock{nil}
	}
	for i, e := range edges {
		ok := false
		why := core.Render(e)
		switch x := e.(type) {
		case *ssa.Slice:
			lowOK := x.Low == nil
			if k, isK := h1aConstInt(x.Low); x.Low != nil && isK && k == 0 {
				lowOK = true
			}
			ok = lowOK && x.High != nil && rx.LoadOf(core.StripConv(x.High), "cr.n") && x.X == ssa.Value(fn.Params[1])
		case *ssa.Parameter:
			var fs []h1aFact
			if preds[i] != nil {
				fs = fx.Edge(preds[i], arg.(*ssa.Phi).Block())
			} else {
				fs = fx.At(read.Block())
			}
			ok = h1aHasCmp(fs, func(v ssa.Value) bool {
				lc, isCall := core.StripConv(v).(*ssa.Call)
				if !isCall || len(lc.Call.Args) != 1 || lc.Call.Args[0] != ssa.Value(x) {
					return false
				}
				bi, isB := lc.Call.Value.(*ssa.Builtin)
				return isB && bi.Name() == "len"
			}, h1aOpIs(token.LEQ, token.LSS), func(v ssa.Value) bool { return rx.LoadOf(v, "cr.n") })
			why += " without len(b) <= cr.n established (facts: " + strings.Join(h1aFactStrs(fs), " && ") + ")"
		}
		c.Check("read-clamp", fmt.Sprintf("Read:buffer#%d", i), read.Pos(), ok, "the buffer handed to the underlying reader is "+why+": more than the rest of the chunk could be returned as data")
	}
	// consume
	c.Check("read-consume", "Read:every-path", read.Pos(), bad.consume == "", "a path returns after reading data without `cr.n -= uint64(n)` (n = bytes read): the chunk boundary is lost; branches: "+bad.consume)
	nStores := 0
	core.Instrs(fn, func(in ssa.Instruction) {
		if st, ok := in.(*ssa.Store); ok && rx.R(st.Addr) == "cr.n" {
			nStores++
			c.Check("read-consume", "Read:cr.n-store", st.Pos(), isSubStore(in), "cr.n is set to "+core.Render(st.Val)+" in Read; only cr.n - uint64(bytes read) keeps the chunk accounting")
		}
	})
	for i, r := range core.Returns(fn) {
		rv := core.RetVals(r)
		if len(rv) != 2 {
			continue
		}
		if k, isK := h1aConstInt(rv[0]); isK && k == 0 {
			continue
		}
		c.Check("read-consume", fmt.Sprintf("Read:count-returned#%d", i), r.Pos(), h1aIsResultOf(rv[0], read, 0), "Read reports "+core.Render(rv[0])+" bytes, expected the count returned by the underlying read")
	}
	// crlf
	bufOK := false
	if sl, ok := full.Call.Args[1].(*ssa.Slice); ok && sl.Low == nil && sl.High == nil && rx.R(sl.X) == "cr.buf" {
		if pt, ok := sl.X.Type().Underlying().(*types.Pointer); ok {
			if at, ok := pt.Elem().Underlying().(*types.Array); ok && at.Len() == 2 {
				bufOK = true
			}
		}
	}
	c.Check("read-crlf", "Read:two-bytes-from-conn", full.Pos(), bufOK && rx.R(full.Call.Args[0]) == "cr.r",
		"the chunk terminator must be read as exactly two bytes from cr.r into cr.buf; reads "+core.Render(full.Call.Args[1])+" from "+core.Render(full.Call.Args[0]))
	c.Check("read-crlf", "Read:read-at-chunk-end", full.Pos(), bad.crlfMissing == "" && nFull > 0, "a path ends a chunk (cr.n == 0, no error) without reading the CRLF that must follow the chunk data; branches: "+bad.crlfMissing)
	c.Check("read-crlf", "Read:compared", full.Pos(), bad.crlfUnchecked == "" && nFull > 0, "a path reads the two bytes after the chunk data and returns without error although they were not both compared equal to CR and LF; branches: "+bad.crlfUnchecked)
}

// ------------------------------------------------------------ readLine

func c23ReadLine(c *core.Ctx, fx *h1aFacts) {
	const pkg = "bfe_http"
	fn := c.P.Func(pkg, "readLine")
	if fn == nil {
		c.Missing(pkg + ".readLine")
		return
	}
	c.Analysed(core.FuncKey(fn))
	c.Min("readline", 5)
	c.Min("trim", 3)
	rs := core.Calls(fn, "bfe_bufio.Reader.ReadSlice")
	if len(rs) != 1 {
		c.Check("readline", "readLine:shape", fn.Pos(), false, fmt.Sprintf("expected one ReadSlice call, found %d", len(rs)))
		return
	}
	call, _ := rs[0].(*ssa.Call)
	if call == nil {
		return
	}
	k, isK := h1aConstInt(call.Call.Args[1])
	c.Check("readline", "readLine:delimiter", call.Pos(), isK && k == '\n' && call.Call.Args[0] == ssa.Value(fn.Params[0]), "the size line must be read from the given reader up to LF; delimiter "+core.Render(call.Call.Args[1]))
	maxLen := int64(-1)
	if k, ok := c.P.Obj(pkg, "maxLineLength").(*types.Const); ok {
		if v, ok := constant.Int64Val(k.Val()); ok {
			maxLen = v
		}
	} else {
		c.Missing(pkg + ".maxLineLength")
	}
	nSucc := 0
	for i, r := range core.Returns(fn) {
		rv := core.RetVals(r)
		if len(rv) != 2 {
			continue
		}
		f := fx.At(r.Block())
		if h1aIsNil(rv[1]) {
			nSucc++
			c.Check("readline", "readLine:error-tested", r.Pos(), h1aErrIs(f, call, 1, true), "a line is returned although ReadSlice's error was not tested to be nil")
			bounded := false
			for _, ff := range f {
				x, op, y, ok := ff.Cmp()
				if !ok {
					continue
				}
				lc, isCall := x.(*ssa.Call)
				lim, isLim := h1aConstInt(y)
				if !isCall || !isLim || len(lc.Call.Args) != 1 || !h1aIsResultOf(lc.Call.Args[0], call, 0) {
					continue
				}
				if bi, ok := lc.Call.Value.(*ssa.Builtin); !ok || bi.Name() != "len" {
					continue
				}
				if (op == token.LSS && lim <= maxLen) || (op == token.LEQ && lim < maxLen) {
					bounded = true
				}
			}
			c.Check("readline", "readLine:max-length", r.Pos(), bounded && maxLen > 0, fmt.Sprintf("a line is returned without len(line) < maxLineLength (%d) being established; facts: %s", maxLen, strings.Join(h1aFactStrs(f), " && ")))
			// value: ReadSlice#0 possibly through trimTrailingWhitespace
			v := h1aResolve(rv[0])
			if tc, ok := v.(*ssa.Call); ok && core.CallIs(&tc.Call, pkg+".trimTrailingWhitespace") {
				v = h1aResolve(tc.Call.Args[0])
			}
			c.Check("readline", "readLine:line-value", r.Pos(), h1aIsResultOf(v, call, 0), "readLine returns "+core.Render(rv[0])+", expected the bytes returned by ReadSlice (trailing whitespace trimmed)")
			continue
		}
		c.Check("readline", fmt.Sprintf("readLine:error-return#%d", i), r.Pos(), h1aNonNilErr(rv[1], f, nil) && h1aIsNil(rv[0]), "an error exit of readLine returns ("+core.Render(rv[0])+", "+core.Render(rv[1])+"): must be (nil, non-nil error)")
	}
	c.Check("readline", "readLine:has-success", fn.Pos(), nSucc >= 1, "readLine has no success return")
	// trimming
	if sp := c.P.Func(pkg, "isASCIISpace"); sp == nil {
		c.Missing(pkg + ".isASCIISpace")
	} else {
		c.Analysed(core.FuncKey(sp))
		ev := &h1aEvaluator{Global: h1aTableResolver(c)}
		set := map[int64]bool{}
		undec := ""
		for b := 0; b < 256; b++ {
			out := h1aFoldCall(ev, sp, uint64(b))
			if out.Kind != "return" || len(out.Vals) != 1 || out.Vals[0].k != 'b' {
				undec = fmt.Sprintf("byte 0x%02x: %s", b, c23Describe(out))
				break
			}
			if out.Vals[0].b {
				set[int64(b)] = true
			}
		}
		allowed := map[int64]bool{' ': true, '\t': true, '\r': true, '\n': true}
		extra := h1aSetDiff(set, allowed)
		c.Check("trim", "isASCIISpace:set", sp.Pos(), undec == "" && len(extra) == 0 && set['\r'] && set['\n'],
			fmt.Sprintf("bytes trimmed from the end of a size line must be within {SP, HT, CR, LF} and include CR and LF; extra: %v, CR=%v LF=%v %s", extra, set['\r'], set['\n'], undec))
	}
	if tr := c.P.Func(pkg, "trimTrailingWhitespace"); tr == nil {
		c.Missing(pkg + ".trimTrailingWhitespace")
	} else {
		c.Analysed(core.FuncKey(tr))
		prefixOnly, n := true, 0
		core.Instrs(tr, func(in ssa.Instruction) {
			if sl, ok := in.(*ssa.Slice); ok {
				n++
				if sl.Low != nil {
					if k, isK := h1aConstInt(sl.Low); !isK || k != 0 {
						prefixOnly = false
					}
				}
				// High must be len(x)-1 of the same slice
				hi, ok := sl.High.(*ssa.BinOp)
				if !ok || hi.Op != token.SUB {
					prefixOnly = false
					return
				}
				if k, isK := h1aConstInt(hi.Y); !isK || k != 1 {
					prefixOnly = false
				}
			}
		})
		c.Check("trim", "trimTrailingWhitespace:prefix-only", tr.Pos(), prefixOnly, "trimTrailingWhitespace must only drop one trailing byte at a time (b[:len(b)-1])")
		tested := false
		for _, call := range core.Calls(tr, pkg+".isASCIISpace") {
			if u, ok := call.Common().Args[0].(*ssa.UnOp); ok {
				if ia, ok := u.X.(*ssa.IndexAddr); ok {
					if bo, ok := ia.Index.(*ssa.BinOp); ok && bo.Op == token.SUB {
						if k, isK := h1aConstInt(bo.Y); isK && k == 1 {
							if lc, ok := bo.X.(*ssa.Call); ok && len(lc.Call.Args) == 1 && lc.Call.Args[0] == ia.X {
								tested = true
							}
						}
					}
				}
			}
		}
		c.Check("trim", "trimTrailingWhitespace:tests-last-byte", tr.Pos(), tested, "the byte tested with isASCIISpace must be the last byte b[len(b)-1] of the slice being trimmed")
		for i, r := range core.Returns(tr) {
			// every slice op was checked; the result must be the (re-sliced) parameter
			c.Check("trim", fmt.Sprintf("trimTrailingWhitespace:result#%d", i), r.Pos(), h1aRoot(r.Results[0]) == ssa.Value(tr.Params[0]) || c23PhiOfParam(r.Results[0], tr.Params[0]), "trimTrailingWhitespace returns "+core.Render(r.Results[0])+", not a prefix of its argument")
		}
	}
}

func c23PhiOfParam(v ssa.Value, p *ssa.Parameter) bool {
	phi, ok := v.(*ssa.Phi)
	if !ok {
		return false
	}
	for _, e := range phi.Edges {
		if e == ssa.Value(p) {
			continue
		}
		sl, ok := e.(*ssa.Slice)
		if !ok || sl.X != ssa.Value(phi) {
			return false
		}
	}
	return true
}

// ------------------------------------------------------------ wiring in transfer.go

func c23FieldStores(alloc ssa.Value) map[string]ssa.Value {
	out := map[string]ssa.Value{}
	if alloc.Referrers() == nil {
		return out
	}
	for _, r := range *alloc.Referrers() {
		fa, ok := r.(*ssa.FieldAddr)
		if !ok || fa.Referrers() == nil {
			continue
		}
		f := core.FieldObj(fa.X, fa.Field)
		if f == nil {
			continue
		}
		for _, rr := range *fa.Referrers() {
			if st, ok := rr.(*ssa.Store); ok && st.Addr == fa {
				out[f.Name()] = st.Val
			}
		}
	}
	return out
}

// c23ChunkedFact: facts establish chunked(<x>.TransferEncoding) == pol.
func c23ChunkedFact(fs []h1aFact, pol bool) bool {
	call := h1aBoolCallFact(fs, pol, "bfe_http.chunked")
	if call == nil {
		return false
	}
	return strings.HasSuffix(core.Render(call.Call.Args[0]), ".TransferEncoding")
}

func c23Wiring(c *core.Ctx, fx *h1aFacts) {
	const pkg = "bfe_http"
	c.Min("wiring", 7)
	if fn := c.P.Func(pkg, "readTransfer"); fn == nil {
		c.Missing(pkg + ".readTransfer")
	} else {
		c.Analysed(core.FuncKey(fn))
		calls := core.Calls(fn, pkg+".newChunkedReader")
		c.Check("wiring", "readTransfer:chunked-reader-installed", fn.Pos(), len(calls) >= 1, "readTransfer never installs newChunkedReader")
		for i, ci := range calls {
			call, ok := ci.(*ssa.Call)
			if !ok {
				continue
			}
			f := fx.At(call.Block())
			c.Check("wiring", fmt.Sprintf("readTransfer:chunked-guard#%d", i), call.Pos(), c23ChunkedFact(f, true),
				"newChunkedReader is installed without chunked(t.TransferEncoding) being true; facts: "+strings.Join(h1aFactStrs(f), " && "))
			// body{src: <call>, hdr: msg, r: r}
			okBody := false
			why := "the chunked reader is not stored as src of a body"
			if call.Referrers() != nil {
				for _, r := range *call.Referrers() {
					st, ok := r.(*ssa.Store)
					if !ok {
						continue
					}
					fa, ok := st.Addr.(*ssa.FieldAddr)
					if !ok {
						continue
					}
					fields := c23FieldStores(fa.X)
					src, hdr, rd := fields["src"], fields["hdr"], fields["r"]
					okBody = src == ssa.Value(call) && hdr != nil && core.StripConv(hdr) == ssa.Value(fn.Params[0]) && rd == ssa.Value(fn.Params[1]) &&
						core.StripConv(call.Call.Args[0]) == ssa.Value(fn.Params[1])
					why = fmt.Sprintf("body{src: newChunkedReader(%s), hdr: %s, r: %s}: the chunked reader must decode the connection reader r, and hdr must be the message so that the trailer after the last chunk is consumed", core.Render(call.Call.Args[0]), core.Render(hdr), core.Render(rd))
				}
			}
			c.Check("wiring", fmt.Sprintf("readTransfer:chunked-body#%d", i), call.Pos(), okBody, why)
		}
		// no other body reader may be installed under chunked
		for i, ci := range core.Calls(fn, "io.LimitReader") {
			f := fx.At(ci.(ssa.Instruction).Block())
			c.Check("wiring", fmt.Sprintf("readTransfer:length-body-not-chunked#%d", i), ci.Pos(), c23ChunkedFact(f, false),
				"a Content-Length delimited body is installed without chunked(t.TransferEncoding) being false: chunked must take precedence")
		}
	}
	c24ChunkedPredicate(c, fx, "wiring")
	if fn := c.P.Func(pkg, "newChunkedReader"); fn == nil {
		c.Missing(pkg + ".newChunkedReader")
	} else {
		c.Analysed(core.FuncKey(fn))
		// the decoder must keep using a *bfe_bufio.Reader it is given (bytes already buffered belong to the body)
		reuse, wraps := false, true
		core.Instrs(fn, func(in ssa.Instruction) {
			st, ok := in.(*ssa.Store)
			if !ok {
				return
			}
			fa, ok := st.Addr.(*ssa.FieldAddr)
			if !ok || !strings.HasSuffix(core.TypeStr(fa.X.Type()), "chunkedReader") {
				return
			}
			var leaves []ssa.Value
			if phi, ok := st.Val.(*ssa.Phi); ok {
				leaves = phi.Edges
			} else {
				leaves = []ssa.Value{st.Val}
			}
			for _, l := range leaves {
				if ex, ok := l.(*ssa.Extract); ok && ex.Index == 0 {
					if ta, ok := ex.Tuple.(*ssa.TypeAssert); ok && ta.X == ssa.Value(fn.Params[0]) {
						reuse = true
						continue
					}
				}
				if call, ok := l.(*ssa.Call); ok && core.CallIs(&call.Call, "bfe_bufio.NewReader") && core.StripConv(call.Call.Args[0]) == ssa.Value(fn.Params[0]) {
					continue
				}
				wraps = false
			}
		})
		c.Check("wiring", "newChunkedReader:reuses-buffered-reader", fn.Pos(), reuse && wraps, "newChunkedReader must decode from the *bfe_bufio.Reader it is given (or wrap the given reader): a fresh buffer would skip the body bytes that are already buffered")
	}
	if fn := c.P.Func(pkg, "body.readLocked"); fn == nil {
		c.Missing(pkg + ".body.readLocked")
	} else {
		c.Analysed(core.FuncKey(fn))
		rx := c23NewRx(fn, "b")
		calls := core.Calls(fn, pkg+".body.readTrailer")
		c.Check("wiring", "readLocked:trailer-read", fn.Pos(), len(calls) == 1, fmt.Sprintf("expected one readTrailer call in body.readLocked, found %d", len(calls)))
		for _, ci := range calls {
			f := fx.At(ci.(ssa.Instruction).Block())
			eof := h1aHasCmp(f, func(v ssa.Value) bool {
				ex, ok := v.(*ssa.Extract)
				if !ok || ex.Index != 1 {
					return false
				}
				call, ok := ex.Tuple.(*ssa.Call)
				return ok && call.Call.IsInvoke() && call.Call.Method.Name() == "Read" && rx.R(call.Call.Value) == "b.src"
			}, h1aOpIs(token.EQL), func(v ssa.Value) bool { return c23LoadOf(v, "io.EOF") })
			hdr := h1aHasCmp(f, func(v ssa.Value) bool { return rx.LoadOf(v, "b.hdr") }, h1aOpIs(token.NEQ), h1aIsNil)
			c.Check("wiring", "readLocked:trailer-on-eof", ci.Pos(), eof && hdr, "the trailer is read without `b.src.Read error == io.EOF && b.hdr != nil` being established (it must be consumed exactly once, after the last chunk); facts: "+strings.Join(h1aFactStrs(f), " && "))
		}
	}
	if fn := c.P.Func(pkg, "body.readTrailer"); fn == nil {
		c.Missing(pkg + ".body.readTrailer")
	} else {
		c.Analysed(core.FuncKey(fn))
		n := 0
		for i, r := range core.Returns(fn) {
			if !h1aIsNil(r.Results[0]) {
				continue
			}
			n++
			f := fx.At(r.Block())
			crlf := false
			if eq := h1aBoolCallFact(f, true, "bytes.Equal"); eq != nil {
				a0, a1 := h1aResolve(eq.Call.Args[0]), eq.Call.Args[1]
				pk := h1aExtractOf(a0, 0, "bfe_bufio.Reader.Peek")
				if pk != nil && c23LoadOf(a1, "bfe_http.singleCRLF") {
					if k, ok := h1aConstInt(pk.Call.Args[1]); ok && k == 2 {
						// exactly the two bytes are consumed
						nb := 0
						for _, in := range r.Block().Instrs {
							if ci, ok := in.(*ssa.Call); ok && core.CallIs(&ci.Call, "bfe_bufio.Reader.ReadByte") {
								nb++
							}
						}
						crlf = nb == 2
					}
				}
			}
			parsed := false
			for _, ci := range core.Calls(fn, "bfe_net/textproto.Reader.ReadMIMEHeader") {
				if call, ok := ci.(*ssa.Call); ok && h1aErrIs(f, call, 1, true) {
					parsed = true
				}
			}
			c.Check("wiring", fmt.Sprintf("readTrailer:success#%d", i), r.Pos(), crlf || parsed, "readTrailer reports success although neither the two bytes CRLF were seen and consumed nor a trailer block was parsed without error; facts: "+strings.Join(h1aFactStrs(f), " && "))
		}
		c.Check("wiring", "readTrailer:has-success", fn.Pos(), n >= 1, "readTrailer has no success return")
		if g := c.P.SPkg[pkg]; g != nil {
			c.Check("wiring", "singleCRLF", fn.Pos(), c23GlobalBytes(g, "singleCRLF") == "\r\n", "singleCRLF is not []byte(\"\\r\\n\")")
		}
	}
}

// c23GlobalBytes returns the string constant a package-level []byte variable
// is initialised from (`var x = []byte("…")`).
func c23GlobalBytes(p *ssa.Package, name string) string {
	g, ok := p.Members[name].(*ssa.Global)
	if !ok {
		return "?"
	}
	init := p.Func("init")
	if init == nil {
		return "?"
	}
	res := "?"
	core.Instrs(init, func(in ssa.Instruction) {
		st, ok := in.(*ssa.Store)
		if !ok || st.Addr != ssa.Value(g) {
			return
		}
		if cv, ok := st.Val.(*ssa.Convert); ok {
			if s, ok := core.ConstString(cv.X); ok {
				res = s
			}
		}
	})
	return res
}

// ------------------------------------------------------------ encoder

func c23Encoder(c *core.Ctx, fx *h1aFacts) {
	const pkg = "bfe_http"
	c.Min("encode", 6)
	if fn := c.P.Func(pkg, "chunkedWriter.Write"); fn == nil {
		c.Missing(pkg + ".chunkedWriter.Write")
	} else {
		c.Analysed(core.FuncKey(fn))
		rx := c23NewRx(fn, "cw")
		fps := core.Calls(fn, "fmt.Fprintf")
		var wr, ws ssa.CallInstruction
		for _, ci := range core.AllCalls(fn) {
			cc := ci.Common()
			if cc.IsInvoke() && cc.Method.Name() == "Write" && rx.R(cc.Value) == "cw.Wire" {
				wr = ci
			}
			if core.CallIs(cc, "io.WriteString") {
				ws = ci
			}
		}
		if len(fps) != 1 || wr == nil || ws == nil {
			c.Check("encode", "Write:shape", fn.Pos(), false, "expected fmt.Fprintf(size line), cw.Wire.Write(data) and io.WriteString(CRLF) in chunkedWriter.Write")
		} else {
			fp := fps[0]
			f := fx.At(fp.(ssa.Instruction).Block())
			isLenData := func(v ssa.Value) bool {
				lc, ok := core.StripConv(v).(*ssa.Call)
				if !ok || len(lc.Call.Args) != 1 || lc.Call.Args[0] != ssa.Value(fn.Params[1]) {
					return false
				}
				bi, ok := lc.Call.Value.(*ssa.Builtin)
				return ok && bi.Name() == "len"
			}
			nonEmpty := h1aHasCmp(f, isLenData, h1aOpIs(token.NEQ, token.GTR), func(v ssa.Value) bool { k, ok := h1aConstInt(v); return ok && k == 0 })
			c.Check("encode", "Write:nonempty", fp.Pos(), nonEmpty, "a chunk is emitted without len(data) != 0 established: a zero-length chunk is the end-of-body marker")
			format, _ := core.ConstString(fp.Common().Args[1])
			va := h1aVarargs(fp.Common().Args[2])
			c.Check("encode", "Write:size-line", fp.Pos(), (format == "%x\r\n" || format == "%X\r\n") && len(va) == 1 && isLenData(va[0]) && rx.R(fp.Common().Args[0]) == "cw.Wire",
				fmt.Sprintf("the chunk-size line must be fmt.Fprintf(cw.Wire, \"%%x\\r\\n\", len(data)); format %q with %d operands", format, len(va)))
			c.Check("encode", "Write:data", wr.Pos(), wr.Common().Args[0] == ssa.Value(fn.Params[1]), "the chunk data written is "+core.Render(wr.Common().Args[0])+", expected the caller's data")
			s, _ := core.ConstString(ws.Common().Args[1])
			c.Check("encode", "Write:data-crlf", ws.Pos(), s == "\r\n" && rx.R(ws.Common().Args[0]) == "cw.Wire", fmt.Sprintf("chunk data must be followed by CRLF on cw.Wire; writes %q", s))
			c.Check("encode", "Write:order", fn.Pos(), core.Dominates(fp.(ssa.Instruction), wr.(ssa.Instruction)) && core.Dominates(wr.(ssa.Instruction), ws.(ssa.Instruction)), "size line, data and CRLF must be written in this order")
		}
	}
	if fn := c.P.Func(pkg, "chunkedWriter.Close"); fn == nil {
		c.Missing(pkg + ".chunkedWriter.Close")
	} else {
		c.Analysed(core.FuncKey(fn))
		ok := false
		for _, ci := range core.Calls(fn, "io.WriteString") {
			if s, isS := core.ConstString(ci.Common().Args[1]); isS && s == "0\r\n" {
				ok = core.MustPass(fn, nil, func(in ssa.Instruction) bool { return in == ci.(ssa.Instruction) }) == nil
			}
		}
		c.Check("encode", "Close:last-chunk", fn.Pos(), ok, "chunkedWriter.Close must write the last-chunk line \"0\\r\\n\" on every path")
	}
	if fn := c.P.Func(pkg, "transferWriter.WriteBody"); fn == nil {
		c.Missing(pkg + ".transferWriter.WriteBody")
	} else {
		c.Analysed(core.FuncKey(fn))
		ncw := core.Calls(fn, pkg+".newChunkedWriter")
		okCW := len(ncw) >= 1
		for _, ci := range ncw {
			if !c23ChunkedFact(fx.At(ci.(ssa.Instruction).Block()), true) || ci.Common().Args[0] != ssa.Value(fn.Params[1]) {
				okCW = false
			}
		}
		c.Check("encode", "WriteBody:chunked-writer", fn.Pos(), okCW, "the chunked writer must wrap w exactly when chunked(t.TransferEncoding)")
		okEnd := false
		var endCall ssa.Instruction
		for _, ci := range core.Calls(fn, "io.WriteString") {
			if s, isS := core.ConstString(ci.Common().Args[1]); isS && s == "\r\n" && ci.Common().Args[0] == ssa.Value(fn.Params[1]) && c23ChunkedFact(fx.At(ci.(ssa.Instruction).Block()), true) {
				okEnd = true
				endCall = ci.(ssa.Instruction)
			}
		}
		c.Check("encode", "WriteBody:final-crlf", fn.Pos(), okEnd, "after the last chunk the (empty) trailer must be terminated by CRLF under chunked(t.TransferEncoding)")
		// the last-chunk line is written (Close of the chunked writer) once the copy succeeded
		closes := 0
		for _, ci := range core.AllCalls(fn) {
			cc := ci.Common()
			if !cc.IsInvoke() || cc.Method.Name() != "Close" {
				continue
			}
			call, ok := cc.Value.(*ssa.Call)
			if !ok || !core.CallIs(&call.Call, pkg+".newChunkedWriter") {
				continue
			}
			closes++
			okCopy := false
			for _, cp := range core.Calls(fn, "io.Copy") {
				cpc, isCall := cp.(*ssa.Call)
				if isCall && core.StripConv(cpc.Call.Args[0]) == ssa.Value(call) && h1aErrIs(fx.At(ci.(ssa.Instruction).Block()), cpc, 1, true) {
					okCopy = true
				}
			}
			c.Check("encode", "WriteBody:last-chunk-after-copy", ci.Pos(), okCopy, "the chunked writer is closed (last-chunk line) without the body copy into it having succeeded")
		}
		c.Check("encode", "WriteBody:closes-chunked-writer", fn.Pos(), closes == 1, fmt.Sprintf("expected one Close of the chunked writer, found %d", closes))
		_ = endCall
	}
}
