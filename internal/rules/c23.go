package rules

import (
	"fmt"
	"go/constant"
	"go/token"
	"go/types"
	"strings"

	"golang.org/x/tools/go/ssa"

	"verif/internal/core"
)

// C23 — chunked transfer coding is decoded exactly.
func init() {
	Register(&Rule{
		ID: "C23", Section: "5 C23",
		Technique: "conditional constant propagation of parseHexUint's loop body for all 256 byte values and for the boundary digit counts; resolved branch facts (control dependence with && / || expansion and store-to-load resolution) in chunkedReader.beginChunk/Read, readLine, readTransfer, body.readLocked/readTrailer and the chunk encoder; feasible-path enumeration of chunkedReader.Read for the CRLF clause",
		Meta: core.Meta{
			Level:       "other",
			Explanation: "Decides, in bfe_http: (1) parseHexUint, folded with the current byte bound to each of the 256 values: the 22 hex digits continue the loop with accumulator = accumulator*16 + digit value, every other byte reaches a return with a non-nil error; the 17th digit (or a 17-byte line) reaches an error return while the 16th is accepted; a zero-length line reaches an error return. (2) beginChunk parses exactly the line returned by readLine(cr.r), only after its error was tested, stores the parsed size to cr.n, publishes both errors in cr.err and stores io.EOF only under `parse error == nil && size == 0`. (3) chunkedReader.Read: nothing is read while cr.err is set; beginChunk runs only when cr.n == 0 and its error is tested before data is read; the slice handed to the buffered reader is clamped to cr.n; cr.n is decreased by exactly the count read on every path; when cr.n reaches 0 without error two bytes are read into cr.buf and, unless both compare equal to CR and LF, an error is stored (every feasible path). (4) readLine reads up to LF, returns a line only when ReadSlice succeeded and len < maxLineLength, returns a non-nil error otherwise, and trims only trailing bytes from the set {SP, HT, CR, LF} (must include CR and LF). (5) readTransfer installs newChunkedReader(r) on the connection's own reader exactly under chunked(TransferEncoding) with hdr = msg; body.readLocked reads the trailer only on io.EOF with hdr != nil; readTrailer's fast path requires the two bytes CRLF. (6) the encoder writes no chunk for empty data, the size line is \"%x\\r\\n\" of len(data), the data, then CRLF; Close writes \"0\\r\\n\" and WriteBody terminates a chunked body with CRLF. Not covered: equality of decoded and encoded data as byte strings (round trip), chunk extensions (a ';' in the size line is rejected as an invalid byte), trailer field semantics, behaviour of bfe_bufio.Reader itself (C22). Robustness: the rules look at an anchored function together with its private helpers (unexported, same package, every call site inside the region; parameters are identified with the arguments at the call site, `return helper(…)` tails with the helper's returns), conditions are taken with their polarity folded in and through named / materialised booleans and boolean helpers, the digit loop is folded from the loop header whatever its form (range or index, tests before or after the load of the byte). Not followed (reported as not established): a trimming loop rewritten with an index cursor instead of b[:len(b)-1], a CRLF comparison other than per-byte or string(cr.buf[:]) == \"\\r\\n\", a clamp computed as a minimum instead of a re-slice under len(b) > cr.n, inlining of beginChunk into Read (anchor missing).",
			RuleText:    "obligations = 4 byte classes + 16th/17th digit + empty line of parseHexUint; value-flow, guard and store obligations of beginChunk; guard/clamp/consume/CRLF obligations of chunkedReader.Read; readLine returns; trim set; readTransfer/readLocked/readTrailer wiring; encoder constants and order",
			Assumptions: []string{"errors.New / fmt.Errorf results and package-level Err* / io.EOF variables are non-nil errors"},
		},
		Run: runC23,
		Mutants: []Mutant{
			{Name: "silent-read-crlf-compare-in-helper", Silent: true, File: "bfe_http/chunked.go", Old: "\t\t\tif cr.buf[0] != '\\r' || cr.buf[1] != '\\n' {\n\t\t\t\tcr.err = errors.New(\"malformed chunked encoding\")\n\t\t\t}\n\t\t}\n\t}\n\treturn n, cr.err\n}\n", New: "\t\t\tcr.checkCRLF()\n\t\t}\n\t}\n\treturn n, cr.err\n}\n\n// checkCRLF records an error unless the two bytes read after the chunk data are CR LF.\nfunc (r *chunkedReader) checkCRLF() {\n\tif r.buf[0] != '\\r' || r.buf[1] != '\\n' {\n\t\tr.err = errors.New(\"malformed chunked encoding\")\n\t}\n}\n"},
			{Name: "silent-read-chunk-done-helper", Silent: true, File: "bfe_http/chunked.go", Old: "\tif cr.n == 0 && cr.err == nil {\n\t\t// end of chunk (CRLF)\n\t\tif _, cr.err = io.ReadFull(cr.r, cr.buf[:]); cr.err == nil {\n\t\t\tif cr.buf[0] != '\\r' || cr.buf[1] != '\\n' {\n\t\t\t\tcr.err = errors.New(\"malformed chunked encoding\")\n\t\t\t}\n\t\t}\n\t}\n\treturn n, cr.err\n}\n", New: "\tif cr.chunkDone() {\n\t\t// end of chunk (CRLF)\n\t\tif _, cr.err = io.ReadFull(cr.r, cr.buf[:]); cr.err == nil {\n\t\t\tif cr.buf[0] != '\\r' || cr.buf[1] != '\\n' {\n\t\t\t\tcr.err = errors.New(\"malformed chunked encoding\")\n\t\t\t}\n\t\t}\n\t}\n\treturn n, cr.err\n}\n\n// chunkDone reports whether the data of the current chunk was returned completely.\nfunc (cr *chunkedReader) chunkDone() bool {\n\treturn cr.n == 0 && cr.err == nil\n}\n"},
			{Name: "silent-hex-index-loop-check-first", Silent: true, File: "bfe_http/chunked.go", Old: "\tfor i, b := range v {\n\t\tif i == 16 {\n\t\t\treturn 0, errors.New(\"http chunk length too large\")\n\t\t}\n", New: "\tfor i := 0; i < len(v); i++ {\n\t\tif i >= 16 {\n\t\t\treturn 0, errors.New(\"http chunk length too large\")\n\t\t}\n\t\tb := v[i]\n"},
			{Name: "silent-read-begin-guard-lt1-and-defensive-check", Silent: true, File: "bfe_http/chunked.go", Old: "\tif cr.n == 0 {\n\t\tcr.beginChunk()\n\t\tif cr.err != nil {\n\t\t\treturn 0, cr.err\n\t\t}\n\t}\n\tif uint64(len(b)) > cr.n {\n\t\tb = b[0:cr.n]\n\t}\n", New: "\tif cr.n < 1 {\n\t\tcr.beginChunk()\n\t\tif cr.err != nil {\n\t\t\treturn 0, cr.err\n\t\t}\n\t}\n\tif uint64(len(b)) > cr.n {\n\t\tb = b[0:cr.n]\n\t}\n\tif uint64(len(b)) > cr.n {\n\t\t// cannot happen: b was clamped above\n\t\treturn 0, errors.New(\"chunked reader: buffer not clamped\")\n\t}\n"},
			{Name: "silent-begin-chunk-parse-in-helper", Silent: true, File: "bfe_http/chunked.go", Old: "\tcr.n, cr.err = parseHexUint(line)\n\tif cr.err != nil {\n\t\treturn\n\t}\n\tif cr.n == 0 {\n\t\tcr.err = io.EOF\n\t}\n}\n", New: "\tcr.setChunkSize(line)\n}\n\n// setChunkSize parses the chunk-size line; size 0 is the last chunk.\nfunc (rd *chunkedReader) setChunkSize(sizeLine []byte) {\n\trd.n, rd.err = parseHexUint(sizeLine)\n\tif rd.err == nil && rd.n == 0 {\n\t\trd.err = io.EOF\n\t}\n}\n"},
			{Name: "hex-upper-bound-g", File: "bfe_http/chunked.go", Old: "case 'a' <= b && b <= 'f':", New: "case 'a' <= b && b <= 'g':", Expect: "hex-digit|parseHexUint:other"},
			{Name: "hex-value-off", File: "bfe_http/chunked.go", Old: "b = b - 'A' + 10", New: "b = b - 'A' + 9", Expect: "hex-digit|parseHexUint:A-F"},
			{Name: "hex-shift-3", File: "bfe_http/chunked.go", Old: "		n <<= 4\n", New: "		n <<= 3\n", Expect: "hex-digit|parseHexUint"},
			{Name: "hex-default-skips", File: "bfe_http/chunked.go", Old: "			return 0, errors.New(\"invalid byte in chunk length\")", New: "			continue", Expect: "hex-digit|parseHexUint:other"},
			{Name: "begin-parse-error-ignored", File: "bfe_http/chunked.go", Old: "	cr.n, cr.err = parseHexUint(line)\n	if cr.err != nil {\n		return\n	}\n", New: "	cr.n, cr.err = parseHexUint(line)\n", Expect: "begin-chunk|beginChunk:eof-store"},
			{Name: "begin-line-error-ignored", File: "bfe_http/chunked.go", Old: "	line, cr.err = readLine(cr.r)\n	if cr.err != nil {\n		return\n	}\n", New: "	line, cr.err = readLine(cr.r)\n", Expect: "begin-chunk|beginChunk:line-error-tested"},
			{Name: "read-crlf-and", File: "bfe_http/chunked.go", Old: "if cr.buf[0] != '\\r' || cr.buf[1] != '\\n' {", New: "if cr.buf[0] != '\\r' && cr.buf[1] != '\\n' {", Expect: "read-crlf|"},
			{Name: "read-crlf-dropped", File: "bfe_http/chunked.go", Old: "			if cr.buf[0] != '\\r' || cr.buf[1] != '\\n' {\n				cr.err = errors.New(\"malformed chunked encoding\")\n			}\n", New: "", Expect: "read-crlf|"},
			{Name: "read-clamp-off-by-one", File: "bfe_http/chunked.go", Old: "		b = b[0:cr.n]\n", New: "		b = b[0 : cr.n+1]\n", Expect: "read-clamp|"},
			{Name: "read-begin-always", File: "bfe_http/chunked.go", Old: "	if cr.n == 0 {\n		cr.beginChunk()\n		if cr.err != nil {\n			return 0, cr.err\n		}\n	}", New: "	{\n		cr.beginChunk()\n		if cr.err != nil {\n			return 0, cr.err\n		}\n	}", Expect: "read-guard|Read:begin-on-zero"},
			{Name: "read-begin-error-untested", File: "bfe_http/chunked.go", Old: "		cr.beginChunk()\n		if cr.err != nil {\n			return 0, cr.err\n		}\n", New: "		cr.beginChunk()\n", Expect: "read-guard|Read:begin-error-tested"},
			{Name: "read-consume-dropped", File: "bfe_http/chunked.go", Old: "	cr.n -= uint64(n)\n	if cr.n == 0 && cr.err == nil {", New: "	if cr.n == 0 && cr.err == nil {", Expect: "read-consume|"},
			{Name: "readline-limit-dropped", File: "bfe_http/chunked.go", Old: "	if len(p) >= maxLineLength {\n		return nil, ErrLineTooLong\n	}\n", New: "", Expect: "readline|readLine:max-length"},
			{Name: "trim-eats-zero", File: "bfe_http/chunked.go", Old: "return b == ' ' || b == '\\t' || b == '\\n' || b == '\\r'", New: "return b == ' ' || b == '\\t' || b == '\\n' || b == '\\r' || b == '0'", Expect: "trim|isASCIISpace"},
			{Name: "encode-decimal-size", File: "bfe_http/chunked.go", Old: "fmt.Fprintf(cw.Wire, \"%x\\r\\n\", len(data))", New: "fmt.Fprintf(cw.Wire, \"%d\\r\\n\", len(data))", Expect: "encode|Write:size-line"},
			{Name: "encode-empty-chunk", File: "bfe_http/chunked.go", Old: "	if len(data) == 0 {\n		return 0, nil\n	}\n\n	if _, err = fmt.Fprintf", New: "	if _, err = fmt.Fprintf", Expect: "encode|Write:nonempty"},
			{Name: "wiring-chunked-on-limit", File: "bfe_http/transfer.go", Old: "			t.Body = &body{src: newChunkedReader(r), hdr: msg, r: r, closing: t.Close}", New: "			t.Body = &body{src: newChunkedReader(r), r: r, closing: t.Close}", Expect: "wiring|readTransfer:chunked-body"},
			{Name: "trailer-read-on-any-error", File: "bfe_http/transfer.go", Old: "	if err == io.EOF {\n		// Chunked case. Read the trailer.", New: "	if err != nil {\n		// Chunked case. Read the trailer.", Expect: "wiring|readLocked:trailer-on-eof"},
			{Name: "silent-rename-receiver-and-log", Silent: true, File: "bfe_http/chunked.go", Old: "func (cr *chunkedReader) beginChunk() {\n	// chunk-size CRLF\n	var line []byte\n	line, cr.err = readLine(cr.r)\n	if cr.err != nil {\n		return\n	}\n	cr.n, cr.err = parseHexUint(line)\n	if cr.err != nil {\n		return\n	}\n	if cr.n == 0 {\n		cr.err = io.EOF\n	}\n}", New: "func (r *chunkedReader) beginChunk() {\n	// chunk-size CRLF\n	var sizeLine []byte\n	sizeLine, r.err = readLine(r.r)\n	if r.err != nil {\n		return\n	}\n	_ = len(sizeLine)\n	r.n, r.err = parseHexUint(sizeLine)\n	if r.err != nil {\n		return\n	}\n	if r.n == 0 {\n		r.err = io.EOF\n	}\n}"},
			{Name: "silent-hex-if-chain", Silent: true, File: "bfe_http/chunked.go", Old: "		switch {\n		case '0' <= b && b <= '9':\n			b -= '0'\n		case 'a' <= b && b <= 'f':\n			b = b - 'a' + 10\n		case 'A' <= b && b <= 'F':\n			b = b - 'A' + 10\n		default:\n			return 0, errors.New(\"invalid byte in chunk length\")\n		}", New: "		if b >= '0' && b <= '9' {\n			b = b - '0'\n		} else if b >= 'A' && b <= 'F' {\n			b = b - 'A' + 10\n		} else if b >= 'a' && b <= 'f' {\n			b = b - 'a' + 10\n		} else {\n			return 0, errors.New(\"invalid byte in chunk length\")\n		}"},
		},
	})
}

func c23Hexval(b int) (int, bool) {
	switch {
	case '0' <= b && b <= '9':
		return b - '0', true
	case 'a' <= b && b <= 'f':
		return b - 'a' + 10, true
	case 'A' <= b && b <= 'F':
		return b - 'A' + 10, true
	}
	return 0, false
}

// c23LoadOf: v is a load of <root>.<field> (root rendered as given).
func c23LoadOf(v ssa.Value, path string) bool {
	u, ok := v.(*ssa.UnOp)
	return ok && u.Op == token.MUL && core.Render(u.X) == path
}

func c23IsErrorReturn(out h1aOutcome, fx *h1aFacts) bool {
	if out.Kind != "return" || out.Ret == nil || len(out.Vals) == 0 {
		return false
	}
	if out.Vals[len(out.Vals)-1].k == 'n' {
		return false
	}
	return h1aNonNilErr(h1aRetErr(out.Ret), fx.At(out.Ret.Block()), nil)
}

func c23Describe(out h1aOutcome) string {
	switch out.Kind {
	case "return":
		var vs []string
		for _, v := range out.Vals {
			vs = append(vs, v.String())
		}
		return "returns (" + strings.Join(vs, ", ") + ")"
	case "stop":
		return "continues with the next byte"
	case "unknown":
		if out.At != nil {
			return "reaches a branch that constants do not decide (" + core.Render(out.At.(*ssa.If).Cond) + ")"
		}
		return "reaches an instruction the folder cannot follow"
	}
	return out.Kind
}

func runC23(c *core.Ctx) {
	h1aDebugDump(c)
	const pkg = "bfe_http"
	if c.P.Pkg(pkg) == nil {
		c.Missing(pkg)
		return
	}
	defer h1rRegister(c.P)()
	h1rAnchors(c.P, pkg, "parseHexUint", "chunkedReader.beginChunk", "chunkedReader.Read", "readLine", "trimTrailingWhitespace", "isASCIISpace",
		"readTransfer", "newChunkedReader", "newChunkedWriter", "chunked", "body.readLocked", "body.readTrailer",
		"chunkedWriter.Write", "chunkedWriter.Close", "transferWriter.WriteBody")
	fx := h1aNewFacts()
	c23ParseHex(c, fx)
	c23BeginChunk(c, fx)
	c23Read(c, fx)
	c23ReadLine(c, fx)
	c23Wiring(c, fx)
	c23Encoder(c, fx)
}

// ------------------------------------------------------------ parseHexUint

func c23ParseHex(c *core.Ctx, fx *h1aFacts) {
	const pkg = "bfe_http"
	fn := c.P.Func(pkg, "parseHexUint")
	if fn == nil {
		c.Missing(pkg + ".parseHexUint")
		return
	}
	c.Analysed(core.FuncKey(fn))
	c.Min("hex-digit", 5)
	c.Min("hex-bound", 1)
	c.Min("hex-empty", 1)
	if len(fn.Params) != 1 {
		c.Check("hex-digit", "parseHexUint:shape", fn.Pos(), false, "parseHexUint no longer takes the single size line")
		return
	}
	elems := h1aElems(fn, fn.Params[0])
	// accumulator = result #0 of the success return
	var acc *ssa.Phi
	for _, r := range core.Returns(fn) {
		rv := core.RetVals(r)
		if len(rv) == 2 && h1aIsNil(rv[1]) {
			if phi, ok := rv[0].(*ssa.Phi); ok {
				acc = phi
			}
		}
	}
	if len(elems) != 1 || acc == nil {
		c.Check("hex-digit", "parseHexUint:shape", fn.Pos(), false, fmt.Sprintf("cannot identify the digit loop: %d loads of the current byte, accumulator found=%v (expected one `for … range v` loop whose accumulator is returned on success)", len(elems), acc != nil))
		c.Check("hex-bound", "parseHexUint:17th-digit", fn.Pos(), false, "digit loop not identified")
		c.Check("hex-empty", "parseHexUint:empty-line", fn.Pos(), false, "digit loop not identified")
		return
	}
	elem := elems[0]
	eb := elem.(ssa.Instruction).Block()
	if !acc.Block().Dominates(eb) {
		c.Check("hex-digit", "parseHexUint:shape", fn.Pos(), false, "the value returned on success is not the loop accumulator")
		return
	}
	// first-iteration seeds for the other loop-carried integers (range index)
	seedsAt := func(iter int64, accVal uint64) map[ssa.Value]h1aV {
		env := map[ssa.Value]h1aV{}
		for _, in := range acc.Block().Instrs {
			phi, ok := in.(*ssa.Phi)
			if !ok {
				break
			}
			if phi == acc {
				env[phi] = h1aV{k: 'i', u: h1aWrap(accVal, phi.Type())}
				continue
			}
			for i, e := range phi.Edges {
				if acc.Block().Dominates(phi.Block().Preds[i]) {
					continue // back edge
				}
				if k, ok := h1aConstInt(e); ok {
					env[phi] = h1aV{k: 'i', u: h1aWrap(uint64(k+iter), phi.Type())}
				}
			}
		}
		return env
	}
	ev := &h1aEvaluator{Global: h1aTableResolver(c)}
	// one iteration is folded from the loop header (the block of the accumulator
	// phi) back to it, with the loop-carried values and the current byte bound:
	// tests placed before or after the load of the byte, in a range loop or in
	// an index loop, are all on that way
	header := acc.Block()
	var bodyEntry *ssa.BasicBlock
	for _, s := range header.Succs {
		if s != header && (s == eb || s.Dominates(eb)) {
			bodyEntry = s
		}
	}
	fold := func(b int, iter int64, accVal uint64) h1aOutcome {
		env := seedsAt(iter, accVal)
		// values the loop header derives from the seeded phis (the range index i = phi + 1)
		nphi := 0
		for _, in := range header.Instrs {
			if _, ok := in.(*ssa.Phi); !ok {
				break
			}
			nphi++
		}
		ev.steps = 0
		ev.Seeded = map[ssa.Value]bool{}
		for k := range env {
			ev.Seeded[k] = true
		}
		ev.Run(header, nphi, nil, env, func(*ssa.BasicBlock) bool { return true }, 0)
		ev.Seeded = map[ssa.Value]bool{elem: true}
		env[elem] = h1aV{k: 'i', u: uint64(b)}
		ev.steps = 0
		if bodyEntry == nil || eb == header {
			return ev.Run(eb, h1aIdx(elem.(ssa.Instruction))+1, nil, env, func(to *ssa.BasicBlock) bool { return to.Dominates(eb) }, 0)
		}
		return ev.Run(bodyEntry, 0, header, env, func(to *ssa.BasicBlock) bool { return to == header }, 0)
	}
	const acc0 = 0x1234
	classes := []struct {
		key    string
		member func(b int) bool
	}{
		{"0-9", func(b int) bool { return '0' <= b && b <= '9' }},
		{"a-f", func(b int) bool { return 'a' <= b && b <= 'f' }},
		{"A-F", func(b int) bool { return 'A' <= b && b <= 'F' }},
		{"other", func(b int) bool { _, ok := c23Hexval(b); return !ok }},
	}
	for _, cl := range classes {
		bad := ""
		for b := 0; b < 256 && bad == ""; b++ {
			if !cl.member(b) {
				continue
			}
			out := fold(b, 0, acc0)
			if d, isHex := c23Hexval(b); isHex {
				want := uint64(acc0)<<4 | uint64(d)
				if out.Kind != "stop" {
					bad = fmt.Sprintf("byte %q: expected the loop to continue, but it %s", rune(b), c23Describe(out))
				} else if got := out.Env[acc]; got.k != 'i' || got.u != want {
					bad = fmt.Sprintf("byte %q with accumulator 0x%x: accumulator becomes %s, expected 0x%x (= n*16 + %d)", rune(b), acc0, got, want, d)
				}
			} else if !c23IsErrorReturn(out, fx) {
				bad = fmt.Sprintf("byte 0x%02x is not a hex digit but parseHexUint %s instead of returning an error", b, c23Describe(out))
			}
		}
		c.Check("hex-digit", "parseHexUint:"+cl.key, fn.Pos(), bad == "", bad)
	}
	// 16th digit accepted
	out16 := fold('f', 15, 0x0fffffffffffffff)
	ok16 := out16.Kind == "stop" && out16.Env[acc].k == 'i' && out16.Env[acc].u == 0xffffffffffffffff
	c.Check("hex-digit", "parseHexUint:16th-digit-accepted", fn.Pos(), ok16, "the 16th hex digit (ffffffffffffffff) must be accepted: the loop "+c23Describe(out16))

	// length bound: 17th digit in the loop, or a 17-byte line before the loop
	foldEntry := func(n int64) h1aOutcome {
		env := map[ssa.Value]h1aV{}
		core.Instrs(fn, func(in ssa.Instruction) {
			if call, ok := in.(*ssa.Call); ok {
				if bi, ok := call.Call.Value.(*ssa.Builtin); ok && bi.Name() == "len" && len(call.Call.Args) == 1 && call.Call.Args[0] == ssa.Value(fn.Params[0]) {
					env[call] = h1aV{k: 'i', u: uint64(n)}
				}
			}
		})
		ev2 := &h1aEvaluator{Global: h1aTableResolver(c), Seeded: map[ssa.Value]bool{}}
		for k := range env {
			ev2.Seeded[k] = true
		}
		return ev2.Run(fn.Blocks[0], 0, nil, env, func(to *ssa.BasicBlock) bool { return to == eb || to == bodyEntry }, 0)
	}
	out17 := fold('1', 16, 0x0123456789abcdef)
	pre17 := foldEntry(17)
	bounded := c23IsErrorReturn(out17, fx) || c23IsErrorReturn(pre17, fx)
	detail := "a 17th hex digit is neither rejected inside the loop (the loop " + c23Describe(out17) + ") nor by a length test before it (with len(v)=17 the function " + c23Describe(pre17) + "): 17 or more digits shift the high bits out of the uint64 and a different chunk size is used"
	if !bounded {
		ovf := fold('1', 0, 1<<60)
		if c23IsErrorReturn(ovf, fx) {
			detail += " (an overflow test on the accumulator exists, but the digit count is not limited to 16)"
		}
	}
	c.Check("hex-bound", "parseHexUint:17th-digit", fn.Pos(), bounded, detail)
	if bounded {
		pre16 := foldEntry(16)
		c.Check("hex-bound", "parseHexUint:16-digits-accepted", fn.Pos(), !c23IsErrorReturn(pre16, fx), "a 16-digit size line is rejected by the length test")
	}
	// empty size line
	pre0 := foldEntry(0)
	emptyOK := c23IsErrorReturn(pre0, fx)
	why := "with len(v)=0 parseHexUint " + c23Describe(pre0)
	if !emptyOK {
		// or the only caller rejects it
		if bc := c.P.Func(pkg, "chunkedReader.beginChunk"); bc != nil {
			for _, call := range core.Calls(bc, pkg+".parseHexUint") {
				arg := call.Common().Args[0]
				for _, f := range fx.At(call.(ssa.Instruction).Block()) {
					x, op, y, ok := f.Cmp()
					if !ok {
						continue
					}
					lc, isLen := x.(*ssa.Call)
					k, isK := h1aConstInt(y)
					if !isLen || !isK || len(lc.Call.Args) != 1 || h1aResolve(lc.Call.Args[0]) != h1aResolve(arg) {
						continue
					}
					if bi, ok := lc.Call.Value.(*ssa.Builtin); !ok || bi.Name() != "len" {
						continue
					}
					if !constant.Compare(constant.MakeInt64(0), op, constant.MakeInt64(k)) {
						emptyOK = true
					}
				}
			}
		}
	}
	c.Check("hex-empty", "parseHexUint:empty-line", fn.Pos(), emptyOK, "an empty chunk-size line is not rejected: "+why+", i.e. size 0 = last chunk, so a body whose size line is blank is silently terminated instead of being an error")
}

// ------------------------------------------------------------ beginChunk

func c23BeginChunk(c *core.Ctx, fx *h1aFacts) {
	const pkg = "bfe_http"
	fn := c.P.Func(pkg, "chunkedReader.beginChunk")
	if fn == nil {
		c.Missing(pkg + ".chunkedReader.beginChunk")
		return
	}
	c.Analysed(core.FuncKey(fn))
	if len(fn.Params) == 0 {
		c.Check("begin-chunk", "beginChunk:shape", fn.Pos(), false, "beginChunk is no longer a method of the chunked reader")
		return
	}
	recv := ssa.Value(fn.Params[0])
	c.Min("begin-chunk", 6)
	parses := h1rRegionCalls(fn, pkg+".parseHexUint")
	lines := h1rRegionCalls(fn, pkg+".readLine")
	if len(parses) != 1 || len(lines) != 1 {
		c.Check("begin-chunk", "beginChunk:shape", fn.Pos(), false, fmt.Sprintf("expected one readLine and one parseHexUint call, found %d and %d", len(lines), len(parses)))
		return
	}
	parse, _ := parses[0].(*ssa.Call)
	line, _ := lines[0].(*ssa.Call)
	if parse == nil || line == nil {
		c.Check("begin-chunk", "beginChunk:shape", fn.Pos(), false, "readLine/parseHexUint are not plain calls")
		return
	}
	c.Check("begin-chunk", "beginChunk:line-source", line.Pos(), h1rLoadOfField(line.Call.Args[0], recv, "r"),
		"the size line is read from "+core.Render(line.Call.Args[0])+", expected the chunked reader's own buffered reader cr.r")
	c.Check("begin-chunk", "beginChunk:line-parsed", parse.Pos(), h1aIsResultOf(parse.Call.Args[0], line, 0),
		"parseHexUint is applied to "+core.Render(h1aRes(parse.Call.Args[0]))+", expected the line returned by readLine")
	pf := fx.At(parse.Block())
	c.Check("begin-chunk", "beginChunk:line-error-tested", parse.Pos(), h1aErrIs(pf, line, 1, true),
		"parseHexUint runs although readLine's error was not tested to be nil; facts here: "+strings.Join(h1aFactStrs(pf), " && "))
	// stores
	sizeStored, lineErrStored, parseErrStored := false, false, false
	h1rRegionInstrs(fn, func(in ssa.Instruction) {
		st, ok := in.(*ssa.Store)
		if !ok {
			return
		}
		switch {
		case h1rFieldIs(st.Addr, recv, "n"):
			if h1aIsResultOf(st.Val, parse, 0) {
				sizeStored = true
			} else {
				c.Check("begin-chunk", "beginChunk:size-store", st.Pos(), false, "cr.n is set to "+core.Render(st.Val)+", expected only the value parsed by parseHexUint")
			}
		case h1rFieldIs(st.Addr, recv, "err"):
			switch {
			case h1aIsResultOf(st.Val, line, 1):
				lineErrStored = true
			case h1aIsResultOf(st.Val, parse, 1):
				parseErrStored = true
			case c23LoadOf(st.Val, "io.EOF"):
				f := fx.At(st.Block())
				okErr := h1aErrIs(f, parse, 1, true)
				okZero := h1aHasCmp(f, func(v ssa.Value) bool { return h1aIsResultOf(v, parse, 0) }, h1aOpIs(token.EQL), func(v ssa.Value) bool { k, ok := h1aConstInt(v); return ok && k == 0 }) ||
					h1aHasCmp(f, func(v ssa.Value) bool { return h1aIsResultOf(v, parse, 0) }, h1aOpIs(token.LSS), func(v ssa.Value) bool { k, ok := h1aConstInt(v); return ok && k == 1 }) ||
					h1aHasCmp(f, func(v ssa.Value) bool { return h1aIsResultOf(v, parse, 0) }, h1aOpIs(token.LEQ), func(v ssa.Value) bool { k, ok := h1aConstInt(v); return ok && k == 0 })
				c.Check("begin-chunk", "beginChunk:eof-store", st.Pos(), okErr && okZero,
					"io.EOF (end of body) is stored although it is not established that parseHexUint succeeded and returned 0; facts: "+strings.Join(h1aFactStrs(f), " && "))
			default:
				c.Check("begin-chunk", "beginChunk:err-store", st.Pos(), h1aNonNilErr(st.Val, fx.At(st.Block()), nil), "cr.err is overwritten with "+core.Render(st.Val))
			}
		}
	})
	c.Check("begin-chunk", "beginChunk:size-stored", parse.Pos(), sizeStored, "the parsed chunk size is not stored to cr.n")
	c.Check("begin-chunk", "beginChunk:errors-published", fn.Pos(), lineErrStored && parseErrStored,
		fmt.Sprintf("errors must be left in cr.err for Read to return: readLine error stored=%v, parseHexUint error stored=%v", lineErrStored, parseErrStored))
}

// ------------------------------------------------------------ Read

// c23Atom classifies a resolved branch condition taken with polarity pol as a
// statement about the chunked reader obj: "err==nil", "err!=nil", "n==0",
// "n!=0", "buf[i]==k", "buf[i]!=k", "buf==CRLF", "buf!=CRLF"; "" otherwise.
// The operator is taken with the polarity folded in, operands in either order;
// for the unsigned counter `n > 0`, `n >= 1` are `n != 0` and `n < 1`,
// `n <= 0` are `n == 0`.
func c23Atom(cond ssa.Value, pol bool, obj ssa.Value) string {
	bo, ok := cond.(*ssa.BinOp)
	if !ok {
		return ""
	}
	op := bo.Op
	switch op {
	case token.EQL, token.NEQ, token.LSS, token.LEQ, token.GTR, token.GEQ:
	default:
		return ""
	}
	if !pol {
		op = h1aNegate(op)
	}
	x, y := bo.X, bo.Y
	if _, xc := core.StripConv(x).(*ssa.Const); xc {
		x, y = y, x
		op = h1aFlip(op)
	}
	eq := func(o token.Token) string {
		if o == token.EQL {
			return "=="
		}
		return "!="
	}
	switch {
	case h1rLoadOfField(x, obj, "err") && h1aIsNil(y) && (op == token.EQL || op == token.NEQ):
		return "err" + eq(op) + "nil"
	case h1rLoadOfField(x, obj, "n"):
		k, isK := h1aConstInt(y)
		if !isK {
			return ""
		}
		switch {
		case k == 0 && (op == token.EQL || op == token.LEQ), k == 1 && op == token.LSS:
			return "n==0"
		case k == 0 && (op == token.NEQ || op == token.GTR), k == 1 && op == token.GEQ:
			return "n!=0"
		}
		return ""
	}
	if op != token.EQL && op != token.NEQ {
		return ""
	}
	// cr.buf[i] ==/!= k
	if u, ok := core.StripConv(x).(*ssa.UnOp); ok && u.Op == token.MUL {
		if ia, ok := u.X.(*ssa.IndexAddr); ok && h1rFieldIs(ia.X, obj, "buf") {
			i, okI := h1aConstInt(ia.Index)
			k, okK := h1aConstInt(y)
			if okI && okK {
				return fmt.Sprintf("buf[%d]%s%d", i, eq(op), k)
			}
		}
	}
	// string(cr.buf[:]) ==/!= "\r\n"
	if cv, ok := x.(*ssa.Convert); ok {
		if sl, ok := cv.X.(*ssa.Slice); ok && sl.Low == nil && sl.High == nil && h1rFieldIs(sl.X, obj, "buf") {
			if s, isS := core.ConstString(y); isS && s == "\r\n" {
				return "buf" + eq(op) + "CRLF"
			}
		}
	}
	return ""
}

// c23FactAtoms lists the atoms (see c23Atom) among the facts.
func c23FactAtoms(fs []h1aFact, obj ssa.Value) map[string]h1aFact {
	out := map[string]h1aFact{}
	for _, f := range fs {
		if a := c23Atom(f.Cond, f.Pol, obj); a != "" {
			out[a] = f
		}
	}
	return out
}

func c23Read(c *core.Ctx, fx *h1aFacts) {
	const pkg = "bfe_http"
	fn := c.P.Func(pkg, "chunkedReader.Read")
	if fn == nil {
		c.Missing(pkg + ".chunkedReader.Read")
		return
	}
	c.Analysed(core.FuncKey(fn))
	c.Min("read-guard", 4)
	c.Min("read-clamp", 1)
	c.Min("read-consume", 2)
	c.Min("read-crlf", 2)
	if len(fn.Params) != 2 {
		c.Check("read-guard", "Read:shape", fn.Pos(), false, "chunkedReader.Read no longer has the io.Reader signature")
		return
	}
	recv := ssa.Value(fn.Params[0])
	region := h1rRegion(fn)
	for _, g := range region {
		c.Analysed(core.FuncKey(g))
	}
	begins := h1rRegionCalls(fn, pkg+".chunkedReader.beginChunk")
	reads := h1rRegionCalls(fn, "bfe_bufio.Reader.Read")
	fulls := h1rRegionCalls(fn, "io.ReadFull")
	if len(begins) != 1 || len(reads) != 1 || len(fulls) != 1 {
		c.Check("read-guard", "Read:shape", fn.Pos(), false, fmt.Sprintf("expected one call each of beginChunk, (*bfe_bufio.Reader).Read and io.ReadFull, found %d, %d, %d", len(begins), len(reads), len(fulls)))
		return
	}
	begin, _ := begins[0].(*ssa.Call)
	read, _ := reads[0].(*ssa.Call)
	full, _ := fulls[0].(*ssa.Call)
	if begin == nil || read == nil || full == nil {
		c.Check("read-guard", "Read:shape", fn.Pos(), false, "deferred or go calls where plain calls were expected")
		return
	}
	// the sticky error: a fact `cr.err == nil` whose load sees the state left by
	// the previous Read (nothing that may write cr.err runs between the entry of
	// Read and the load)
	isInitialErrNil := func(fs []h1aFact) bool {
		for _, f := range fs {
			if c23Atom(f.Cond, f.Pol, recv) != "err==nil" {
				continue
			}
			bo := f.Cond.(*ssa.BinOp)
			for _, o := range []ssa.Value{bo.X, bo.Y} {
				ld, ok := core.StripConv(o).(*ssa.UnOp)
				if !ok || !h1rLoadOfField(ld, recv, "err") || ld.Parent() != fn {
					continue
				}
				dirty := core.ReachAvoiding(fn, nil, func(in ssa.Instruction) bool { return in == ssa.Instruction(ld) },
					func(in ssa.Instruction) bool { return h1rMayWriteField(in, recv, "err") })
				if dirty == nil {
					return true
				}
			}
		}
		return false
	}
	for _, cs := range []struct {
		key  string
		call *ssa.Call
	}{{"beginChunk", begin}, {"data-read", read}, {"crlf-read", full}} {
		c.Check("read-guard", "Read:sticky-error:"+cs.key, cs.call.Pos(), isInitialErrNil(fx.At(cs.call.Block())),
			"the call is reachable although the error left in cr.err by an earlier Read was not tested on entry: after an error (or io.EOF) more bytes of the connection would be consumed as body")
	}
	// beginChunk only between chunks
	bf := fx.At(begin.Block())
	_, onZero := c23FactAtoms(bf, recv)["n==0"]
	c.Check("read-guard", "Read:begin-on-zero", begin.Pos(), onZero,
		"beginChunk is called although cr.n == 0 is not established: a size line would be parsed in the middle of chunk data; facts: "+strings.Join(h1aFactStrs(bf), " && "))
	// path rules
	type pathBad struct{ beginErr, consume, crlfMissing, crlfUnchecked string }
	var bad pathBad
	nPaths, nFull := 0, 0
	isSubStore := func(in ssa.Instruction) bool {
		st, ok := in.(*ssa.Store)
		if !ok || !h1rFieldIs(st.Addr, recv, "n") {
			return false
		}
		bo, ok := st.Val.(*ssa.BinOp)
		if !ok || bo.Op != token.SUB || !h1rLoadOfField(bo.X, recv, "n") {
			return false
		}
		return h1aIsResultOf(core.StripConv(bo.Y), read, 0)
	}
	inRegion := map[*ssa.Function]bool{}
	for _, g := range region {
		inRegion[g] = true
	}
	complete := h1rEventPaths(fn, func(h *ssa.Function) bool { return inRegion[h] && h != fn }, 4000, func(p *h1rPath) {
		nPaths++
		sawBegin, beginTested := false, false
		sawRead, sawSub := false, false
		zero, errNil := false, false
		sawFull, fullFailed, errStored, cr, lf := false, false, false, false, false
		for _, e := range p.Evs {
			if e.In != nil {
				switch {
				case e.In == ssa.Instruction(begin):
					sawBegin = true
				case e.In == ssa.Instruction(read):
					if sawBegin && !beginTested && bad.beginErr == "" {
						bad.beginErr = p.Sig()
					}
					sawRead = true
				case isSubStore(e.In):
					sawSub = true
				case e.In == ssa.Instruction(full):
					sawFull = true
				}
				if st, ok := e.In.(*ssa.Store); ok && sawFull && h1rFieldIs(st.Addr, recv, "err") && !h1aIsResultOf(st.Val, full, 1) && h1aNonNilErr(p.Res(st.Val), nil, nil) {
					errStored = true
				}
				continue
			}
			a := c23Atom(e.Cond, e.Pol, recv)
			switch {
			case sawBegin && !sawRead && a == "err==nil":
				beginTested = true
			case sawSub && !sawFull && a == "n==0":
				zero = true
			case sawSub && !sawFull && a == "err==nil":
				errNil = true
			case sawFull && a == "err!=nil":
				fullFailed = true
			case sawFull && a == "buf[0]==13":
				cr = true
			case sawFull && a == "buf[1]==10":
				lf = true
			case sawFull && a == "buf==CRLF":
				cr, lf = true, true
			}
		}
		if _, isRet := p.Last.(*ssa.Return); !isRet {
			return
		}
		if sawRead && !sawSub && bad.consume == "" {
			bad.consume = p.Sig()
		}
		if zero && errNil && !sawFull && bad.crlfMissing == "" {
			bad.crlfMissing = p.Sig()
		}
		if sawFull {
			nFull++
			if !fullFailed && !errStored && !(cr && lf) && bad.crlfUnchecked == "" {
				bad.crlfUnchecked = p.Sig()
			}
		}
	})
	if !complete {
		c.Check("read-crlf", "Read:paths", fn.Pos(), false, "path enumeration of chunkedReader.Read did not complete")
		return
	}
	c.Note("chunkedReader.Read: %d feasible paths, %d through the CRLF read", nPaths, nFull)
	c.Check("read-guard", "Read:begin-error-tested", begin.Pos(), bad.beginErr == "", "a path reads chunk data after beginChunk without testing cr.err (malformed size line or end of body ignored); branches: "+bad.beginErr)
	// clamp: every value the buffer handed to the underlying reader can be (phi
	// edges, values returned by a helper that does the clamping), with the
	// facts that hold where that value is chosen
	isBuf := func(v ssa.Value) bool { return h1aRes(v) == ssa.Value(fn.Params[1]) }
	type clampLeaf struct {
		v  ssa.Value
		fs []h1aFact
	}
	var leaves []clampLeaf
	var collect func(v ssa.Value, fs []h1aFact, d int)
	collect = func(v ssa.Value, fs []h1aFact, d int) {
		v = h1aRes(v)
		if d < 4 {
			if phi, ok := v.(*ssa.Phi); ok {
				for i, e := range phi.Edges {
					collect(e, append(append([]h1aFact{}, fs...), fx.Edge(phi.Block().Preds[i], phi.Block())...), d+1)
				}
				return
			}
			if call, ok := v.(*ssa.Call); ok {
				if h := call.Call.StaticCallee(); h != nil && inRegion[h] && h != fn && call.Call.Signature().Results().Len() == 1 {
					for _, r := range core.Returns(h) {
						collect(core.RetVals(r)[0], append(append([]h1aFact{}, fs...), fx.At(r.Block())...), d+1)
					}
					return
				}
			}
		}
		leaves = append(leaves, clampLeaf{v, fs})
	}
	collect(read.Call.Args[1], fx.At(read.Block()), 0)
	for i, lf := range leaves {
		ok := false
		why := core.Render(lf.v)
		switch x := lf.v.(type) {
		case *ssa.Slice:
			lowOK := x.Low == nil
			if k, isK := h1aConstInt(x.Low); x.Low != nil && isK && k == 0 {
				lowOK = true
			}
			ok = lowOK && x.High != nil && h1rLoadOfField(x.High, recv, "n") && isBuf(x.X)
		case *ssa.Parameter:
			ok = isBuf(x) && h1aHasCmp(lf.fs, func(v ssa.Value) bool { return h1rIsLenOf(v, isBuf) },
				h1aOpIs(token.LEQ, token.LSS), func(v ssa.Value) bool { return h1rLoadOfField(v, recv, "n") })
			why += " without len(b) <= cr.n established (facts: " + strings.Join(h1aFactStrs(lf.fs), " && ") + ")"
		}
		c.Check("read-clamp", fmt.Sprintf("Read:buffer#%d", i), read.Pos(), ok, "the buffer handed to the underlying reader is "+why+": more than the rest of the chunk could be returned as data")
	}
	// consume
	c.Check("read-consume", "Read:every-path", read.Pos(), bad.consume == "", "a path returns after reading data without `cr.n -= uint64(n)` (n = bytes read): the chunk boundary is lost; branches: "+bad.consume)
	h1rRegionInstrs(fn, func(in ssa.Instruction) {
		if st, ok := in.(*ssa.Store); ok && h1rFieldIs(st.Addr, recv, "n") {
			c.Check("read-consume", "Read:cr.n-store", st.Pos(), isSubStore(in), "cr.n is set to "+core.Render(st.Val)+" in Read; only cr.n - uint64(bytes read) keeps the chunk accounting")
		}
	})
	for i, r := range core.Returns(fn) {
		rv := core.RetVals(r)
		if len(rv) != 2 {
			continue
		}
		if k, isK := h1aConstInt(rv[0]); isK && k == 0 {
			continue
		}
		c.Check("read-consume", fmt.Sprintf("Read:count-returned#%d", i), r.Pos(), h1aIsResultOf(rv[0], read, 0), "Read reports "+core.Render(rv[0])+" bytes, expected the count returned by the underlying read")
	}
	// crlf
	bufOK := false
	if sl, ok := h1aRes(full.Call.Args[1]).(*ssa.Slice); ok && sl.Low == nil && sl.High == nil && h1rFieldIs(sl.X, recv, "buf") {
		if pt, ok := sl.X.Type().Underlying().(*types.Pointer); ok {
			if at, ok := pt.Elem().Underlying().(*types.Array); ok && at.Len() == 2 {
				bufOK = true
			}
		}
	}
	c.Check("read-crlf", "Read:two-bytes-from-conn", full.Pos(), bufOK && h1rLoadOfField(h1aRes(full.Call.Args[0]), recv, "r"),
		"the chunk terminator must be read as exactly two bytes from cr.r into cr.buf; reads "+core.Render(full.Call.Args[1])+" from "+core.Render(full.Call.Args[0]))
	c.Check("read-crlf", "Read:read-at-chunk-end", full.Pos(), bad.crlfMissing == "" && nFull > 0, "a path ends a chunk (cr.n == 0, no error) without reading the CRLF that must follow the chunk data; branches: "+bad.crlfMissing)
	c.Check("read-crlf", "Read:compared", full.Pos(), bad.crlfUnchecked == "" && nFull > 0, "a path reads the two bytes after the chunk data and returns without error although they were not both compared equal to CR and LF; branches: "+bad.crlfUnchecked)
}

// ------------------------------------------------------------ readLine

func c23ReadLine(c *core.Ctx, fx *h1aFacts) {
	const pkg = "bfe_http"
	fn := c.P.Func(pkg, "readLine")
	if fn == nil {
		c.Missing(pkg + ".readLine")
		return
	}
	c.Analysed(core.FuncKey(fn))
	c.Min("readline", 5)
	c.Min("trim", 3)
	rs := h1rRegionCalls(fn, "bfe_bufio.Reader.ReadSlice")
	if len(rs) != 1 {
		c.Check("readline", "readLine:shape", fn.Pos(), false, fmt.Sprintf("expected one ReadSlice call, found %d", len(rs)))
		return
	}
	call, _ := rs[0].(*ssa.Call)
	if call == nil {
		return
	}
	k, isK := h1aConstInt(call.Call.Args[1])
	c.Check("readline", "readLine:delimiter", call.Pos(), isK && k == '\n' && h1aRes(call.Call.Args[0]) == ssa.Value(fn.Params[0]), "the size line must be read from the given reader up to LF; delimiter "+core.Render(call.Call.Args[1]))
	maxLen := int64(-1)
	if k, ok := c.P.Obj(pkg, "maxLineLength").(*types.Const); ok {
		if v, ok := constant.Int64Val(k.Val()); ok {
			maxLen = v
		}
	} else {
		c.Missing(pkg + ".maxLineLength")
	}
	nSucc := 0
	for i, r := range h1rReturns(fn) {
		rv := core.RetVals(r)
		if len(rv) != 2 {
			continue
		}
		f := fx.At(r.Block())
		if h1aIsNil(rv[1]) {
			nSucc++
			c.Check("readline", "readLine:error-tested", r.Pos(), h1aErrIs(f, call, 1, true), "a line is returned although ReadSlice's error was not tested to be nil")
			bounded := false
			for _, ff := range f {
				x, op, y, ok := ff.Cmp()
				if !ok {
					continue
				}
				lc, isCall := x.(*ssa.Call)
				lim, isLim := h1aConstInt(y)
				if !isCall || !isLim || len(lc.Call.Args) != 1 || !h1aIsResultOf(lc.Call.Args[0], call, 0) {
					continue
				}
				if bi, ok := lc.Call.Value.(*ssa.Builtin); !ok || bi.Name() != "len" {
					continue
				}
				if (op == token.LSS && lim <= maxLen) || (op == token.LEQ && lim < maxLen) {
					bounded = true
				}
			}
			c.Check("readline", "readLine:max-length", r.Pos(), bounded && maxLen > 0, fmt.Sprintf("a line is returned without len(line) < maxLineLength (%d) being established; facts: %s", maxLen, strings.Join(h1aFactStrs(f), " && ")))
			// value: ReadSlice#0 possibly through trimTrailingWhitespace
			v := h1aRes(rv[0])
			if tc, ok := v.(*ssa.Call); ok && core.CallIs(&tc.Call, pkg+".trimTrailingWhitespace") {
				v = h1aRes(tc.Call.Args[0])
			}
			c.Check("readline", "readLine:line-value", r.Pos(), h1aIsResultOf(v, call, 0), "readLine returns "+core.Render(rv[0])+", expected the bytes returned by ReadSlice (trailing whitespace trimmed)")
			continue
		}
		c.Check("readline", fmt.Sprintf("readLine:error-return#%d", i), r.Pos(), h1aNonNilErr(rv[1], f, nil) && h1aIsNil(rv[0]), "an error exit of readLine returns ("+core.Render(rv[0])+", "+core.Render(rv[1])+"): must be (nil, non-nil error)")
	}
	c.Check("readline", "readLine:has-success", fn.Pos(), nSucc >= 1, "readLine has no success return")
	// trimming
	if sp := c.P.Func(pkg, "isASCIISpace"); sp == nil {
		c.Missing(pkg + ".isASCIISpace")
	} else {
		c.Analysed(core.FuncKey(sp))
		ev := &h1aEvaluator{Global: h1aTableResolver(c)}
		set := map[int64]bool{}
		undec := ""
		for b := 0; b < 256; b++ {
			out := h1aFoldCall(ev, sp, uint64(b))
			if out.Kind != "return" || len(out.Vals) != 1 || out.Vals[0].k != 'b' {
				undec = fmt.Sprintf("byte 0x%02x: %s", b, c23Describe(out))
				break
			}
			if out.Vals[0].b {
				set[int64(b)] = true
			}
		}
		allowed := map[int64]bool{' ': true, '\t': true, '\r': true, '\n': true}
		extra := h1aSetDiff(set, allowed)
		c.Check("trim", "isASCIISpace:set", sp.Pos(), undec == "" && len(extra) == 0 && set['\r'] && set['\n'],
			fmt.Sprintf("bytes trimmed from the end of a size line must be within {SP, HT, CR, LF} and include CR and LF; extra: %v, CR=%v LF=%v %s", extra, set['\r'], set['\n'], undec))
	}
	if tr := c.P.Func(pkg, "trimTrailingWhitespace"); tr == nil {
		c.Missing(pkg + ".trimTrailingWhitespace")
	} else {
		c.Analysed(core.FuncKey(tr))
		prefixOnly, n := true, 0
		core.Instrs(tr, func(in ssa.Instruction) {
			if sl, ok := in.(*ssa.Slice); ok {
				n++
				if sl.Low != nil {
					if k, isK := h1aConstInt(sl.Low); !isK || k != 0 {
						prefixOnly = false
					}
				}
				// High must be len(x)-1 of the same slice
				hi, ok := sl.High.(*ssa.BinOp)
				if !ok || hi.Op != token.SUB {
					prefixOnly = false
					return
				}
				if k, isK := h1aConstInt(hi.Y); !isK || k != 1 {
					prefixOnly = false
				}
			}
		})
		c.Check("trim", "trimTrailingWhitespace:prefix-only", tr.Pos(), prefixOnly, "trimTrailingWhitespace must only drop one trailing byte at a time (b[:len(b)-1])")
		tested := false
		for _, call := range core.Calls(tr, pkg+".isASCIISpace") {
			if u, ok := call.Common().Args[0].(*ssa.UnOp); ok {
				if ia, ok := u.X.(*ssa.IndexAddr); ok {
					if bo, ok := ia.Index.(*ssa.BinOp); ok && bo.Op == token.SUB {
						if k, isK := h1aConstInt(bo.Y); isK && k == 1 {
							if lc, ok := bo.X.(*ssa.Call); ok && len(lc.Call.Args) == 1 && lc.Call.Args[0] == ia.X {
								tested = true
							}
						}
					}
				}
			}
		}
		c.Check("trim", "trimTrailingWhitespace:tests-last-byte", tr.Pos(), tested, "the byte tested with isASCIISpace must be the last byte b[len(b)-1] of the slice being trimmed")
		for i, r := range core.Returns(tr) {
			// every slice op was checked; the result must be the (re-sliced) parameter
			c.Check("trim", fmt.Sprintf("trimTrailingWhitespace:result#%d", i), r.Pos(), h1aRoot(r.Results[0]) == ssa.Value(tr.Params[0]) || c23PhiOfParam(r.Results[0], tr.Params[0]), "trimTrailingWhitespace returns "+core.Render(r.Results[0])+", not a prefix of its argument")
		}
	}
}

func c23PhiOfParam(v ssa.Value, p *ssa.Parameter) bool {
	phi, ok := v.(*ssa.Phi)
	if !ok {
		return false
	}
	for _, e := range phi.Edges {
		if e == ssa.Value(p) {
			continue
		}
		sl, ok := e.(*ssa.Slice)
		if !ok || sl.X != ssa.Value(phi) {
			return false
		}
	}
	return true
}

// ------------------------------------------------------------ wiring in transfer.go

func c23FieldStores(alloc ssa.Value) map[string]ssa.Value {
	out := map[string]ssa.Value{}
	if alloc.Referrers() == nil {
		return out
	}
	for _, r := range *alloc.Referrers() {
		fa, ok := r.(*ssa.FieldAddr)
		if !ok || fa.Referrers() == nil {
			continue
		}
		f := core.FieldObj(fa.X, fa.Field)
		if f == nil {
			continue
		}
		for _, rr := range *fa.Referrers() {
			if st, ok := rr.(*ssa.Store); ok && st.Addr == fa {
				out[f.Name()] = st.Val
			}
		}
	}
	return out
}

// c23ChunkedFact: facts establish chunked(<x>.TransferEncoding) == pol.
func c23ChunkedFact(fs []h1aFact, pol bool) bool {
	call := h1aBoolCallFact(fs, pol, "bfe_http.chunked")
	if call == nil {
		return false
	}
	return strings.HasSuffix(core.Render(call.Call.Args[0]), ".TransferEncoding")
}

func c23Wiring(c *core.Ctx, fx *h1aFacts) {
	const pkg = "bfe_http"
	c.Min("wiring", 7)
	if fn := c.P.Func(pkg, "readTransfer"); fn == nil {
		c.Missing(pkg + ".readTransfer")
	} else {
		c.Analysed(core.FuncKey(fn))
		calls := h1rRegionCalls(fn, pkg+".newChunkedReader")
		c.Check("wiring", "readTransfer:chunked-reader-installed", fn.Pos(), len(calls) >= 1, "readTransfer never installs newChunkedReader")
		for i, ci := range calls {
			call, ok := ci.(*ssa.Call)
			if !ok {
				continue
			}
			f := fx.At(call.Block())
			c.Check("wiring", fmt.Sprintf("readTransfer:chunked-guard#%d", i), call.Pos(), c23ChunkedFact(f, true),
				"newChunkedReader is installed without chunked(t.TransferEncoding) being true; facts: "+strings.Join(h1aFactStrs(f), " && "))
			// body{src: <call>, hdr: msg, r: r}
			okBody := false
			why := "the chunked reader is not stored as src of a body"
			if call.Referrers() != nil {
				for _, r := range *call.Referrers() {
					st, ok := r.(*ssa.Store)
					if !ok {
						continue
					}
					fa, ok := st.Addr.(*ssa.FieldAddr)
					if !ok {
						continue
					}
					fields := c23FieldStores(fa.X)
					src, hdr, rd := fields["src"], fields["hdr"], fields["r"]
					okBody = src == ssa.Value(call) && hdr != nil && rd != nil && h1aResConv(hdr) == ssa.Value(fn.Params[0]) && h1aResConv(rd) == ssa.Value(fn.Params[1]) &&
						h1aResConv(call.Call.Args[0]) == ssa.Value(fn.Params[1])
					why = fmt.Sprintf("body{src: newChunkedReader(%s), hdr: %s, r: %s}: the chunked reader must decode the connection reader r, and hdr must be the message so that the trailer after the last chunk is consumed", core.Render(call.Call.Args[0]), core.Render(hdr), core.Render(rd))
				}
			}
			c.Check("wiring", fmt.Sprintf("readTransfer:chunked-body#%d", i), call.Pos(), okBody, why)
		}
		// no other body reader may be installed under chunked
		for i, ci := range h1rRegionCalls(fn, "io.LimitReader") {
			f := fx.At(ci.(ssa.Instruction).Block())
			c.Check("wiring", fmt.Sprintf("readTransfer:length-body-not-chunked#%d", i), ci.Pos(), c23ChunkedFact(f, false),
				"a Content-Length delimited body is installed without chunked(t.TransferEncoding) being false: chunked must take precedence")
		}
	}
	c24ChunkedPredicate(c, fx, "wiring")
	if fn := c.P.Func(pkg, "newChunkedReader"); fn == nil {
		c.Missing(pkg + ".newChunkedReader")
	} else {
		c.Analysed(core.FuncKey(fn))
		// the decoder must keep using a *bfe_bufio.Reader it is given (bytes already buffered belong to the body)
		reuse, wraps := false, true
		core.Instrs(fn, func(in ssa.Instruction) {
			st, ok := in.(*ssa.Store)
			if !ok {
				return
			}
			fa, ok := st.Addr.(*ssa.FieldAddr)
			if !ok || !strings.HasSuffix(core.TypeStr(fa.X.Type()), "chunkedReader") {
				return
			}
			var leaves []ssa.Value
			if phi, ok := st.Val.(*ssa.Phi); ok {
				leaves = phi.Edges
			} else {
				leaves = []ssa.Value{st.Val}
			}
			for _, l := range leaves {
				if ex, ok := l.(*ssa.Extract); ok && ex.Index == 0 {
					if ta, ok := ex.Tuple.(*ssa.TypeAssert); ok && ta.X == ssa.Value(fn.Params[0]) {
						reuse = true
						continue
					}
				}
				if call, ok := l.(*ssa.Call); ok && core.CallIs(&call.Call, "bfe_bufio.NewReader") && core.StripConv(call.Call.Args[0]) == ssa.Value(fn.Params[0]) {
					continue
				}
				wraps = false
			}
		})
		c.Check("wiring", "newChunkedReader:reuses-buffered-reader", fn.Pos(), reuse && wraps, "newChunkedReader must decode from the *bfe_bufio.Reader it is given (or wrap the given reader): a fresh buffer would skip the body bytes that are already buffered")
	}
	if fn := c.P.Func(pkg, "body.readLocked"); fn == nil {
		c.Missing(pkg + ".body.readLocked")
	} else {
		c.Analysed(core.FuncKey(fn))
		var recv ssa.Value
		if len(fn.Params) > 0 {
			recv = fn.Params[0]
		}
		calls := h1rRegionCalls(fn, pkg+".body.readTrailer")
		c.Check("wiring", "readLocked:trailer-read", fn.Pos(), len(calls) == 1, fmt.Sprintf("expected one readTrailer call in body.readLocked, found %d", len(calls)))
		for _, ci := range calls {
			f := fx.At(ci.(ssa.Instruction).Block())
			eof := h1aHasCmp(f, func(v ssa.Value) bool {
				ex, ok := v.(*ssa.Extract)
				if !ok || ex.Index != 1 {
					return false
				}
				call, ok := ex.Tuple.(*ssa.Call)
				return ok && call.Call.IsInvoke() && call.Call.Method.Name() == "Read" && h1rLoadOfField(call.Call.Value, recv, "src")
			}, h1aOpIs(token.EQL), func(v ssa.Value) bool { return c23LoadOf(v, "io.EOF") })
			hdr := h1aHasCmp(f, func(v ssa.Value) bool { return h1rLoadOfField(v, recv, "hdr") }, h1aOpIs(token.NEQ), h1aIsNil)
			c.Check("wiring", "readLocked:trailer-on-eof", ci.Pos(), eof && hdr, "the trailer is read without `b.src.Read error == io.EOF && b.hdr != nil` being established (it must be consumed exactly once, after the last chunk); facts: "+strings.Join(h1aFactStrs(f), " && "))
		}
	}
	if fn := c.P.Func(pkg, "body.readTrailer"); fn == nil {
		c.Missing(pkg + ".body.readTrailer")
	} else {
		c.Analysed(core.FuncKey(fn))
		n := 0
		for i, r := range h1rReturns(fn) {
			if len(r.Results) != 1 || !h1aIsNil(r.Results[0]) {
				continue
			}
			n++
			f := fx.At(r.Block())
			crlf := false
			if eq := h1aBoolCallFact(f, true, "bytes.Equal"); eq != nil {
				a0, a1 := h1aResolve(eq.Call.Args[0]), eq.Call.Args[1]
				pk := h1aExtractOf(a0, 0, "bfe_bufio.Reader.Peek")
				if pk != nil && c23LoadOf(a1, "bfe_http.singleCRLF") {
					if k, ok := h1aConstInt(pk.Call.Args[1]); ok && k == 2 {
						// exactly the two bytes are consumed: the ReadByte calls that are
						// executed on every way to this return once the two bytes were seen
						nb := 0
						for _, ci := range h1rRegionCalls(fn, "bfe_bufio.Reader.ReadByte") {
							in := ci.(ssa.Instruction)
							if in.Parent() == r.Parent() && (in.Block() == r.Block() || in.Block().Dominates(r.Block())) && h1aBoolCallFact(fx.At(in.Block()), true, "bytes.Equal") == eq {
								nb++
							}
						}
						crlf = nb == 2
					}
				}
			}
			parsed := false
			for _, ci := range h1rRegionCalls(fn, "bfe_net/textproto.Reader.ReadMIMEHeader") {
				if call, ok := ci.(*ssa.Call); ok && h1aErrIs(f, call, 1, true) {
					parsed = true
				}
			}
			c.Check("wiring", fmt.Sprintf("readTrailer:success#%d", i), r.Pos(), crlf || parsed, "readTrailer reports success although neither the two bytes CRLF were seen and consumed nor a trailer block was parsed without error; facts: "+strings.Join(h1aFactStrs(f), " && "))
		}
		c.Check("wiring", "readTrailer:has-success", fn.Pos(), n >= 1, "readTrailer has no success return")
		if g := c.P.SPkg[pkg]; g != nil {
			c.Check("wiring", "singleCRLF", fn.Pos(), c23GlobalBytes(g, "singleCRLF") == "\r\n", "singleCRLF is not []byte(\"\\r\\n\")")
		}
	}
}

// c23GlobalBytes returns the string constant a package-level []byte variable
// is initialised from (`var x = []byte("…")`).
func c23GlobalBytes(p *ssa.Package, name string) string {
	g, ok := p.Members[name].(*ssa.Global)
	if !ok {
		return "?"
	}
	init := p.Func("init")
	if init == nil {
		return "?"
	}
	res := "?"
	core.Instrs(init, func(in ssa.Instruction) {
		st, ok := in.(*ssa.Store)
		if !ok || st.Addr != ssa.Value(g) {
			return
		}
		if cv, ok := st.Val.(*ssa.Convert); ok {
			if s, ok := core.ConstString(cv.X); ok {
				res = s
			}
		}
	})
	return res
}

// ------------------------------------------------------------ encoder

func c23Encoder(c *core.Ctx, fx *h1aFacts) {
	const pkg = "bfe_http"
	c.Min("encode", 6)
	if fn := c.P.Func(pkg, "chunkedWriter.Write"); fn == nil {
		c.Missing(pkg + ".chunkedWriter.Write")
	} else {
		c.Analysed(core.FuncKey(fn))
		var recv ssa.Value
		if len(fn.Params) > 0 {
			recv = fn.Params[0]
		}
		isWire := func(v ssa.Value) bool { return h1rLoadOfField(h1aRes(v), recv, "Wire") }
		fps := h1rRegionCalls(fn, "fmt.Fprintf")
		var wr, ws ssa.CallInstruction
		for _, ci := range h1rRegionAllCalls(fn) {
			cc := ci.Common()
			if cc.IsInvoke() && cc.Method.Name() == "Write" && isWire(cc.Value) {
				wr = ci
			}
			if core.CallIs(cc, "io.WriteString") {
				ws = ci
			}
		}
		if len(fps) != 1 || wr == nil || ws == nil {
			c.Check("encode", "Write:shape", fn.Pos(), false, "expected fmt.Fprintf(size line), cw.Wire.Write(data) and io.WriteString(CRLF) in chunkedWriter.Write")
		} else {
			fp := fps[0]
			f := fx.At(fp.(ssa.Instruction).Block())
			isLenData := func(v ssa.Value) bool {
				lc, ok := core.StripConv(v).(*ssa.Call)
				if !ok || len(lc.Call.Args) != 1 || h1aRes(lc.Call.Args[0]) != ssa.Value(fn.Params[1]) {
					return false
				}
				bi, ok := lc.Call.Value.(*ssa.Builtin)
				return ok && bi.Name() == "len"
			}
			nonEmpty := h1aHasCmp(f, isLenData, h1aOpIs(token.NEQ, token.GTR), func(v ssa.Value) bool { k, ok := h1aConstInt(v); return ok && k == 0 }) ||
				h1aHasCmp(f, isLenData, h1aOpIs(token.GEQ), func(v ssa.Value) bool { k, ok := h1aConstInt(v); return ok && k == 1 })
			c.Check("encode", "Write:nonempty", fp.Pos(), nonEmpty, "a chunk is emitted without len(data) != 0 established: a zero-length chunk is the end-of-body marker")
			format, _ := core.ConstString(fp.Common().Args[1])
			va := h1aVarargs(fp.Common().Args[2])
			c.Check("encode", "Write:size-line", fp.Pos(), (format == "%x\r\n" || format == "%X\r\n") && len(va) == 1 && isLenData(va[0]) && isWire(fp.Common().Args[0]),
				fmt.Sprintf("the chunk-size line must be fmt.Fprintf(cw.Wire, \"%%x\\r\\n\", len(data)); format %q with %d operands", format, len(va)))
			c.Check("encode", "Write:data", wr.Pos(), h1aRes(wr.Common().Args[0]) == ssa.Value(fn.Params[1]), "the chunk data written is "+core.Render(wr.Common().Args[0])+", expected the caller's data")
			s, _ := core.ConstString(ws.Common().Args[1])
			c.Check("encode", "Write:data-crlf", ws.Pos(), s == "\r\n" && isWire(ws.Common().Args[0]), fmt.Sprintf("chunk data must be followed by CRLF on cw.Wire; writes %q", s))
			c.Check("encode", "Write:order", fn.Pos(), h1rDominates(fp.(ssa.Instruction), wr.(ssa.Instruction), fn) && h1rDominates(wr.(ssa.Instruction), ws.(ssa.Instruction), fn), "size line, data and CRLF must be written in this order")
		}
	}
	if fn := c.P.Func(pkg, "chunkedWriter.Close"); fn == nil {
		c.Missing(pkg + ".chunkedWriter.Close")
	} else {
		c.Analysed(core.FuncKey(fn))
		ok := false
		for _, ci := range h1rRegionCalls(fn, "io.WriteString") {
			if s, isS := core.ConstString(ci.Common().Args[1]); isS && s == "0\r\n" {
				if core.MustPass(fn, nil, core.LiftMust(func(in ssa.Instruction) bool { return in == ci.(ssa.Instruction) }, 3)) == nil {
					ok = true
				}
			}
		}
		c.Check("encode", "Close:last-chunk", fn.Pos(), ok, "chunkedWriter.Close must write the last-chunk line \"0\\r\\n\" on every path")
	}
	if fn := c.P.Func(pkg, "transferWriter.WriteBody"); fn == nil {
		c.Missing(pkg + ".transferWriter.WriteBody")
	} else {
		c.Analysed(core.FuncKey(fn))
		ncw := h1rRegionCalls(fn, pkg+".newChunkedWriter")
		okCW := len(ncw) >= 1
		for _, ci := range ncw {
			if !c23ChunkedFact(fx.At(ci.(ssa.Instruction).Block()), true) || h1aRes(ci.Common().Args[0]) != ssa.Value(fn.Params[1]) {
				okCW = false
			}
		}
		c.Check("encode", "WriteBody:chunked-writer", fn.Pos(), okCW, "the chunked writer must wrap w exactly when chunked(t.TransferEncoding)")
		okEnd := false
		var endCall ssa.Instruction
		for _, ci := range h1rRegionCalls(fn, "io.WriteString") {
			if s, isS := core.ConstString(ci.Common().Args[1]); isS && s == "\r\n" && h1aRes(ci.Common().Args[0]) == ssa.Value(fn.Params[1]) && c23ChunkedFact(fx.At(ci.(ssa.Instruction).Block()), true) {
				okEnd = true
				endCall = ci.(ssa.Instruction)
			}
		}
		c.Check("encode", "WriteBody:final-crlf", fn.Pos(), okEnd, "after the last chunk the (empty) trailer must be terminated by CRLF under chunked(t.TransferEncoding)")
		// the last-chunk line is written (Close of the chunked writer) once the copy succeeded
		closes := 0
		for _, ci := range h1rRegionAllCalls(fn) {
			cc := ci.Common()
			if !cc.IsInvoke() || cc.Method.Name() != "Close" {
				continue
			}
			call, ok := h1aRes(cc.Value).(*ssa.Call)
			if !ok || !core.CallIs(&call.Call, pkg+".newChunkedWriter") {
				continue
			}
			closes++
			okCopy := false
			for _, cp := range h1rRegionCalls(fn, "io.Copy") {
				cpc, isCall := cp.(*ssa.Call)
				if isCall && h1aResConv(cpc.Call.Args[0]) == ssa.Value(call) && h1aErrIs(fx.At(ci.(ssa.Instruction).Block()), cpc, 1, true) {
					okCopy = true
				}
			}
			c.Check("encode", "WriteBody:last-chunk-after-copy", ci.Pos(), okCopy, "the chunked writer is closed (last-chunk line) without the body copy into it having succeeded")
		}
		c.Check("encode", "WriteBody:closes-chunked-writer", fn.Pos(), closes == 1, fmt.Sprintf("expected one Close of the chunked writer, found %d", closes))
		_ = endCall
	}
}
