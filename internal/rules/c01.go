package rules

import (
	"fmt"
	"go/token"
	"go/types"
	"sort"
	"strings"

	"golang.org/x/tools/go/ssa"

	"verif/internal/core"
)

// C01 — smooth weighted round-robin gives exact weight shares.
func init() {
	Register(&Rule{
		ID: "C01", Section: "3 C01",
		Technique: "who-may-write / who-may-call census of the credit state, effect census (no rand/time/map-order) on the smooth path, guard + value-flow rules on the credit updates in smoothBalance",
		Meta: core.Meta{
			Level: "other",
			Explanation: "Decides the structural preconditions of exact shares, not the arithmetic: (a) determinism — no function reachable from bal_slb.smoothBalance calls math/rand or time.Now, ranges over a map or starts a goroutine; (b) credit ownership — BackendRR.current is written only by Init, UpdateWeight, BackendList.ResetWeight, initSlowStart, smoothBalance and simpleBalance, each of those is called only from its reviewed callers (in particular the credit reset ResetWeight/initWeight is reachable only from simpleBalance, never from a reload), the slow-start target weightSS.final is written only by BackendRR.Init, and BalanceRR.Update touches surviving elements only through UpdateWeight/MatchAddrPort/Release; (c) in smoothBalance every in-loop credit update is `current += weight` of the same element under the eligibility guard (Avail && weight > 0), the chosen element is the only one debited after the loop, the debit is the sum accumulated over exactly the eligible elements, and the choice compares credits with a strict `>`. Not covered: the numerical invariant (sum of credits = W, exact counts per window), slow-start ramp arithmetic.",
			RuleText:    "obligations = each store to BackendRR.current / weightSS.final, each caller of a credit writer, each call on a surviving element in Update, each effect reachable from smoothBalance, the update/debit sites of smoothBalance",
		},
		Run: runC01,
		Mutants: []Mutant{
			{Name: "reload-resets-credits", File: "bfe_balance/bal_slb/bal_rr.go", Old: "	brr.backends = backendsNew\n	brr.sorted = false\n	brr.next = 0\n}", New: "	brr.backends = backendsNew\n	brr.sorted = false\n	brr.next = 0\n	brr.initWeight()\n}", Expect: "credit-callers"},
			{Name: "slowstart-captures-target", File: "bfe_balance/bal_slb/backend_rr.go", Old: "		backRR.weightSS.startTime = time.Now()\n", New: "		backRR.weightSS.startTime = time.Now()\n		backRR.weightSS.final = backRR.weight\n", Expect: "final-writers"},
			{Name: "credit-for-ineligible", File: "bfe_balance/bal_slb/bal_rr.go", Old: "	for _, backendRR := range backs {\n		backend := backendRR.backend\n		// skip ineligible backend\n		if !backend.Avail() || backendRR.weight <= 0 {\n			continue\n		}\n", New: "	for _, backendRR := range backs {\n		backend := backendRR.backend\n		backendRR.current += backendRR.weight\n		// skip ineligible backend\n		if !backend.Avail() || backendRR.weight <= 0 {\n			continue\n		}\n", Expect: "credit-update"},
			{Name: "tie-break-ge", File: "bfe_balance/bal_slb/bal_rr.go", Old: "		if best == nil || backendRR.current > max {", New: "		if best == nil || backendRR.current >= max {", Expect: "choice-strict"},
			{Name: "random-tiebreak", File: "bfe_balance/bal_slb/bal_rr.go", Old: "		if best == nil || backendRR.current > max {", New: "		if best == nil || backendRR.current > max || (backendRR.current == max && rand.Int()%2 == 0) {", Expect: "determinism"},
			{Name: "weight-update-skipped", File: "bfe_balance/bal_slb/backend_rr.go", Old: "func (backRR *BackendRR) UpdateWeight(weight int) {\n", New: "func (backRR *BackendRR) UpdateWeight(weight int) {\n	if backRR.weightSS.final == weight*100 {\n		return\n	}\n", Expect: "weight-installed"},
			{Name: "repick-same-subcluster", File: "bfe_balance/bal_gslb/bal_gslb.go", Old: "		backend, err = current.balance(balAlgor, hashKey)\n		if err == nil {\n			return backend, nil\n		} else {", New: "		backend, err = current.balance(balAlgor, hashKey)\n		if err == nil && req.RetryTime > 0 && backend == req.Trans.Backend {\n			backend, err = current.balance(balAlgor, hashKey)\n		}\n		if err == nil {\n			return backend, nil\n		} else {", Expect: "single-pick"},
			{Name: "survivor-reinit", File: "bfe_balance/bal_slb/bal_rr.go", Old: "			backendRR.UpdateWeight(*bkConf.Weight)\n", New: "			backendRR.Init(brr.Name, bkConf)\n", Expect: "survivor-calls"},
			{Name: "debit-weight-sum", File: "bfe_balance/bal_slb/bal_rr.go", Old: "		total += backendRR.current\n", New: "		total += backendRR.weight\n		if backendRR.current < 0 {\n			total -= backendRR.weight\n		}\n", Expect: "debit"},
		},
	})
}

func runC01(c *core.Ctx) {
	const slb = "bfe_balance/bal_slb"
	if c.P.Pkg(slb) == nil {
		c.Missing(slb)
		return
	}
	sb := c.P.Func(slb, "smoothBalance")
	if sb == nil {
		c.Missing(slb + ".smoothBalance")
		return
	}
	// ---- (a) determinism ----------------------------------------------------------------
	for _, f := range core.TransitiveCallees(sb, 4) {
		if core.FuncPkgRel(f) == "" {
			continue
		}
		c.Analysed(core.FuncKey(f))
		bad := ""
		core.Instrs(f, func(in ssa.Instruction) {
			switch x := in.(type) {
			case ssa.CallInstruction:
				k := core.CalleeKey(x.Common())
				if strings.HasPrefix(k, "math/rand.") || k == "time.Now" || strings.HasPrefix(k, "crypto/rand.") {
					bad = "calls " + k
				}
				if _, isGo := in.(*ssa.Go); isGo {
					bad = "starts a goroutine"
				}
			case *ssa.Range:
				if _, isMap := x.X.Type().Underlying().(*types.Map); isMap {
					bad = "ranges over a map"
				}
			}
		})
		c.Check("determinism", core.FuncKey(f), f.Pos(), bad == "", "the smooth WRR path "+bad+": the pick sequence would no longer be a function of weights and availability")
	}
	c.Min("determinism", 2)

	// ---- (b) ownership ------------------------------------------------------------------------
	cur, ok := c.P.Obj(slb, "BackendRR.current").(*types.Var)
	if !ok {
		c.Missing(slb + ".BackendRR.current")
		return
	}
	writers := map[string][]string{ // writer -> allowed callers
		slb + ".BackendRR.Init":           {slb + ".BalanceRR.Init", slb + ".BalanceRR.Update"},
		slb + ".BackendRR.UpdateWeight":   {slb + ".BalanceRR.Update"},
		slb + ".BackendList.ResetWeight":  {slb + ".BalanceRR.initWeight"},
		slb + ".BalanceRR.initWeight":     {slb + ".BalanceRR.simpleBalance"},
		slb + ".BackendRR.initSlowStart":  {slb + ".BalanceRR.checkSlowStart"},
		slb + ".smoothBalance":            {slb + ".BalanceRR.smoothBalance", slb + ".BalanceRR.leastConnsSmoothBalance"},
		slb + ".BalanceRR.simpleBalance":  {slb + ".BalanceRR.Balance"},
	}
	all := c.P.SrcFuncs("")
	for _, st := range core.FieldStores(all, cur) {
		k := core.FuncKey(st.Fn)
		_, allowed := writers[k]
		c.Check("credit-writers", k, st.Store.Pos(), allowed, "BackendRR.current (the smooth-WRR credit) is written outside the reviewed writers")
	}
	c.Min("credit-writers", 6)
	var wk []string
	for w := range writers {
		wk = append(wk, w)
	}
	sort.Strings(wk)
	for _, w := range wk {
		allowed := map[string]bool{}
		for _, a := range writers[w] {
			allowed[a] = true
		}
		n := 0
		for _, f := range all {
			if len(core.Calls(f, w)) == 0 {
				continue
			}
			n++
			c.Check("credit-callers", w+"<-"+core.FuncKey(f), f.Pos(), allowed[core.FuncKey(f)],
				core.FuncKey(f)+" calls "+w+", which rewrites smooth-WRR credits; only "+strings.Join(writers[w], ", ")+" may (a reload or any other event that resets credits mid-period breaks the exact shares)")
		}
		if n == 0 && w != slb+".BalanceRR.simpleBalance" {
			c.Check("credit-callers", w+"<-none", token.NoPos, false, w+" has no static caller any more")
		}
	}
	c.Min("credit-callers", 7)
	// weightSS.final
	if wss, ok := c.P.Obj(slb, "WeightSS.final").(*types.Var); ok {
		for _, st := range core.FieldStores(all, wss) {
			k := core.FuncKey(st.Fn)
			c.Check("final-writers", k, st.Store.Pos(), k == slb+".BackendRR.Init", "the slow-start target weight (weightSS.final) is written outside BackendRR.Init; a restart would ramp towards a value other than the configured weight")
		}
		c.Min("final-writers", 1)
	} else {
		c.Missing(slb + ".WeightSS.final")
	}
	// Update: surviving elements keep their credit
	if up := c.P.Func(slb, "BalanceRR.Update"); up == nil {
		c.Missing(slb + ".BalanceRR.Update")
	} else {
		c.Analysed(core.FuncKey(up))
		okCalls := map[string]bool{slb + ".BackendRR.UpdateWeight": true, slb + ".BackendRR.MatchAddrPort": true, slb + ".BackendRR.Release": true}
		n := 0
		for _, ci := range core.AllCalls(up) {
			cc := ci.Common()
			sc := cc.StaticCallee()
			if sc == nil || sc.Signature.Recv() == nil || !strings.HasSuffix(core.TypeStr(sc.Signature.Recv().Type()), "bal_slb.BackendRR") {
				continue
			}
			old := strings.Contains(core.Render(cc.Args[0]), "brr.backends[")
			if !old {
				continue
			}
			n++
			c.Check("survivor-calls", core.FuncKey(sc), ci.Pos(), okCalls[core.FuncKey(sc)], "BalanceRR.Update calls "+core.FuncKey(sc)+" on an element of the old list; survivors must keep their credit (only UpdateWeight/MatchAddrPort/Release are reviewed)")
		}
		if n < 3 {
			c.Check("survivor-calls", "count", up.Pos(), false, fmt.Sprintf("expected calls on surviving elements in Update, found %d", n))
		}
	}

	// a reloaded weight is always installed: UpdateWeight stores weight*100 on every path
	if uw := c.P.Func(slb, "BackendRR.UpdateWeight"); uw == nil {
		c.Missing(slb + ".BackendRR.UpdateWeight")
	} else {
		c.Analysed(core.FuncKey(uw))
		bad := core.MustPass(uw, nil, func(x ssa.Instruction) bool {
			st, ok := x.(*ssa.Store)
			if !ok || core.Render(st.Addr) != "backRR.weight" {
				return false
			}
			b, ok := st.Val.(*ssa.BinOp)
			return ok && b.Op == token.MUL && core.Render(b.X) == "weight" && core.Render(b.Y) == "100"
		})
		c.Check("weight-installed", "BackendRR.UpdateWeight", uw.Pos(), bad == nil, "a path through UpdateWeight returns without storing the new weight (weight*100): a reload that changes a weight back to an earlier value would keep the stale weight and the shares would follow it")
	}
	// a pick that consumed credit is handed out: BalanceGslb.Balance never balances the same
	// sub-cluster twice in one call (a discarded smooth-WRR pick silently removes a selection)
	if gb := c.P.Func("bfe_balance/bal_gslb", "BalanceGslb.Balance"); gb == nil {
		c.Missing("bfe_balance/bal_gslb.BalanceGslb.Balance")
	} else {
		c.Analysed(core.FuncKey(gb))
		calls := core.Calls(gb, "bfe_balance/bal_gslb.SubCluster.balance")
		n := 0
		for i, a := range calls {
			for j, b := range calls {
				if i == j {
					continue
				}
				if core.ReachAvoiding(gb, a.(ssa.Instruction), nil, func(x ssa.Instruction) bool { return x == b.(ssa.Instruction) }) == nil {
					continue
				}
				n++
				same := core.StripConv(a.Common().Args[0]) == core.StripConv(b.Common().Args[0]) || core.Render(a.Common().Args[0]) == core.Render(b.Common().Args[0])
				c.Check("single-pick", fmt.Sprintf("BalanceGslb.Balance:balance#%d->#%d", i, j), b.Pos(), !same, "one Balance call can balance the same sub-cluster twice: the first pick already moved the smooth-WRR credits and is thrown away, so the observed sequence drops selections")
			}
		}
		for i, a := range calls {
			loop := core.ReachAvoiding(gb, a.(ssa.Instruction), nil, func(x ssa.Instruction) bool { return x == a.(ssa.Instruction) }) != nil
			c.Check("single-pick", fmt.Sprintf("BalanceGslb.Balance:balance#%d:once", i), a.Pos(), !loop, "SubCluster.balance is called in a loop inside one Balance call")
		}
		if len(calls) < 2 {
			c.Check("single-pick", "BalanceGslb.Balance:sites", gb.Pos(), false, fmt.Sprintf("expected the in-cluster and the cross-cluster balance call, found %d", len(calls)))
		}
	}
	// ---- (c) smoothBalance's updates ---------------------------------------------------------------
	c.Analysed(core.FuncKey(sb))
	loops := core.Loops(sb)
	inLoop := func(b *ssa.BasicBlock) bool {
		for _, l := range loops {
			if l.Body[b] {
				return true
			}
		}
		return false
	}
	nIn, nOut := 0, 0
	for _, st := range core.FieldStores([]*ssa.Function{sb}, cur) {
		elem := st.Store.Addr.(*ssa.FieldAddr).X
		b := st.Store.Block()
		if inLoop(b) {
			nIn++
			a, p := eligibleByGuards(elem, core.GuardsAt(b))
			add, isAdd := st.Store.Val.(*ssa.BinOp)
			shape := isAdd && add.Op == token.ADD && fieldLoadOf(add.X, "current") != nil && sameElem(fieldLoadOf(add.X, "current"), elem) && fieldLoadOf(add.Y, "weight") != nil && sameElem(fieldLoadOf(add.Y, "weight"), elem)
			c.Check("credit-update", fmt.Sprintf("smoothBalance:in-loop#%d", nIn), st.Store.Pos(), a && p && shape,
				fmt.Sprintf("in-loop credit update must be `e.current += e.weight` for an element that passed Avail() && weight > 0 (avail=%v positive=%v shape=%v): ineligible backends must keep their credit untouched", a, p, shape))
			continue
		}
		nOut++
		// debit of the chosen element
		sub, isSub := st.Store.Val.(*ssa.BinOp)
		okShape := isSub && sub.Op == token.SUB && fieldLoadOf(sub.X, "current") != nil && sameElem(fieldLoadOf(sub.X, "current"), elem)
		okTotal := false
		if okShape {
			if phi, isPhi := sub.Y.(*ssa.Phi); isPhi {
				okTotal = true
				seen := map[ssa.Value]bool{}
				var walk func(v ssa.Value)
				walk = func(v ssa.Value) {
					if seen[v] {
						return
					}
					seen[v] = true
					switch x := v.(type) {
					case *ssa.Phi:
						for _, e := range x.Edges {
							walk(e)
						}
					case *ssa.Const:
						if !isZero(x) {
							okTotal = false
						}
					case *ssa.BinOp:
						e := fieldLoadOf(x.Y, "current")
						if x.Op != token.ADD || e == nil {
							okTotal = false
							return
						}
						if a, p := eligibleByGuards(e, core.GuardsAt(x.Block())); !a || !p {
							okTotal = false
						}
						walk(x.X)
					default:
						okTotal = false
					}
				}
				walk(phi)
			}
		}
		elig := (&eligCtx{c: c, fnRet: map[*ssa.Function]int{}}).elem(elem, core.GuardsAt(b), map[ssa.Value]bool{})
		c.Check("debit", fmt.Sprintf("smoothBalance:debit#%d", nOut), st.Store.Pos(), okShape && okTotal && elig,
			fmt.Sprintf("after the scan only the chosen eligible element is debited, by the sum of the credits of exactly the eligible elements (shape=%v sum-over-eligible=%v chosen-eligible=%v)", okShape, okTotal, elig))
	}
	if nIn != 1 || nOut != 1 {
		c.Check("credit-update", "smoothBalance:sites", sb.Pos(), false, fmt.Sprintf("expected one in-loop credit update and one debit, found %d and %d", nIn, nOut))
	}
	// choice: strict greater-than on credits
	found := false
	for _, in := range allInstrs(sb) {
		b, ok := in.(*ssa.BinOp)
		if !ok || fieldLoadOf(b.X, "current") == nil {
			continue
		}
		if _, isPhi := b.Y.(*ssa.Phi); !isPhi {
			continue
		}
		switch b.Op {
		case token.GTR:
			found = true
			c.Check("choice-strict", "smoothBalance:compare", in.Pos(), true, "")
		case token.GEQ, token.LSS, token.LEQ:
			found = true
			c.Check("choice-strict", "smoothBalance:compare", in.Pos(), false, "the running maximum is compared with "+b.Op.String()+"; ties must keep the earlier element (strict >) or the order within a period changes")
		}
	}
	if !found {
		c.Check("choice-strict", "smoothBalance:compare", sb.Pos(), false, "no comparison of an element's credit with the running maximum found")
	}
}
