package rules

import (
	"fmt"
	"go/token"
	"go/types"
	"sort"
	"strings"

	"golang.org/x/tools/go/ssa"

	"verif/internal/core"
)

// C01 — smooth weighted round-robin gives exact weight shares.
func init() {
	Register(&Rule{
		ID: "C01", Section: "3 C01",
		Technique: "who-may-write / who-may-call census of the credit state, effect census (no rand/time/map-order) on the smooth path, guard + value-flow rules on the credit updates in smoothBalance",
		Meta: core.Meta{
			Level:       "other",
			Explanation: "Decides the structural preconditions of exact shares, not the arithmetic: (a) determinism — no function reachable from bal_slb.smoothBalance calls math/rand or time.Now, ranges over a map or starts a goroutine; (b) credit ownership — BackendRR.current is written only by Init, UpdateWeight, BackendList.ResetWeight, initSlowStart, smoothBalance and simpleBalance, each of those is called only from its reviewed callers (in particular the credit reset ResetWeight/initWeight is reachable only from simpleBalance, never from a reload), the slow-start target weightSS.final is written only by BackendRR.Init, and BalanceRR.Update touches surviving elements only through UpdateWeight/MatchAddrPort/Release; (c) in smoothBalance every in-loop credit update is `current += weight` of the same element under the eligibility guard (Avail && weight > 0), the chosen element is the only one debited after the loop, the debit is the sum accumulated over exactly the eligible elements, and the choice compares credits with a strict `>`. Not covered: the numerical invariant (sum of credits = W, exact counts per window), slow-start ramp arithmetic. Robustness: every clause is decided on regions (an anchor function plus its private helpers and closures): a store or call found in a helper all of whose call sites lie inside a reviewed writer/caller counts as that writer's/caller's; eligibility guards are read in either comparison spelling and polarity, through named booleans and through boolean predicate helpers (parameters bound to the call's arguments); sums, the chosen element and the key operands are followed through helper parameters and results; variables are identified by role (running best = a *BackendRR phi that takes list elements, debit subtrahend = what flows into the subtraction, UpdateWeight's operands = its receiver and parameter by position), never by name. No longer decided after this generalisation: that there is exactly one update site and one debit site (now: at least one of each, every one conforming, no two debits on one path); a helper shared between a reviewed writer and any other function is attributed to neither and is reported.",
			RuleText:    "obligations = each store to BackendRR.current / weightSS.final, each caller of a credit writer, each call on a surviving element in Update, each effect reachable from smoothBalance, the update/debit sites of smoothBalance",
		},
		Run: runC01,
		Mutants: []Mutant{
			{Name: "reload-resets-credits", File: "bfe_balance/bal_slb/bal_rr.go", Old: "	brr.backends = backendsNew\n	brr.sorted = false\n	brr.next = 0\n}", New: "	brr.backends = backendsNew\n	brr.sorted = false\n	brr.next = 0\n	brr.initWeight()\n}", Expect: "credit-callers"},
			{Name: "slowstart-captures-target", File: "bfe_balance/bal_slb/backend_rr.go", Old: "		backRR.weightSS.startTime = time.Now()\n", New: "		backRR.weightSS.startTime = time.Now()\n		backRR.weightSS.final = backRR.weight\n", Expect: "final-writers"},
			{Name: "credit-for-ineligible", File: "bfe_balance/bal_slb/bal_rr.go", Old: "	for _, backendRR := range backs {\n		backend := backendRR.backend\n		// skip ineligible backend\n		if !backend.Avail() || backendRR.weight <= 0 {\n			continue\n		}\n", New: "	for _, backendRR := range backs {\n		backend := backendRR.backend\n		backendRR.current += backendRR.weight\n		// skip ineligible backend\n		if !backend.Avail() || backendRR.weight <= 0 {\n			continue\n		}\n", Expect: "credit-update"},
			{Name: "tie-break-ge", File: "bfe_balance/bal_slb/bal_rr.go", Old: "		if best == nil || backendRR.current > max {", New: "		if best == nil || backendRR.current >= max {", Expect: "choice-strict"},
			{Name: "random-tiebreak", File: "bfe_balance/bal_slb/bal_rr.go", Old: "		if best == nil || backendRR.current > max {", New: "		if best == nil || backendRR.current > max || (backendRR.current == max && rand.Int()%2 == 0) {", Expect: "determinism"},
			{Name: "weight-update-skipped", File: "bfe_balance/bal_slb/backend_rr.go", Old: "func (backRR *BackendRR) UpdateWeight(weight int) {\n", New: "func (backRR *BackendRR) UpdateWeight(weight int) {\n	if backRR.weightSS.final == weight*100 {\n		return\n	}\n", Expect: "weight-installed"},
			{Name: "repick-same-subcluster", File: "bfe_balance/bal_gslb/bal_gslb.go", Old: "		backend, err = current.balance(balAlgor, hashKey)\n		if err == nil {\n			return backend, nil\n		} else {", New: "		backend, err = current.balance(balAlgor, hashKey)\n		if err == nil && req.RetryTime > 0 && backend == req.Trans.Backend {\n			backend, err = current.balance(balAlgor, hashKey)\n		}\n		if err == nil {\n			return backend, nil\n		} else {", Expect: "single-pick"},
			{Name: "survivor-reinit", File: "bfe_balance/bal_slb/bal_rr.go", Old: "			backendRR.UpdateWeight(*bkConf.Weight)\n", New: "			backendRR.Init(brr.Name, bkConf)\n", Expect: "survivor-calls"},
			{Name: "debit-weight-sum", File: "bfe_balance/bal_slb/bal_rr.go", Old: "		total += backendRR.current\n", New: "		total += backendRR.weight\n		if backendRR.current < 0 {\n			total -= backendRR.weight\n		}\n", Expect: "debit"},
			// behaviour-preserving refactorings: the verdict must not change
			{Name: "silent-eligibility-predicate-helper", File: "bfe_balance/bal_slb/bal_rr.go", Old: "func smoothBalance(backs BackendList) (*backend.BfeBackend, error) {\n\tvar best *BackendRR\n\ttotal, max := 0, 0\n\n\tfor _, backendRR := range backs {\n\t\tbackend := backendRR.backend\n\t\t// skip ineligible backend\n\t\tif !backend.Avail() || backendRR.weight <= 0 {\n\t\t\tcontinue\n\t\t}\n", New: "func rrTakesPart(item *BackendRR) bool {\n\treturn item.backend.Avail() && 0 < item.weight\n}\n\nfunc smoothBalance(backs BackendList) (*backend.BfeBackend, error) {\n\tvar best *BackendRR\n\ttotal, max := 0, 0\n\n\tfor _, backendRR := range backs {\n\t\t// skip ineligible backend\n\t\tif !rrTakesPart(backendRR) {\n\t\t\tcontinue\n\t\t}\n", Silent: true},
			{Name: "silent-debit-in-helper", File: "bfe_balance/bal_slb/bal_rr.go", Old: "\t// update current weight for chosen backend\n\tbest.current -= total\n\n\treturn best.backend, nil\n}\n", New: "\t// update current weight for chosen backend\n\trrDebit(best, total)\n\n\treturn best.backend, nil\n}\n\nfunc rrDebit(chosen *BackendRR, sum int) {\n\tchosen.current -= sum\n}\n", Silent: true},
			{Name: "silent-mirrored-choice", File: "bfe_balance/bal_slb/bal_rr.go", Old: "\t\tif best == nil || backendRR.current > max {", New: "\t\tif nil == best || max < backendRR.current {", Silent: true},
			{Name: "silent-update-range-loop", File: "bfe_balance/bal_slb/bal_rr.go", Old: "\tfor index := 0; index < len(brr.backends); index++ {\n\t\tbackendRR := brr.backends[index]\n", New: "\tfor _, backendRR := range brr.backends {\n", Silent: true},
			{Name: "silent-updateweight-renamed-store-helper", File: "bfe_balance/bal_slb/backend_rr.go", Old: "func (backRR *BackendRR) UpdateWeight(weight int) {\n\tbackRR.weight = weight * 100\n\n\t// if weight > 0, don't touch backRR.current\n\tif weight <= 0 {\n\t\tbackRR.current = 0\n\t}\n}", New: "func (backRR *BackendRR) storeWeight(scaled int) {\n\tbackRR.weight = scaled\n}\n\nfunc (backRR *BackendRR) UpdateWeight(newWeight int) {\n\tscaled := 100 * newWeight\n\tbackRR.storeWeight(scaled)\n\n\t// if newWeight > 0, don't touch backRR.current\n\tif newWeight <= 0 {\n\t\tbackRR.current = 0\n\t}\n}", Silent: true},
			{Name: "silent-cross-pick-helper", File: "bfe_balance/bal_gslb/bal_gslb.go", Old: "\tbackend, err = current.balance(balAlgor, hashKey)\n\tif err == nil {\n\t\treturn backend, nil\n\t}\n\n\t// fail to get backend from current sub-cluster\n\tstate.ErrBkNoBackend.Inc(1)\n\treq.ErrCode = bfe_basic.ErrBkNoBackend\n\treq.ErrMsg = fmt.Sprintf(\"cluster[%s], sub[%s], err[%s]\", bal.name, current.Name, err.Error())\n\tlog.Logger.Info(\"gslb.Balance():no backend(cross cluster):cluster[%s], sub[%s], err[%s]\",\n\t\tbal.name, current.Name, err.Error())\n\n\treturn backend, bfe_basic.ErrBkCrossRetryBalance\n}\n", New: "\tbackend, err = crossPick(current, balAlgor, hashKey)\n\tif err == nil {\n\t\treturn backend, nil\n\t}\n\n\t// fail to get backend from current sub-cluster\n\tstate.ErrBkNoBackend.Inc(1)\n\treq.ErrCode = bfe_basic.ErrBkNoBackend\n\treq.ErrMsg = fmt.Sprintf(\"cluster[%s], sub[%s], err[%s]\", bal.name, current.Name, err.Error())\n\tlog.Logger.Info(\"gslb.Balance():no backend(cross cluster):cluster[%s], sub[%s], err[%s]\",\n\t\tbal.name, current.Name, err.Error())\n\n\treturn backend, bfe_basic.ErrBkCrossRetryBalance\n}\n\n// crossPick balances inside the sub cluster chosen for the cross retry.\nfunc crossPick(target *SubCluster, algor int, key []byte) (*bal_backend.BfeBackend, error) {\n\treturn target.balance(algor, key)\n}\n", Silent: true},
			{Name: "silent-smooth-logging-defensive", File: "bfe_balance/bal_slb/bal_rr.go", Old: "\tif best == nil {\n\t\tif bfe_debug.DebugBal {\n\t\t\tlog.Logger.Debug(\"rr_bal:reset backend weight\")\n\t\t}\n\t\treturn nil, fmt.Errorf(\"rr_bal:all backend is down\")\n\t}\n\n\t// update current weight for chosen backend\n", New: "\tif best == nil {\n\t\tif bfe_debug.DebugBal {\n\t\t\tlog.Logger.Debug(\"rr_bal:reset backend weight\")\n\t\t}\n\t\treturn nil, fmt.Errorf(\"rr_bal:all backend is down\")\n\t}\n\n\t// defensive: credits of eligible backends always sum up to a positive value\n\tif total < 0 {\n\t\tif bfe_debug.DebugBal {\n\t\t\tlog.Logger.Debug(\"rr_bal:negative credit sum[%d], chosen[%s]\", total, best.backend.Name)\n\t\t}\n\t}\n\n\t// update current weight for chosen backend\n", Silent: true},
		},
	})
}

func runC01(c *core.Ctx) {
	defer balAcquire(c.P)()
	const slb = "bfe_balance/bal_slb"
	if c.P.Pkg(slb) == nil {
		c.Missing(slb)
		return
	}
	sb := c.P.Func(slb, "smoothBalance")
	if sb == nil {
		c.Missing(slb + ".smoothBalance")
		return
	}
	// ---- (a) determinism ----------------------------------------------------------------
	for _, f := range core.TransitiveCallees(sb, 4) {
		if core.FuncPkgRel(f) == "" {
			continue
		}
		c.Analysed(core.FuncKey(f))
		bad := ""
		core.Instrs(f, func(in ssa.Instruction) {
			switch x := in.(type) {
			case ssa.CallInstruction:
				k := core.CalleeKey(x.Common())
				if strings.HasPrefix(k, "math/rand.") || k == "time.Now" || strings.HasPrefix(k, "crypto/rand.") {
					bad = "calls " + k
				}
				if _, isGo := in.(*ssa.Go); isGo {
					bad = "starts a goroutine"
				}
			case *ssa.Range:
				if _, isMap := x.X.Type().Underlying().(*types.Map); isMap {
					bad = "ranges over a map"
				}
			}
		})
		c.Check("determinism", core.FuncKey(f), f.Pos(), bad == "", "the smooth WRR path "+bad+": the pick sequence would no longer be a function of weights and availability")
	}
	c.Min("determinism", 2)

	// ---- (b) ownership ------------------------------------------------------------------------
	cur, ok := c.P.Obj(slb, "BackendRR.current").(*types.Var)
	if !ok {
		c.Missing(slb + ".BackendRR.current")
		return
	}
	writers := map[string][]string{ // writer -> allowed callers
		slb + ".BackendRR.Init":          {slb + ".BalanceRR.Init", slb + ".BalanceRR.Update"},
		slb + ".BackendRR.UpdateWeight":  {slb + ".BalanceRR.Update"},
		slb + ".BackendList.ResetWeight": {slb + ".BalanceRR.initWeight"},
		slb + ".BalanceRR.initWeight":    {slb + ".BalanceRR.simpleBalance"},
		slb + ".BackendRR.initSlowStart": {slb + ".BalanceRR.checkSlowStart"},
		slb + ".smoothBalance":           {slb + ".BalanceRR.smoothBalance", slb + ".BalanceRR.leastConnsSmoothBalance"},
		slb + ".BalanceRR.simpleBalance": {slb + ".BalanceRR.Balance"},
	}
	fnOf := func(key string) *ssa.Function { return c.P.Func(slb, strings.TrimPrefix(key, slb+".")) }
	var wk []string
	var writerFns []*ssa.Function
	for w := range writers {
		wk = append(wk, w)
	}
	sort.Strings(wk)
	for _, w := range wk {
		writerFns = append(writerFns, fnOf(w))
	}
	all := c.P.SrcFuncs("")
	// a store in a private helper of a reviewed writer (a function all of whose call sites lie in that
	// writer's region) is a store of that writer
	for _, st := range core.FieldStores(all, cur) {
		k := core.FuncKey(st.Fn)
		c.Check("credit-writers", k, st.Store.Pos(), balInAnyRegion(c.P, st.Fn, writerFns) != nil, "BackendRR.current (the smooth-WRR credit) is written outside the reviewed writers (and their private helpers)")
	}
	c.Min("credit-writers", 6)
	for _, w := range wk {
		allowed := map[string]bool{}
		var allowedFns []*ssa.Function
		for _, a := range writers[w] {
			allowed[a] = true
			allowedFns = append(allowedFns, fnOf(a))
		}
		n := 0
		for _, f := range all {
			if len(core.Calls(f, w)) == 0 {
				continue
			}
			n++
			okCaller := allowed[core.FuncKey(f)] || balInAnyRegion(c.P, f, allowedFns) != nil
			c.Check("credit-callers", w+"<-"+core.FuncKey(f), f.Pos(), okCaller,
				core.FuncKey(f)+" calls "+w+", which rewrites smooth-WRR credits; only "+strings.Join(writers[w], ", ")+" (and their private helpers) may (a reload or any other event that resets credits mid-period breaks the exact shares)")
		}
		if n == 0 && w != slb+".BalanceRR.simpleBalance" {
			c.Check("credit-callers", w+"<-none", token.NoPos, false, w+" has no static caller any more")
		}
	}
	c.Min("credit-callers", 7)
	// weightSS.final
	if wss, ok := c.P.Obj(slb, "WeightSS.final").(*types.Var); ok {
		initFn := c.P.Func(slb, "BackendRR.Init")
		for _, st := range core.FieldStores(all, wss) {
			k := core.FuncKey(st.Fn)
			c.Check("final-writers", k, st.Store.Pos(), initFn != nil && balInRegion(c.P, initFn, st.Fn), "the slow-start target weight (weightSS.final) is written outside BackendRR.Init; a restart would ramp towards a value other than the configured weight")
		}
		c.Min("final-writers", 1)
	} else {
		c.Missing(slb + ".WeightSS.final")
	}
	// Update: surviving elements keep their credit
	if up := c.P.Func(slb, "BalanceRR.Update"); up == nil {
		c.Missing(slb + ".BalanceRR.Update")
	} else {
		c.Analysed(core.FuncKey(up))
		bf, _ := c.P.Obj(slb, "BalanceRR.backends").(*types.Var)
		okCalls := map[string]bool{slb + ".BackendRR.UpdateWeight": true, slb + ".BackendRR.MatchAddrPort": true, slb + ".BackendRR.Release": true}
		n := 0
		for _, in := range balRegionInstrs(c.P, up) {
			ci, isCall := in.(ssa.CallInstruction)
			if !isCall {
				continue
			}
			cc := ci.Common()
			sc := cc.StaticCallee()
			if sc == nil || sc.Signature.Recv() == nil || !strings.HasSuffix(core.TypeStr(sc.Signature.Recv().Type()), "bal_slb.BackendRR") {
				continue
			}
			// the receiver is an element of the published list brr.backends (possibly handed to a private helper)
			list, _ := balElemOfList(balUp(c.P, cc.Args[0]))
			if list == nil || bf == nil || balLoadOfField(balUp(c.P, list), bf) == nil {
				continue
			}
			n++
			c.Check("survivor-calls", core.FuncKey(sc), ci.Pos(), okCalls[core.FuncKey(sc)], "BalanceRR.Update calls "+core.FuncKey(sc)+" on an element of the old list; survivors must keep their credit (only UpdateWeight/MatchAddrPort/Release are reviewed)")
		}
		if n < 3 {
			c.Check("survivor-calls", "count", up.Pos(), false, fmt.Sprintf("expected calls on surviving elements in Update, found %d", n))
		}
	}

	// a reloaded weight is always installed: UpdateWeight stores weight*100 on every path
	if uw := c.P.Func(slb, "BackendRR.UpdateWeight"); uw == nil {
		c.Missing(slb + ".BackendRR.UpdateWeight")
	} else {
		c.Analysed(core.FuncKey(uw))
		wf, _ := c.P.Obj(slb, "BackendRR.weight").(*types.Var)
		// the store `recv.weight = weight * 100` (operands identified as UpdateWeight's receiver and
		// parameter, also when the store sits in a private helper they are handed to)
		install := func(x ssa.Instruction) bool {
			st, ok := x.(*ssa.Store)
			if !ok {
				return false
			}
			fa, ok := st.Addr.(*ssa.FieldAddr)
			if !ok || wf == nil || core.FieldObj(fa.X, fa.Field) != wf || !balIsParam(c.P, fa.X, uw, 0) {
				return false
			}
			b, ok := balUp(c.P, st.Val).(*ssa.BinOp)
			if !ok || b.Op != token.MUL {
				return false
			}
			return (balIsParam(c.P, b.X, uw, 1) && balConstIs(b.Y, "100")) || (balIsParam(c.P, b.Y, uw, 1) && balConstIs(b.X, "100"))
		}
		bad := core.MustPass(uw, nil, core.LiftMust(install, 2))
		c.Check("weight-installed", "BackendRR.UpdateWeight", uw.Pos(), bad == nil, "a path through UpdateWeight returns without storing the new weight (weight*100): a reload that changes a weight back to an earlier value would keep the stale weight and the shares would follow it")
	}
	// a pick that consumed credit is handed out: BalanceGslb.Balance never balances the same
	// sub-cluster twice in one call (a discarded smooth-WRR pick silently removes a selection)
	if gb := c.P.Func("bfe_balance/bal_gslb", "BalanceGslb.Balance"); gb == nil {
		c.Missing("bfe_balance/bal_gslb.BalanceGslb.Balance")
	} else {
		c.Analysed(core.FuncKey(gb))
		// calls in Balance and in its private helpers, one instance per way Balance reaches them
		calls := balCtxCalls(c.P, gb, balCallMatcher("bfe_balance/bal_gslb.SubCluster.balance"))
		is := func(t ssa.Instruction) func(ssa.Instruction) bool {
			return func(x ssa.Instruction) bool { return x == t }
		}
		sameChain := func(a, b balCtxCall) bool {
			if len(a.Chain) != len(b.Chain) {
				return false
			}
			for i := range a.Chain {
				if a.Chain[i] != b.Chain[i] {
					return false
				}
			}
			return true
		}
		for i, a := range calls {
			for j, b := range calls {
				if i == j {
					continue
				}
				ai, bi := a.Call.(ssa.Instruction), b.Call.(ssa.Instruction)
				var reach bool
				switch {
				case ai.Parent() == bi.Parent() && sameChain(a, b):
					reach = core.ReachAvoiding(ai.Parent(), ai, nil, is(bi)) != nil
				case a.RootInstr() != b.RootInstr():
					reach = core.ReachAvoiding(gb, a.RootInstr(), nil, is(b.RootInstr())) != nil
				default:
					reach = true // different helpers entered by the same call: assume both run
				}
				if !reach {
					continue
				}
				a0, b0 := a.Arg(0), b.Arg(0)
				same := a0 == b0 || balSameList(a0, b0)
				c.Check("single-pick", fmt.Sprintf("BalanceGslb.Balance:balance#%d->#%d", i, j), b.Call.Pos(), !same, "one Balance call can balance the same sub-cluster twice: the first pick already moved the smooth-WRR credits and is thrown away, so the observed sequence drops selections")
			}
		}
		for i, a := range calls {
			ai := a.Call.(ssa.Instruction)
			loop := core.ReachAvoiding(ai.Parent(), ai, nil, is(ai)) != nil
			if ri := a.RootInstr(); !loop && ri != ai {
				loop = core.ReachAvoiding(gb, ri, nil, is(ri)) != nil
			}
			c.Check("single-pick", fmt.Sprintf("BalanceGslb.Balance:balance#%d:once", i), a.Call.Pos(), !loop, "SubCluster.balance is called in a loop inside one Balance call")
		}
		if len(calls) < 2 {
			c.Check("single-pick", "BalanceGslb.Balance:sites", gb.Pos(), false, fmt.Sprintf("expected the in-cluster and the cross-cluster balance call, found %d", len(calls)))
		}
	}
	// ---- (c) smoothBalance's updates ---------------------------------------------------------------
	// All of this is decided on smoothBalance's region (the function, its private helpers, closures):
	// the scan loop or the eligibility predicate may live in a helper.
	c.Analysed(core.FuncKey(sb))
	reg := balRegion(c.P, sb)
	inLoopCtx := func(in ssa.Instruction) bool {
		for depth := 0; depth < 4; depth++ {
			if balInLoop(in.Block()) {
				return true
			}
			s := balSingleSite(c.P, in.Parent())
			if s == nil {
				return false
			}
			in = s.(ssa.Instruction)
		}
		return false
	}
	loadOf := func(v ssa.Value, fld string, elem ssa.Value) bool {
		x := fieldLoadOf(v, fld)
		return x != nil && (x == elem || balSameList(x, elem))
	}
	ec := &eligCtx{c: c, fnRet: map[*ssa.Function]int{}}
	nIn, nOut := 0, 0
	var debits []*ssa.Store
	for _, st := range core.FieldStores(reg, cur) {
		elem := st.Store.Addr.(*ssa.FieldAddr).X
		b := st.Store.Block()
		if inLoopCtx(st.Store) {
			nIn++
			a, p := balEligibleAt(c.P, elem, b)
			add, isAdd := core.StripConv(st.Store.Val).(*ssa.BinOp)
			shape := isAdd && add.Op == token.ADD && ((loadOf(add.X, "current", elem) && loadOf(add.Y, "weight", elem)) || (loadOf(add.Y, "current", elem) && loadOf(add.X, "weight", elem)))
			c.Check("credit-update", fmt.Sprintf("smoothBalance:in-loop#%d", nIn), st.Store.Pos(), a && p && shape,
				fmt.Sprintf("in-loop credit update must be `e.current += e.weight` for an element that passed Avail() && weight > 0 (avail=%v positive=%v shape=%v): ineligible backends must keep their credit untouched", a, p, shape))
			continue
		}
		nOut++
		debits = append(debits, st.Store)
		// debit of the chosen element
		sub, isSub := core.StripConv(st.Store.Val).(*ssa.BinOp)
		okShape := isSub && sub.Op == token.SUB && loadOf(sub.X, "current", elem)
		okTotal := false
		if okShape {
			// the subtrahend, followed backwards through phis, helper results and helper parameters, is
			// 0 plus the credits of elements that were eligible where they were added
			okTotal = true
			nAdd := 0
			seen := map[ssa.Value]bool{}
			var walk func(v ssa.Value, d int)
			walk = func(v ssa.Value, d int) {
				v = core.StripConv(v)
				if seen[v] {
					return
				}
				seen[v] = true
				if d > 12 {
					okTotal = false
					return
				}
				switch x := v.(type) {
				case *ssa.Phi:
					for _, e := range x.Edges {
						walk(e, d+1)
					}
				case *ssa.Const:
					if !isZero(x) {
						okTotal = false
					}
				case *ssa.BinOp:
					if x.Op != token.ADD {
						okTotal = false
						return
					}
					acc, term := x.X, x.Y
					e := fieldLoadOf(term, "current")
					if e == nil {
						acc, term = x.Y, x.X
						e = fieldLoadOf(term, "current")
					}
					if e == nil {
						okTotal = false
						return
					}
					nAdd++
					if a, p := balEligibleAt(c.P, e, x.Block()); !a || !p {
						okTotal = false
					}
					walk(acc, d+1)
				case *ssa.Call, *ssa.Extract:
					_, h, idx := balCallee(x)
					if h == nil || !balInRegion(c.P, sb, h) {
						okTotal = false
						return
					}
					for _, r := range balResults(h, idx) {
						walk(r, d+1)
					}
				case *ssa.Parameter:
					if u := balUp(c.P, x); u != ssa.Value(x) {
						walk(u, d+1)
					} else {
						okTotal = false
					}
				default:
					okTotal = false
				}
			}
			walk(sub.Y, 0)
			if nAdd == 0 {
				okTotal = false
			}
		}
		elig := ec.elem(elem, core.GuardsAt(b), map[ssa.Value]bool{})
		c.Check("debit", fmt.Sprintf("smoothBalance:debit#%d", nOut), st.Store.Pos(), okShape && okTotal && elig,
			fmt.Sprintf("after the scan only the chosen eligible element is debited, by the sum of the credits of exactly the eligible elements (shape=%v sum-over-eligible=%v chosen-eligible=%v)", okShape, okTotal, elig))
	}
	// at least one update site and one debit site; two debits must not lie on one path
	twice := false
	for i, a := range debits {
		for j, b := range debits {
			if i != j && a.Parent() == b.Parent() && core.ReachAvoiding(a.Parent(), a, nil, func(x ssa.Instruction) bool { return x == ssa.Instruction(b) }) != nil {
				twice = true
			}
		}
	}
	if nIn < 1 || nOut < 1 || twice {
		c.Check("credit-update", "smoothBalance:sites", sb.Pos(), false, fmt.Sprintf("expected an in-loop credit update and one debit per path, found %d and %d (two debits on one path: %v)", nIn, nOut, twice))
	}
	// choice: the running best is replaced by an element only when there is no best yet or the
	// element's credit is strictly greater than the running maximum (ties keep the earlier element)
	isBest := func(v ssa.Value) bool {
		phi, ok := balUp(c.P, v).(*ssa.Phi)
		return ok && strings.HasSuffix(core.TypeStr(phi.Type()), "bal_slb.BackendRR")
	}
	found := false
	for _, in := range balRegionInstrs(c.P, sb) {
		phi, ok := in.(*ssa.Phi)
		if !ok || !isBest(phi) {
			continue
		}
		for i, e := range phi.Edges {
			e = core.StripConv(e)
			if isNilConst(e) {
				continue
			}
			if _, isPhi := e.(*ssa.Phi); isPhi {
				continue
			}
			if l, _ := balElemOfList(balUp(c.P, e)); l == nil {
				continue // not a list element (e.g. a helper's result handed on)
			}
			found = true
			pred := phi.Block().Preds[i]
			elem := e
			strict := balEdgeHolds(pred, phi.Block(), func(f balFact) bool {
				if v, isNil, ok := balNilTest(f); ok && isNil && isBest(v) {
					return true
				}
				if base, _, op, other, ok := balFieldCmp(f, "current"); ok && op == token.GTR && balSame(f, base, elem) {
					_, isPhi := balUp(c.P, f.res(other)).(*ssa.Phi)
					return isPhi
				}
				return false
			})
			c.Check("choice-strict", "smoothBalance:compare", pred.Instrs[len(pred.Instrs)-1].Pos(), strict, "the running best is replaced on a path that is neither `best == nil` nor `e.current > max` (strict): ties must keep the earlier element or the order within a period changes")
		}
	}
	if !found {
		c.Check("choice-strict", "smoothBalance:compare", sb.Pos(), false, "no assignment of a list element to the running best found")
	}
}
