package rules

import (
	"fmt"
	"go/token"
	"go/types"
	"strings"

	"golang.org/x/tools/go/ssa"

	"verif/internal/core"
)

// C10 — host to product resolution follows the host table.
func init() {
	Register(&Rule{
		ID: "C10", Section: "4 C10",
		Technique: "normaliser-chain agreement between the writer (buildHostRoute -> Trie.Set) and the reader (findHostRoute -> Trie.Get) of the host trie; feasible-path enumeration with phi resolution of LookupHostTagAndProduct, findHostRoute, findVipRoute, Trie.Get, Trie.Set and ReverseFqdnHost (branch facts, value-flow of the winning route and of the error); who-may-write census of the trie and host-table fields; reachability in ReverseProxy.ServeHTTP",
		Meta: core.Meta{
			Level:       "other",
			Explanation: "Decides: (a) the key stored by buildHostRoute is Split(\".\") of ReverseFqdnHost of ToLower of each key of conf.HostMap (every entry, none skipped), the value is route{product: conf.HostTagMap[tag], tag}; the key looked up by findHostRoute is the same chain applied to the request host with the port strip (first element of a split at \":\") applied before the reversal — the chains agree modulo that reader-only step; ReverseFqdnHost drops one leading '.' of the reversed name (the trailing dot of the host) only after testing len > 0, and swaps runes pairwise; (b) on every feasible path of LookupHostTagAndProduct the host lookup comes first with req.HttpRequest.Host, the VIP lookup (on req.Session.Vip) happens only after the host lookup failed, the default product is used only after host failed, VIP was absent or failed, and defaultProduct != \"\"; Route.Product/HostTag come from the winning source, Route.Error and the returned error are the same value, nil iff a source won; findHostRoute/findVipRoute return nil error only on a successful trie/map lookup (the trie only under hostTrie != nil) and ErrNoProduct otherwise; (c) Trie.Get returns the exact entry on an empty path, descends into Children[path[0]] with path[1:], returns SplatEntry (ok=true) only when the descent produced a nil entry and SplatEntry != nil, and returns the child's entry whenever it is non-nil (exact before wildcard, deeper wildcard before shallower); Trie.Set records SplatEntry only for a final \"*\" label and descends symmetrically; trie fields and HostTable.hostTrie/defaultProduct/vipTable are written only by the trie package / the update functions; (d) findProduct, FindLocation and HostTable.Lookup propagate the error and ServeHTTP reaches neither findCluster nor clusterInvoke after a failed findProduct. Form-independence: paths continue through unexported functions and local closures of the analysed package (a stage of the fallback chain or a finder body extracted into a helper: parameters resolve to the arguments of the call, results to the values returned on that path), key chains continue from a helper parameter to the argument at its single call site and through helpers with several returns when all returns that can execute agree; len(path) is read off any comparison of len(path) or len(path[k:]) with a constant; branches that cannot be taken on any input add no path (len(strings.Split(s, sep)) < 1 for a constant non-empty sep, the failure branch of a checked type assertion to the only type package bfe_route ever stores in a trie), and ReverseFqdnHost may return the empty host unreversed. Not covered: longest-suffix correctness of the trie over all tables as a whole (only the per-node preference is decided), the value clauses of buildHostRoute (source, value-tag, value-product, every-entry) when the Trie.Set call is moved out of buildHostRoute into a helper (reported as not established), a helper continued through more than once on one path (its parameters resolve to the latest call), Unicode case folding of ToLower, host names carrying IPv6 literals, duplicate hosts after case folding (C14).",
			RuleText:    "obligations = each normaliser-chain clause of the Set/Get call sites, one per (clause, path class) of the enumerated functions, each field writer, each propagating caller, the ServeHTTP reachability query",
			Assumptions: []string{"strings.ToLower/Split and go/ssa semantics", "a request is served by one goroutine: fields of req re-loaded within one function keep their value"},
		},
		Run: runC10,
		Mutants: []Mutant{
			{Name: "reader-case-not-folded", File: "bfe_route/host_table.go", Old: "	host = strings.ToLower(host)\n	// get host-tag by hostname", New: "	// get host-tag by hostname", Expect: "host-key|findHostRoute"},
			{Name: "writer-upper-reader-lower", File: "bfe_route/host_table.go", Old: "		host = strings.ToLower(host)\n		product := conf.HostTagMap[tag]", New: "		host = strings.ToUpper(host)\n		product := conf.HostTagMap[tag]", Expect: "host-key|"},
			{Name: "port-not-stripped", File: "bfe_route/host_table.go", Old: "string_reverse.ReverseFqdnHost(hostnameStrip(host)), \".\"))", New: "string_reverse.ReverseFqdnHost(host), \".\"))", Expect: "host-key|findHostRoute"},
			{Name: "port-stripped-after-reverse", File: "bfe_route/host_table.go", Old: "string_reverse.ReverseFqdnHost(hostnameStrip(host)), \".\"))", New: "hostnameStrip(string_reverse.ReverseFqdnHost(host)), \".\"))", Expect: "host-key|findHostRoute"},
			{Name: "strip-takes-port", File: "bfe_route/host_table.go", Old: "	return strings.Split(hostname, \":\")[0]", New: "	parts := strings.Split(hostname, \":\")\n	return parts[len(parts)-1]", Expect: "host-key|findHostRoute"},
			{Name: "tag-product-swapped", File: "bfe_route/host_table.go", Old: "route{product: product, tag: tag})", New: "route{product: tag, tag: product})", Expect: "host-key|buildHostRoute:value"},
			{Name: "trailing-dot-kept", File: "bfe_util/string_reverse/string_reverse.go", Old: "	if len(r) > 0 && r[0] == '.' {\n		r = r[1:]\n	}\n", New: "", Expect: "trailing-dot"},
			{Name: "empty-host-panics", File: "bfe_util/string_reverse/string_reverse.go", Old: "	if len(r) > 0 && r[0] == '.' {", New: "	if r[0] == '.' {", Expect: "trailing-dot"},
			{Name: "vip-before-host-failure", File: "bfe_route/host_table.go", Old: "	if err != nil {\n		if vip := req.Session.Vip; vip != nil {", New: "	if err == nil {\n		if vip := req.Session.Vip; vip != nil {", Expect: "fallback-order"},
			{Name: "default-overrides-vip", File: "bfe_route/host_table.go", Old: "	if err != nil && t.defaultProduct != \"\" {", New: "	if t.defaultProduct != \"\" {", Expect: "fallback-"},
			{Name: "default-when-unset", File: "bfe_route/host_table.go", Old: "	if err != nil && t.defaultProduct != \"\" {", New: "	if err != nil {", Expect: "fallback-order"},
			{Name: "error-not-recorded", File: "bfe_route/host_table.go", Old: "	req.Route.Product = hostRoute.product\n	req.Route.Error = err\n", New: "	req.Route.Product = hostRoute.product\n", Expect: "fallback-error"},
			{Name: "default-keeps-error", File: "bfe_route/host_table.go", Old: "		hostRoute, err = route{product: t.defaultProduct}, nil", New: "		hostRoute = route{product: t.defaultProduct}", Expect: "fallback-error"},
			{Name: "miss-returns-zero-route-ok", File: "bfe_route/host_table.go", Old: "		return match.(route), nil\n	}\n\n	return route{}, ErrNoProduct", New: "		return match.(route), nil\n	}\n\n	return route{}, nil", Expect: "host-lookup|findHostRoute"},
			{Name: "nil-trie-unguarded", File: "bfe_route/host_table.go", Old: "	if t.hostTrie == nil {\n		return route{}, ErrNoProduct\n	}\n", New: "", Expect: "host-lookup|findHostRoute"},
			{Name: "splat-overrides-exact", File: "bfe_route/trie/trie.go", Old: "	if entry == nil && t.SplatEntry != nil {", New: "	if t.SplatEntry != nil {", Expect: "trie-get"},
			{Name: "splat-without-ok", File: "bfe_route/trie/trie.go", Old: "		entry = t.SplatEntry\n		ok = true\n", New: "		entry = t.SplatEntry\n", Expect: "trie-get"},
			{Name: "splat-on-any-label", File: "bfe_route/trie/trie.go", Old: "		if len(path) != 1 {\n			return errors.New(\"* should be last element\")", New: "		if len(path) < 1 {\n			return errors.New(\"* should be last element\")", Expect: "trie-set"},
			{Name: "no-product-still-routed", File: "bfe_server/reverseproxy.go", Old: "			basicReq.HttpRequest.Host, basicReq.Session.Vip, basicReq.ClientAddr)\n\n		// close connection\n		res = bfe_basic.CreateInternalSrvErrResp(basicReq)\n		action = closeAfterReply\n		goto response_got\n	}", New: "			basicReq.HttpRequest.Host, basicReq.Session.Vip, basicReq.ClientAddr)\n	}", Expect: "not-forwarded"},
			{Name: "silent-rename-params", Silent: true, File: "bfe_route/host_table.go", Old: "func (t *HostTable) findHostRoute(host string) (route, error) {\n	if t.hostTrie == nil {\n		return route{}, ErrNoProduct\n	}\n\n	host = strings.ToLower(host)\n	// get host-tag by hostname\n	match, ok := t.hostTrie.Get(strings.Split(string_reverse.ReverseFqdnHost(hostnameStrip(host)), \".\"))", New: "func (tbl *HostTable) findHostRoute(name string) (route, error) {\n	if tbl.hostTrie == nil {\n		return route{}, ErrNoProduct\n	}\n\n	stripped := hostnameStrip(name)\n	lower := strings.ToLower(stripped)\n	rev := string_reverse.ReverseFqdnHost(lower)\n	// get host-tag by hostname\n	match, ok := tbl.hostTrie.Get(strings.Split(rev, \".\"))"},
			{Name: "silent-nested-fallback", Silent: true, File: "bfe_route/host_table.go", Old: "	// if failed, use default proudct\n	if err != nil && t.defaultProduct != \"\" {\n		hostRoute, err = route{product: t.defaultProduct}, nil\n	}", New: "	// if failed, use default proudct\n	if err != nil {\n		if dp := t.defaultProduct; dp != \"\" {\n			hostRoute = route{product: dp}\n			err = nil\n		}\n	}"},
			{Name: "silent-inline-strip", Silent: true, File: "bfe_route/host_table.go", Old: "string_reverse.ReverseFqdnHost(hostnameStrip(host)), \".\"))", New: "string_reverse.ReverseFqdnHost(strings.SplitN(host, \":\", 2)[0]), \".\"))"},
			{Name: "silent-fallback-stages-in-helper", Silent: true, File: "bfe_route/host_table.go", Old: "	// if failed, try to lookup product by visited vip\n	if err != nil {\n		if vip := req.Session.Vip; vip != nil {\n			hostRoute, err = t.findVipRoute(vip.String())\n		}\n	}\n\n	// if failed, use default proudct\n	if err != nil && t.defaultProduct != \"\" {\n		hostRoute, err = route{product: t.defaultProduct}, nil\n	}\n\n	// set hostTag and product\n	req.Route.HostTag = hostRoute.tag\n	req.Route.Product = hostRoute.product\n	req.Route.Error = err\n\n	return err\n}\n", New: "	// if failed, try the vip table, then the default product\n	if err != nil {\n		hostRoute, err = t.vipOrDefaultRoute(req, hostRoute, err)\n	}\n\n	// set hostTag and product\n	req.Route.HostTag = hostRoute.tag\n	req.Route.Product = hostRoute.product\n	req.Route.Error = err\n\n	return err\n}\n\nfunc (t *HostTable) vipOrDefaultRoute(req *bfe_basic.Request, found route, err error) (route, error) {\n	if vip := req.Session.Vip; vip != nil {\n		found, err = t.findVipRoute(vip.String())\n	}\n	if err != nil && t.defaultProduct != \"\" {\n		found, err = route{product: t.defaultProduct}, nil\n	}\n	return found, err\n}\n"},
			{Name: "silent-star-length-respelled", Silent: true, File: "bfe_route/trie/trie.go", Old: "		if len(path) != 1 {\n			return errors.New(\"* should be last element\")", New: "		if len(path[1:]) > 0 {\n			return errors.New(\"* should be last element\")"},
			{Name: "silent-strip-defensive-length-check", Silent: true, File: "bfe_route/host_table.go", Old: "	return strings.Split(hostname, \":\")[0]", New: "	parts := strings.Split(hostname, \":\")\n	if len(parts) < 1 {\n		return \"\"\n	}\n	return parts[0]"},
			{Name: "silent-reverse-empty-host-early-return", Silent: true, File: "bfe_util/string_reverse/string_reverse.go", Old: "	r := []rune(host)\n	for i, j", New: "	if len(host) == 0 {\n		return host\n	}\n	r := []rune(host)\n	for i, j"},
		},
	})
}

func runC10(c *core.Ctx) {
	const rt = "bfe_route"
	c10Chains(c)
	c10Reverse(c)
	c10Fallback(c)
	c10Finders(c)
	c10TrieGet(c)
	c10TrieSet(c)
	c10Census(c)
	// (d) propagation
	rtPropagation(c, "BfeServer.findProduct", rt+".HostTable.LookupHostTagAndProduct", "findProduct")
	rtNotForwarded(c, "bfe_server.BfeServer.findProduct", "findProduct",
		[]string{"bfe_server.BfeServer.findCluster", "bfe_server.ReverseProxy.clusterInvoke", "bfe_route.ClusterTable.Lookup"})
	c10Callers(c)
	c.Min("propagate", 4)
	c.Min("not-forwarded", 3)
}

// ---- (a) normaliser chains ---------------------------------------------

func c10Chains(c *core.Ctx) {
	const rt = "bfe_route"
	const setFn, getFn = "bfe_route/trie.Trie.Set", "bfe_route/trie.Trie.Get"
	bh := c.P.Func(rt, "buildHostRoute")
	fh := c.P.Func(rt, "HostTable.findHostRoute")
	if bh == nil {
		c.Missing(rt + ".buildHostRoute")
	}
	if fh == nil {
		c.Missing(rt + ".HostTable.findHostRoute")
	}
	if bh == nil || fh == nil {
		return
	}
	c.Analysed(core.FuncKey(bh), core.FuncKey(fh))
	count := func(steps []string, s string) int {
		n := 0
		for _, x := range steps {
			if x == s {
				n++
			}
		}
		return n
	}
	folds := func(steps []string) []string {
		var out []string
		for _, x := range steps {
			if x == "strings.ToLower" || x == "strings.ToUpper" || x == "strings.ToTitle" {
				out = append(out, x)
			}
		}
		return out
	}
	var writeChain, readChain []string
	sets := c.P.RegionCalls(bh, setFn)
	c.Check("host-key", "buildHostRoute:set-sites", bh.Pos(), len(sets) >= 1, fmt.Sprintf("expected a Trie.Set call in buildHostRoute (or a private helper of it), found %d", len(sets)))
	for _, s := range sets {
		args := s.Common().Args
		steps, root := rtChainRegion(c.P, args[1])
		steps = rtCanonChain(steps)
		if writeChain != nil && rtJoin(writeChain) != rtJoin(steps) {
			c.Check("host-key", "buildHostRoute:one-key-form", s.Pos(), false, "hosts are stored under differently normalised keys at different Trie.Set sites: ["+rtJoin(writeChain)+"] and ["+rtJoin(steps)+"]")
		}
		writeChain = steps
		desc := rtJoin(steps) + " of " + core.Render(root)
		c.Check("host-key", "buildHostRoute:split", s.Pos(), len(steps) > 0 && steps[0] == "split(.)", "the trie path stored is "+desc+"; the outermost step must split the reversed name at \".\" into labels")
		c.Check("host-key", "buildHostRoute:reverse", s.Pos(), count(steps, "reverse") == 1, "the trie path stored is "+desc+"; exactly one ReverseFqdnHost is required so that suffixes become prefixes")
		f := folds(steps)
		c.Check("host-key", "buildHostRoute:casefold", s.Pos(), len(f) == 1 && f[0] == "strings.ToLower", "the trie path stored is "+desc+"; configured hosts must be lower-cased exactly once")
		c.Check("host-key", "buildHostRoute:no-other-step", s.Pos(), len(steps) == 3, "the trie path stored is "+desc+"; steps other than split/reverse/lower-case change which request hosts can match")
		// source: key of range conf.HostMap
		var next *ssa.Next
		srcOK := false
		if ex, ok := root.(*ssa.Extract); ok && ex.Index == 1 {
			if nx, ok := ex.Tuple.(*ssa.Next); ok {
				if rg, ok := nx.Iter.(*ssa.Range); ok && rtAP(rg.X) == "p0.HostMap" {
					srcOK, next = true, nx
				}
			}
		}
		c.Check("host-key", "buildHostRoute:source", s.Pos(), srcOK, "the host stored is "+core.Render(root)+", expected each key of conf.HostMap")
		// value: route{product: conf.HostTagMap[tag], tag: tag}
		tagOK, prodOK := false, false
		var tagV, prodV ssa.Value
		if a, ok := rtLoadOf(core.StripConv(args[2])).(*ssa.Alloc); ok {
			core.Instrs(bh, func(in ssa.Instruction) {
				st, ok := in.(*ssa.Store)
				if !ok {
					return
				}
				if fa, ok := st.Addr.(*ssa.FieldAddr); ok && fa.X == a {
					if fo := core.FieldObj(fa.X, fa.Field); fo != nil {
						switch fo.Name() {
						case "tag":
							tagV = st.Val
						case "product":
							prodV = st.Val
						}
					}
				}
			})
		}
		isTag := func(v ssa.Value) bool {
			ex, ok := v.(*ssa.Extract)
			return ok && next != nil && ex.Index == 2 && ex.Tuple == next
		}
		if tagV != nil {
			tagOK = isTag(tagV)
		}
		if lk, ok := prodV.(*ssa.Lookup); ok && prodV != nil {
			prodOK = rtAP(lk.X) == "p0.HostTagMap" && isTag(lk.Index)
		}
		c.Check("host-key", "buildHostRoute:value-tag", s.Pos(), tagOK, "the route stored for a host must carry the host's tag (the map value of the same HostMap entry); carries "+rtRender(tagV))
		c.Check("host-key", "buildHostRoute:value-product", s.Pos(), prodOK, "the route stored for a host must carry conf.HostTagMap[tag]; carries "+rtRender(prodV))
		// every entry is stored
		if next != nil {
			ok := false
			b := next.Block()
			if ifi, isIf := b.Instrs[len(b.Instrs)-1].(*ssa.If); isIf {
				bad := core.ReachAvoiding(bh, ifi, func(in ssa.Instruction) bool { return in == s.(ssa.Instruction) }, func(in ssa.Instruction) bool { return in == ssa.Instruction(next) })
				ok = bad == nil
			}
			c.Check("host-key", "buildHostRoute:every-entry", s.Pos(), ok, "an iteration over conf.HostMap can reach the next entry without calling Trie.Set: some configured hosts would be unknown")
		}
		// the trie returned is the one filled
		retOK := true
		for _, r := range core.Returns(bh) {
			v := core.RetVals(r)[0]
			if v != args[0] || rtResultOf(v, 0, "bfe_route/trie.NewTrie") == nil {
				retOK = false
			}
		}
		c.Check("host-key", "buildHostRoute:returns-built-trie", s.Pos(), retOK, "buildHostRoute must return the fresh trie it filled")
	}
	gets := c.P.RegionCalls(fh, getFn)
	c.Check("host-key", "findHostRoute:get-sites", fh.Pos(), len(gets) >= 1, fmt.Sprintf("expected a Trie.Get call in findHostRoute (or a private helper of it), found %d", len(gets)))
	for _, g := range gets {
		args := g.Common().Args
		steps, root := rtChainRegion(c.P, args[1])
		steps = rtCanonChain(steps)
		if readChain != nil && rtJoin(readChain) != rtJoin(steps) {
			c.Check("host-key", "findHostRoute:one-key-form", g.Pos(), false, "the host is looked up under differently normalised keys at different Trie.Get sites: ["+rtJoin(readChain)+"] and ["+rtJoin(steps)+"]")
		}
		readChain = steps
		desc := rtJoin(steps) + " of " + core.Render(root)
		c.Check("host-key", "findHostRoute:split", g.Pos(), len(steps) > 0 && steps[0] == "split(.)", "the trie path looked up is "+desc+"; the outermost step must split at \".\"")
		c.Check("host-key", "findHostRoute:reverse", g.Pos(), count(steps, "reverse") == 1, "the trie path looked up is "+desc+"; exactly one ReverseFqdnHost is required")
		f := folds(steps)
		c.Check("host-key", "findHostRoute:casefold", g.Pos(), len(f) == 1 && f[0] == "strings.ToLower", "the trie path looked up is "+desc+"; the request host must be lower-cased (hosts compare case-insensitively)")
		ps, rv := rtIndexOf(steps, "portstrip"), rtIndexOf(steps, "reverse")
		c.Check("host-key", "findHostRoute:portstrip", g.Pos(), count(steps, "portstrip") == 1 && rv >= 0 && ps > rv, "the trie path looked up is "+desc+"; the \":port\" suffix must be removed (first element of a split at \":\") before the name is reversed")
		par, isPar := root.(*ssa.Parameter)
		c.Check("host-key", "findHostRoute:source", g.Pos(), isPar && len(fh.Params) == 2 && par == fh.Params[1], "the name looked up derives from "+core.Render(root)+", expected the host parameter")
		c.Check("host-key", "findHostRoute:receiver", g.Pos(), rtAPRegion(c.P, args[0]) == "p0.hostTrie", "the trie consulted is "+core.Render(args[0])+", expected t.hostTrie")
	}
	if len(sets) >= 1 && len(gets) >= 1 {
		c.Check("host-key", "agreement", fh.Pos(), rtJoin(writeChain) == rtJoin(rtWithout(readChain, "portstrip")),
			"writer chain ["+rtJoin(writeChain)+"] and reader chain ["+rtJoin(readChain)+"] differ by more than the reader-only port strip: stored and looked-up keys are normalised differently")
	}
	c.Min("host-key", 18)
}

// ---- ReverseFqdnHost ------------------------------------------------------

func c10Reverse(c *core.Ctx) {
	const sr = "bfe_util/string_reverse"
	fn := c.P.Func(sr, "ReverseFqdnHost")
	if fn == nil {
		c.Missing(sr + ".ReverseFqdnHost")
		return
	}
	c.Analysed(core.FuncKey(fn))
	// the rune slice of the parameter
	var runes ssa.Value
	core.Instrs(fn, func(in ssa.Instruction) {
		if cv, ok := in.(*ssa.Convert); ok && len(fn.Params) == 1 && cv.X == fn.Params[0] {
			if _, ok := cv.Type().Underlying().(*types.Slice); ok {
				runes = cv
			}
		}
	})
	if runes == nil {
		c.Check("trailing-dot", "ReverseFqdnHost:rune-slice", fn.Pos(), false, "ReverseFqdnHost no longer converts its parameter to a rune slice; the rule cannot follow it")
		return
	}
	// swap: r[a] = old r[b] and r[b] = old r[a]
	type sw struct{ dst, src string }
	var sws []sw
	core.Instrs(fn, func(in ssa.Instruction) {
		st, ok := in.(*ssa.Store)
		if !ok {
			return
		}
		d, ok := st.Addr.(*ssa.IndexAddr)
		if !ok || d.X != runes {
			return
		}
		if s, ok := rtLoadOf(st.Val).(*ssa.IndexAddr); ok && s.X == runes {
			sws = append(sws, sw{core.Render(d.Index), core.Render(s.Index)})
		}
	})
	swapped := false
	for _, a := range sws {
		for _, b := range sws {
			if a.dst == b.src && a.src == b.dst && a.dst != a.src {
				swapped = true
			}
		}
	}
	c.Check("reverse", "ReverseFqdnHost:pairwise-swap", fn.Pos(), swapped, "no pair of stores r[i] = r[j]; r[j] = r[i] found: the name is not reversed in place")
	paths, complete := rtPaths(fn, 2)
	agg := newRtAgg(c)
	isFirst := func(v ssa.Value) bool {
		ia, ok := rtLoadOf(v).(*ssa.IndexAddr)
		if !ok || ia.X != runes {
			return false
		}
		k, ok := rtConstInt(ia.Index)
		return ok && k == 0
	}
	isDot := func(v ssa.Value) bool { k, ok := rtConstInt(v); return ok && k == '.' }
	isLen := func(v ssa.Value) bool {
		call, ok := v.(*ssa.Call)
		if !ok {
			return false
		}
		b, ok := call.Call.Value.(*ssa.Builtin)
		return ok && b.Name() == "len" && len(call.Call.Args) == 1 && call.Call.Args[0] == runes
	}
	isZero := func(v ssa.Value) bool { k, ok := rtConstInt(v); return ok && k == 0 }
	dotTested := false
	for _, p := range paths {
		rets, rn := p.ret()
		if rn < 0 || len(rets) != 1 {
			continue
		}
		cv, ok := rets[0].(*ssa.Convert)
		if !ok {
			// the empty host reverses to itself: a path that established host == "" may return "" (or host) directly
			if empty, known := p.lenIs(rn, func(v ssa.Value) bool { return v == ssa.Value(fn.Params[0]) }, 0); known && empty && (rtConstStr(rets[0], "") || rets[0] == ssa.Value(fn.Params[0])) {
				agg.add("trailing-dot", "ReverseFqdnHost:empty-host", p.pos(rn), true, "")
				continue
			}
			agg.add("trailing-dot", "ReverseFqdnHost:result", p.pos(rn), false, "the result is not a conversion of the rune slice: "+core.Render(rets[0]))
			continue
		}
		src := p.R(rn, cv.X)
		dot, known := p.eqFact(rn, isFirst, isDot)
		// every r[0] load is preceded by len(r) > 0
		for i, it := range p.Items {
			if u, ok := it.In.(*ssa.UnOp); ok && isFirst(u) {
				pos, k := p.cmpFact(i, token.LSS, isZero, isLen)
				agg.add("trailing-dot", "ReverseFqdnHost:index-guard", u.Pos(), k && pos, "r[0] is read on a path that did not establish len(r) > 0: an empty host panics")
			}
		}
		switch {
		case known && dot:
			dotTested = true
			sl, ok := src.(*ssa.Slice)
			lo := int64(-1)
			if ok && sl.Low != nil {
				lo, _ = rtConstInt(sl.Low)
			}
			agg.add("trailing-dot", "ReverseFqdnHost:dot-dropped", p.pos(rn), ok && sl.X == runes && lo == 1 && sl.High == nil, "the reversed name starts with '.' (the host had a trailing dot) but the result is "+core.Render(src)+", expected r[1:]")
		default:
			agg.add("trailing-dot", "ReverseFqdnHost:whole", p.pos(rn), src == runes, "without a leading '.' the whole reversed name must be returned; returns "+core.Render(src))
		}
	}
	agg.add("trailing-dot", "ReverseFqdnHost:enumeration", fn.Pos(), complete && len(paths) >= 2, fmt.Sprintf("%d feasible paths (complete=%v)", len(paths), complete))
	agg.add("trailing-dot", "ReverseFqdnHost:dot-tested", fn.Pos(), dotTested, "no path of ReverseFqdnHost compares the first rune of the reversed name with '.': a host written with a trailing dot is not recognised")
	agg.flush()
	c.Min("trailing-dot", 4)
}

// ---- (b) fallback chain --------------------------------------------------

func c10Fallback(c *core.Ctx) {
	const rt = "bfe_route"
	const hostFn, vipFn = rt + ".HostTable.findHostRoute", rt + ".HostTable.findVipRoute"
	fn := c.P.Func(rt, "HostTable.LookupHostTagAndProduct")
	if fn == nil {
		c.Missing(rt + ".HostTable.LookupHostTagAndProduct")
		return
	}
	c.Analysed(core.FuncKey(fn))
	for _, g := range c.P.Region(fn) {
		c.Analysed(core.FuncKey(g))
	}
	// paths continue through private helpers (an extracted fallback chain); the two finders stay opaque anchors
	paths, complete := rtPathsR(fn, 2, hostFn, vipFn)
	c.Check("paths", "LookupHostTagAndProduct:enumeration", fn.Pos(), complete && len(paths) >= 3, fmt.Sprintf("%d feasible paths (complete=%v); at least 3 expected (host, vip, default after vip failure / without vip, none)", len(paths), complete))
	c.Note("LookupHostTagAndProduct: %d feasible paths", len(paths))
	agg := newRtAgg(c)
	for _, p := range paths {
		p := p
		isDefault := func(v ssa.Value) bool { return p.AP(len(p.Items), v) == "p0.defaultProduct" }
		rets, rn := p.ret()
		if rn < 0 || len(rets) != 1 {
			agg.add("paths", "LookupHostTagAndProduct:exit", fn.Pos(), false, "a path does not end in a one-result return")
			continue
		}
		hcs, vcs := p.calls(hostFn), p.calls(vipFn)
		if len(hcs) != 1 || len(vcs) > 1 {
			agg.add("fallback-order", fmt.Sprintf("LookupHostTagAndProduct:host-calls=%d,vip-calls=%d", len(hcs), len(vcs)), fn.Pos(), false, "each request must be looked up by host exactly once and by VIP at most once")
			continue
		}
		hc := p.Items[hcs[0]].In.(*ssa.Call)
		herr, hres := rtExtractOf(hc, 1), rtExtractOf(hc, 0)
		state := func(errv ssa.Value) string {
			if errv == nil {
				return "untested"
			}
			isNil, known := p.eqFact(len(p.Items), func(v ssa.Value) bool { return v == errv }, rtIsNil)
			switch {
			case !known:
				return "untested"
			case isNil:
				return "ok"
			}
			return "fail"
		}
		H, V := state(herr), "none"
		var verr, vres ssa.Value
		var vc *ssa.Call
		if len(vcs) == 1 {
			vc = p.Items[vcs[0]].In.(*ssa.Call)
			verr, vres = rtExtractOf(vc, 1), rtExtractOf(vc, 0)
			V = state(verr)
		}
		// source of the route fields stored into req.Route
		src := func(field, addr string) (string, int) {
			v, si := p.storedAt(rn, addr)
			if v == nil {
				return "unset", -1
			}
			classify := func(w ssa.Value) string {
				switch {
				case w == nil:
					return "unknown"
				case hres != nil && w == hres:
					return "host"
				case vres != nil && w == vres:
					return "vip"
				}
				if k, ok := w.(*ssa.Const); ok && k.Value == nil {
					return "zero"
				}
				return "other(" + core.Render(w) + ")"
			}
			scalar := func(w ssa.Value, at int) string {
				w = p.R(at, w)
				if isDefault(w) {
					return "default"
				}
				if rtConstStr(w, "") {
					return "zero"
				}
				return "other(" + core.Render(w) + ")"
			}
			// struct value in SSA form: Field(X, f)
			if f, ok := v.(*ssa.Field); ok {
				x := p.R(si, f.X)
				if a, ok := rtLoadOf(x).(*ssa.Alloc); ok { // composite literal
					j := p.lastExec(si, x.(ssa.Instruction))
					if fv, fi := p.storedField(j, a, field); fi >= 0 {
						return scalar(fv, fi), si
					}
					return "zero", si
				}
				return classify(x), si
			}
			// struct variable in memory: *(&alloc.f)
			if fa, ok := rtLoadOf(v).(*ssa.FieldAddr); ok {
				if a, ok := fa.X.(*ssa.Alloc); ok {
					j := p.lastExec(si, v.(ssa.Instruction))
					whole := p.lastStore(j, func(s *ssa.Store) bool { return s.Addr == a })
					fv, fi := p.storedField(j, a, field)
					if fi > whole {
						return scalar(fv, fi), si
					}
					if whole < 0 {
						return "unset", si
					}
					w := p.R(whole, p.Items[whole].In.(*ssa.Store).Val)
					// whole-struct copy of a composite literal
					if la, ok := rtLoadOf(w).(*ssa.Alloc); ok {
						if fv, fi := p.storedField(whole, la, field); fi >= 0 {
							return scalar(fv, fi), si
						}
						return "zero", si
					}
					return classify(w), si
				}
			}
			return scalar(v, si), si
		}
		prod, prodAt := src("product", "p1.Route.Product")
		tag, _ := src("tag", "p1.Route.HostTag")
		class := fmt.Sprintf("LookupHostTagAndProduct:host=%s,vip=%s,product=%s", H, V, prod)
		// ---- order
		ok, why := true, ""
		if p.AP(hcs[0], hc.Call.Args[1]) != "p1.HttpRequest.Host" {
			ok, why = false, "the host looked up is "+core.Render(hc.Call.Args[1])+", expected req.HttpRequest.Host"
		}
		if vc != nil {
			isNil, known := p.eqFact(vcs[0], func(v ssa.Value) bool { return v == herr && v != nil }, rtIsNil)
			if !known || isNil || vcs[0] < hcs[0] {
				ok, why = false, "the VIP table is consulted on a path that has not seen the host lookup fail"
			}
			arg := p.R(vcs[0], vc.Call.Args[1])
			sc, isCall := arg.(*ssa.Call)
			if !isCall || !core.CallIs(&sc.Call, "net.IP.String") || p.AP(vcs[0], sc.Call.Args[0]) != "p1.Session.Vip" {
				ok, why = false, "the VIP looked up is "+core.Render(arg)+", expected req.Session.Vip.String()"
			}
		}
		if prod == "default" {
			empty, known := p.eqFact(prodAt, isDefault, func(v ssa.Value) bool { return rtConstStr(v, "") })
			switch {
			case H != "fail":
				ok, why = false, "the default product is used although the host lookup did not fail (host="+H+")"
			case V == "ok" || V == "untested":
				ok, why = false, "the default product is used although the VIP lookup did not fail (vip="+V+")"
			case !known || empty:
				ok, why = false, "the default product is used on a path that did not establish defaultProduct != \"\""
			}
		}
		agg.add("fallback-order", class, p.pos(rn), ok, why)
		// ---- winner
		want := "none"
		switch {
		case H == "ok":
			want = "host"
		case H == "fail" && V == "ok":
			want = "vip"
		case H == "fail" && (V == "none" || V == "fail") && prod == "default":
			want = "default"
		}
		wok := H != "untested" && V != "untested" && prod != "unset" && tag != "unset"
		why = "Route.Product comes from " + prod + " and Route.HostTag from " + tag + " (host=" + H + ", vip=" + V + "); the outcome of a lookup is used without its error being tested, or a field is not stored"
		if wok && want != "none" {
			wok = prod == want && (tag == want || (want == "default" && tag == "zero"))
			why = "the winning source is " + want + " but Route.Product comes from " + prod + " and Route.HostTag from " + tag
		}
		agg.add("fallback-winner", class, p.pos(rn), wok, why)
		// ---- error
		ev, _ := p.storedAt(rn, "p1.Route.Error")
		evNil := "unknown"
		if ev != nil {
			if rtIsNil(ev) {
				evNil = "nil"
			} else if isNil, known := p.eqFact(len(p.Items), func(v ssa.Value) bool { return v == ev }, rtIsNil); known {
				evNil = map[bool]string{true: "nil", false: "non-nil"}[isNil]
			}
		}
		eok := ev != nil && (ev == rets[0] || (rtIsNil(ev) && rtIsNil(rets[0])))
		why = "Route.Error receives " + rtRender(ev) + " but " + core.Render(rets[0]) + " is returned"
		if eok {
			if want == "none" {
				eok = evNil == "non-nil"
				why = "no source yielded a product, yet the error stored/returned (" + rtRender(ev) + ") is not known to be non-nil: the request would continue without a product"
			} else {
				eok = evNil == "nil"
				why = "source " + want + " yielded a product, yet the error stored/returned (" + rtRender(ev) + ") is not nil on this path"
			}
		}
		agg.add("fallback-error", class, p.pos(rn), eok, why)
	}
	agg.flush()
	c.Min("fallback-order", 5)
	c.Min("fallback-winner", 5)
	c.Min("fallback-error", 5)
}

// ---- findHostRoute / findVipRoute -----------------------------------------

func c10Finders(c *core.Ctx) {
	const rt = "bfe_route"
	const getFn = "bfe_route/trie.Trie.Get"
	agg := newRtAgg(c)
	if fn := c.P.Func(rt, "HostTable.findHostRoute"); fn != nil {
		paths, complete := rtPathsR(fn, 2)
		agg.add("host-lookup", "findHostRoute:enumeration", fn.Pos(), complete && len(paths) >= 2, fmt.Sprintf("%d feasible paths (complete=%v)", len(paths), complete))
		for _, p := range paths {
			p := p
			rets, rn := p.ret()
			if rn < 0 || len(rets) != 2 {
				continue
			}
			gets := p.calls(getFn)
			// a checked type assertion `v, ok := entry.(T)` on a trie entry cannot fail when every value
			// stored in a trie by this package is a T: the !ok branch is a defensive check that never fires
			dead := false
			for _, f := range p.Facts {
				if ex, isEx := f.V.(*ssa.Extract); isEx && f.Op == token.ILLEGAL && !f.Pol && ex.Index == 1 {
					if ta, isTA := ex.Tuple.(*ssa.TypeAssert); isTA && ta.CommaOk && rtResultOf(p.R(f.I, ta.X), 0, getFn) != nil && c10TrieHoldsOnly(c, ta.AssertedType) {
						dead = true
					}
				}
			}
			if dead {
				continue
			}
			hit := -1
			for _, gi := range gets {
				call := p.Items[gi].In.(*ssa.Call)
				isNil, known := p.eqFact(gi, func(v ssa.Value) bool { return p.AP(gi, v) == "p0.hostTrie" }, rtIsNil)
				agg.add("host-lookup", "findHostRoute:nil-guard", call.Pos(), known && !isNil, "Trie.Get is called on t.hostTrie on a path that did not establish hostTrie != nil (nil dereference before the first host table load)")
				if okv := rtExtractOf(call, 1); okv != nil {
					if pol, known := p.factAfter(gi, okv); known && pol {
						hit = gi
					}
				}
			}
			if rtIsNil(rets[1]) {
				ok := false
				if hit >= 0 {
					entry := rtExtractOf(p.Items[hit].In.(*ssa.Call), 0)
					if ta, isTA := rets[0].(*ssa.TypeAssert); isTA && !ta.CommaOk && entry != nil && p.R(rn, ta.X) == entry {
						ok = true
					}
					// checked form: v, ok := entry.(route) with ok established
					if ex, isEx := rets[0].(*ssa.Extract); isEx && ex.Index == 0 {
						if ta, isTA := ex.Tuple.(*ssa.TypeAssert); isTA && ta.CommaOk && entry != nil && p.R(rn, ta.X) == entry {
							if pol, known := p.boolFact(rn, rtExtractOf(ta, 1)); known && pol {
								ok = true
							}
						}
					}
				}
				agg.add("host-lookup", "findHostRoute:success", p.pos(rn), ok, "findHostRoute returns a nil error without a successful Trie.Get whose entry is the returned route (returns "+core.Render(rets[0])+")")
			} else {
				agg.add("host-lookup", "findHostRoute:failure", p.pos(rn), hit < 0 && rtGlobalLoad(rets[1], rt, "ErrNoProduct"), "a path that "+map[bool]string{true: "found the host in the trie", false: "did not find the host"}[hit >= 0]+" returns error "+core.Render(rets[1])+"; expected ErrNoProduct exactly on a miss")
			}
		}
	}
	if fn := c.P.Func(rt, "HostTable.findVipRoute"); fn == nil {
		c.Missing(rt + ".HostTable.findVipRoute")
	} else {
		c.Analysed(core.FuncKey(fn))
		paths, complete := rtPathsR(fn, 2)
		agg.add("host-lookup", "findVipRoute:enumeration", fn.Pos(), complete && len(paths) >= 2, fmt.Sprintf("%d feasible paths (complete=%v)", len(paths), complete))
		for _, p := range paths {
			rets, rn := p.ret()
			if rn < 0 || len(rets) != 2 {
				continue
			}
			var hit *ssa.Lookup
			for i, it := range p.Items {
				if lk, ok := it.In.(*ssa.Lookup); ok && lk.CommaOk && p.AP(i, lk.X) == "p0.vipTable" && len(fn.Params) == 2 && p.R(i, lk.Index) == ssa.Value(fn.Params[1]) {
					if okv := rtExtractOf(lk, 1); okv != nil {
						if pol, known := p.factAfter(i, okv); known && pol {
							hit = lk
						}
					}
				}
			}
			if rtIsNil(rets[1]) {
				ok := false
				if hit != nil {
					// route{product: product}
					raw := p.Items[rn].In.(*ssa.Return).Results[0]
					if a, isA := rtLoadOf(raw).(*ssa.Alloc); isA {
						pv, _ := p.storedField(rn, a, "product")
						ok = pv != nil && pv == rtExtractOf(hit, 0)
					} else if a, isA := rtLoadOf(rets[0]).(*ssa.Alloc); isA {
						pv, _ := p.storedField(rn, a, "product")
						ok = pv != nil && pv == rtExtractOf(hit, 0)
					}
				}
				agg.add("host-lookup", "findVipRoute:success", p.pos(rn), ok, "findVipRoute returns a nil error without a successful t.vipTable[vip] lookup whose value is the returned product")
			} else {
				agg.add("host-lookup", "findVipRoute:failure", p.pos(rn), hit == nil && rtGlobalLoad(rets[1], rt, "ErrNoProduct"), "findVipRoute must return ErrNoProduct exactly when the VIP is not in the table; returns "+core.Render(rets[1]))
			}
		}
	}
	agg.flush()
	c.Min("host-lookup", 7)
	ws, ok := rtGlobalWriters(c, rt, "ErrNoProduct")
	if !ok {
		c.Missing(rt + ".ErrNoProduct")
	} else {
		c.Check("sentinel-writers", "ErrNoProduct", token.NoPos, len(ws) == 0, "ErrNoProduct is reassigned by "+strings.Join(ws, ", "))
		c.Check("sentinel-writers", "ErrNoProduct:initialised", token.NoPos, rtGlobalInitNonNil(c, rt, "ErrNoProduct"), "ErrNoProduct is not initialised with errors.New/fmt.Errorf in the package initialiser")
	}
}

// c10TrieHoldsOnly: every value handed to Trie.Set by package bfe_route (the
// only package that fills a host trie, see the census) is of type t.
func c10TrieHoldsOnly(c *core.Ctx, t types.Type) bool {
	n := 0
	for _, fn := range c.P.SrcFuncs("") {
		if core.FuncPkgRel(fn) == "bfe_route/trie" {
			continue // the recursive descent hands on the caller's value
		}
		for _, call := range core.Calls(fn, "bfe_route/trie.Trie.Set") {
			args := call.Common().Args
			if len(args) != 3 {
				return false
			}
			mi, ok := args[2].(*ssa.MakeInterface)
			if !ok || !types.Identical(mi.X.Type(), t) {
				return false
			}
			n++
		}
	}
	return n > 0
}

// ---- (c) trie -------------------------------------------------------------

// c10Label0: v is path[0] of the function's path parameter (index pi).
func c10Label0(fn *ssa.Function, pi int, v ssa.Value) bool {
	ia, ok := rtLoadOf(v).(*ssa.IndexAddr)
	if !ok || pi >= len(fn.Params) || ia.X != fn.Params[pi] {
		return false
	}
	k, ok := rtConstInt(ia.Index)
	return ok && k == 0
}

// c10Rest: v is path[1:].
func c10Rest(fn *ssa.Function, pi int, v ssa.Value) bool {
	sl, ok := v.(*ssa.Slice)
	if !ok || pi >= len(fn.Params) || sl.X != fn.Params[pi] || sl.Low == nil || sl.High != nil {
		return false
	}
	k, ok := rtConstInt(sl.Low)
	return ok && k == 1
}

func c10IsLenOf(v ssa.Value, of ssa.Value) bool {
	call, ok := v.(*ssa.Call)
	if !ok {
		return false
	}
	b, ok := call.Call.Value.(*ssa.Builtin)
	return ok && b.Name() == "len" && len(call.Call.Args) == 1 && call.Call.Args[0] == of
}

func c10TrieGet(c *core.Ctx) {
	const tr = "bfe_route/trie"
	const getFn = tr + ".Trie.Get"
	fn := c.P.Func(tr, "Trie.Get")
	if fn == nil {
		c.Missing(getFn)
		return
	}
	c.Analysed(core.FuncKey(fn))
	paths, complete := rtPaths(fn, 2)
	agg := newRtAgg(c)
	agg.add("trie-get", "Trie.Get:enumeration", fn.Pos(), complete && len(paths) >= 2, fmt.Sprintf("%d feasible paths (complete=%v)", len(paths), complete))
	isSplat := func(v ssa.Value) bool { return rtAP(v) == "p0.SplatEntry" }
	for _, p := range paths {
		rets, rn := p.ret()
		if rn < 0 || len(rets) != 2 {
			continue
		}
		empty, emptyKnown := p.lenIs(len(p.Items), func(v ssa.Value) bool { return v == ssa.Value(fn.Params[1]) }, 0)
		recs := p.calls(getFn)
		if emptyKnown && empty {
			ge := p.calls(tr + ".Trie.getEntry")
			ok := len(recs) == 0 && len(ge) == 1
			if ok {
				call := p.Items[ge[0]].In.(*ssa.Call)
				ok = rets[0] == rtExtractOf(call, 0) && rets[1] == rtExtractOf(call, 1) && call.Call.Args[0] == fn.Params[0]
			}
			agg.add("trie-get", "Trie.Get:empty-path", p.pos(rn), ok, "on an empty path Get must return this node's own entry (getEntry()); returns "+core.Render(rets[0])+", "+core.Render(rets[1]))
			continue
		}
		if !emptyKnown {
			agg.add("trie-get", "Trie.Get:length-tested", p.pos(rn), false, "path[0] is used on a path that did not test len(path) == 0")
			continue
		}
		// descent
		var rec *ssa.Call
		recOK := len(recs) <= 1
		for _, ri := range recs {
			rec = p.Items[ri].In.(*ssa.Call)
			ex, isEx := rec.Call.Args[0].(*ssa.Extract)
			var lk *ssa.Lookup
			if isEx && ex.Index == 0 {
				lk, _ = ex.Tuple.(*ssa.Lookup)
			}
			if lk == nil || rtAP(lk.X) != "p0.Children" || !c10Label0(fn, 1, lk.Index) || !c10Rest(fn, 1, rec.Call.Args[1]) {
				recOK = false
			} else if pol, known := p.boolFact(ri, rtExtractOf(lk, 1)); !known || !pol {
				recOK = false
			}
		}
		agg.add("trie-get", "Trie.Get:descent", p.pos(rn), recOK, "the recursive Get must run on t.Children[path[0]] (only when present) with path[1:]")
		var childEntry, childOK ssa.Value
		if rec != nil {
			childEntry, childOK = rtExtractOf(rec, 0), rtExtractOf(rec, 1)
		}
		childNil, childNilKnown := false, false
		if childEntry != nil {
			childNil, childNilKnown = p.eqFact(len(p.Items), func(v ssa.Value) bool { return v == childEntry }, rtIsNil)
		}
		switch {
		case isSplat(rets[0]):
			splatNil, splatKnown := p.eqFact(rn, isSplat, rtIsNil)
			okv, isTrue := rtConstBool(rets[1])
			ok := (rec == nil || (childNilKnown && childNil)) && splatKnown && !splatNil && isTrue && okv
			agg.add("trie-get", "Trie.Get:splat-fallback", p.pos(rn), ok,
				"SplatEntry is returned although the descent was not observed to yield a nil entry, SplatEntry != nil was not established, or ok is not true (exact and deeper matches must win over this node's wildcard)")
		case childEntry != nil && rets[0] == childEntry:
			ok := rets[1] == childOK
			if childNilKnown && childNil {
				// nothing below and no wildcard here
				agg.add("trie-get", "Trie.Get:miss", p.pos(rn), ok, "a miss below must be reported with the child's ok")
			} else {
				agg.add("trie-get", "Trie.Get:child-hit", p.pos(rn), ok && childNilKnown, "the child's entry is returned with a different ok, or without having been compared with nil")
			}
		case rtIsNil(rets[0]):
			okv, isConst := rtConstBool(rets[1])
			good := isConst && !okv
			if !good {
				if pol, known := p.boolFact(rn, rets[1]); known && !pol {
					good = true
				}
			}
			agg.add("trie-get", "Trie.Get:miss", p.pos(rn), good && rec == nil, "a nil entry is returned with ok possibly true, or after a descent whose entry was dropped")
		default:
			agg.add("trie-get", "Trie.Get:result", p.pos(rn), false, "Get returns "+core.Render(rets[0])+", which is neither the child's entry, this node's SplatEntry nor nil")
		}
		if childNilKnown && !childNil {
			agg.add("trie-get", "Trie.Get:exact-before-splat", p.pos(rn), rets[0] == childEntry, "the descent produced a non-nil entry but Get returns "+core.Render(rets[0])+": a wildcard overrides a more specific match")
		}
	}
	agg.flush()
	c.Min("trie-get", 7)
	// getEntry
	if ge := c.P.Func(tr, "Trie.getEntry"); ge == nil {
		c.Missing(tr + ".Trie.getEntry")
	} else {
		ok := true
		for _, r := range core.Returns(ge) {
			v := core.RetVals(r)
			if len(v) != 2 || rtAP(v[0]) != "p0.Entry" {
				ok = false
				continue
			}
			b, isB := v[1].(*ssa.BinOp)
			if !isB || b.Op != token.NEQ || rtAP(b.X) != "p0.Entry" || !rtIsNil(b.Y) {
				ok = false
			}
		}
		c.Check("trie-get", "Trie.getEntry", ge.Pos(), ok, "getEntry must return (t.Entry, t.Entry != nil)")
	}
}

func c10TrieSet(c *core.Ctx) {
	const tr = "bfe_route/trie"
	const setFn = tr + ".Trie.Set"
	fn := c.P.Func(tr, "Trie.Set")
	if fn == nil {
		c.Missing(setFn)
		return
	}
	c.Analysed(core.FuncKey(fn))
	if len(fn.Params) != 3 {
		c.Check("trie-set", "Trie.Set:signature", fn.Pos(), false, "Trie.Set no longer has (path, value) parameters")
		return
	}
	paths, complete := rtPaths(fn, 2)
	agg := newRtAgg(c)
	agg.add("trie-set", "Trie.Set:enumeration", fn.Pos(), complete && len(paths) >= 2, fmt.Sprintf("%d feasible paths (complete=%v)", len(paths), complete))
	// len(path) is read off every spelling of the test: len(path) or len(path[1:]) against a constant
	isPath := func(v ssa.Value) bool { return v == ssa.Value(fn.Params[1]) }
	isStar := func(v ssa.Value) bool { return rtConstStr(v, "*") }
	isL0 := func(v ssa.Value) bool { return c10Label0(fn, 1, v) }
	for _, p := range paths {
		rets, rn := p.ret()
		if rn < 0 || len(rets) != 1 {
			continue
		}
		empty, emptyKnown := p.lenIs(len(p.Items), isPath, 0)
		recs := p.calls(setFn)
		if emptyKnown && empty {
			se := p.calls(tr + ".Trie.setEntry")
			ok := len(recs) == 0 && len(se) == 1 && rtIsNil(rets[0])
			if ok {
				call := p.Items[se[0]].In.(*ssa.Call)
				ok = call.Call.Args[0] == fn.Params[0] && call.Call.Args[1] == fn.Params[2]
			}
			agg.add("trie-set", "Trie.Set:empty-path", p.pos(rn), ok, "on an empty path Set must store the value as this node's entry (setEntry(value)) and return nil")
			continue
		}
		if !emptyKnown {
			agg.add("trie-set", "Trie.Set:length-tested", p.pos(rn), false, "path[0] is used on a path that did not test len(path) == 0")
			continue
		}
		star, starKnown := p.eqFact(len(p.Items), isL0, isStar)
		one, oneKnown := p.lenIs(len(p.Items), isPath, 1)
		splatAt := p.lastStore(len(p.Items), func(s *ssa.Store) bool { return rtAP(s.Addr) == "p0.SplatEntry" })
		if splatAt >= 0 {
			st := p.Items[splatAt].In.(*ssa.Store)
			s2, k2 := p.eqFact(splatAt, isL0, isStar)
			o2, ko2 := p.lenIs(splatAt, isPath, 1)
			agg.add("trie-set", "Trie.Set:splat-store", st.Pos(), k2 && s2 && ko2 && o2 && p.R(splatAt, st.Val) == ssa.Value(fn.Params[2]),
				"SplatEntry is written on a path that did not establish path[0] == \"*\" and len(path) == 1, or with a value other than the one being inserted: a non-wildcard host would act as a wildcard")
		}
		if starKnown && star && oneKnown && one {
			agg.add("trie-set", "Trie.Set:splat-recorded", p.pos(rn), splatAt >= 0, "a final \"*\" label does not record SplatEntry: the wildcard host never matches")
		}
		if starKnown && star && oneKnown && !one {
			agg.add("trie-set", "Trie.Set:star-not-last", p.pos(rn), !rtIsNil(rets[0]) && len(recs) == 0 && splatAt < 0, "a \"*\" label that is not the last one must be rejected with an error, without modifying the trie")
			continue
		}
		// descent
		ok := len(recs) == 1
		if ok {
			ri := recs[0]
			rec := p.Items[ri].In.(*ssa.Call)
			node := p.R(ri, rec.Call.Args[0])
			ok = c10Rest(fn, 1, rec.Call.Args[1]) && rec.Call.Args[2] == fn.Params[2] && rets[0] == ssa.Value(rec)
			if ex, isEx := node.(*ssa.Extract); isEx && ex.Index == 0 {
				lk, _ := ex.Tuple.(*ssa.Lookup)
				if lk == nil || rtAP(lk.X) != "p0.Children" || !isL0(lk.Index) {
					ok = false
				} else if pol, known := p.boolFact(ri, rtExtractOf(lk, 1)); !known || !pol {
					ok = false
				}
			} else if rtResultOf(node, 0, tr+".NewTrie") != nil {
				linked := false
				for i := 0; i < ri; i++ {
					if mu, isMU := p.Items[i].In.(*ssa.MapUpdate); isMU && rtAP(mu.Map) == "p0.Children" && isL0(mu.Key) && p.R(i, mu.Value) == node {
						linked = true
					}
				}
				ok = ok && linked
			} else {
				ok = false
			}
		}
		agg.add("trie-set", "Trie.Set:descent", p.pos(rn), ok, "Set must descend into t.Children[path[0]] (creating and linking it when absent) with path[1:] and the same value, and return the result of that call")
	}
	agg.flush()
	c.Min("trie-set", 5)
	if se := c.P.Func(tr, "Trie.setEntry"); se == nil {
		c.Missing(tr + ".Trie.setEntry")
	} else {
		n, ok := 0, true
		core.Instrs(se, func(in ssa.Instruction) {
			if st, isSt := in.(*ssa.Store); isSt {
				n++
				if rtAP(st.Addr) != "p0.Entry" || len(se.Params) != 2 || st.Val != se.Params[1] {
					ok = false
				}
			}
		})
		c.Check("trie-set", "Trie.setEntry", se.Pos(), ok && n == 1, "setEntry must store its argument into t.Entry and nothing else")
	}
}

// ---- census ---------------------------------------------------------------

func c10Census(c *core.Ctx) {
	const rt = "bfe_route"
	const tr = "bfe_route/trie"
	all := c.P.SrcFuncs("")
	for _, f := range []string{"Entry", "SplatEntry", "Children"} {
		fld, ok := c.P.Obj(tr, "Trie."+f).(*types.Var)
		if !ok {
			c.Missing(tr + ".Trie." + f)
			continue
		}
		var foreign []string
		n := 0
		for _, st := range core.FieldStores(all, fld) {
			n++
			if core.FuncPkgRel(st.Fn) != tr {
				foreign = append(foreign, core.FuncKey(st.Fn))
			}
		}
		c.Check("trie-writers", "Trie."+f, fld.Pos(), len(foreign) == 0 && n >= 1, fmt.Sprintf("Trie.%s is written outside package trie by %s (or has no writer at all: %d)", f, strings.Join(foreign, ", "), n))
	}
	// child maps are only filled by the trie package
	var foreign []string
	for _, fn := range all {
		if core.FuncPkgRel(fn) == tr {
			continue
		}
		core.Instrs(fn, func(in ssa.Instruction) {
			if mu, ok := in.(*ssa.MapUpdate); ok && core.TypeStr(mu.Map.Type()) == tr+".trieChildren" {
				foreign = append(foreign, core.FuncKey(fn))
			}
		})
	}
	c.Check("trie-writers", "trieChildren", token.NoPos, len(foreign) == 0, "trie child maps are updated outside package trie by "+strings.Join(foreign, ", "))
	c.Min("trie-writers", 4)
	want := map[string]struct{ fn, val string }{
		"hostTrie":       {rt + ".HostTable.updateHostTable", ""},
		"defaultProduct": {rt + ".HostTable.updateHostTable", "p1.DefaultProduct"},
		"vipTable":       {rt + ".HostTable.updateVipTable", "p1.VipMap"},
	}
	for _, f := range []string{"hostTrie", "defaultProduct", "vipTable"} {
		fld, ok := c.P.Obj(rt, "HostTable."+f).(*types.Var)
		if !ok {
			c.Missing(rt + ".HostTable." + f)
			continue
		}
		sts := core.FieldStores(all, fld)
		ok = len(sts) >= 1
		why := "no writer found"
		for _, st := range sts {
			k := core.FuncKey(st.Fn)
			if k != want[f].fn {
				ok, why = false, "written by "+k
				continue
			}
			if f == "hostTrie" {
				call := rtResultOf(st.Store.Val, 0, rt+".buildHostRoute")
				if call == nil || len(st.Fn.Params) != 2 || rtAP(call.Call.Args[0]) != "p1" {
					ok, why = false, "hostTrie receives "+core.Render(st.Store.Val)+", expected buildHostRoute(conf) of the configuration being installed"
				}
			} else if rtAP(st.Store.Val) != want[f].val {
				ok, why = false, f+" receives "+core.Render(st.Store.Val)
			}
		}
		c.Check("table-writers", "HostTable."+f, fld.Pos(), ok, "HostTable."+f+" must be written only by "+want[f].fn+" from the configuration being installed; "+why)
	}
	rtUpdateCalls(c, "table-writers", "updateHostTable", 1)
	rtUpdateCalls(c, "table-writers", "updateVipTable", 2)
	c.Min("table-writers", 5)
}

// c10Callers: FindLocation and HostTable.Lookup stop at a product error.
func c10Callers(c *core.Ctx) {
	const rt = "bfe_route"
	if lf := c.P.Func(rt, "HostTable.Lookup"); lf == nil {
		c.Missing(rt + ".HostTable.Lookup")
	} else {
		c.Analysed(core.FuncKey(lf))
		ps, _ := rtPaths(lf, 2)
		agg := newRtAgg(c)
		for _, p := range ps {
			_, rn := p.ret()
			if rn < 0 {
				continue
			}
			var rv ssa.Value
			if r := p.Items[rn].In.(*ssa.Return); len(r.Results) == 1 {
				rv = rtLoadOf(r.Results[0])
			}
			for _, ci := range p.calls(rt + ".HostTable.LookupHostTagAndProduct") {
				call := p.Items[ci].In.(*ssa.Call)
				isNil, known := p.eqFact(len(p.Items), func(v ssa.Value) bool { return v == ssa.Value(call) }, rtIsNil)
				if !known || rv == nil {
					agg.add("propagate", "HostTable.Lookup:product-error-tested", call.Pos(), false, "the result of LookupHostTagAndProduct is not tested against nil, or the returned route is not a local struct variable")
					continue
				}
				ev, _ := p.storedField(rn, rv, "Error")
				if !isNil {
					agg.add("propagate", "HostTable.Lookup:product-error", call.Pos(), ev == ssa.Value(call) && len(p.calls(rt+".HostTable.LookupCluster")) == 0, "after a failed product lookup the returned route must carry that error and no cluster lookup may follow")
				} else {
					pv, _ := p.storedField(rn, rv, "Product")
					agg.add("propagate", "HostTable.Lookup:product-ok", call.Pos(), pv != nil && rtAP(pv) == "p1.Route.Product", "after a successful product lookup the returned route must carry req.Route.Product")
				}
			}
		}
		agg.flush()
	}
	if ff := c.P.Func("bfe_server", "BfeServer.FindLocation"); ff == nil {
		c.Missing("bfe_server.BfeServer.FindLocation")
	} else {
		c.Analysed(core.FuncKey(ff))
		ps, _ := rtPaths(ff, 2)
		agg := newRtAgg(c)
		for _, p := range ps {
			rets, rn := p.ret()
			if rn < 0 || len(rets) != 2 {
				continue
			}
			for _, ci := range p.calls("bfe_server.BfeServer.findProduct") {
				call := p.Items[ci].In.(*ssa.Call)
				isNil, known := p.eqFact(len(p.Items), func(v ssa.Value) bool { return v == ssa.Value(call) }, rtIsNil)
				switch {
				case !known:
					agg.add("propagate", "BfeServer.FindLocation:product-error-tested", call.Pos(), false, "the result of findProduct is not tested against nil")
				case !isNil:
					agg.add("propagate", "BfeServer.FindLocation:product-error", call.Pos(), rets[1] == ssa.Value(call) && rtConstStr(rets[0], "") && len(p.calls("bfe_server.BfeServer.findCluster")) == 0, "after a failed findProduct FindLocation must return \"\" and that error without looking up a cluster")
				}
			}
		}
		agg.flush()
	}
}
