package rules

import (
	"fmt"
	"go/token"
	"strings"

	"golang.org/x/tools/go/ssa"

	"verif/internal/core"
)

// C37 — HTTP/2 control-frame floods are bounded.
func init() {
	Register(&Rule{
		ID: "C37", Section: "5 C37",
		Technique: "who-may-write / who-may-call census (queuedControlFrames, writeScheduler.add/take, writeQueue mutators), guard analysis and path queries on go/ssa of writeFrame, scheduleFrameWrite and the serve loop",
		Meta: core.Meta{
			Level:       "other",
			Explanation: "Decides the accounting clauses behind the control-frame bound in bfe_http2: (1) serverConn.queuedControlFrames is written only as +1 in writeFrame under isControl(wm) and as -1 in scheduleFrameWrite under isControl(frame returned by writeSched.take) with take's ok result true; (2) writeScheduler.add is called only from writeFrame with the counted message, every path on which isControl is true passes the increment, and writeQueue.push is called only from add; (3) writeScheduler.take is called only from scheduleFrameWrite, the taken frame cannot reach startFrameWrite without passing the isControl test, and on its true branch the decrement precedes every exit; (4) isControl is exactly `stream == nil` and add files a message in the zero (control) queue exactly under the same condition, zero is shifted only by take and writeQueue.s is stored only by push/shift/forgetStream (so the counter equals the length of the control queue); (5) the PING-ack, SETTINGS and RST_STREAM(resetStream) writers pass no stream, i.e. are counted; (6) in serve every cycle through the select passes the comparison queuedControlFrames > / >= srv.maxQueuedControlFrames(), whose exceeded branch cannot return to the select and reaches return, with `defer sc.conn.Close()` registered before the loop; (7) maxQueuedControlFrames returns a positive constant (or a value tested > 0). Not covered: that memory is actually bounded (frame sizes), frames dropped by forgetStream, stream-bound frames (bounded by flow control and the stream limit, C33/C35), the timing of the check relative to bursts generated within one loop iteration.",
			RuleText:    "obligations = each writer of queuedControlFrames, each add/take/push/zero-shift call site, the isControl definition and the zero-queue condition, each control-frame literal passed to writeFrame, the clauses of the serve-loop limit test, each return of maxQueuedControlFrames",
		},
		Run: runC37,
		Mutants: []Mutant{
			{Name: "control-frame-not-counted", File: "bfe_http2/server.go", Old: "	if wm.isControl() {\n		sc.queuedControlFrames++\n	}\n\n	sc.writeSched.add(wm)", New: "	sc.writeSched.add(wm)", Expect: "sched-add"},
			{Name: "limit-test-inverted", File: "bfe_http2/server.go", Old: "		if sc.queuedControlFrames > sc.srv.maxQueuedControlFrames() {", New: "		if sc.queuedControlFrames < sc.srv.maxQueuedControlFrames() {", Expect: "serve-limit"},
			{Name: "iteration-skips-limit-test", File: "bfe_http2/server.go", Old: "			sc.noteBodyRead(m.st, m.n)\n", New: "			sc.noteBodyRead(m.st, m.n)\n			continue\n", Expect: "serve-limit|serverConn.serve:every-iteration"},
			{Name: "exceeded-keeps-serving", File: "bfe_http2/server.go", Old: "			log.Logger.Debug(\"http2: too many control frames in send queue, closing connection\")\n			return\n", New: "			log.Logger.Debug(\"http2: too many control frames in send queue, closing connection\")\n", Expect: "serve-limit|serverConn.serve:exceeded-leaves"},
			{Name: "limit-disabled", File: "bfe_http2/server.go", Old: "	return maxQueuedControlFrames\n}", New: "	return 0 * maxQueuedControlFrames\n}", Expect: "limit-value"},
			{Name: "counter-reset-elsewhere", File: "bfe_http2/server.go", Old: "	sc.writingFrame = false\n\n	wm := res.wm\n", New: "	sc.writingFrame = false\n	sc.queuedControlFrames = 0\n\n	wm := res.wm\n", Expect: "qcf-writers"},
			{Name: "rst-stream-not-counted", File: "bfe_http2/server.go", Old: "	sc.writeFrame(frameWriteMsg{write: se})\n", New: "	sc.writeFrame(frameWriteMsg{write: se, stream: sc.streams[se.StreamID]})\n", Expect: "control-writers"},
			{Name: "iscontrol-narrowed", File: "bfe_http2/writesched.go", Old: "	return wr.stream == nil\n", New: "	_, isRST := wr.write.(StreamError)\n	return wr.stream == nil && !isRST\n", Expect: "is-control"},
			{Name: "scheduler-bypass", File: "bfe_http2/server.go", Old: "	sc.writeFrame(frameWriteMsg{write: writePingAck{f}})\n", New: "	sc.writeSched.add(frameWriteMsg{write: writePingAck{f}})\n	sc.scheduleFrameWrite()\n", Expect: "sched-add"},
			{Name: "decrement-dropped", File: "bfe_http2/server.go", Old: "			if wm.isControl() {\n				sc.queuedControlFrames--\n			}\n", New: "", Expect: "sched-take"},
			{Name: "decrement-twice", File: "bfe_http2/server.go", Old: "	if sc.needToSendSettingsAck {\n		sc.needToSendSettingsAck = false\n", New: "	if sc.needToSendSettingsAck {\n		sc.needToSendSettingsAck = false\n		sc.queuedControlFrames--\n", Expect: "qcf-writers"},
			{Name: "silent-count-after-add", File: "bfe_http2/server.go", Old: "	if wm.isControl() {\n		sc.queuedControlFrames++\n	}\n\n	sc.writeSched.add(wm)", New: "	sc.writeSched.add(wm)\n	if wm.isControl() {\n		sc.queuedControlFrames++\n	}\n", Silent: true},
			{Name: "silent-limit-local", File: "bfe_http2/server.go", Old: "		if sc.queuedControlFrames > sc.srv.maxQueuedControlFrames() {", New: "		limit := sc.srv.maxQueuedControlFrames()\n		if queued := sc.queuedControlFrames; queued > limit {", Silent: true},
		},
	})
}

func runC37(c *core.Ctx) {
	e := h2bNew(c)
	if e == nil {
		return
	}
	qcf := e.field("serverConn.queuedControlFrames")
	streamF := e.field("frameWriteMsg.stream")
	zeroF := e.field("writeScheduler.zero")
	sF := e.field("writeQueue.s")
	writeFrame := e.fn("serverConn.writeFrame")
	sched := e.fn("serverConn.scheduleFrameWrite")
	serve := e.fn("serverConn.serve")
	isControl := e.fn("frameWriteMsg.isControl")
	add := e.fn("writeScheduler.add")
	take := e.fn("writeScheduler.take")
	limitFn := e.fn("Server.maxQueuedControlFrames")
	if qcf == nil || streamF == nil || zeroF == nil || sF == nil || writeFrame == nil || sched == nil || serve == nil || isControl == nil || add == nil || take == nil || limitFn == nil {
		return
	}
	if len(writeFrame.Params) != 2 {
		c.Missing("serverConn.writeFrame(wm frameWriteMsg): signature changed")
		return
	}
	isQcfLoad := func(v ssa.Value) bool { _, ok := h2bFieldLoad(v, qcf); return ok }
	isControlOf := func(v ssa.Value, arg func(ssa.Value) bool) bool {
		call, ok := h2bIsCall(v, "frameWriteMsg.isControl")
		return ok && len(call.Call.Args) == 1 && arg(call.Call.Args[0])
	}
	// delta returns +1/-1 for stores `f = f ± 1`.
	delta := func(st *ssa.Store) int {
		b, ok := st.Val.(*ssa.BinOp)
		if !ok || !isQcfLoad(b.X) {
			return 0
		}
		k, isK := h2bInt(b.Y)
		if !isK || k != 1 {
			return 0
		}
		switch b.Op {
		case token.ADD:
			return 1
		case token.SUB:
			return -1
		}
		return 0
	}

	// (1) writers of the counter
	var incs, decs []*ssa.Store
	for _, s := range core.FieldStores(e.fns, qcf) {
		d := delta(s.Store)
		switch {
		case s.Fn == writeFrame && d == 1:
			incs = append(incs, s.Store)
			ok := len(writeFrame.Params) == 2 && h2bGuarded(s.Store.Block(), func(r h2bRel) bool {
				return r.Flag(true, func(v ssa.Value) bool { return isControlOf(v, h2bIs(writeFrame.Params[1])) })
			})
			c.Check("qcf-writers", "serverConn.writeFrame:inc", s.Store.Pos(), ok,
				"queuedControlFrames++ is not control-dependent on isControl() of the message being queued; guards: "+h2bGuardList(s.Store.Block()))
		case s.Fn == sched && d == -1:
			decs = append(decs, s.Store)
			var tk *ssa.Call
			okC := h2bGuarded(s.Store.Block(), func(r h2bRel) bool {
				return r.Flag(true, func(v ssa.Value) bool {
					return isControlOf(v, func(a ssa.Value) bool {
						ex, ok := h2bCanon(a).(*ssa.Extract)
						if !ok || ex.Index != 0 {
							return false
						}
						call, ok := h2bIsCall(ex.Tuple, "writeScheduler.take")
						if ok {
							tk = call
						}
						return ok
					})
				})
			})
			okT := tk != nil && h2bGuarded(s.Store.Block(), func(r h2bRel) bool {
				return r.Flag(true, func(v ssa.Value) bool {
					ex, ok := v.(*ssa.Extract)
					return ok && ex.Index == 1 && ex.Tuple == ssa.Value(tk)
				})
			})
			c.Check("qcf-writers", "serverConn.scheduleFrameWrite:dec", s.Store.Pos(), okC && okT,
				"queuedControlFrames-- must happen only where a control frame leaves the scheduler: under ok && isControl() of the frame returned by writeSched.take(); guards: "+h2bGuardList(s.Store.Block()))
		default:
			c.Check("qcf-writers", h2bShort(s.Fn)+":other", s.Store.Pos(), false,
				"queuedControlFrames is written as "+core.Render(s.Store.Val)+" in "+h2bShort(s.Fn)+"; only ++ in writeFrame and -- in scheduleFrameWrite keep it equal to the number of queued control frames")
		}
	}
	c.Min("qcf-writers", 2)

	// (2) add: only from writeFrame, counted
	for _, s := range e.callSites("writeScheduler.add") {
		k := h2bShort(s.Fn)
		if s.Fn != writeFrame {
			c.Check("sched-add", k+":caller", s.Call.Pos(), false, "writeScheduler.add is called from "+k+": frames queued there bypass the control-frame count of writeFrame")
			continue
		}
		args := s.Call.Common().Args
		c.Check("sched-add", k+":message", s.Call.Pos(), len(args) == 2 && h2bEq(args[1], writeFrame.Params[1]), "writeFrame queues "+core.Render(args[len(args)-1])+", not the message it counted")
		var test *ssa.If
		for _, ifi := range h2bIfs(writeFrame) {
			if isControlOf(ifi.Cond, h2bIs(writeFrame.Params[1])) {
				test = ifi
			}
		}
		if test == nil {
			c.Check("sched-add", k+":counted", s.Call.Pos(), false, "writeFrame queues a frame without testing isControl() of it: control frames are not counted")
			continue
		}
		in := s.Call.(ssa.Instruction)
		both := core.Dominates(test, in) || core.MustPass(writeFrame, in, h2bInstrIs(test)) == nil
		isInc := func(x ssa.Instruction) bool {
			for _, st := range incs {
				if x == ssa.Instruction(st) {
					return true
				}
			}
			return false
		}
		bad := h2bReachFromBlock(test.Block().Succs[0], isInc, core.IsReturn)
		c.Check("sched-add", k+":counted", s.Call.Pos(), both && bad == nil,
			"a control frame can be queued by writeFrame without queuedControlFrames being incremented on that path")
	}
	for i, s := range e.callSites("writeQueue.push") {
		c.Check("sched-add", fmt.Sprintf("%s:push#%d", h2bShort(s.Fn), i+1), s.Call.Pos(), s.Fn == add, "writeQueue.push is called from "+h2bShort(s.Fn)+": a frame enters a queue without passing writeScheduler.add")
	}
	c.Min("sched-add", 4)

	// (3) take: only from scheduleFrameWrite, decrement before the frame leaves
	for i, s := range e.callSites("writeScheduler.take") {
		k := fmt.Sprintf("%s:take#%d", h2bShort(s.Fn), i+1)
		if s.Fn != sched {
			c.Check("sched-take", k+":caller", s.Call.Pos(), false, "writeScheduler.take is called from "+h2bShort(s.Fn)+": frames leave the scheduler without the control-frame count being decremented")
			continue
		}
		call, _ := s.Call.(*ssa.Call)
		if call == nil {
			c.Check("sched-take", k+":caller", s.Call.Pos(), false, "take is not a plain call")
			continue
		}
		isTaken := func(v ssa.Value) bool {
			ex, ok := h2bCanon(v).(*ssa.Extract)
			return ok && ex.Index == 0 && ex.Tuple == ssa.Value(call)
		}
		var test *ssa.If
		for _, ifi := range h2bIfs(sched) {
			if isControlOf(ifi.Cond, isTaken) {
				test = ifi
			}
		}
		if test == nil {
			c.Check("sched-take", k+":tested", s.Call.Pos(), false, "the frame returned by take() is never tested with isControl(): the count is not decremented when control frames are written")
			continue
		}
		leaves := func(x ssa.Instruction) bool {
			ci, ok := x.(ssa.CallInstruction)
			if !ok || !core.CallIs(ci.Common(), h2bName("serverConn.startFrameWrite")) {
				return false
			}
			a := ci.Common().Args
			return len(a) == 2 && isTaken(a[1])
		}
		bad := core.ReachAvoiding(sched, call, h2bInstrIs(test), leaves)
		c.Check("sched-take", k+":tested", s.Call.Pos(), bad == nil, "the taken frame can reach startFrameWrite without passing the isControl() test")
		isDec := func(x ssa.Instruction) bool {
			for _, st := range decs {
				if x == ssa.Instruction(st) {
					return true
				}
			}
			return false
		}
		bad = h2bReachFromBlock(test.Block().Succs[0], isDec, func(x ssa.Instruction) bool { return core.IsReturn(x) || leaves(x) })
		c.Check("sched-take", k+":decremented", h2bPos(test), bad == nil, "a control frame leaves the scheduler (startFrameWrite / return) without queuedControlFrames being decremented")
	}
	for _, s := range e.callSites("writeQueue.shift") {
		recv := s.Call.Common().Args[0]
		fa, ok := recv.(*ssa.FieldAddr)
		if ok && core.FieldObj(fa.X, fa.Field) == zeroF {
			c.Check("sched-take", h2bShort(s.Fn)+":zero-shift", s.Call.Pos(), s.Fn == take, "the control queue (writeScheduler.zero) is shifted in "+h2bShort(s.Fn)+", outside writeScheduler.take")
		}
	}
	c.Min("sched-take", 3)

	// (4) isControl == (stream == nil) == membership of the zero queue
	{
		rets := core.Returns(isControl)
		ok := len(rets) == 1 && len(rets[0].Results) == 1
		if ok {
			r := h2bRelOfCond(rets[0].Results[0], true)
			ok = r.Cmp(token.EQL, func(v ssa.Value) bool { _, is := h2bFieldLoad(v, streamF); return is }, h2bNilV)
		}
		c.Check("is-control", "frameWriteMsg.isControl", isControl.Pos(), ok,
			"isControl() is no longer exactly `wr.stream == nil`; frames queued in the control (zero) queue and frames counted by queuedControlFrames may differ")
		for _, call := range core.Calls(add, h2bName("writeQueue.push")) {
			recv := call.Common().Args[0]
			fa, isZero := recv.(*ssa.FieldAddr)
			isZero = isZero && core.FieldObj(fa.X, fa.Field) == zeroF
			b := call.(ssa.Instruction).Block()
			streamNil := func(op token.Token) bool {
				return h2bGuarded(b, func(r h2bRel) bool {
					return r.Cmp(op, func(v ssa.Value) bool { _, is := h2bFieldLoad(v, streamF); return is }, h2bNilV)
				})
			}
			if isZero {
				c.Check("is-control", "writeScheduler.add:zero-queue", call.Pos(), streamNil(token.EQL), "add files a message in the control queue without stream == nil: it is not counted by isControl(); guards: "+h2bGuardList(b))
			} else {
				c.Check("is-control", "writeScheduler.add:stream-queue", call.Pos(), streamNil(token.NEQ), "add files a message in a stream queue although its stream may be nil: it is counted but never leaves through the control queue; guards: "+h2bGuardList(b))
			}
		}
		for _, s := range core.FieldStores(e.fns, sF) {
			k := h2bShort(s.Fn)
			ok := k == "writeQueue.push" || k == "writeQueue.shift" || k == "writeScheduler.forgetStream"
			c.Check("is-control", k+":queue-store", s.Store.Pos(), ok, "writeQueue.s is stored in "+k+"; only push, shift and forgetStream may change a queue's content")
		}
		for _, s := range core.FieldStores(e.fns, zeroF) {
			c.Check("is-control", h2bShort(s.Fn)+":zero-replaced", s.Store.Pos(), false, "writeScheduler.zero is overwritten as a whole in "+h2bShort(s.Fn)+": queued control frames disappear without queuedControlFrames being decremented")
		}
		c.Min("is-control", 5)
	}

	// (5) control-frame writers pass no stream
	control := map[string]bool{"bfe_http2.writePingAck": true, "bfe_http2.writeSettings": true, "bfe_http2.StreamError": true, "bfe_http2.writeSettingsAck": true, "*bfe_http2.writeGoAway": true}
	for _, s := range e.callSites("serverConn.writeFrame") {
		args := s.Call.Common().Args
		if len(args) != 2 {
			continue
		}
		lit := h2bLitOf(args[1])
		if lit == nil {
			continue
		}
		fl := h2bLitFields(lit)
		dt := h2bDynType(fl["write"])
		if !control[dt] {
			continue
		}
		_, hasStream := fl["stream"]
		c.Check("control-writers", h2bShort(s.Fn)+":"+strings.TrimPrefix(dt, "bfe_http2."), s.Call.Pos(), !hasStream,
			"a "+dt+" frame is queued with a stream: isControl() is false for it, so it escapes the queued-control-frame limit")
	}
	c.Min("control-writers", 3)

	// (6) the serve loop
	{
		const k = "serverConn.serve:"
		var sel ssa.Instruction
		for _, in := range h2bAll(serve) {
			if s, ok := in.(*ssa.Select); ok && s.Blocking {
				sel = in
			}
		}
		var limit *ssa.If
		var exceeded *ssa.BasicBlock
		isLimitCall := func(v ssa.Value) bool {
			_, ok := h2bIsCall(v, "Server.maxQueuedControlFrames")
			return ok
		}
		for _, ifi := range h2bIfs(serve) {
			for _, pol := range []bool{true, false} {
				r := h2bRelOfCond(ifi.Cond, pol)
				if r.Cmp(token.GTR, isQcfLoad, isLimitCall) || r.Cmp(token.GEQ, isQcfLoad, isLimitCall) {
					limit = ifi
					if pol {
						exceeded = ifi.Block().Succs[0]
					} else {
						exceeded = ifi.Block().Succs[1]
					}
				}
			}
		}
		c.Check("serve-limit", k+"limit-test", serve.Pos(), limit != nil && sel != nil,
			"serve has no branch on sc.queuedControlFrames > (or >=) sc.srv.maxQueuedControlFrames(), or no select loop")
		if limit != nil && sel != nil {
			bad := core.ReachAvoiding(serve, sel, h2bInstrIs(limit), h2bInstrIs(sel))
			c.Check("serve-limit", k+"every-iteration", h2bPos(limit), bad == nil,
				"an iteration of the serve loop returns to the select without passing the queued-control-frames limit test")
			back := h2bReachFromBlock(exceeded, nil, h2bInstrIs(sel))
			ret := h2bReachFromBlock(exceeded, nil, core.IsReturn)
			c.Check("serve-limit", k+"exceeded-leaves", h2bPos(limit), back == nil && ret != nil,
				"when the limit is exceeded serve keeps looping instead of returning (the connection is not closed)")
			closed := false
			for _, in := range h2bAll(serve) {
				d, ok := in.(*ssa.Defer)
				if !ok || !d.Call.IsInvoke() || d.Call.Method.Name() != "Close" {
					continue
				}
				f, _ := h2bAnyFieldLoad(d.Call.Value)
				if f != nil && f.Name() == "conn" && core.Dominates(in, limit) {
					closed = true
				}
			}
			c.Check("serve-limit", k+"conn-closed-on-exit", serve.Pos(), closed,
				"serve does not `defer sc.conn.Close()` before entering the loop: leaving the loop on a flood would not close the connection")
		}
		c.Min("serve-limit", 4)
	}

	// (7) the limit
	for i, r := range core.Returns(limitFn) {
		v := r.Results[0]
		ok := false
		if k, isK := h2bInt(v); isK {
			ok = k > 0
		} else {
			ok = h2bGuarded(r.Block(), func(rel h2bRel) bool { return rel.Cmp(token.GTR, h2bIs(v), h2bIsInt(0)) })
		}
		c.Check("limit-value", fmt.Sprintf("Server.maxQueuedControlFrames:return#%d", i+1), r.Pos(), ok,
			"maxQueuedControlFrames may return "+core.Render(v)+", which is not known to be positive: the flood limit is disabled or closes every connection")
	}
	c.Min("limit-value", 1)
}
