package rules

import (
	"fmt"
	"go/token"
	"strings"

	"golang.org/x/tools/go/ssa"

	"verif/internal/core"
)

// C37 — HTTP/2 control-frame floods are bounded.
func init() {
	Register(&Rule{
		ID: "C37", Section: "5 C37",
		Technique: "who-may-write / who-may-call census (queuedControlFrames, writeScheduler.add/take, writeQueue mutators), guard analysis and path queries on go/ssa of writeFrame, scheduleFrameWrite and the serve loop",
		Meta: core.Meta{
			Level:       "other",
			Explanation: "Decides the accounting clauses behind the control-frame bound in bfe_http2: (1) serverConn.queuedControlFrames is written only as +1 in writeFrame under isControl(wm) and as -1 in scheduleFrameWrite under isControl(frame returned by writeSched.take) with take's ok result true; the only other store accepted in these two functions is the constant 0 written where the counter was found negative (it can only raise the counter, so it never under-counts queued frames); (2) writeScheduler.add is called only from writeFrame with the counted message, every path on which isControl is true passes the increment, and writeQueue.push is called only from add; (3) writeScheduler.take is called only from scheduleFrameWrite, the taken frame cannot reach startFrameWrite without passing the isControl test, and on its true branch the decrement precedes every exit; (4) isControl is exactly `stream == nil` and add files a message in the zero (control) queue exactly under the same condition, zero is shifted only by take and writeQueue.s is stored only by push/shift/forgetStream (so the counter equals the length of the control queue); (5) the PING-ack, SETTINGS and RST_STREAM(resetStream) writers pass no stream, i.e. are counted; (6) in serve every cycle through the select passes the comparison queuedControlFrames > / >= srv.maxQueuedControlFrames(), whose exceeded branch cannot return to the select and reaches return, with `defer sc.conn.Close()` registered before the loop; (7) maxQueuedControlFrames returns a positive constant (or a value tested > 0). Robustness: every anchor function is analysed together with its private helpers (unexported functions of bfe_http2 that are never used as values and whose every call site lies in the anchor or another such helper, depth <= 4): stores, calls and loops found there count as the anchor's; values are followed across the call boundary (a helper's parameter is the argument at its single call site, the result of a helper call is the one value the helper returns); guards hold inside a single-call-site helper when they hold at its call site; branch facts are read through negations, mirrored comparisons, named booleans, short-circuit phis (the fact must follow on every edge that can yield the value, edges contradicting other known guards excluded) and boolean helper functions (the fact must follow at every return that can yield the value); dominance, must-pass and reachability are decided on the call-stack-sensitive supergraph of the region (calls of helpers entered, constant boolean results matched with the branch on them in the caller). Not followed: helpers that are used as function values or invoked through an interface, helpers called through defer or go, values passed through struct fields or closures' free variables into a helper, helpers with more than one call site for parameter identity (their code is still attributed to the anchor when all call sites lie in the region). Not covered: that memory is actually bounded (frame sizes), frames dropped by forgetStream, stream-bound frames (bounded by flow control and the stream limit, C33/C35), the timing of the check relative to bursts generated within one loop iteration.",
			RuleText:    "obligations = each writer of queuedControlFrames, each add/take/push/zero-shift call site, the isControl definition and the zero-queue condition, each control-frame literal passed to writeFrame, the clauses of the serve-loop limit test, each return of maxQueuedControlFrames",
		},
		Run: runC37,
		Mutants: []Mutant{
			{Name: "control-frame-not-counted", File: "bfe_http2/server.go", Old: "	if wm.isControl() {\n		sc.queuedControlFrames++\n	}\n\n	sc.writeSched.add(wm)", New: "	sc.writeSched.add(wm)", Expect: "sched-add"},
			{Name: "limit-test-inverted", File: "bfe_http2/server.go", Old: "		if sc.queuedControlFrames > sc.srv.maxQueuedControlFrames() {", New: "		if sc.queuedControlFrames < sc.srv.maxQueuedControlFrames() {", Expect: "serve-limit"},
			{Name: "iteration-skips-limit-test", File: "bfe_http2/server.go", Old: "			sc.noteBodyRead(m.st, m.n)\n", New: "			sc.noteBodyRead(m.st, m.n)\n			continue\n", Expect: "serve-limit|serverConn.serve:every-iteration"},
			{Name: "exceeded-keeps-serving", File: "bfe_http2/server.go", Old: "			log.Logger.Debug(\"http2: too many control frames in send queue, closing connection\")\n			return\n", New: "			log.Logger.Debug(\"http2: too many control frames in send queue, closing connection\")\n", Expect: "serve-limit|serverConn.serve:exceeded-leaves"},
			{Name: "limit-disabled", File: "bfe_http2/server.go", Old: "	return maxQueuedControlFrames\n}", New: "	return 0 * maxQueuedControlFrames\n}", Expect: "limit-value"},
			{Name: "counter-reset-elsewhere", File: "bfe_http2/server.go", Old: "	sc.writingFrame = false\n\n	wm := res.wm\n", New: "	sc.writingFrame = false\n	sc.queuedControlFrames = 0\n\n	wm := res.wm\n", Expect: "qcf-writers"},
			{Name: "rst-stream-not-counted", File: "bfe_http2/server.go", Old: "	sc.writeFrame(frameWriteMsg{write: se})\n", New: "	sc.writeFrame(frameWriteMsg{write: se, stream: sc.streams[se.StreamID]})\n", Expect: "control-writers"},
			{Name: "iscontrol-narrowed", File: "bfe_http2/writesched.go", Old: "	return wr.stream == nil\n", New: "	_, isRST := wr.write.(StreamError)\n	return wr.stream == nil && !isRST\n", Expect: "is-control"},
			{Name: "scheduler-bypass", File: "bfe_http2/server.go", Old: "	sc.writeFrame(frameWriteMsg{write: writePingAck{f}})\n", New: "	sc.writeSched.add(frameWriteMsg{write: writePingAck{f}})\n	sc.scheduleFrameWrite()\n", Expect: "sched-add"},
			{Name: "decrement-dropped", File: "bfe_http2/server.go", Old: "			if wm.isControl() {\n				sc.queuedControlFrames--\n			}\n", New: "", Expect: "sched-take"},
			{Name: "decrement-twice", File: "bfe_http2/server.go", Old: "	if sc.needToSendSettingsAck {\n		sc.needToSendSettingsAck = false\n", New: "	if sc.needToSendSettingsAck {\n		sc.needToSendSettingsAck = false\n		sc.queuedControlFrames--\n", Expect: "qcf-writers"},
			{Name: "silent-count-after-add", File: "bfe_http2/server.go", Old: "	if wm.isControl() {\n		sc.queuedControlFrames++\n	}\n\n	sc.writeSched.add(wm)", New: "	sc.writeSched.add(wm)\n	if wm.isControl() {\n		sc.queuedControlFrames++\n	}\n", Silent: true},
			{Name: "silent-limit-local", File: "bfe_http2/server.go", Old: "		if sc.queuedControlFrames > sc.srv.maxQueuedControlFrames() {", New: "		limit := sc.srv.maxQueuedControlFrames()\n		if queued := sc.queuedControlFrames; queued > limit {", Silent: true},
			{Name: "silent-limit-test-in-boolean-helper", File: "bfe_http2/server.go", Old: "\t\tif sc.queuedControlFrames > sc.srv.maxQueuedControlFrames() {\n\t\t\tstate.H2ConnExceedMaxQueuedControlFrames.Inc(1)\n\t\t\tlog.Logger.Debug(\"http2: too many control frames in send queue, closing connection\")\n\t\t\treturn\n\t\t}\n\t}\n}\n", New: "\t\tif sc.controlQueueFull() {\n\t\t\treturn\n\t\t}\n\t}\n}\n\nfunc (sc *serverConn) controlQueueFull() bool {\n\tif sc.queuedControlFrames > sc.srv.maxQueuedControlFrames() {\n\t\tstate.H2ConnExceedMaxQueuedControlFrames.Inc(1)\n\t\tlog.Logger.Debug(\"http2: too many control frames in send queue, closing connection\")\n\t\treturn true\n\t}\n\treturn false\n}\n", Silent: true},
			{Name: "silent-limit-test-inverted-continue", File: "bfe_http2/server.go", Old: "\t\tif sc.queuedControlFrames > sc.srv.maxQueuedControlFrames() {\n\t\t\tstate.H2ConnExceedMaxQueuedControlFrames.Inc(1)\n\t\t\tlog.Logger.Debug(\"http2: too many control frames in send queue, closing connection\")\n\t\t\treturn\n\t\t}\n\t}\n}\n", New: "\t\tif sc.queuedControlFrames <= sc.srv.maxQueuedControlFrames() {\n\t\t\tcontinue\n\t\t}\n\t\tstate.H2ConnExceedMaxQueuedControlFrames.Inc(1)\n\t\tlog.Logger.Debug(\"http2: too many control frames in send queue, closing connection\")\n\t\treturn\n\t}\n}\n", Silent: true},
			{Name: "silent-negative-count-repaired-and-logged", File: "bfe_http2/server.go", Old: "\t\tif wm, ok := sc.writeSched.take(); ok {\n\t\t\tif wm.isControl() {\n\t\t\t\tsc.queuedControlFrames--\n\t\t\t}\n\t\t\tsc.startFrameWrite(wm)\n\t\t\treturn\n\t\t}\n", New: "\t\tif next, found := sc.writeSched.take(); found {\n\t\t\tcounts := next.isControl()\n\t\t\tif counts {\n\t\t\t\tsc.queuedControlFrames -= 1\n\t\t\t\tif sc.queuedControlFrames < 0 {\n\t\t\t\t\tlog.Logger.Debug(\"http2: queuedControlFrames=%d after take\", sc.queuedControlFrames)\n\t\t\t\t\tsc.queuedControlFrames = 0\n\t\t\t\t}\n\t\t\t}\n\t\t\tsc.startFrameWrite(next)\n\t\t\treturn\n\t\t}\n", Silent: true},
		},
	})
}

func runC37(c *core.Ctx) {
	e := h2bNew(c)
	if e == nil {
		return
	}
	e.declare("writeQueue.push", "writeQueue.shift", "writeScheduler.forgetStream", "serverConn.startFrameWrite")
	qcf := e.field("serverConn.queuedControlFrames")
	streamF := e.field("frameWriteMsg.stream")
	zeroF := e.field("writeScheduler.zero")
	sF := e.field("writeQueue.s")
	writeFrame := e.fn("serverConn.writeFrame")
	sched := e.fn("serverConn.scheduleFrameWrite")
	serve := e.fn("serverConn.serve")
	isControl := e.fn("frameWriteMsg.isControl")
	add := e.fn("writeScheduler.add")
	take := e.fn("writeScheduler.take")
	limitFn := e.fn("Server.maxQueuedControlFrames")
	if qcf == nil || streamF == nil || zeroF == nil || sF == nil || writeFrame == nil || sched == nil || serve == nil || isControl == nil || add == nil || take == nil || limitFn == nil {
		return
	}
	if len(writeFrame.Params) != 2 {
		c.Missing("serverConn.writeFrame(wm frameWriteMsg): signature changed")
		return
	}
	// every anchor is looked at together with its private helpers
	wfReg, scReg, svReg, addReg, takeReg := e.region(writeFrame), e.region(sched), e.region(serve), e.region(add), e.region(take)
	msg := ssa.Value(writeFrame.Params[1])
	isQcfLoad := func(v ssa.Value) bool { _, ok := h2bFieldLoad(e.rep(v), qcf); return ok }
	isControlOf := func(v ssa.Value, arg func(ssa.Value) bool) bool {
		call, ok := h2bIsCall(v, "frameWriteMsg.isControl")
		return ok && len(call.Call.Args) == 1 && arg(call.Call.Args[0])
	}
	// delta returns +1/-1 for stores `f = f ± 1`.
	delta := func(st *ssa.Store) int {
		b, ok := st.Val.(*ssa.BinOp)
		if !ok || !isQcfLoad(b.X) {
			return 0
		}
		k, isK := h2bInt(b.Y)
		if !isK || k != 1 {
			return 0
		}
		switch b.Op {
		case token.ADD:
			return 1
		case token.SUB:
			return -1
		}
		return 0
	}
	// repair: a store that cannot lower the counter below the number of queued
	// control frames: the constant 0 stored only where the counter was found
	// negative (a count is never negative, so this never under-counts).
	repair := func(st *ssa.Store) bool {
		k, isK := h2bInt(st.Val)
		return isK && k == 0 && e.guarded(st.Block(), func(r h2bRel) bool {
			return r.Cmp(token.LSS, isQcfLoad, h2bIsInt(0)) || r.Cmp(token.LEQ, isQcfLoad, h2bIsInt(-1))
		})
	}

	// (1) writers of the counter
	var incs, decs []*ssa.Store
	nRepair := 0
	for _, s := range core.FieldStores(e.fns, qcf) {
		d := delta(s.Store)
		switch {
		case wfReg.in[s.Fn] && d == 1:
			incs = append(incs, s.Store)
			ok := e.guarded(s.Store.Block(), func(r h2bRel) bool {
				return r.Flag(true, func(v ssa.Value) bool { return isControlOf(v, e.is(msg)) })
			})
			c.Check("qcf-writers", "serverConn.writeFrame:inc", s.Store.Pos(), ok,
				"queuedControlFrames++ is not control-dependent on isControl() of the message being queued; guards: "+e.guardList(s.Store.Block()))
		case scReg.in[s.Fn] && d == -1:
			decs = append(decs, s.Store)
			var tk *ssa.Call
			okC := e.guarded(s.Store.Block(), func(r h2bRel) bool {
				return r.Flag(true, func(v ssa.Value) bool {
					return isControlOf(v, func(a ssa.Value) bool {
						ex, ok := e.rep(a).(*ssa.Extract)
						if !ok || ex.Index != 0 {
							return false
						}
						call, ok := h2bIsCall(ex.Tuple, "writeScheduler.take")
						if ok {
							tk = call
						}
						return ok
					})
				})
			})
			okT := tk != nil && e.guarded(s.Store.Block(), func(r h2bRel) bool {
				return r.Flag(true, func(v ssa.Value) bool {
					ex, ok := e.rep(v).(*ssa.Extract)
					return ok && ex.Index == 1 && ex.Tuple == ssa.Value(tk)
				})
			})
			c.Check("qcf-writers", "serverConn.scheduleFrameWrite:dec", s.Store.Pos(), okC && okT,
				"queuedControlFrames-- must happen only where a control frame leaves the scheduler: under ok && isControl() of the frame returned by writeSched.take(); guards: "+e.guardList(s.Store.Block()))
		case (wfReg.in[s.Fn] || scReg.in[s.Fn]) && repair(s.Store):
			nRepair++
			c.Check("qcf-writers", fmt.Sprintf("%s:repair-negative#%d", h2bShort(e.home(s.Fn, writeFrame, sched)), nRepair), s.Store.Pos(), true, "")
		default:
			c.Check("qcf-writers", h2bShort(s.Fn)+":other", s.Store.Pos(), false,
				"queuedControlFrames is written as "+core.Render(s.Store.Val)+" in "+h2bShort(s.Fn)+"; only ++ in writeFrame and -- in scheduleFrameWrite keep it equal to the number of queued control frames")
		}
	}
	c.Min("qcf-writers", 2)
	isInc := func(x ssa.Instruction) bool {
		for _, st := range incs {
			if x == ssa.Instruction(st) {
				return true
			}
		}
		return false
	}
	isDec := func(x ssa.Instruction) bool {
		for _, st := range decs {
			if x == ssa.Instruction(st) {
				return true
			}
		}
		return false
	}

	// (2) add: only from writeFrame, counted
	for _, s := range e.callSites("writeScheduler.add") {
		if !wfReg.in[s.Fn] {
			k := h2bShort(s.Fn)
			c.Check("sched-add", k+":caller", s.Call.Pos(), false, "writeScheduler.add is called from "+k+": frames queued there bypass the control-frame count of writeFrame")
			continue
		}
		k := h2bShort(writeFrame)
		args := s.Call.Common().Args
		c.Check("sched-add", k+":message", s.Call.Pos(), len(args) == 2 && e.eq(args[1], msg), "writeFrame queues "+core.Render(args[len(args)-1])+", not the message it counted")
		test, counted := e.branchOn(wfReg.ifs(), func(r h2bRel) bool {
			return r.Flag(true, func(v ssa.Value) bool { return isControlOf(v, e.is(msg)) })
		}, nil)
		if test == nil {
			c.Check("sched-add", k+":counted", s.Call.Pos(), false, "writeFrame queues a frame without testing isControl() of it: control frames are not counted")
			continue
		}
		in := s.Call.(ssa.Instruction)
		both := wfReg.dominates(test, in) || wfReg.mustPass(in, h2bInstrIs(test)) == nil
		bad := wfReg.reachFromBlock(counted, isInc, wfReg.isExit)
		c.Check("sched-add", k+":counted", s.Call.Pos(), both && bad == nil,
			"a control frame can be queued by writeFrame without queuedControlFrames being incremented on that path")
	}
	for i, s := range e.callSites("writeQueue.push") {
		c.Check("sched-add", fmt.Sprintf("%s:push#%d", h2bShort(e.home(s.Fn, add)), i+1), s.Call.Pos(), addReg.in[s.Fn], "writeQueue.push is called from "+h2bShort(s.Fn)+": a frame enters a queue without passing writeScheduler.add")
	}
	c.Min("sched-add", 4)

	// (3) take: only from scheduleFrameWrite, decrement before the frame leaves
	for i, s := range e.callSites("writeScheduler.take") {
		k := fmt.Sprintf("%s:take#%d", h2bShort(e.home(s.Fn, sched)), i+1)
		if !scReg.in[s.Fn] {
			c.Check("sched-take", k+":caller", s.Call.Pos(), false, "writeScheduler.take is called from "+h2bShort(s.Fn)+": frames leave the scheduler without the control-frame count being decremented")
			continue
		}
		call, _ := s.Call.(*ssa.Call)
		if call == nil {
			c.Check("sched-take", k+":caller", s.Call.Pos(), false, "take is not a plain call")
			continue
		}
		isTaken := func(v ssa.Value) bool {
			ex, ok := e.rep(v).(*ssa.Extract)
			return ok && ex.Index == 0 && ex.Tuple == ssa.Value(call)
		}
		test, control := e.branchOn(scReg.ifs(), func(r h2bRel) bool {
			return r.Flag(true, func(v ssa.Value) bool { return isControlOf(v, isTaken) })
		}, nil)
		if test == nil {
			c.Check("sched-take", k+":tested", s.Call.Pos(), false, "the frame returned by take() is never tested with isControl(): the count is not decremented when control frames are written")
			continue
		}
		leaves := func(x ssa.Instruction) bool {
			ci, ok := x.(ssa.CallInstruction)
			if !ok || !core.CallIs(ci.Common(), h2bName("serverConn.startFrameWrite")) {
				return false
			}
			a := ci.Common().Args
			return len(a) == 2 && isTaken(a[1])
		}
		bad := scReg.reachAfter(call, h2bInstrIs(test), leaves)
		c.Check("sched-take", k+":tested", s.Call.Pos(), bad == nil, "the taken frame can reach startFrameWrite without passing the isControl() test")
		bad = scReg.reachFromBlock(control, isDec, func(x ssa.Instruction) bool { return scReg.isExit(x) || leaves(x) })
		c.Check("sched-take", k+":decremented", h2bPos(test), bad == nil, "a control frame leaves the scheduler (startFrameWrite / return) without queuedControlFrames being decremented")
	}
	for _, s := range e.callSites("writeQueue.shift") {
		recv := s.Call.Common().Args[0]
		fa, ok := recv.(*ssa.FieldAddr)
		if ok && core.FieldObj(fa.X, fa.Field) == zeroF {
			c.Check("sched-take", h2bShort(e.home(s.Fn, take))+":zero-shift", s.Call.Pos(), takeReg.in[s.Fn], "the control queue (writeScheduler.zero) is shifted in "+h2bShort(s.Fn)+", outside writeScheduler.take")
		}
	}
	c.Min("sched-take", 3)

	// (4) isControl == (stream == nil) == membership of the zero queue
	{
		isStreamLoad := func(v ssa.Value) bool { _, is := h2bFieldLoad(e.rep(v), streamF); return is }
		streamNil := func(r h2bRel) bool { return r.Cmp(token.EQL, isStreamLoad, h2bNilV) }
		streamSet := func(r h2bRel) bool { return r.Cmp(token.NEQ, isStreamLoad, h2bNilV) }
		rets := core.Returns(isControl)
		ok := len(rets) > 0
		for _, r := range rets {
			if len(r.Results) != 1 {
				ok = false
				continue
			}
			v := core.RetVals(r)[0]
			if k, isK := h2bBool(v); isK {
				m := streamSet
				if k {
					m = streamNil
				}
				ok = ok && e.guarded(r.Block(), m)
				continue
			}
			ok = ok && h2bImplies(e, v, true, streamNil, 0) && h2bImplies(e, v, false, streamSet, 0)
		}
		c.Check("is-control", "frameWriteMsg.isControl", isControl.Pos(), ok,
			"isControl() is no longer exactly `wr.stream == nil`; frames queued in the control (zero) queue and frames counted by queuedControlFrames may differ")
		for _, call := range addReg.calls("writeQueue.push") {
			recv := call.Common().Args[0]
			fa, isZero := recv.(*ssa.FieldAddr)
			isZero = isZero && core.FieldObj(fa.X, fa.Field) == zeroF
			b := call.(ssa.Instruction).Block()
			if isZero {
				c.Check("is-control", "writeScheduler.add:zero-queue", call.Pos(), e.guarded(b, streamNil), "add files a message in the control queue without stream == nil: it is not counted by isControl(); guards: "+e.guardList(b))
			} else {
				c.Check("is-control", "writeScheduler.add:stream-queue", call.Pos(), e.guarded(b, streamSet), "add files a message in a stream queue although its stream may be nil: it is counted but never leaves through the control queue; guards: "+e.guardList(b))
			}
		}
		var mutators []*ssa.Function
		for _, n := range []string{"writeQueue.push", "writeQueue.shift", "writeScheduler.forgetStream"} {
			if f := c.P.Func(h2bPkg, n); f != nil {
				mutators = append(mutators, f)
			}
		}
		for _, s := range core.FieldStores(e.fns, sF) {
			home := e.home(s.Fn, mutators...)
			k := h2bShort(home)
			ok := false
			for _, m := range mutators {
				if home == m {
					ok = true
				}
			}
			c.Check("is-control", k+":queue-store", s.Store.Pos(), ok, "writeQueue.s is stored in "+k+"; only push, shift and forgetStream may change a queue's content")
		}
		for _, s := range core.FieldStores(e.fns, zeroF) {
			c.Check("is-control", h2bShort(s.Fn)+":zero-replaced", s.Store.Pos(), false, "writeScheduler.zero is overwritten as a whole in "+h2bShort(s.Fn)+": queued control frames disappear without queuedControlFrames being decremented")
		}
		c.Min("is-control", 5)
	}

	// (5) control-frame writers pass no stream
	control := map[string]bool{"bfe_http2.writePingAck": true, "bfe_http2.writeSettings": true, "bfe_http2.StreamError": true, "bfe_http2.writeSettingsAck": true, "*bfe_http2.writeGoAway": true}
	for _, s := range e.callSites("serverConn.writeFrame") {
		args := s.Call.Common().Args
		if len(args) != 2 {
			continue
		}
		lit := h2bLitOf(args[1])
		if lit == nil {
			continue
		}
		fl := h2bLitFields(lit)
		dt := h2bDynType(fl["write"])
		if !control[dt] {
			continue
		}
		_, hasStream := fl["stream"]
		c.Check("control-writers", h2bShort(s.Fn)+":"+strings.TrimPrefix(dt, "bfe_http2."), s.Call.Pos(), !hasStream,
			"a "+dt+" frame is queued with a stream: isControl() is false for it, so it escapes the queued-control-frame limit")
	}
	c.Min("control-writers", 3)

	// (6) the serve loop
	{
		const k = "serverConn.serve:"
		isLimitCall := func(v ssa.Value) bool {
			_, ok := h2bIsCall(e.rep(v), "Server.maxQueuedControlFrames")
			return ok
		}
		// the branch one side of which is "more control frames queued than allowed"
		// and the other side its negation; the comparison itself may be spelled
		// either way round, negated, or live in a boolean helper
		limit, exceeded := e.branchOn(svReg.ifs(),
			func(r h2bRel) bool {
				return r.Cmp(token.GTR, isQcfLoad, isLimitCall) || r.Cmp(token.GEQ, isQcfLoad, isLimitCall)
			},
			func(r h2bRel) bool {
				return r.Cmp(token.LEQ, isQcfLoad, isLimitCall) || r.Cmp(token.LSS, isQcfLoad, isLimitCall)
			})
		// the select of the serve loop: the blocking select that lies on a cycle with the limit test
		var sel ssa.Instruction
		if limit != nil {
			other := limit.Block().Succs[0]
			if other == exceeded {
				other = limit.Block().Succs[1]
			}
			for _, in := range svReg.all() {
				if s, ok := in.(*ssa.Select); ok && s.Blocking && svReg.reachAfter(in, nil, h2bInstrIs(limit)) != nil && svReg.reachFromBlock(other, nil, h2bInstrIs(in)) != nil {
					sel = in
				}
			}
		}
		c.Check("serve-limit", k+"limit-test", serve.Pos(), limit != nil && sel != nil,
			"serve has no branch on sc.queuedControlFrames > (or >=) sc.srv.maxQueuedControlFrames(), or no select loop")
		if limit != nil && sel != nil {
			bad := svReg.reachAfter(sel, h2bInstrIs(limit), h2bInstrIs(sel))
			c.Check("serve-limit", k+"every-iteration", h2bPos(limit), bad == nil,
				"an iteration of the serve loop returns to the select without passing the queued-control-frames limit test")
			back := svReg.reachFromBlock(exceeded, nil, h2bInstrIs(sel))
			ret := svReg.reachFromBlock(exceeded, nil, svReg.isExit)
			c.Check("serve-limit", k+"exceeded-leaves", h2bPos(limit), back == nil && ret != nil,
				"when the limit is exceeded serve keeps looping instead of returning (the connection is not closed)")
			closed := false
			for _, in := range h2bAll(serve) {
				d, ok := in.(*ssa.Defer)
				if !ok || !d.Call.IsInvoke() || d.Call.Method.Name() != "Close" {
					continue
				}
				f, _ := h2bAnyFieldLoad(d.Call.Value)
				if f != nil && f.Name() == "conn" && svReg.dominates(in, sel) {
					closed = true
				}
			}
			c.Check("serve-limit", k+"conn-closed-on-exit", serve.Pos(), closed,
				"serve does not `defer sc.conn.Close()` before entering the loop: leaving the loop on a flood would not close the connection")
		}
		c.Min("serve-limit", 4)
	}

	// (7) the limit
	for i, r := range core.Returns(limitFn) {
		v := r.Results[0]
		ok := false
		if k, isK := h2bInt(v); isK {
			ok = k > 0
		} else {
			ok = e.guarded(r.Block(), func(rel h2bRel) bool { return rel.Cmp(token.GTR, e.is(v), h2bIsInt(0)) })
		}
		c.Check("limit-value", fmt.Sprintf("Server.maxQueuedControlFrames:return#%d", i+1), r.Pos(), ok,
			"maxQueuedControlFrames may return "+core.Render(v)+", which is not known to be positive: the flood limit is disabled or closes every connection")
	}
	c.Min("limit-value", 1)
}
