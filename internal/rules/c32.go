package rules

import (
	"fmt"
	"go/constant"
	"go/token"
	"go/types"
	"strings"

	"golang.org/x/tools/go/ssa"

	"verif/internal/core"
)

const hxH2 = "bfe_http2"

// c32Spec is one row of the RFC 7540 section 6 frame table.
type c32Spec struct {
	Const   string // FrameType constant of bfe_http2
	Val     int64  // RFC 7540 section 11.2 code
	RFC     string
	Frame   string // concrete frame struct returned by the parser
	Stream  string // "nonzero", "zero", "any"
	LenEq   int64  // exact payload length, -1 = none
	LenMin  int64  // minimal payload length, -1 = none
	PadFlag string // constant naming the PADDED flag, "" = frame has no padding
	Writer  string // Framer method that writes the frame
}

var c32Specs = []c32Spec{
	{"FrameData", 0, "DATA", "DataFrame", "nonzero", -1, -1, "FlagDataPadded", "WriteDataPadded"},
	{"FrameHeaders", 1, "HEADERS", "HeadersFrame", "nonzero", -1, -1, "FlagHeadersPadded", "WriteHeaders"},
	{"FramePriority", 2, "PRIORITY", "PriorityFrame", "nonzero", 5, -1, "", "WritePriority"},
	{"FrameRSTStream", 3, "RST_STREAM", "RSTStreamFrame", "nonzero", 4, -1, "", "WriteRSTStream"},
	{"FrameSettings", 4, "SETTINGS", "SettingsFrame", "zero", -1, -1, "", "WriteSettings"},
	{"FramePushPromise", 5, "PUSH_PROMISE", "PushPromiseFrame", "nonzero", -1, -1, "FlagPushPromisePadded", "WritePushPromise"},
	{"FramePing", 6, "PING", "PingFrame", "zero", 8, -1, "", "WritePing"},
	{"FrameGoAway", 7, "GOAWAY", "GoAwayFrame", "zero", -1, 8, "", "WriteGoAway"},
	{"FrameWindowUpdate", 8, "WINDOW_UPDATE", "WindowUpdateFrame", "any", 4, -1, "", "WriteWindowUpdate"},
	{"FrameContinuation", 9, "CONTINUATION", "ContinuationFrame", "nonzero", -1, -1, "", "WriteContinuation"},
}

var c32Consts = []struct {
	Name string
	Val  int64
}{
	{"FlagDataEndStream", 0x1}, {"FlagDataPadded", 0x8},
	{"FlagHeadersEndStream", 0x1}, {"FlagHeadersEndHeaders", 0x4}, {"FlagHeadersPadded", 0x8}, {"FlagHeadersPriority", 0x20},
	{"FlagSettingsAck", 0x1}, {"FlagPingAck", 0x1}, {"FlagContinuationEndHeaders", 0x4},
	{"FlagPushPromiseEndHeaders", 0x4}, {"FlagPushPromisePadded", 0x8},
	{"ErrCodeProtocol", 0x1}, {"ErrCodeFlowControl", 0x3}, {"ErrCodeFrameSize", 0x6}, {"ErrCodeCompression", 0x9},
	{"SettingHeaderTableSize", 0x1}, {"SettingEnablePush", 0x2}, {"SettingMaxConcurrentStreams", 0x3},
	{"SettingInitialWindowSize", 0x4}, {"SettingMaxFrameSize", 0x5}, {"SettingMaxHeaderListSize", 0x6},
	{"frameHeaderLen", 9}, {"minMaxFrameSize", 1 << 14}, {"maxFrameSize", 1<<24 - 1},
}

const (
	c32Protocol  = 1
	c32FlowCtl   = 3
	c32FrameSize = 6
)

// C32 — HTTP/2 frames: malformed frames are rejected.
func init() {
	Register(&Rule{
		ID: "C32", Section: "5 C32",
		Technique: "table agreement (frame types, flags, parsers, writers vs RFC 7540 section 6/11) and guard/dominance rules on go/ssa with relational reading of branch conditions; feasible-path enumeration for checkFrameOrder, parseSettingsFrame and Setting.Valid",
		Meta: core.Meta{
			Level:       "other",
			Explanation: "Decides structural necessary conditions of RFC 7540 frame handling in bfe_http2/frame.go: (1) the FrameType, flag, error-code and setting constants carry the RFC values; frameParsers has one entry per frame type and each parser returns the matching frame struct; ReadFrame dispatches through typeFrameParser(fh.Type). (2) per frame type, every successful return of the parser is guarded by the stream-id rule (non-zero: DATA, HEADERS, PRIORITY, RST_STREAM, PUSH_PROMISE, CONTINUATION; zero: SETTINGS, PING, GOAWAY) and the payload-length rule (PRIORITY 5, RST_STREAM 4, PING 8, WINDOW_UPDATE 4, GOAWAY >= 8, SETTINGS multiple of 6 and empty with ACK), and the rejecting branch returns a connection/stream error with the RFC error code. (3) padded frames: the pad length comes from readByte under the PADDED flag and the payload is cut only under pad <= len(remaining). (4) every readByte/readUint32 error is tested; constant indexes/slices of the payload are below the established length; reserved bits of stream identifiers and window increments are masked; a zero WINDOW_UPDATE increment is an error. (5) ReadFrame reads the payload only under Length <= maxReadSize (else ErrFrameTooLarge), maxReadSize is clamped to 2^24-1, every frame returned has passed checkFrameOrder, parser errors are returned. (6) checkFrameOrder, on every feasible path that accepts a frame: inside a header block only CONTINUATION on the same stream, outside none; lastHeaderStream is written only there, from END_HEADERS. AllowIllegalReads is only set on the logging framer. (7) Setting.Valid enforces ENABLE_PUSH in {0,1}, INITIAL_WINDOW_SIZE <= 2^31-1 (FLOW_CONTROL_ERROR), MAX_FRAME_SIZE in [2^14, 2^24-1], and serverConn.processSetting tests it before acting. (8) writers: each Write* starts the frame with its own type constant, guards the stream id, ends through endWrite (length < 2^24); the 9-byte header layout of startWrite/endWrite/readFrameHeader. Not covered: write/read round-trip equality of payload fields (e.g. WriteHeaders with an empty fragment is rejected on read by BFE's `<= 0` test), general panic-freedom (only constant index/slice bounds in the parsers), SettingsFrame.Value/ForeachSetting indexing (relies on the length%6 invariant), semantic checks done by the server on accepted frames (C33-C37). Robustness: parsers, ReadFrame, checkFrameOrder, Setting.Valid, validStreamID, readMetaFrame and the writers are read together with their private helpers (unexported, not used as values, not anchors themselves, called only from inside the region): parameters of a single-site helper are the arguments, call-site guards hold inside, the path enumerations and dominance queries run over the call/return supergraph, a value returned by a helper is followed to what the helper returns (pad length, remaining payload, payload buffer), branches on named booleans (&&, || phis) are read as the facts they stand for, comparisons with polarity/operand order folded in. Not decided after such a restructuring (reported, by policy): logic moved into a helper shared by several parsers or call sites when the checked values travel through its parameters, into closures or through struct fields; serverConn.processSetting is read without its helpers (its processSetting* callees are effects by name prefix).",
			RuleText:    "obligations = each constant, each frameParsers row, each success return x {stream rule, length rule}, each rejecting branch (error code), each padded slice, each read call, each constant index, each masked identifier, the ReadFrame gates, each accepting path of checkFrameOrder, each writer of lastHeaderStream/AllowIllegalReads/maxReadSize, each SETTINGS value rule, each Write* method",
			Assumptions: []string{"io.ReadFull fills the whole buffer or fails", "Framer.getReadBuf returns a buffer of the requested length (the default closure is checked)"},
		},
		Run:     runC32,
		Mutants: c32Mutants,
	})
}

// c32AnchorNames are the functions of bfe_http2 that the rules analyse in their
// own right; they are never absorbed into the region of another anchor (the
// frame parsers are used as values and are therefore never absorbed either).
var c32AnchorNames = []string{"readByte", "readUint32", "readFrameHeader", "typeFrameParser", "Framer.checkFrameOrder", "Framer.connError",
	"Framer.startWrite", "Framer.endWrite", "validStreamID", "Framer.readMetaFrame", "serverConn.processSetting", "parseUnknownFrame"}

func c32Anchors() []string {
	var out []string
	for _, a := range c32AnchorNames {
		out = append(out, hxH2+"."+a)
	}
	return out
}

func (x *c32Ctx) reg(fn *ssa.Function) *hxReg { return hxRegionOf(x.c.P, fn) }

type c32Ctx struct {
	c        *core.Ctx
	streamF  *types.Var
	lengthF  *types.Var
	flagsF   *types.Var
	typeF    *types.Var
	parsers  map[int64]*ssa.Function
	constVal map[string]int64
}

func runC32(c *core.Ctx) {
	if c.P.Pkg(hxH2) == nil {
		c.Missing(hxH2)
		return
	}
	env := hxOpen(c.P, append(c31Anchors(), c32Anchors()...)...)
	defer env.close()
	x := &c32Ctx{c: c, parsers: map[int64]*ssa.Function{}, constVal: map[string]int64{}}
	x.streamF = hxField(c, hxH2, "FrameHeader.StreamID")
	x.lengthF = hxField(c, hxH2, "FrameHeader.Length")
	x.flagsF = hxField(c, hxH2, "FrameHeader.Flags")
	x.typeF = hxField(c, hxH2, "FrameHeader.Type")
	if x.streamF == nil || x.lengthF == nil || x.flagsF == nil || x.typeF == nil {
		return
	}
	x.consts()
	x.parserTable()
	for _, sp := range c32Specs {
		if fn := x.parsers[sp.Val]; fn != nil {
			x.parser(sp, fn)
		}
	}
	c.Min("stream-id", 18)
	c.Min("frame-length", 10)
	c.Min("padding", 6)
	c.Min("parse-read-err", 6)
	c.Min("parse-index-bounds", 11)
	for _, name := range []string{"readByte", "readUint32"} {
		if fn := hxFn(c, hxH2, name); fn != nil {
			hxIndexBounds(c, "parse-index-bounds", fn)
		}
	}
	x.special()
	x.readFrame()
	x.frameOrder()
	x.settings()
	x.writers()
	x.metaHeaders()
}

func (x *c32Ctx) constOf(name string) (int64, bool) {
	k, ok := x.c.P.Obj(hxH2, name).(*types.Const)
	if !ok || k.Val().Kind() != constant.Int {
		return 0, false
	}
	n, _ := constant.Int64Val(k.Val())
	return n, true
}

// consts: E4 agreement of the numeric constants with RFC 7540.
func (x *c32Ctx) consts() {
	c := x.c
	for _, sp := range c32Specs {
		v, ok := x.constOf(sp.Const)
		if !ok {
			c.Missing(hxH2 + "." + sp.Const)
			continue
		}
		c.Check("rfc-const", sp.Const, c.P.Obj(hxH2, sp.Const).Pos(), v == sp.Val, fmt.Sprintf("%s is %#x, RFC 7540 section 11.2 assigns %#x to %s", sp.Const, v, sp.Val, sp.RFC))
	}
	for _, k := range c32Consts {
		v, ok := x.constOf(k.Name)
		if !ok {
			c.Missing(hxH2 + "." + k.Name)
			continue
		}
		x.constVal[k.Name] = v
		c.Check("rfc-const", k.Name, c.P.Obj(hxH2, k.Name).Pos(), v == k.Val, fmt.Sprintf("%s is %#x, RFC 7540 defines %#x", k.Name, v, k.Val))
	}
	c.Min("rfc-const", 30)
	// Flags.Has(v) is (f & v) == v
	if fn := hxFn(c, hxH2, "Flags.Has"); fn != nil {
		ok := false
		for _, r := range core.Returns(fn) {
			b, isB := hxResolve(core.RetVals(r)[0]).(*ssa.BinOp)
			if !isB || b.Op != token.EQL || len(fn.Params) != 2 {
				continue
			}
			f, v := ssa.Value(fn.Params[0]), ssa.Value(fn.Params[1])
			for _, pair := range [][2]ssa.Value{{b.X, b.Y}, {b.Y, b.X}} { // (f & v) == v, in either operand order
				a, isA := hxResolve(pair[0]).(*ssa.BinOp)
				if !isA || a.Op != token.AND || hxResolve(pair[1]) != v {
					continue
				}
				ax, ay := hxResolve(a.X), hxResolve(a.Y)
				ok = (ax == f && ay == v) || (ay == f && ax == v)
			}
		}
		c.Check("rfc-const", "Flags.Has", fn.Pos(), ok, "Flags.Has(v) must be (f & v) == v")
	}
}

// parserTable: frameParsers literal, typeFrameParser.
func (x *c32Ctx) parserTable() {
	c := x.c
	sp := c.P.SPkg[hxH2]
	if sp == nil {
		c.Missing(hxH2)
		return
	}
	g, _ := sp.Members["frameParsers"].(*ssa.Global)
	initFn := sp.Func("init")
	if g == nil || initFn == nil {
		c.Missing(hxH2 + ".frameParsers")
		return
	}
	var mk ssa.Value
	for _, in := range hxInstrs(initFn) {
		if st, ok := in.(*ssa.Store); ok && st.Addr == ssa.Value(g) {
			mk = st.Val
		}
	}
	for _, in := range hxInstrs(initFn) {
		mu, ok := in.(*ssa.MapUpdate)
		if !ok || mk == nil || mu.Map != mk {
			continue
		}
		k, ok := hxConstInt(mu.Key)
		fn, isFn := core.StripConv(mu.Value).(*ssa.Function)
		if ok && isFn {
			x.parsers[k] = fn
		}
	}
	// writers of the table: only the initialiser
	for _, fn := range c.P.SrcFuncs(hxH2) {
		for _, in := range hxInstrs(fn) {
			switch v := in.(type) {
			case *ssa.Store:
				if v.Addr == ssa.Value(g) && fn != initFn {
					c.Check("parser-table", core.FuncKey(fn)+":reassigns-frameParsers", in.Pos(), false, "frameParsers is replaced at run time")
				}
			case *ssa.MapUpdate:
				if u, ok := v.Map.(*ssa.UnOp); ok && u.X == ssa.Value(g) {
					c.Check("parser-table", core.FuncKey(fn)+":updates-frameParsers", in.Pos(), false, "frameParsers is modified at run time")
				}
			}
		}
	}
	for _, s := range c32Specs {
		fn := x.parsers[s.Val]
		if fn == nil {
			c.Check("parser-table", "frameParsers:"+s.RFC, g.Pos(), false, "frameParsers has no parser for "+s.RFC+" frames: they would be accepted unparsed as UnknownFrame")
			continue
		}
		c.Analysed(core.FuncKey(fn))
		ok, n := true, 0
		got := ""
		for _, r := range x.reg(fn).Returns() {
			rv := core.RetVals(r)
			if len(rv) != 2 || hxIsNil(rv[0]) {
				continue
			}
			n++
			mi, isMI := rv[0].(*ssa.MakeInterface)
			if !isMI {
				ok, got = false, core.Render(rv[0])
				continue
			}
			got = core.TypeStr(mi.X.Type())
			if got != "*"+hxH2+"."+s.Frame {
				ok = false
			}
			if !hxErrOf(rv[1]).Nil {
				ok = false
				got += " with a non-nil error"
			}
		}
		c.Check("parser-table", "frameParsers:"+s.RFC, fn.Pos(), ok && n > 0, fmt.Sprintf("the parser registered for %s (%s) must return *%s with a nil error on success; %d success returns, returns %s", s.RFC, core.FuncKey(fn), s.Frame, n, got))
	}
	c.Min("parser-table", 10)
	if fn := hxFn(c, hxH2, "typeFrameParser"); fn != nil {
		ok := len(fn.Params) == 1
		nLookup := 0
		// every value a return may yield (through phis of a single-exit form): frameParsers[t] (plain or comma-ok lookup) or parseUnknownFrame
		var leaves []ssa.Value
		seenV := map[ssa.Value]bool{}
		var collect func(v ssa.Value)
		collect = func(v ssa.Value) {
			v = hxResolve(v)
			if seenV[v] {
				return
			}
			seenV[v] = true
			if phi, isPhi := v.(*ssa.Phi); isPhi {
				for _, e := range phi.Edges {
					collect(e)
				}
				return
			}
			leaves = append(leaves, v)
		}
		for _, r := range core.Returns(fn) {
			collect(core.RetVals(r)[0])
		}
		for _, v := range leaves {
			if ex, isEx := v.(*ssa.Extract); isEx && ex.Index == 0 {
				if lk, isLk := ex.Tuple.(*ssa.Lookup); isLk {
					v = lk
				}
			}
			switch y := v.(type) {
			case *ssa.Lookup:
				u, isU := y.X.(*ssa.UnOp)
				if !isU || u.X != ssa.Value(g) || len(fn.Params) != 1 || hxResolve(y.Index) != ssa.Value(fn.Params[0]) {
					ok = false
				}
				nLookup++
			case *ssa.Function:
				if core.FuncKey(y) != hxH2+".parseUnknownFrame" {
					ok = false
				}
			default:
				ok = false
			}
		}
		c.Check("parser-table", "typeFrameParser", fn.Pos(), ok && nLookup > 0, "typeFrameParser(t) must return frameParsers[t], or parseUnknownFrame for unregistered types")
	}
}

func (x *c32Ctx) isStream(v ssa.Value) bool { return hxIsField(v, x.streamF) }

// isLen: len(payload parameter) or fh.Length.
func (x *c32Ctx) isLenFn(fn *ssa.Function) func(ssa.Value) bool {
	return func(v ssa.Value) bool {
		if hxIsField(v, x.lengthF) {
			return true
		}
		a := hxLenArg(v)
		return a != nil && len(fn.Params) == 2 && hxResolve(a) == ssa.Value(fn.Params[1])
	}
}

func c32Success(g *hxReg) []*ssa.Return {
	var out []*ssa.Return
	for _, r := range g.Returns() {
		rv := core.RetVals(r)
		if len(rv) == 2 && !hxIsNil(rv[0]) {
			out = append(out, r)
		}
	}
	return out
}

// errReturns: error returns whose established relations satisfy pred.
func c32ErrReturns(g *hxReg, pred func(rels []hxRel) bool) []*ssa.Return {
	var out []*ssa.Return
	for _, r := range g.Returns() {
		rv := core.RetVals(r)
		if len(rv) != 2 || !hxIsNil(rv[0]) {
			continue
		}
		if pred(hxRelsAt(r.Block())) {
			out = append(out, r)
		}
	}
	return out
}

func c32CodeOK(r *ssa.Return, code int64) (bool, string) {
	e := hxErrOf(hxErrResult(r))
	if !e.NonNil {
		return false, "returns " + core.Render(hxErrResult(r))
	}
	switch e.Type {
	case "ConnectionError", "connError", "StreamError":
	default:
		return false, "returns an error of type " + e.Type + ", not a connection/stream error"
	}
	if !e.HasCode || e.Code != code {
		return false, fmt.Sprintf("returns %s with code %d (found=%v), RFC 7540 requires code %d", e.Type, e.Code, e.HasCode, code)
	}
	return true, ""
}

func (x *c32Ctx) parser(sp c32Spec, fn *ssa.Function) {
	c := x.c
	g := x.reg(fn)
	succ := c32Success(g)
	isLen := x.isLenFn(fn)
	// stream id
	if sp.Stream != "any" {
		for i, r := range succ {
			rels := hxRelsAt(r.Block())
			ok := false
			if sp.Stream == "nonzero" {
				lo, has := hxLower(rels, x.isStream)
				ok = has && lo >= 1
			} else {
				hi, has := hxUpper(rels, x.isStream)
				ok = has && hi <= 0
			}
			c.Check("stream-id", fmt.Sprintf("%s:accept#%d", sp.RFC, i), r.Pos(), ok,
				fmt.Sprintf("a %s frame is accepted without its stream identifier being established %s (RFC 7540 section 6); guards: %s", sp.RFC, sp.Stream, hxRelStrs(rels)))
		}
		rej := c32ErrReturns(g, func(rels []hxRel) bool {
			if sp.Stream == "nonzero" {
				hi, has := hxUpper(rels, x.isStream)
				return has && hi <= 0
			}
			lo, has := hxLower(rels, x.isStream)
			return has && lo >= 1
		})
		if len(rej) == 0 {
			c.Check("stream-id", sp.RFC+":reject", fn.Pos(), false, "no error return for a "+sp.RFC+" frame whose stream identifier is not "+sp.Stream)
		}
		for i, r := range rej {
			ok, why := c32CodeOK(r, c32Protocol)
			key := sp.RFC + ":reject"
			if i > 0 {
				key = fmt.Sprintf("%s:reject#%d", sp.RFC, i)
			}
			c.Check("stream-id", key, r.Pos(), ok, "a "+sp.RFC+" frame on the wrong stream must be a PROTOCOL_ERROR: "+why)
		}
	}
	// length
	if sp.LenEq >= 0 || sp.LenMin >= 0 {
		for i, r := range succ {
			rels := hxRelsAt(r.Block())
			ok := false
			if sp.LenEq >= 0 {
				ok = hxEq(rels, isLen, sp.LenEq)
			} else {
				lo, has := hxLower(rels, isLen)
				ok = has && lo >= sp.LenMin
			}
			c.Check("frame-length", fmt.Sprintf("%s:accept#%d", sp.RFC, i), r.Pos(), ok,
				fmt.Sprintf("a %s frame is accepted without the payload length rule (== %d / >= %d) being established; guards: %s", sp.RFC, sp.LenEq, sp.LenMin, hxRelStrs(rels)))
		}
		rej := c32ErrReturns(g, func(rels []hxRel) bool {
			for _, rel := range rels {
				k, isK := hxConstInt(rel.R)
				if !isK || !isLen(rel.L) {
					continue
				}
				if sp.LenEq >= 0 && rel.Op == token.NEQ && k == sp.LenEq {
					return true
				}
				if sp.LenMin >= 0 && ((rel.Op == token.LSS && k == sp.LenMin) || (rel.Op == token.LEQ && k == sp.LenMin-1)) {
					return true
				}
			}
			return false
		})
		if len(rej) == 0 {
			c.Check("frame-length", sp.RFC+":reject", fn.Pos(), false, "no error return guarded by the wrong payload length of a "+sp.RFC+" frame")
		}
		for i, r := range rej {
			ok, why := c32CodeOK(r, c32FrameSize)
			key := sp.RFC + ":reject"
			if i > 0 {
				key = fmt.Sprintf("%s:reject#%d", sp.RFC, i)
			}
			c.Check("frame-length", key, r.Pos(), ok, "a "+sp.RFC+" frame of the wrong size must be a FRAME_SIZE_ERROR: "+why)
		}
	}
	// padding
	if sp.PadFlag != "" {
		x.padding(sp, fn)
	}
	// read errors
	n := 0
	for _, call := range g.errCalls(func(call *ssa.Call) bool { return core.CallIs(&call.Call, hxH2+".readByte", hxH2+".readUint32") }) {
		why := hxErrChecked(fn, call, nil)
		c.Check("parse-read-err", fmt.Sprintf("%s:%s#%d", sp.RFC, strings.TrimPrefix(core.CalleeKey(&call.Call), hxH2+"."), n), call.Pos(), why == "", "a short payload must be reported, not ignored: "+why)
		n++
	}
	for _, f := range g.Fns {
		hxIndexBounds(c, "parse-index-bounds", f)
	}
}

func (x *c32Ctx) padding(sp c32Spec, fn *ssa.Function) {
	c := x.c
	g := x.reg(fn)
	flag := x.constVal[sp.PadFlag]
	n := 0
	for _, in := range g.Instrs() {
		sl, ok := in.(*ssa.Slice)
		if !ok || sl.High == nil {
			continue
		}
		sub, ok := hxResolve(sl.High).(*ssa.BinOp)
		if !ok || sub.Op != token.SUB || !hxIsLenOf(sub.X, sl.X) {
			continue
		}
		pad := hxResolve(sub.Y)
		rels := hxRelsAt(sl.Block())
		_, le := hxLE(rels, func(v ssa.Value) bool { return hxResolve(v) == pad }, func(v ssa.Value) bool { return hxIsLenOf(v, sl.X) })
		c.Check("padding", fmt.Sprintf("%s:pad-bound#%d", sp.RFC, n), sl.Pos(), le,
			"the payload of a padded "+sp.RFC+" frame is cut by the pad length without pad <= len(remaining payload) being established (slice bounds panic / RFC 7540 section 6.1 PROTOCOL_ERROR); guards: "+hxRelStrs(rels))
		// source of the pad length: 0, or the byte read under the PADDED flag (through phis and results of private helpers)
		src := ""
		sawZero, sawRead := false, false
		for _, e := range g.sources(pad) {
			if k, isK := hxConstInt(e); isK && k == 0 {
				sawZero = true
				continue
			}
			call, idx := hxCallOf(e)
			if call == nil || idx != 1 || !core.CallIs(&call.Call, hxH2+".readByte") {
				src = "pad length flows from " + core.Render(e)
				continue
			}
			sawRead = true
			guarded := hxHasGuard(call.Block(), func(g core.Guard) bool {
				cc, _ := hxCallOf(g.Cond)
				if !g.Pol || cc == nil || !core.CallIs(&cc.Call, hxH2+".Flags.Has") || len(cc.Call.Args) != 2 {
					return false
				}
				k, isK := hxConstInt(cc.Call.Args[1])
				return isK && k == flag && hxIsField(cc.Call.Args[0], x.flagsF)
			})
			if !guarded {
				src = fmt.Sprintf("the pad length byte is read without the PADDED flag (%#x) being tested", flag)
			}
			// the slice operates on what readByte left
			if !c32RemainderOf(g, sl.X, call, 0) {
				src = "the payload that is cut is not the remainder after the pad length byte"
			}
		}
		if src == "" && !(sawZero && sawRead) {
			src = "the pad length " + core.Render(pad) + " must be 0 without PADDED and the first payload byte with PADDED"
		}
		c.Check("padding", fmt.Sprintf("%s:pad-source#%d", sp.RFC, n), sl.Pos(), src == "", src)
		n++
	}
	if n == 0 {
		c.Check("padding", sp.RFC+":pad-bound#0", fn.Pos(), false, "the parser of the padded frame type "+sp.RFC+" never removes padding")
	}
}

// special: per-frame rules that do not fit the table.
func (x *c32Ctx) special() {
	c := x.c
	const mask31 = 0x7fffffff
	isMasked := func(v ssa.Value) bool {
		b, ok := hxResolve(v).(*ssa.BinOp)
		if !ok || b.Op != token.AND {
			return false
		}
		k, isK := hxConstInt(b.Y)
		if !isK {
			k, isK = hxConstInt(b.X)
		}
		return isK && k == mask31
	}
	// WINDOW_UPDATE increment
	if fn := x.parsers[8]; fn != nil {
		g := x.reg(fn)
		for i, r := range c32Success(g) {
			lo, has := hxLower(hxRelsAt(r.Block()), isMasked)
			c.Check("window-update", fmt.Sprintf("WINDOW_UPDATE:accept#%d", i), r.Pos(), has && lo >= 1, "a WINDOW_UPDATE is accepted without (increment & 0x7fffffff) != 0 being established (RFC 7540 section 6.9); guards: "+hxRelStrs(hxRelsAt(r.Block())))
		}
		rej := c32ErrReturns(g, func(rels []hxRel) bool {
			hi, has := hxUpper(rels, isMasked)
			return has && hi <= 0
		})
		sawConn, sawStream := false, false
		for i, r := range rej {
			ok, why := c32CodeOK(r, c32Protocol)
			e := hxErrOf(hxErrResult(r))
			rels := hxRelsAt(r.Block())
			if hi, has := hxUpper(rels, x.isStream); has && hi <= 0 {
				sawConn = true
				if e.Type == "StreamError" {
					ok, why = false, "a zero increment on stream 0 must be a connection error"
				}
			} else if lo, has := hxLower(rels, x.isStream); has && lo >= 1 {
				sawStream = true
			}
			c.Check("window-update", fmt.Sprintf("WINDOW_UPDATE:zero-increment#%d", i), r.Pos(), ok, "a zero window increment must be a PROTOCOL_ERROR: "+why)
		}
		c.Check("window-update", "WINDOW_UPDATE:zero-increment-cases", fn.Pos(), sawConn && sawStream, fmt.Sprintf("zero increment must be rejected both on the connection (stream 0) [%v] and on a stream [%v]", sawConn, sawStream))
	}
	c.Min("window-update", 4)
	// SETTINGS
	if fn := x.parsers[4]; fn != nil {
		g := x.reg(fn)
		isLen := x.isLenFn(fn)
		isMod := func(v ssa.Value) bool {
			b, ok := hxResolve(v).(*ssa.BinOp)
			if !ok || b.Op != token.REM || !isLen(b.X) {
				return false
			}
			k, isK := hxConstInt(b.Y)
			return isK && k == 6
		}
		for i, r := range c32Success(g) {
			hi, has := hxUpper(hxRelsAt(r.Block()), isMod)
			c.Check("settings-frame", fmt.Sprintf("SETTINGS:accept-len#%d", i), r.Pos(), has && hi <= 0, "a SETTINGS frame is accepted without len(payload) % 6 == 0 being established; guards: "+hxRelStrs(hxRelsAt(r.Block())))
		}
		rej := c32ErrReturns(g, func(rels []hxRel) bool {
			for _, rel := range rels {
				if k, isK := hxConstInt(rel.R); isK && k == 0 && rel.Op == token.NEQ && isMod(rel.L) {
					return true
				}
			}
			return false
		})
		if len(rej) == 0 {
			c.Check("settings-frame", "SETTINGS:reject-len", fn.Pos(), false, "no error return guarded by len(payload) % 6 != 0")
		}
		for _, r := range rej {
			ok, why := c32CodeOK(r, c32FrameSize)
			c.Check("settings-frame", "SETTINGS:reject-len", r.Pos(), ok, "a SETTINGS frame whose length is not a multiple of 6 must be a FRAME_SIZE_ERROR: "+why)
		}
		// ACK => empty, on every feasible path to a success return
		isAck := func(v ssa.Value) bool {
			cc, _ := hxCallOf(v)
			if cc == nil || !core.CallIs(&cc.Call, hxH2+".Flags.Has") || len(cc.Call.Args) != 2 {
				return false
			}
			k, isK := hxConstInt(cc.Call.Args[1])
			return isK && k == 1 && hxIsField(cc.Call.Args[0], x.flagsF)
		}
		nPaths, bad := 0, ""
		complete := g.enumPaths(2, 4000, func(p *hxPath) {
			r, isRet := p.Last.(*ssa.Return)
			if !isRet || len(r.Results) != 2 || hxIsNil(core.RetVals(r)[0]) {
				return
			}
			nPaths++
			ackKnown, ack, nonEmpty, emptyKnown := false, false, false, false
			for _, f := range p.Facts {
				if isAck(f.Cond) {
					ackKnown, ack = true, f.Taken
					continue
				}
				if rel, ok := hxRelOf(f.Cond, f.Taken); ok {
					if lo, has := hxLower([]hxRel{rel}, isLen); has && lo >= 1 {
						nonEmpty = true
					}
					if hi, has := hxUpper([]hxRel{rel}, isLen); has && hi <= 0 {
						emptyKnown = true
					}
				}
			}
			if !ackKnown || (ack && !emptyKnown) || (ack && nonEmpty) {
				if bad == "" {
					bad = p.Sig()
				}
			}
		})
		c.Check("settings-frame", "SETTINGS:ack-empty", fn.Pos(), complete && nPaths > 0 && bad == "", fmt.Sprintf("on an accepting path the ACK flag is not tested, or ACK is set and the payload is not established empty (%d accepting paths, complete=%v): %s", nPaths, complete, bad))
		rejAck := c32ErrReturns(g, func(rels []hxRel) bool {
			lo, has := hxLower(rels, isLen)
			return has && lo >= 1
		})
		okAck := len(rejAck) > 0
		why := "no error return guarded by a non-empty payload"
		for _, r := range rejAck {
			if ok, w := c32CodeOK(r, c32FrameSize); !ok {
				okAck, why = false, w
			}
		}
		c.Check("settings-frame", "SETTINGS:ack-nonempty-reject", fn.Pos(), okAck, "SETTINGS with ACK and a payload must be a FRAME_SIZE_ERROR: "+why)
		// initial window size
		isVal := func(v ssa.Value) bool {
			cc, idx := hxCallOf(v)
			if cc == nil || idx != 0 || !core.CallIs(&cc.Call, hxH2+".SettingsFrame.Value") || len(cc.Call.Args) != 2 {
				return false
			}
			k, isK := hxConstInt(cc.Call.Args[1])
			return isK && k == 4
		}
		rejW := c32ErrReturns(g, func(rels []hxRel) bool {
			lo, has := hxLower(rels, isVal)
			return has && lo == mask31+1
		})
		okW := len(rejW) > 0
		why = "no error return guarded by Value(SettingInitialWindowSize) > 2^31-1"
		for _, r := range rejW {
			if ok, w := c32CodeOK(r, c32FlowCtl); !ok {
				okW, why = false, w
			}
		}
		c.Check("settings-frame", "SETTINGS:initial-window-reject", fn.Pos(), okW, "SETTINGS_INITIAL_WINDOW_SIZE above 2^31-1 must be a FLOW_CONTROL_ERROR: "+why)
	}
	c.Min("settings-frame", 5)
	// reserved bits
	for _, m := range []struct{ fn, field, what string }{
		{"readFrameHeader", "FrameHeader.StreamID", "stream identifier of every frame"},
		{"parseGoAwayFrame", "GoAwayFrame.LastStreamID", "GOAWAY last stream id"},
		{"parsePriorityFrame", "PriorityParam.StreamDep", "PRIORITY stream dependency"},
		{"parseHeadersFrame", "PriorityParam.StreamDep", "HEADERS stream dependency"},
		{"parsePushPromise", "PushPromiseFrame.PromiseID", "PUSH_PROMISE promised stream id"},
		{"parseWindowUpdateFrame", "WindowUpdateFrame.Increment", "WINDOW_UPDATE increment"},
	} {
		fn := hxFn(c, hxH2, m.fn)
		f := hxField(c, hxH2, m.field)
		if fn == nil || f == nil {
			continue
		}
		g := x.reg(fn)
		var masked []*ssa.Store
		for _, st := range core.FieldStores(g.Fns, f) {
			if isMasked(st.Store.Val) {
				masked = append(masked, st.Store)
			}
		}
		ok := len(masked) > 0
		for _, r := range g.Returns() {
			rv := core.RetVals(r)
			if len(rv) != 2 || !hxErrOf(rv[1]).Nil {
				continue
			}
			dom := false
			for _, st := range masked {
				if g.dominates(st, r) {
					dom = true
				}
			}
			// a store under a flag (HEADERS priority) need not dominate; require it only when unconditional stores exist
			if !dom && m.fn != "parseHeadersFrame" {
				ok = false
			}
		}
		// no unmasked store may be the last one
		for _, st := range core.FieldStores(g.Fns, f) {
			if isMasked(st.Store.Val) {
				continue
			}
			later := false
			for _, ms := range masked {
				if g.dominates(st.Store, ms) {
					later = true
				}
			}
			if !later {
				ok = false
			}
		}
		c.Check("reserved-bit", m.fn+":"+m.field, fn.Pos(), ok, "the reserved high bit must be ignored on receipt: "+m.what+" must be stored as value & 0x7fffffff")
	}
	c.Min("reserved-bit", 6)
	// header layout on read
	if fn := c.P.Func(hxH2, "readFrameHeader"); fn != nil && len(fn.Params) == 2 {
		buf := fn.Params[0]
		byteIdx := func(v ssa.Value) (int64, bool) {
			u, ok := hxResolve(v).(*ssa.UnOp)
			if !ok || u.Op != token.MUL {
				return 0, false
			}
			ia, ok := u.X.(*ssa.IndexAddr)
			if !ok || hxResolve(ia.X) != ssa.Value(buf) {
				return 0, false
			}
			return hxConstInt(ia.Index)
		}
		var terms func(v ssa.Value, out map[int64]int64) bool
		terms = func(v ssa.Value, out map[int64]int64) bool {
			v = hxResolve(v)
			if i, ok := byteIdx(v); ok {
				out[i] = 0
				return true
			}
			b, ok := v.(*ssa.BinOp)
			if !ok {
				return false
			}
			switch b.Op {
			case token.OR, token.ADD:
				return terms(b.X, out) && terms(b.Y, out)
			case token.SHL:
				i, ok1 := byteIdx(b.X)
				s, ok2 := hxConstInt(b.Y)
				if ok1 && ok2 {
					out[i] = s
					return true
				}
			}
			return false
		}
		check := func(field string, want map[int64]int64) {
			f := hxField(c, hxH2, "FrameHeader."+field)
			if f == nil {
				return
			}
			sts := core.FieldStores(x.reg(fn).Fns, f)
			ok := len(sts) == 1
			got := map[int64]int64{}
			if ok {
				ok = terms(sts[0].Store.Val, got) && len(got) == len(want)
				for k, v := range want {
					if g, has := got[k]; !has || g != v {
						ok = false
					}
				}
			}
			c.Check("header-layout", "readFrameHeader:"+field, fn.Pos(), ok, fmt.Sprintf("FrameHeader.%s must be assembled from header bytes (index:shift) %v (RFC 7540 section 4.1); found %v", field, want, got))
		}
		check("Length", map[int64]int64{0: 16, 1: 8, 2: 0})
		check("Type", map[int64]int64{3: 0})
		check("Flags", map[int64]int64{4: 0})
		if f := hxField(c, hxH2, "FrameHeader.StreamID"); f != nil {
			ok := false
			for _, st := range core.FieldStores(x.reg(fn).Fns, f) {
				if b, isB := hxResolve(st.Store.Val).(*ssa.BinOp); isB && b.Op == token.AND {
					bx := b.X
					if _, isK := hxConstInt(bx); isK {
						bx = b.Y
					}
					if cc, _ := hxCallOf(bx); cc != nil && core.CallIs(&cc.Call, "encoding/binary.bigEndian.Uint32") {
						if sl, isSl := hxResolve(cc.Call.Args[len(cc.Call.Args)-1]).(*ssa.Slice); isSl && hxResolve(sl.X) == ssa.Value(buf) && sl.Low != nil {
							if k, isK := hxConstInt(sl.Low); isK && k == 5 {
								ok = true
							}
						}
					}
				}
			}
			c.Check("header-layout", "readFrameHeader:StreamID", fn.Pos(), ok, "FrameHeader.StreamID must be the big-endian 32 bits at header offset 5, masked")
		}
	}
	// header layout on write
	if fn := hxFn(c, hxH2, "Framer.startWrite"); fn != nil && len(fn.Params) == 4 {
		got := map[int64]string{}
		for _, in := range hxInstrs(fn) {
			st, ok := in.(*ssa.Store)
			if !ok {
				continue
			}
			ia, ok := st.Addr.(*ssa.IndexAddr)
			if !ok {
				continue
			}
			if a, isA := ia.X.(*ssa.Alloc); !isA || a.Comment != "varargs" {
				continue
			}
			if k, isK := hxConstInt(ia.Index); isK {
				got[k] = core.Render(core.StripConv(st.Val))
			}
		}
		sid := fn.Params[3].Name()
		want := map[int64]string{0: "0", 1: "0", 2: "0", 3: fn.Params[1].Name(), 4: fn.Params[2].Name(), 5: "(" + sid + " >> 24)", 6: "(" + sid + " >> 16)", 7: "(" + sid + " >> 8)", 8: sid}
		ok := len(got) == 9
		for k, v := range want {
			if got[k] != v {
				ok = false
			}
		}
		c.Check("header-layout", "Framer.startWrite", fn.Pos(), ok, fmt.Sprintf("startWrite must lay out 3 length bytes, type, flags and the big-endian stream id; found %v", got))
	}
	if fn := hxFn(c, hxH2, "Framer.endWrite"); fn != nil {
		got := map[int64]string{}
		var length ssa.Value
		for _, in := range hxInstrs(fn) {
			st, ok := in.(*ssa.Store)
			if !ok {
				continue
			}
			ia, ok := st.Addr.(*ssa.IndexAddr)
			if !ok {
				continue
			}
			if a, isA := ia.X.(*ssa.Alloc); !isA || a.Comment != "varargs" {
				continue
			}
			if k, isK := hxConstInt(ia.Index); isK {
				v := core.StripConv(st.Val)
				if b, isB := v.(*ssa.BinOp); isB && b.Op == token.SHR {
					s, _ := hxConstInt(b.Y)
					got[k] = fmt.Sprintf(">>%d", s)
					length = b.X
				} else {
					got[k] = ">>0"
					if length != nil && v != length {
						got[k] = "other"
					}
				}
			}
		}
		okLayout := len(got) == 3 && got[0] == ">>16" && got[1] == ">>8" && got[2] == ">>0"
		okLen := false
		if length != nil {
			t, k := hxAffine(length)
			okLen = k == -9 && len(t) == 1
			for key, coef := range t {
				if coef != 1 || !strings.HasPrefix(key, "builtin:len(") || !strings.HasSuffix(key, ".wbuf)") {
					okLen = false
				}
			}
		}
		// bound
		okBound := false
		for _, in := range hxInstrs(fn) {
			call := hxIsCallTo(in, "invoke:io.Writer.Write")
			if call == nil {
				continue
			}
			hi, has := hxUpper(hxRelsAt(call.Block()), func(v ssa.Value) bool { return length != nil && hxResolve(v) == hxResolve(length) })
			okBound = has && hi <= 1<<24-1
		}
		c.Check("header-layout", "Framer.endWrite", fn.Pos(), okLayout && okLen && okBound, fmt.Sprintf("endWrite must fill the 24-bit length (len(wbuf)-9) big-endian [%v %v] and write only under length < 2^24 [%v]; found %v", okLayout, okLen, okBound, got))
	}
	c.Min("header-layout", 6)
}

// readFrame: the gates of Framer.ReadFrame.
func (x *c32Ctx) readFrame() {
	c := x.c
	fn := hxFn(c, hxH2, "Framer.ReadFrame")
	maxF := hxField(c, hxH2, "Framer.maxReadSize")
	if fn == nil || maxF == nil {
		return
	}
	g := x.reg(fn)
	var hdr, full, parse, order *ssa.Call
	for _, in := range g.Instrs() {
		call, ok := in.(*ssa.Call)
		if !ok {
			continue
		}
		switch {
		case core.CallIs(&call.Call, hxH2+".readFrameHeader"):
			hdr = call
		case core.CallIs(&call.Call, "io.ReadFull"):
			full = call
		case core.CallIs(&call.Call, hxH2+".Framer.checkFrameOrder"):
			order = call
		default:
			if cc, _ := hxCallOf(call.Call.Value); cc != nil && core.CallIs(&cc.Call, hxH2+".typeFrameParser") {
				parse = call
			}
		}
	}
	if hdr == nil || full == nil || parse == nil || order == nil {
		c.Check("read-frame", "ReadFrame:shape", fn.Pos(), false, fmt.Sprintf("ReadFrame must call readFrameHeader [%v], io.ReadFull [%v], typeFrameParser(fh.Type)(fh, payload) [%v] and checkFrameOrder [%v]", hdr != nil, full != nil, parse != nil, order != nil))
		return
	}
	isLength := func(v ssa.Value) bool { return hxIsField(v, x.lengthF) }
	isMax := func(v ssa.Value) bool { return hxIsField(v, maxF) }
	// size gate before the payload buffer is obtained and read: every value the
	// buffer may stand for (through phis and results of private helpers) is a
	// call sized by fh.Length, made under fh.Length <= fr.maxReadSize
	payload := full.Call.Args[1]
	var allocs []ssa.Instruction
	okSize, okGate := true, true
	sizeWhy, gateWhy := "", ""
	for _, src := range g.sources(payload) {
		pc, isCall := src.(*ssa.Call)
		if !isCall || pc.Call.StaticCallee() != nil && pc.Call.StaticCallee().Blocks != nil {
			okSize, okGate = false, false
			sizeWhy = "the payload buffer is not obtained from a call sized by fh.Length: " + core.Render(src)
			gateWhy = "the buffer " + core.Render(src) + " is used without a size gate"
			continue
		}
		allocs = append(allocs, pc)
		if !(len(pc.Call.Args) >= 1 && isLength(pc.Call.Args[len(pc.Call.Args)-1])) {
			okSize = false
			sizeWhy = "the payload buffer must be requested with fh.Length; requested with " + core.Render(pc.Call.Args[len(pc.Call.Args)-1])
		}
		if _, le := hxLE(hxRelsAt(pc.Block()), isLength, isMax); !le || !g.dominates(hdr, pc) {
			okGate = false
			gateWhy = "guards: " + hxRelStrs(hxRelsAt(pc.Block()))
		}
	}
	if len(allocs) == 0 {
		okSize, okGate = false, false
	}
	var alloc ssa.Instruction = full
	if len(allocs) > 0 {
		alloc = allocs[0]
	}
	c.Check("read-frame", "ReadFrame:payload-size", alloc.Pos(), okSize, sizeWhy)
	c.Check("read-frame", "ReadFrame:max-size-gate", alloc.Pos(), okGate, "the payload is allocated/read without fh.Length <= fr.maxReadSize being established after the header was read; "+gateWhy)
	// the rejecting return may sit in a private helper whose error ReadFrame hands on (helper-error below)
	rej := 0
	for _, f := range g.Fns {
		for _, r := range core.Returns(f) {
			if strict, ok := hxLE(hxRelsAt(r.Block()), isMax, isLength); ok && strict {
				rej++
				rv := core.RetVals(r)
				c.Check("read-frame", "ReadFrame:too-large-return", r.Pos(), hxGlobalLoad(hxErrResult(r), "ErrFrameTooLarge") && (len(rv) < 2 || hxIsNil(rv[0])), "a frame above the maximum size must yield ErrFrameTooLarge; returns "+core.Render(hxErrResult(r)))
			}
		}
	}
	if rej == 0 {
		c.Check("read-frame", "ReadFrame:too-large-return", fn.Pos(), false, "no return guarded by fh.Length > fr.maxReadSize")
	}
	// errors of the steps (and of private helpers that perform one or reject the frame)
	isAlloc := func(in ssa.Instruction) bool {
		for _, a := range allocs {
			if in == a {
				return true
			}
		}
		return false
	}
	isStep := g.liftMay(func(in ssa.Instruction) bool {
		return in == ssa.Instruction(full) || in == ssa.Instruction(parse) || in == ssa.Instruction(order) || isAlloc(in)
	})
	for _, s := range []struct {
		name string
		call *ssa.Call
	}{{"header", hdr}, {"payload", full}, {"parser", parse}, {"order", order}} {
		why := hxErrChecked(fn, s.call, isStep)
		c.Check("read-frame", "ReadFrame:"+s.name+"-error", s.call.Pos(), why == "", "the error of the "+s.name+" step must end ReadFrame before the next step: "+why)
	}
	nh := 0
	for _, in := range g.Instrs() {
		call, isCall := in.(*ssa.Call)
		if !isCall {
			continue
		}
		h := g.helper(call)
		if h == nil {
			continue
		}
		res := h.Signature.Results()
		if res.Len() == 0 || !types.Identical(res.At(res.Len()-1).Type(), types.Universe.Lookup("error").Type()) {
			continue
		}
		why := hxErrChecked(fn, call, isStep)
		c.Check("read-frame", fmt.Sprintf("ReadFrame:helper-error#%d", nh), call.Pos(), why == "", "the error of a private helper of ReadFrame must end ReadFrame before the next step: "+why)
		nh++
	}
	// dispatch arguments
	tp, _ := hxCallOf(parse.Call.Value)
	okDisp := tp != nil && len(tp.Call.Args) == 1 && hxIsField(tp.Call.Args[0], x.typeF) && len(parse.Call.Args) == 2 && hxSame(parse.Call.Args[1], payload)
	if okDisp {
		// the header passed is the one read
		src := hxResolve(parse.Call.Args[0])
		cc, idx := hxCallOf(src)
		okDisp = cc == hdr && idx == 0
	}
	c.Check("read-frame", "ReadFrame:dispatch", parse.Pos(), okDisp, "the parser must be typeFrameParser(fh.Type) applied to the header just read and the payload just filled")
	// every frame returned passed checkFrameOrder
	frame := hxExtract(parse, 0)
	okOrderArg := len(order.Call.Args) == 2 && frame != nil && hxResolve(order.Call.Args[1]) == frame
	c.Check("read-frame", "ReadFrame:order-argument", order.Pos(), okOrderArg, "checkFrameOrder must be applied to the frame just parsed")
	// the branch taken when checkFrameOrder fails
	var orderErrSucc *ssa.BasicBlock
	for _, in := range hxInstrs(order.Parent()) {
		ifi, isIf := in.(*ssa.If)
		if !isIf {
			continue
		}
		rel, okR := hxRelOf(ifi.Cond, true)
		if !okR || (rel.Op != token.NEQ && rel.Op != token.EQL) {
			continue
		}
		var other ssa.Value
		switch {
		case hxIsNil(rel.R):
			other = rel.L
		case hxIsNil(rel.L):
			other = rel.R
		default:
			continue
		}
		if hxResolve(other) != ssa.Value(order) {
			continue
		}
		orderErrSucc = ifi.Block().Succs[0]
		if rel.Op == token.EQL {
			orderErrSucc = ifi.Block().Succs[1]
		}
	}
	for i, r := range c32Success(g) {
		ret := r
		// the order check lies on every path to this return, and once it failed the return is out of reach
		ok := g.dominates(order, r) && orderErrSucc != nil
		if ok {
			ok = !g.walk(orderErrSucc, 0, hxSt{}, func(in ssa.Instruction, st hxSt) (bool, bool) {
				return false, g.isFinal(in, st, ret)
			})
		}
		c.Check("read-frame", fmt.Sprintf("ReadFrame:order-checked#%d", i), r.Pos(), ok, "a frame is returned that has not passed checkFrameOrder() == nil (CONTINUATION sequencing)")
	}
	c.Min("read-frame", 10)
	// maxReadSize writers
	fns := c.P.SrcFuncs(hxH2)
	for _, st := range core.FieldStores(fns, maxF) {
		k := core.FuncKey(st.Fn)
		ok := k == hxH2+".Framer.SetMaxReadFrameSize"
		if ok {
			// value is clamped: phi(v, maxFrameSize) with the raw edge guarded by v <= maxFrameSize
			ok = false
			if phi, isPhi := st.Store.Val.(*ssa.Phi); isPhi {
				ok = true
				for i, e := range phi.Edges {
					if kk, isK := hxConstInt(e); isK {
						if kk > 1<<24-1 {
							ok = false
						}
						continue
					}
					hi, has := hxUpper(hxRelsOnEdge(phi.Block().Preds[i], phi.Block()), func(v ssa.Value) bool { return v == e })
					if !has || hi > 1<<24-1 {
						ok = false
					}
				}
			}
		}
		c.Check("max-read-size", k+":writes-maxReadSize", st.Store.Pos(), ok, "Framer.maxReadSize may only be set by SetMaxReadFrameSize, clamped to 2^24-1")
	}
	c.Min("max-read-size", 1)
	// the default buffer provider returns exactly `size` bytes
	if nf := c.P.Func(hxH2, "NewFramer"); nf != nil {
		for i, cl := range nf.AnonFuncs {
			if len(cl.Params) != 1 {
				continue
			}
			ok := true
			for _, r := range core.Returns(cl) {
				switch v := hxResolve(r.Results[0]).(type) {
				case *ssa.Slice:
					if v.High == nil || core.StripConv(v.High) != ssa.Value(cl.Params[0]) || v.Low != nil {
						ok = false
					}
				case *ssa.MakeSlice:
					if core.StripConv(v.Len) != ssa.Value(cl.Params[0]) {
						ok = false
					}
				case *ssa.UnOp:
					// reload of fr.readBuf just assigned from make([]byte, size)
					sts := 0
					for _, in := range hxInstrs(cl) {
						if st, isSt := in.(*ssa.Store); isSt && core.Render(st.Addr) == core.Render(v.X) {
							sts++
							if ms, isMS := st.Val.(*ssa.MakeSlice); !isMS || core.StripConv(ms.Len) != ssa.Value(cl.Params[0]) {
								ok = false
							}
						}
					}
					if sts == 0 {
						ok = false
					}
				default:
					ok = false
				}
			}
			c.Check("max-read-size", fmt.Sprintf("NewFramer:getReadBuf#%d", i), cl.Pos(), ok, "the default payload buffer must have exactly the requested length (parsers rely on len(payload) == fh.Length)")
		}
	}
}

// frameOrder: CONTINUATION sequencing.
func (x *c32Ctx) frameOrder() {
	c := x.c
	fn := hxFn(c, hxH2, "Framer.checkFrameOrder")
	lhsF := hxField(c, hxH2, "Framer.lastHeaderStream")
	allowF := hxField(c, hxH2, "Framer.AllowIllegalReads")
	if fn == nil || lhsF == nil || allowF == nil {
		return
	}
	contV, _ := x.constOf("FrameContinuation")
	hdrV, _ := x.constOf("FrameHeaders")
	isLHS := func(v ssa.Value) bool { return hxIsField(v, lhsF) }
	isType := func(v ssa.Value) bool { return hxIsField(v, x.typeF) }
	g := x.reg(fn)
	nAccept, nOpen, nClosed := 0, 0, 0
	bad := ""
	complete := g.enumPaths(2, 20000, func(p *hxPath) {
		r, isRet := p.Last.(*ssa.Return)
		if !isRet || !hxErrOf(hxErrResult(r)).Nil {
			return
		}
		exempt := false
		openKnown, open := false, false
		isCont, notCont, sameStream := false, false, false
		for _, f := range p.Facts {
			cond, taken := f.Cond, f.Taken
			if hxIsField(cond, allowF) {
				if taken {
					exempt = true
				}
				continue
			}
			rel, ok := hxRelOf(cond, taken)
			if !ok {
				continue
			}
			one := []hxRel{rel}
			if k, isK := hxConstInt(rel.R); isK && k == 0 && isLHS(rel.L) {
				if !openKnown {
					openKnown, open = true, rel.Op == token.NEQ || rel.Op == token.GTR
				}
				continue
			}
			if isType(rel.L) {
				if hxEq(one, isType, contV) {
					isCont = true
				}
				if k, isK := hxConstInt(rel.R); isK && k == contV && rel.Op == token.NEQ {
					notCont = true
				}
				continue
			}
			if rel.Op == token.EQL && ((x.isStream(rel.L) && isLHS(rel.R)) || (x.isStream(rel.R) && isLHS(rel.L))) {
				sameStream = true
			}
		}
		if exempt {
			return
		}
		nAccept++
		switch {
		case !openKnown:
			if bad == "" {
				bad = "accepts without testing lastHeaderStream: " + p.Sig()
			}
		case open:
			nOpen++
			// the first Type test on the path decides; a later contradictory switch arm is infeasible
			if !(isCont && sameStream) && bad == "" {
				bad = "inside a header block a frame is accepted that is not CONTINUATION on the same stream: " + p.Sig()
			}
		default:
			nClosed++
			if !notCont && bad == "" {
				bad = "outside a header block a CONTINUATION frame is accepted: " + p.Sig()
			}
		}
	})
	c.Check("frame-order", "checkFrameOrder:accepting-paths", fn.Pos(), complete && bad == "" && nOpen > 0 && nClosed > 0,
		fmt.Sprintf("%d accepting paths (%d inside a header block, %d outside, complete=%v): %s", nAccept, nOpen, nClosed, complete, bad))
	// rejecting returns carry a PROTOCOL connection error
	nRej := 0
	for _, r := range g.Returns() {
		ev := hxErrResult(r)
		if hxErrOf(ev).Nil {
			continue
		}
		cc, _ := hxCallOf(ev)
		ok := cc != nil && core.CallIs(&cc.Call, hxH2+".Framer.connError") && len(cc.Call.Args) == 3
		if ok {
			k, isK := hxConstInt(cc.Call.Args[1])
			ok = isK && k == c32Protocol
		}
		c.Check("frame-order", fmt.Sprintf("checkFrameOrder:reject#%d", nRej), r.Pos(), ok, "a frame out of sequence must be a connection error PROTOCOL_ERROR (RFC 7540 section 6.10); returns "+core.Render(ev))
		nRej++
	}
	if ce := hxFn(c, hxH2, "Framer.connError"); ce != nil {
		ok := false
		for _, r := range core.Returns(ce) {
			e := hxErrOf(hxErrResult(r))
			ok = e.NonNil && e.Type == "ConnectionError"
		}
		c.Check("frame-order", "Framer.connError", ce.Pos(), ok, "Framer.connError must return a ConnectionError")
	}
	// writers of lastHeaderStream
	fns := c.P.SrcFuncs(hxH2)
	isEndHeaders := func(g core.Guard) (bool, bool) {
		cc, _ := hxCallOf(g.Cond)
		if cc == nil || !core.CallIs(&cc.Call, hxH2+".Flags.Has") || len(cc.Call.Args) != 2 {
			return false, false
		}
		k, isK := hxConstInt(cc.Call.Args[1])
		return isK && k == 4 && hxIsField(cc.Call.Args[0], x.flagsF), g.Pol
	}
	nW := 0
	for _, st := range core.FieldStores(fns, lhsF) {
		k := core.FuncKey(st.Fn)
		if !g.In[st.Fn] {
			c.Check("frame-order", k+":writes-lastHeaderStream", st.Store.Pos(), false, "Framer.lastHeaderStream is written outside checkFrameOrder")
			continue
		}
		b := st.Store.Block()
		endKnown, end := false, false
		for _, gd := range hxGuardsAt(b) {
			if is, pol := isEndHeaders(gd); is {
				endKnown, end = true, pol
			}
		}
		inHdr := hxDisjGuard(b, func(g core.Guard) bool {
			rel, ok := hxRelOf(g.Cond, g.Pol)
			if !ok || rel.Op != token.EQL || !isType(rel.L) {
				return false
			}
			kk, isK := hxConstInt(rel.R)
			return isK && (kk == hdrV || kk == contV)
		})
		val := "other"
		if kk, isK := hxConstInt(st.Store.Val); isK && kk == 0 {
			val = "0"
		} else if x.isStream(st.Store.Val) {
			val = "StreamID"
		}
		ok := endKnown && inHdr && ((end && val == "0") || (!end && val == "StreamID"))
		c.Check("frame-order", fmt.Sprintf("checkFrameOrder:lastHeaderStream=%s", val), st.Store.Pos(), ok,
			fmt.Sprintf("lastHeaderStream must become 0 on END_HEADERS and the frame's stream otherwise, only for HEADERS/CONTINUATION; stores %s with END_HEADERS known=%v set=%v, type guard=%v", val, endKnown, end, inHdr))
		nW++
	}
	// both transitions exist on every accepting HEADERS/CONTINUATION path: the store is passed
	if nW < 2 {
		c.Check("frame-order", "checkFrameOrder:lastHeaderStream-transitions", fn.Pos(), false, "checkFrameOrder must both open (StreamID) and close (0) the header block")
	}
	// AllowIllegalReads writers
	for _, st := range core.FieldStores(fns, allowF) {
		k := core.FuncKey(st.Fn)
		ok := k == hxH2+".Framer.logWrite" && strings.Contains(core.Render(st.Store.Addr), "debugFramer")
		c.Check("frame-order", k+":sets-AllowIllegalReads", st.Store.Pos(), ok, "AllowIllegalReads disables the frame order check; only the write-logging debug framer may set it")
	}
	c.Min("frame-order", 8)
}

// settings: SETTINGS values.
func (x *c32Ctx) settings() {
	c := x.c
	fn := hxFn(c, hxH2, "Setting.Valid")
	idF := hxField(c, hxH2, "Setting.ID")
	valF := hxField(c, hxH2, "Setting.Val")
	if fn != nil && idF != nil && valF != nil {
		isID := func(v ssa.Value) bool { return hxIsField(v, idF) }
		isVal := func(v ssa.Value) bool { return hxIsField(v, valF) }
		type rule struct {
			name   string
			id     int64
			lo, hi int64
			code   int64
		}
		rules := []rule{
			{"ENABLE_PUSH", 2, 0, 1, c32Protocol},
			{"INITIAL_WINDOW_SIZE", 4, 0, 1<<31 - 1, c32FlowCtl},
			{"MAX_FRAME_SIZE", 5, 1 << 14, 1<<24 - 1, c32Protocol},
		}
		seen := map[int64]int{}
		bad := map[int64]string{}
		complete := x.reg(fn).enumPaths(2, 5000, func(p *hxPath) {
			r, isRet := p.Last.(*ssa.Return)
			if !isRet {
				return
			}
			rels := p.Rels()
			for _, ru := range rules {
				if !hxEq(rels, isID, ru.id) {
					continue
				}
				e := hxErrOf(hxErrResult(r))
				if e.Nil {
					seen[ru.id]++
					lo, hasLo := hxLower(rels, isVal)
					hi, hasHi := hxUpper(rels, isVal)
					if !hasLo && ru.lo == 0 {
						lo, hasLo = 0, true
					}
					if !(hasLo && lo >= ru.lo && hasHi && hi <= ru.hi) && bad[ru.id] == "" {
						bad[ru.id] = fmt.Sprintf("a value outside [%d, %d] is accepted on path %s", ru.lo, ru.hi, p.Sig())
					}
				} else if !(e.NonNil && e.Type == "ConnectionError" && e.HasCode && e.Code == ru.code) && bad[ru.id] == "" {
					bad[ru.id] = fmt.Sprintf("an invalid value is rejected with %s code %d, RFC 7540 section 6.5.2 requires a connection error with code %d", e.Type, e.Code, ru.code)
				}
			}
		})
		for _, ru := range rules {
			c.Check("settings-values", "Setting.Valid:"+ru.name, fn.Pos(), complete && seen[ru.id] > 0 && bad[ru.id] == "",
				fmt.Sprintf("SETTINGS_%s must be accepted only within [%d, %d] (accepting paths: %d, complete=%v): %s", ru.name, ru.lo, ru.hi, seen[ru.id], complete, bad[ru.id]))
		}
	}
	if ps := hxFn(c, hxH2, "serverConn.processSetting"); ps != nil {
		var valid *ssa.Call
		for _, in := range hxInstrs(ps) {
			if call := hxIsCallTo(in, hxH2+".Setting.Valid"); call != nil {
				valid = call
			}
		}
		if valid == nil {
			c.Check("settings-values", "serverConn.processSetting:validates", ps.Pos(), false, "processSetting does not call Setting.Valid: out-of-range SETTINGS values are applied")
		} else {
			isEffect := func(in ssa.Instruction) bool {
				switch v := in.(type) {
				case *ssa.Store:
					_, local := v.Addr.(*ssa.Alloc)
					return !local
				case *ssa.Call:
					if sc := v.Call.StaticCallee(); sc != nil && strings.HasPrefix(core.FuncKey(sc), hxH2+".serverConn.processSetting") {
						return true
					}
				}
				return false
			}
			why := hxErrChecked(ps, valid, isEffect)
			if why == "" {
				for _, in := range hxInstrs(ps) {
					if isEffect(in) && !core.Dominates(valid, in) {
						why = hxDescribe(in) + " is not preceded by the validity test"
					}
				}
			}
			if why == "" && (len(ps.Params) != 2 || hxResolve(valid.Call.Args[0]) != ssa.Value(ps.Params[1])) {
				if core.Render(valid.Call.Args[0]) != ps.Params[len(ps.Params)-1].Name() {
					why = "Valid is applied to " + core.Render(valid.Call.Args[0]) + ", not to the setting being processed"
				}
			}
			c.Check("settings-values", "serverConn.processSetting:validates", valid.Pos(), why == "", "every received setting must pass Setting.Valid before it takes effect: "+why)
		}
	}
	c.Min("settings-values", 4)
}

// writers: Write* methods.
func (x *c32Ctx) writers() {
	c := x.c
	for _, sp := range c32Specs {
		names := []string{sp.Writer}
		if sp.Const == "FrameSettings" {
			names = append(names, "WriteSettingsAck")
		}
		for _, name := range names {
			fn := hxFn(c, hxH2, "Framer."+name)
			if fn == nil {
				continue
			}
			g := x.reg(fn)
			var starts []*ssa.Call
			for _, in := range g.Instrs() {
				if call := hxIsCallTo(in, hxH2+".Framer.startWrite"); call != nil {
					starts = append(starts, call)
				}
			}
			var why []string
			if len(starts) == 0 {
				why = append(why, "never calls startWrite")
			}
			for _, st := range starts {
				if k, isK := hxConstInt(st.Call.Args[1]); !isK || k != sp.Val {
					why = append(why, fmt.Sprintf("starts a frame of type %s, expected %s (%d)", core.Render(st.Call.Args[1]), sp.Const, sp.Val))
				}
				sid := st.Call.Args[3]
				switch sp.Stream {
				case "zero":
					if k, isK := hxConstInt(sid); !isK || k != 0 {
						why = append(why, "must be written on stream 0, writes stream "+core.Render(sid))
					}
				case "nonzero":
					ok := hxDisjGuard(st.Block(), func(g core.Guard) bool {
						if !g.Pol {
							return false
						}
						if cc, _ := hxCallOf(g.Cond); cc != nil && core.CallIs(&cc.Call, hxH2+".validStreamID") && hxSame(cc.Call.Args[0], sid) {
							return true
						}
						f, _ := hxFieldOf(g.Cond)
						return f != nil && f.Name() == "AllowIllegalWrites"
					})
					if !ok {
						why = append(why, "the stream id is not checked with validStreamID (or AllowIllegalWrites) before the frame is started")
					}
				}
			}
			for _, r := range g.Returns() {
				ev := hxErrResult(r)
				cc, _ := hxCallOf(ev)
				if hxErrOf(ev).NonNil || hxErrNonNilAt(ev, r.Block()) || (cc != nil && core.CallIs(&cc.Call, hxH2+".Framer.endWrite")) {
					continue
				}
				why = append(why, "a return yields "+core.Render(ev)+" instead of endWrite()'s result")
			}
			c.Check("writer", "Framer."+name, fn.Pos(), len(why) == 0, "writer of "+sp.RFC+" frames: "+strings.Join(why, "; "))
		}
	}
	if vs := hxFn(c, hxH2, "validStreamID"); vs != nil && len(vs.Params) == 1 {
		// streamID != 0 && streamID&(1<<31) == 0 : every `true` result is under both facts
		ok := true
		n := 0
		complete := x.reg(vs).enumPaths(2, 200, func(p *hxPath) {
			if _, isRet := p.Last.(*ssa.Return); !isRet || len(p.Results) != 1 {
				return
			}
			rels := p.Rels()
			res := p.Results[0]
			if k, isK := res.(*ssa.Const); isK && k.Value != nil && k.Value.Kind() == constant.Bool && !constant.BoolVal(k.Value) {
				return
			}
			if rel, okR := hxRelOf(res, true); okR {
				rels = append(rels, rel)
			}
			n++
			lo, hasLo := hxLower(rels, func(v ssa.Value) bool { return hxResolve(v) == ssa.Value(vs.Params[0]) })
			hiBit := false
			for _, rel := range rels {
				if ax, m, isA := hxAnd(rel.L); isA && rel.Op == token.EQL {
					z, isZ := hxConstInt(rel.R)
					if m == 1<<31 && isZ && z == 0 && hxResolve(ax) == ssa.Value(vs.Params[0]) {
						hiBit = true
					}
				}
			}
			if !(hasLo && lo >= 1 && hiBit) {
				ok = false
			}
		})
		c.Check("writer", "validStreamID", vs.Pos(), ok && complete && n > 0, "validStreamID must hold only for 0 < id < 2^31")
	}
	c.Min("writer", 12)
}

var c32Mutants = []Mutant{
	{Name: "data-stream0-accepted", File: "bfe_http2/frame.go", Old: "	if fh.StreamID == 0 {\n		// DATA frames MUST be associated with a stream. If a", New: "	if fh.StreamID == 0 && fh.Length == 0 {\n		// DATA frames MUST be associated with a stream. If a", Expect: "stream-id|DATA"},
	{Name: "ping-on-stream-accepted", File: "bfe_http2/frame.go", Old: "	if fh.StreamID != 0 {\n		return nil, ConnectionError{ErrCodeProtocol, \"PING with non-zero stream ID\"}\n	}\n", New: "", Expect: "stream-id|PING"},
	{Name: "rst-length-weakened", File: "bfe_http2/frame.go", Old: "	if len(p) != 4 {\n		return nil, ConnectionError{ErrCodeFrameSize, \"RESET with wrong payload size\"}", New: "	if len(p) < 4 {\n		return nil, ConnectionError{ErrCodeFrameSize, \"RESET with wrong payload size\"}", Expect: "frame-length|RST_STREAM"},
	{Name: "priority-wrong-error-code", File: "bfe_http2/frame.go", Old: "		return nil, connError{ErrCodeFrameSize, fmt.Sprintf(\"PRIORITY frame payload size was %d; want 5\", len(payload))}", New: "		return nil, connError{ErrCodeProtocol, fmt.Sprintf(\"PRIORITY frame payload size was %d; want 5\", len(payload))}", Expect: "frame-length|PRIORITY:reject"},
	{Name: "data-pad-off-by-one", File: "bfe_http2/frame.go", Old: "	if int(padSize) > len(payload) {", New: "	if int(padSize) > len(payload)+1 {", Expect: "padding|DATA:pad-bound"},
	{Name: "pushpromise-pad-check-dropped", File: "bfe_http2/frame.go", Old: "	if int(padLength) > len(p) {\n		// like the DATA frame, error out if padding is longer than the body.\n		return nil, ConnectionError{ErrCodeProtocol, \"PushPromise with invalid padding\"}\n	}\n", New: "", Expect: "padding|PUSH_PROMISE:pad-bound"},
	{Name: "headers-pad-read-unflagged", File: "bfe_http2/frame.go", Old: "	var padLength uint8\n	if fh.Flags.Has(FlagHeadersPadded) {\n		if p, padLength, err = readByte(p); err != nil {\n			return\n		}\n	}\n	if fh.Flags.Has(FlagHeadersPriority) {", New: "	var padLength uint8\n	if fh.Flags.Has(FlagHeadersPriority) {\n		if p, padLength, err = readByte(p); err != nil {\n			return\n		}\n	}\n	if fh.Flags.Has(FlagHeadersPriority) {", Expect: "padding|HEADERS:pad-source"},
	{Name: "max-size-gate-after-read", File: "bfe_http2/frame.go", Old: "	if fh.Length > fr.maxReadSize {\n		return nil, ErrFrameTooLarge\n	}\n	payload := fr.getReadBuf(fh.Length)\n	if _, err := io.ReadFull(fr.r, payload); err != nil {\n		return nil, err\n	}\n", New: "	payload := fr.getReadBuf(fh.Length)\n	if _, err := io.ReadFull(fr.r, payload); err != nil {\n		return nil, err\n	}\n	if fh.Length > fr.maxReadSize {\n		return nil, ErrFrameTooLarge\n	}\n", Expect: "read-frame|ReadFrame:max-size-gate"},
	{Name: "order-check-skipped-when-logging", File: "bfe_http2/frame.go", Old: "	if err := fr.checkFrameOrder(f); err != nil {\n		return nil, err\n	}\n	if fr.logReads {", New: "	if !fr.logReads {\n		if err := fr.checkFrameOrder(f); err != nil {\n			return nil, err\n		}\n	}\n	if fr.logReads {", Expect: "read-frame|ReadFrame:order"},
	{Name: "continuation-other-stream-accepted", File: "bfe_http2/frame.go", Old: "		if fh.StreamID != fr.lastHeaderStream {\n			return fr.connError(ErrCodeProtocol,\n				fmt.Sprintf(\"got CONTINUATION for stream %d; expected stream %d\",\n					fh.StreamID, fr.lastHeaderStream))\n		}\n", New: "", Expect: "frame-order|checkFrameOrder:accepting-paths"},
	{Name: "end-headers-never-closes", File: "bfe_http2/frame.go", Old: "		if fh.Flags.Has(FlagHeadersEndHeaders) {\n			fr.lastHeaderStream = 0\n		} else {", New: "		if fh.Flags.Has(FlagHeadersEndStream) {\n			fr.lastHeaderStream = 0\n		} else {", Expect: "frame-order|checkFrameOrder:lastHeaderStream"},
	{Name: "settings-ack-payload-accepted", File: "bfe_http2/frame.go", Old: "	if fh.Flags.Has(FlagSettingsAck) && fh.Length > 0 {", New: "	if fh.Flags.Has(FlagSettingsAck) && fh.Length > 6 {", Expect: "settings-frame|SETTINGS:ack"},
	{Name: "window-update-zero-accepted-on-conn", File: "bfe_http2/frame.go", Old: "	if inc == 0 {\n		errMsg := \"WINDOW_UPDATE with zero increment\"", New: "	if inc == 0 && fh.StreamID != 0 {\n		errMsg := \"WINDOW_UPDATE with zero increment\"", Expect: "window-update|"},
	{Name: "goaway-mask-dropped", File: "bfe_http2/frame.go", Old: "		LastStreamID: binary.BigEndian.Uint32(p[:4]) & (1<<31 - 1),", New: "		LastStreamID: binary.BigEndian.Uint32(p[:4]),", Expect: "reserved-bit|parseGoAwayFrame"},
	{Name: "max-frame-size-lower-bound", File: "bfe_http2/http2.go", Old: "		if s.Val < 16384 || s.Val > 1<<24-1 {", New: "		if s.Val > 1<<24-1 {", Expect: "settings-values|Setting.Valid:MAX_FRAME_SIZE"},
	{Name: "parser-table-entry-removed", File: "bfe_http2/frame.go", Old: "	FrameContinuation: parseContinuationFrame,\n}", New: "}", Expect: "parser-table|frameParsers:CONTINUATION"},
	{Name: "writer-wrong-type", File: "bfe_http2/frame.go", Old: "	f.startWrite(FrameRSTStream, 0, streamID)", New: "	f.startWrite(FramePriority, 0, streamID)", Expect: "writer|Framer.WriteRSTStream"},
	{Name: "truncated-headers-not-compression-error", File: "bfe_http2/frame.go", Old: "	if err := hdec.Close(); err != nil {\n		errMsg := fmt.Sprintf(\"ReadMetaFrame err: %s\", err)\n		return nil, ConnectionError{ErrCodeCompression, errMsg}", New: "	if err := hdec.Close(); err != nil {\n		errMsg := fmt.Sprintf(\"ReadMetaFrame err: %s\", err)\n		return nil, ConnectionError{ErrCodeProtocol, errMsg}", Expect: "meta-headers|readMetaFrame:hpack-Close"},
	{Name: "silent-priority-reordered", File: "bfe_http2/frame.go", Old: "	if fh.StreamID == 0 {\n		return nil, connError{ErrCodeProtocol, \"PRIORITY frame with stream ID 0\"}\n	}\n	if len(payload) != 5 {\n		return nil, connError{ErrCodeFrameSize, fmt.Sprintf(\"PRIORITY frame payload size was %d; want 5\", len(payload))}\n	}", New: "	if n := len(payload); 5 != n {\n		return nil, connError{ErrCodeFrameSize, fmt.Sprintf(\"PRIORITY frame payload size was %d; want 5\", n)}\n	}\n	if 0 == fh.StreamID {\n		return nil, connError{ErrCodeProtocol, \"PRIORITY frame with stream ID 0\"}\n	}", Silent: true},
	// robustness classes (negative controls): behaviour-preserving restructurings at other sites than the recorded controls
	{Name: "silent-helper-data-pad-length", File: "bfe_http2/frame.go", Old: "\tvar padSize byte\n\tif fh.Flags.Has(FlagDataPadded) {\n\t\tvar err error\n\t\tpayload, padSize, err = readByte(payload)\n\t\tif err != nil {\n\t\t\treturn nil, err\n\t\t}\n\t}\n\tif int(padSize) > len(payload) {\n\t\t// If the length of the padding is greater than the\n\t\t// length of the frame payload, the recipient MUST\n\t\t// treat this as a connection error.\n\t\t// Filed: https://github.com/http2/http2-spec/issues/610\n\t\treturn nil, connError{ErrCodeProtocol, \"pad size larger than data payload\"}\n\t}\n\tf.data = payload[:len(payload)-int(padSize)]\n\treturn f, nil\n}", New: "\tpayload, padSize, err := dataPadLength(fh, payload)\n\tif err != nil {\n\t\treturn nil, err\n\t}\n\tif int(padSize) > len(payload) {\n\t\t// If the length of the padding is greater than the\n\t\t// length of the frame payload, the recipient MUST\n\t\t// treat this as a connection error.\n\t\t// Filed: https://github.com/http2/http2-spec/issues/610\n\t\treturn nil, connError{ErrCodeProtocol, \"pad size larger than data payload\"}\n\t}\n\tf.data = payload[:len(payload)-int(padSize)]\n\treturn f, nil\n}\n\nfunc dataPadLength(hdr FrameHeader, body []byte) ([]byte, byte, error) {\n\tif !hdr.Flags.Has(FlagDataPadded) {\n\t\treturn body, 0, nil\n\t}\n\treturn readByte(body)\n}", Silent: true},
	{Name: "silent-helper-readframe-size-gate", File: "bfe_http2/frame.go", Old: "func (fr *Framer) ReadFrame() (Frame, error) {\n\tfr.errDetail = nil\n\tif fr.lastFrame != nil {\n\t\tfr.lastFrame.invalidate()\n\t}\n\tfh, err := readFrameHeader(fr.headerBuf[:], fr.r)\n\tif err != nil {\n\t\treturn nil, err\n\t}\n\tif fh.Length > fr.maxReadSize {\n\t\treturn nil, ErrFrameTooLarge\n\t}\n\tpayload := fr.getReadBuf(fh.Length)\n", New: "func (fr *Framer) payloadFor(hdr FrameHeader) ([]byte, error) {\n\tif limit := fr.maxReadSize; limit < hdr.Length {\n\t\treturn nil, ErrFrameTooLarge\n\t}\n\treturn fr.getReadBuf(hdr.Length), nil\n}\n\nfunc (fr *Framer) ReadFrame() (Frame, error) {\n\tfr.errDetail = nil\n\tif fr.lastFrame != nil {\n\t\tfr.lastFrame.invalidate()\n\t}\n\tfh, err := readFrameHeader(fr.headerBuf[:], fr.r)\n\tif err != nil {\n\t\treturn nil, err\n\t}\n\tpayload, err := fr.payloadFor(fh)\n\tif err != nil {\n\t\treturn nil, err\n\t}\n", Silent: true},
	{Name: "silent-helper-order-bookkeeping-early-returns", File: "bfe_http2/frame.go", Old: "\tswitch fh.Type {\n\tcase FrameHeaders, FrameContinuation:\n\t\tif fh.Flags.Has(FlagHeadersEndHeaders) {\n\t\t\tfr.lastHeaderStream = 0\n\t\t} else {\n\t\t\tfr.lastHeaderStream = fh.StreamID\n\t\t}\n\t}\n\n\treturn nil\n}", New: "\tfr.noteHeaderBlock(fh)\n\treturn nil\n}\n\nfunc (fr *Framer) noteHeaderBlock(hdr FrameHeader) {\n\tisHeaderBlock := hdr.Type == FrameHeaders || hdr.Type == FrameContinuation\n\tif !isHeaderBlock {\n\t\treturn\n\t}\n\tif hdr.Flags.Has(FlagHeadersEndHeaders) {\n\t\tfr.lastHeaderStream = 0\n\t\treturn\n\t}\n\tfr.lastHeaderStream = hdr.StreamID\n}", Silent: true},
	{Name: "silent-ping-switch-defensive-check", File: "bfe_http2/frame.go", Old: "\tif len(payload) != 8 {\n\t\treturn nil, ConnectionError{ErrCodeFrameSize, \"PING with wrong payload size\"}\n\t}\n\tif fh.StreamID != 0 {\n\t\treturn nil, ConnectionError{ErrCodeProtocol, \"PING with non-zero stream ID\"}\n\t}\n\tf := &PingFrame{FrameHeader: fh}", New: "\tswitch {\n\tcase len(payload) != 8:\n\t\treturn nil, ConnectionError{ErrCodeFrameSize, \"PING with wrong payload size\"}\n\tcase fh.StreamID != 0:\n\t\treturn nil, ConnectionError{ErrCodeProtocol, \"PING with non-zero stream ID\"}\n\t}\n\tif fh.Type != FramePing {\n\t\t// cannot happen: frameParsers registers this parser for PING only\n\t\treturn nil, errors.New(\"http2: internal error: PING parser on another frame type\")\n\t}\n\tf := &PingFrame{FrameHeader: fh}", Silent: true},
	{Name: "silent-setting-valid-if-chain-named-bools", File: "bfe_http2/http2.go", Old: "\tcase SettingMaxFrameSize:\n\t\tif s.Val < 16384 || s.Val > 1<<24-1 {\n\t\t\treturn ConnectionError{ErrCodeProtocol, \"SETTINGS with invalid MaxFrameSize\"}\n\t\t}\n\t}\n\treturn nil", New: "\t}\n\tif s.ID == SettingMaxFrameSize {\n\t\ttooSmall := s.Val < 16384\n\t\ttooLarge := s.Val > 1<<24-1\n\t\toutOfRange := tooSmall || tooLarge\n\t\tif outOfRange {\n\t\t\treturn ConnectionError{ErrCodeProtocol, \"SETTINGS with invalid MaxFrameSize\"}\n\t\t}\n\t}\n\treturn nil", Silent: true},
	{Name: "silent-readframe-logging", File: "bfe_http2/frame.go", Old: "	if fh.Length > fr.maxReadSize {\n		return nil, ErrFrameTooLarge\n	}", New: "	if limit := fr.maxReadSize; limit < fh.Length {\n		if fr.logReads {\n			log.Printf(\"http2: frame of %d bytes exceeds %d\", fh.Length, limit)\n		}\n		return nil, ErrFrameTooLarge\n	}", Silent: true},
}

// c32RemainderOf: v is what is left of the payload after `call` consumed its
// prefix, possibly after further readByte/readUint32 steps (also inside
// private helpers that return the remainder) and phi merges.
func c32RemainderOf(g *hxReg, v ssa.Value, call *ssa.Call, d int) bool {
	if d > 10 {
		return false
	}
	v = hxResolve(v)
	if phi, ok := v.(*ssa.Phi); ok {
		for _, e := range phi.Edges {
			if c32RemainderOf(g, e, call, d+1) {
				return true
			}
		}
		return false
	}
	cc, i := hxCallOf(v)
	if cc == nil {
		return false
	}
	if h := g.helper(cc); h != nil {
		if i < 0 {
			i = 0
		}
		for _, r := range core.Returns(h) {
			rv := core.RetVals(r)
			if i < len(rv) && !hxIsNil(rv[i]) && c32RemainderOf(g, rv[i], call, d+1) {
				return true
			}
		}
		return false
	}
	if i != 0 {
		return false
	}
	if cc == call {
		return true
	}
	if core.CallIs(&cc.Call, hxH2+".readByte", hxH2+".readUint32") && len(cc.Call.Args) == 1 {
		return c32RemainderOf(g, cc.Call.Args[0], call, d+1)
	}
	return false
}

// metaHeaders: readMetaFrame reports HPACK failures as COMPRESSION_ERROR and
// refuses to run without the frame order check.
func (x *c32Ctx) metaHeaders() {
	c := x.c
	fn := hxFn(c, hxH2, "Framer.readMetaFrame")
	allowF := hxField(c, hxH2, "Framer.AllowIllegalReads")
	if fn == nil || allowF == nil {
		return
	}
	comp := x.constVal["ErrCodeCompression"]
	g := x.reg(fn)
	for _, name := range []string{"Write", "Close"} {
		var call *ssa.Call
		for _, in := range g.Instrs() {
			if cc := hxIsCallTo(in, hxHpack+".Decoder."+name); cc != nil {
				call = cc
			}
		}
		if call == nil {
			c.Check("meta-headers", "readMetaFrame:hpack-"+name, fn.Pos(), false, "readMetaFrame does not call hpack.Decoder."+name)
			continue
		}
		why := hxErrChecked(fn, call, nil)
		if why == "" {
			// the returns of the error branch: at least one, and every ConnectionError carries COMPRESSION_ERROR
			var errv ssa.Value = call
			if call.Call.Signature().Results().Len() > 1 {
				errv = hxExtract(call, call.Call.Signature().Results().Len()-1)
			}
			n := 0
			for _, r := range g.Returns() {
				under := false
				for _, rel := range hxRelsAt(r.Block()) {
					if rel.Op == token.NEQ && hxIsNil(rel.R) && hxResolve(rel.L) == errv {
						under = true
					}
				}
				if !under {
					continue
				}
				e := hxErrOf(hxErrResult(r))
				if e.Type == "ConnectionError" {
					n++
					if !e.HasCode || e.Code != comp {
						why = fmt.Sprintf("a decoding failure is reported as a connection error with code %d, RFC 7540 section 4.3 requires COMPRESSION_ERROR (%d)", e.Code, comp)
					}
				}
			}
			if why == "" && n == 0 {
				why = "no connection error COMPRESSION_ERROR is returned when decoding fails"
			}
		}
		c.Check("meta-headers", "readMetaFrame:hpack-"+name, call.Pos(), why == "", "an HPACK decoding error must end the connection with COMPRESSION_ERROR: "+why)
	}
	// the unchecked assertion to *ContinuationFrame relies on checkFrameOrder
	n := 0
	for _, in := range g.Instrs() {
		ta, ok := in.(*ssa.TypeAssert)
		if !ok || ta.CommaOk {
			continue
		}
		guarded := hxHasGuard(ta.Block(), func(g core.Guard) bool { return !g.Pol && hxIsField(g.Cond, allowF) })
		c.Check("meta-headers", fmt.Sprintf("readMetaFrame:unchecked-assert#%d", n), ta.Pos(), guarded, "the unchecked type assertion to "+core.TypeStr(ta.AssertedType)+" is only safe when checkFrameOrder ran: it must be under !fr.AllowIllegalReads")
		n++
	}
	c.Min("meta-headers", 3)
}
