package rules

import (
	"fmt"
	"go/token"
	"go/types"
	"sort"
	"strings"

	"golang.org/x/tools/go/ssa"

	"verif/internal/core"
)

// C07 — active-connection counts match in-flight requests.
//
// Typestate of "the backend counted for this request":
//
//	nil -> uncounted (holder set) -> counted (IncConnNum) -> released (DecConnNum) -> nil (holder cleared)
const (
	tsNil = 1 << iota
	tsUnc
	tsCnt
	tsRel
	tsSched // release scheduled by defer
)

func tsName(s uint32) string {
	var p []string
	for i, n := range []string{"nil", "set-uncounted", "counted", "released", "release-deferred"} {
		if s&(1<<i) != 0 {
			p = append(p, n)
		}
	}
	return "{" + strings.Join(p, ",") + "}"
}

func init() {
	Register(&Rule{
		ID: "C07", Section: "3 C07",
		Technique: "typestate dataflow on go/ssa (acquire=IncConnNum, release=DecConnNum, holder=request.Trans.Backend / findBackend result) with branch refinement; Inc/Dec site census",
		Meta: core.Meta{
			Level:       "other",
			Explanation: "Decides Inc/Dec pairing on every path: in ReverseProxy.clusterInvoke the holder request.Trans.Backend is in state nil or counted at every return and is only overwritten when nil, IncConnNum happens only on a set-uncounted holder and DecConnNum only on a counted one followed by clearing the holder; ReverseProxy.FinishReq releases exactly when the holder is non-nil, on every path (deferred), and is called from exactly one site per request; websocket/stream findBackend return (conn, backend) only in state counted and (nil) only with nothing counted, and their callers defer DecConnNum on the success path; all IncConnNum/DecConnNum call sites in the module are among the analysed ones (census). The holder is identified structurally (field objects Trans.Backend of the request value, followed through spilled/captured variables and the parameters of private helpers), private helpers and local closures of the analysed functions are analysed as part of them (the state flows into the helper at its call and back from its returns), a deferred closure or private helper that releases is analysed in the state of its registration, and a nil test of a findBackend result that is non-nil on every success return cannot succeed while the backend is counted. Not covered: that protocol layers other than bfe_server.conn.serveRequest invoke FinishReq for every request; modules that replace request.Trans.Backend inside callbacks; the atomicity of the counter itself.",
			RuleText:    "obligations = every Inc/Dec/holder-store/SetRequestTransport/return event of the analysed functions with the abstract state set reaching it; every Inc/Dec call site in the module (census)",
			Assumptions: []string{"callbacks invoked between SetRequestTransport and IncConnNum do not change request.Trans.Backend's counted status", "a standard-library call returning (value, error) yields a non-nil value when the error is nil (net.DialTimeout in findBackend); callees do not reassign serverConn.bconn between findBackend and the nil test"},
		},
		Run: runC07,
		Mutants: []Mutant{
			{Name: "finish-leaves-uncounted", File: "bfe_server/reverseproxy.go", Old: "				request.Trans.Backend = nil\n				// close the connection after response\n				action = closeAfterReply\n				return", New: "				action = closeAfterReply\n				return", Expect: "ts-return"},
			{Name: "drop-dec-on-rebalance", File: "bfe_server/reverseproxy.go", Old: "			request.Trans.Backend.DecConnNum()\n			request.Trans.Backend = nil\n		}\n		request.SetRequestTransport", New: "			request.Trans.Backend = nil\n		}\n		request.SetRequestTransport", Expect: "ts-clear"},
			{Name: "finishreq-unguarded-path", File: "bfe_server/reverseproxy.go", Old: "	defer func() {\n		// desc backend connection counter\n		if request.Trans.Backend != nil {\n			request.Trans.Backend.DecConnNum()\n		}\n	}()\n", New: "", Expect: "finish-release"},
			{Name: "ws-dec-dropped-on-dial-failure", File: "bfe_websocket/server_conn.go", Old: "			backend.DecConnNum()\n", New: "", Expect: "ts-"},
			{Name: "stream-defer-dropped", File: "bfe_stream/server_conn.go", Old: "	defer back.DecConnNum()\n", New: "", Expect: "ts-return"},
			{Name: "inc-moved-before-balance-check", File: "bfe_stream/server_conn.go", Old: "		backend.IncConnNum()\n", New: "		backend.IncConnNum()\n		backend.IncConnNum()\n", Expect: "ts-inc"},
			{Name: "silent-finishreq-deferred-helper", File: "bfe_server/reverseproxy.go", Old: "// FinishReq should be invoked after quit ServHTTP().\nfunc (p *ReverseProxy) FinishReq(rw bfe_http.ResponseWriter, request *bfe_basic.Request) (action int) {\n\t// get instance of BfeServer\n\tsrv := p.server\n\n\t// desc connection num after request finish\n\tdefer func() {\n\t\t// desc backend connection counter\n\t\tif request.Trans.Backend != nil {\n\t\t\trequest.Trans.Backend.DecConnNum()\n\t\t}\n\t}()\n", New: "func releaseBackend(req *bfe_basic.Request) {\n\tif req.Trans.Backend == nil {\n\t\treturn\n\t}\n\treq.Trans.Backend.DecConnNum()\n}\n\n// FinishReq should be invoked after quit ServHTTP().\nfunc (p *ReverseProxy) FinishReq(rw bfe_http.ResponseWriter, request *bfe_basic.Request) (action int) {\n\t// get instance of BfeServer\n\tsrv := p.server\n\n\t// desc connection num after request finish\n\tdefer releaseBackend(request)\n", Silent: true},
			{Name: "silent-clusterinvoke-count-in-local-func", File: "bfe_server/reverseproxy.go", Old: "\t\tbackend := request.Trans.Backend\n\t\tbackend.IncConnNum()\n", New: "\t\tcountBackend := func(r *bfe_basic.Request) *bfe_cluster_backend.BfeBackend {\n\t\t\tb := r.Trans.Backend\n\t\t\tb.IncConnNum()\n\t\t\treturn b\n\t\t}\n\t\tbackend := countBackend(request)\n", Silent: true},
			{Name: "silent-stream-deferred-closure-logs", File: "bfe_stream/server_conn.go", Old: "\tdefer back.DecConnNum()\n", New: "\tdefer func() {\n\t\tlog.Logger.Debug(\"bfe_stream: release backend\")\n\t\tback.DecConnNum()\n\t}()\n", Silent: true},
			{Name: "silent-websocket-defensive-nil-check", File: "bfe_websocket/server_conn.go", Old: "\tlog.Logger.Debug(\"bfe_websocket: proxy websocket connection to %v\", sc.bconn.RemoteAddr())\n\tdefer back.DecConnNum()\n", New: "\tif back == nil || sc.bconn == nil {\n\t\treturn\n\t}\n\tlog.Logger.Debug(\"bfe_websocket: proxy websocket connection to %v\", sc.bconn.RemoteAddr())\n\tdefer back.DecConnNum()\n", Silent: true},
			{Name: "silent-stream-findbackend-inverted-if", File: "bfe_stream/server_conn.go", Old: "\t\tif err != nil {\n\t\t\t// connect backend failed, desc connection num\n\t\t\tbackend.DecConnNum()\n\t\t\tstate.StreamErrConnect.Inc(1)\n\t\t\tlog.Logger.Debug(\"bfe_stream: connect %s error: %s\", bAddr, err)\n\t\t\tcontinue\n\t\t}\n\n\t\treturn bc, backend, nil\n", New: "\t\tif err == nil {\n\t\t\treturn bc, backend, nil\n\t\t}\n\t\t// connect backend failed, desc connection num\n\t\tbackend.DecConnNum()\n\t\tstate.StreamErrConnect.Inc(1)\n\t\tlog.Logger.Debug(\"bfe_stream: connect %s error: %s\", bAddr, err)\n", Silent: true},
			{Name: "silent-inc-defer-unlock-plus-equals", File: "bfe_balance/backend/bfe_backend.go", Old: "\tback.Lock()\n\tback.connNum++\n\tback.Unlock()\n", New: "\tback.Lock()\n\tdefer back.Unlock()\n\tback.connNum += 1\n", Silent: true},
		},
	})
}

func runC07(c *core.Ctx) {
	p := c.P
	incObj := p.Obj("bfe_balance/backend", "BfeBackend.IncConnNum")
	decObj := p.Obj("bfe_balance/backend", "BfeBackend.DecConnNum")
	if incObj == nil || decObj == nil {
		c.Missing("bfe_balance/backend.BfeBackend.IncConnNum/DecConnNum")
		return
	}
	const inc, dec = "bfe_balance/backend.BfeBackend.IncConnNum", "bfe_balance/backend.BfeBackend.DecConnNum"
	analysed := map[ssa.Instruction]bool{}
	isIncDec := func(in ssa.Instruction) bool {
		ci, ok := in.(ssa.CallInstruction)
		return ok && core.CallIs(ci.Common(), inc, dec)
	}
	// the holder request.Trans.Backend, identified structurally (field objects
	// and the origin of the request value, not the names of locals/parameters)
	holderAddr := func(addr, req ssa.Value) bool {
		tb, ok := rbFieldAddr(addr, "", "Backend")
		if !ok {
			return false
		}
		rb, ok := rbFieldAddr(tb, "bfe_basic.Request", "Trans")
		if !ok {
			return false
		}
		return req == nil || rbRoot(p, rb) == req
	}
	holderLoad := func(v, req ssa.Value) bool {
		u, ok := core.StripConv(v).(*ssa.UnOp)
		return ok && u.Op == token.MUL && holderAddr(u.X, req)
	}
	// refineHolder narrows the state on `holder != nil` / `holder == nil` in any spelling
	refineHolder := func(req ssa.Value) func(cond ssa.Value, pol bool, s uint32) uint32 {
		isH := func(v ssa.Value) bool { return holderLoad(v, req) }
		return func(cond ssa.Value, pol bool, s uint32) uint32 {
			cond, pol = rbNorm(cond, pol)
			g := core.Guard{Cond: cond, Pol: pol}
			if g.CmpIs(token.NEQ, isH, isNilConst) {
				return s &^ tsNil
			}
			if g.CmpIs(token.EQL, isH, isNilConst) {
				return s & tsNil
			}
			return s
		}
	}
	requestParam := func(fn *ssa.Function) ssa.Value {
		for _, prm := range fn.Params {
			if strings.HasSuffix(core.TypeStr(prm.Type()), "bfe_basic.Request") {
				return rbRoot(p, prm)
			}
		}
		return nil
	}

	// ---- clusterInvoke -------------------------------------------------
	if fn := p.Func("bfe_server", "ReverseProxy.clusterInvoke"); fn == nil {
		c.Missing("bfe_server.ReverseProxy.clusterInvoke")
	} else if req := requestParam(fn); req == nil {
		c.Missing("bfe_server.ReverseProxy.clusterInvoke: *bfe_basic.Request parameter")
	} else {
		region := rbRegion(p, fn)
		inRegion := map[*ssa.Function]bool{}
		for _, g := range region {
			inRegion[g] = true
			c.Analysed(core.FuncKey(g))
		}
		// values handed to SetRequestTransport are the holder's content
		var alias []ssa.Value
		for _, call := range rbRegionCalls(p, fn, "bfe_basic.Request.SetRequestTransport") {
			if a := call.Common().Args; len(a) >= 2 {
				alias = append(alias, rbRoot(p, a[1]))
			}
		}
		isHeld := func(v ssa.Value) bool {
			if holderLoad(v, req) || holderLoad(rbRoot(p, v), req) {
				return true
			}
			r := rbRoot(p, v)
			for _, a := range alias {
				if a == r {
					return true
				}
			}
			return false
		}
		ord := map[string]int{}
		key := func(kind string) string { ord[kind]++; return fmt.Sprintf("clusterInvoke:%s#%d", kind, ord[kind]) }
		ts := &rbTypestate{p: p, inRegion: inRegion, refine: refineHolder(req)}
		ts.step = func(in ssa.Instruction, s uint32, report, top bool) uint32 {
			chk := func(rule, kind string, ok bool, msg string) {
				if report {
					c.Check(rule, key(kind), in.Pos(), ok, msg+"; state before: "+tsName(s))
				}
			}
			switch x := in.(type) {
			case *ssa.Store:
				if holderAddr(x.Addr, req) {
					if isNilConst(x.Val) {
						chk("ts-clear", "clear", s&tsCnt == 0, "request.Trans.Backend is cleared while still counted (DecConnNum missing): the count leaks")
						return tsNil
					}
					chk("ts-set", "set", s&^uint32(tsNil) == 0, "request.Trans.Backend is overwritten while a previous backend is still held")
					return tsUnc
				}
			case ssa.CallInstruction:
				cc := x.Common()
				switch {
				case core.CallIs(cc, "bfe_basic.Request.SetRequestTransport") && len(cc.Args) > 0 && rbRoot(p, cc.Args[0]) == req:
					chk("ts-set", "set", s&^uint32(tsNil) == 0, "SetRequestTransport overwrites a backend that is still held (counted or uncounted)")
					return tsUnc
				case core.CallIs(cc, inc):
					analysed[in] = true
					if !isHeld(cc.Args[0]) {
						chk("ts-inc", "inc", false, "IncConnNum on "+core.Render(cc.Args[0])+", which is not the request's transport backend")
						return s
					}
					chk("ts-inc", "inc", s == tsUnc, "IncConnNum must act on a selected, not yet counted backend")
					return tsCnt
				case core.CallIs(cc, dec):
					analysed[in] = true
					if !isHeld(cc.Args[0]) {
						chk("ts-dec", "dec", false, "DecConnNum on "+core.Render(cc.Args[0])+", which is not the request's transport backend")
						return s
					}
					chk("ts-dec", "dec", s == tsCnt, "DecConnNum must act on a counted backend")
					return tsRel
				}
			case *ssa.Return:
				if top {
					chk("ts-return", "return", s&^uint32(tsNil|tsCnt) == 0, "clusterInvoke returns with request.Trans.Backend set but not counted (or released but not cleared); FinishReq will decrement a count that was never incremented / decrement twice")
				}
			}
			return s
		}
		ts.run(fn, tsNil|tsCnt, true, true, 3)
		c.Min("ts-inc", 1)
		c.Min("ts-return", 2)
		c.Min("ts-set", 1)
	}

	// ---- FinishReq -----------------------------------------------------
	if fn := p.Func("bfe_server", "ReverseProxy.FinishReq"); fn == nil {
		c.Missing("bfe_server.ReverseProxy.FinishReq")
	} else if req := requestParam(fn); req == nil {
		c.Missing("bfe_server.ReverseProxy.FinishReq: *bfe_basic.Request parameter")
	} else {
		c.Analysed(core.FuncKey(fn))
		inRegion := map[*ssa.Function]bool{}
		for _, g := range rbRegion(p, fn) {
			inRegion[g] = true
		}
		// the release is either inline or in a deferred closure / deferred private helper
		released := func(f *ssa.Function) (sites int, ok bool, detail string) {
			ok = true
			ts := &rbTypestate{p: p, inRegion: inRegion, refine: refineHolder(req)}
			ts.step = func(in ssa.Instruction, s uint32, report, top bool) uint32 {
				switch x := in.(type) {
				case ssa.CallInstruction:
					if core.CallIs(x.Common(), dec) {
						analysed[in] = true
						if report {
							sites++
							if !holderLoad(x.Common().Args[0], req) || s&^uint32(tsCnt) != 0 {
								ok = false
								detail = "DecConnNum on " + core.Render(x.Common().Args[0]) + " in state " + tsName(s)
							}
						}
						return tsRel
					}
					if core.CallIs(x.Common(), inc) {
						analysed[in] = true
						if report {
							ok, detail = false, "IncConnNum inside FinishReq"
						}
					}
				case *ssa.Return:
					if top && report && s&tsCnt != 0 {
						ok = false
						detail = "a path leaves with the backend still counted"
					}
				}
				return s
			}
			ts.run(f, tsNil|tsCnt, true, true, 3)
			return
		}
		var okAll bool
		var detail string
		// case 1: deferred function registered before every return
		for _, d := range allInstrs(fn) {
			df, isDefer := d.(*ssa.Defer)
			if !isDefer {
				continue
			}
			var cl *ssa.Function
			if mc, isClosure := df.Call.Value.(*ssa.MakeClosure); isClosure {
				cl, _ = mc.Fn.(*ssa.Function)
			} else if sc := df.Call.StaticCallee(); sc != nil && sc.Blocks != nil {
				cl = sc
			}
			if cl == nil || !core.MayPass(cl, isIncDec, 3) {
				continue
			}
			sites, ok, det := released(cl)
			if sites == 0 {
				continue
			}
			c.Analysed(core.FuncKey(cl))
			noSkip := core.ReachAvoiding(fn, nil, func(x ssa.Instruction) bool { return x == d }, core.IsReturn) == nil
			okAll = ok && noSkip && sites == 1
			detail = det
			if !noSkip {
				detail = "a return of FinishReq is reachable before the releasing defer is registered"
			}
		}
		if !okAll && detail == "" {
			sites, ok, det := released(fn)
			okAll, detail = ok && sites == 1, det
			if sites == 0 {
				detail = "FinishReq contains no DecConnNum on request.Trans.Backend"
			}
		}
		c.Check("finish-release", "FinishReq", fn.Pos(), okAll, "FinishReq must release the counted backend exactly once on every path, guarded by request.Trans.Backend != nil: "+detail)
		// who may call FinishReq
		var callers []string
		for _, f := range p.SrcFuncs("") {
			for range core.Calls(f, "bfe_server.ReverseProxy.FinishReq") {
				callers = append(callers, core.FuncKey(f))
			}
		}
		sort.Strings(callers)
		c.Check("finish-callers", "FinishReq", fn.Pos(), len(callers) == 1 && callers[0] == "bfe_server.conn.serveRequest",
			"FinishReq must be called from exactly one site (bfe_server.conn.serveRequest) so that the release happens once per request; callers: "+strings.Join(callers, ", "))
		if sr := p.Func("bfe_server", "conn.serveRequest"); sr != nil {
			c.Analysed(core.FuncKey(sr))
			for _, sv := range core.Calls(sr, "bfe_server.ReverseProxy.ServeHTTP") {
				bad := core.MustPass(sr, sv, core.LiftMust(func(x ssa.Instruction) bool {
					ci, ok := x.(ssa.CallInstruction)
					return ok && core.CallIs(ci.Common(), "bfe_server.ReverseProxy.FinishReq")
				}, 2))
				c.Check("finish-after-serve", "conn.serveRequest", sv.Pos(), bad == nil, "a path from ReverseProxy.ServeHTTP to return skips FinishReq: a counted backend would never be released")
			}
			c.Min("finish-after-serve", 1)
		}
	}

	// ---- websocket / stream ---------------------------------------------
	for _, pkg := range []string{"bfe_websocket", "bfe_stream"} {
		fb := p.Func(pkg, "serverConn.findBackend")
		sv := p.Func(pkg, "serverConn.serve")
		if fb == nil || sv == nil {
			c.Missing(pkg + ".serverConn.findBackend/serve")
			continue
		}
		c.Analysed(core.FuncKey(fb), core.FuncKey(sv))
		fbRegion, svRegion := map[*ssa.Function]bool{}, map[*ssa.Function]bool{}
		for _, g := range rbRegion(p, fb) {
			fbRegion[g] = true
		}
		for _, g := range rbRegion(p, sv) {
			if !fbRegion[g] { // findBackend is summarised by its own obligations, not inlined into serve
				svRegion[g] = true
			}
		}
		// findBackend: candidate = result #0 of the balance handler call
		beIdx := -1
		res := fb.Signature.Results()
		for i := 0; i < res.Len(); i++ {
			if strings.HasSuffix(core.TypeStr(res.At(i).Type()), "backend.BfeBackend") {
				beIdx = i
			}
		}
		if beIdx < 0 {
			c.Missing(pkg + ".serverConn.findBackend backend result")
			continue
		}
		errIdx := res.Len() - 1
		isCandX := func(v ssa.Value) bool {
			ex, ok := core.StripConv(v).(*ssa.Extract)
			if !ok || ex.Index != 0 {
				return false
			}
			_, isCall := ex.Tuple.(*ssa.Call)
			return isCall && strings.HasSuffix(core.TypeStr(ex.Type()), "backend.BfeBackend")
		}
		isCand := func(v ssa.Value) bool { return isCandX(v) || isCandX(rbRoot(p, v)) }
		ord := map[string]int{}
		key := func(fn, kind string) string {
			ord[fn+kind]++
			return fmt.Sprintf("%s.%s:%s#%d", pkg, fn, kind, ord[fn+kind])
		}
		tsF := &rbTypestate{p: p, inRegion: fbRegion}
		tsF.step = func(in ssa.Instruction, s uint32, report, top bool) uint32 {
			chk := func(rule, kind string, ok bool, msg string) {
				if report {
					c.Check(rule, key("findBackend", kind), in.Pos(), ok, msg+"; state before: "+tsName(s))
				}
			}
			switch x := in.(type) {
			case *ssa.Extract:
				if isCandX(x) {
					chk("ts-acquire", "select", s&tsCnt == 0, "a new backend is selected while the previous one is still counted (DecConnNum missing on the retry path)")
					return tsUnc
				}
			case ssa.CallInstruction:
				cc := x.Common()
				if core.CallIs(cc, inc) {
					analysed[in] = true
					chk("ts-inc", "inc", isCand(cc.Args[0]) && s == tsUnc, "IncConnNum must act once on the freshly selected backend")
					return tsCnt
				}
				if core.CallIs(cc, dec) {
					analysed[in] = true
					chk("ts-dec", "dec", isCand(cc.Args[0]) && s == tsCnt, "DecConnNum must act on the counted backend")
					return tsRel
				}
			case *ssa.Return:
				if !top {
					return s
				}
				rv := core.RetVals(x)
				if len(rv) > beIdx {
					if isNilConst(rv[beIdx]) {
						chk("ts-return", "return-nil", s&tsCnt == 0, "findBackend returns no backend while one is still counted")
					} else {
						chk("ts-return", "return-backend", isCand(rv[beIdx]) && s == tsCnt, "findBackend hands out a backend that is not counted exactly once")
					}
				}
			}
			return s
		}
		tsF.run(fb, tsNil, true, true, 3)
		// which results of findBackend are non-nil whenever it succeeds (error result nil)? The backend is
		// (IncConnNum was called on it: obligation ts-return above); another result is when every success
		// return hands out result #0 of a standard-library call whose error result was tested nil.
		nonNil := map[int]bool{beIdx: true}
		for i := 0; i < res.Len(); i++ {
			if i == beIdx || i == errIdx {
				continue
			}
			all, n := true, 0
			for _, r := range core.Returns(fb) {
				rv := core.RetVals(r)
				if len(rv) != res.Len() || !isNilConst(rv[errIdx]) {
					continue
				}
				n++
				ex, ok := rbRoot(p, rv[i]).(*ssa.Extract)
				if !ok || ex.Index != 0 {
					all = false
					continue
				}
				call, ok := ex.Tuple.(*ssa.Call)
				if !ok || !rbStdlibValueErr(call) {
					all = false
					continue
				}
				isErrOf := func(v ssa.Value) bool {
					e2, ok := rbRoot(p, v).(*ssa.Extract)
					return ok && e2.Tuple == ssa.Value(call) && e2.Index == 1
				}
				if !rbGuarded(p, r.Block(), rbCmpAtom(token.EQL, isErrOf, isNilConst)) {
					all = false
				}
			}
			nonNil[i] = all && n > 0
		}
		// serve: the backend returned by findBackend is released by a defer on the success path
		var fbCall *ssa.Call
		for _, ci := range core.Calls(sv, pkg+".serverConn.findBackend") {
			if call, ok := ci.(*ssa.Call); ok {
				fbCall = call
			}
		}
		if fbCall == nil {
			c.Missing(pkg + ".serverConn.serve: call of findBackend")
			continue
		}
		resolve := func(v ssa.Value) ssa.Value {
			v = rbRoot(p, v)
			if sv2 := rbFieldReaching(v); sv2 != nil {
				v = rbRoot(p, sv2)
			}
			return v
		}
		isRes := func(v ssa.Value, i int) bool {
			ex, ok := resolve(v).(*ssa.Extract)
			return ok && ex.Tuple == ssa.Value(fbCall) && ex.Index == i
		}
		tsS := &rbTypestate{p: p, inRegion: svRegion}
		tsS.step = func(in ssa.Instruction, s uint32, report, top bool) uint32 {
			chk := func(rule, kind string, ok bool, msg string) {
				if report {
					c.Check(rule, key("serve", kind), in.Pos(), ok, msg+"; state before: "+tsName(s))
				}
			}
			switch x := in.(type) {
			case *ssa.Call:
				if x == fbCall {
					return tsNil | tsCnt
				}
				if core.CallIs(&x.Call, dec) {
					analysed[in] = true
					chk("ts-dec", "dec", isRes(x.Call.Args[0], beIdx) && s == tsCnt, "DecConnNum must act once on the backend returned by findBackend")
					return tsRel
				}
				if core.CallIs(&x.Call, inc) {
					analysed[in] = true
					chk("ts-inc", "inc", false, "IncConnNum outside findBackend")
				}
			case *ssa.Defer:
				if core.CallIs(&x.Call, dec) {
					analysed[in] = true
					chk("ts-dec", "defer-dec", isRes(x.Call.Args[0], beIdx) && s == tsCnt, "deferred DecConnNum must act once on the backend returned by findBackend")
					return tsSched
				}
				if core.CallIs(&x.Call, inc) {
					analysed[in] = true
					chk("ts-inc", "inc", false, "IncConnNum outside findBackend")
					return s
				}
				// a deferred closure / private helper that performs the release (after logging, say)
				var cl *ssa.Function
				if mc, isClosure := x.Call.Value.(*ssa.MakeClosure); isClosure {
					cl, _ = mc.Fn.(*ssa.Function)
				} else if sc := x.Call.StaticCallee(); sc != nil && sc.Blocks != nil {
					cl = sc
				}
				if cl == nil || !core.MayPass(cl, isIncDec, 3) {
					return s
				}
				// the deferred body runs at exit in the state of its registration (any later event is
				// checked against release-deferred): it must release exactly once on every path
				inner := &rbTypestate{p: p, inRegion: svRegion}
				inner.step = func(in2 ssa.Instruction, s2 uint32, report2, top2 bool) uint32 {
					ci, ok := in2.(ssa.CallInstruction)
					if !ok {
						return s2
					}
					if core.CallIs(ci.Common(), dec) {
						analysed[in2] = true
						if report2 {
							c.Check("ts-dec", key("serve", "defer-dec"), in2.Pos(), isRes(ci.Common().Args[0], beIdx) && s2 == tsCnt, "deferred DecConnNum must act once on the backend returned by findBackend; state before: "+tsName(s2))
						}
						return tsRel
					}
					if core.CallIs(ci.Common(), inc) {
						analysed[in2] = true
						if report2 {
							c.Check("ts-inc", key("serve", "inc"), in2.Pos(), false, "IncConnNum outside findBackend")
						}
					}
					return s2
				}
				exit := inner.run(cl, s, report, true, 3)
				chk("ts-dec", "defer-body", exit == tsRel, "the deferred function must release the backend returned by findBackend on every one of its paths (state at its exit: "+tsName(exit)+")")
				return tsSched
			case *ssa.Return:
				if top {
					chk("ts-return", "return", s&tsCnt == 0, "serve returns while the backend handed out by findBackend is still counted and no release is deferred")
				}
			}
			return s
		}
		tsS.refine = func(cond ssa.Value, pol bool, s uint32) uint32 {
			cond, pol = rbNorm(cond, pol)
			g := core.Guard{Cond: cond, Pol: pol}
			isErr := func(v ssa.Value) bool { return isRes(v, errIdx) }
			if g.CmpIs(token.NEQ, isErr, isNilConst) { // err != nil holds
				return s & tsNil
			}
			if g.CmpIs(token.EQL, isErr, isNilConst) {
				return s &^ tsNil
			}
			// a result that is non-nil on every success return of findBackend cannot be nil while the
			// backend is counted (defensive `if back == nil || conn == nil { return }`)
			for i, nn := range nonNil {
				if !nn {
					continue
				}
				i := i
				if g.CmpIs(token.EQL, func(v ssa.Value) bool { return isRes(v, i) }, isNilConst) {
					return s & tsNil
				}
			}
			return s
		}
		tsS.run(sv, tsNil, true, true, 3)
	}
	c.Min("ts-dec", 5)
	c.Min("ts-acquire", 2)

	// ---- census: every Inc/Dec call site in the module was analysed -------
	n := 0
	for _, f := range p.SrcFuncs("") {
		core.Instrs(f, func(in ssa.Instruction) {
			ci, ok := in.(ssa.CallInstruction)
			if !ok {
				return
			}
			var callee types.Object
			if sc := ci.Common().StaticCallee(); sc != nil {
				callee = sc.Object()
			}
			if callee != incObj && callee != decObj {
				return
			}
			n++
			c.Check("census", core.FuncKey(f)+":"+callee.Name(), in.Pos(), analysed[in],
				callee.Name()+" is called from a function whose pairing is not covered by a typestate rule; counter changes outside the analysed request paths cannot be certified")
		})
	}
	c.Min("census", 9)
	// method values (backend.IncConnNum passed as a func) would escape the census
	for _, f := range p.SrcFuncs("") {
		core.Instrs(f, func(in ssa.Instruction) {
			if mc, ok := in.(*ssa.MakeClosure); ok {
				if fn, ok := mc.Fn.(*ssa.Function); ok && (strings.HasSuffix(fn.Name(), "IncConnNum$bound") || strings.HasSuffix(fn.Name(), "DecConnNum$bound")) {
					c.Check("census", core.FuncKey(f)+":bound-method", in.Pos(), false, "IncConnNum/DecConnNum taken as a method value; calls through it are not tracked")
				}
			}
		})
	}
	// the counter field is written only by Inc/Dec (and construction)
	if fld, ok := p.Obj("bfe_balance/backend", "BfeBackend.connNum").(*types.Var); ok {
		for _, f := range p.SrcFuncs("") {
			core.Instrs(f, func(in ssa.Instruction) {
				fa, ok := in.(*ssa.FieldAddr)
				if !ok || core.FieldObj(fa.X, fa.Field) != fld {
					return
				}
				k := core.FuncKey(f)
				allowed := k == "bfe_balance/backend.BfeBackend.IncConnNum" || k == "bfe_balance/backend.BfeBackend.DecConnNum" || k == "bfe_balance/backend.BfeBackend.ConnNum"
				c.Check("counter-owner", k, in.Pos(), allowed, "BfeBackend.connNum is touched outside IncConnNum/DecConnNum/ConnNum")
			})
		}
		c.Min("counter-owner", 3)
	} else {
		c.Missing("bfe_balance/backend.BfeBackend.connNum")
	}
}
