package rules

import (
	"fmt"
	"go/types"
	"sort"
	"strings"

	"golang.org/x/tools/go/ssa"

	"verif/internal/core"
)

// C07 — active-connection counts match in-flight requests.
//
// Typestate of "the backend counted for this request":
//   nil -> uncounted (holder set) -> counted (IncConnNum) -> released (DecConnNum) -> nil (holder cleared)
const (
	tsNil = 1 << iota
	tsUnc
	tsCnt
	tsRel
	tsSched // release scheduled by defer
)

func tsName(s uint32) string {
	var p []string
	for i, n := range []string{"nil", "set-uncounted", "counted", "released", "release-deferred"} {
		if s&(1<<i) != 0 {
			p = append(p, n)
		}
	}
	return "{" + strings.Join(p, ",") + "}"
}

func init() {
	Register(&Rule{
		ID: "C07", Section: "3 C07",
		Technique: "typestate dataflow on go/ssa (acquire=IncConnNum, release=DecConnNum, holder=request.Trans.Backend / findBackend result) with branch refinement; Inc/Dec site census",
		Meta: core.Meta{
			Level: "other",
			Explanation: "Decides Inc/Dec pairing on every path: in ReverseProxy.clusterInvoke the holder request.Trans.Backend is in state nil or counted at every return and is only overwritten when nil, IncConnNum happens only on a set-uncounted holder and DecConnNum only on a counted one followed by clearing the holder; ReverseProxy.FinishReq releases exactly when the holder is non-nil, on every path (deferred), and is called from exactly one site per request; websocket/stream findBackend return (conn, backend) only in state counted and (nil) only with nothing counted, and their callers defer DecConnNum on the success path; all IncConnNum/DecConnNum call sites in the module are among the analysed ones (census). Not covered: that protocol layers other than bfe_server.conn.serveRequest invoke FinishReq for every request; modules that replace request.Trans.Backend inside callbacks; the atomicity of the counter itself.",
			RuleText:    "obligations = every Inc/Dec/holder-store/SetRequestTransport/return event of the analysed functions with the abstract state set reaching it; every Inc/Dec call site in the module (census)",
			Assumptions: []string{"callbacks invoked between SetRequestTransport and IncConnNum do not change request.Trans.Backend's counted status"},
		},
		Run: runC07,
		Mutants: []Mutant{
			{Name: "finish-leaves-uncounted", File: "bfe_server/reverseproxy.go", Old: "				request.Trans.Backend = nil\n				// close the connection after response\n				action = closeAfterReply\n				return", New: "				action = closeAfterReply\n				return", Expect: "ts-return"},
			{Name: "drop-dec-on-rebalance", File: "bfe_server/reverseproxy.go", Old: "			request.Trans.Backend.DecConnNum()\n			request.Trans.Backend = nil\n		}\n		request.SetRequestTransport", New: "			request.Trans.Backend = nil\n		}\n		request.SetRequestTransport", Expect: "ts-clear"},
			{Name: "finishreq-unguarded-path", File: "bfe_server/reverseproxy.go", Old: "	defer func() {\n		// desc backend connection counter\n		if request.Trans.Backend != nil {\n			request.Trans.Backend.DecConnNum()\n		}\n	}()\n", New: "", Expect: "finish-release"},
			{Name: "ws-dec-dropped-on-dial-failure", File: "bfe_websocket/server_conn.go", Old: "			backend.DecConnNum()\n", New: "", Expect: "ts-"},
			{Name: "stream-defer-dropped", File: "bfe_stream/server_conn.go", Old: "	defer back.DecConnNum()\n", New: "", Expect: "ts-return"},
			{Name: "inc-moved-before-balance-check", File: "bfe_stream/server_conn.go", Old: "		backend.IncConnNum()\n", New: "		backend.IncConnNum()\n		backend.IncConnNum()\n", Expect: "ts-inc"},
		},
	})
}

func runC07(c *core.Ctx) {
	incObj := c.P.Obj("bfe_balance/backend", "BfeBackend.IncConnNum")
	decObj := c.P.Obj("bfe_balance/backend", "BfeBackend.DecConnNum")
	if incObj == nil || decObj == nil {
		c.Missing("bfe_balance/backend.BfeBackend.IncConnNum/DecConnNum")
		return
	}
	const inc, dec = "bfe_balance/backend.BfeBackend.IncConnNum", "bfe_balance/backend.BfeBackend.DecConnNum"
	analysed := map[ssa.Instruction]bool{}

	// ---- clusterInvoke -------------------------------------------------
	if fn := c.P.Func("bfe_server", "ReverseProxy.clusterInvoke"); fn == nil {
		c.Missing("bfe_server.ReverseProxy.clusterInvoke")
	} else {
		c.Analysed(core.FuncKey(fn))
		const holder = "request.Trans.Backend"
		alias := map[string]bool{holder: true}
		for _, call := range core.Calls(fn, "bfe_basic.Request.SetRequestTransport") {
			if a := call.Common().Args; len(a) >= 2 {
				alias[core.Render(a[1])] = true
			}
		}
		ord := map[string]int{}
		key := func(kind string) string { ord[kind]++; return fmt.Sprintf("clusterInvoke:%s#%d", kind, ord[kind]) }
		step := func(in ssa.Instruction, s uint32, report bool) uint32 {
			chk := func(rule, kind string, ok bool, msg string) {
				if report {
					c.Check(rule, key(kind), in.Pos(), ok, msg+"; state before: "+tsName(s))
				}
			}
			switch x := in.(type) {
			case *ssa.Store:
				if core.Render(x.Addr) == holder {
					if k, ok := x.Val.(*ssa.Const); ok && k.Value == nil {
						chk("ts-clear", "clear", s&tsCnt == 0, "request.Trans.Backend is cleared while still counted (DecConnNum missing): the count leaks")
						return tsNil
					}
					chk("ts-set", "set", s&^uint32(tsNil) == 0, "request.Trans.Backend is overwritten while a previous backend is still held")
					return tsUnc
				}
			case ssa.CallInstruction:
				cc := x.Common()
				switch {
				case core.CallIs(cc, "bfe_basic.Request.SetRequestTransport") && len(cc.Args) > 0 && core.Render(cc.Args[0]) == "request":
					chk("ts-set", "set", s&^uint32(tsNil) == 0, "SetRequestTransport overwrites a backend that is still held (counted or uncounted)")
					return tsUnc
				case core.CallIs(cc, inc):
					analysed[in] = true
					if !alias[core.Render(cc.Args[0])] {
						chk("ts-inc", "inc", false, "IncConnNum on "+core.Render(cc.Args[0])+", which is not the request's transport backend")
						return s
					}
					chk("ts-inc", "inc", s == tsUnc, "IncConnNum must act on a selected, not yet counted backend")
					return tsCnt
				case core.CallIs(cc, dec):
					analysed[in] = true
					if !alias[core.Render(cc.Args[0])] {
						chk("ts-dec", "dec", false, "DecConnNum on "+core.Render(cc.Args[0])+", which is not the request's transport backend")
						return s
					}
					chk("ts-dec", "dec", s == tsCnt, "DecConnNum must act on a counted backend")
					return tsRel
				}
			case *ssa.Return:
				chk("ts-return", "return", s&^uint32(tsNil|tsCnt) == 0, "clusterInvoke returns with request.Trans.Backend set but not counted (or released but not cleared); FinishReq will decrement a count that was never incremented / decrement twice")
			}
			return s
		}
		refine := func(cond ssa.Value, pol bool, s uint32) uint32 {
			r := core.Render(cond)
			if r == "("+holder+" != nil)" {
				if pol {
					return s &^ tsNil
				}
				return s & tsNil
			}
			if r == "("+holder+" == nil)" {
				if pol {
					return s & tsNil
				}
				return s &^ tsNil
			}
			return s
		}
		core.Typestate(fn, tsNil|tsCnt, step, refine)
		c.Min("ts-inc", 1)
		c.Min("ts-return", 2)
		c.Min("ts-set", 1)
	}

	// ---- FinishReq -----------------------------------------------------
	if fn := c.P.Func("bfe_server", "ReverseProxy.FinishReq"); fn == nil {
		c.Missing("bfe_server.ReverseProxy.FinishReq")
	} else {
		c.Analysed(core.FuncKey(fn))
		const holder = "request.Trans.Backend"
		// the release is either inline or in a deferred closure
		released := func(f *ssa.Function) (sites int, ok bool, detail string) {
			ok = true
			step := func(in ssa.Instruction, s uint32, report bool) uint32 {
				switch x := in.(type) {
				case ssa.CallInstruction:
					if core.CallIs(x.Common(), dec) {
						analysed[in] = true
						if report {
							sites++
							if core.Render(x.Common().Args[0]) != holder || s&^uint32(tsCnt) != 0 {
								ok = false
								detail = "DecConnNum on " + core.Render(x.Common().Args[0]) + " in state " + tsName(s)
							}
						}
						return tsRel
					}
					if core.CallIs(x.Common(), inc) {
						analysed[in] = true
						if report {
							ok, detail = false, "IncConnNum inside FinishReq"
						}
					}
				case *ssa.Return:
					if report && s&tsCnt != 0 {
						ok = false
						detail = "a path leaves with the backend still counted"
					}
				}
				return s
			}
			refine := func(cond ssa.Value, pol bool, s uint32) uint32 {
				if core.Render(cond) == "("+holder+" != nil)" {
					if pol {
						return s &^ tsNil
					}
					return s & tsNil
				}
				return s
			}
			core.Typestate(f, tsNil|tsCnt, step, refine)
			return
		}
		var okAll bool
		var detail string
		// case 1: deferred closure dominating every return
		for _, d := range allInstrs(fn) {
			df, isDefer := d.(*ssa.Defer)
			if !isDefer {
				continue
			}
			mc, isClosure := df.Call.Value.(*ssa.MakeClosure)
			if !isClosure {
				continue
			}
			cl := mc.Fn.(*ssa.Function)
			sites, ok, det := released(cl)
			if sites == 0 {
				continue
			}
			c.Analysed(core.FuncKey(cl))
			noSkip := core.ReachAvoiding(fn, nil, func(x ssa.Instruction) bool { return x == d }, core.IsReturn) == nil
			okAll = ok && noSkip && sites == 1
			detail = det
			if !noSkip {
				detail = "a return of FinishReq is reachable before the releasing defer is registered"
			}
		}
		if !okAll && detail == "" {
			sites, ok, det := released(fn)
			okAll, detail = ok && sites == 1, det
			if sites == 0 {
				detail = "FinishReq contains no DecConnNum on request.Trans.Backend"
			}
		}
		c.Check("finish-release", "FinishReq", fn.Pos(), okAll, "FinishReq must release the counted backend exactly once on every path, guarded by request.Trans.Backend != nil: "+detail)
		// who may call FinishReq
		var callers []string
		for _, f := range c.P.SrcFuncs("") {
			for range core.Calls(f, "bfe_server.ReverseProxy.FinishReq") {
				callers = append(callers, core.FuncKey(f))
			}
		}
		sort.Strings(callers)
		c.Check("finish-callers", "FinishReq", fn.Pos(), len(callers) == 1 && callers[0] == "bfe_server.conn.serveRequest",
			"FinishReq must be called from exactly one site (bfe_server.conn.serveRequest) so that the release happens once per request; callers: "+strings.Join(callers, ", "))
		if sr := c.P.Func("bfe_server", "conn.serveRequest"); sr != nil {
			c.Analysed(core.FuncKey(sr))
			for _, sv := range core.Calls(sr, "bfe_server.ReverseProxy.ServeHTTP") {
				bad := core.MustPass(sr, sv, func(x ssa.Instruction) bool {
					ci, ok := x.(ssa.CallInstruction)
					return ok && core.CallIs(ci.Common(), "bfe_server.ReverseProxy.FinishReq")
				})
				c.Check("finish-after-serve", "conn.serveRequest", sv.Pos(), bad == nil, "a path from ReverseProxy.ServeHTTP to return skips FinishReq: a counted backend would never be released")
			}
			c.Min("finish-after-serve", 1)
		}
	}

	// ---- websocket / stream ---------------------------------------------
	for _, pkg := range []string{"bfe_websocket", "bfe_stream"} {
		fb := c.P.Func(pkg, "serverConn.findBackend")
		sv := c.P.Func(pkg, "serverConn.serve")
		if fb == nil || sv == nil {
			c.Missing(pkg + ".serverConn.findBackend/serve")
			continue
		}
		c.Analysed(core.FuncKey(fb), core.FuncKey(sv))
		// findBackend: candidate = result #0 of the balance handler call
		beIdx := -1
		res := fb.Signature.Results()
		for i := 0; i < res.Len(); i++ {
			if strings.HasSuffix(core.TypeStr(res.At(i).Type()), "backend.BfeBackend") {
				beIdx = i
			}
		}
		if beIdx < 0 {
			c.Missing(pkg + ".serverConn.findBackend backend result")
			continue
		}
		isCand := func(v ssa.Value) bool {
			ex, ok := core.StripConv(v).(*ssa.Extract)
			if !ok || ex.Index != 0 {
				return false
			}
			_, isCall := ex.Tuple.(*ssa.Call)
			return isCall && strings.HasSuffix(core.TypeStr(ex.Type()), "backend.BfeBackend")
		}
		ord := map[string]int{}
		key := func(fn, kind string) string {
			ord[fn+kind]++
			return fmt.Sprintf("%s.%s:%s#%d", pkg, fn, kind, ord[fn+kind])
		}
		step := func(in ssa.Instruction, s uint32, report bool) uint32 {
			chk := func(rule, kind string, ok bool, msg string) {
				if report {
					c.Check(rule, key("findBackend", kind), in.Pos(), ok, msg+"; state before: "+tsName(s))
				}
			}
			switch x := in.(type) {
			case *ssa.Extract:
				if isCand(x) {
					chk("ts-acquire", "select", s&tsCnt == 0, "a new backend is selected while the previous one is still counted (DecConnNum missing on the retry path)")
					return tsUnc
				}
			case ssa.CallInstruction:
				cc := x.Common()
				if core.CallIs(cc, inc) {
					analysed[in] = true
					chk("ts-inc", "inc", isCand(cc.Args[0]) && s == tsUnc, "IncConnNum must act once on the freshly selected backend")
					return tsCnt
				}
				if core.CallIs(cc, dec) {
					analysed[in] = true
					chk("ts-dec", "dec", isCand(cc.Args[0]) && s == tsCnt, "DecConnNum must act on the counted backend")
					return tsRel
				}
			case *ssa.Return:
				if len(x.Results) > beIdx {
					if k, ok := x.Results[beIdx].(*ssa.Const); ok && k.Value == nil {
						chk("ts-return", "return-nil", s&tsCnt == 0, "findBackend returns no backend while one is still counted")
					} else {
						chk("ts-return", "return-backend", isCand(x.Results[beIdx]) && s == tsCnt, "findBackend hands out a backend that is not counted exactly once")
					}
				}
			}
			return s
		}
		core.Typestate(fb, tsNil, step, nil)
		// serve: the backend returned by findBackend is released by a defer on the success path
		var fbCall *ssa.Call
		for _, ci := range core.Calls(sv, pkg+".serverConn.findBackend") {
			if call, ok := ci.(*ssa.Call); ok {
				fbCall = call
			}
		}
		if fbCall == nil {
			c.Missing(pkg + ".serverConn.serve: call of findBackend")
			continue
		}
		isRes := func(v ssa.Value, i int) bool {
			ex, ok := core.StripConv(v).(*ssa.Extract)
			return ok && ex.Tuple == fbCall && ex.Index == i
		}
		errIdx := res.Len() - 1
		stepS := func(in ssa.Instruction, s uint32, report bool) uint32 {
			chk := func(rule, kind string, ok bool, msg string) {
				if report {
					c.Check(rule, key("serve", kind), in.Pos(), ok, msg+"; state before: "+tsName(s))
				}
			}
			switch x := in.(type) {
			case *ssa.Call:
				if x == fbCall {
					return tsNil | tsCnt
				}
				if core.CallIs(&x.Call, dec) {
					analysed[in] = true
					chk("ts-dec", "dec", isRes(x.Call.Args[0], beIdx) && s == tsCnt, "DecConnNum must act once on the backend returned by findBackend")
					return tsRel
				}
				if core.CallIs(&x.Call, inc) {
					analysed[in] = true
					chk("ts-inc", "inc", false, "IncConnNum outside findBackend")
				}
			case *ssa.Defer:
				if core.CallIs(&x.Call, dec) {
					analysed[in] = true
					chk("ts-dec", "defer-dec", isRes(x.Call.Args[0], beIdx) && s == tsCnt, "deferred DecConnNum must act once on the backend returned by findBackend")
					return tsSched
				}
			case *ssa.Return:
				chk("ts-return", "return", s&tsCnt == 0, "serve returns while the backend handed out by findBackend is still counted and no release is deferred")
			}
			return s
		}
		refineS := func(cond ssa.Value, pol bool, s uint32) uint32 {
			b, ok := cond.(*ssa.BinOp)
			if !ok || !isRes(b.X, errIdx) {
				return s
			}
			if k, isK := b.Y.(*ssa.Const); !isK || k.Value != nil {
				return s
			}
			neq := b.Op.String() == "!="
			if neq == pol { // err != nil holds
				return s & tsNil
			}
			return s &^ tsNil
		}
		core.Typestate(sv, tsNil, stepS, refineS)
	}
	c.Min("ts-dec", 5)
	c.Min("ts-acquire", 2)

	// ---- census: every Inc/Dec call site in the module was analysed -------
	n := 0
	for _, f := range c.P.SrcFuncs("") {
		core.Instrs(f, func(in ssa.Instruction) {
			ci, ok := in.(ssa.CallInstruction)
			if !ok {
				return
			}
			var callee types.Object
			if sc := ci.Common().StaticCallee(); sc != nil {
				callee = sc.Object()
			}
			if callee != incObj && callee != decObj {
				return
			}
			n++
			c.Check("census", core.FuncKey(f)+":"+callee.Name(), in.Pos(), analysed[in],
				callee.Name()+" is called from a function whose pairing is not covered by a typestate rule; counter changes outside the analysed request paths cannot be certified")
		})
	}
	c.Min("census", 9)
	// method values (backend.IncConnNum passed as a func) would escape the census
	for _, f := range c.P.SrcFuncs("") {
		core.Instrs(f, func(in ssa.Instruction) {
			if mc, ok := in.(*ssa.MakeClosure); ok {
				if fn, ok := mc.Fn.(*ssa.Function); ok && (strings.HasSuffix(fn.Name(), "IncConnNum$bound") || strings.HasSuffix(fn.Name(), "DecConnNum$bound")) {
					c.Check("census", core.FuncKey(f)+":bound-method", in.Pos(), false, "IncConnNum/DecConnNum taken as a method value; calls through it are not tracked")
				}
			}
		})
	}
	// the counter field is written only by Inc/Dec (and construction)
	if fld, ok := c.P.Obj("bfe_balance/backend", "BfeBackend.connNum").(*types.Var); ok {
		for _, f := range c.P.SrcFuncs("") {
			core.Instrs(f, func(in ssa.Instruction) {
				fa, ok := in.(*ssa.FieldAddr)
				if !ok || core.FieldObj(fa.X, fa.Field) != fld {
					return
				}
				k := core.FuncKey(f)
				allowed := k == "bfe_balance/backend.BfeBackend.IncConnNum" || k == "bfe_balance/backend.BfeBackend.DecConnNum" || k == "bfe_balance/backend.BfeBackend.ConnNum"
				c.Check("counter-owner", k, in.Pos(), allowed, "BfeBackend.connNum is touched outside IncConnNum/DecConnNum/ConnNum")
			})
		}
		c.Min("counter-owner", 3)
	} else {
		c.Missing("bfe_balance/backend.BfeBackend.connNum")
	}
}
