package rules

// Robustness helpers of the C46/C47/C48/C55 rules: guards that survive named
// booleans (`ok := a && b; if ok`), negations and helper extraction; value flow
// through the parameters and results of private helpers.

import (
	"go/constant"
	"go/token"
	"go/types"
	"sync"

	"golang.org/x/tools/go/ssa"

	"verif/internal/core"
)

// nxProgs maps the SSA program of a running check to its core.Prog (the region
// and call-site helpers of core need it). The thorough tier runs the rules on
// several programs concurrently (overlay mutants), so this is not one global.
var nxProgs sync.Map // *ssa.Program -> *core.Prog

// nxEnter registers the program of a run; the returned function removes it.
func nxEnter(c *core.Ctx) func() {
	if c.P == nil || c.P.SSA == nil {
		return func() {}
	}
	nxProgs.Store(c.P.SSA, c.P)
	return func() { nxProgs.Delete(c.P.SSA) }
}

// nxProgOf returns the core.Prog that fn belongs to (nil when unknown).
func nxProgOf(fn *ssa.Function) *core.Prog {
	if fn == nil || fn.Prog == nil {
		return nil
	}
	if p, ok := nxProgs.Load(fn.Prog); ok {
		return p.(*core.Prog)
	}
	return nil
}

// nxMkGuard builds a derived guard (a fact implied by a branch condition).
func nxMkGuard(cond ssa.Value, pol bool, ifi *ssa.If) core.Guard {
	s := core.Render(cond)
	if !pol {
		s = "!" + s
	}
	return core.Guard{Cond: cond, Pol: pol, Str: s, If: ifi}
}

func nxBoolConst(v ssa.Value) (val, ok bool) {
	k, isK := v.(*ssa.Const)
	if !isK || k.Value == nil || k.Value.Kind() != constant.Bool {
		return false, false
	}
	return constant.BoolVal(k.Value), true
}

// nxExpand: what the guard g says about the operands of its condition, as a
// disjunction of alternatives; in each alternative all listed guards hold.
//
//	!x                      -> x with the opposite polarity
//	x == true, x != false … -> x
//	phi(e1@p1, e2@p2, …)    -> one alternative per incoming edge that can
//	                           carry the required truth value: the guards on
//	                           that edge plus the edge value itself
//	x & y (true), x | y (false) -> both operands
//
// ok is false when the condition has no such structure.
func nxExpand(g core.Guard) (alts [][]core.Guard, ok bool) {
	switch x := g.Cond.(type) {
	case *ssa.UnOp:
		if x.Op == token.NOT {
			return [][]core.Guard{{nxMkGuard(x.X, !g.Pol, g.If)}}, true
		}
	case *ssa.BinOp:
		switch x.Op {
		case token.EQL, token.NEQ:
			for _, pr := range [][2]ssa.Value{{x.X, x.Y}, {x.Y, x.X}} {
				if k, isK := nxBoolConst(pr[1]); isK {
					pol := g.Pol
					if x.Op == token.NEQ {
						pol = !pol
					}
					if !k {
						pol = !pol
					}
					return [][]core.Guard{{nxMkGuard(pr[0], pol, g.If)}}, true
				}
			}
		case token.AND, token.OR:
			if !nxIsBool(x.X) {
				return nil, false
			}
			if (x.Op == token.AND) == g.Pol {
				return [][]core.Guard{{nxMkGuard(x.X, g.Pol, g.If), nxMkGuard(x.Y, g.Pol, g.If)}}, true
			}
			return [][]core.Guard{{nxMkGuard(x.X, g.Pol, g.If)}, {nxMkGuard(x.Y, g.Pol, g.If)}}, true
		}
	case *ssa.Phi:
		if !nxIsBool(x) {
			return nil, false
		}
		for i, e := range x.Edges {
			if i >= len(x.Block().Preds) {
				return nil, false
			}
			pred := x.Block().Preds[i]
			alt := core.GuardsOnEdge(pred, x.Block())
			if k, isK := nxBoolConst(e); isK {
				if k != g.Pol {
					continue // this edge cannot produce the value
				}
			} else {
				alt = append(alt, nxMkGuard(e, g.Pol, g.If))
			}
			alts = append(alts, alt)
		}
		return alts, len(alts) > 0
	}
	return nil, false
}

func nxIsBool(v ssa.Value) bool {
	b, ok := v.Type().Underlying().(*types.Basic)
	return ok && b.Info()&types.IsBoolean != 0
}

// nxImplies: the fact accepted by match follows from guard g (directly, or in
// every alternative of its expansion).
func nxImplies(g core.Guard, match func(core.Guard) bool, depth int) bool {
	if match(g) {
		return true
	}
	if depth <= 0 {
		return false
	}
	alts, ok := nxExpand(g)
	if !ok || len(alts) == 0 {
		return false
	}
	for _, alt := range alts {
		if !nxAnyImplies(alt, match, depth-1) {
			return false
		}
	}
	return true
}

func nxAnyImplies(gs []core.Guard, match func(core.Guard) bool, depth int) bool {
	for _, g := range gs {
		if nxImplies(g, match, depth) {
			return true
		}
	}
	return false
}

// nxGuardsCtx: the guards at b, plus those at the single call site of b's
// function when that is a private helper (region.go).
func nxGuardsCtx(b *ssa.BasicBlock) []core.Guard {
	if p := nxProgOf(b.Parent()); p != nil {
		return p.GuardsAtCtx(b)
	}
	return core.GuardsAt(b)
}

// nxHolds: every way of reaching b establishes a fact accepted by match. It
// generalises core.HasGuard / core.AllEdgesGuarded: named booleans, negations,
// `a || b` entered over several edges, guards at the call site of a private
// helper.
func nxHolds(b *ssa.BasicBlock, match func(core.Guard) bool) bool {
	if nxAnyImplies(nxGuardsCtx(b), match, 4) {
		return true
	}
	if len(b.Preds) < 2 {
		return false
	}
	for _, p := range b.Preds {
		if !nxAnyImplies(core.GuardsOnEdge(p, b), match, 4) {
			return false
		}
	}
	return true
}

// nxFacts flattens the guards at b into the facts that hold on every path:
// the guards themselves plus the members of single-alternative expansions.
func nxFacts(b *ssa.BasicBlock) []core.Guard {
	var out []core.Guard
	var add func(g core.Guard, d int)
	add = func(g core.Guard, d int) {
		out = append(out, g)
		if d <= 0 {
			return
		}
		if alts, ok := nxExpand(g); ok && len(alts) == 1 {
			for _, x := range alts[0] {
				add(x, d-1)
			}
		}
	}
	for _, g := range nxGuardsCtx(b) {
		add(g, 4)
	}
	return out
}

// nxPrivate: fn is an unexported function or method of the module with a body
// whose call sites are all static (its parameters are exactly the arguments at
// those sites).
func nxPrivate(fn *ssa.Function) bool {
	p := nxProgOf(fn)
	if fn == nil || fn.Blocks == nil || p == nil || fn.Parent() != nil {
		return false
	}
	if fn.Object() == nil || fn.Object().Exported() {
		return false
	}
	return len(p.CallSites(fn)) > 0
}

// nxParamArgs: the values bound to parameter p at the static call sites of its
// (private) function; nil when the function is not private.
func nxParamArgs(p *ssa.Parameter) []ssa.Value {
	fn := p.Parent()
	if !nxPrivate(fn) {
		return nil
	}
	idx := -1
	for i, q := range fn.Params {
		if q == p {
			idx = i
		}
	}
	if idx < 0 {
		return nil
	}
	var out []ssa.Value
	for _, s := range nxProgOf(fn).CallSites(fn) {
		cc := s.Common()
		if cc.IsInvoke() || idx >= len(cc.Args) {
			return nil
		}
		out = append(out, cc.Args[idx])
	}
	return out
}

// nxResultVals: the values a private helper returns as result i.
func nxResultVals(call *ssa.Call, i int) []ssa.Value {
	h := call.Call.StaticCallee()
	if h == nil || h.Blocks == nil || h.Object() == nil || h.Object().Exported() {
		return nil
	}
	var out []ssa.Value
	for _, r := range core.Returns(h) {
		rv := core.RetVals(r)
		if i < len(rv) {
			out = append(out, rv[i])
		}
	}
	return out
}

// nxArgOf: when v (through conversions) is parameter i of a private helper
// with exactly one call site, the argument at that site; otherwise v.
func nxArgOf(v ssa.Value) ssa.Value {
	for d := 0; d < 4; d++ {
		p, ok := core.StripConv(v).(*ssa.Parameter)
		if !ok {
			return v
		}
		args := nxParamArgs(p)
		if len(args) != 1 {
			return v
		}
		v = args[0]
	}
	return v
}

// nxRegion: fn's region (fn, private helpers, closures); fn alone without a program.
func nxRegion(fn *ssa.Function) []*ssa.Function {
	p := nxProgOf(fn)
	if p == nil {
		return core.WithClosures(fn)
	}
	return p.Region(fn)
}

// nxRegionInstrs: the instructions of every function of fn's region.
func nxRegionInstrs(fn *ssa.Function) []ssa.Instruction {
	var out []ssa.Instruction
	for _, g := range nxRegion(fn) {
		out = append(out, allInstrs(g)...)
	}
	return out
}

// nxLiftMay lifts a may-happen event over the private helpers of fn: a call of
// a function of fn's region (not fn itself) that may execute the event is the
// event. Calls of other functions are not looked into (they are what the rule's
// own callee list names).
func nxLiftMay(fn *ssa.Function, pred func(ssa.Instruction) bool) func(ssa.Instruction) bool {
	return nxLiftMayD(fn, pred, 3)
}

func nxLiftMayD(fn *ssa.Function, pred func(ssa.Instruction) bool, depth int) func(ssa.Instruction) bool {
	var helpers map[*ssa.Function]bool
	return func(in ssa.Instruction) bool {
		if pred(in) {
			return true
		}
		ci, ok := in.(ssa.CallInstruction)
		if !ok {
			return false
		}
		h := ci.Common().StaticCallee()
		if h == nil || h.Blocks == nil || h == fn || depth <= 0 {
			return false
		}
		if helpers == nil {
			helpers = map[*ssa.Function]bool{}
			for _, g := range nxRegion(fn) {
				if g != fn && g.Parent() == nil {
					helpers[g] = true
				}
			}
		}
		if !helpers[h] {
			return false
		}
		inner := nxLiftMayD(fn, pred, depth-1)
		found := false
		for _, g := range core.WithClosures(h) {
			core.Instrs(g, func(x ssa.Instruction) {
				if !found && x != in && inner(x) {
					found = true
				}
			})
		}
		return found
	}
}

// nxLiftMust lifts a must-pass witness over the private helpers of fn: a call
// of a region helper on whose every path the witness is passed is a witness.
func nxLiftMust(fn *ssa.Function, pred func(ssa.Instruction) bool) func(ssa.Instruction) bool {
	var helpers map[*ssa.Function]bool
	return func(in ssa.Instruction) bool {
		if pred(in) {
			return true
		}
		ci, ok := in.(ssa.CallInstruction)
		if !ok {
			return false
		}
		if _, isGo := in.(*ssa.Go); isGo {
			return false
		}
		h := ci.Common().StaticCallee()
		if h == nil || h.Blocks == nil || h == fn {
			return false
		}
		if helpers == nil {
			helpers = map[*ssa.Function]bool{}
			for _, g := range nxRegion(fn) {
				if g != fn && g.Parent() == nil {
					helpers[g] = true
				}
			}
		}
		return helpers[h] && core.AlwaysPasses(h, pred, 2)
	}
}

// nxConstResult: v is an integer constant, or the result of a private helper
// all of whose returns yield the same integer constant.
func nxConstResult(v ssa.Value) (int64, bool) {
	if k, ok := nxConstInt(v); ok {
		return k, true
	}
	call, i := nxCallResult(v)
	if call == nil {
		return 0, false
	}
	vals := nxResultVals(call, i)
	if len(vals) == 0 {
		return 0, false
	}
	var k0 int64
	for j, rv := range vals {
		k, ok := nxConstInt(rv)
		if !ok || (j > 0 && k != k0) {
			return 0, false
		}
		k0 = k
	}
	return k0, true
}

// nxSiteIn: the instruction of fn at which in is executed: in itself, or the
// (single) call site in fn's region of the private helper in belongs to.
func nxSiteIn(fn *ssa.Function, in ssa.Instruction) ssa.Instruction {
	for d := 0; d < 4 && in != nil && in.Parent() != fn; d++ {
		p := nxProgOf(fn)
		if p == nil {
			return nil
		}
		sites := p.CallSites(in.Parent())
		if len(sites) != 1 {
			return nil
		}
		in = sites[0].(ssa.Instruction)
	}
	if in == nil || in.Parent() != fn {
		return nil
	}
	return in
}

// nxDominatesIn: a is executed before b on every path reaching b, where a and
// b belong to fn or to private helpers called once from it.
func nxDominatesIn(fn *ssa.Function, a, b ssa.Instruction) bool {
	if a.Parent() == b.Parent() {
		return core.Dominates(a, b)
	}
	sa, sb := nxSiteIn(fn, a), nxSiteIn(fn, b)
	if sa == nil || sb == nil || sa == sb {
		return false
	}
	return core.Dominates(sa, sb)
}

// nxReturnedBy: the value v of function h is returned by h and, when h is a
// helper of fn, the helper's result is in turn returned by its caller, up to fn.
func nxReturnedBy(fn, h *ssa.Function, v ssa.Value, depth int) bool {
	idx := -1
	for _, r := range core.Returns(h) {
		for i, rv := range core.RetVals(r) {
			if rv == v {
				idx = i
			}
		}
	}
	if idx < 0 {
		return false
	}
	if h == fn {
		return true
	}
	p := nxProgOf(fn)
	if p == nil || depth <= 0 {
		return false
	}
	sites := p.CallSites(h)
	if len(sites) == 0 {
		return false
	}
	for _, s := range sites {
		call, ok := s.(*ssa.Call)
		if !ok {
			return false
		}
		var res ssa.Value = call
		if call.Call.Signature().Results().Len() > 1 {
			res = nil
			if call.Referrers() != nil {
				for _, ref := range *call.Referrers() {
					if ex, isEx := ref.(*ssa.Extract); isEx && ex.Index == idx {
						res = ex
					}
				}
			}
		}
		if res == nil || !nxReturnedBy(fn, call.Parent(), res, depth-1) {
			return false
		}
	}
	return true
}
