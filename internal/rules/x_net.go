package rules

// Shared helpers of the C46/C47/C48/C55 rules (prefix nx to avoid clashes).

import (
	"fmt"
	"go/constant"
	"go/token"
	"go/types"
	"sort"
	"strings"

	"golang.org/x/tools/go/ssa"

	"verif/internal/core"
)

// nxBlockReach: starting at the first instruction of b, is there a path to an
// instruction satisfying target that does not first execute an instruction
// satisfying avoid? Returns the first such target.
func nxBlockReach(b *ssa.BasicBlock, avoid, target func(ssa.Instruction) bool) ssa.Instruction {
	seen := map[*ssa.BasicBlock]bool{b: true}
	work := []*ssa.BasicBlock{b}
	for len(work) > 0 {
		x := work[len(work)-1]
		work = work[:len(work)-1]
		stop := false
		for _, in := range x.Instrs {
			if target(in) {
				return in
			}
			if avoid != nil && avoid(in) {
				stop = true
				break
			}
		}
		if stop {
			continue
		}
		for _, s := range x.Succs {
			if !seen[s] {
				seen[s] = true
				work = append(work, s)
			}
		}
	}
	return nil
}

// nxAllPathsPass: every path from the entry of fn to instruction `to` executes
// an instruction satisfying via first.
func nxAllPathsPass(fn *ssa.Function, to ssa.Instruction, via func(ssa.Instruction) bool) bool {
	return core.ReachAvoiding(fn, nil, via, func(in ssa.Instruction) bool { return in == to }) == nil
}

// nxIsCall reports whether in is a call/go/defer of one of the named callees.
func nxIsCall(in ssa.Instruction, names ...string) bool {
	c, ok := in.(ssa.CallInstruction)
	return ok && core.CallIs(c.Common(), names...)
}

// nxConstInt returns the integer constant value of v (through conversions).
func nxConstInt(v ssa.Value) (int64, bool) {
	k, ok := core.StripConv(v).(*ssa.Const)
	if !ok || k.Value == nil || k.Value.Kind() != constant.Int {
		return 0, false
	}
	i, exact := constant.Int64Val(k.Value)
	return i, exact
}

// nxConstOf returns the value of a package-level constant as int64.
func nxConstOf(c *core.Ctx, pkg, name string) (int64, bool) {
	k, ok := c.P.Obj(pkg, name).(*types.Const)
	if !ok || k.Val().Kind() != constant.Int {
		return 0, false
	}
	i, exact := constant.Int64Val(k.Val())
	return i, exact
}

// nxLeaf is one non-phi value reaching a phi web, with the block the edge comes from.
type nxLeaf struct {
	V    ssa.Value
	From *ssa.BasicBlock // predecessor block of the phi edge (nil when v was not a phi)
	To   *ssa.BasicBlock // block of the phi the edge enters
}

// nxPhiLeaves flattens a phi web into its non-phi leaves.
func nxPhiLeaves(v ssa.Value) []nxLeaf {
	var out []nxLeaf
	seen := map[ssa.Value]bool{}
	var walk func(v ssa.Value, from, to *ssa.BasicBlock)
	walk = func(v ssa.Value, from, to *ssa.BasicBlock) {
		if phi, ok := v.(*ssa.Phi); ok {
			if seen[phi] {
				return
			}
			seen[phi] = true
			for i, e := range phi.Edges {
				walk(e, phi.Block().Preds[i], phi.Block())
			}
			return
		}
		out = append(out, nxLeaf{v, from, to})
	}
	walk(v, nil, nil)
	return out
}

// nxFlows walks the backward data slice of v (operands, phi edges, call
// arguments, stores into local allocations and their element/field addresses,
// closure bindings of free variables) and reports whether some visited value
// satisfies hit. stop, when non-nil, prunes the walk below a value.
func nxFlows(v ssa.Value, hit func(ssa.Value) bool, stop func(ssa.Value) bool) bool {
	seen := map[ssa.Value]bool{}
	var walk func(v ssa.Value, d int) bool
	walk = func(v ssa.Value, d int) bool {
		if v == nil || seen[v] || d > 40 {
			return false
		}
		seen[v] = true
		if hit(v) {
			return true
		}
		if stop != nil && stop(v) {
			return false
		}
		switch x := v.(type) {
		case *ssa.Alloc:
			// values stored into the allocation or into parts of it
			if x.Referrers() != nil {
				for _, r := range *x.Referrers() {
					switch y := r.(type) {
					case *ssa.Store:
						if y.Addr == x && walk(y.Val, d+1) {
							return true
						}
					case *ssa.IndexAddr:
						if nxStoresInto(y, func(val ssa.Value) bool { return walk(val, d+1) }) {
							return true
						}
					case *ssa.FieldAddr:
						if nxStoresInto(y, func(val ssa.Value) bool { return walk(val, d+1) }) {
							return true
						}
					}
				}
			}
			return false
		case *ssa.FreeVar:
			if b := nxBinding(x); b != nil {
				return walk(b, d+1)
			}
			return false
		case *ssa.Parameter:
			// a private helper's parameter is the argument at its call sites
			for _, a := range nxParamArgs(x) {
				if walk(a, d+1) {
					return true
				}
			}
			return false
		case *ssa.Call:
			// a private helper's result is what it returns
			if n := x.Call.Signature().Results().Len(); n > 0 {
				for i := 0; i < n; i++ {
					for _, rv := range nxResultVals(x, i) {
						if walk(rv, d+1) {
							return true
						}
					}
				}
			}
		}
		if in, ok := v.(ssa.Instruction); ok {
			for _, op := range in.Operands(nil) {
				if op != nil && *op != nil && walk(*op, d+1) {
					return true
				}
			}
		}
		return false
	}
	return walk(v, 0)
}

func nxStoresInto(addr ssa.Value, f func(ssa.Value) bool) bool {
	refs := addr.Referrers()
	if refs == nil {
		return false
	}
	for _, r := range *refs {
		if st, ok := r.(*ssa.Store); ok && st.Addr == addr && f(st.Val) {
			return true
		}
	}
	return false
}

// nxBinding returns the value bound to free variable fv at the (unique)
// MakeClosure of its function in the parent, or nil.
func nxBinding(fv *ssa.FreeVar) ssa.Value {
	fn := fv.Parent()
	if fn == nil || fn.Parent() == nil {
		return nil
	}
	idx := -1
	for i, f := range fn.FreeVars {
		if f == fv {
			idx = i
		}
	}
	if idx < 0 {
		return nil
	}
	var found ssa.Value
	n := 0
	core.Instrs(fn.Parent(), func(in ssa.Instruction) {
		if mc, ok := in.(*ssa.MakeClosure); ok && mc.Fn == fn && idx < len(mc.Bindings) {
			found = mc.Bindings[idx]
			n++
		}
	})
	if n == 1 {
		return found
	}
	return nil
}

// nxOrigin resolves a value to where it comes from, looking through loads of
// single-store local cells and free variables bound to such cells: the
// rendered access path of the stored value (e.g. "sc.errCh").
func nxOrigin(v ssa.Value) string {
	for i := 0; i < 8; i++ {
		switch x := v.(type) {
		case *ssa.UnOp:
			if x.Op != token.MUL {
				return core.Render(v)
			}
			switch a := x.X.(type) {
			case *ssa.FreeVar:
				if b := nxBinding(a); b != nil {
					if al, ok := b.(*ssa.Alloc); ok {
						if s := nxSingleStore(al); s != nil {
							v = s
							continue
						}
					}
					return nxOriginAddr(b)
				}
				return core.Render(v)
			case *ssa.Alloc:
				if s := nxSingleStore(a); s != nil {
					v = s
					continue
				}
				return core.Render(v)
			case *ssa.FieldAddr:
				return nxOriginAddr(a)
			}
			return core.Render(v)
		case *ssa.FreeVar:
			if b := nxBinding(x); b != nil {
				v = b
				continue
			}
			return core.Render(v)
		case *ssa.ChangeType, *ssa.ChangeInterface, *ssa.MakeInterface:
			v = core.StripConv(v)
			continue
		}
		return core.Render(v)
	}
	return core.Render(v)
}

// nxOriginAddr renders an address expression whose root may be a free
// variable or a spilled cell ("sc.bconn" for &(*sc).bconn inside a closure).
func nxOriginAddr(v ssa.Value) string {
	switch x := v.(type) {
	case *ssa.FieldAddr:
		name := "?"
		if f := core.FieldObj(x.X, x.Field); f != nil {
			name = f.Name()
		}
		return nxOrigin(x.X) + "." + name
	case *ssa.Alloc:
		if s := nxSingleStore(x); s != nil {
			return nxOrigin(s)
		}
	}
	return nxOrigin(v)
}

// nxSingleStore: the value of the only store into a local cell, or nil.
func nxSingleStore(a *ssa.Alloc) ssa.Value {
	if a.Referrers() == nil {
		return nil
	}
	var val ssa.Value
	n := 0
	for _, r := range *a.Referrers() {
		if st, ok := r.(*ssa.Store); ok && st.Addr == a {
			val = st.Val
			n++
		}
	}
	if n == 1 {
		return val
	}
	return nil
}

// nxCmp normalises a branch condition taken with polarity pol into
// "x op c" with an integer constant on the right. ok is false for anything
// else.
func nxCmp(cond ssa.Value, pol bool) (x ssa.Value, op token.Token, c int64, ok bool) {
	b, isBin := cond.(*ssa.BinOp)
	if !isBin {
		return nil, 0, 0, false
	}
	op = b.Op
	switch op {
	case token.LSS, token.LEQ, token.GTR, token.GEQ, token.EQL, token.NEQ:
	default:
		return nil, 0, 0, false
	}
	if k, isK := nxConstInt(b.Y); isK {
		x, c = b.X, k
	} else if k, isK := nxConstInt(b.X); isK {
		x, c = b.Y, k
		switch op { // c op x  ==>  x op' c
		case token.LSS:
			op = token.GTR
		case token.LEQ:
			op = token.GEQ
		case token.GTR:
			op = token.LSS
		case token.GEQ:
			op = token.LEQ
		}
	} else {
		return nil, 0, 0, false
	}
	if !pol {
		switch op {
		case token.LSS:
			op = token.GEQ
		case token.LEQ:
			op = token.GTR
		case token.GTR:
			op = token.LEQ
		case token.GEQ:
			op = token.LSS
		case token.EQL:
			op = token.NEQ
		case token.NEQ:
			op = token.EQL
		}
	}
	return x, op, c, true
}

// nxUpper: the edge (cond, pol) implies x <= ub for a value accepted by same.
func nxUpper(cond ssa.Value, pol bool, same func(ssa.Value) bool) (int64, bool) {
	x, op, c, ok := nxCmp(cond, pol)
	if !ok || !same(x) {
		return 0, false
	}
	switch op {
	case token.LSS:
		return c - 1, true
	case token.LEQ, token.EQL:
		return c, true
	}
	return 0, false
}

// nxLower: the edge (cond, pol) implies x >= lb.
func nxLower(cond ssa.Value, pol bool, same func(ssa.Value) bool) (int64, bool) {
	x, op, c, ok := nxCmp(cond, pol)
	if !ok || !same(x) {
		return 0, false
	}
	switch op {
	case token.GTR:
		return c + 1, true
	case token.GEQ, token.EQL:
		return c, true
	}
	return 0, false
}

// nxSameVal: identical SSA value, or the same pure expression (len/cap of the
// same access path, conversions), compared as rendered.
func nxSameVal(a, b ssa.Value) bool {
	a, b = core.StripConv(a), core.StripConv(b)
	if a == b {
		return true
	}
	if !nxPure(a) || !nxPure(b) {
		return false
	}
	return core.Render(a) == core.Render(b)
}

func nxPure(v ssa.Value) bool {
	switch x := v.(type) {
	case *ssa.Parameter, *ssa.Const, *ssa.FreeVar:
		return true
	case *ssa.Call:
		if b, ok := x.Call.Value.(*ssa.Builtin); ok && (b.Name() == "len" || b.Name() == "cap") {
			return nxPure(core.StripConv(x.Call.Args[0]))
		}
		return false
	case *ssa.Convert:
		return nxPure(x.X)
	case *ssa.ChangeType:
		return nxPure(x.X)
	case *ssa.Phi, *ssa.Extract:
		return true // compared by identity through Render only when names agree; callers use it for locals
	}
	return false
}

// nxClamped: every phi leaf of v is a constant <= limit, or enters the phi
// over an edge (or, for a non-phi, sits in a block `at`) on which an upper
// bound <= limit of that very value was established by a comparison.
func nxClamped(v ssa.Value, at *ssa.BasicBlock, limit int64) bool {
	for _, l := range nxPhiLeaves(v) {
		if k, ok := nxConstInt(l.V); ok {
			if k > limit {
				return false
			}
			continue
		}
		var gs []core.Guard
		if l.From != nil {
			gs = core.GuardsOnEdge(l.From, l.To)
		} else if at != nil {
			gs = core.GuardsAt(at)
		}
		ok := false
		for _, g := range gs {
			if ub, isUb := nxUpper(g.Cond, g.Pol, func(x ssa.Value) bool { return nxSameVal(x, l.V) }); isUb && ub <= limit {
				ok = true
			}
		}
		if !ok {
			return false
		}
	}
	return true
}

// nxIsLen reports whether v is len(x) and returns x.
func nxIsLen(v ssa.Value) (ssa.Value, bool) {
	call, ok := core.StripConv(v).(*ssa.Call)
	if !ok {
		return nil, false
	}
	if b, ok := call.Call.Value.(*ssa.Builtin); ok && b.Name() == "len" && len(call.Call.Args) == 1 {
		return call.Call.Args[0], true
	}
	return nil, false
}

// nxEnumPaths enumerates paths starting at block start (entered from pred,
// which may be nil) to every exit, visiting each block at most maxVisit times
// per path. Branches decidable from constants flowing through phis along the
// path, or from the assume callback, are pruned. Returns false when more than
// limit paths exist (callers treat that as undecided).
func nxEnumPaths(start, pred *ssa.BasicBlock, maxVisit, limit int,
	assume func(cond ssa.Value) (val, known bool), f func(p *core.Path)) bool {
	n := 0
	complete := true
	visits := map[*ssa.BasicBlock]int{}
	var blocks []*ssa.BasicBlock
	env := map[ssa.Value]constant.Value{}
	var walk func(b, pred *ssa.BasicBlock)
	walk = func(b, pred *ssa.BasicBlock) {
		if !complete || visits[b] >= maxVisit {
			return
		}
		visits[b]++
		blocks = append(blocks, b)
		type saved struct {
			v   ssa.Value
			old constant.Value
			had bool
		}
		var undo []saved
		if pred != nil {
			pi := -1
			for i, p := range b.Preds {
				if p == pred {
					pi = i
				}
			}
			type nv struct {
				v   ssa.Value
				val constant.Value
			}
			var news []nv
			for _, in := range b.Instrs {
				phi, ok := in.(*ssa.Phi)
				if !ok {
					break
				}
				old, had := env[phi]
				undo = append(undo, saved{phi, old, had})
				var val constant.Value
				if pi >= 0 {
					val = nxEvalA(phi.Edges[pi], env, assume)
				}
				news = append(news, nv{phi, val})
			}
			for _, x := range news {
				if x.val != nil {
					env[x.v] = x.val
				} else {
					delete(env, x.v)
				}
			}
		}
		last := b.Instrs[len(b.Instrs)-1]
		switch x := last.(type) {
		case *ssa.Return, *ssa.Panic:
			n++
			if n > limit {
				complete = false
			} else {
				f(&core.Path{Blocks: append([]*ssa.BasicBlock(nil), blocks...)})
			}
		case *ssa.If:
			cv := nxEvalA(x.Cond, env, assume)
			known, val := false, false
			if cv != nil && cv.Kind() == constant.Bool {
				known, val = true, constant.BoolVal(cv)
			}
			for i, s := range b.Succs {
				if known && val != (i == 0) {
					continue
				}
				walk(s, b)
			}
		default:
			for _, s := range b.Succs {
				walk(s, b)
			}
		}
		for i := len(undo) - 1; i >= 0; i-- {
			if undo[i].had {
				env[undo[i].v] = undo[i].old
			} else {
				delete(env, undo[i].v)
			}
		}
		blocks = blocks[:len(blocks)-1]
		visits[b]--
	}
	walk(start, pred)
	return complete
}

func nxEval(v ssa.Value, env map[ssa.Value]constant.Value) constant.Value {
	return nxEvalA(v, env, nil)
}

// nxEvalA evaluates v from constants, the phi values chosen along the path and
// the caller's assumptions about conditions (also when the condition is
// computed into a named boolean before it is branched on).
func nxEvalA(v ssa.Value, env map[ssa.Value]constant.Value, assume func(cond ssa.Value) (val, known bool)) constant.Value {
	if assume != nil {
		if _, isK := v.(*ssa.Const); !isK && nxIsBool(v) {
			if val, known := assume(v); known {
				return constant.MakeBool(val)
			}
		}
	}
	switch x := v.(type) {
	case *ssa.Const:
		if x.Value != nil && (x.Value.Kind() == constant.Bool || x.Value.Kind() == constant.Int) {
			return x.Value
		}
	case *ssa.Phi:
		if c, ok := env[x]; ok {
			return c
		}
	case *ssa.UnOp:
		if x.Op == token.NOT {
			if c := nxEvalA(x.X, env, assume); c != nil && c.Kind() == constant.Bool {
				return constant.MakeBool(!constant.BoolVal(c))
			}
		}
	case *ssa.BinOp:
		a, b := nxEvalA(x.X, env, assume), nxEvalA(x.Y, env, assume)
		if a != nil && b != nil && a.Kind() == b.Kind() {
			switch x.Op {
			case token.EQL, token.NEQ, token.LSS, token.LEQ, token.GTR, token.GEQ:
				if a.Kind() == constant.Bool {
					if x.Op == token.EQL {
						return constant.MakeBool(constant.BoolVal(a) == constant.BoolVal(b))
					}
					if x.Op == token.NEQ {
						return constant.MakeBool(constant.BoolVal(a) != constant.BoolVal(b))
					}
					return nil
				}
				return constant.MakeBool(constant.Compare(a, x.Op, b))
			}
		}
	}
	return nil
}

// nxPathVal resolves v through phis along path p (a phi takes the edge of the
// block that precedes the last occurrence of its block on the path).
func nxPathVal(p *core.Path, v ssa.Value) ssa.Value {
	for i := 0; i < 32; i++ {
		phi, ok := v.(*ssa.Phi)
		if !ok {
			return v
		}
		at := -1
		for j := len(p.Blocks) - 1; j >= 0; j-- {
			if p.Blocks[j] == phi.Block() {
				at = j
				break
			}
		}
		if at <= 0 {
			return v
		}
		pred := p.Blocks[at-1]
		found := false
		for k, pb := range phi.Block().Preds {
			if pb == pred {
				v = phi.Edges[k]
				found = true
				break
			}
		}
		if !found {
			return v
		}
		// continue resolving in the prefix of the path
		p = &core.Path{Blocks: p.Blocks[:at]}
	}
	return v
}

// nxPathIndex: position of instruction in on path p as (block index, instr index); -1 if absent.
func nxPathIndex(p *core.Path, pred func(ssa.Instruction) bool) int {
	n := 0
	for _, b := range p.Blocks {
		for _, in := range b.Instrs {
			if pred(in) {
				return n
			}
			n++
		}
	}
	return -1
}

// nxGuardNilErr: at block b it is established that the error value err is nil.
func nxGuardNilErr(b *ssa.BasicBlock, err ssa.Value) bool {
	return nxHolds(b, func(g core.Guard) bool { return nxCondErrNil(g.Cond, g.Pol, err) })
}

// nxCondErrNil: the edge (cond, pol) establishes err == nil.
func nxCondErrNil(cond ssa.Value, pol bool, err ssa.Value) bool {
	bo, ok := cond.(*ssa.BinOp)
	if !ok {
		return false
	}
	var other ssa.Value
	if bo.X == err {
		other = bo.Y
	} else if bo.Y == err {
		other = bo.X
	} else {
		return false
	}
	if !isNilConst(other) {
		return false
	}
	return (bo.Op == token.NEQ && !pol) || (bo.Op == token.EQL && pol)
}

// nxCallResult returns the call instruction that v is (a result of), and the result index.
func nxCallResult(v ssa.Value) (*ssa.Call, int) {
	v = core.StripConv(v)
	if ex, ok := v.(*ssa.Extract); ok {
		if call, ok := ex.Tuple.(*ssa.Call); ok {
			return call, ex.Index
		}
		return nil, -1
	}
	if call, ok := v.(*ssa.Call); ok {
		return call, 0
	}
	return nil, -1
}

// nxOrdinals numbers the call sites of fn per callee key in block order.
func nxOrdinals(fn *ssa.Function) map[ssa.Instruction]string {
	out := map[ssa.Instruction]string{}
	cnt := map[string]int{}
	core.Instrs(fn, func(in ssa.Instruction) {
		if c, ok := in.(ssa.CallInstruction); ok {
			k := strings.TrimPrefix(core.CalleeKey(c.Common()), "invoke:")
			out[in] = fmt.Sprintf("%s#%d", k, cnt[k])
			cnt[k]++
		}
	})
	return out
}

// nxShort strips the package path from a function key ("bfe_proxy.Conn.Read" -> "Conn.Read").
func nxShort(fn *ssa.Function) string {
	k := core.FuncKey(fn)
	if i := strings.LastIndex(k, "/"); i >= 0 {
		k = k[i+1:]
	}
	if i := strings.Index(k, "."); i >= 0 {
		k = k[i+1:]
	}
	return k
}

// nxFieldVar resolves a struct field object.
func nxFieldVar(c *core.Ctx, pkg, name string) *types.Var {
	v, _ := c.P.Obj(pkg, name).(*types.Var)
	if v == nil {
		c.Missing(pkg + "." + name)
	}
	return v
}

// nxIsFieldAddr: v addresses (or loads) the given field.
func nxIsFieldAddr(v ssa.Value, fld *types.Var) bool {
	if u, ok := v.(*ssa.UnOp); ok && u.Op == token.MUL {
		v = u.X
	}
	fa, ok := v.(*ssa.FieldAddr)
	return ok && fld != nil && core.FieldObj(fa.X, fa.Field) == fld
}

// nxLoadsField: v (through conversions) is a load of the given field.
func nxLoadsField(v ssa.Value, fld *types.Var) bool {
	u, ok := core.StripConv(v).(*ssa.UnOp)
	if !ok || u.Op != token.MUL {
		return false
	}
	return nxIsFieldAddr(u.X, fld)
}

// nxWriters lists the functions (keys) that store to field fld anywhere in the module.
func nxWriters(c *core.Ctx, fld *types.Var, scope ...string) []string {
	set := map[string]bool{}
	for _, st := range core.FieldStores(c.P.SrcFuncs(scope...), fld) {
		set[core.FuncKey(st.Fn)] = true
	}
	var out []string
	for k := range set {
		out = append(out, k)
	}
	sort.Strings(out)
	return out
}

// nxGlobalInit returns the constant stored into a package-level variable by
// the package initialiser (var x = uint16(12)).
func nxGlobalInit(c *core.Ctx, pkg, name string) (int64, bool) {
	sp := c.P.SPkg[pkg]
	if sp == nil {
		return 0, false
	}
	g, _ := sp.Members[name].(*ssa.Global)
	init := sp.Func("init")
	if g == nil || init == nil {
		return 0, false
	}
	var val int64
	n := 0
	core.Instrs(init, func(in ssa.Instruction) {
		if st, ok := in.(*ssa.Store); ok && st.Addr == g {
			if k, ok := nxConstInt(st.Val); ok {
				val = k
				n++
			} else {
				n += 2
			}
		}
	})
	return val, n == 1
}

// nxGlobalBytes returns the byte values of a package-level []byte variable
// initialised by a composite literal of constants.
func nxGlobalBytes(c *core.Ctx, pkg, name string) ([]byte, bool) {
	sp := c.P.SPkg[pkg]
	if sp == nil {
		return nil, false
	}
	g, _ := sp.Members[name].(*ssa.Global)
	init := sp.Func("init")
	if g == nil || init == nil {
		return nil, false
	}
	var arr *ssa.Alloc
	core.Instrs(init, func(in ssa.Instruction) {
		if st, ok := in.(*ssa.Store); ok && st.Addr == g {
			if sl, ok := st.Val.(*ssa.Slice); ok {
				arr, _ = sl.X.(*ssa.Alloc)
			}
		}
	})
	if arr == nil || arr.Referrers() == nil {
		return nil, false
	}
	at, ok := arr.Type().Underlying().(*types.Pointer).Elem().Underlying().(*types.Array)
	if !ok {
		return nil, false
	}
	out := make([]byte, at.Len())
	set := 0
	for _, r := range *arr.Referrers() {
		ia, ok := r.(*ssa.IndexAddr)
		if !ok {
			continue
		}
		i, ok := nxConstInt(ia.Index)
		if !ok || i < 0 || i >= at.Len() {
			return nil, false
		}
		nxStoresInto(ia, func(v ssa.Value) bool {
			if k, ok := nxConstInt(v); ok {
				out[i] = byte(k)
				set++
			}
			return false
		})
	}
	return out, set == len(out)
}

// nxFuncOrMissing resolves a function or records the unresolved anchor.
func nxFuncOrMissing(c *core.Ctx, pkg, name string) *ssa.Function {
	fn := c.P.Func(pkg, name)
	if fn == nil || fn.Blocks == nil {
		c.Missing(pkg + "." + name)
		return nil
	}
	c.Analysed(core.FuncKey(fn))
	return fn
}

// nxSuccessReturns lists the returns of fn whose error result (index ei) is the nil constant.
func nxSuccessReturns(fn *ssa.Function, ei int) []*ssa.Return {
	var out []*ssa.Return
	for _, r := range core.Returns(fn) {
		rv := core.RetVals(r)
		if ei < len(rv) && isNilConst(rv[ei]) {
			out = append(out, r)
		}
	}
	return out
}

// nxGuardList renders the guards at a block for messages.
func nxGuardList(b *ssa.BasicBlock) string { return strings.Join(core.GuardStrs(b), " && ") }
