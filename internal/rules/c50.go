package rules

import (
	"fmt"
	"go/constant"
	"go/token"
	"strings"

	"golang.org/x/tools/go/ssa"

	"verif/internal/core"
)

// C50 — mod_static serves only files under the configured root, only for
// GET/HEAD, with the opened file's size as Content-Length and 404 for missing
// files.
func init() {
	Register(&Rule{
		ID: "C50", Section: "5 C50",
		Technique: "sink census (filesystem opens reachable from the handler), interprocedural origin tracing of the document root, control-dependence of the open chain on the method test, switch/guard extraction of the error-to-status mapping, value-flow of Content-Length and body",
		Meta: core.Meta{
			Level:       "other",
			Explanation: "Decides for bfe_modules/mod_static: (1) every content-opening filesystem call reachable from staticFileHandler is net/http.Dir.Open (no os.Open/OpenFile/ReadFile/... on a request path), its receiver is http.Dir(root) where root originates, through parameters and call sites, only from the rule's configured Action.Params, never from request data; (2) every such open is reached only after the request method was tested to be GET or HEAD, and the rejecting branch answers 405 without opening anything; (3) errorStatusCode returns 404 exactly under os.IsNotExist, 403 under os.IsPermission and otherwise 500; the open error is propagated unchanged from http.Dir.Open through newStaticFile/openStaticFile to that mapping, success is reported only when Open and Stat succeeded and the file is not a directory; (4) Content-Length is formatted from Size() of the staticFile that is also installed as the response body, whose FileInfo is the Stat of the opened file itself (called on the value http.Dir.Open returned, held in a local or read back from the File field); the body is installed only on success and not for HEAD, and an opened file is either installed as body or closed on every path (a branch taken only when the returned file is nil has nothing to close); the 405 and the errorStatusCode(err) status are set in the returning block or in a block of the same rejecting region that dominates it; (5) the BROWSE action's Params indices are covered by ActionFileCheck's parameter count. Not covered: net/http.Dir's own path cleaning and symlink behaviour (trusted stdlib), the os.Stat probe for pre-compressed siblings on the un-cleaned joined path (an existence oracle outside root, noted, not a read), byte equality of the streamed body, TOCTOU between Stat and read.",
			RuleText:    "obligations = each filesystem sink reachable from the handler; each origin of the root argument; each open site's method gate; each return of errorStatusCode; each link of the error propagation chain; each Content-Length write and body store; each Params index",
			Assumptions: []string{"net/http.Dir.Open confines names to its root (stdlib contract)", "mod_static writes response headers only through bfe_http.Header.Set/Add"},
		},
		Run: runC50,
		Mutants: []Mutant{
			{Name: "open-bypasses-http-dir", File: "bfe_modules/mod_static/static_file.go", Old: "	s.File, err = http.Dir(root).Open(filename)", New: "	s.File, err = os.Open(filepath.Join(root, filename))", Expect: "fs-sink"},
			{Name: "method-gate-weakened", File: "bfe_modules/mod_static/mod_static.go", Old: "	if httpRequest.Method != \"GET\" && httpRequest.Method != \"HEAD\" {", New: "	if httpRequest.Method == \"DELETE\" {", Expect: "method-gate"},
			{Name: "method-reject-falls-through", File: "bfe_modules/mod_static/mod_static.go", Old: "		resp.StatusCode = bfe_http.StatusMethodNotAllowed\n		return resp\n", New: "		resp.StatusCode = bfe_http.StatusMethodNotAllowed\n", Expect: "method-gate"},
			{Name: "missing-file-answers-200", File: "bfe_modules/mod_static/mod_static.go", Old: "	if os.IsNotExist(err) {\n		return bfe_http.StatusNotFound\n	}", New: "	if os.IsNotExist(err) {\n		return bfe_http.StatusOK\n	}", Expect: "error-status"},
			{Name: "status-swapped", File: "bfe_modules/mod_static/mod_static.go", Old: "	if os.IsPermission(err) {\n		return bfe_http.StatusForbidden\n	}", New: "	if os.IsPermission(err) {\n		return bfe_http.StatusNotFound\n	}", Expect: "error-status"},
			{Name: "open-error-dropped", File: "bfe_modules/mod_static/mod_static.go", Old: "	return file, err\n}", New: "	return file, nil\n}", Expect: "error-chain"},
			{Name: "root-from-request", File: "bfe_modules/mod_static/mod_static.go", Old: "	root := rule.Action.Params[0]\n", New: "	root := rule.Action.Params[0] + req.HttpRequest.Host\n", Expect: "dir-root"},
			{Name: "content-length-not-from-file", File: "bfe_modules/mod_static/mod_static.go", Old: "fmt.Sprintf(\"%d\", file.Size())", New: "fmt.Sprintf(\"%d\", len(file.extension))", Expect: "content-length"},
			{Name: "directory-served", File: "bfe_modules/mod_static/static_file.go", Old: "	if s.FileInfo.IsDir() {\n		s.File.Close()\n		return nil, errUnexpectedDir\n	}\n", New: "", Expect: "error-chain"},
			{Name: "body-on-open-error", File: "bfe_modules/mod_static/mod_static.go", Old: "	if err != nil {\n		resp.StatusCode = errorStatusCode(err)\n		return resp\n	}\n	m.state.FileBrowseSize", New: "	if err != nil {\n		resp.StatusCode = errorStatusCode(err)\n	}\n	m.state.FileBrowseSize", Expect: "open-error-mapped"},
			{Name: "head-gets-body", File: "bfe_modules/mod_static/mod_static.go", Old: "	if httpRequest.Method != \"HEAD\" {\n		resp.Body = file", New: "	if httpRequest.Method == \"HEAD\" {\n		resp.Body = file", Expect: "not-for-HEAD"},
			{Name: "head-leaks-file", File: "bfe_modules/mod_static/mod_static.go", Old: "	} else {\n		file.Close()\n	}\n\n	return resp", New: "	}\n\n	return resp", Expect: "body-or-close"},
			{Name: "browse-arity-one", File: "bfe_modules/mod_static/action.go", Old: "		if len(conf.Params) != 2 {", New: "		if len(conf.Params) != 1 {", Expect: "params-index"},
			{Name: "silent-reorder-header-steps", File: "bfe_modules/mod_static/mod_static.go", Old: "	m.processContentType(resp, file)\n	m.processContentEncoding(resp, file)\n	m.processContentLength(resp, file)\n", New: "	m.processContentLength(resp, file)\n	m.processContentEncoding(resp, file)\n	m.processContentType(resp, file)\n", Silent: true},
			{Name: "silent-gate-in-helper", File: "bfe_modules/mod_static/mod_static.go", Old: "	if httpRequest.Method != \"GET\" && httpRequest.Method != \"HEAD\" {", New: "	isRead := func(method string) bool { return method == \"GET\" || method == \"HEAD\" }\n	if !isRead(httpRequest.Method) {", Silent: true},
			{Name: "silent-stat-on-opened-local", File: "bfe_modules/mod_static/static_file.go", Old: "\ts.File, err = http.Dir(root).Open(filename)\n\tif err != nil {\n\t\treturn nil, err\n\t}\n\n\ts.FileInfo, err = s.File.Stat()\n\tif err != nil {\n\t\ts.File.Close()\n\t\treturn nil, err\n\t}\n", New: "\topened, err := http.Dir(root).Open(filename)\n\tif err != nil {\n\t\treturn nil, err\n\t}\n\ts.File = opened\n\n\tinfo, err := opened.Stat()\n\tif err != nil {\n\t\topened.Close()\n\t\treturn nil, err\n\t}\n\ts.FileInfo = info\n", Silent: true},
			{Name: "fileinfo-from-path-stat", File: "bfe_modules/mod_static/static_file.go", Old: "\ts.FileInfo, err = s.File.Stat()\n", New: "\ts.FileInfo, err = os.Stat(filepath.Join(root, filename))\n", Expect: "content-length|newStaticFile:fileinfo-is-stat-of-file"},
			{Name: "silent-defensive-nil-file", File: "bfe_modules/mod_static/mod_static.go", Old: "\tm.state.FileBrowseSize.Inc(uint(file.Size()))\n", New: "\tif file == nil {\n\t\tresp.StatusCode = bfe_http.StatusInternalServerError\n\t\treturn resp\n\t}\n\tm.state.FileBrowseSize.Inc(uint(file.Size()))\n", Silent: true},
			{Name: "non-nil-file-leaks-on-early-return", File: "bfe_modules/mod_static/mod_static.go", Old: "\tm.state.FileBrowseSize.Inc(uint(file.Size()))\n", New: "\tif file.Size() == 0 {\n\t\tresp.StatusCode = bfe_http.StatusNoContent\n\t\treturn resp\n\t}\n\tm.state.FileBrowseSize.Inc(uint(file.Size()))\n", Expect: "body-or-close"},
			{Name: "silent-mapped-status-then-metric-branch", File: "bfe_modules/mod_static/mod_static.go", Old: "\t\tresp.StatusCode = errorStatusCode(err)\n\t\treturn resp\n", New: "\t\tresp.StatusCode = errorStatusCode(err)\n\t\tif len(defaultFile) == 0 {\n\t\t\tm.state.FileBrowseNotExist.Inc(0)\n\t\t}\n\t\treturn resp\n", Silent: true},
			{Name: "silent-405-then-debug-branch", File: "bfe_modules/mod_static/mod_static.go", Old: "\t\tresp.StatusCode = bfe_http.StatusMethodNotAllowed\n\t\treturn resp\n", New: "\t\tresp.StatusCode = bfe_http.StatusMethodNotAllowed\n\t\tif openDebug {\n\t\t\tm.state.FileBrowseCount.Inc(0)\n\t\t}\n\t\treturn resp\n", Silent: true},
			{Name: "silent-gate-as-switch", File: "bfe_modules/mod_static/mod_static.go", Old: "	if httpRequest.Method != \"GET\" && httpRequest.Method != \"HEAD\" {\n		resp.StatusCode = bfe_http.StatusMethodNotAllowed\n		return resp\n	}\n", New: "	switch httpRequest.Method {\n	case \"GET\", \"HEAD\":\n	default:\n		resp.StatusCode = bfe_http.StatusMethodNotAllowed\n		return resp\n	}\n", Silent: true},
		},
	})
}

// mdFsSinks: functions that open, read or enumerate filesystem content by name.
var mdFsSinks = map[string]bool{
	"os.Open": true, "os.OpenFile": true, "os.ReadFile": true, "os.Create": true, "os.ReadDir": true, "os.DirFS": true,
	"io/ioutil.ReadFile": true, "io/ioutil.ReadDir": true,
	"net/http.ServeFile": true, "net/http.FileServer": true, "net/http.ServeContent": true,
	"io/fs.ReadFile": true, "io/fs.ReadDir": true,
}

const mdDirOpen = "net/http.Dir.Open"

// mdOrigins traces v back through phis and, for parameters, through the
// in-package call sites, and returns the leaf values.
func mdOrigins(v ssa.Value, sites map[*ssa.Function][]ssa.CallInstruction) []ssa.Value {
	var out []ssa.Value
	seen := map[ssa.Value]bool{}
	var walk func(v ssa.Value, d int)
	walk = func(v ssa.Value, d int) {
		if seen[v] {
			return
		}
		seen[v] = true
		if d > 8 {
			out = append(out, v)
			return
		}
		switch x := v.(type) {
		case *ssa.Phi:
			for _, e := range x.Edges {
				walk(e, d+1)
			}
			return
		case *ssa.ChangeType:
			walk(x.X, d)
			return
		case *ssa.Parameter:
			cs := sites[x.Parent()]
			idx := -1
			for i, q := range x.Parent().Params {
				if q == x {
					idx = i
				}
			}
			if len(cs) == 0 || idx < 0 {
				out = append(out, v)
				return
			}
			for _, s := range cs {
				a := s.Common().Args
				if s.Common().IsInvoke() || idx >= len(a) {
					out = append(out, v)
					continue
				}
				walk(a[idx], d+1)
			}
			return
		}
		out = append(out, v)
	}
	walk(v, 0)
	return out
}

func mdIsMethodLoad(v ssa.Value) bool {
	x, ok := mdFieldLoadNamed(v, "Method")
	return ok && strings.HasSuffix(core.TypeStr(x.Type()), "bfe_http.Request")
}

func runC50(c *core.Ctx) {
	const pkg = "bfe_modules/mod_static"
	if c.P.Pkg(pkg) == nil {
		c.Missing(pkg)
		return
	}
	handler := c.P.Func(pkg, "ModuleStatic.staticFileHandler")
	if handler == nil {
		c.Missing(pkg + ".ModuleStatic.staticFileHandler")
		return
	}
	m := mdNewCmdModel(c.P, pkg)
	inPkg := map[*ssa.Function]bool{}
	for _, fn := range m.fns {
		inPkg[fn] = true
	}
	// functions reachable from the handler inside the package
	var reach []*ssa.Function
	for _, fn := range core.TransitiveCallees(handler, 10) {
		if inPkg[fn] {
			reach = append(reach, fn)
			c.Analysed(core.FuncKey(fn))
		}
	}

	// ---- (2) method gate machinery --------------------------------------
	methodTest := func(isMethod func(ssa.Value) bool) func(f mdFact) bool {
		return func(f mdFact) bool {
			x, s, equal, ok := mdStrTest(f)
			return ok && equal && (s == "GET" || s == "HEAD") && isMethod(x)
		}
	}
	// the test itself, or a boolean helper of the package that can only return
	// true after such a test on the method handed to it
	methodOK := func(f mdFact) bool {
		if methodTest(mdIsMethodLoad)(f) {
			return true
		}
		cc, _ := mdCallOf(f.Cond)
		if !f.Pol || cc == nil {
			return false
		}
		sc := cc.StaticCallee()
		if sc == nil || !inPkg[sc] {
			return false
		}
		inner := func(x ssa.Value) bool {
			if mdIsMethodLoad(x) {
				return true
			}
			if p, ok := x.(*ssa.Parameter); ok && p.Parent() == sc {
				for i, q := range sc.Params {
					if q == p && i < len(cc.Args) && mdIsMethodLoad(cc.Args[i]) {
						return true
					}
				}
			}
			return false
		}
		return mdPredImplies(sc, methodTest(inner))
	}
	gatedSite := func(in ssa.Instruction) bool { return mdEstablished(in.Block(), methodOK) }
	gatedMemo := map[*ssa.Function]int{}
	var gatedFn func(fn *ssa.Function) bool
	gatedFn = func(fn *ssa.Function) bool {
		switch gatedMemo[fn] {
		case 1:
			return true
		case 2, 3:
			return false
		}
		gatedMemo[fn] = 3
		sites := m.sites[fn]
		ok := len(sites) > 0
		for _, s := range sites {
			in := s.(ssa.Instruction)
			if !gatedSite(in) && !gatedFn(in.Parent()) {
				ok = false
			}
		}
		if ok {
			gatedMemo[fn] = 1
		} else {
			gatedMemo[fn] = 2
		}
		return ok
	}

	// ---- (1) sinks ------------------------------------------------------
	var opens []*ssa.Call
	ord := map[string]int{}
	for _, fn := range reach {
		for _, call := range core.AllCalls(fn) {
			cc := call.Common()
			k := strings.TrimPrefix(core.CalleeKey(cc), "invoke:")
			switch {
			case mdFsSinks[k]:
				ord[k]++
				c.Check("fs-sink", fmt.Sprintf("%s:%s#%d", core.FuncKey(fn), k, ord[k]), call.Pos(), false,
					k+" opens filesystem content on the request path of mod_static without going through net/http.Dir.Open: the name is not confined to the document root")
			case k == mdDirOpen || k == "net/http.FileSystem.Open":
				if cv, ok := call.(*ssa.Call); ok {
					opens = append(opens, cv)
				}
				ord[k]++
				key := fmt.Sprintf("%s:%s#%d", core.FuncKey(fn), k, ord[k])
				c.Check("fs-sink", key, call.Pos(), true, "")
				in := call.(ssa.Instruction)
				c.Check("method-gate", key, call.Pos(), gatedSite(in) || gatedFn(fn),
					"the file is opened although no test restricted the request method to GET/HEAD on every call chain from the handler; facts here: "+mdFactStrs(in.Block()))
				// root origin
				if len(cc.Args) >= 1 {
					recv := cc.Args[0]
					_, isDir := recv.(*ssa.ChangeType)
					good := isDir || cc.IsInvoke()
					var bad []string
					for _, o := range mdOrigins(recv, m.sites) {
						okO := false
						if u, isLoad := o.(*ssa.UnOp); isLoad && u.Op == token.MUL {
							if ia, isIdx := u.X.(*ssa.IndexAddr); isIdx && m.isParams(ia.X, 0) {
								okO = true
							}
						}
						if !okO {
							good = false
							bad = append(bad, core.Render(o))
						}
					}
					c.Check("dir-root", key, call.Pos(), good, "the document root given to http.Dir must come only from the rule's configured Action.Params; other origins: "+strings.Join(bad, ", "))
				}
			case k == "os.Stat" || k == "os.Lstat":
				c.Note("%s probes %s with os.Stat on a joined, un-cleaned name (existence oracle only; the content is still opened through http.Dir)", core.FuncKey(fn), core.Render(cc.Args[0]))
			}
		}
	}
	c.Min("fs-sink", 1)
	c.Min("method-gate", 2)
	c.Min("dir-root", 1)

	// every return of a gating function that is reachable with another method answers 405
	create := c.P.Func(pkg, "ModuleStatic.createRespFromStaticFile")
	if create == nil {
		c.Missing(pkg + ".ModuleStatic.createRespFromStaticFile")
	}
	{
		v405, _ := mdConstVal(c.P, "bfe_http", "StatusMethodNotAllowed")
		is405 := func(v ssa.Value) bool {
			k, ok := v.(*ssa.Const)
			return ok && v405 != nil && k.Value != nil && k.Value.Kind() == constant.Int && constant.Compare(k.Value, token.EQL, v405)
		}
		gating := map[*ssa.Function]bool{}
		for _, fn := range reach {
			for _, call := range core.AllCalls(fn) {
				if sc := call.Common().StaticCallee(); sc != nil && inPkg[sc] && gatedSite(call.(ssa.Instruction)) && !gatedFn(fn) {
					for _, f2 := range core.TransitiveCallees(sc, 6) {
						if len(core.Calls(f2, mdDirOpen)) > 0 {
							gating[fn] = true
						}
					}
				}
			}
		}
		n := 0
		for _, fn := range reach {
			if !gating[fn] {
				continue
			}
			for _, r := range core.Returns(fn) {
				b := r.Block()
				if mdEstablished(b, methodOK) {
					continue
				}
				n++
				// the 405 is set in the returning block or in a block of the
				// rejecting region that dominates it (a debug line or a metric
				// between the store and the return splits the block)
				has405 := false
				for _, b2 := range fn.Blocks {
					if b2 != b && (!b2.Dominates(b) || mdEstablished(b2, methodOK)) {
						continue
					}
					for _, in := range b2.Instrs {
						if st, ok := in.(*ssa.Store); ok {
							if fa, ok := st.Addr.(*ssa.FieldAddr); ok {
								if f := core.FieldObj(fa.X, fa.Field); f != nil && f.Name() == "StatusCode" && is405(st.Val) {
									has405 = true
								}
							}
						}
						if call, ok := in.(ssa.CallInstruction); ok && core.CallIs(call.Common(), "bfe_basic.CreateInternalResp") {
							if a := call.Common().Args; len(a) == 2 && is405(a[1]) {
								has405 = true
							}
						}
					}
				}
				c.Check("method-gate", fmt.Sprintf("%s:reject-405#%d", fn.Name(), n), r.Pos(), has405, "a return that is reachable with a method other than GET/HEAD must answer StatusMethodNotAllowed")
			}
		}
		if n == 0 {
			c.Check("method-gate", "reject-405", handler.Pos(), false, "no return that rejects methods other than GET/HEAD was found in the function that tests the method")
		}
	}

	// ---- (3) error → status -----------------------------------------------
	if fn := c.P.Func(pkg, "errorStatusCode"); fn == nil {
		c.Missing(pkg + ".errorStatusCode")
	} else {
		c.Analysed(core.FuncKey(fn))
		if !mdNeedParams(c, 1, fn) {
			return
		}
		want := map[string]int64{}
		for _, n := range []string{"StatusNotFound", "StatusForbidden", "StatusInternalServerError"} {
			if v, ok := mdConstVal(c.P, "bfe_http", n); ok {
				want[n], _ = constant.Int64Val(v)
			} else {
				c.Missing("bfe_http." + n)
			}
		}
		under := func(b *ssa.BasicBlock, callee string, pol bool) bool {
			return mdEstablished(b, func(f mdFact) bool {
				return f.Pol == pol && mdIsCallTo(f.Cond, callee) && len(mdArgs(f.Cond)) == 1 && mdArgs(f.Cond)[0] == ssa.Value(fn.Params[0])
			})
		}
		seen := map[int64]bool{}
		for i, r := range core.Returns(fn) {
			vals, isConst := mdPossibleInts(r.Results[0])
			if !isConst || len(vals) != 1 {
				c.Check("error-status", fmt.Sprintf("errorStatusCode:return#%d", i), r.Pos(), false, "status is not a constant: "+core.Render(r.Results[0]))
				continue
			}
			v := vals[0]
			seen[v] = true
			notExist, perm := under(r.Block(), "os.IsNotExist", true), under(r.Block(), "os.IsPermission", true)
			ok := false
			switch {
			case notExist:
				ok = v == want["StatusNotFound"]
			case perm:
				ok = v == want["StatusForbidden"] && under(r.Block(), "os.IsNotExist", false)
			default:
				ok = v == want["StatusInternalServerError"]
			}
			c.Check("error-status", fmt.Sprintf("errorStatusCode:return=%d", v), r.Pos(), ok,
				fmt.Sprintf("errorStatusCode returns %d under {%s}; required: 404 exactly when os.IsNotExist(err), 403 when os.IsPermission(err), otherwise 500", v, mdFactStrs(r.Block())))
		}
		for _, n := range []string{"StatusNotFound", "StatusForbidden", "StatusInternalServerError"} {
			c.Check("error-status", "errorStatusCode:has-"+n, fn.Pos(), seen[want[n]], "errorStatusCode never returns "+n)
		}
	}
	c.Min("error-status", 6)

	// ---- error chain: Dir.Open -> newStaticFile -> openStaticFile -> status ---
	nsf := c.P.Func(pkg, "newStaticFile")
	osf := c.P.Func(pkg, "ModuleStatic.openStaticFile")
	if nsf == nil || osf == nil {
		c.Missing(pkg + ".newStaticFile/openStaticFile")
	} else {
		// newStaticFile: success only when Open and Stat succeeded and !IsDir
		// the open performed by newStaticFile: http.Dir.Open itself or a package
		// helper that returns the (file, error) pair of such a call
		var isOpenWrapper func(fn *ssa.Function, d int) bool
		isOpenCall := func(cc *ssa.CallCommon, d int) bool {
			k := strings.TrimPrefix(core.CalleeKey(cc), "invoke:")
			if k == mdDirOpen || k == "net/http.FileSystem.Open" {
				return true
			}
			sc := cc.StaticCallee()
			return sc != nil && inPkg[sc] && isOpenWrapper(sc, d+1)
		}
		isOpenWrapper = func(fn *ssa.Function, d int) bool {
			rets := core.Returns(fn)
			if d > 2 || len(rets) == 0 {
				return false
			}
			for _, r := range rets {
				rv := core.RetVals(r)
				if len(rv) != 2 {
					return false
				}
				c0, i0 := mdCallOf(rv[0])
				c1, i1 := mdCallOf(rv[1])
				if c0 == nil || c0 != c1 || i0 != 0 || i1 != 1 || !isOpenCall(c0, d) {
					return false
				}
			}
			return true
		}
		var open *ssa.Call
		for _, call := range core.AllCalls(nsf) {
			if cv, ok := call.(*ssa.Call); ok && isOpenCall(&cv.Call, 0) {
				open = cv
			}
		}
		for i, r := range core.Returns(nsf) {
			rv := core.RetVals(r)
			if len(rv) != 2 {
				continue
			}
			if mdIsNil(rv[1]) {
				okOpen := open != nil && mdEstablished(r.Block(), func(f mdFact) bool {
					x, nonNil, ok := mdNilTest(f)
					c2, idx := mdCallOf(x)
					return ok && !nonNil && c2 == &open.Call && idx == 1
				})
				okStat := mdEstablished(r.Block(), func(f mdFact) bool {
					x, nonNil, ok := mdNilTest(f)
					c2, idx := mdCallOf(x)
					return ok && !nonNil && c2 != nil && c2.IsInvoke() && c2.Method.Name() == "Stat" && idx == 1
				})
				okDir := mdEstablished(r.Block(), func(f mdFact) bool {
					c2, _ := mdCallOf(f.Cond)
					return !f.Pol && c2 != nil && c2.IsInvoke() && c2.Method.Name() == "IsDir"
				})
				c.Check("error-chain", fmt.Sprintf("newStaticFile:success-return#%d", i), r.Pos(), okOpen && okStat && okDir && !mdIsNil(rv[0]),
					fmt.Sprintf("newStaticFile reports success without (Open error == nil: %v, Stat error == nil: %v, !IsDir(): %v)", okOpen, okStat, okDir))
			} else {
				c.Check("error-chain", fmt.Sprintf("newStaticFile:error-return#%d", i), r.Pos(), mdIsNil(rv[0]), "an error return of newStaticFile must not hand out a file")
				if open != nil {
					if c2, idx := mdCallOf(rv[1]); c2 == &open.Call {
						c.Check("error-chain", "newStaticFile:open-error-returned", r.Pos(), idx == 1, "")
					}
				}
			}
		}
		// FileInfo is the Stat of the opened file
		statOK, fileOK := false, false
		fileOf, statOfOpen := map[ssa.Value]bool{}, map[ssa.Value]bool{}
		core.Instrs(nsf, func(in ssa.Instruction) {
			st, ok := in.(*ssa.Store)
			if !ok {
				return
			}
			fa, ok := st.Addr.(*ssa.FieldAddr)
			if !ok {
				return
			}
			f := core.FieldObj(fa.X, fa.Field)
			if f == nil {
				return
			}
			switch f.Name() {
			case "File":
				if c2, idx := mdCallOf(st.Val); open != nil && c2 == &open.Call && idx == 0 {
					fileOK = true
					fileOf[fa.X] = true
				}
			case "FileInfo":
				if c2, idx := mdCallOf(st.Val); c2 != nil && c2.IsInvoke() && c2.Method.Name() == "Stat" && idx == 0 {
					// the Stat receiver is the opened file: read back from the
					// same staticFile's File field, or the value of the open call
					// itself (held in a local before it is stored to File)
					if x, ok := mdFieldLoadNamed(c2.Value, "File"); ok && x == fa.X {
						statOK = true
					}
					if c3, i3 := mdCallOf(c2.Value); open != nil && c3 == &open.Call && i3 == 0 {
						statOfOpen[fa.X] = true
					}
				}
			}
		})
		// Stat of the open call's own result counts when that result is also what
		// the same staticFile's File field holds
		for x := range statOfOpen {
			if fileOf[x] {
				statOK = true
			}
		}
		c.Check("content-length", "newStaticFile:file-is-opened-file", nsf.Pos(), fileOK, "staticFile.File must be the result of http.Dir.Open")
		c.Check("content-length", "newStaticFile:fileinfo-is-stat-of-file", nsf.Pos(), statOK, "staticFile.FileInfo (the source of Size()) must be the Stat() of the same staticFile's File")

		// openStaticFile: (file, err) pairs are results of newStaticFile
		for i, r := range core.Returns(osf) {
			rv := core.RetVals(r)
			if len(rv) != 2 {
				continue
			}
			pairs, ok := mdResultPairs(rv[0], rv[1])
			good := ok && len(pairs) > 0
			for _, p := range pairs {
				c0, i0 := mdCallOf(p[0])
				c1, i1 := mdCallOf(p[1])
				if c0 == nil || c0 != c1 || i0 != 0 || i1 != 1 || !core.CallIs(c0, pkg+".newStaticFile") {
					good = false
				}
			}
			c.Check("error-chain", fmt.Sprintf("openStaticFile:return#%d", i), r.Pos(), good,
				"openStaticFile must return the (file, error) pair of one newStaticFile call; returns "+core.Render(rv[0])+", "+core.Render(rv[1]))
		}
	}
	c.Min("error-chain", 5)

	// createRespFromStaticFile: error mapped, body only on success, body or close
	if create != nil && osf != nil {
		calls := core.Calls(create, pkg+".ModuleStatic.openStaticFile")
		if len(calls) != 1 {
			c.Check("open-error-mapped", "createRespFromStaticFile:open-call", create.Pos(), false, fmt.Sprintf("expected one openStaticFile call, found %d", len(calls)))
		} else {
			oc := calls[0].(*ssa.Call)
			errIs := func(nonNilWanted bool) func(f mdFact) bool {
				return func(f mdFact) bool {
					x, nonNil, ok := mdNilTest(f)
					c2, idx := mdCallOf(x)
					return ok && nonNil == nonNilWanted && c2 == &oc.Call && idx == 1
				}
			}
			n := 0
			for _, r := range core.Returns(create) {
				if !mdEstablished(r.Block(), errIs(true)) {
					continue
				}
				n++
				mapped := false
				var instrs []ssa.Instruction
				for _, b2 := range create.Blocks {
					// the returning block and the blocks of the failure region that dominate it
					if b2 == r.Block() || (b2.Dominates(r.Block()) && mdEstablished(b2, errIs(true))) {
						instrs = append(instrs, b2.Instrs...)
					}
				}
				for _, in := range instrs {
					if st, ok := in.(*ssa.Store); ok {
						if fa, ok := st.Addr.(*ssa.FieldAddr); ok {
							if f := core.FieldObj(fa.X, fa.Field); f != nil && f.Name() == "StatusCode" {
								if c2, _ := mdCallOf(st.Val); c2 != nil && core.CallIs(c2, pkg+".errorStatusCode") && len(c2.Args) == 1 {
									if c3, idx := mdCallOf(c2.Args[0]); c3 == &oc.Call && idx == 1 {
										mapped = true
									}
								}
							}
						}
					}
				}
				c.Check("open-error-mapped", "createRespFromStaticFile:error-return", r.Pos(), mapped, "the open error must be answered with errorStatusCode(err) as status")
			}
			if n == 0 {
				c.Check("open-error-mapped", "createRespFromStaticFile:error-return", create.Pos(), false, "no return taken exactly when openStaticFile failed")
			}
			// Body stores and Content-Length
			clSetters := map[*ssa.Function]bool{}
			for _, fn := range m.fns {
				core.Instrs(fn, func(in ssa.Instruction) {
					name, call, ok := headerWrite(in)
					if !ok || name != "Content-Length" {
						return
					}
					clSetters[fn] = true
					fromSize := mdSliceHas(call.Args[2], func(v ssa.Value) bool {
						c2, _ := mdCallOf(v)
						if c2 == nil || !c2.IsInvoke() || c2.Method.Name() != "Size" {
							return false
						}
						x, ok := mdFieldLoadNamed(c2.Value, "FileInfo")
						return ok && strings.HasSuffix(core.TypeStr(x.Type()), "staticFile")
					})
					c.Check("content-length", core.FuncKey(fn)+":value", in.Pos(), fromSize, "Content-Length is "+core.Render(call.Args[2])+"; it must be formatted from the staticFile's FileInfo.Size()")
				})
			}
			nb := 0
			core.Instrs(create, func(in ssa.Instruction) {
				st, ok := in.(*ssa.Store)
				if !ok {
					return
				}
				fa, ok := st.Addr.(*ssa.FieldAddr)
				if !ok {
					return
				}
				if f := core.FieldObj(fa.X, fa.Field); f == nil || f.Name() != "Body" {
					return
				}
				nb++
				file := core.StripConv(st.Val)
				c2, idx := mdCallOf(file)
				c.Check("open-error-mapped", fmt.Sprintf("createRespFromStaticFile:body#%d", nb), in.Pos(), c2 == &oc.Call && idx == 0 && mdEstablished(in.Block(), errIs(false)),
					"the response body must be the file returned by openStaticFile and be installed only when its error is nil")
				// HEAD answers carry no body
				headOK := mdEstablished(in.Block(), func(f mdFact) bool {
					x, s, equal, ok := mdStrTest(f)
					return ok && !equal && s == "HEAD" && mdIsMethodLoad(x)
				}) || mdEstablished(in.Block(), func(f mdFact) bool {
					x, s, equal, ok := mdStrTest(f)
					return ok && equal && s == "GET" && mdIsMethodLoad(x)
				})
				c.Check("open-error-mapped", fmt.Sprintf("createRespFromStaticFile:body#%d:not-for-HEAD", nb), in.Pos(), headOK, "the file is installed as body although the method was not tested to differ from HEAD")
				// a Content-Length setter was called with the same file and response before
				clOK := false
				for _, call := range core.AllCalls(create) {
					sc := call.Common().StaticCallee()
					if sc == nil || !clSetters[sc] || !core.Dominates(call.(ssa.Instruction), in) {
						continue
					}
					hasFile, hasResp := false, false
					for _, a := range call.Common().Args {
						if core.StripConv(a) == file {
							hasFile = true
						}
						if a == fa.X {
							hasResp = true
						}
					}
					if hasFile && hasResp {
						clOK = true
					}
				}
				c.Check("content-length", fmt.Sprintf("createRespFromStaticFile:body#%d", nb), in.Pos(), clOK, "the body is installed without Content-Length having been set from the same file on the same response")
			})
			if nb == 0 {
				c.Check("open-error-mapped", "createRespFromStaticFile:body", create.Pos(), false, "no store to the response body found")
			}
			// every success path installs the file as body or closes it
			for _, b := range create.Blocks {
				for _, s := range b.Succs {
					f, ok := mdEdgeFact(b, s)
					if !ok || !errIs(false)(f) || len(s.Instrs) == 0 {
						continue
					}
					via := func(in ssa.Instruction) bool {
						if st, ok := in.(*ssa.Store); ok {
							if fa, ok := st.Addr.(*ssa.FieldAddr); ok {
								if fo := core.FieldObj(fa.X, fa.Field); fo != nil && fo.Name() == "Body" {
									return true
								}
							}
						}
						if call, ok := in.(ssa.CallInstruction); ok {
							cc := call.Common()
							name := ""
							if cc.IsInvoke() {
								name = cc.Method.Name()
							} else if sc := cc.StaticCallee(); sc != nil {
								name = sc.Name()
							}
							if name == "Close" {
								recv := cc.Value
								if !cc.IsInvoke() && len(cc.Args) > 0 {
									recv = cc.Args[0]
								}
								if c3, idx := mdCallOf(recv); c3 == &oc.Call && idx == 0 {
									return true
								}
							}
						}
						return false
					}
					// a branch taken only when the returned file is nil (a defensive
					// check) has nothing to install or close
					noFile := func(pred, succ *ssa.BasicBlock) bool {
						f2, ok := mdEdgeFact(pred, succ)
						if !ok {
							return false
						}
						x, nonNil, isNil := mdNilTest(f2)
						c3, idx := mdCallOf(x)
						return isNil && !nonNil && c3 == &oc.Call && idx == 0
					}
					ok2 := via(s.Instrs[0]) || mdReachSkippingEdges(s.Instrs[0], via, core.IsReturn, noFile) == nil
					c.Check("body-or-close", "createRespFromStaticFile", s.Instrs[0].Pos(), ok2, "a path after a successful open returns without installing the file as response body or closing it (descriptor leak / wrong body)")
				}
			}
		}
	}
	c.Min("open-error-mapped", 2)
	c.Min("content-length", 4)
	c.Min("body-or-close", 1)

	// ---- (5) Params indices -------------------------------------------------
	if chk := c.P.Func(pkg, "ActionFileCheck"); chk == nil {
		c.Missing(pkg + ".ActionFileCheck")
	} else {
		s := m.summarize(chk, 0)
		m.accepted = map[string]map[int]bool{}
		for k, v := range s.byCmd {
			if k != "*" {
				m.accepted[k] = v
			}
		}
		c.Check("checker-closed", pkg+".ActionFileCheck", chk.Pos(), s.complete && !s.defaultAccepts && s.hasCmdTests, "mod_static's ActionFileCheck must reject commands it does not list")
		c.Note("%s.ActionFileCheck accepts: %s", pkg, mdAcceptedStr(m.accepted))
		m.checkSites(c, "params-index")
		c.Min("params-index", 3)
	}
}

func mdArgs(v ssa.Value) []ssa.Value {
	c, _ := mdCallOf(v)
	if c == nil {
		return nil
	}
	return c.Args
}

// mdResultPairs pairs the possible values of two results that are phis of the
// same block (edge by edge); non-phi values give one pair.
func mdResultPairs(a, b ssa.Value) ([][2]ssa.Value, bool) {
	pa, okA := a.(*ssa.Phi)
	pb, okB := b.(*ssa.Phi)
	if !okA && !okB {
		return [][2]ssa.Value{{a, b}}, true
	}
	if !okA || !okB || pa.Block() != pb.Block() || len(pa.Edges) != len(pb.Edges) {
		return nil, false
	}
	var out [][2]ssa.Value
	for i := range pa.Edges {
		sub, ok := mdResultPairs(pa.Edges[i], pb.Edges[i])
		if !ok {
			return nil, false
		}
		out = append(out, sub...)
	}
	return out, true
}
