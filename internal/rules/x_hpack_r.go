package rules

// Round-4 helpers of C31/C32: robustness against behaviour-preserving
// refactorings.
//
//  1. Regions. A rule anchored in function F looks at F plus its private
//     helpers (unexported functions of the same package that are not used as
//     values, are not themselves anchors of a rule, and whose every call site
//     lies inside the region). For a helper with exactly one call site the
//     parameters are the arguments of that site (hxResolve follows them) and
//     the guards established at the site hold inside the helper (hxGuardsAt).
//  2. Guards. A branch on a named boolean that was computed with && / || is a
//     branch on a phi; the phi is read back into the facts it stands for.
//  3. Supergraph walker. Path queries (reach X avoiding Y, dominance) follow
//     calls into region helpers and come back through their returns; the
//     walker remembers through which return of the last helper it came back,
//     so `return helper()` and `if err := helper(); err != nil { return err }`
//     are both read with the error class of the helper's own return.
//  4. Path enumeration over the same supergraph for the feasible-path rules.
//
// Nothing here matches names of locals, parameters or unexported helpers.

import (
	"go/constant"
	"go/token"
	"go/types"
	"strings"
	"sync"

	"golang.org/x/tools/go/ssa"

	"verif/internal/core"
)

var (
	hxArgOf  sync.Map // *ssa.Parameter -> ssa.Value: argument at the single call site of a private helper
	hxSiteOf sync.Map // *ssa.Function -> *ssa.Call: the single call site of a private helper
	hxEnvs   sync.Map // *core.Prog -> *hxEnv
)

// hxEnv is the per-run state: indexes and regions of one loaded program. The
// global maps above are keyed by SSA objects of that program and are emptied
// again by close, so overlay runs of the self test do not retain programs.
type hxEnv struct {
	mu      sync.Mutex
	p       *core.Prog
	stop    map[string]bool
	idx     map[*ssa.Package]*hxPkgIdx
	regs    map[*ssa.Function]*hxReg
	params  []*ssa.Parameter
	helpers []*ssa.Function
}

type hxPkgIdx struct {
	sites map[*ssa.Function][]ssa.CallInstruction
	taken map[*ssa.Function]bool
}

// hxOpen creates (or extends) the environment of p. anchors are FuncKeys of
// functions that rules analyse in their own right: they are never absorbed
// into another anchor's region, a call of them stays an opaque event.
func hxOpen(p *core.Prog, anchors ...string) *hxEnv {
	v, _ := hxEnvs.LoadOrStore(p, &hxEnv{p: p, stop: map[string]bool{}, idx: map[*ssa.Package]*hxPkgIdx{}, regs: map[*ssa.Function]*hxReg{}})
	e := v.(*hxEnv)
	e.mu.Lock()
	for _, a := range anchors {
		e.stop[a] = true
	}
	e.mu.Unlock()
	return e
}

func (e *hxEnv) close() {
	e.mu.Lock()
	defer e.mu.Unlock()
	for _, p := range e.params {
		hxArgOf.Delete(p)
	}
	for _, f := range e.helpers {
		hxSiteOf.Delete(f)
	}
	hxEnvs.Delete(e.p)
}

func hxRootOf(fn *ssa.Function) *ssa.Function {
	for fn != nil && fn.Parent() != nil {
		fn = fn.Parent()
	}
	return fn
}

func (e *hxEnv) index(pkg *ssa.Package) *hxPkgIdx {
	if ix := e.idx[pkg]; ix != nil {
		return ix
	}
	ix := &hxPkgIdx{sites: map[*ssa.Function][]ssa.CallInstruction{}, taken: map[*ssa.Function]bool{}}
	e.idx[pkg] = ix
	if pkg == nil {
		return ix
	}
	rel := strings.TrimPrefix(strings.TrimPrefix(pkg.Pkg.Path(), core.ModPath), "/")
	if rel == "" {
		rel = "."
	}
	for _, fn := range e.p.SrcFuncs(rel) {
		if r := hxRootOf(fn); r == nil || r.Pkg != pkg {
			continue
		}
		core.Instrs(fn, func(in ssa.Instruction) {
			var callee ssa.Value
			if ci, ok := in.(ssa.CallInstruction); ok {
				if sc := ci.Common().StaticCallee(); sc != nil {
					ix.sites[sc] = append(ix.sites[sc], ci)
					if !ci.Common().IsInvoke() {
						callee = ci.Common().Value
					}
				}
			}
			for _, op := range in.Operands(nil) {
				if op == nil || *op == nil {
					continue
				}
				if g, ok := (*op).(*ssa.Function); ok {
					if callee != nil && *op == callee {
						callee = nil // the callee operand itself (first occurrence)
						continue
					}
					ix.taken[g] = true
				}
			}
		})
	}
	return ix
}

// hxReg is the region of an anchor function.
type hxReg struct {
	env  *hxEnv
	Root *ssa.Function
	Fns  []*ssa.Function // Root first, then the named private helpers
	In   map[*ssa.Function]bool
}

// hxRegionOf returns the region of fn. Without an open environment the region
// is fn alone.
func hxRegionOf(p *core.Prog, fn *ssa.Function) *hxReg {
	if fn == nil {
		return nil
	}
	v, ok := hxEnvs.Load(p)
	if !ok {
		return &hxReg{Root: fn, Fns: []*ssa.Function{fn}, In: map[*ssa.Function]bool{fn: true}}
	}
	e := v.(*hxEnv)
	e.mu.Lock()
	defer e.mu.Unlock()
	if g := e.regs[fn]; g != nil {
		return g
	}
	g := &hxReg{env: e, Root: fn, In: map[*ssa.Function]bool{}}
	e.regs[fn] = g
	add := func(f *ssa.Function) {
		g.Fns = append(g.Fns, f)
		for _, x := range core.WithClosures(f) {
			g.In[x] = true
		}
	}
	add(fn)
	if fn.Pkg == nil || fn.Blocks == nil {
		return g
	}
	ix := e.index(fn.Pkg)
	for depth := 0; depth < 4; depth++ {
		grew := false
		for _, f := range append([]*ssa.Function(nil), g.Fns...) {
			for _, cf := range core.WithClosures(f) {
				core.Instrs(cf, func(x ssa.Instruction) {
					ci, ok := x.(ssa.CallInstruction)
					if !ok {
						return
					}
					h := ci.Common().StaticCallee()
					if h == nil || g.In[h] || h.Blocks == nil || h.Pkg != fn.Pkg || h.Parent() != nil {
						return
					}
					if h.Object() == nil || h.Object().Exported() || e.stop[core.FuncKey(h)] || ix.taken[h] {
						return
					}
					for _, s := range ix.sites[h] {
						if !g.In[s.Parent()] {
							return
						}
					}
					add(h)
					grew = true
				})
			}
		}
		if !grew {
			break
		}
	}
	for _, h := range g.Fns[1:] {
		ss := ix.sites[h]
		if len(ss) != 1 {
			continue
		}
		call, ok := ss[0].(*ssa.Call)
		if !ok || len(call.Call.Args) != len(h.Params) {
			continue
		}
		if _, dup := hxSiteOf.LoadOrStore(h, call); dup {
			continue
		}
		e.helpers = append(e.helpers, h)
		for i, prm := range h.Params {
			hxArgOf.Store(prm, call.Call.Args[i])
			e.params = append(e.params, prm)
		}
	}
	return g
}

// Instrs lists the instructions of the region's named functions (closures are
// not entered, as in hxInstrs).
func (g *hxReg) Instrs() []ssa.Instruction {
	var out []ssa.Instruction
	for _, f := range g.Fns {
		out = append(out, hxInstrs(f)...)
	}
	return out
}

// helper: in is a plain call (not go/defer) of a named helper of the region.
func (g *hxReg) helper(in ssa.Instruction) *ssa.Function {
	call, ok := in.(*ssa.Call)
	if !ok {
		return nil
	}
	h := call.Call.StaticCallee()
	if h == nil || h == g.Root || h.Parent() != nil || !g.In[h] || h.Blocks == nil {
		return nil
	}
	return h
}

func (g *hxReg) sitesOf(h *ssa.Function) []*ssa.Call {
	var out []*ssa.Call
	for _, f := range g.Fns {
		for _, in := range hxInstrs(f) {
			if g.helper(in) == h {
				out = append(out, in.(*ssa.Call))
			}
		}
	}
	return out
}

// hxParamArg follows a parameter of a single-site private helper to the
// argument at the site.
func hxParamArg(v ssa.Value) (ssa.Value, bool) {
	p, ok := v.(*ssa.Parameter)
	if !ok {
		return nil, false
	}
	a, ok := hxArgOf.Load(p)
	if !ok {
		return nil, false
	}
	return a.(ssa.Value), true
}

// hxHelperResult follows result #idx (-1: the only result) of a call of a
// single-site private helper to the value the helper returns there, when all
// its returns that do not yield the zero value agree on one value.
func hxHelperResult(call *ssa.Call, idx int) (ssa.Value, bool) {
	h := call.Call.StaticCallee()
	if h == nil {
		return nil, false
	}
	if s, ok := hxSiteOf.Load(h); !ok || s.(*ssa.Call) != call {
		return nil, false
	}
	if idx < 0 {
		idx = 0
	}
	var found ssa.Value
	for _, r := range core.Returns(h) {
		rv := core.RetVals(r)
		if idx >= len(rv) {
			return nil, false
		}
		v := rv[idx]
		if k, isK := v.(*ssa.Const); isK && (k.Value == nil || hxIsZeroConst(k)) {
			continue
		}
		v = hxResolve(v)
		if found != nil && found != v {
			return nil, false
		}
		found = v
	}
	return found, found != nil
}

func hxIsZeroConst(k *ssa.Const) bool {
	if k.Value == nil {
		return true
	}
	switch k.Value.Kind() {
	case constant.Int:
		return constant.Sign(k.Value) == 0
	case constant.String:
		return constant.StringVal(k.Value) == ""
	case constant.Bool:
		return !constant.BoolVal(k.Value)
	}
	return false
}

// ---------------------------------------------------------------- guards

func hxIsBool(v ssa.Value) bool {
	b, ok := v.Type().Underlying().(*types.Basic)
	return ok && b.Info()&types.IsBoolean != 0
}

func hxMkGuard(cond ssa.Value, pol bool, ifi *ssa.If) core.Guard {
	s := core.Render(cond)
	if !pol {
		s = "!" + s
	}
	return core.Guard{Cond: cond, Pol: pol, Str: s, If: ifi}
}

// hxExpandGuard appends g and the facts g stands for: `!x` gives x with the
// opposite polarity; `b == true/false` gives b; a boolean phi built by && / ||
// that can only have the tested value over one incoming edge gives the value
// of that edge and the guards established on that edge.
func hxExpandGuard(out []core.Guard, g core.Guard, d int) []core.Guard {
	out = append(out, g)
	if d > 5 {
		return out
	}
	switch x := g.Cond.(type) {
	case *ssa.UnOp:
		if x.Op == token.NOT {
			out = hxExpandGuard(out, hxMkGuard(x.X, !g.Pol, g.If), d+1)
		}
	case *ssa.BinOp:
		if (x.Op == token.EQL || x.Op == token.NEQ) && hxIsBool(x.X) {
			for _, pair := range [][2]ssa.Value{{x.X, x.Y}, {x.Y, x.X}} {
				k, isK := pair[1].(*ssa.Const)
				if !isK || k.Value == nil || k.Value.Kind() != constant.Bool {
					continue
				}
				pol := constant.BoolVal(k.Value) == (x.Op == token.EQL)
				if !g.Pol {
					pol = !pol
				}
				out = hxExpandGuard(out, hxMkGuard(pair[0], pol, g.If), d+1)
				break
			}
		}
	case *ssa.Phi:
		if !hxIsBool(x) {
			break
		}
		live := -1
		n := 0
		for i, e := range x.Edges {
			if k, isK := e.(*ssa.Const); isK && k.Value != nil && k.Value.Kind() == constant.Bool && constant.BoolVal(k.Value) != g.Pol {
				continue
			}
			live = i
			n++
		}
		if n != 1 {
			break
		}
		if _, isK := x.Edges[live].(*ssa.Const); !isK {
			out = hxExpandGuard(out, hxMkGuard(x.Edges[live], g.Pol, g.If), d+1)
		}
		pred := x.Block().Preds[live]
		for _, pg := range core.GuardsOnEdge(pred, x.Block()) {
			out = hxExpandGuard(out, pg, d+1)
		}
	}
	return out
}

// hxGuardsAt: the guards established on every path to b, expanded, followed
// by the guards at the single call site of b's function when that is a
// private helper (and so on outwards).
func hxGuardsAt(b *ssa.BasicBlock) []core.Guard {
	var out []core.Guard
	cur := b
	for depth := 0; depth < 5 && cur != nil; depth++ {
		for _, g := range core.GuardsAt(cur) {
			out = hxExpandGuard(out, g, 0)
		}
		s, ok := hxSiteOf.Load(cur.Parent())
		if !ok {
			break
		}
		cur = s.(*ssa.Call).Block()
	}
	return out
}

// hxGuardsOnEdge: hxGuardsAt(pred) plus pred's own branch towards succ.
func hxGuardsOnEdge(pred, succ *ssa.BasicBlock) []core.Guard {
	out := hxGuardsAt(pred)
	if ifi, ok := pred.Instrs[len(pred.Instrs)-1].(*ssa.If); ok && pred.Succs[0] != pred.Succs[1] {
		out = hxExpandGuard(out, hxMkGuard(ifi.Cond, pred.Succs[0] == succ, ifi), 0)
	}
	return out
}

func hxHasGuard(b *ssa.BasicBlock, match func(g core.Guard) bool) bool {
	for _, g := range hxGuardsAt(b) {
		if hxGuardMatches(g, match, 0) {
			return true
		}
	}
	return false
}

// hxGuardMatches: match accepts g, or g is a branch on a boolean phi (a named
// `a || b` / `a && b`) and every incoming edge that can produce the tested
// value establishes a fact accepted by match: the edge's own value, or a guard
// on the way into the phi.
func hxGuardMatches(g core.Guard, match func(g core.Guard) bool, d int) bool {
	if match(g) {
		return true
	}
	if d > 3 {
		return false
	}
	if u, isU := g.Cond.(*ssa.UnOp); isU && u.Op == token.NOT {
		return hxGuardMatches(hxMkGuard(u.X, !g.Pol, g.If), match, d+1)
	}
	phi, ok := g.Cond.(*ssa.Phi)
	if !ok || !hxIsBool(phi) {
		return false
	}
	n := 0
	for i, e := range phi.Edges {
		k, isK := e.(*ssa.Const)
		if isK && k.Value != nil && k.Value.Kind() == constant.Bool && constant.BoolVal(k.Value) != g.Pol {
			continue // this edge cannot produce the tested value
		}
		n++
		if !isK && hxGuardMatches(hxMkGuard(e, g.Pol, g.If), match, d+1) {
			continue
		}
		found := false
		for _, pg := range core.GuardsOnEdge(phi.Block().Preds[i], phi.Block()) {
			for _, x := range hxExpandGuard(nil, pg, 0) {
				if hxGuardMatches(x, match, d+1) {
					found = true
				}
			}
		}
		if !found {
			return false
		}
	}
	return n > 0
}

// hxAllEdgesGuarded is core.AllEdgesGuarded over expanded, context-aware guards.
func hxAllEdgesGuarded(b *ssa.BasicBlock, match func(g core.Guard) bool) bool {
	if hxHasGuard(b, match) {
		return true
	}
	if len(b.Preds) < 2 {
		return false
	}
	for _, p := range b.Preds {
		ok := false
		for _, g := range hxGuardsOnEdge(p, b) {
			if hxGuardMatches(g, match, 0) {
				ok = true
				break
			}
		}
		if !ok {
			return false
		}
	}
	return true
}

func hxRelsOf(gs []core.Guard) []hxRel {
	var out []hxRel
	seen := map[hxRel]bool{}
	for _, g := range gs {
		if r, ok := hxRelOf(g.Cond, g.Pol); ok && !seen[r] {
			seen[r] = true
			out = append(out, r)
		}
	}
	return out
}

// ---------------------------------------------------------------- supergraph walker

// hxSt is the walker's memory: the last helper call it came back from and the
// return (of that helper, or of a deeper helper whose error it passed on)
// through which it came back.
type hxSt struct {
	call *ssa.Call
	ret  *ssa.Return
}

type hxWalkKey struct {
	b  *ssa.BasicBlock
	i  int
	st hxSt
}

type hxCont struct {
	b    *ssa.BasicBlock
	i    int
	call *ssa.Call
}

type hxRetSeen struct {
	r  *ssa.Return
	st hxSt
}

// hxErrIdx: idx names the last (error) result of call (idx -1: single result).
func hxErrIdx(call *ssa.Call, idx int) bool {
	n := call.Call.Signature().Results().Len()
	return n > 0 && (idx == n-1 || (idx == -1 && n == 1))
}

// hxPassesOn: the error result of r is the error result of call.
func hxPassesOn(r *ssa.Return, call *ssa.Call) bool {
	if call == nil {
		return false
	}
	cc, idx := hxCallOf(hxErrResult(r))
	return cc == call && hxErrIdx(call, idx)
}

// errClass classifies the error result of return r reached in walker state st.
func (g *hxReg) errClass(r *ssa.Return, st hxSt) hxErr {
	ev := hxErrResult(r)
	e := hxErrOf(ev)
	if e.Nil || e.NonNil {
		return e
	}
	if st.ret != nil && hxPassesOn(r, st.call) {
		if le := hxErrOf(hxErrResult(st.ret)); le.Nil || le.NonNil {
			return le
		}
		if hxErrNonNilAt(hxErrResult(st.ret), st.ret.Block()) {
			return hxErr{NonNil: true, From: ev}
		}
		return e
	}
	if ev != nil && hxErrNonNilAt(ev, r.Block()) {
		return hxErr{NonNil: true, From: ev}
	}
	return e
}

// walk explores the supergraph of the region from (b0, i0). on is called for
// every instruction reached, in path order, with the walker state; cut
// abandons the path, done ends the walk (walk then returns true). A plain call
// of a region helper is entered; the helper's returns continue after the call
// sites through which the helper was entered (all its sites when the walk
// started inside it). A branch on the error of the helper call just returned
// from is followed only in the direction the helper's return decides.
func (g *hxReg) walk(b0 *ssa.BasicBlock, i0 int, st0 hxSt, on func(in ssa.Instruction, st hxSt) (cut, done bool)) bool {
	return g.walkE(b0, i0, st0, on, nil)
}

// walkE is walk with an edge filter: edge(b), when it returns a successor of
// b, restricts the walk to that successor (used to follow one outcome of a
// test).
func (g *hxReg) walkE(b0 *ssa.BasicBlock, i0 int, st0 hxSt, on func(in ssa.Instruction, st hxSt) (cut, done bool), edge func(b *ssa.BasicBlock) *ssa.BasicBlock) bool {
	seen := map[hxWalkKey]bool{}
	type item struct {
		b  *ssa.BasicBlock
		i  int
		st hxSt
	}
	var work []item
	push := func(b *ssa.BasicBlock, i int, st hxSt) {
		k := hxWalkKey{b, i, st}
		if !seen[k] {
			seen[k] = true
			work = append(work, item{b, i, st})
		}
	}
	conts := map[*ssa.Function][]hxCont{}
	rets := map[*ssa.Function][]hxRetSeen{}
	after := func(c hxCont, r *ssa.Return, st hxSt) {
		leaf := r
		if st.ret != nil && hxPassesOn(r, st.call) {
			leaf = st.ret
		}
		push(c.b, c.i, hxSt{c.call, leaf})
	}
	push(b0, i0, st0)
	for len(work) > 0 {
		it := work[len(work)-1]
		work = work[:len(work)-1]
		b, st := it.b, it.st
	instrs:
		for j := it.i; j < len(b.Instrs); j++ {
			in := b.Instrs[j]
			cut, done := on(in, st)
			if done {
				return true
			}
			if cut {
				break
			}
			switch x := in.(type) {
			case *ssa.Call:
				h := g.helper(x)
				if h == nil {
					continue
				}
				c := hxCont{b, j + 1, x}
				dup := false
				for _, o := range conts[h] {
					if o == c {
						dup = true
					}
				}
				if !dup {
					conts[h] = append(conts[h], c)
					for _, rs := range rets[h] {
						after(c, rs.r, rs.st)
					}
				}
				push(h.Blocks[0], 0, st)
				break instrs
			case *ssa.Return:
				f := b.Parent()
				if f == g.Root || f.Parent() != nil {
					break instrs
				}
				rets[f] = append(rets[f], hxRetSeen{x, st})
				cs := conts[f]
				if len(cs) == 0 {
					for _, s := range g.sitesOf(f) {
						cs = append(cs, hxCont{s.Block(), hxIdxOf(s) + 1, s})
					}
				}
				for _, c := range cs {
					after(c, x, st)
				}
				break instrs
			case *ssa.Panic:
				break instrs
			case *ssa.If:
				only := -1
				if st.ret != nil {
					only = g.decided(x, st)
				}
				var forced *ssa.BasicBlock
				if edge != nil {
					forced = edge(b)
				}
				for k, s := range b.Succs {
					if (only < 0 || only == k) && (forced == nil || forced == s) {
						push(s, 0, st)
					}
				}
			case *ssa.Jump:
				push(b.Succs[0], 0, st)
			}
		}
	}
	return false
}

func hxIdxOf(in ssa.Instruction) int {
	for i, x := range in.Block().Instrs {
		if x == in {
			return i
		}
	}
	return -1
}

// decided: the branch tests the error (or a boolean result) of the helper call
// the walker just came back from, and the helper's return fixes the outcome;
// returns the index of the only feasible successor, -1 when open.
func (g *hxReg) decided(ifi *ssa.If, st hxSt) int {
	rel, ok := hxRelOf(ifi.Cond, true)
	if ok && (rel.Op == token.EQL || rel.Op == token.NEQ) && (hxIsNil(rel.R) || hxIsNil(rel.L)) {
		other := rel.L
		if hxIsNil(rel.L) {
			other = rel.R
		}
		cc, idx := hxCallOf(other)
		if cc != st.call || !hxErrIdx(cc, idx) {
			return -1
		}
		cl := hxErrOf(hxErrResult(st.ret))
		if !cl.Nil && !cl.NonNil && hxErrNonNilAt(hxErrResult(st.ret), st.ret.Block()) {
			cl = hxErr{NonNil: true}
		}
		switch {
		case cl.NonNil:
			if rel.Op == token.NEQ {
				return 0
			}
			return 1
		case cl.Nil:
			if rel.Op == token.NEQ {
				return 1
			}
			return 0
		}
		return -1
	}
	// a boolean result of the helper, tested directly
	cond, pol := ifi.Cond, true
	for {
		u, isU := cond.(*ssa.UnOp)
		if !isU || u.Op != token.NOT {
			break
		}
		cond, pol = u.X, !pol
	}
	if ex, isEx := cond.(*ssa.Extract); isEx && ex.Tuple == ssa.Value(st.call) && st.ret.Parent() == st.call.Call.StaticCallee() {
		rv := core.RetVals(st.ret)
		if ex.Index < len(rv) {
			if k, isK := rv[ex.Index].(*ssa.Const); isK && k.Value != nil && k.Value.Kind() == constant.Bool {
				if constant.BoolVal(k.Value) == pol {
					return 0
				}
				return 1
			}
		}
	}
	return -1
}

// reach: starting just after from (nil: at the entry of the root), is an
// instruction satisfying target reachable without first executing one that
// satisfies avoid? Returns the target found.
func (g *hxReg) reach(from ssa.Instruction, avoid, target func(in ssa.Instruction, st hxSt) bool) ssa.Instruction {
	var hit ssa.Instruction
	b, i := g.Root.Blocks[0], 0
	if from != nil {
		b, i = from.Block(), hxIdxOf(from)+1
	}
	g.walk(b, i, hxSt{}, func(in ssa.Instruction, st hxSt) (bool, bool) {
		if target(in, st) {
			hit = in
			return false, true
		}
		return avoid != nil && avoid(in, st), false
	})
	return hit
}

// reachI is reach for predicates that do not look at the walker state.
func (g *hxReg) reachI(from ssa.Instruction, avoid, target func(ssa.Instruction) bool) ssa.Instruction {
	var av func(ssa.Instruction, hxSt) bool
	if avoid != nil {
		av = func(in ssa.Instruction, _ hxSt) bool { return avoid(in) }
	}
	return g.reach(from, av, func(in ssa.Instruction, _ hxSt) bool { return target(in) })
}

// dominates: every path from the entry of the root to b executes a first.
func (g *hxReg) dominates(a, b ssa.Instruction) bool {
	if a.Parent() == b.Parent() && core.Dominates(a, b) {
		return true
	}
	return g.reachI(nil, func(in ssa.Instruction) bool { return in == a }, func(in ssa.Instruction) bool { return in == b }) == nil
}

// blockReaches: control that enters block from can reach block to.
func (g *hxReg) blockReaches(from, to *ssa.BasicBlock) bool {
	if from == to {
		return true
	}
	return g.walk(from, 0, hxSt{}, func(in ssa.Instruction, _ hxSt) (bool, bool) {
		return false, in.Block() == to
	})
}

// Returns lists the effective returns of the region: the returns of the root,
// where a return that hands on the error of a region helper called in the
// same block (`return helper(...)`) is replaced by the helper's returns.
func (g *hxReg) Returns() []*ssa.Return {
	var out []*ssa.Return
	seen := map[*ssa.Function]bool{}
	var add func(f *ssa.Function)
	add = func(f *ssa.Function) {
		if seen[f] {
			return
		}
		seen[f] = true
		for _, r := range core.Returns(f) {
			if cc, idx := hxCallOf(hxErrResult(r)); cc != nil && hxErrIdx(cc, idx) && cc.Block() == r.Block() && hxTailCall(r, cc) {
				if h := g.helper(cc); h != nil {
					add(h)
					continue
				}
			}
			out = append(out, r)
		}
	}
	add(g.Root)
	return out
}

// hxTailCall: r returns exactly the results of call, in order (`return f(...)`).
func hxTailCall(r *ssa.Return, call *ssa.Call) bool {
	rv := core.RetVals(r)
	if len(rv) != call.Call.Signature().Results().Len() {
		return false
	}
	for i, v := range rv {
		cc, idx := hxCallOf(v)
		if cc != call || !(idx == i || (idx == -1 && len(rv) == 1)) {
			return false
		}
	}
	return true
}

// isFinal: in, reached in state st, is the function exit that the effective
// return R stands for.
func (g *hxReg) isFinal(in ssa.Instruction, st hxSt, R *ssa.Return) bool {
	r, ok := in.(*ssa.Return)
	if !ok {
		return false
	}
	if r == R {
		return r.Parent() == g.Root
	}
	return r.Parent() == g.Root && st.ret == R && hxPassesOn(r, st.call)
}

// ---------------------------------------------------------------- path enumeration over the supergraph

// hxFact is one branch decision on a path.
type hxFact struct {
	Cond  ssa.Value
	Taken bool
}

// hxPath is one path from the entry of the root to an exit of the root.
type hxPath struct {
	Facts   []hxFact
	Last    ssa.Instruction
	Results []ssa.Value // the results of the final return, phis read with the value that flowed in on this path
}

func (p *hxPath) Sig() string {
	var parts []string
	for _, f := range p.Facts {
		s := core.Render(f.Cond)
		if !f.Taken {
			s = "!" + s
		}
		parts = append(parts, s)
	}
	return strings.Join(parts, " & ")
}

// Rels reads the facts as relations.
func (p *hxPath) Rels() []hxRel {
	var out []hxRel
	for _, f := range p.Facts {
		if r, ok := hxRelOf(f.Cond, f.Taken); ok {
			out = append(out, r)
		}
	}
	return out
}

// enumPaths enumerates the paths of the region from the entry of the root to
// its returns and panics, entering region helpers at their calls. Each block
// is visited at most maxVisit times per frame activation. Branches decided by
// constants that flow through phis along the path (flag variables, named
// booleans built with && / ||) and by the nil-ness of a helper's returned
// error are pruned; a branch on a phi is recorded as a branch on the value
// that flowed in. It returns false when more than limit paths exist
// (undecided).
func (g *hxReg) enumPaths(maxVisit, limit int, f func(p *hxPath)) bool {
	if len(g.Root.Blocks) == 0 {
		return true
	}
	n := 0
	complete := true
	var facts []hxFact
	env := map[ssa.Value]ssa.Value{} // phi -> value that flowed in on this path; call -> returning *ssa.Return is kept in retOf
	retOf := map[*ssa.Call]*ssa.Return{}
	type frame struct {
		visits map[*ssa.BasicBlock]int
		cont   func() // continuation after the frame's function returns
		call   *ssa.Call
	}
	var through func(v ssa.Value, d int) ssa.Value
	through = func(v ssa.Value, d int) ssa.Value {
		for ; d < 12; d++ {
			switch x := v.(type) {
			case *ssa.Phi:
				if e, ok := env[x]; ok {
					v = e
					continue
				}
			case *ssa.Parameter:
				if a, ok := hxParamArg(x); ok {
					v = a
					continue
				}
			}
			break
		}
		return v
	}
	var evalBool func(v ssa.Value, d int) (bool, bool)
	evalBool = func(v ssa.Value, d int) (bool, bool) {
		if d > 8 {
			return false, false
		}
		v = through(v, 0)
		switch x := v.(type) {
		case *ssa.Const:
			if x.Value != nil && x.Value.Kind() == constant.Bool {
				return constant.BoolVal(x.Value), true
			}
		case *ssa.UnOp:
			if x.Op == token.NOT {
				if b, ok := evalBool(x.X, d+1); ok {
					return !b, true
				}
			}
		case *ssa.Extract:
			if call, ok := x.Tuple.(*ssa.Call); ok {
				if r := retOf[call]; r != nil && r.Parent() == call.Call.StaticCallee() {
					if rv := core.RetVals(r); x.Index < len(rv) {
						return evalBool(rv[x.Index], d+1)
					}
				}
			}
		case *ssa.Call:
			if r := retOf[x]; r != nil && r.Parent() == x.Call.StaticCallee() {
				if rv := core.RetVals(r); len(rv) == 1 {
					return evalBool(rv[0], d+1)
				}
			}
		case *ssa.BinOp:
			switch x.Op {
			case token.EQL, token.NEQ, token.LSS, token.LEQ, token.GTR, token.GEQ:
			default:
				return false, false
			}
			l, r := through(x.X, 0), through(x.Y, 0)
			if x.Op == token.EQL || x.Op == token.NEQ {
				// nil-ness of a helper's error
				for _, pair := range [][2]ssa.Value{{l, r}, {r, l}} {
					if !hxIsNil(pair[1]) {
						continue
					}
					cc, idx := hxCallOf(pair[0])
					if cc == nil || !hxErrIdx(cc, idx) {
						continue
					}
					ret := retOf[cc]
					if ret == nil {
						continue
					}
					cl := hxErrOf(hxErrResult(ret))
					if !cl.Nil && !cl.NonNil && hxErrNonNilAt(hxErrResult(ret), ret.Block()) {
						cl = hxErr{NonNil: true}
					}
					if cl.Nil {
						return x.Op == token.EQL, true
					}
					if cl.NonNil {
						return x.Op == token.NEQ, true
					}
				}
			}
			lk, ok1 := l.(*ssa.Const)
			rk, ok2 := r.(*ssa.Const)
			if ok1 && ok2 && lk.Value != nil && rk.Value != nil && lk.Value.Kind() == rk.Value.Kind() {
				switch lk.Value.Kind() {
				case constant.Int:
					return constant.Compare(lk.Value, x.Op, rk.Value), true
				case constant.Bool:
					if x.Op == token.EQL || x.Op == token.NEQ {
						return (constant.BoolVal(lk.Value) == constant.BoolVal(rk.Value)) == (x.Op == token.EQL), true
					}
				}
			}
		}
		return false, false
	}
	var walk func(fr *frame, b, pred *ssa.BasicBlock, i int)
	walk = func(fr *frame, b, pred *ssa.BasicBlock, i int) {
		if !complete {
			return
		}
		type saved struct {
			phi *ssa.Phi
			old ssa.Value
			had bool
		}
		var undo []saved
		if i == 0 {
			if fr.visits[b] >= maxVisit {
				return
			}
			fr.visits[b]++
			defer func() { fr.visits[b]-- }()
			if pred != nil {
				pi := -1
				for k, p := range b.Preds {
					if p == pred {
						pi = k
					}
				}
				var vals []ssa.Value
				var phis []*ssa.Phi
				for _, in := range b.Instrs {
					phi, ok := in.(*ssa.Phi)
					if !ok {
						break
					}
					phis = append(phis, phi)
					var v ssa.Value
					if pi >= 0 {
						v = through(phi.Edges[pi], 0)
					}
					vals = append(vals, v)
				}
				for k, phi := range phis {
					old, had := env[phi]
					undo = append(undo, saved{phi, old, had})
					if vals[k] != nil && vals[k] != ssa.Value(phi) {
						env[phi] = vals[k]
					} else {
						delete(env, phi)
					}
				}
			}
		}
		defer func() {
			for k := len(undo) - 1; k >= 0; k-- {
				if undo[k].had {
					env[undo[k].phi] = undo[k].old
				} else {
					delete(env, undo[k].phi)
				}
			}
		}()
		for j := i; j < len(b.Instrs); j++ {
			in := b.Instrs[j]
			switch x := in.(type) {
			case *ssa.Call:
				h := g.helper(x)
				if h == nil {
					continue
				}
				jj := j
				nf := &frame{visits: map[*ssa.BasicBlock]int{}, call: x}
				nf.cont = func() { walk(fr, b, nil, jj+1) }
				walk(nf, h.Blocks[0], nil, 0)
				return
			case *ssa.Return:
				if fr.call == nil {
					n++
					if n > limit {
						complete = false
						return
					}
					hp := &hxPath{Facts: append([]hxFact(nil), facts...), Last: x}
					for _, rv := range core.RetVals(x) {
						hp.Results = append(hp.Results, through(rv, 0))
					}
					f(hp)
					return
				}
				old, had := retOf[fr.call]
				retOf[fr.call] = x
				fr.cont()
				if had {
					retOf[fr.call] = old
				} else {
					delete(retOf, fr.call)
				}
				return
			case *ssa.Panic:
				n++
				if n > limit {
					complete = false
					return
				}
				f(&hxPath{Facts: append([]hxFact(nil), facts...), Last: x})
				return
			case *ssa.If:
				cond := through(x.Cond, 0)
				val, known := evalBool(cond, 0)
				for k, s := range b.Succs {
					if known && val != (k == 0) {
						continue
					}
					if b.Succs[0] != b.Succs[1] {
						if _, isK := cond.(*ssa.Const); !isK {
							facts = append(facts, hxFact{cond, k == 0})
							walk(fr, s, b, 0)
							facts = facts[:len(facts)-1]
							continue
						}
					}
					walk(fr, s, b, 0)
				}
				return
			case *ssa.Jump:
				walk(fr, b.Succs[0], b, 0)
				return
			}
		}
	}
	walk(&frame{visits: map[*ssa.BasicBlock]int{}}, g.Root.Blocks[0], nil, 0)
	return complete
}

// mayIn: some instruction of helper h, or of a region helper it calls,
// satisfies pred.
func (g *hxReg) mayIn(h *ssa.Function, pred func(ssa.Instruction) bool, d int) bool {
	if d > 5 {
		return false
	}
	for _, in := range hxInstrs(h) {
		if pred(in) {
			return true
		}
		if hh := g.helper(in); hh != nil && hh != h && g.mayIn(hh, pred, d+1) {
			return true
		}
	}
	return false
}

// liftMay: pred, or a call of a region helper in which pred may happen.
func (g *hxReg) liftMay(pred func(ssa.Instruction) bool) func(ssa.Instruction) bool {
	return func(in ssa.Instruction) bool {
		if pred(in) {
			return true
		}
		h := g.helper(in)
		return h != nil && g.mayIn(h, pred, 0)
	}
}

// errCalls lists the calls of the region whose error has to be handled: the
// calls accepted by base, and the calls of region helpers that return an
// error and contain such a call themselves.
func (g *hxReg) errCalls(base func(*ssa.Call) bool) []*ssa.Call {
	var out []*ssa.Call
	isBase := func(in ssa.Instruction) bool {
		c, ok := in.(*ssa.Call)
		return ok && base(c)
	}
	for _, in := range g.Instrs() {
		call, ok := in.(*ssa.Call)
		if !ok {
			continue
		}
		if base(call) {
			out = append(out, call)
			continue
		}
		if h := g.helper(call); h != nil {
			res := h.Signature.Results()
			if res.Len() > 0 && types.Identical(res.At(res.Len()-1).Type(), types.Universe.Lookup("error").Type()) && g.mayIn(h, isBase, 0) {
				out = append(out, call)
			}
		}
	}
	return out
}

// hxOwner attributes function f to one of the reviewed functions (FuncKeys of
// package rel): f itself, or the reviewed function whose region contains f as
// a private helper. "" when there is none.
func hxOwner(p *core.Prog, rel string, f *ssa.Function, reviewed map[string]string) string {
	f = hxRootOf(f)
	k := core.FuncKey(f)
	if _, ok := reviewed[k]; ok {
		return k
	}
	for name := range reviewed {
		fn := p.Func(rel, strings.TrimPrefix(name, rel+"."))
		if fn == nil {
			continue
		}
		if g := hxRegionOf(p, fn); g != nil && g.In[f] {
			return name
		}
	}
	return ""
}

// hxResolveDeep is hxResolve that also follows a result of a single-site
// private helper to the value the helper returns there.
func hxResolveDeep(v ssa.Value) ssa.Value {
	for i := 0; i < 6; i++ {
		v = hxResolve(v)
		var call *ssa.Call
		idx := -1
		switch x := v.(type) {
		case *ssa.Call:
			call = x
		case *ssa.Extract:
			if c, ok := x.Tuple.(*ssa.Call); ok {
				call, idx = c, x.Index
			}
		}
		if call == nil {
			return v
		}
		r, ok := hxHelperResult(call, idx)
		if !ok {
			return v
		}
		v = r
	}
	return v
}

// sources lists the values v may stand for, looking through phis and through
// results of region helpers (returns of the helper that certainly carry an
// error are ignored: their other results are not used by a caller that tests
// the error).
func (g *hxReg) sources(v ssa.Value) []ssa.Value {
	var out []ssa.Value
	seen := map[ssa.Value]bool{}
	var walk func(v ssa.Value, d int)
	walk = func(v ssa.Value, d int) {
		v = hxResolve(v)
		if v == nil || seen[v] || d > 12 {
			return
		}
		seen[v] = true
		switch x := v.(type) {
		case *ssa.Phi:
			for _, e := range x.Edges {
				walk(e, d+1)
			}
			return
		case *ssa.Call, *ssa.Extract:
			call, idx := hxCallOf(x)
			if call == nil {
				break
			}
			h := g.helper(call)
			if h == nil {
				break
			}
			if idx < 0 {
				idx = 0
			}
			for _, r := range core.Returns(h) {
				rv := core.RetVals(r)
				if idx >= len(rv) {
					continue
				}
				if len(rv) > 1 && idx != len(rv)-1 {
					ev := rv[len(rv)-1]
					if types.Identical(ev.Type(), types.Universe.Lookup("error").Type()) && (hxErrOf(ev).NonNil || hxErrNonNilAt(ev, r.Block())) {
						continue
					}
				}
				walk(rv[idx], d+1)
			}
			return
		}
		out = append(out, v)
	}
	walk(v, 0)
	return out
}

// hxAnd reads v as `x & k` with a constant k on either side.
func hxAnd(v ssa.Value) (x ssa.Value, k int64, ok bool) {
	a, isA := hxResolve(v).(*ssa.BinOp)
	if !isA || a.Op != token.AND {
		return nil, 0, false
	}
	if kk, isK := hxConstInt(a.Y); isK {
		return a.X, kk, true
	}
	if kk, isK := hxConstInt(a.X); isK {
		return a.Y, kk, true
	}
	return nil, 0, false
}
