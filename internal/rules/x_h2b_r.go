package rules

// Robustness layer of the HTTP/2 server rules C35-C38 (and the C33 rules that
// live in x_h23.go): everything a rule needs in order to give the same verdict
// on behaviour-preserving restructurings of the code it is anchored in.
//
//   - regions: an anchor function together with its private helpers (package
//     local index of static call sites; core.Region has the same definition but
//     its call-site index is keyed by program and is rebuilt whenever overlay
//     mutants run concurrently)
//   - value identity across the call boundary of a private helper (parameter
//     <-> argument at the single call site, call result <-> the one value the
//     helper returns) and through predicate helpers (substitution of the
//     parameters by the arguments of the call whose result is tested)
//   - branch facts: what a condition with a given polarity implies, through
//     negations, short-circuit phis (facts common to all edges that can yield
//     the value), and calls of boolean helpers (facts common to all returns
//     that can yield the value)
//   - guards of a block including the guards at the call site of its function
//     when that function is a private single-call-site helper
//   - reachability, dominance and must-pass on the supergraph of a region
//     (calls of region members are entered, their returns continue after the
//     call sites inside the region)
//
// Nothing here matches names of locals, parameters or unexported helpers.

import (
	"go/token"
	"go/types"

	"golang.org/x/tools/go/ssa"

	"verif/internal/core"
)

// ---- package-local call-site index ------------------------------------------------

type h2bIndex struct {
	sites   map[*ssa.Function][]ssa.CallInstruction
	taken   map[*ssa.Function]bool // used as a value (method value, func value), or called from a synthetic wrapper
	regs    map[*ssa.Function]*h2bReg
	invoked map[string]bool              // names of methods called through an interface
	subst   map[*ssa.Parameter]ssa.Value // parameters of predicate helpers being expanded -> arguments
}

func (e *h2bEnv) index() *h2bIndex {
	if e.ix != nil {
		return e.ix
	}
	ix := &h2bIndex{sites: map[*ssa.Function][]ssa.CallInstruction{}, taken: map[*ssa.Function]bool{}, regs: map[*ssa.Function]*h2bReg{}, invoked: map[string]bool{}, subst: map[*ssa.Parameter]ssa.Value{}}
	e.ix = ix
	for _, fn := range e.fns {
		synthetic := fn.Synthetic != ""
		core.Instrs(fn, func(in ssa.Instruction) {
			ci, isCall := in.(ssa.CallInstruction)
			if isCall {
				if ci.Common().IsInvoke() {
					ix.invoked[ci.Common().Method.Name()] = true
				}
				if sc := ci.Common().StaticCallee(); sc != nil {
					if synthetic {
						ix.taken[sc] = true
					} else {
						ix.sites[sc] = append(ix.sites[sc], ci)
					}
				}
			}
			for _, op := range in.Operands(nil) {
				if op == nil || *op == nil {
					continue
				}
				g, ok := (*op).(*ssa.Function)
				if !ok {
					continue
				}
				if isCall && ci.Common().Value == ssa.Value(g) {
					// the callee position; arguments still count as uses
					n := 0
					for _, a := range ci.Common().Args {
						if a == ssa.Value(g) {
							n++
						}
					}
					if n == 0 {
						continue
					}
				}
				if _, isMC := in.(*ssa.MakeClosure); isMC && g.Parent() != nil {
					continue // an anonymous function bound where it is written
				}
				ix.taken[g] = true
				if g.Synthetic != "" {
					if r := e.real(g); r != nil {
						ix.taken[r] = true
					}
				}
			}
		})
	}
	return ix
}

// declare registers the named functions as anchors ahead of any region being
// computed, so that the regions a run works with do not depend on the order in
// which its rules resolve their anchors. Names that do not resolve are left to
// the rule that needs them (it records the missing anchor).
func (e *h2bEnv) declare(names ...string) {
	for _, n := range names {
		f := e.c.P.Func(h2bPkg, n)
		if f == nil || f.Blocks == nil || e.anchors[f] {
			continue
		}
		if e.anchors == nil {
			e.anchors = map[*ssa.Function]bool{}
		}
		e.anchors[f] = true
		if e.ix != nil {
			e.ix.regs = map[*ssa.Function]*h2bReg{}
		}
	}
}

// sites: the static call sites (call, defer, go) of fn inside the package.
func (e *h2bEnv) sites(fn *ssa.Function) []ssa.CallInstruction { return e.index().sites[fn] }

// private: fn is an implementation detail of its callers: a declared,
// unexported function or method of bfe_http2 with a body that is never used
// as a value. Extracting it from, or inlining it into, a caller does not
// change behaviour.
func (e *h2bEnv) private(fn *ssa.Function) bool {
	if fn == nil || fn.Blocks == nil || fn.Parent() != nil || fn.Synthetic != "" || core.FuncPkgRel(fn) != h2bPkg {
		return false
	}
	if o := fn.Object(); o == nil || o.Exported() {
		return false
	}
	if e.anchors[fn] {
		return false // named by a rule: looked at on its own
	}
	ix := e.index()
	if fn.Signature.Recv() != nil && ix.invoked[fn.Name()] {
		return false // may be the target of an interface call
	}
	return !ix.taken[fn]
}

// soleSite: the single call site of a private helper (a plain call), or nil.
func (e *h2bEnv) soleSite(fn *ssa.Function) *ssa.Call {
	if !e.private(fn) {
		return nil
	}
	s := e.sites(fn)
	if len(s) != 1 {
		return nil
	}
	c, _ := s[0].(*ssa.Call)
	return c
}

// ---- regions ----------------------------------------------------------------------

// h2bReg is an anchor function with its private helpers: functions all of
// whose call sites lie inside the region (transitively, depth <= 4), and the
// anonymous functions of the members.
type h2bReg struct {
	e    *h2bEnv
	root *ssa.Function
	fns  []*ssa.Function
	in   map[*ssa.Function]bool
}

func (e *h2bEnv) region(root *ssa.Function) *h2bReg {
	ix := e.index()
	if r := ix.regs[root]; r != nil {
		return r
	}
	r := &h2bReg{e: e, root: root, in: map[*ssa.Function]bool{}}
	ix.regs[root] = r
	if root == nil {
		return r
	}
	add := func(f *ssa.Function) {
		for _, g := range core.WithClosures(f) {
			if !r.in[g] {
				r.in[g] = true
				r.fns = append(r.fns, g)
			}
		}
	}
	add(root)
	for depth := 0; depth < 4; depth++ {
		grew := false
		for _, f := range append([]*ssa.Function(nil), r.fns...) {
			core.Instrs(f, func(x ssa.Instruction) {
				ci, ok := x.(ssa.CallInstruction)
				if !ok {
					return
				}
				h := ci.Common().StaticCallee()
				if h == nil || r.in[h] || !e.private(h) {
					return
				}
				for _, s := range e.sites(h) {
					if !r.in[s.Parent()] {
						return
					}
				}
				add(h)
				grew = true
			})
		}
		if !grew {
			break
		}
	}
	return r
}

// within: fn is the anchor or belongs to its region.
func (e *h2bEnv) within(fn, anchor *ssa.Function) bool {
	if fn == nil || anchor == nil {
		return false
	}
	return fn == anchor || e.region(anchor).in[fn]
}

// home names the function a rule attributes code of fn to: the anchor when fn
// is one of its private helpers, fn itself otherwise. Obligation keys built
// from it do not change when a helper is extracted or inlined.
func (e *h2bEnv) home(fn *ssa.Function, anchors ...*ssa.Function) *ssa.Function {
	for _, a := range anchors {
		if a != nil && fn == a {
			return a
		}
	}
	// the innermost anchor whose region holds fn
	var best *ssa.Function
	for _, a := range anchors {
		if a != nil && e.region(a).in[fn] && (best == nil || len(e.region(a).fns) < len(e.region(best).fns)) {
			best = a
		}
	}
	if best != nil {
		return best
	}
	return fn
}

// all lists the instructions of the region's functions.
func (r *h2bReg) all() []ssa.Instruction {
	var out []ssa.Instruction
	for _, f := range r.fns {
		core.Instrs(f, func(in ssa.Instruction) { out = append(out, in) })
	}
	return out
}

// ifs lists the If instructions of the region.
func (r *h2bReg) ifs() []*ssa.If {
	var out []*ssa.If
	for _, f := range r.fns {
		out = append(out, h2bIfs(f)...)
	}
	return out
}

// calls lists the calls of the named bfe_http2 callees made inside the region.
func (r *h2bReg) calls(names ...string) []ssa.CallInstruction {
	var full []string
	for _, n := range names {
		full = append(full, h2bName(n))
	}
	var out []ssa.CallInstruction
	for _, f := range r.fns {
		out = append(out, core.Calls(f, full...)...)
	}
	return out
}

// ---- supergraph queries ---------------------------------------------------------------

func h2bIdx(in ssa.Instruction) int {
	for i, x := range in.Block().Instrs {
		if x == in {
			return i
		}
	}
	return -1
}

type h2bAt struct {
	b *ssa.BasicBlock
	i int
}

// after: the position just behind in.
func h2bAfter(in ssa.Instruction) h2bAt { return h2bAt{in.Block(), h2bIdx(in) + 1} }

// isExit: in is a return of the region's anchor (the end of the behaviour the
// rule talks about; returns of helpers continue in their callers).
func (r *h2bReg) isExit(in ssa.Instruction) bool {
	_, ok := in.(*ssa.Return)
	return ok && in.Parent() == r.root && in.Block() != r.root.Recover
}

// h2bCtx is a call stack of the supergraph walk (interned: equal stacks are the
// same pointer).
type h2bCtx struct {
	site   *ssa.Call
	parent *h2bCtx
	depth  int
}

// reach: starting at the given positions, is an instruction satisfying target
// reachable without first executing one satisfying avoid? Plain calls of
// region members are entered (the instructions behind such a call are reached
// through the callee's returns, which continue behind the call they were
// entered through); a return of a member other than the anchor that was not
// entered through a call of this walk (the walk started inside it) continues
// behind each of its call sites in the region. Returns the target found.
func (r *h2bReg) reach(starts []h2bAt, avoid, target func(ssa.Instruction) bool) ssa.Instruction {
	return r.reachE(starts, avoid, target, nil)
}

// reachE is reach with a filter on branch edges: skip(b, i) tells that the
// i-th successor edge of b is not to be followed (the rule knows that nothing
// of interest can happen on paths through it).
func (r *h2bReg) reachE(starts []h2bAt, avoid, target func(ssa.Instruction) bool, skip func(b *ssa.BasicBlock, i int) bool) ssa.Instruction {
	// res: the boolean constant the most recently left helper returned, for the
	// call it was entered through (`if sc.helper() { return }` in the caller is
	// then followed only along the matching edge)
	type res struct {
		call *ssa.Call
		val  bool
	}
	type item struct {
		at  h2bAt
		ctx *h2bCtx
		res res
	}
	type ctxKey struct {
		site   *ssa.Call
		parent *h2bCtx
	}
	type seenKey struct {
		b   *ssa.BasicBlock
		i   int
		ctx *h2bCtx
		res res
	}
	interned := map[ctxKey]*h2bCtx{}
	push := func(site *ssa.Call, parent *h2bCtx) *h2bCtx {
		k := ctxKey{site, parent}
		if c := interned[k]; c != nil {
			return c
		}
		d := 1
		if parent != nil {
			d = parent.depth + 1
		}
		c := &h2bCtx{site, parent, d}
		interned[k] = c
		return c
	}
	seen := map[seenKey]bool{}
	var work []item
	add := func(at h2bAt, ctx *h2bCtx, rs res) {
		k := seenKey{at.b, at.i, ctx, rs}
		if !seen[k] {
			seen[k] = true
			work = append(work, item{at, ctx, rs})
		}
	}
	for _, s := range starts {
		add(s, nil, res{})
	}
	for len(work) > 0 {
		it := work[len(work)-1]
		work = work[:len(work)-1]
		b, ctx, rs := it.at.b, it.ctx, it.res
		stop := false
		for i := it.at.i; i < len(b.Instrs) && !stop; i++ {
			in := b.Instrs[i]
			if ret, isRet := in.(*ssa.Return); isRet && ret.Parent() != r.root {
				// a helper (or a closure, whose return ends nothing) returns
				if ctx != nil && ctx.site.Call.StaticCallee() == ret.Parent() {
					out := rs
					if vs := core.RetVals(ret); len(vs) == 1 {
						if k, isK := h2bBool(vs[0]); isK {
							out = res{ctx.site, k}
						}
					}
					add(h2bAfter(ctx.site), ctx.parent, out)
				} else if ctx == nil {
					for _, s := range r.e.sites(ret.Parent()) {
						if c, isCall := s.(*ssa.Call); isCall && r.in[c.Parent()] {
							add(h2bAfter(c), nil, res{})
						}
					}
				}
				stop = true
				break
			}
			if target(in) {
				return in
			}
			if avoid != nil && avoid(in) {
				stop = true
				break
			}
			if c, isCall := in.(*ssa.Call); isCall {
				if h := c.Call.StaticCallee(); h != nil && h != r.root && r.in[h] && h.Parent() == nil && len(h.Blocks) > 0 && (ctx == nil || ctx.depth < 6) {
					if rs.call == c {
						rs = res{}
					}
					add(h2bAt{h.Blocks[0], 0}, push(c, ctx), rs)
					stop = true
					break
				}
			}
		}
		if stop {
			continue
		}
		succs := b.Succs
		if skip != nil && len(succs) == 2 && succs[0] != succs[1] {
			var keep []*ssa.BasicBlock
			for i, sx := range succs {
				if !skip(b, i) {
					keep = append(keep, sx)
				}
			}
			for _, sx := range keep {
				add(h2bAt{sx, 0}, ctx, rs)
			}
			continue
		}
		if ifi := h2bIfOf(b); ifi != nil && rs.call != nil && len(succs) == 2 {
			cond, pol := ifi.Cond, true
			for {
				u, ok := cond.(*ssa.UnOp)
				if !ok || u.Op != token.NOT {
					break
				}
				cond, pol = u.X, !pol
			}
			if cond == ssa.Value(rs.call) {
				if rs.val == pol {
					succs = succs[:1]
				} else {
					succs = succs[1:]
				}
			}
		}
		for _, s := range succs {
			add(h2bAt{s, 0}, ctx, rs)
		}
	}
	return nil
}

func (r *h2bReg) entry() []h2bAt {
	if r.root == nil || len(r.root.Blocks) == 0 {
		return nil
	}
	return []h2bAt{{r.root.Blocks[0], 0}}
}

// reachAfter is reach starting behind from (nil: at the anchor's entry).
func (r *h2bReg) reachAfter(from ssa.Instruction, avoid, target func(ssa.Instruction) bool) ssa.Instruction {
	if from == nil {
		return r.reach(r.entry(), avoid, target)
	}
	return r.reach([]h2bAt{h2bAfter(from)}, avoid, target)
}

// reachFromBlock is reach starting at the first instruction of b.
func (r *h2bReg) reachFromBlock(b *ssa.BasicBlock, avoid, target func(ssa.Instruction) bool) ssa.Instruction {
	return r.reach([]h2bAt{{b, 0}}, avoid, target)
}

// mustPass: every path from behind `from` (nil: the anchor's entry) to a
// return of the anchor executes an instruction satisfying via. Returns the
// offending return if not.
func (r *h2bReg) mustPass(from ssa.Instruction, via func(ssa.Instruction) bool) ssa.Instruction {
	return r.reachAfter(from, via, r.isExit)
}

// dominates: a is executed before b on every path from the anchor's entry
// that reaches b (b must be reachable).
func (r *h2bReg) dominates(a, b ssa.Instruction) bool {
	if a == nil || b == nil || a == b {
		return false
	}
	if a.Parent() == b.Parent() && core.Dominates(a, b) {
		return true
	}
	isB := func(in ssa.Instruction) bool { return in == b }
	if r.reach(r.entry(), nil, isB) == nil {
		return false
	}
	return r.reach(r.entry(), func(in ssa.Instruction) bool { return in == a }, isB) == nil
}

// ---- value identity across helper boundaries ----------------------------------------

// rep gives the representative of a value: conversions and loads of spilled
// parameters peeled (h2bCanon); a parameter of a predicate helper under
// expansion is the argument of the call being expanded; a parameter of a
// private helper with a single call site is the argument passed there. (The
// result of a helper call keeps its identity as a call here; eq additionally
// identifies it with the one value the helper returns, see resultVal.)
func (e *h2bEnv) rep(v ssa.Value) ssa.Value {
	for i := 0; i < 12 && v != nil; i++ {
		v = h2bCanon(v)
		switch x := v.(type) {
		case *ssa.Parameter:
			if a, ok := e.index().subst[x]; ok {
				v = a
				continue
			}
			fn := x.Parent()
			site := e.soleSite(fn)
			if site == nil {
				return v
			}
			k := -1
			for j, p := range fn.Params {
				if p == x {
					k = j
				}
			}
			if k < 0 || k >= len(site.Call.Args) {
				return v
			}
			v = site.Call.Args[k]
			continue
		}
		return v
	}
	return v
}

// resultOf: the one value every return of the (package-local, static) callee of
// call yields at position idx, expressed in the caller's frame when it is a
// parameter of the callee. nil when there is no such single value.
func (e *h2bEnv) resultOf(call *ssa.Call, idx int) ssa.Value {
	h := call.Call.StaticCallee()
	if h == nil || h.Blocks == nil || h.Parent() != nil || h.Synthetic != "" || core.FuncPkgRel(h) != h2bPkg || call.Call.IsInvoke() {
		return nil
	}
	if idx >= h.Signature.Results().Len() {
		return nil
	}
	var one ssa.Value
	rets := core.Returns(h)
	for _, r := range rets {
		vs := core.RetVals(r)
		if idx >= len(vs) {
			return nil
		}
		w := h2bCanon(vs[idx])
		if p, ok := w.(*ssa.Parameter); ok && p.Parent() == h {
			for j, q := range h.Params {
				if q == p && j < len(call.Call.Args) {
					w = call.Call.Args[j]
				}
			}
		}
		if one != nil && one != w {
			return nil
		}
		one = w
	}
	switch x := one.(type) {
	case *ssa.Alloc, *ssa.Global, *ssa.MakeMap, *ssa.MakeChan, *ssa.MakeSlice:
		return one // the object created (or named) at that one place
	case *ssa.Parameter:
		if x.Parent() != h {
			return one // already an argument of this call
		}
		return nil
	case *ssa.Lookup, *ssa.Extract, *ssa.UnOp, *ssa.FieldAddr, *ssa.Field:
		// an expression over the callee's frame: meaningful in the caller only
		// when the callee's parameters stand for the arguments of one call
		if e.soleSite(h) == call {
			return one
		}
	default:
		if one != nil && one.Parent() == nil {
			return nil
		}
		if one != nil && one.Parent() != h {
			return one // an argument of this call (a value of the caller's frame)
		}
	}
	return nil
}

// eq: structural identity of two values as storage/expressions (h2bEq), with
// helper boundaries looked through (rep).
func (e *h2bEnv) eq(a, b ssa.Value) bool { return h2bEqAlt(e.rep, e.resultVal, a, b, 0) }

// resultVal: v is the result of a call of a package function all of whose
// returns yield one and the same value: that value (nil otherwise).
func (e *h2bEnv) resultVal(v ssa.Value) ssa.Value {
	switch x := v.(type) {
	case *ssa.Call:
		return e.resultOf(x, 0)
	case *ssa.Extract:
		if c, ok := x.Tuple.(*ssa.Call); ok {
			return e.resultOf(c, x.Index)
		}
	}
	return nil
}

// is matches the values identical to v.
func (e *h2bEnv) is(v ssa.Value) func(ssa.Value) bool {
	return func(x ssa.Value) bool { return e.eq(x, v) }
}

// fieldLoadOn: v is a load of field f of base (helper boundaries looked through).
func (e *h2bEnv) fieldLoadOn(f *types.Var, base ssa.Value) func(ssa.Value) bool {
	return func(v ssa.Value) bool {
		if f == nil {
			return false
		}
		b, ok := h2bFieldLoad(e.rep(v), f)
		return ok && e.eq(b, base)
	}
}

// ---- branch facts -----------------------------------------------------------------------

// h2bImplies: does the condition cond having truth value pol imply a relation
// accepted by pred? Looks through negations; through phis of boolean values
// (short-circuit && / ||, named booleans assembled from others): the fact must
// follow on every edge that can produce the truth value, from the edge's value
// or from the branch conditions on the way to that edge; and through calls of
// boolean functions of the package: the fact must follow at every return that
// can produce the truth value (from the returned expression or the guards of
// the return). e may be nil (no parameter substitution then).
func h2bImplies(e *h2bEnv, cond ssa.Value, pol bool, pred func(h2bRel) bool, depth int) bool {
	return h2bImpliesK(e, cond, pol, pred, depth, nil)
}

// h2bImpliesK is h2bImplies in the presence of other facts known to hold
// (the remaining guards of the block): an edge of a phi that can only be taken
// when one of the known facts is false is not a way the value was produced
// (`open := ok && st.state == 1; late := ok && st.late; if open && !late`:
// late == false did not come through the !ok edge, because open implies ok).
func h2bImpliesK(e *h2bEnv, cond ssa.Value, pol bool, pred func(h2bRel) bool, depth int, known []core.Guard) bool {
	for {
		u, ok := cond.(*ssa.UnOp)
		if !ok || u.Op != token.NOT {
			break
		}
		cond, pol = u.X, !pol
	}
	if pred(h2bRelOfCond(cond, pol)) {
		return true
	}
	if depth > 5 {
		return false
	}
	switch x := cond.(type) {
	case *ssa.BinOp:
		// b == true, b != false, ...
		if x.Op != token.EQL && x.Op != token.NEQ {
			return false
		}
		for _, pr := range [][2]ssa.Value{{x.X, x.Y}, {x.Y, x.X}} {
			if k, isK := h2bBool(pr[1]); isK {
				p2 := pol
				if (x.Op == token.EQL) != k {
					p2 = !pol
				}
				return h2bImpliesK(e, pr[0], p2, pred, depth+1, known)
			}
		}
	case *ssa.Phi:
		n := 0
		for i, ed := range x.Edges {
			k, isK := h2bBool(ed)
			if isK && k != pol {
				continue // this edge produces the other truth value
			}
			onEdge := core.GuardsOnEdge(x.Block().Preds[i], x.Block())
			if h2bContradicts(e, onEdge, known, cond, depth) {
				continue // this edge is taken only when a known fact is false
			}
			n++
			ok := !isK && h2bImpliesK(e, ed, pol, pred, depth+1, known)
			if !ok {
				for _, g := range onEdge {
					if h2bImpliesK(e, g.Cond, g.Pol, pred, depth+1, known) {
						ok = true
						break
					}
				}
			}
			if !ok {
				return false
			}
		}
		return n > 0
	case *ssa.Call:
		h := x.Call.StaticCallee()
		if h == nil || h.Blocks == nil || x.Call.IsInvoke() || x.Parent() == nil || h.Pkg == nil || h.Pkg != x.Parent().Pkg || h.Signature.Results().Len() != 1 {
			return false
		}
		if bt, ok := h.Signature.Results().At(0).Type().Underlying().(*types.Basic); !ok || bt.Kind() != types.Bool {
			return false
		}
		if e != nil {
			ix := e.index()
			for j, p := range h.Params {
				if j < len(x.Call.Args) {
					if old, had := ix.subst[p]; had {
						defer func(p *ssa.Parameter, old ssa.Value) { ix.subst[p] = old }(p, old)
					} else {
						defer func(p *ssa.Parameter) { delete(ix.subst, p) }(p)
					}
					ix.subst[p] = x.Call.Args[j]
				}
			}
		}
		n := 0
		for _, r := range core.Returns(h) {
			v := core.RetVals(r)[0]
			k, isK := h2bBool(v)
			if isK && k != pol {
				continue
			}
			n++
			if !isK && h2bImplies(e, v, pol, pred, depth+1) {
				continue
			}
			if !h2bGuardedD(e, r.Block(), pred, depth+1) {
				return false
			}
		}
		return n > 0
	}
	return false
}

// h2bContradicts: one of the guards in onEdge is the negation of something the
// known facts (other than the one about self) imply.
func h2bContradicts(e *h2bEnv, onEdge, known []core.Guard, self ssa.Value, depth int) bool {
	if len(known) == 0 || depth > 3 {
		return false
	}
	for _, g := range onEdge {
		neg := h2bRelOfCond(g.Cond, !g.Pol)
		same := func(r h2bRel) bool {
			if neg.Op == token.ILLEGAL {
				return r.Op == token.ILLEGAL && r.Bool == neg.Bool && r.Pol == neg.Pol
			}
			return r.Cmp(neg.Op, func(v ssa.Value) bool { return v == neg.X }, func(v ssa.Value) bool { return v == neg.Y })
		}
		for _, k := range known {
			c := k.Cond
			for {
				u, ok := c.(*ssa.UnOp)
				if !ok || u.Op != token.NOT {
					break
				}
				c = u.X
			}
			if c == self {
				continue
			}
			if h2bImpliesK(e, k.Cond, k.Pol, same, depth+2, nil) {
				return true
			}
		}
	}
	return false
}

// h2bGuardedD: on every way into b a fact accepted by pred has been established
// (by the conditions that hold on every path to b, or - for a block entered
// through several edges, `if a || b {…}` - on each entering edge separately).
func h2bGuardedD(e *h2bEnv, b *ssa.BasicBlock, pred func(r h2bRel) bool, depth int) bool {
	try := func(gs []core.Guard) bool {
		for _, g := range gs {
			if h2bImpliesK(e, g.Cond, g.Pol, pred, depth, gs) {
				return true
			}
		}
		return false
	}
	if try(core.GuardsAt(b)) {
		return true
	}
	if len(b.Preds) < 2 {
		return false
	}
	for _, p := range b.Preds {
		if !try(core.GuardsOnEdge(p, b)) {
			return false
		}
	}
	return true
}

// guarded: on every way into b a fact accepted by pred has been established,
// in b's function or - when that function is a private helper with a single
// call site - on the way to that call site (outwards, depth <= 4).
func (e *h2bEnv) guarded(b *ssa.BasicBlock, pred func(r h2bRel) bool) bool {
	for depth := 0; depth < 5 && b != nil; depth++ {
		if h2bGuardedD(e, b, pred, 0) {
			return true
		}
		site := e.soleSite(b.Parent())
		if site == nil {
			return false
		}
		b = site.Block()
	}
	return false
}

// guardsCtx lists the guards established at b and at the call sites b's
// function is reached through (private single-call-site helpers, outwards).
func (e *h2bEnv) guardsCtx(b *ssa.BasicBlock) []core.Guard {
	var out []core.Guard
	for depth := 0; depth < 5 && b != nil; depth++ {
		out = append(out, core.GuardsAt(b)...)
		site := e.soleSite(b.Parent())
		if site == nil {
			break
		}
		b = site.Block()
	}
	return out
}

// someEdge: some way of entering b establishes a fact accepted by m (a block
// reached through an `a || b || c` chain: each disjunct is a separate reason).
func (e *h2bEnv) someEdge(b *ssa.BasicBlock, m func(h2bRel) bool) bool {
	var gs []core.Guard
	gs = append(gs, core.GuardsAt(b)...)
	for _, p := range b.Preds {
		gs = append(gs, core.GuardsOnEdge(p, b)...)
	}
	for _, g := range gs {
		if h2bImplies(e, g.Cond, g.Pol, m, 0) {
			return true
		}
		for _, r := range h2bExpand(g.Cond, g.Pol, 0) {
			if m(r) {
				return true
			}
		}
		if h2bSomeWay(g.Cond, g.Pol, m, 0) {
			return true
		}
	}
	return false
}

// h2bSomeWay: is there a way for cond to take the truth value pol on which a
// relation accepted by m holds? This is the existential reading needed for
// "one of the tests that lead into the rejecting block is X": with
// `if a || b || c { reject }` every disjunct has its own edge into the block,
// but in value context (`bad := a || b || c`, a tagless switch case) go/ssa
// merges them into one boolean phi; each incoming edge of the phi that can
// carry pol is then one way in, established by the guards on that edge and by
// the value flowing in.
func h2bSomeWay(cond ssa.Value, pol bool, m func(h2bRel) bool, depth int) bool {
	if depth > 5 {
		return false
	}
	for {
		u, ok := cond.(*ssa.UnOp)
		if !ok || u.Op != token.NOT {
			break
		}
		cond, pol = u.X, !pol
	}
	if m(h2bRelOfCond(cond, pol)) {
		return true
	}
	phi, ok := cond.(*ssa.Phi)
	if !ok {
		return false
	}
	for i, ed := range phi.Edges {
		k, isK := h2bBool(ed)
		if isK && k != pol {
			continue
		}
		if !isK && h2bSomeWay(ed, pol, m, depth+1) {
			return true
		}
		pred := phi.Block().Preds[i]
		var gs []core.Guard
		gs = append(gs, core.GuardsOnEdge(pred, phi.Block())...)
		// guards of the chain of short-circuit blocks that leads to this edge
		for _, g := range core.GuardsAt(pred) {
			if g.If != nil && g.If.Block().Parent() == phi.Parent() && phi.Block().Dominates(g.If.Block()) {
				continue
			}
			gs = append(gs, g)
		}
		for _, g := range gs {
			if m(h2bRelOfCond(g.Cond, g.Pol)) || h2bSomeWay(g.Cond, g.Pol, m, depth+1) {
				return true
			}
		}
	}
	return false
}

// guardList renders the guards of b and of the call sites it is reached through.
func (e *h2bEnv) guardList(b *ssa.BasicBlock) string {
	s := h2bGuardList(b)
	for depth := 0; depth < 4; depth++ {
		site := e.soleSite(b.Parent())
		if site == nil {
			break
		}
		b = site.Block()
		s += " <- " + h2bGuardList(b)
	}
	return s
}

// branchOn finds, among the given Ifs, a branch one of whose edges implies a
// relation accepted by m while the other edge implies one accepted by notM
// (nil: not required); returns the If and the successor on which m holds.
func (e *h2bEnv) branchOn(ifs []*ssa.If, m, notM func(h2bRel) bool) (*ssa.If, *ssa.BasicBlock) {
	for _, ifi := range ifs {
		b := ifi.Block()
		if len(b.Succs) != 2 || b.Succs[0] == b.Succs[1] {
			continue
		}
		for j, pol := range []bool{true, false} {
			if h2bImplies(e, ifi.Cond, pol, m, 0) && (notM == nil || h2bImplies(e, ifi.Cond, !pol, notM, 0)) {
				return ifi, b.Succs[j]
			}
		}
	}
	return nil, nil
}
