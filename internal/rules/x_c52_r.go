package rules

import (
	"fmt"
	"go/constant"
	"go/token"
	"go/types"
	"sort"
	"strings"

	"golang.org/x/tools/go/ssa"

	"verif/internal/core"
)

// Helpers of C52 that make its rules independent of how mod_cors is cut into
// functions and of the shape of its branches:
//   - "allowed" facts (matchOriginAllowed() returned true) and the matched origin
//     are followed through results and parameters of private helpers and through
//     phis (named booleans / intermediates);
//   - must-pass obligations are decided by a path search that (a) continues at
//     the call sites of a private helper when the helper returns before the
//     obligation is met, knowing which constants the helper returned, and (b)
//     does not follow branch edges that contradict what the path already knows
//     (a result of a call restricted to the values the callee can return together
//     with an already observed result; a few library facts).

const c52pkg = "bfe_modules/mod_cors"

type c52an struct {
	p     *core.Prog
	fns   []*ssa.Function
	taken map[*ssa.Function]bool
	cyc   map[*ssa.BasicBlock]bool
	busy  map[string]bool
}

func newC52an(p *core.Prog) *c52an {
	return &c52an{p: p, fns: p.SrcFuncs(c52pkg), taken: map[*ssa.Function]bool{}, cyc: map[*ssa.BasicBlock]bool{}, busy: map[string]bool{}}
}

// ---------------------------------------------------------------- values

// c52normBool peels "!x", "x == true/false", "x != true/false": v is true iff
// base is pol.
func c52normBool(v ssa.Value) (base ssa.Value, pol bool) {
	pol = true
	for i := 0; i < 8; i++ {
		v = core.StripConv(v)
		switch x := v.(type) {
		case *ssa.UnOp:
			if x.Op == token.NOT {
				v, pol = x.X, !pol
				continue
			}
		case *ssa.BinOp:
			if x.Op == token.EQL || x.Op == token.NEQ {
				for k, o := range []ssa.Value{x.Y, x.X} {
					if cb, ok := c52constBool(o); ok {
						other := x.X
						if k == 1 {
							other = x.Y
						}
						if (x.Op == token.EQL) != cb {
							pol = !pol
						}
						v = other
						goto next
					}
				}
			}
		}
		return v, pol
	next:
	}
	return v, pol
}

func c52constBool(v ssa.Value) (bool, bool) {
	c, ok := core.StripConv(v).(*ssa.Const)
	if !ok || c.Value == nil || c.Value.Kind() != constant.Bool {
		return false, false
	}
	return constant.BoolVal(c.Value), true
}

func c52isBool(t types.Type) bool {
	b, ok := t.Underlying().(*types.Basic)
	return ok && b.Info()&types.IsBoolean != 0
}

// callOf: v is result #idx of a call (idx 0 also for a single-result call).
func c52callOf(v ssa.Value) (call *ssa.Call, idx int, ok bool) {
	v = core.StripConv(v)
	switch x := v.(type) {
	case *ssa.Extract:
		if c, isCall := x.Tuple.(*ssa.Call); isCall {
			return c, x.Index, true
		}
	case *ssa.Call:
		if _, isTuple := x.Type().(*types.Tuple); !isTuple {
			return x, 0, true
		}
	}
	return nil, 0, false
}

// resultValues: the SSA values in the caller that hold result #idx of call.
func c52resultValues(call *ssa.Call, idx int) []ssa.Value {
	if _, isTuple := call.Type().(*types.Tuple); !isTuple {
		if idx == 0 {
			return []ssa.Value{call}
		}
		return nil
	}
	var out []ssa.Value
	if call.Referrers() != nil {
		for _, r := range *call.Referrers() {
			if ex, ok := r.(*ssa.Extract); ok && ex.Index == idx {
				out = append(out, ex)
			}
		}
	}
	return out
}

// body returns the static callee of a call when it is a function of mod_cors
// with a body.
func (a *c52an) body(c *ssa.CallCommon) *ssa.Function {
	if c.IsInvoke() {
		return nil
	}
	h := c.StaticCallee()
	if h == nil || h.Blocks == nil || core.FuncPkgRel(h) != c52pkg {
		return nil
	}
	return h
}

func (a *c52an) isMatchFn(h *ssa.Function) bool {
	return h != nil && core.FuncKey(h) == c52pkg+".matchOriginAllowed"
}

// helper: f is an implementation detail of its callers: unexported, never used
// as a value or through an interface, and called only by plain static calls.
// Returns its call sites (nil when f is not such a helper).
func (a *c52an) helper(f *ssa.Function) []*ssa.Call {
	if f == nil || f.Blocks == nil || f.Parent() != nil || f.Object() == nil || f.Object().Exported() || core.FuncPkgRel(f) != c52pkg {
		return nil
	}
	tk, done := a.taken[f]
	if !done {
		for _, g := range a.fns {
			core.Instrs(g, func(in ssa.Instruction) {
				if ci, ok := in.(ssa.CallInstruction); ok && ci.Common().IsInvoke() && ci.Common().Method.Name() == f.Name() {
					tk = true
				}
				for _, op := range in.Operands(nil) {
					if op == nil || *op == nil {
						continue
					}
					fv, ok := (*op).(*ssa.Function)
					if !ok || (fv != f && (fv.Object() == nil || fv.Object() != f.Object())) {
						continue
					}
					if ci, isCall := in.(ssa.CallInstruction); isCall && ci.Common().Value == ssa.Value(f) {
						continue
					}
					tk = true
				}
			})
		}
		a.taken[f] = tk
	}
	if tk {
		return nil
	}
	var out []*ssa.Call
	for _, s := range a.p.CallSites(f) {
		c, ok := s.(*ssa.Call)
		if !ok {
			return nil // go / defer: not a plain call
		}
		out = append(out, c)
	}
	return out
}

func c52paramIndex(v ssa.Value) (*ssa.Function, int) {
	pa, ok := v.(*ssa.Parameter)
	if !ok || pa.Parent() == nil {
		return nil, -1
	}
	for i, q := range pa.Parent().Params {
		if q == pa {
			return pa.Parent(), i
		}
	}
	return nil, -1
}

// impliesAllowed: whenever v is true, a call of matchOriginAllowed has returned
// true: result #0 of that call; a result of a helper all of whose returns yield
// constant false, such a value, or lie under an "allowed" guard; a phi of such
// values (edges that carry false or are entered under an "allowed" guard are
// harmless); a parameter of a private helper that receives such a value at every
// call site.
func (a *c52an) impliesAllowed(v ssa.Value, depth int) bool {
	v = core.StripConv(v)
	if depth <= 0 || v == nil {
		return false
	}
	key := fmt.Sprintf("ia|%p", v)
	if a.busy[key] {
		return false
	}
	a.busy[key] = true
	defer delete(a.busy, key)
	if call, idx, ok := c52callOf(v); ok {
		h := a.body(&call.Call)
		if h == nil {
			return false
		}
		if a.isMatchFn(h) {
			return idx == 0
		}
		rets := core.Returns(h)
		if len(rets) == 0 {
			return false
		}
		for _, r := range rets {
			rv := core.RetVals(r)
			if idx >= len(rv) {
				return false
			}
			if cb, isC := c52constBool(rv[idx]); isC && !cb {
				continue
			}
			if a.guardedAllowed(r.Block(), depth-1) {
				continue
			}
			if b, pol := c52normBool(rv[idx]); pol && a.impliesAllowed(b, depth-1) {
				continue
			}
			return false
		}
		return true
	}
	switch x := v.(type) {
	case *ssa.Phi:
		for i, e := range x.Edges {
			if cb, isC := c52constBool(e); isC && !cb {
				continue
			}
			if b, pol := c52normBool(e); pol && a.impliesAllowed(b, depth-1) {
				continue
			}
			if i < len(x.Block().Preds) && a.edgeAllowed(x.Block().Preds[i], x.Block(), depth-1) {
				continue
			}
			return false
		}
		return len(x.Edges) > 0
	case *ssa.Parameter:
		f, k := c52paramIndex(x)
		sites := a.helper(f)
		if len(sites) == 0 {
			return false
		}
		for _, s := range sites {
			if k >= len(s.Call.Args) {
				return false
			}
			b, pol := c52normBool(s.Call.Args[k])
			if !pol || !a.impliesAllowed(b, depth-1) {
				return false
			}
		}
		return true
	}
	return false
}

func (a *c52an) allowedGuard(g core.Guard, depth int) bool {
	b, pol := c52normBool(g.Cond)
	return g.Pol == pol && a.impliesAllowed(b, depth)
}

// edgeAllowed: control moving from pred to succ has established "allowed".
func (a *c52an) edgeAllowed(pred, succ *ssa.BasicBlock, depth int) bool {
	for _, g := range core.GuardsOnEdge(pred, succ) {
		if a.allowedGuard(g, depth) {
			return true
		}
	}
	return false
}

// guardedAllowed: every way of reaching b has established "allowed": a guard at
// b (or one on each edge entering b), or - b lying in a private helper - the
// same at every call site of the helper.
func (a *c52an) guardedAllowed(b *ssa.BasicBlock, depth int) bool {
	if depth <= 0 {
		return false
	}
	if core.AllEdgesGuarded(b, func(g core.Guard) bool { return a.allowedGuard(g, depth) }) {
		return true
	}
	sites := a.helper(b.Parent())
	if len(sites) == 0 {
		return false
	}
	key := fmt.Sprintf("ga|%p", b.Parent())
	if a.busy[key] {
		return false
	}
	a.busy[key] = true
	defer delete(a.busy, key)
	for _, s := range sites {
		if !a.guardedAllowed(s.Block(), depth-1) {
			return false
		}
	}
	return true
}

// originOK: v is the origin the matching rule yields: result #1 of
// matchOriginAllowed; the result of a helper that returns such a value on every
// return that does not report "not allowed" through a boolean result the use is
// guarded by; a phi of such values; a parameter of a private helper receiving
// such a value at every call site. at is the block of the use.
func (a *c52an) originOK(v ssa.Value, at *ssa.BasicBlock, depth int) bool {
	v = core.StripConv(v)
	if depth <= 0 || v == nil {
		return false
	}
	key := fmt.Sprintf("oo|%p", v)
	if a.busy[key] {
		return false
	}
	a.busy[key] = true
	defer delete(a.busy, key)
	if call, idx, ok := c52callOf(v); ok {
		h := a.body(&call.Call)
		if h == nil {
			return false
		}
		if a.isMatchFn(h) {
			return idx == 1
		}
		rets := core.Returns(h)
		if len(rets) == 0 {
			return false
		}
		for _, r := range rets {
			rv := core.RetVals(r)
			if idx >= len(rv) {
				return false
			}
			if a.originOK(rv[idx], r.Block(), depth-1) {
				continue
			}
			// a return that reports failure through a boolean result which the use tests
			excused := false
			for i, x := range rv {
				cb, isC := c52constBool(x)
				if i == idx || !isC {
					continue
				}
				for _, res := range c52resultValues(call, i) {
					if at != nil && a.holdsAt(at, res, !cb) {
						excused = true
					}
				}
			}
			if !excused {
				return false
			}
		}
		return true
	}
	switch x := v.(type) {
	case *ssa.Phi:
		for _, e := range x.Edges {
			if !a.originOK(e, at, depth-1) {
				return false
			}
		}
		return len(x.Edges) > 0
	case *ssa.Parameter:
		f, k := c52paramIndex(x)
		sites := a.helper(f)
		if len(sites) == 0 {
			return false
		}
		for _, s := range sites {
			if k >= len(s.Call.Args) || !a.originOK(s.Call.Args[k], s.Block(), depth-1) {
				return false
			}
		}
		return true
	}
	return false
}

// holdsAt: on every way of reaching b the boolean value v has been tested and
// found to be want.
func (a *c52an) holdsAt(b *ssa.BasicBlock, v ssa.Value, want bool) bool {
	return core.AllEdgesGuarded(b, func(g core.Guard) bool {
		base, pol := c52normBool(g.Cond)
		return base == v && (g.Pol == pol) == want
	})
}

// ---------------------------------------------------------------- feasibility

// c52state maps a value to the values it can still be equal to on the current
// path (constants or values of the same function). Absent = unknown.
type c52state map[ssa.Value][]ssa.Value

func (s c52state) with(v ssa.Value, set []ssa.Value) c52state {
	n := make(c52state, len(s)+1)
	for k, x := range s {
		n[k] = x
	}
	n[v] = set
	return n
}

func (s c52state) sig() string {
	var parts []string
	for k, set := range s {
		var m []string
		for _, x := range set {
			if c, ok := x.(*ssa.Const); ok {
				m = append(m, "c:"+core.Render(c))
			} else {
				m = append(m, fmt.Sprintf("%p", x))
			}
		}
		sort.Strings(m)
		parts = append(parts, fmt.Sprintf("%p={%s}", k, strings.Join(m, ",")))
	}
	sort.Strings(parts)
	return strings.Join(parts, ";")
}

// inCycle: b can reach itself (values defined there are re-evaluated, facts
// about them do not survive the back edge: they are not tracked).
func (a *c52an) inCycle(b *ssa.BasicBlock) bool {
	if r, ok := a.cyc[b]; ok {
		return r
	}
	seen := map[*ssa.BasicBlock]bool{}
	work := append([]*ssa.BasicBlock(nil), b.Succs...)
	res := false
	for len(work) > 0 && !res {
		x := work[len(work)-1]
		work = work[:len(work)-1]
		if x == b {
			res = true
			break
		}
		if seen[x] {
			continue
		}
		seen[x] = true
		work = append(work, x.Succs...)
	}
	a.cyc[b] = res
	return res
}

func (a *c52an) trackable(v ssa.Value) bool {
	in, ok := v.(ssa.Instruction)
	if !ok {
		_, isParam := v.(*ssa.Parameter)
		return isParam
	}
	return in.Block() != nil && !a.inCycle(in.Block())
}

func c52constEq(x, y *ssa.Const) bool {
	if x.Value == nil || y.Value == nil {
		return x.Value == nil && y.Value == nil
	}
	if x.Value.Kind() != y.Value.Kind() {
		return false
	}
	return constant.Compare(x.Value, token.EQL, y.Value)
}

func c52mustEq(m, o ssa.Value) bool {
	if m == o {
		return true
	}
	cm, ok1 := m.(*ssa.Const)
	co, ok2 := o.(*ssa.Const)
	return ok1 && ok2 && c52constEq(cm, co)
}

func c52mayEq(m, o ssa.Value) bool {
	cm, ok1 := m.(*ssa.Const)
	co, ok2 := o.(*ssa.Const)
	return !(ok1 && ok2 && !c52constEq(cm, co))
}

// c52libraryInfeasible: branch edges that cannot be taken whatever the input,
// by the documented contract of the standard library: strings.Split(s, sep)
// with a non-empty constant sep returns at least one element.
func c52libraryInfeasible(cond ssa.Value, taken bool) bool {
	g := core.Guard{Cond: cond, Pol: taken}
	lenSplit := func(v ssa.Value) bool {
		c, ok := core.StripConv(v).(*ssa.Call)
		if !ok || len(c.Call.Args) != 1 {
			return false
		}
		if b, isB := c.Call.Value.(*ssa.Builtin); !isB || b.Name() != "len" {
			return false
		}
		sp, ok := core.StripConv(c.Call.Args[0]).(*ssa.Call)
		if !ok || !core.CallIs(&sp.Call, "strings.Split") || len(sp.Call.Args) != 2 {
			return false
		}
		sep, isConst := core.ConstString(sp.Call.Args[1])
		return isConst && sep != ""
	}
	intIs := func(n int64) func(ssa.Value) bool {
		return func(v ssa.Value) bool {
			c, ok := core.StripConv(v).(*ssa.Const)
			if !ok || c.Value == nil || c.Value.Kind() != constant.Int {
				return false
			}
			x, exact := constant.Int64Val(c.Value)
			return exact && x == n
		}
	}
	return g.CmpIs(token.EQL, lenSplit, intIs(0)) || g.CmpIs(token.LEQ, lenSplit, intIs(0)) || g.CmpIs(token.LSS, lenSplit, intIs(1))
}

// calleeValue maps a value returned by callee h into the frame of the call:
// constants stay, a parameter becomes the argument; anything else is unknown.
func c52calleeValue(v ssa.Value, call *ssa.Call) ssa.Value {
	v = core.StripConv(v)
	if c, ok := v.(*ssa.Const); ok {
		return c
	}
	if _, k := c52paramIndex(v); k >= 0 && k < len(call.Call.Args) {
		return core.StripConv(call.Call.Args[k])
	}
	return nil
}

// learnResult: the path has learnt that result #idx of call (a boolean) is
// want; the other results of the same call are restricted to what the callee
// returns together with such a value.
func (a *c52an) learnResult(st c52state, call *ssa.Call, idx int, want bool) c52state {
	h := a.body(&call.Call)
	if h == nil {
		return st
	}
	var rets [][]ssa.Value
	for _, r := range core.Returns(h) {
		rv := core.RetVals(r)
		if idx >= len(rv) {
			return st
		}
		if cb, isC := c52constBool(rv[idx]); isC && cb != want {
			continue
		}
		rets = append(rets, rv)
	}
	if len(rets) == 0 {
		return st
	}
	for j := range rets[0] {
		if j == idx {
			continue
		}
		var set []ssa.Value
		known := true
		for _, rv := range rets {
			m := c52calleeValue(rv[j], call)
			if m == nil {
				known = false
				break
			}
			set = append(set, m)
		}
		if !known {
			continue
		}
		for _, res := range c52resultValues(call, j) {
			if _, has := st[res]; !has && a.trackable(res) {
				st = st.with(res, set)
			}
		}
	}
	return st
}

// edge: can the branch on cond be taken in direction `taken` given st, and what
// does the path know afterwards?
func (a *c52an) edge(st c52state, cond ssa.Value, taken bool) (c52state, bool) {
	if c52libraryInfeasible(cond, taken) {
		return st, false
	}
	base, pol := c52normBool(cond)
	want := taken == pol
	if cb, isC := c52constBool(base); isC {
		return st, cb == want
	}
	if set, has := st[base]; has {
		ok := false
		for _, m := range set {
			if cb, isC := c52constBool(m); !isC || cb == want {
				ok = true
			}
		}
		if !ok {
			return st, false
		}
	}
	if bo, isB := base.(*ssa.BinOp); isB && (bo.Op == token.EQL || bo.Op == token.NEQ) {
		eq := (bo.Op == token.EQL) == want
		x, y := core.StripConv(bo.X), core.StripConv(bo.Y)
		for _, pr := range [][2]ssa.Value{{x, y}, {y, x}} {
			set, has := st[pr[0]]
			if !has {
				continue
			}
			var keep []ssa.Value
			for _, m := range set {
				if eq && c52mayEq(m, pr[1]) || !eq && !c52mustEq(m, pr[1]) {
					keep = append(keep, m)
				}
			}
			if len(keep) == 0 {
				return st, false
			}
			st = st.with(pr[0], keep)
		}
		return st, true
	}
	if a.trackable(base) && c52isBool(base.Type()) {
		st = st.with(base, []ssa.Value{ssa.NewConst(constant.MakeBool(want), base.Type())})
		if call, idx, ok := c52callOf(base); ok {
			st = a.learnResult(st, call, idx, want)
		}
	}
	return st, true
}

// escapes searches the feasible paths that start at instruction index i of
// block b for one that reaches a return without executing an instruction
// accepted by pass. When the function is a private helper the search goes on
// behind each of its call sites, knowing the constants this return yields.
// Paths that end in a panic carry no obligation. Returns the offending return.
func (a *c52an) escapes(b *ssa.BasicBlock, i int, st c52state, pass func(ssa.Instruction) bool, depth int) ssa.Instruction {
	type item struct {
		b  *ssa.BasicBlock
		i  int
		st c52state
	}
	seen := map[string]bool{}
	work := []item{{b, i, st}}
	steps := 0
	for len(work) > 0 {
		it := work[len(work)-1]
		work = work[:len(work)-1]
		if steps++; steps > 20000 {
			return it.b.Instrs[len(it.b.Instrs)-1] // undecided counts as escaping
		}
		if it.i == 0 {
			k := fmt.Sprintf("%d|%s", it.b.Index, it.st.sig())
			if seen[k] {
				continue
			}
			seen[k] = true
		}
		done := false
		for j := it.i; j < len(it.b.Instrs) && !done; j++ {
			in := it.b.Instrs[j]
			if pass(in) {
				done = true
				break
			}
			switch x := in.(type) {
			case *ssa.Panic:
				done = true
			case *ssa.Return:
				done = true
				sites := a.helper(it.b.Parent())
				if depth <= 0 || len(sites) == 0 {
					return in
				}
				rv := core.RetVals(x)
				for _, s := range sites {
					cst := c52state{}
					for k, r := range rv {
						m := c52calleeValue(r, s)
						if m == nil {
							continue
						}
						for _, res := range c52resultValues(s, k) {
							if a.trackable(res) {
								cst = cst.with(res, []ssa.Value{m})
							}
						}
					}
					if bad := a.escapes(s.Block(), c52idx(s)+1, cst, pass, depth-1); bad != nil {
						return bad
					}
				}
			case *ssa.If:
				for k, succ := range it.b.Succs {
					if it.b.Succs[0] == it.b.Succs[1] {
						work = append(work, item{succ, 0, it.st})
						break
					}
					if nst, ok := a.edge(it.st, x.Cond, k == 0); ok {
						work = append(work, item{succ, 0, nst})
					}
				}
				done = true
			}
		}
		if !done {
			for _, succ := range it.b.Succs {
				work = append(work, item{succ, 0, it.st})
			}
		}
	}
	return nil
}

func c52idx(in ssa.Instruction) int {
	for i, x := range in.Block().Instrs {
		if x == in {
			return i
		}
	}
	return -1
}

// ---------------------------------------------------------------- matchOriginAllowed

// impliesHit: v true means a lookup in a CorsRule's AccessControlAllowOriginMap
// succeeded: the comma-ok result of such a lookup, a phi of such values, or the
// boolean result of a helper whose every return that can yield true lies behind
// a successful lookup.
func (a *c52an) impliesHit(v ssa.Value, depth int) bool {
	v = core.StripConv(v)
	if depth <= 0 || v == nil {
		return false
	}
	switch x := v.(type) {
	case *ssa.Extract:
		if lk, ok := x.Tuple.(*ssa.Lookup); ok && lk.CommaOk && x.Index == 1 {
			return c52isAllowOriginMap(lk.X)
		}
	case *ssa.Phi:
		key := fmt.Sprintf("ih|%p", v)
		if a.busy[key] {
			return false
		}
		a.busy[key] = true
		defer delete(a.busy, key)
		for _, e := range x.Edges {
			if cb, isC := c52constBool(e); isC && !cb {
				continue
			}
			if b, pol := c52normBool(e); !pol || !a.impliesHit(b, depth-1) {
				return false
			}
		}
		return len(x.Edges) > 0
	}
	if call, idx, ok := c52callOf(v); ok {
		h := a.body(&call.Call)
		if h == nil || a.isMatchFn(h) {
			return false
		}
		rets := core.Returns(h)
		for _, r := range rets {
			rv := core.RetVals(r)
			if idx >= len(rv) {
				return false
			}
			if cb, isC := c52constBool(rv[idx]); isC && !cb {
				continue
			}
			if b, pol := c52normBool(rv[idx]); pol && a.impliesHit(b, depth-1) {
				continue
			}
			if a.reachableWithoutHit(h, r, depth-1) {
				return false
			}
		}
		return len(rets) > 0
	}
	return false
}

func c52isAllowOriginMap(m ssa.Value) bool {
	m = core.StripConv(m)
	if u, ok := m.(*ssa.UnOp); ok && u.Op == token.MUL {
		if fa, ok := u.X.(*ssa.FieldAddr); ok {
			f := core.FieldObj(fa.X, fa.Field)
			return f != nil && f.Name() == "AccessControlAllowOriginMap"
		}
	}
	if f, ok := m.(*ssa.Field); ok {
		fo := core.FieldObj(f.X, f.Field)
		return fo != nil && fo.Name() == "AccessControlAllowOriginMap"
	}
	return false
}

// hitEdge: the branch from b to its successor #k establishes a successful lookup.
func (a *c52an) hitEdge(b *ssa.BasicBlock, k int, depth int) bool {
	ifi, ok := b.Instrs[len(b.Instrs)-1].(*ssa.If)
	if !ok || len(b.Succs) != 2 || b.Succs[0] == b.Succs[1] {
		return false
	}
	base, pol := c52normBool(ifi.Cond)
	return (k == 0) == pol && a.impliesHit(base, depth)
}

// reachFrom: is target reachable from the entry of block start without crossing
// a hit edge?
func (a *c52an) reachNoHit(start *ssa.BasicBlock, target ssa.Instruction, depth int) bool {
	seen := map[*ssa.BasicBlock]bool{start: true}
	work := []*ssa.BasicBlock{start}
	for len(work) > 0 {
		b := work[len(work)-1]
		work = work[:len(work)-1]
		if b == target.Block() {
			return true
		}
		for k, s := range b.Succs {
			if seen[s] || a.hitEdge(b, k, depth) {
				continue
			}
			seen[s] = true
			work = append(work, s)
		}
	}
	return false
}

func (a *c52an) reachableWithoutHit(fn *ssa.Function, r *ssa.Return, depth int) bool {
	if len(fn.Blocks) == 0 {
		return true
	}
	return a.reachNoHit(fn.Blocks[0], r, depth)
}

// hitEdgesReaching lists (a label of) the hit edges from which r is reachable:
// the rendered key of the lookup, "derived" when the hit comes through a phi or
// a helper.
func (a *c52an) hitEdgesReaching(fn *ssa.Function, r *ssa.Return, depth int) []string {
	var out []string
	for _, b := range fn.Blocks {
		for k, s := range b.Succs {
			if !a.hitEdge(b, k, depth) {
				continue
			}
			seen := map[*ssa.BasicBlock]bool{s: true}
			work := []*ssa.BasicBlock{s}
			found := false
			for len(work) > 0 && !found {
				x := work[len(work)-1]
				work = work[:len(work)-1]
				if x == r.Block() {
					found = true
					break
				}
				for _, y := range x.Succs {
					if !seen[y] {
						seen[y] = true
						work = append(work, y)
					}
				}
			}
			if !found {
				continue
			}
			label := "derived"
			base, _ := c52normBool(b.Instrs[len(b.Instrs)-1].(*ssa.If).Cond)
			if ex, ok := core.StripConv(base).(*ssa.Extract); ok {
				if lk, ok := ex.Tuple.(*ssa.Lookup); ok {
					label = core.Render(lk.Index)
				}
			}
			out = append(out, label)
		}
	}
	sort.Strings(out)
	return out
}

// ---------------------------------------------------------------- addVaryHeader

// observesEdge: taking this edge the path has seen that a value equals
// "Origin" or "*".
func c52observesEdge(cond ssa.Value, taken bool) bool {
	base, pol := c52normBool(cond)
	g := core.Guard{Cond: base, Pol: taken == pol}
	any := func(ssa.Value) bool { return true }
	lit := func(v ssa.Value) bool {
		s, ok := core.ConstString(v)
		return ok && (s == "Origin" || s == "*")
	}
	return g.CmpIs(token.EQL, any, lit)
}

// varyPaths enumerates the feasible paths of fn and reports the first one that
// can yield result `want` (any result when fn is addVaryHeader itself: top=true)
// without writing Vary and without having observed Origin/* - where a branch on
// the boolean result of a helper counts as an observation when every path of
// the helper yielding that result has observed it.
func (a *c52an) varyPaths(fn *ssa.Function, top bool, want bool, depth int) (n int, complete bool, bad string) {
	isWrite := core.LiftMust(func(in ssa.Instruction) bool {
		name, _, ok := headerWrite(in)
		return ok && name == "Vary"
	}, 2)
	complete = core.EnumPaths(fn, 2, 5000, func(p *core.Path) {
		feasible, observed := true, false
		p.Edges(func(cond ssa.Value, taken bool) {
			if c52libraryInfeasible(cond, taken) {
				feasible = false
			}
			if c52observesEdge(cond, taken) {
				observed = true
				return
			}
			if depth <= 0 {
				return
			}
			base, pol := c52normBool(cond)
			if call, idx, ok := c52callOf(base); ok && c52isBool(base.Type()) {
				if h := a.body(&call.Call); h != nil && h != fn && idx == 0 {
					if _, hc, hb := a.varyPaths(h, false, taken == pol, depth-1); hc && hb == "" {
						observed = true
					}
				}
			}
		})
		if !feasible {
			return
		}
		if !top {
			r, isRet := p.Last().(*ssa.Return)
			if !isRet {
				return
			}
			rv := core.RetVals(r)
			if len(rv) != 1 {
				if bad == "" {
					bad = "helper with several results"
				}
				return
			}
			if cb, isC := c52constBool(rv[0]); isC && cb != want {
				return
			}
		}
		n++
		if !p.Has(isWrite) && !observed && bad == "" {
			bad = pathSig(p)
			if bad == "" {
				bad = "(no branches)"
			}
		}
	})
	return n, complete, bad
}
