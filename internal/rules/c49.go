package rules

import (
	"fmt"
	"go/token"
	"go/types"
	"os"
	"sort"
	"strings"

	"golang.org/x/tools/go/ssa"

	"verif/internal/core"
)

// C49 — rewrite, header and redirect actions: documented = accepted = executed,
// and every parameter an executor indexes is guaranteed by the loader's arity
// check.
//
// The command tables live in code as switches over an action's Cmd. They are
// recovered from SSA (equality tests between a Cmd-derived value and a string
// constant), never from source text, so `switch`, `if/else if` chains and
// extracted helpers give the same tables.

const (
	mdAtomEq = iota
	mdAtomNeq
	mdAtomContains
	mdAtomNotContains
	mdAtomPrefix
	mdAtomNotPrefix
)

// mdCmdAtom is one elementary constraint on a command (kind "cmd": the Cmd
// string from offset off on; kind "sub": Params[0], the sub-command of
// *_HEADER_MOD).
type mdCmdAtom struct {
	kind  string
	off   int
	op    int
	label string
}

func (a mdCmdAtom) holds(s string) bool {
	if len(s) < a.off {
		return a.op == mdAtomNeq || a.op == mdAtomNotContains || a.op == mdAtomNotPrefix
	}
	t := s[a.off:]
	switch a.op {
	case mdAtomEq:
		return t == a.label
	case mdAtomNeq:
		return t != a.label
	case mdAtomContains:
		return strings.Contains(t, a.label)
	case mdAtomNotContains:
		return !strings.Contains(t, a.label)
	case mdAtomPrefix:
		return strings.HasPrefix(t, a.label)
	case mdAtomNotPrefix:
		return !strings.HasPrefix(t, a.label)
	}
	return true
}

// mdCmdModel is the command model of one package.
type mdCmdModel struct {
	p        *core.Prog
	rel      string
	fns      []*ssa.Function
	sites    map[*ssa.Function][]ssa.CallInstruction
	sums     map[*ssa.Function]*mdLenSummary
	subLens  map[string]map[int]bool
	accepted map[string]map[int]bool // command -> accepted parameter counts (-1: any)
	ctxMemo  map[*ssa.Function]map[string]bool
	ctxBusy  map[*ssa.Function]bool
}

func mdNewCmdModel(p *core.Prog, rel string) *mdCmdModel {
	m := &mdCmdModel{p: p, rel: rel, sums: map[*ssa.Function]*mdLenSummary{}, subLens: map[string]map[int]bool{},
		ctxMemo: map[*ssa.Function]map[string]bool{}, ctxBusy: map[*ssa.Function]bool{}}
	for _, fn := range p.SrcFuncs(rel) {
		if core.FuncPkgRel(fn) == rel {
			m.fns = append(m.fns, fn)
		}
	}
	m.sites = mdPkgCallSites(m.fns)
	return m
}

func (m *mdCmdModel) paramIndex(p *ssa.Parameter) int {
	for i, q := range p.Parent().Params {
		if q == p {
			return i
		}
	}
	return -1
}

// hasCmdField: the struct (or pointer to struct) type of v has a field Cmd.
func mdHasCmdField(v ssa.Value) bool {
	t := v.Type()
	if p, ok := t.Underlying().(*types.Pointer); ok {
		t = p.Elem()
	}
	st, ok := t.Underlying().(*types.Struct)
	if !ok {
		return false
	}
	for i := 0; i < st.NumFields(); i++ {
		if st.Field(i).Name() == "Cmd" {
			return true
		}
	}
	return false
}

// isParams: v is the Params slice of an action (a load of the field Params of
// a struct that also has Cmd), or a []string parameter that receives one at
// every call site inside the package.
func (m *mdCmdModel) isParams(v ssa.Value, depth int) bool {
	if depth > 4 {
		return false
	}
	if x, ok := mdFieldLoadNamed(v, "Params"); ok {
		return mdHasCmdField(x)
	}
	switch x := v.(type) {
	case *ssa.Parameter:
		i := m.paramIndex(x)
		sites := m.sites[x.Parent()]
		if i < 0 || len(sites) == 0 {
			return false
		}
		for _, s := range sites {
			a := s.Common().Args
			if s.Common().IsInvoke() || i >= len(a) || !m.isParams(a[i], depth+1) {
				return false
			}
		}
		return true
	case *ssa.UnOp:
		if a, ok := x.X.(*ssa.Alloc); ok && x.Op == token.MUL {
			if sts := mdStoresTo(a); len(sts) == 1 {
				return m.isParams(sts[0].Val, depth+1)
			}
		}
	}
	return false
}

// subjectOf classifies a string value as Cmd-derived ("cmd", with the offset
// of a constant re-slicing such as Cmd[4:]) or as the sub-command Params[0].
func (m *mdCmdModel) subjectOf(v ssa.Value, depth int) (kind string, off int, ok bool) {
	if depth > 5 || v == nil {
		return "", 0, false
	}
	if x, isCmd := mdFieldLoadNamed(v, "Cmd"); isCmd && mdHasCmdField(x) {
		return "cmd", 0, true
	}
	switch x := v.(type) {
	case *ssa.Call:
		if core.CallIs(&x.Call, "strings.ToUpper") && len(x.Call.Args) == 1 {
			return m.subjectOf(x.Call.Args[0], depth+1)
		}
	case *ssa.UnOp:
		if x.Op != token.MUL {
			return "", 0, false
		}
		if _, isLoad := x.X.(*ssa.UnOp); isLoad { // *conf.Cmd with Cmd *string
			return m.subjectOf(x.X, depth+1)
		}
		if ia, isIdx := x.X.(*ssa.IndexAddr); isIdx {
			if k, isK := mdIntConst(ia.Index); isK && k == 0 && m.isParams(ia.X, 0) {
				return "sub", 0, true
			}
		}
		if a, isAlloc := x.X.(*ssa.Alloc); isAlloc {
			if sts := mdStoresTo(a); len(sts) == 1 {
				return m.subjectOf(sts[0].Val, depth+1)
			}
		}
	case *ssa.Slice:
		if x.High != nil || x.Max != nil {
			return "", 0, false
		}
		n := int64(0)
		if x.Low != nil {
			k, isK := mdIntConst(x.Low)
			if !isK {
				return "", 0, false
			}
			n = k
		}
		kind, off, ok = m.subjectOf(x.X, depth+1)
		return kind, off + int(n), ok
	case *ssa.Parameter:
		i := m.paramIndex(x)
		sites := m.sites[x.Parent()]
		if i < 0 || len(sites) == 0 {
			return "", 0, false
		}
		for j, s := range sites {
			a := s.Common().Args
			if s.Common().IsInvoke() || i >= len(a) {
				return "", 0, false
			}
			k2, o2, ok2 := m.subjectOf(a[i], depth+1)
			if !ok2 || (j > 0 && (k2 != kind || o2 != off)) {
				return "", 0, false
			}
			kind, off = k2, o2
		}
		return kind, off, true
	}
	return "", 0, false
}

// atomOf decodes a branch fact into a command constraint.
func (m *mdCmdModel) atomOf(f mdFact) (mdCmdAtom, bool) {
	if x, s, equal, ok := mdStrTest(f); ok {
		kind, off, ok2 := m.subjectOf(x, 0)
		if !ok2 {
			return mdCmdAtom{}, false
		}
		op := mdAtomNeq
		if equal {
			op = mdAtomEq
		}
		return mdCmdAtom{kind, off, op, s}, true
	}
	if call, isCall := f.Cond.(*ssa.Call); isCall && len(call.Call.Args) == 2 {
		pos, neg := -1, -1
		switch {
		case core.CallIs(&call.Call, "strings.Contains"):
			pos, neg = mdAtomContains, mdAtomNotContains
		case core.CallIs(&call.Call, "strings.HasPrefix"):
			pos, neg = mdAtomPrefix, mdAtomNotPrefix
		default:
			return mdCmdAtom{}, false
		}
		s, isStr := core.ConstString(call.Call.Args[1])
		kind, off, ok := m.subjectOf(call.Call.Args[0], 0)
		if !isStr || !ok {
			return mdCmdAtom{}, false
		}
		if f.Pol {
			return mdCmdAtom{kind, off, pos, s}, true
		}
		return mdCmdAtom{kind, off, neg, s}, true
	}
	return mdCmdAtom{}, false
}

// consAt returns the command constraints established at b as a conjunction of
// disjunctive clauses (a `case A, B:` body is entered through one equality
// edge per label).
func (m *mdCmdModel) consAt(b *ssa.BasicBlock) [][]mdCmdAtom {
	var out [][]mdCmdAtom
	seen := map[*ssa.BasicBlock]bool{}
	for cur := b; cur != nil && !seen[cur]; {
		seen[cur] = true
		switch {
		case len(cur.Preds) == 0:
			return out
		case len(cur.Preds) == 1:
			if f, ok := mdEdgeFact(cur.Preds[0], cur); ok {
				if a, ok := m.atomOf(f); ok {
					out = append(out, []mdCmdAtom{a})
				}
			}
			cur = cur.Preds[0]
		default:
			var clause []mdCmdAtom
			for _, p := range cur.Preds {
				f, ok := mdEdgeFact(p, cur)
				if !ok {
					clause = nil
					break
				}
				a, ok := m.atomOf(f)
				if !ok || a.op != mdAtomEq {
					clause = nil
					break
				}
				clause = append(clause, a)
			}
			if clause != nil {
				out = append(out, clause)
			}
			cur = cur.Idom()
		}
	}
	return out
}

func mdFilterCmds(cmds map[string]bool, cons [][]mdCmdAtom) map[string]bool {
	out := map[string]bool{}
	for c := range cmds {
		ok := true
		for _, clause := range cons {
			if len(clause) == 0 || clause[0].kind != "cmd" {
				continue
			}
			any := false
			for _, a := range clause {
				if a.kind == "cmd" && a.holds(c) {
					any = true
				}
			}
			if !any {
				ok = false
				break
			}
		}
		if ok {
			out[c] = true
		}
	}
	return out
}

// ctxCmds: the accepted commands with which fn can be entered (union over its
// call sites inside the package of the commands reaching the site; all
// accepted commands for functions without static in-package callers).
func (m *mdCmdModel) ctxCmds(fn *ssa.Function) map[string]bool {
	if r, ok := m.ctxMemo[fn]; ok {
		return r
	}
	all := map[string]bool{}
	for c := range m.accepted {
		all[c] = true
	}
	sites := m.sites[fn]
	if len(sites) == 0 || m.ctxBusy[fn] {
		return all
	}
	m.ctxBusy[fn] = true
	out := map[string]bool{}
	for _, s := range sites {
		in := s.(ssa.Instruction)
		if in.Parent() == fn {
			continue
		}
		for c := range mdFilterCmds(m.ctxCmds(in.Parent()), m.consAt(in.Block())) {
			out[c] = true
		}
	}
	m.ctxBusy[fn] = false
	m.ctxMemo[fn] = out
	return out
}

// mdLenSummary: which parameter counts a checking function lets through, per
// command label (key "*" for functions that do not test the command).
type mdLenSummary struct {
	byCmd          map[string]map[int]bool
	hasCmdTests    bool
	defaultAccepts bool
	complete       bool
	paths          int
}

// lenTest decodes `len(Params) ==/!= N` facts; N may be a phi of constants
// that is resolved along the path.
func (m *mdCmdModel) lenTest(f mdFact) (other ssa.Value, equal bool, ok bool) {
	b, isBin := f.Cond.(*ssa.BinOp)
	if !isBin || (b.Op != token.EQL && b.Op != token.NEQ) {
		return nil, false, false
	}
	isLen := func(v ssa.Value) bool {
		c, isCall := v.(*ssa.Call)
		if !isCall {
			return false
		}
		bi, isB := c.Call.Value.(*ssa.Builtin)
		return isB && bi.Name() == "len" && len(c.Call.Args) == 1 && m.isParams(c.Call.Args[0], 0)
	}
	switch {
	case isLen(b.X):
		other = b.Y
	case isLen(b.Y):
		other = b.X
	default:
		return nil, false, false
	}
	return other, (b.Op == token.EQL) == f.Pol, true
}

func mdResolveOnPath(blocks []*ssa.BasicBlock, upto int, v ssa.Value, depth int) (int64, bool) {
	if n, ok := mdIntConst(v); ok {
		return n, true
	}
	phi, ok := v.(*ssa.Phi)
	if !ok || depth > 4 {
		return 0, false
	}
	for j := upto; j >= 1; j-- {
		if blocks[j] != phi.Block() {
			continue
		}
		for i, p := range phi.Block().Preds {
			if p == blocks[j-1] {
				return mdResolveOnPath(blocks, j-1, phi.Edges[i], depth+1)
			}
		}
		return 0, false
	}
	return 0, false
}

// summarize enumerates the feasible paths of a checking function and records,
// for every path that ends in `return nil`, the command label whose equality
// edge the path took and the parameter count the path established.
func (m *mdCmdModel) summarize(fn *ssa.Function, depth int) *mdLenSummary {
	if s, ok := m.sums[fn]; ok {
		return s
	}
	s := &mdLenSummary{byCmd: map[string]map[int]bool{}}
	m.sums[fn] = s
	if depth > 3 {
		return s
	}
	core.Instrs(fn, func(in ssa.Instruction) {
		if ifi, ok := in.(*ssa.If); ok {
			c, _ := mdUnNot(ifi.Cond, true)
			if a, ok := m.atomOf(mdFact{c, true}); ok && a.kind == "cmd" {
				s.hasCmdTests = true
			}
		}
	})
	add := func(tab map[string]map[int]bool, k string, n int) {
		if tab[k] == nil {
			tab[k] = map[int]bool{}
		}
		tab[k][n] = true
	}
	s.complete = core.EnumPaths(fn, 2, 60000, func(p *core.Path) {
		s.paths++
		ret, isRet := p.Last().(*ssa.Return)
		if !isRet || !mdErrNil(ret) {
			return
		}
		var cmdLabels, subLabels []string
		var allowed map[int]bool // nil = unconstrained
		feasible := true
		eqSeen, neqSeen, eqKind := map[string]bool{}, map[string]bool{}, map[string]string{}
		restrict := func(set map[int]bool) {
			if set[-1] {
				return
			}
			if allowed == nil {
				allowed = map[int]bool{}
				for n := range set {
					allowed[n] = true
				}
				return
			}
			for n := range allowed {
				if !set[n] {
					delete(allowed, n)
				}
			}
			if len(allowed) == 0 {
				feasible = false
			}
		}
		for i, b := range p.Blocks {
			for _, in := range b.Instrs {
				call, isCall := in.(*ssa.Call)
				if !isCall {
					continue
				}
				sc := call.Call.StaticCallee()
				if sc == nil || sc == fn || sc.Blocks == nil || core.FuncPkgRel(sc) != m.rel {
					continue
				}
				passes := false
				for _, a := range call.Call.Args {
					if m.isParams(a, 0) {
						passes = true
					}
				}
				if !passes {
					continue
				}
				cs := m.summarize(sc, depth+1)
				if set := cs.byCmd["*"]; !cs.hasCmdTests && len(set) > 0 {
					restrict(set)
				}
			}
			if i+1 >= len(p.Blocks) {
				break
			}
			f, ok := mdEdgeFact(b, p.Blocks[i+1])
			if !ok {
				continue
			}
			if a, ok := m.atomOf(f); ok && a.off == 0 && (a.op == mdAtomEq || a.op == mdAtomNeq) {
				// a path that equates the command with two labels, or with a
				// label it also excluded, is infeasible
				k := a.kind + ":" + a.label
				if a.op == mdAtomNeq {
					if eqSeen[k] {
						feasible = false
					}
					neqSeen[k] = true
				} else {
					if neqSeen[k] || (eqKind[a.kind] != "" && eqKind[a.kind] != a.label) {
						feasible = false
					}
					if !eqSeen[k] {
						eqSeen[k] = true
						eqKind[a.kind] = a.label
						if a.kind == "cmd" {
							cmdLabels = append(cmdLabels, a.label)
						} else {
							subLabels = append(subLabels, a.label)
						}
					}
				}
			}
			if other, equal, ok := m.lenTest(f); ok && equal {
				if n, ok := mdResolveOnPath(p.Blocks, i, other, 0); ok {
					restrict(map[int]bool{int(n): true})
				}
			}
		}
		if !feasible {
			return
		}
		if allowed == nil {
			allowed = map[int]bool{-1: true}
		}
		keys := cmdLabels
		if len(keys) == 0 {
			if s.hasCmdTests {
				s.defaultAccepts = true
				return
			}
			keys = []string{"*"}
		}
		for _, k := range keys {
			for n := range allowed {
				add(s.byCmd, k, n)
			}
		}
		for _, k := range subLabels {
			for n := range allowed {
				add(m.subLens, k, n)
			}
		}
	})
	return s
}

func mdLensStr(set map[int]bool) string {
	var ns []int
	for n := range set {
		ns = append(ns, n)
	}
	sort.Ints(ns)
	var s []string
	for _, n := range ns {
		if n < 0 {
			s = append(s, "any")
		} else {
			s = append(s, fmt.Sprint(n))
		}
	}
	return "{" + strings.Join(s, ",") + "}"
}

// armLabels returns, for a function that dispatches on a command, the labels
// of its equality tests (kind "cmd", any offset) and whether the arm entered
// by the label does something else than returning a non-nil error at once.
func (m *mdCmdModel) armLabels(fn *ssa.Function) map[string]bool {
	out := map[string]bool{}
	core.Instrs(fn, func(in ssa.Instruction) {
		ifi, ok := in.(*ssa.If)
		if !ok {
			return
		}
		b := ifi.Block()
		for _, succ := range b.Succs {
			f, ok := mdEdgeFact(b, succ)
			if !ok {
				continue
			}
			a, ok := m.atomOf(f)
			if !ok || a.op != mdAtomEq || a.kind != "cmd" {
				continue
			}
			rejecting := false
			if r := mdBlockReturn(succ); r != nil && mdErrNonNil(r) {
				rejecting = true
			}
			if !rejecting {
				out[a.label] = true
			} else if _, seen := out[a.label]; !seen {
				out[a.label] = false
			}
		}
	})
	return out
}

// checkSites records one obligation per (function, constant index, reaching
// command set): every parameter count the loader accepts for a command that
// reaches Params[k] must exceed k.
func (m *mdCmdModel) checkSites(c *core.Ctx, rule string) int {
	type agg struct {
		pos token.Pos
		ok  bool
		msg []string
	}
	res := map[string]*agg{}
	var order []string
	for _, fn := range m.fns {
		fk := core.FuncKey(fn)
		core.Instrs(fn, func(in ssa.Instruction) {
			ia, ok := in.(*ssa.IndexAddr)
			if !ok {
				return
			}
			k64, ok := mdIntConst(ia.Index)
			if !ok || !m.isParams(ia.X, 0) {
				return
			}
			k := int(k64)
			cons := m.consAt(in.Block())
			var subs []string
			for _, clause := range cons {
				if len(clause) > 0 && clause[0].kind == "sub" && clause[0].op == mdAtomEq {
					for _, a := range clause {
						subs = append(subs, a.label)
					}
				}
			}
			okSite := true
			var why []string
			var who string
			if len(subs) > 0 {
				sort.Strings(subs)
				who = "sub=" + strings.Join(subs, ",")
				for _, sl := range subs {
					set := m.subLens[sl]
					if len(set) == 0 {
						okSite = false
						why = append(why, "sub-command "+sl+" has no parameter-count check")
						continue
					}
					for n := range set {
						if n <= k {
							okSite = false
							why = append(why, fmt.Sprintf("sub-command %s is accepted with %s parameters", sl, mdLensStr(set)))
							break
						}
					}
				}
			} else {
				reach := mdFilterCmds(m.ctxCmds(fn), cons)
				names := mdSortedKeys(reach)
				who = strings.Join(names, ",")
				if len(names) == 0 {
					who = "none"
				}
				for _, cmd := range names {
					set := m.accepted[cmd]
					for n := range set {
						if n <= k {
							okSite = false
							why = append(why, fmt.Sprintf("%s is accepted with %s parameters", cmd, mdLensStr(set)))
							break
						}
					}
				}
			}
			key := fmt.Sprintf("%s:Params[%d]:%s", fk, k, who)
			a := res[key]
			if a == nil {
				a = &agg{pos: in.Pos(), ok: true}
				res[key] = a
				order = append(order, key)
			}
			if !okSite {
				a.ok = false
				a.msg = append(a.msg, why...)
			}
		})
	}
	for _, key := range order {
		a := res[key]
		c.Check(rule, key, a.pos, a.ok, "Params index is not covered by the loader's parameter-count check (index out of range at run time): "+strings.Join(mdUniq(a.msg), "; "))
	}
	return len(order)
}

// mdDocActions reads the first column of the Markdown table under the heading
// "### Actions" of a module's documentation page.
func mdDocActions(relFile string) ([]string, error) {
	b, err := os.ReadFile(core.FileOf(relFile))
	if err != nil {
		return nil, err
	}
	var out []string
	in := false
	for _, line := range strings.Split(string(b), "\n") {
		t := strings.TrimSpace(line)
		if strings.HasPrefix(t, "#") {
			in = strings.EqualFold(strings.TrimSpace(strings.TrimLeft(t, "#")), "Actions")
			continue
		}
		if !in || !strings.HasPrefix(t, "|") {
			continue
		}
		cells := strings.Split(strings.Trim(t, "|"), "|")
		if len(cells) == 0 {
			continue
		}
		cell := strings.TrimSpace(cells[0])
		if cell == "" || strings.EqualFold(cell, "Action") || strings.Trim(cell, "-: ") == "" {
			continue
		}
		out = append(out, cell)
	}
	return out, nil
}

func init() {
	Register(&Rule{
		ID: "C49", Section: "5 C49",
		Technique: "table agreement over command tables recovered from SSA (Cmd equality tests, map-literal keys, constant blocks, Markdown tables) plus feasible-path enumeration of the loaders' parameter-count checks matched against every constant Params[k] index reached by each command; loop-header-phi analysis of search-and-remove loops over the raw query; interprocedural backward data-flow slices (decoded-path taint into the redirect Location, key agreement between url.Values and RawQuery edits in both directions); compile-time evaluation (constant folding over SSA) of the header-value scanner on the keys of the variable table",
		Meta: core.Meta{
			Level:       "other",
			Explanation: "Decides, for bfe_basic/action (used by mod_rewrite), mod_header and mod_redirect: (1) every Action* command constant has an executing arm in Action.Do and is accepted by ActionFileCheck; every command accepted by a module's ActionFileCheck has an executing arm (Action.Do; mod_header actionConvert + HeaderActionDo/Req|RspCookieActionDo; mod_redirect EXCLUSIVE_ACTIONS + redirectExclusiveActionDo) and no checker lets an unlisted command through; (2) allow-lists (mod_rewrite, mod_prison) only name commands the shared checker accepts; (3) every action named in the Actions table of docs/en_us/modules/{mod_rewrite,mod_header,mod_redirect} is allowed/accepted and executed by that module; (4) for every constant index Params[k] in those packages, each command (or HEADER_MOD sub-command) that can reach the site - from the Cmd tests controlling it and, interprocedurally, its callers - is only accepted with more than k parameters (parameter counts are read off the feasible success paths of the checker); QUERY_ADD needs a non-empty even count because ReqQueryAdd slices off a leading '&'; (5) the checks are on the load path: Action.UnmarshalJSON assigns only after ActionFileCheck returned nil, the mod_header/mod_redirect loaders convert only after their ConfCheck (which reaches ActionFileCheck) returned nil, mod_rewrite rejects commands missing from its allow-list; (6) wiring: each command's arm in Action.Do, HeaderActionDo, Req/RspCookieActionDo and redirectExclusiveActionDo calls the executor that implements the documented action (reviewed command -> function table) and passes Params in their configured order, and mod_header applies REQ_* actions to the request header and RSP_* actions to the response header (getHeaderType, getHeader, processCookie, the two handlers).; (7) effects that have a structural necessary condition - repeated keys: QUERY_RENAME, QUERY_DEL and QUERY_DEL_ALL_EXCEPT edit every occurrence of the key in URL.RawQuery: a removal s[:p]+s[q:] whose position comes from a search over s is iterated (its result flows back to the searched string on a back edge, in place or through a helper), every exit of that loop is computed from the current string, the next search starts at 0 or at most at p (never past the place where the following pair now starts), the first search starts at 0, search/replace patterns begin with the pair delimiter '&', and strings.Replace has a negative count (rawquery-all-occurrences); each key changed in the parsed query (url.Values Del/Set/Add/index store) is a value the string stored to URL.RawQuery is computed from, so the two representations are edited with the same key (query-raw-sync), and conversely Request.Query - the cache of the parsed query that req_query_* conditions and all query actions share - is kept in step with the raw query: a request's URL.RawQuery is stored only by the four reviewed editors, each of them changes the map obtained from Request.Query (Set/Add/Del/index store, in place or through a helper) or drops the cache (Request.Query = nil), and every configured key/value its new raw query is computed from is an operand of such a change (query-cache-sync); header-value variables: the scanner that cuts %variable pieces out of a header value and the table of variables describe the same language - for every key k of mod_header.VariableHandlers, expectVariableParam(k) and expectVariableParam(k+\";x\") are len(k), splitParam(\"x=%k;y=%%z\") is lossless and contains the piece %k (decided by folding the calls at analysis time with an evaluator for pure string functions over SSA: integers, strings, booleans, string ranges, slices, calls of module functions and of strings/unicode predicates; nothing is executed), splitParam reaches that scanner (variable-scanner), and every %variable in the documentation table is a key of VariableHandlers (documented-variable); redirect Location: no value stored to RedirectInfo.Url anywhere in the program is computed (data flow through module helpers, parameters followed to their call sites) from the decoded URL.Path or url.PathUnescape/QueryUnescape unless it passes an escaper (redirect-no-decoded-path), and URL_PREFIX_ADD / SCHEME_SET store the configured string first and the escaped original URI of this request (URL.RequestURI(), or EscapedPath() with RawQuery) last, SCHEME_SET with the request's host in between (redirect-original-uri). Not covered: the remaining string semantics of the actions (offsets inside a removal such as where the value ends, host/path edits, percent-encoded or '='-less keys in QUERY_DEL* - known not to be matched by the raw edit, ReqHostSuffixReplace reading URL.Host, the URL built by bfe_server.Redirect for relative Locations), raw-query editors rewritten in a form other than search-and-remove / strings.Replace are reported as not followed, the values the variable handlers produce and the case-folding of variable names (preProcessParams lower-cases for the check, getHeaderValue does not), a variable scanner written with constructs the evaluator does not follow (maps, interfaces, closures with captured variables, byte slices) is reported as undecided, query-cache-sync does not decide that Set vs Add is chosen correctly for repeated keys, that mod_header's actionConvert keeps the checked parameter count (reviewed: it never shortens Params).",
			RuleText:    "obligations = each command x executor wiring; each header-direction selector; each Action* constant x {Do arm, checker}; each accepted command x executor tables; each allow-list key; each documented action; each (function, Params[k], reaching command set); each loader's check-before-use; each key-editing query command x all-occurrences constructs; each parsed-query mutation x raw store; each raw-query editor x {cache changed or dropped, each configured key}; each store to a request's URL.RawQuery; each VariableHandlers key x {scanner, splitter}; each documented variable; each store to RedirectInfo.Url; each original-uri redirect command",
			Assumptions: []string{"actions reach executors only through the loaders analysed (Action values are built by UnmarshalJSON / actionConvert)", "mod_header.actionConvert does not shorten Params"},
		},
		Run: runC49,
		Mutants: []Mutant{
			{Name: "do-arm-dropped", File: "bfe_basic/action/action.go", Old: "	case ActionPathPrefixTrim:\n		ReqPathPrefixTrim(req, ac.Params[0])\n", New: "", Expect: "const-executed|PATH_PREFIX_TRIM"},
			{Name: "checker-rejects-rename", File: "bfe_basic/action/action.go", Old: "	case ActionQueryAdd, ActionQueryRename:\n		paramsLenCheck = 2", New: "	case ActionQueryAdd:\n		paramsLenCheck = 2", Expect: "const-accepted|QUERY_RENAME"},
			{Name: "host-set-arity-zero", File: "bfe_basic/action/action.go", Old: "	case ActionHostSet:\n		paramsLenCheck = 1", New: "	case ActionHostSet:\n		paramsLenCheck = 0", Expect: "params-index|bfe_basic/action.Action.Do:Params[0]:HOST_SET"},
			{Name: "query-add-any-arity", File: "bfe_basic/action/action.go", Old: "	case ActionQueryAdd, ActionQueryRename:\n		paramsLenCheck = 2", New: "	case ActionQueryRename:\n		paramsLenCheck = 2\n	case ActionQueryAdd:\n		paramsLenCheck = -1", Expect: "pair-arity|QUERY_ADD"},
			{Name: "arity-check-not-enforced", File: "bfe_basic/action/action.go", Old: "	if paramsLenCheck != -1 && len(conf.Params) != paramsLenCheck {\n		return fmt.Errorf(", New: "	if paramsLenCheck != -1 && len(conf.Params) != paramsLenCheck {\n		fmt.Printf(\"unexpected number of params\")\n		_ = fmt.Errorf(", Expect: "params-index|bfe_basic/action.Action.Do"},
			{Name: "unmarshal-assigns-before-check", File: "bfe_basic/action/action.go", Old: "	if err := ActionFileCheck(actionFile); err != nil {\n		return fmt.Errorf(\"actionFileCheck err: %s\", err)\n	}\n", New: "	if err := ActionFileCheck(actionFile); err != nil {\n		fmt.Printf(\"actionFileCheck err: %s\", err)\n	}\n", Expect: "check-on-load|bfe_basic/action"},
			{Name: "cookie-del-arity-two", File: "bfe_modules/mod_header/action.go", Old: "	case RspCookieDel:\n		if len(conf.Params) != 3 {", New: "	case RspCookieDel:\n		if len(conf.Params) != 2 {", Expect: "params-index|bfe_modules/mod_header.buildCookie:Params[2]"},
			{Name: "header-rename-not-converted", File: "bfe_modules/mod_header/action.go", Old: "	case \"REQ_HEADER_RENAME\", \"RSP_HEADER_RENAME\":\n		originalKey", New: "	case \"RSP_HEADER_RENAME\":\n		originalKey", Expect: "accepted-executed|mod_header:REQ_HEADER_RENAME"},
			{Name: "header-mod-query-add-three", File: "bfe_modules/mod_header/action.go", Old: "		if len(params) != 4 {\n			return fmt.Errorf(\"query_add should have 4 params, now: %d\", len(params))\n		}\n", New: "", Expect: "params-index|bfe_modules/mod_header.modHeaderValue:Params[3]"},
			{Name: "redirect-exec-arm-dropped", File: "bfe_modules/mod_redirect/action.go", Old: "	case \"URL_PREFIX_ADD\":\n		ReqUrlPrefixAdd(req, action.Params[0])\n", New: "", Expect: "accepted-executed|mod_redirect:URL_PREFIX_ADD"},
			{Name: "redirect-exclusive-key-dropped", File: "bfe_modules/mod_redirect/action.go", Old: "	\"URL_FROM_QUERY\": nil,\n", New: "", Expect: "accepted-executed|mod_redirect:URL_FROM_QUERY"},
			{Name: "rewrite-allow-list-not-enforced", File: "bfe_modules/mod_rewrite/rewrite_conf_load.go", Old: "		if !ok {\n			return fmt.Errorf(\"not allowed Cmd: %s\", ac.Cmd)\n		}", New: "		if !ok {\n			fmt.Printf(\"not allowed Cmd: %s\", ac.Cmd)\n		}", Expect: "check-on-load|bfe_modules/mod_rewrite"},
			{Name: "rename-args-swapped", File: "bfe_basic/action/action.go", Old: "		ReqQueryRename(req, ac.Params[0], ac.Params[1])", New: "		ReqQueryRename(req, ac.Params[1], ac.Params[0])", Expect: "arm-executor|bfe_basic/action.Action.Do:QUERY_RENAME"},
			{Name: "prefix-add-trims", File: "bfe_basic/action/action.go", Old: "		ReqPathPrefixAdd(req, ac.Params[0])", New: "		ReqPathPrefixTrim(req, ac.Params[0])", Expect: "arm-executor|bfe_basic/action.Action.Do:PATH_PREFIX_ADD"},
			{Name: "header-del-sets", File: "bfe_modules/mod_header/action.go", Old: "	case \"HEADER_DEL\":\n		headerDel(h, headerName)", New: "	case \"HEADER_DEL\":\n		headerSet(h, headerName, value)", Expect: "arm-executor|bfe_modules/mod_header.HeaderActionDo:REQ_HEADER_DEL"},
			{Name: "rsp-actions-on-request", File: "bfe_modules/mod_header/action.go", Old: "	case RspHeader:\n		h = &req.HttpResponse.Header", New: "	case RspHeader:\n		h = &req.HttpRequest.Header", Expect: "header-direction|getHeader"},
			{Name: "direction-prefix-inverted", File: "bfe_modules/mod_header/header_rule_load.go", Old: "	if strings.HasPrefix(cmd, \"REQ_\") {", New: "	if strings.HasPrefix(cmd, \"RSP_\") {", Expect: "header-direction|getHeaderType"},
			{Name: "silent-host-arms-reordered", File: "bfe_basic/action/action.go", Old: "	case ActionHostSet:\n		paramsLenCheck = 1\n	case ActionHostSuffixReplace:\n		paramsLenCheck = 2\n", New: "	case ActionHostSuffixReplace:\n		paramsLenCheck = 2\n	case ActionHostSet:\n		paramsLenCheck = 1\n", Silent: true},
			{Name: "host-suffix-arity-one", File: "bfe_basic/action/action.go", Old: "	case ActionHostSuffixReplace:\n		paramsLenCheck = 2\n", New: "	case ActionHostSuffixReplace:\n		paramsLenCheck = 1\n", Expect: "params-index|bfe_basic/action.Action.Do:Params[1]:HOST_SUFFIX_REPLACE"},
			{Name: "silent-merge-arity-arms", File: "bfe_basic/action/action.go", Old: "	case ActionHostSuffixReplace:\n		paramsLenCheck = 2\n	case ActionPathSet, ActionPathPrefixAdd, ActionPathPrefixTrim:\n		paramsLenCheck = 1\n	case ActionQueryAdd, ActionQueryRename:\n		paramsLenCheck = 2", New: "	case ActionPathSet, ActionPathPrefixAdd, ActionPathPrefixTrim:\n		paramsLenCheck = 1\n	case ActionHostSuffixReplace, ActionQueryAdd, ActionQueryRename:\n		paramsLenCheck = 2", Silent: true},
			{Name: "silent-redirect-if-chain", File: "bfe_modules/mod_redirect/action.go", Old: "	switch action.Cmd {\n	case \"SCHEME_SET\":\n		ReqSchemeSet(req, action.Params[0])\n	// for url\n	case \"URL_SET\":\n		ReqUrlSet(req, action.Params[0])", New: "	cmd := action.Cmd\n	if cmd == \"SCHEME_SET\" {\n		ReqSchemeSet(req, action.Params[0])\n		return\n	}\n	switch cmd {\n	// for url\n	case \"URL_SET\":\n		param := action.Params[0]\n		ReqUrlSet(req, param)", Silent: true},
			{Name: "del-all-except-resumes-past-cut", File: "bfe_basic/action/action_query.go", Old: "\t\tqueries.Del(key)\n\t\tfor {\n\t\t\t// find key start\n\t\t\tstart := strings.Index(rawQuery, \"&\"+key+\"=\")\n\t\t\tif start == -1 {\n\t\t\t\tbreak\n\t\t\t}\n", New: "\t\tqueries.Del(key)\n\t\toffset := 0\n\t\tfor {\n\t\t\t// find key start\n\t\t\tstart := strings.Index(rawQuery[offset:], \"&\"+key+\"=\")\n\t\t\tif start == -1 {\n\t\t\t\tbreak\n\t\t\t}\n\t\t\tstart += offset\n\t\t\toffset = start + 1\n", Expect: "rawquery-all-occurrences|QUERY_DEL_ALL_EXCEPT"},
			{Name: "silent-del-all-except-resumes-at-cut", File: "bfe_basic/action/action_query.go", Old: "\t\tqueries.Del(key)\n\t\tfor {\n\t\t\t// find key start\n\t\t\tstart := strings.Index(rawQuery, \"&\"+key+\"=\")\n\t\t\tif start == -1 {\n\t\t\t\tbreak\n\t\t\t}\n", New: "\t\tqueries.Del(key)\n\t\toffset := 0\n\t\tfor {\n\t\t\t// find key start\n\t\t\tstart := strings.Index(rawQuery[offset:], \"&\"+key+\"=\")\n\t\t\tif start == -1 {\n\t\t\t\tbreak\n\t\t\t}\n\t\t\tstart += offset\n\t\t\toffset = start\n", Silent: true},
			{Name: "query-del-single-removal", File: "bfe_basic/action/action_query.go", Old: "\t\t\trawQuery = rawQuery[:start] + rawQuery[start+end+1:]\n\t\t}\n\t}\n\n\t// set rawQuery, remove \"&\" prefix and suffix\n\tif len(rawQuery) == 1 {\n\t\treq.HttpRequest.URL.RawQuery = \"\"\n\t} else {\n\t\treq.HttpRequest.URL.RawQuery = rawQuery[1 : len(rawQuery)-1]\n\t}\n}\n\n// ReqQueryDelAllExcept deletes all keys from query, except some keys\n", New: "\t\t\trawQuery = rawQuery[:start] + rawQuery[start+end+1:]\n\t\t\tbreak\n\t\t}\n\t}\n\n\t// set rawQuery, remove \"&\" prefix and suffix\n\tif len(rawQuery) == 1 {\n\t\treq.HttpRequest.URL.RawQuery = \"\"\n\t} else {\n\t\treq.HttpRequest.URL.RawQuery = rawQuery[1 : len(rawQuery)-1]\n\t}\n}\n\n// ReqQueryDelAllExcept deletes all keys from query, except some keys\n", Expect: "rawquery-all-occurrences|QUERY_DEL"},
			{Name: "rename-first-occurrence-only", File: "bfe_basic/action/action_query.go", Old: "strings.Replace(rawQuery, srcKey, dstKey, -1)", New: "strings.Replace(rawQuery, srcKey, dstKey, 1)", Expect: "rawquery-all-occurrences|QUERY_RENAME"},
			{Name: "del-pattern-unanchored", File: "bfe_basic/action/action_query.go", Old: "\t\t\t// find key start &key=\n\t\t\tstart := strings.Index(rawQuery, \"&\"+key+\"=\")", New: "\t\t\t// find key start &key=\n\t\t\tstart := strings.Index(rawQuery, key+\"=\")", Expect: "rawquery-all-occurrences|QUERY_DEL"},
			{Name: "del-raw-edit-uses-other-key", File: "bfe_basic/action/action_query.go", Old: "\t\t\t// find key start &key=\n\t\t\tstart := strings.Index(rawQuery, \"&\"+key+\"=\")", New: "\t\t\t// find key start &key=\n\t\t\tstart := strings.Index(rawQuery, \"&\"+keys[0]+\"=\")", Expect: "query-raw-sync|ReqQueryDel:"},
			{Name: "silent-query-del-loop-in-helper", File: "bfe_basic/action/action_query.go", Old: "\t\tqueries.Del(key)\n\n\t\tfor {\n\t\t\t// find key start &key=\n\t\t\tstart := strings.Index(rawQuery, \"&\"+key+\"=\")\n\t\t\tif start == -1 {\n\t\t\t\tbreak\n\t\t\t}\n\n\t\t\t// find value end\n\t\t\tend := strings.Index(rawQuery[start+1:], \"&\")\n\t\t\tif end == -1 {\n\t\t\t\tbreak\n\t\t\t}\n\n\t\t\t// remove start:start+end part\n\t\t\trawQuery = rawQuery[:start] + rawQuery[start+end+1:]\n\t\t}\n\t}\n\n\t// set rawQuery, remove \"&\" prefix and suffix\n\tif len(rawQuery) == 1 {\n\t\treq.HttpRequest.URL.RawQuery = \"\"\n\t} else {\n\t\treq.HttpRequest.URL.RawQuery = rawQuery[1 : len(rawQuery)-1]\n\t}\n}\n\n// ReqQueryDelAllExcept deletes all keys from query, except some keys\n", New: "\t\tqueries.Del(key)\n\t\trawQuery = rawQueryDelKey(rawQuery, key)\n\t}\n\n\t// set rawQuery, remove \"&\" prefix and suffix\n\tif len(rawQuery) == 1 {\n\t\treq.HttpRequest.URL.RawQuery = \"\"\n\t} else {\n\t\treq.HttpRequest.URL.RawQuery = rawQuery[1 : len(rawQuery)-1]\n\t}\n}\n\n// rawQueryDelKey removes all pairs of key from rawQuery (\"&\" prefix and suffix).\nfunc rawQueryDelKey(rawQuery string, key string) string {\n\tpattern := \"&\" + key + \"=\"\n\toffset := 0\n\tfor {\n\t\tindex := strings.Index(rawQuery[offset:], pattern)\n\t\tif index == -1 {\n\t\t\tbreak\n\t\t}\n\t\tstart := offset + index\n\t\tend := strings.Index(rawQuery[start+1:], \"&\")\n\t\tif end == -1 {\n\t\t\tbreak\n\t\t}\n\t\trawQuery = rawQuery[:start] + rawQuery[start+end+1:]\n\t\toffset = start\n\t}\n\treturn rawQuery\n}\n\n// ReqQueryDelAllExcept deletes all keys from query, except some keys\n", Silent: true},
			{Name: "silent-query-del-cut-in-helper", File: "bfe_basic/action/action_query.go", Old: "\t\t\t// remove start:start+end part\n\t\t\trawQuery = rawQuery[:start] + rawQuery[start+end+1:]\n\t\t}\n\t}\n\n\t// set rawQuery, remove \"&\" prefix and suffix\n\tif len(rawQuery) == 1 {\n\t\treq.HttpRequest.URL.RawQuery = \"\"\n\t} else {\n\t\treq.HttpRequest.URL.RawQuery = rawQuery[1 : len(rawQuery)-1]\n\t}\n}\n\n// ReqQueryDelAllExcept deletes all keys from query, except some keys\n", New: "\t\t\t// remove start:start+end part\n\t\t\trawQuery = rawQueryCutOne(rawQuery, start, end)\n\t\t}\n\t}\n\n\t// set rawQuery, remove \"&\" prefix and suffix\n\tif len(rawQuery) == 1 {\n\t\treq.HttpRequest.URL.RawQuery = \"\"\n\t} else {\n\t\treq.HttpRequest.URL.RawQuery = rawQuery[1 : len(rawQuery)-1]\n\t}\n}\n\nfunc rawQueryCutOne(s string, start int, end int) string {\n\treturn s[:start] + s[start+end+1:]\n}\n\n// ReqQueryDelAllExcept deletes all keys from query, except some keys\n", Silent: true},
			{Name: "query-del-cache-not-updated", File: "bfe_basic/action/action_query.go", Old: "\t\tqueries.Del(key)\n\n\t\tfor {", New: "\t\t_ = queries\n\n\t\tfor {", Expect: "query-cache-sync|ReqQueryDel:mutates-cache"},
			{Name: "rename-edits-private-copy", File: "bfe_basic/action/action_query.go", Old: "\tqueries := queryParse(req)\n\n\t// renanme query key", New: "\tqueries := req.HttpRequest.URL.Query()\n\n\t// renanme query key", Expect: "query-cache-sync|ReqQueryRename:mutates-cache"},
			{Name: "rename-new-key-not-cached", File: "bfe_basic/action/action_query.go", Old: "\tqueries[newName] = values\n", New: "\t_ = values\n", Expect: "query-cache-sync|ReqQueryRename:key#1"},
			{Name: "query-add-raw-only", File: "bfe_basic/action/action_query.go", Old: "\t\t// try to get value of given key\n\t\toldValue := queries.Get(key)\n\n\t\tif oldValue == \"\" {\n\t\t\t// key not exist, use Set()\n\t\t\tqueries.Set(key, value)\n\t\t} else {\n\t\t\t// key exist, use Add()\n\t\t\tqueries.Add(key, value)\n\t\t}\n", New: "\t\t_ = queries\n", Expect: "query-cache-sync|ReqQueryAdd:mutates-cache"},
			{Name: "path-set-clears-raw-query", File: "bfe_basic/action/action_path.go", Old: "\thttpReq.URL.Path = path\n}\n\n// ReqPathPrefixAdd adds", New: "\thttpReq.URL.Path = path\n\thttpReq.URL.RawQuery = \"\"\n}\n\n// ReqPathPrefixAdd adds", Expect: "query-cache-sync|writers|bfe_basic/action.ReqPathSet"},
			{Name: "silent-query-add-drops-cache", File: "bfe_basic/action/action_query.go", Old: "\t\t// try to get value of given key\n\t\toldValue := queries.Get(key)\n\n\t\tif oldValue == \"\" {\n\t\t\t// key not exist, use Set()\n\t\t\tqueries.Set(key, value)\n\t\t} else {\n\t\t\t// key exist, use Add()\n\t\t\tqueries.Add(key, value)\n\t\t}\n", New: "\t\t_ = queries\n\t\treq.Query = nil\n", Silent: true},
			{Name: "variable-charset-without-digits", File: "bfe_modules/mod_header/action.go", Old: "const variableCharset = \"abcdefghijklmnopqrstuvwxyz0123456789_\"", New: "const variableCharset = \"abcdefghijklmnopqrstuvwxyz_\"", Expect: "variable-scanner|name:bfe_ssl_ja3_raw"},
			{Name: "variable-scan-skips-instead-of-stopping", File: "bfe_modules/mod_header/action.go", Old: "\t\tif !strings.Contains(variableCharset, string(c)) {\n\t\t\tbreak\n\t\t}\n", New: "\t\tif !strings.Contains(variableCharset, string(c)) {\n\t\t\tcontinue\n\t\t}\n", Expect: "variable-scanner|name:bfe_vip"},
			{Name: "variable-piece-runs-to-next-percent", File: "bfe_modules/mod_header/action.go", Old: "\t\t\t\t// variable param\n\t\t\t\tindex += expectVariableParam(param[index:])", New: "\t\t\t\t// variable param\n\t\t\t\tindex += expectPercent(param[index:])", Expect: "variable-scanner|split:bfe_vip"},
			{Name: "escape-piece-loses-a-byte", File: "bfe_modules/mod_header/action.go", Old: "\t\tparams = append(params, param[paramBegin:index])\n", New: "\t\tif index-paramBegin > 1 && param[paramBegin+1] == '%' {\n\t\t\tparamBegin++\n\t\t}\n\t\tparams = append(params, param[paramBegin:index])\n", Expect: "variable-scanner|split:bfe_vip"},
			{Name: "documented-variable-renamed-in-table", File: "bfe_modules/mod_header/action_header_var.go", Old: "\t\"bfe_ssl_ja3_raw\":", New: "\t\"bfe_ssl_ja3raw\":", Expect: "documented-variable|docs/en_us/modules/mod_header/mod_header.md:%bfe_ssl_ja3_raw"},
			{Name: "silent-query-add-cache-update-in-helper", File: "bfe_basic/action/action_query.go", Old: "\t\t// try to get value of given key\n\t\toldValue := queries.Get(key)\n\n\t\tif oldValue == \"\" {\n\t\t\t// key not exist, use Set()\n\t\t\tqueries.Set(key, value)\n\t\t} else {\n\t\t\t// key exist, use Add()\n\t\t\tqueries.Add(key, value)\n\t\t}\n\n\t\taddQueryString = addQueryString + \"&\" + key + \"=\" + value\n\t}\n\n\t// add rawQuery directly\n\tif req.HttpRequest.URL.RawQuery == \"\" {\n\t\t// if RawQuery is empty, remove prefix \"&\"\n\t\treq.HttpRequest.URL.RawQuery = addQueryString[1:]\n\t} else {\n\t\treq.HttpRequest.URL.RawQuery += addQueryString\n\t}\n}\n\n", New: "\t\tcachedQueryAdd(queries, key, value)\n\n\t\taddQueryString = addQueryString + \"&\" + key + \"=\" + value\n\t}\n\n\t// add rawQuery directly\n\tif req.HttpRequest.URL.RawQuery == \"\" {\n\t\t// if RawQuery is empty, remove prefix \"&\"\n\t\treq.HttpRequest.URL.RawQuery = addQueryString[1:]\n\t} else {\n\t\treq.HttpRequest.URL.RawQuery += addQueryString\n\t}\n}\n\n// cachedQueryAdd adds (key, value) to the parsed query.\nfunc cachedQueryAdd(queries url.Values, key string, value string) {\n\tif queries.Get(key) == \"\" {\n\t\tqueries.Set(key, value)\n\t} else {\n\t\tqueries.Add(key, value)\n\t}\n}\n\n", Silent: true},
			{Name: "silent-variable-scanner-byte-loop", File: "bfe_modules/mod_header/action.go", Old: "\tfor _, c := range str {\n\t\tif !strings.Contains(variableCharset, string(c)) {\n\t\t\tbreak\n\t\t}\n\t\tindex++\n\t}\n\n\treturn index\n}\n", New: "\tfor index < len(str) && isVariableChar(str[index]) {\n\t\tindex++\n\t}\n\n\treturn index\n}\n\nfunc isVariableChar(c byte) bool {\n\treturn (c >= 'a' && c <= 'z') || (c >= '0' && c <= '9') || c == '_'\n}\n", Silent: true},
			{Name: "scheme-set-decoded-path", File: "bfe_modules/mod_redirect/action_url.go", Old: "\turi := rawUrl.RequestURI()\n\n\thost := rawUrl.Host", New: "\turi := rawUrl.Path\n\n\thost := rawUrl.Host", Expect: "redirect-no-decoded-path|bfe_modules/mod_redirect.ReqSchemeSet"},
			{Name: "prefix-add-uri-first", File: "bfe_modules/mod_redirect/action_url.go", Old: "req.Redirect.Url = prefix + uri", New: "req.Redirect.Url = uri + prefix", Expect: "redirect-original-uri|URL_PREFIX_ADD"},
			{Name: "scheme-set-drops-host", File: "bfe_modules/mod_redirect/action_url.go", Old: "req.Redirect.Url = scheme + \"://\" + host + uri", New: "_ = host\n\treq.Redirect.Url = scheme + \"://\" + uri", Expect: "redirect-original-uri|SCHEME_SET"},
			{Name: "silent-redirect-uri-helper", File: "bfe_modules/mod_redirect/action_url.go", Old: "// ReqUrlPrefixAdd specify redirect url by adding prefix to original uri(path+query)\n// e.g., url  \"/(.*)\" => \"link$1\",\nfunc ReqUrlPrefixAdd(req *bfe_basic.Request, prefix string) {\n\trawUrl := req.HttpRequest.URL\n\turi := rawUrl.RequestURI()\n", New: "func originalURI(req *bfe_basic.Request) string {\n\treturn req.HttpRequest.URL.RequestURI()\n}\n\n// ReqUrlPrefixAdd specify redirect url by adding prefix to original uri(path+query)\n// e.g., url  \"/(.*)\" => \"link$1\",\nfunc ReqUrlPrefixAdd(req *bfe_basic.Request, prefix string) {\n\turi := originalURI(req)\n", Silent: true},
		},
	})
}

func runC49(c *core.Ctx) {
	const act = "bfe_basic/action"
	const rw = "bfe_modules/mod_rewrite"
	const hd = "bfe_modules/mod_header"
	const rd = "bfe_modules/mod_redirect"
	for _, rel := range []string{act, rw, hd, rd} {
		if c.P.Pkg(rel) == nil {
			c.Missing(rel)
			return
		}
	}
	build := func(rel, checker string) *mdCmdModel {
		m := mdNewCmdModel(c.P, rel)
		fn := c.P.Func(rel, checker)
		if fn == nil {
			c.Missing(rel + "." + checker)
			m.accepted = map[string]map[int]bool{}
			return m
		}
		c.Analysed(core.FuncKey(fn))
		s := m.summarize(fn, 0)
		m.accepted = map[string]map[int]bool{}
		for k, v := range s.byCmd {
			if k != "*" {
				m.accepted[k] = v
			}
		}
		c.Check("checker-closed", rel+"."+checker, fn.Pos(), s.complete && !s.defaultAccepts && s.hasCmdTests,
			fmt.Sprintf("the command checker must reject every command it does not list: paths enumerated=%d complete=%v, a success path without a matching command label exists=%v, command tests found=%v", s.paths, s.complete, s.defaultAccepts, s.hasCmdTests))
		c.Note("%s.%s accepts: %s", rel, checker, mdAcceptedStr(m.accepted))
		return m
	}
	am := build(act, "ActionFileCheck")
	hm := build(hd, "ActionFileCheck")
	rm := build(rd, "ActionFileCheck")
	c.Min("checker-closed", 3)

	// ---- (1) constants, Do arms, checker --------------------------------
	doFn := c.P.Func(act, "Action.Do")
	var doArms map[string]bool
	if doFn == nil {
		c.Missing(act + ".Action.Do")
	} else {
		c.Analysed(core.FuncKey(doFn))
		doArms = am.armLabels(doFn)
	}
	consts := map[string]string{} // value -> constant name
	if pk := c.P.Pkg(act); pk != nil {
		sc := pk.Types.Scope()
		for _, n := range sc.Names() {
			k, ok := sc.Lookup(n).(*types.Const)
			if !ok || !strings.HasPrefix(n, "Action") || k.Val().Kind().String() != "String" {
				continue
			}
			v := strings.Trim(k.Val().ExactString(), "\"")
			consts[v] = n
			if doArms != nil {
				c.Check("const-executed", v, k.Pos(), doArms[v], "command constant "+n+" has no executing arm in Action.Do (the action would be accepted and then fail with `unknown cmd`, or do nothing)")
			}
			_, acc := am.accepted[v]
			c.Check("const-accepted", v, k.Pos(), acc, "command constant "+n+" = "+v+" is implemented but ActionFileCheck rejects it as `invalid cmd`: a documented action with valid parameters cannot be configured")
		}
	}
	c.Min("const-executed", 16)
	c.Min("const-accepted", 16)
	for _, cmd := range mdSortedKeys(mdKeysOf(am.accepted)) {
		ok := doArms != nil && doArms[cmd]
		c.Check("accepted-executed", "action:"+cmd, am.posOf(c, "ActionFileCheck"), ok, "ActionFileCheck accepts "+cmd+" but Action.Do has no executing arm for it")
	}
	if doArms != nil {
		for _, cmd := range mdSortedKeys(doArms) {
			_, isConst := consts[cmd]
			c.Check("do-arm-known", cmd, doFn.Pos(), isConst, "Action.Do has an arm for "+cmd+", which is not one of the package's Action* constants")
		}
	}

	// ---- (2) allow-lists --------------------------------------------------
	for _, al := range []struct{ rel, name string }{{rw, "allowActions"}, {"bfe_modules/mod_prison", "allowActions"}} {
		keys, pos, ok := mdMapLiteralKeys(c.P, al.rel, al.name)
		if !ok {
			c.Missing(al.rel + "." + al.name)
			continue
		}
		for _, k := range keys {
			_, acc := am.accepted[k]
			c.Check("allow-accepted", al.rel+"."+al.name+":"+k, pos, acc, "allow-list names "+k+", which the shared ActionFileCheck rejects: the action can never be loaded")
		}
	}
	c.Min("allow-accepted", 14)

	// ---- mod_header tables -------------------------------------------------
	hdExec := func(name string) map[string]bool {
		fn := c.P.Func(hd, name)
		if fn == nil {
			c.Missing(hd + "." + name)
			return map[string]bool{}
		}
		c.Analysed(core.FuncKey(fn))
		return hm.armLabels(fn)
	}
	conv := hdExec("actionConvert")
	hdo := hdExec("HeaderActionDo")
	reqCk := hdExec("ReqCookieActionDo")
	rspCk := hdExec("RspCookieActionDo")
	for _, cmd := range mdSortedKeys(mdKeysOf(hm.accepted)) {
		ok := conv[cmd]
		why := ""
		if !ok {
			why = "actionConvert has no arm for it (the loader fails after the check passed)"
		}
		switch {
		case strings.Contains(cmd, "HEADER"):
			if len(cmd) < 4 || !hdo[cmd[4:]] {
				ok, why = false, why+" HeaderActionDo has no arm for "+cmd[min(4, len(cmd)):]
			}
		case strings.HasPrefix(cmd, "REQ_"):
			if !reqCk[cmd] {
				ok, why = false, why+" ReqCookieActionDo has no arm"
			}
		default:
			if !rspCk[cmd] {
				ok, why = false, why+" RspCookieActionDo has no arm"
			}
		}
		c.Check("accepted-executed", "mod_header:"+cmd, hm.posOf(c, "ActionFileCheck"), ok, "mod_header accepts "+cmd+" but it is not executed: "+why)
	}
	for _, cmd := range mdSortedKeys(conv) {
		_, acc := hm.accepted[cmd]
		c.Check("executor-accepted", "mod_header.actionConvert:"+cmd, hm.posOf(c, "actionConvert"), acc || !conv[cmd], "actionConvert handles "+cmd+", which ActionFileCheck rejects")
	}

	// ---- mod_redirect tables -----------------------------------------------
	excl, exPos, exOK := mdMapLiteralKeys(c.P, rd, "EXCLUSIVE_ACTIONS")
	if !exOK {
		c.Missing(rd + ".EXCLUSIVE_ACTIONS")
	}
	exSet := map[string]bool{}
	for _, k := range excl {
		exSet[k] = true
	}
	var rdo map[string]bool
	if fn := c.P.Func(rd, "redirectExclusiveActionDo"); fn == nil {
		c.Missing(rd + ".redirectExclusiveActionDo")
		rdo = map[string]bool{}
	} else {
		c.Analysed(core.FuncKey(fn))
		rdo = rm.armLabels(fn)
	}
	for _, cmd := range mdSortedKeys(mdKeysOf(rm.accepted)) {
		c.Check("accepted-executed", "mod_redirect:"+cmd, rm.posOf(c, "ActionFileCheck"), exSet[cmd] && rdo[cmd],
			fmt.Sprintf("mod_redirect accepts %s but it is not executed: in EXCLUSIVE_ACTIONS=%v, arm in redirectExclusiveActionDo=%v (the redirect URL stays empty)", cmd, exSet[cmd], rdo[cmd]))
	}
	for _, cmd := range excl {
		_, acc := rm.accepted[cmd]
		c.Check("executor-accepted", "mod_redirect.EXCLUSIVE_ACTIONS:"+cmd, exPos, acc, "EXCLUSIVE_ACTIONS lists "+cmd+", which ActionFileCheck rejects")
	}
	c.Min("accepted-executed", 15+14+4)

	// ---- (3) documentation ⊆ code ------------------------------------------
	rwAllow, _, _ := mdMapLiteralKeys(c.P, rw, "allowActions")
	rwSet := map[string]bool{}
	for _, k := range rwAllow {
		rwSet[k] = true
	}
	docs := []struct {
		file string
		ok   func(cmd string) (bool, string)
	}{
		{"docs/en_us/modules/mod_rewrite/mod_rewrite.md", func(cmd string) (bool, string) {
			return rwSet[cmd] && doArms != nil && doArms[cmd], fmt.Sprintf("in mod_rewrite allow-list=%v, executing arm in Action.Do=%v", rwSet[cmd], doArms != nil && doArms[cmd])
		}},
		{"docs/en_us/modules/mod_header/mod_header.md", func(cmd string) (bool, string) {
			_, acc := hm.accepted[cmd]
			return acc && conv[cmd], fmt.Sprintf("accepted by mod_header.ActionFileCheck=%v, converted=%v", acc, conv[cmd])
		}},
		{"docs/en_us/modules/mod_redirect/mod_redirect.md", func(cmd string) (bool, string) {
			_, acc := rm.accepted[cmd]
			return acc && rdo[cmd], fmt.Sprintf("accepted by mod_redirect.ActionFileCheck=%v, executed=%v", acc, rdo[cmd])
		}},
	}
	for _, d := range docs {
		cmds, err := mdDocActions(d.file)
		if err != nil || len(cmds) == 0 {
			c.Missing(d.file + " (Actions table)")
			continue
		}
		for _, cmd := range cmds {
			ok, why := d.ok(cmd)
			c.CheckAt("documented-implemented", d.file+":"+cmd, d.file, ok, "documented action "+cmd+" is not usable: "+why)
		}
	}
	c.Min("documented-implemented", 20)

	// ---- (4) parameter indices vs accepted counts ----------------------------
	n := am.checkSites(c, "params-index")
	n += hm.checkSites(c, "params-index")
	n += rm.checkSites(c, "params-index")
	c.Note("params-index: %d (function, index, command-set) instances", n)
	c.Min("params-index", 30)
	// ReqQueryAdd consumes Params pairwise and slices a leading '&' off the
	// string it built: at least one pair is needed.
	if qa := c.P.Func(act, "ReqQueryAdd"); qa == nil {
		c.Missing(act + ".ReqQueryAdd")
	} else if v, ok := mdConstVal(c.P, act, "ActionQueryAdd"); ok {
		cmd := strings.Trim(v.ExactString(), "\"")
		set := am.accepted[cmd]
		good := len(set) > 0
		for k := range set {
			if k < 2 || k%2 != 0 {
				good = false
			}
		}
		c.Check("pair-arity", cmd, qa.Pos(), good, "ReqQueryAdd reads Params as (key, value) pairs and slices the first byte off the string built from them; "+cmd+" is accepted with "+mdLensStr(set)+" parameters (needs an even count >= 2, otherwise addQueryString[1:] panics or a key is dropped)")
	}
	c.Min("pair-arity", 1)

	// ---- (5) checks are on the load path -----------------------------------
	if fn := c.P.Func(act, "Action.UnmarshalJSON"); fn == nil {
		c.Missing(act + ".Action.UnmarshalJSON")
	} else {
		c.Analysed(core.FuncKey(fn))
		n := 0
		core.Instrs(fn, func(in ssa.Instruction) {
			st, ok := in.(*ssa.Store)
			if !ok {
				return
			}
			fa, ok := st.Addr.(*ssa.FieldAddr)
			if !ok || len(fn.Params) == 0 || fa.X != ssa.Value(fn.Params[0]) {
				return
			}
			n++
			ok = mdEstablished(in.Block(), func(f mdFact) bool {
				x, nonNil, isNil := mdNilTest(f)
				return isNil && !nonNil && mdIsCallTo(x, act+".ActionFileCheck")
			})
			c.Check("check-on-load", act+".Action.UnmarshalJSON:"+mdFieldNameOf(fa), in.Pos(), ok, "the decoded action is assigned although ActionFileCheck did not return nil on this path")
		})
		if n == 0 {
			c.Check("check-on-load", act+".Action.UnmarshalJSON", fn.Pos(), false, "no assignment of the decoded action found")
		}
	}
	for _, ld := range []struct{ rel, loader, check, convert string }{
		{hd, "HeaderConfLoad", "HeaderConfCheck", "ruleListConvert"},
		{rd, "redirectConfLoad", "RedirectConfCheck", "ruleListConvert"},
	} {
		fn, ck := c.P.Func(ld.rel, ld.loader), c.P.Func(ld.rel, ld.check)
		afc := c.P.Func(ld.rel, "ActionFileCheck")
		if fn == nil || ck == nil || afc == nil {
			c.Missing(ld.rel + "." + ld.loader + "/" + ld.check)
			continue
		}
		c.Analysed(core.FuncKey(fn))
		reaches := false
		for _, f := range core.TransitiveCallees(ck, 6) {
			if f == afc {
				reaches = true
			}
		}
		c.Check("check-on-load", ld.rel+"."+ld.check+":reaches-ActionFileCheck", ck.Pos(), reaches, ld.check+" no longer reaches ActionFileCheck: actions are loaded unchecked")
		calls := core.Calls(fn, ld.rel+"."+ld.convert)
		for i, call := range calls {
			ok := mdEstablished(call.Block(), func(f mdFact) bool {
				x, nonNil, isNil := mdNilTest(f)
				return isNil && !nonNil && mdIsCallTo(x, ld.rel+"."+ld.check)
			})
			c.Check("check-on-load", fmt.Sprintf("%s.%s:convert#%d", ld.rel, ld.loader, i), call.Pos(), ok, "rules are converted although "+ld.check+" did not return nil on this path")
		}
		if len(calls) == 0 {
			c.Check("check-on-load", ld.rel+"."+ld.loader+":convert", fn.Pos(), false, "no call of "+ld.convert+" found in the loader")
		}
	}
	if fn := c.P.Func(rw, "ReWriteRuleCheck"); fn == nil {
		c.Missing(rw + ".ReWriteRuleCheck")
	} else {
		c.Analysed(core.FuncKey(fn))
		wm := mdNewCmdModel(c.P, rw)
		var allowG *ssa.Global
		if sp := c.P.SPkg[rw]; sp != nil {
			allowG, _ = sp.Members["allowActions"].(*ssa.Global)
		}
		found, ok := false, false
		core.Instrs(fn, func(in ssa.Instruction) {
			lk, isLk := in.(*ssa.Lookup)
			if !isLk || !lk.CommaOk {
				return
			}
			if u, isLoad := lk.X.(*ssa.UnOp); !isLoad || allowG == nil || u.X != ssa.Value(allowG) {
				return
			}
			if k, _, isCmd := wm.subjectOf(lk.Index, 0); !isCmd || k != "cmd" {
				return
			}
			found = true
			// the not-found edge must end in an error return at once
			for _, b := range fn.Blocks {
				for _, s := range b.Succs {
					f, isF := mdEdgeFact(b, s)
					if !isF || f.Pol {
						continue
					}
					if ex, isEx := f.Cond.(*ssa.Extract); isEx && ex.Tuple == lk && ex.Index == 1 {
						if r := mdBlockReturn(s); r != nil && mdErrNonNil(r) {
							ok = true
						}
					}
				}
			}
		})
		c.Check("check-on-load", rw+".ReWriteRuleCheck:allow-list", fn.Pos(), found && ok, fmt.Sprintf("a command missing from allowActions must make ReWriteRuleCheck return an error (lookup found=%v, miss returns error=%v)", found, ok))
	}
	c.Min("check-on-load", 7)

	mdC49Wiring(c, am, hm, rm)
	mdC49QueryEffects(c)
	mdC49QueryCache(c)
	mdC49RedirectEffects(c)
	mdC49HeaderVariables(c)
}

// mdC49Wiring decides that each command's arm calls the executor the
// documentation names for it, hands the parameters over in order, and that
// mod_header applies REQ_* actions to the request and RSP_* actions to the
// response.
func mdC49Wiring(c *core.Ctx, am, hm, rm *mdCmdModel) {
	const act = "bfe_basic/action"
	const hd = "bfe_modules/mod_header"
	const rd = "bfe_modules/mod_redirect"
	both := func(suffix, callee string, t map[string]string) {
		t["REQ_"+suffix] = callee
		t["RSP_"+suffix] = callee
	}
	hdo := map[string]string{}
	both("HEADER_SET", hd+".headerSet", hdo)
	both("HEADER_MOD", hd+".headerSet", hdo)
	both("HEADER_ADD", hd+".headerAdd", hdo)
	both("HEADER_DEL", hd+".headerDel", hdo)
	both("HEADER_RENAME", hd+".headerRename", hdo)
	wires := []struct {
		m     *mdCmdModel
		fn    string
		table map[string]string
	}{
		{am, "Action.Do", map[string]string{
			"REQ_HEADER_ADD": "bfe_http.Header.Add", "REQ_HEADER_SET": "bfe_http.Header.Set", "REQ_HEADER_DEL": "bfe_http.Header.Del",
			"HOST_SET": act + ".ReqHostSet", "HOST_SET_FROM_PATH_PREFIX": act + ".ReqHostSetFromFirstPathSegment", "HOST_SUFFIX_REPLACE": act + ".ReqHostSuffixReplace",
			"PATH_SET": act + ".ReqPathSet", "PATH_PREFIX_ADD": act + ".ReqPathPrefixAdd", "PATH_PREFIX_TRIM": act + ".ReqPathPrefixTrim",
			"QUERY_ADD": act + ".ReqQueryAdd", "QUERY_RENAME": act + ".ReqQueryRename", "QUERY_DEL": act + ".ReqQueryDel", "QUERY_DEL_ALL_EXCEPT": act + ".ReqQueryDelAllExcept",
		}},
		{hm, "HeaderActionDo", hdo},
		{hm, "ReqCookieActionDo", map[string]string{"REQ_COOKIE_SET": hd + ".reqSetCookie", "REQ_COOKIE_DEL": hd + ".reqDelCookie"}},
		{hm, "RspCookieActionDo", map[string]string{"RSP_COOKIE_SET": hd + ".rspSetCookie", "RSP_COOKIE_DEL": hd + ".rspDelCookie"}},
		{rm, "redirectExclusiveActionDo", map[string]string{"SCHEME_SET": rd + ".ReqSchemeSet", "URL_SET": rd + ".ReqUrlSet", "URL_FROM_QUERY": rd + ".ReqUrlFromQuery", "URL_PREFIX_ADD": rd + ".ReqUrlPrefixAdd"}},
	}
	for _, w := range wires {
		fn := c.P.Func(w.m.rel, w.fn)
		if fn == nil {
			c.Missing(w.m.rel + "." + w.fn)
			continue
		}
		universe := map[string]bool{}
		callees := map[string]bool{}
		for k, v := range w.table {
			universe[k] = true
			callees[v] = true
		}
		for k := range w.m.accepted {
			universe[k] = true
		}
		hit := map[string]bool{}
		wrong := map[string]string{}
		for _, call := range core.AllCalls(fn) {
			k := strings.TrimPrefix(core.CalleeKey(call.Common()), "invoke:")
			if !callees[k] {
				continue
			}
			// parameters are handed over in their configured order
			last, ordered := -1, true
			for _, a := range call.Common().Args {
				if u, ok := a.(*ssa.UnOp); ok && u.Op == token.MUL {
					if ia, ok := u.X.(*ssa.IndexAddr); ok && w.m.isParams(ia.X, 0) {
						if n, ok := mdIntConst(ia.Index); ok {
							if int(n) <= last {
								ordered = false
							}
							last = int(n)
						}
					}
				}
			}
			for cmd := range mdFilterCmds(universe, w.m.consAt(call.(ssa.Instruction).Block())) {
				exp, known := w.table[cmd]
				switch {
				case !known:
				case exp != k:
					wrong[cmd] = "its arm calls " + k + ", the action is implemented by " + exp
				case !ordered:
					wrong[cmd] = "its arm hands Params to " + k + " out of order"
				default:
					hit[cmd] = true
				}
			}
		}
		for _, cmd := range mdSortedKeys(mdKeysOfStr(w.table)) {
			msg := wrong[cmd]
			if msg == "" && !hit[cmd] {
				msg = "no call of " + w.table[cmd] + " is reached by this command"
			}
			c.Check("arm-executor", w.m.rel+"."+w.fn+":"+cmd, fn.Pos(), msg == "", "command "+cmd+" does not have its documented effect: "+msg)
		}
	}
	c.Min("arm-executor", 13+10+2+2+4)

	// direction of mod_header actions
	reqK, ok1 := mdConstVal(c.P, hd, "ReqHeader")
	rspK, ok2 := mdConstVal(c.P, hd, "RspHeader")
	if !ok1 || !ok2 {
		c.Missing(hd + ".ReqHeader/RspHeader")
		return
	}
	isK := func(v ssa.Value, k string) bool {
		n, ok := mdIntConst(v)
		return ok && fmt.Sprint(n) == k
	}
	req, rsp := reqK.ExactString(), rspK.ExactString()
	typeIs := func(fn *ssa.Function, k string) func(f mdFact) bool {
		return func(f mdFact) bool {
			b, ok := f.Cond.(*ssa.BinOp)
			if !ok || (b.Op != token.EQL && b.Op != token.NEQ) || (b.Op == token.EQL) != f.Pol || len(fn.Params) < 2 {
				return false
			}
			return (b.X == ssa.Value(fn.Params[1]) && isK(b.Y, k)) || (b.Y == ssa.Value(fn.Params[1]) && isK(b.X, k))
		}
	}
	if fn := c.P.Func(hd, "getHeaderType"); fn == nil {
		c.Missing(hd + ".getHeaderType")
	} else if mdNeedParams(c, 1, fn) {
		prefix := func(pol bool) func(f mdFact) bool {
			return func(f mdFact) bool {
				cc, _ := mdCallOf(f.Cond)
				if cc == nil || f.Pol != pol || !core.CallIs(cc, "strings.HasPrefix") || len(cc.Args) != 2 || cc.Args[0] != ssa.Value(fn.Params[0]) {
					return false
				}
				s, ok := core.ConstString(cc.Args[1])
				return ok && s == "REQ_"
			}
		}
		for i, r := range core.Returns(fn) {
			vals, isConst := mdPossibleInts(r.Results[0])
			good := isConst && len(vals) == 1
			if good {
				switch fmt.Sprint(vals[0]) {
				case req:
					good = mdEstablished(r.Block(), prefix(true))
				case rsp:
					good = mdEstablished(r.Block(), prefix(false))
				default:
					good = false
				}
			}
			c.Check("header-direction", fmt.Sprintf("getHeaderType:return#%d", i), r.Pos(), good, "getHeaderType must classify a command as request-side exactly when it starts with REQ_, response-side otherwise")
		}
	}
	if fn := c.P.Func(hd, "getHeader"); fn == nil {
		c.Missing(hd + ".getHeader")
	} else {
		n := 0
		for _, r := range core.Returns(fn) {
			phi, ok := r.Results[0].(*ssa.Phi)
			var cases [][2]interface{}
			if ok {
				for i, e := range phi.Edges {
					cases = append(cases, [2]interface{}{e, mdEdgeFacts(phi.Block().Preds[i], phi.Block())})
				}
			} else {
				var fs []mdFact
				if b := r.Block(); len(b.Preds) == 1 {
					fs = mdEdgeFacts(b.Preds[0], b)
				}
				cases = append(cases, [2]interface{}{r.Results[0], fs})
			}
			for _, cs := range cases {
				v := cs[0].(ssa.Value)
				fa, ok := v.(*ssa.FieldAddr)
				if !ok {
					continue // nil for unknown types
				}
				owner := ""
				if x, ok := fa.X.(*ssa.UnOp); ok {
					if f2, ok := x.X.(*ssa.FieldAddr); ok {
						owner = mdFieldNameOf(f2)
					}
				}
				want := ""
				switch owner {
				case "HttpRequest":
					want = req
				case "HttpResponse":
					want = rsp
				}
				good := want != "" && mdFieldNameOf(fa) == "Header"
				if good {
					good = false
					for _, f := range cs[1].([]mdFact) {
						if typeIs(fn, want)(f) {
							good = true
						}
					}
				}
				n++
				c.Check("header-direction", "getHeader:"+owner, r.Pos(), good, "getHeader must hand out the request's header for ReqHeader and the response's header for RspHeader; gives "+core.Render(v))
			}
		}
		if n < 2 {
			c.Check("header-direction", "getHeader:shape", fn.Pos(), false, "getHeader no longer selects between the request's and the response's header by header type")
		}
	}
	if fn := c.P.Func(hd, "processCookie"); fn == nil {
		c.Missing(hd + ".processCookie")
	} else {
		for _, d := range []struct{ callee, k string }{{"ReqCookieActionDo", req}, {"RspCookieActionDo", rsp}} {
			calls := core.Calls(fn, hd+"."+d.callee)
			good := len(calls) > 0
			for _, call := range calls {
				b := call.(ssa.Instruction).Block()
				other := req
				if d.k == req {
					other = rsp
				}
				if !mdEstablished(b, typeIs(fn, d.k)) && !mdEstablished(b, func(f mdFact) bool { f.Pol = !f.Pol; return typeIs(fn, other)(f) }) {
					good = false
				}
			}
			c.Check("header-direction", "processCookie:"+d.callee, fn.Pos(), good, d.callee+" must run exactly for its own header type")
		}
	}
	for _, h := range []struct{ fn, k, name string }{{"ModuleHeader.reqHeaderHandler", req, "ReqHeader"}, {"ModuleHeader.rspHeaderHandler", rsp, "RspHeader"}} {
		fn := c.P.Func(hd, h.fn)
		if fn == nil {
			c.Missing(hd + "." + h.fn)
			continue
		}
		calls := core.Calls(fn, hd+".ModuleHeader.applyProductRule")
		good := len(calls) > 0
		for _, call := range calls {
			a := call.Common().Args
			if len(a) < 3 || !isK(a[2], h.k) {
				good = false
			}
		}
		c.Check("header-direction", h.fn, fn.Pos(), good, h.fn+" must apply the product rules with header type "+h.name)
	}
	c.Min("header-direction", 8)
}

func mdKeysOfStr(m map[string]string) map[string]bool {
	out := map[string]bool{}
	for k := range m {
		out[k] = true
	}
	return out
}

func (m *mdCmdModel) posOf(c *core.Ctx, name string) token.Pos {
	if fn := c.P.Func(m.rel, name); fn != nil {
		return fn.Pos()
	}
	return token.NoPos
}

func mdKeysOf(m map[string]map[int]bool) map[string]bool {
	out := map[string]bool{}
	for k := range m {
		out[k] = true
	}
	return out
}

func mdAcceptedStr(m map[string]map[int]bool) string {
	var s []string
	for _, k := range mdSortedKeys(mdKeysOf(m)) {
		s = append(s, k+mdLensStr(m[k]))
	}
	return strings.Join(s, " ")
}
