package rules

// Fail-closed loading of the tables the access-control handlers consult
// (C51): the blocklist / rule table that a handler searches is replaced only
// by the result of a load that succeeded, and at every level of the load
// chain "success" (a nil error) implies that every step whose outcome the
// function itself looks at succeeded.
//
// Invariants, decided on SSA for every site of the kind in the functions of
// the chain (publisher, its static callers, the loader and the module-internal
// functions the loader's result or verdict is computed by):
//
//   load-gate    the value handed to <table>.Update is result #0 of a call
//                that also returns an error, and the Update is only reached
//                through `that error == nil`;
//   load-result  a return that may carry a nil error is only reached through
//                `err == nil` of every error-returning call that dominates
//                it and whose error the function inspects (or whose value
//                result flows into the returned value) - or passes that
//                call's error on unchanged;
//   load-fail-closed  from the `err != nil` side of a test of such a call's
//                error no return that may carry a nil error is reachable
//                (skip-and-continue of a failed step inside a loop).
//
// Nothing is keyed by a particular error value, function body or statement:
// the rules quantify over all calls with an `error` result in the chain.

import (
	"fmt"
	"go/types"
	"sort"
	"strings"

	"golang.org/x/tools/go/ssa"

	"verif/internal/core"
)

var mdErrorType = types.Universe.Lookup("error").Type()

// mdErrCalls lists the value calls of fn whose last result is an error.
func mdErrCalls(fn *ssa.Function) []*ssa.Call {
	var out []*ssa.Call
	core.Instrs(fn, func(in ssa.Instruction) {
		cv, ok := in.(*ssa.Call)
		if !ok {
			return
		}
		res := cv.Call.Signature().Results()
		if res.Len() == 0 || !types.Identical(res.At(res.Len()-1).Type(), mdErrorType) {
			return
		}
		out = append(out, cv)
	})
	return out
}

// mdIsErrOf: v is the error result of call k.
func mdIsErrOf(v ssa.Value, k *ssa.Call) bool {
	cc, idx := mdCallOf(v)
	if cc != &k.Call {
		return false
	}
	n := k.Call.Signature().Results().Len()
	return (n == 1 && idx == -1) || (n > 1 && idx == n-1)
}

// mdErrValueOf returns the SSA value(s) that carry k's error result.
func mdErrValuesOf(k *ssa.Call) []ssa.Value {
	n := k.Call.Signature().Results().Len()
	if n == 1 {
		return []ssa.Value{k}
	}
	var out []ssa.Value
	if k.Referrers() != nil {
		for _, r := range *k.Referrers() {
			if ex, ok := r.(*ssa.Extract); ok && ex.Index == n-1 {
				out = append(out, ex)
			}
		}
	}
	return out
}

// mdErrInspected: the function does something with k's error (tests it,
// returns it, wraps it, stores it): it is a step whose outcome counts.
func mdErrInspected(k *ssa.Call) bool {
	for _, v := range mdErrValuesOf(k) {
		if v.Referrers() == nil {
			continue
		}
		for _, r := range *v.Referrers() {
			if _, dbg := r.(*ssa.DebugRef); !dbg {
				return true
			}
		}
	}
	return false
}

// mdValueResultIn: a non-error result of k is in the backward slice of v.
func mdValueResultIn(k *ssa.Call, vs []ssa.Value) bool {
	n := k.Call.Signature().Results().Len()
	if n < 2 {
		return false
	}
	for _, v := range vs {
		if mdSliceHas(v, func(x ssa.Value) bool {
			cc, idx := mdCallOf(x)
			return cc == &k.Call && idx >= 0 && idx < n-1
		}) {
			return true
		}
	}
	return false
}

// mdErrNilAt: `err(k) == nil` is established on every way into b (or by the
// edge b -> to when to is given).
func mdErrNilAt(k *ssa.Call, b, to *ssa.BasicBlock) bool {
	m := func(f mdFact) bool {
		x, nonNil, ok := mdNilTest(f)
		return ok && !nonNil && mdIsErrOf(x, k)
	}
	if to != nil {
		if f, ok := mdEdgeFact(b, to); ok && m(f) {
			return true
		}
	}
	return mdEstablished(b, m)
}

// mdKnownNonNilErr: the error value v cannot be nil at (b [-> to]): built by
// fmt.Errorf / errors.New, a package-level Err* variable, a concrete value
// boxed into the interface, or a value tested `!= nil` on every way in.
func mdKnownNonNilErr(v ssa.Value, b, to *ssa.BasicBlock) bool {
	if mdIsNil(v) {
		return false
	}
	if cc, _ := mdCallOf(v); cc != nil && core.CallIs(cc, "fmt.Errorf", "errors.New") {
		return true
	}
	switch x := v.(type) {
	case *ssa.MakeInterface:
		return true
	case *ssa.UnOp:
		if g, ok := x.X.(*ssa.Global); ok && strings.HasPrefix(g.Name(), "Err") {
			return true
		}
	}
	m := func(f mdFact) bool {
		x, nonNil, ok := mdNilTest(f)
		return ok && nonNil && x == v
	}
	if to != nil {
		if f, ok := mdEdgeFact(b, to); ok && m(f) {
			return true
		}
	}
	return mdEstablished(b, m)
}

// mdVRet is one way of leaving a function with a given error value: the
// return itself, or - when the returned error is a phi - one incoming edge.
type mdVRet struct {
	ret  *ssa.Return
	errv ssa.Value
	at   *ssa.BasicBlock // facts are looked up here ...
	to   *ssa.BasicBlock // ... plus on the edge at -> to (nil: none)
	vals []ssa.Value     // the non-error results
}

// mdVirtualReturns expands the returns of fn whose last result is an error.
func mdVirtualReturns(fn *ssa.Function) []mdVRet {
	var out []mdVRet
	for _, r := range core.Returns(fn) {
		rv := core.RetVals(r)
		if len(rv) == 0 || !types.Identical(rv[len(rv)-1].Type(), mdErrorType) {
			continue
		}
		seen := map[*ssa.Phi]bool{}
		var expand func(v ssa.Value, at, to *ssa.BasicBlock, vals []ssa.Value)
		expand = func(v ssa.Value, at, to *ssa.BasicBlock, vals []ssa.Value) {
			if phi, ok := v.(*ssa.Phi); ok && !seen[phi] {
				seen[phi] = true
				for i, e := range phi.Edges {
					// the other results as they are on this edge
					sel := make([]ssa.Value, len(vals))
					for j, x := range vals {
						sel[j] = x
						if p2, ok := x.(*ssa.Phi); ok && p2.Block() == phi.Block() {
							sel[j] = p2.Edges[i]
						}
					}
					expand(e, phi.Block().Preds[i], phi.Block(), sel)
				}
				return
			}
			out = append(out, mdVRet{r, v, at, to, vals})
		}
		expand(rv[len(rv)-1], r.Block(), nil, rv[:len(rv)-1])
	}
	return out
}

// mdStepCalls: the error-returning calls of fn that count as steps of the
// load for a return carrying vals.
func mdIsStep(k *ssa.Call, vals []ssa.Value) bool {
	return mdErrInspected(k) || mdValueResultIn(k, vals)
}

// mdFallback: success at vr although step k failed is a deliberate fallback:
// another step k2 that only runs after k failed (`err(k) != nil` established
// at k2) gates vr with its own error, and nothing k returned is part of the
// result.
func mdFallback(k *ssa.Call, calls []*ssa.Call, vr mdVRet) bool {
	if mdValueResultIn(k, vr.vals) {
		return false
	}
	failed := func(f mdFact) bool {
		x, nonNil, ok := mdNilTest(f)
		return ok && nonNil && mdIsErrOf(x, k)
	}
	for _, k2 := range calls {
		if k2 == k || !mdEstablished(k2.Block(), failed) {
			continue
		}
		if mdIsErrOf(vr.errv, k2) || mdErrNilAt(k2, vr.at, vr.to) {
			return true
		}
	}
	return false
}

// mdSuccessGate records the load-result and load-fail-closed obligations of
// fn and returns the module-internal callees that are steps (to descend into).
func mdSuccessGate(c *core.Ctx, fn *ssa.Function) []*ssa.Function {
	c.Analysed(core.FuncKey(fn))
	calls := mdErrCalls(fn)
	vrets := mdVirtualReturns(fn)
	key := core.FuncKey(fn)

	// load-result
	type agg struct {
		ok  bool
		why []string
	}
	perRet := map[*ssa.Return]*agg{}
	var order []*ssa.Return
	for _, vr := range vrets {
		if mdKnownNonNilErr(vr.errv, vr.at, vr.to) {
			continue
		}
		a := perRet[vr.ret]
		if a == nil {
			a = &agg{ok: true}
			perRet[vr.ret] = a
			order = append(order, vr.ret)
		}
		for _, k := range calls {
			if !core.Dominates(k, vr.ret) && !(vr.to != nil && (k.Block() == vr.at || k.Block().Dominates(vr.at))) {
				continue
			}
			if !mdIsStep(k, vr.vals) {
				continue
			}
			if mdIsErrOf(vr.errv, k) || mdErrNilAt(k, vr.at, vr.to) || mdFallback(k, calls, vr) {
				continue
			}
			a.ok = false
			a.why = append(a.why, fmt.Sprintf("%s at %s", core.CalleeKey(&k.Call), c.P.Pos(k.Pos())))
		}
	}
	for i, r := range order {
		a := perRet[r]
		c.Check("load-result", fmt.Sprintf("%s:success#%d", key, i), r.Pos(), a.ok,
			"this return may report success (nil error) although an earlier step of the load may have failed: `err == nil` is not established for "+strings.Join(mdUniq(a.why), ", ")+"; a failed or partial load is then taken for a good one (the table in force is replaced by / the module starts with incomplete data)")
	}

	// load-fail-closed
	n := 0
	for _, b := range fn.Blocks {
		for _, s := range b.Succs {
			f, ok := mdEdgeFact(b, s)
			if !ok {
				continue
			}
			x, nonNil, isNil := mdNilTest(f)
			if !isNil || !nonNil {
				continue
			}
			var ks []*ssa.Call
			for _, k := range calls {
				if mdIsErrOf(x, k) {
					ks = append(ks, k)
				} else if phi, ok := x.(*ssa.Phi); ok {
					for _, e := range phi.Edges {
						if mdIsErrOf(e, k) {
							ks = append(ks, k)
						}
					}
				}
			}
			if len(ks) == 0 {
				continue
			}
			n++
			reach := mdReachableFrom(s)
			bad := ""
			for _, vr := range vrets {
				if vr.to == nil {
					if !reach[vr.at] {
						continue
					}
				} else if !(reach[vr.at] && reach[vr.to]) && !(vr.at == b && vr.to == s) {
					continue
				}
				if vr.errv == x || mdKnownNonNilErr(vr.errv, vr.at, vr.to) {
					continue
				}
				isK := false
				for _, k := range ks {
					if mdIsErrOf(vr.errv, k) {
						isK = true
					}
				}
				if isK {
					continue
				}
				excused := true
				for _, k := range ks {
					if !mdFallback(k, calls, vr) {
						excused = false
					}
				}
				if excused {
					continue
				}
				bad = "the return at " + c.P.Pos(vr.ret.Pos()) + " (error value " + core.Render(vr.errv) + ")"
			}
			c.Check("load-fail-closed", fmt.Sprintf("%s:failing-edge#%d", key, n), mdBlockPos(s), bad == "",
				"after "+core.CalleeKey(&ks[0].Call)+" failed "+bad+" is still reachable and may report success: the failed step is skipped instead of failing the load")
		}
	}

	// descend
	var next []*ssa.Function
	seen := map[*ssa.Function]bool{}
	var allVals []ssa.Value
	for _, vr := range vrets {
		allVals = append(allVals, vr.vals...)
	}
	for _, k := range calls {
		sc := k.Call.StaticCallee()
		if sc == nil || sc.Blocks == nil || seen[sc] || core.FuncPkgRel(sc) == "" || !mdIsStep(k, allVals) {
			continue
		}
		seen[sc] = true
		next = append(next, sc)
	}
	return next
}

// mdTableSpec names one table a handler consults.
type mdTableSpec struct {
	pkg, typ, field string
}

var mdC51Tables = []mdTableSpec{
	{"bfe_modules/mod_block", "ModuleBlock", "ipTable"},
	{"bfe_modules/mod_block", "ModuleBlock", "ruleTable"},
	{"bfe_modules/mod_auth_basic", "ModuleAuthBasic", "ruleTable"},
	{"bfe_modules/mod_auth_jwt", "ModuleAuthJWT", "ruleTable"},
	{"bfe_modules/mod_secure_link", "ModuleSecureLink", "ruleTable"},
}

// mdTableUpdates finds the calls <recv>.<field>.Update(x) of the package,
// where recv has the module type.
func mdTableUpdates(p *core.Prog, t mdTableSpec) []*ssa.Call {
	var out []*ssa.Call
	for _, fn := range p.SrcFuncs(t.pkg) {
		if core.FuncPkgRel(fn) != t.pkg {
			continue
		}
		core.Instrs(fn, func(in ssa.Instruction) {
			cv, ok := in.(*ssa.Call)
			if !ok || cv.Call.IsInvoke() || len(cv.Call.Args) != 2 {
				return
			}
			sc := cv.Call.StaticCallee()
			if sc == nil || sc.Name() != "Update" {
				return
			}
			x, ok := mdFieldLoadNamed(cv.Call.Args[0], t.field)
			if !ok || !strings.HasSuffix(core.TypeStr(x.Type()), t.typ) {
				return
			}
			out = append(out, cv)
		})
	}
	return out
}

// mdC51Loads checks the load chains of all tables.
func mdC51Loads(c *core.Ctx) {
	done := map[*ssa.Function]bool{}
	var descend func(fn *ssa.Function, depth int)
	descend = func(fn *ssa.Function, depth int) {
		if done[fn] {
			return
		}
		done[fn] = true
		for _, sc := range mdSuccessGate(c, fn) {
			if depth < 2 {
				descend(sc, depth+1)
			}
		}
	}
	for _, t := range mdC51Tables {
		ups := mdTableUpdates(c.P, t)
		if len(ups) == 0 {
			c.Missing(fmt.Sprintf("%s: call of %s.%s.Update", t.pkg, t.typ, t.field))
			continue
		}
		sort.Slice(ups, func(i, j int) bool { return ups[i].Pos() < ups[j].Pos() })
		for i, u := range ups {
			mdCheckPublish(c, t, i, u, u.Call.Args[1], 0, descend)
		}
	}
	c.Min("load-gate", 5)
	c.Min("load-result", 28)
	c.Min("load-fail-closed", 55)
}

// mdCheckPublish: the published value is result #0 of a loader call whose
// error is nil on every way to the Update; when the value is a parameter of
// a helper the obligation moves to the helper's call sites.
func mdCheckPublish(c *core.Ctx, t mdTableSpec, i int, at ssa.CallInstruction, val ssa.Value, depth int, descend func(*ssa.Function, int)) {
	fn := at.Parent()
	key := fmt.Sprintf("%s.%s.%s:update#%d", t.pkg, t.typ, t.field, i)
	if depth > 0 {
		key += fmt.Sprintf("/via-%s", fn.Name())
	}
	val = core.StripConv(val)
	if p, ok := val.(*ssa.Parameter); ok && depth < 2 {
		sites := c.P.CallSites(fn)
		idx := -1
		for j, q := range fn.Params {
			if q == p {
				idx = j
			}
		}
		if len(sites) > 0 && idx >= 0 {
			for _, s := range sites {
				if idx < len(s.Common().Args) {
					mdCheckPublish(c, t, i, s, s.Common().Args[idx], depth+1, descend)
				}
			}
			// the helper itself must not report success when it did not publish: nothing to say
			return
		}
	}
	var loader *ssa.Call
	if ex, ok := val.(*ssa.Extract); ok && ex.Index == 0 {
		if k, ok := ex.Tuple.(*ssa.Call); ok {
			res := k.Call.Signature().Results()
			if res.Len() >= 2 && types.Identical(res.At(res.Len()-1).Type(), mdErrorType) {
				loader = k
			}
		}
	}
	if loader == nil {
		c.Check("load-gate", key, at.Pos(), false, "the value published to "+t.field+" ("+core.Render(val)+") is not the result of a loader call that reports an error: cannot establish that only successfully loaded data replaces the table in force")
		return
	}
	gated := mdErrNilAt(loader, at.Block(), nil)
	c.Check("load-gate", key, at.Pos(), gated,
		"the table "+t.field+" is replaced by the result of "+core.CalleeKey(&loader.Call)+" although its error was not established to be nil on this path; facts: "+mdFactStrs(at.Block())+": data of a failed or partial load (truncated blocklist, rule set cut short) replaces the table in force")

	// the loader chain
	if sc := loader.Call.StaticCallee(); sc != nil && sc.Blocks != nil {
		descend(sc, 0)
	} else {
		c.Check("load-gate", key+":loader", loader.Pos(), false, "the loader "+core.CalleeKey(&loader.Call)+" cannot be resolved statically")
	}
	// the publisher and its static callers report success only after the load
	descend(fn, 3)
	for _, s := range c.P.CallSites(fn) {
		if s.Parent() != nil && core.FuncPkgRel(s.Parent()) != "" {
			descend(s.Parent(), 3) // callers: this level only
		}
	}
}
