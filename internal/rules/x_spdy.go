package rules

// Shared helpers of the bfe_spdy rules (C39, C40).

import (
	"go/constant"
	"go/token"
	"go/types"
	"sort"
	"strings"

	"golang.org/x/tools/go/ssa"

	"verif/internal/core"
)

const spdyPkg = "bfe_spdy"

// spdyShort is FuncKey without the package prefix ("Framer.parseDataFrame").
func spdyShort(fn *ssa.Function) string {
	return strings.TrimPrefix(core.FuncKey(fn), spdyPkg+".")
}

// spdyConstInt returns the integer value of a constant operand (conversions peeled).
func spdyConstInt(v ssa.Value) (int64, bool) {
	c, ok := core.StripConv(v).(*ssa.Const)
	if !ok || c.Value == nil || c.Value.Kind() != constant.Int {
		return 0, false
	}
	if i, exact := constant.Int64Val(c.Value); exact {
		return i, true
	}
	if u, exact := constant.Uint64Val(c.Value); exact && u <= 1<<62 {
		return int64(u), true
	}
	return 0, false
}

// spdyIsNil: the nil constant of an interface/pointer/slice/map type.
func spdyIsNil(v ssa.Value) bool {
	c, ok := v.(*ssa.Const)
	return ok && c.Value == nil
}

// spdyCmp is a comparison "subject op other" that is known to hold.
type spdyCmp struct {
	Subj  ssa.Value
	Op    token.Token
	Other ssa.Value
}

func spdySwapOp(op token.Token) token.Token {
	switch op {
	case token.LSS:
		return token.GTR
	case token.GTR:
		return token.LSS
	case token.LEQ:
		return token.GEQ
	case token.GEQ:
		return token.LEQ
	}
	return op
}

func spdyNegOp(op token.Token) token.Token {
	switch op {
	case token.LSS:
		return token.GEQ
	case token.GEQ:
		return token.LSS
	case token.GTR:
		return token.LEQ
	case token.LEQ:
		return token.GTR
	case token.EQL:
		return token.NEQ
	case token.NEQ:
		return token.EQL
	}
	return token.ILLEGAL
}

// spdyNorm normalises a branch condition with the polarity of the edge taken
// into "subject op other", where the subject is the operand accepted by isSubj
// (conversions peeled). Negations are folded into the polarity.
func spdyNorm(cond ssa.Value, pol bool, isSubj func(ssa.Value) bool) (spdyCmp, bool) {
	for {
		u, ok := cond.(*ssa.UnOp)
		if !ok || u.Op != token.NOT {
			break
		}
		cond, pol = u.X, !pol
	}
	b, ok := cond.(*ssa.BinOp)
	if !ok {
		return spdyCmp{}, false
	}
	switch b.Op {
	case token.LSS, token.LEQ, token.GTR, token.GEQ, token.EQL, token.NEQ:
	default:
		return spdyCmp{}, false
	}
	var out spdyCmp
	switch {
	case isSubj(core.StripConv(b.X)):
		out = spdyCmp{core.StripConv(b.X), b.Op, b.Y}
	case isSubj(core.StripConv(b.Y)):
		out = spdyCmp{core.StripConv(b.Y), spdySwapOp(b.Op), b.X}
	default:
		return spdyCmp{}, false
	}
	if !pol {
		out.Op = spdyNegOp(out.Op)
	}
	return out, out.Op != token.ILLEGAL
}

// spdyBoolCond peels negations of a boolean branch condition: returns the
// underlying value and the truth value it has on the edge.
func spdyBoolCond(cond ssa.Value, pol bool) (ssa.Value, bool) {
	for {
		u, ok := cond.(*ssa.UnOp)
		if !ok || u.Op != token.NOT {
			return cond, pol
		}
		cond, pol = u.X, !pol
	}
}

// spdyFieldLoad: v is a load of (or a Field selection of) the given struct
// field; returns true also for nested paths (frame.CFHeader.length, h.length).
func spdyFieldLoad(v ssa.Value, field *types.Var) bool {
	if field == nil {
		return false
	}
	switch x := v.(type) {
	case *ssa.UnOp:
		if x.Op != token.MUL {
			return false
		}
		fa, ok := x.X.(*ssa.FieldAddr)
		return ok && core.FieldObj(fa.X, fa.Field) == field
	case *ssa.Field:
		return core.FieldObj(x.X, x.Field) == field
	}
	return false
}

// spdyFieldStore: in is a store to the given struct field.
func spdyFieldStore(in ssa.Instruction, field *types.Var) (*ssa.Store, bool) {
	st, ok := in.(*ssa.Store)
	if !ok || field == nil {
		return nil, false
	}
	fa, ok := st.Addr.(*ssa.FieldAddr)
	if !ok || core.FieldObj(fa.X, fa.Field) != field {
		return nil, false
	}
	return st, true
}

// spdyEdgeGuarded: every way of entering b establishes a condition that
// implies a guard accepted by match (see core.AllEdgesGuarded; conditions are
// looked through as described at spdyImplied: named booleans, assigned && / ||).
func spdyEdgeGuarded(b *ssa.BasicBlock, match func(g core.Guard) bool) bool {
	return core.AllEdgesGuarded(b, spdyLift(match))
}

// spdySuccessReturn: the error result (last result) of r is nil: the nil
// constant, or a value that a dominating branch has compared equal to nil.
func spdySuccessReturn(r *ssa.Return) bool {
	rv := core.RetVals(r)
	if len(rv) == 0 {
		return false
	}
	e := rv[len(rv)-1]
	if spdyIsNil(e) {
		return true
	}
	return spdyHasGuard(r.Block(), func(g core.Guard) bool {
		c, ok := spdyNorm(g.Cond, g.Pol, func(v ssa.Value) bool { return v == e })
		return ok && c.Op == token.EQL && spdyIsNil(c.Other)
	})
}

// spdyNonNilErr: v is an error value that cannot be nil (a freshly boxed
// concrete value: &Error{…}, StreamError{…}, ConnectionError(x), fmt.Errorf).
func spdyNonNilErr(v ssa.Value) bool {
	switch x := v.(type) {
	case *ssa.MakeInterface:
		return true
	case *ssa.Call:
		return core.CallIs(&x.Call, "fmt.Errorf", "errors.New")
	}
	return false
}

// spdyErrorReturn: r returns an error that cannot be nil.
func spdyErrorReturn(r *ssa.Return) bool {
	rv := core.RetVals(r)
	return len(rv) > 0 && spdyNonNilErr(rv[len(rv)-1])
}

// spdyInLoop: block b lies on a CFG cycle.
func spdyInLoop(b *ssa.BasicBlock) bool {
	seen := map[*ssa.BasicBlock]bool{}
	work := append([]*ssa.BasicBlock(nil), b.Succs...)
	for len(work) > 0 {
		x := work[len(work)-1]
		work = work[:len(work)-1]
		if x == b {
			return true
		}
		if seen[x] {
			continue
		}
		seen[x] = true
		work = append(work, x.Succs...)
	}
	return false
}

var spdySizes = types.SizesFor("gc", "amd64")

// spdyWireSize: size in bytes that encoding/binary transfers for the data
// argument of binary.Read (pointer to fixed-size value) / binary.Write (value).
func spdyWireSize(arg ssa.Value) (int64, bool) {
	v := arg
	if mi, ok := v.(*ssa.MakeInterface); ok {
		v = mi.X
	}
	t := v.Type()
	if p, ok := t.Underlying().(*types.Pointer); ok {
		t = p.Elem()
	}
	if b, ok := t.Underlying().(*types.Basic); ok && b.Info()&(types.IsInteger|types.IsUnsigned) != 0 && b.Kind() != types.Int && b.Kind() != types.Uint && b.Kind() != types.Uintptr {
		return spdySizes.Sizeof(t), true
	}
	return 0, false
}

// spdyReaches: instruction `to` can execute after `from` in fn.
func spdyReaches(fn *ssa.Function, from, to ssa.Instruction) bool {
	return core.ReachAvoiding(fn, from, nil, func(x ssa.Instruction) bool { return x == to }) != nil
}

// spdyOperandLoads walks the operand tree of a size expression (conversions,
// arithmetic, phis) and reports every load `*a` of a local allocation.
func spdyOperandLoads(v ssa.Value, f func(ld *ssa.UnOp, a *ssa.Alloc)) {
	seen := map[ssa.Value]bool{}
	var walk func(v ssa.Value)
	walk = func(v ssa.Value) {
		if v == nil || seen[v] {
			return
		}
		seen[v] = true
		switch x := v.(type) {
		case *ssa.UnOp:
			if x.Op == token.MUL {
				if a, ok := x.X.(*ssa.Alloc); ok {
					f(x, a)
				}
				return
			}
			walk(x.X)
		case *ssa.Convert:
			walk(x.X)
		case *ssa.ChangeType:
			walk(x.X)
		case *ssa.BinOp:
			walk(x.X)
			walk(x.Y)
		case *ssa.Phi:
			for _, e := range x.Edges {
				walk(e)
			}
		}
	}
	walk(v)
}

// Abstract states of a wire-decoded local integer.
const (
	spdyBounded   uint32 = 1 // zero value, constant, masked, or compared against an upper bound
	spdyUnbounded uint32 = 2 // freshly decoded from the wire
)

// spdyBoundStates runs the bound typestate of local `a` over fn and returns,
// for each load of a, the set of states the variable may be in. capMax is the
// largest constant accepted as a bound.
func spdyBoundStates(fn *ssa.Function, a *ssa.Alloc, capMax int64) map[*ssa.UnOp]uint32 {
	at := map[*ssa.UnOp]uint32{}
	isLoad := func(v ssa.Value) bool {
		u, ok := v.(*ssa.UnOp)
		return ok && u.Op == token.MUL && u.X == a
	}
	dependsOnA := func(v ssa.Value) bool {
		dep := false
		spdyOperandLoads(v, func(_ *ssa.UnOp, x *ssa.Alloc) {
			if x == a {
				dep = true
			}
		})
		return dep
	}
	boundedVal := func(v ssa.Value) bool {
		if k, ok := spdyConstInt(v); ok {
			return k >= 0 && k <= capMax
		}
		b, ok := core.StripConv(v).(*ssa.BinOp)
		if !ok {
			return false
		}
		switch b.Op {
		case token.AND:
			for _, o := range []ssa.Value{b.X, b.Y} {
				if k, ok := spdyConstInt(o); ok && k >= 0 && k <= capMax {
					return true
				}
			}
		case token.REM:
			if k, ok := spdyConstInt(b.Y); ok && k > 0 && k <= capMax {
				return true
			}
		case token.SHR:
			if k, ok := spdyConstInt(b.Y); ok && k >= 8 {
				return true
			}
		}
		return false
	}
	step := func(in ssa.Instruction, s uint32, report bool) uint32 {
		switch x := in.(type) {
		case *ssa.Alloc:
			if x == a {
				return spdyBounded
			}
		case *ssa.UnOp:
			if report && isLoad(x) {
				at[x] = s
			}
		case *ssa.Store:
			if x.Addr == a {
				if boundedVal(x.Val) {
					return spdyBounded
				}
				return spdyUnbounded
			}
		case ssa.CallInstruction:
			for _, arg := range x.Common().Args {
				if core.StripConv(arg) == ssa.Value(a) {
					return spdyUnbounded // the address is handed to a callee (binary.Read)
				}
			}
		}
		return s
	}
	// the branch condition (or what it implies: named booleans, `a || b` as a
	// value, the cases of a tagless switch) bounds the local from above
	bounds := func(g core.Guard) bool {
		c, ok := spdyNorm(g.Cond, g.Pol, isLoad)
		if !ok {
			return false
		}
		switch c.Op {
		case token.LSS, token.LEQ, token.EQL:
		default:
			return false
		}
		if k, ok := spdyConstInt(c.Other); ok {
			return k >= 0 && k <= capMax
		}
		return !dependsOnA(c.Other)
	}
	refine := func(cond ssa.Value, pol bool, s uint32) uint32 {
		if spdyImplied(spdyMkGuard(cond, pol), bounds, false) {
			return spdyBounded
		}
		return s
	}
	core.Typestate(fn, spdyBounded, step, refine)
	return at
}

// spdyWireAllocs returns the local variables of fn whose address is passed as
// the data argument of encoding/binary.Read.
func spdyWireAllocs(fn *ssa.Function) map[*ssa.Alloc]bool {
	out := map[*ssa.Alloc]bool{}
	for _, call := range core.Calls(fn, "encoding/binary.Read") {
		args := call.Common().Args
		if len(args) < 3 {
			continue
		}
		if a, ok := core.StripConv(args[2]).(*ssa.Alloc); ok {
			out[a] = true
		}
	}
	return out
}

// spdyLenArg: v is uint32(len(x)) / len(x) possibly converted; returns x.
func spdyLenArg(v ssa.Value) (ssa.Value, bool) {
	call, ok := core.StripConv(v).(*ssa.Call)
	if !ok {
		return nil, false
	}
	if b, ok := call.Call.Value.(*ssa.Builtin); ok && b.Name() == "len" && len(call.Call.Args) == 1 {
		return call.Call.Args[0], true
	}
	return nil, false
}

// spdyFindLen searches the operand tree (arithmetic, conversions, bit-or) of v
// for a len(x) call and returns x.
func spdyFindLen(v ssa.Value) (ssa.Value, bool) {
	var found ssa.Value
	seen := map[ssa.Value]bool{}
	var walk func(v ssa.Value)
	walk = func(v ssa.Value) {
		if v == nil || seen[v] || found != nil {
			return
		}
		seen[v] = true
		if x, ok := spdyLenArg(v); ok {
			found = x
			return
		}
		switch x := v.(type) {
		case *ssa.Convert:
			walk(x.X)
		case *ssa.ChangeType:
			walk(x.X)
		case *ssa.BinOp:
			walk(x.X)
			walk(x.Y)
		}
	}
	walk(v)
	return found, found != nil
}

// spdyConstVal returns the integer value of a declared constant.
func spdyConstVal(k *types.Const) (int64, bool) {
	if k == nil || k.Val().Kind() != constant.Int {
		return 0, false
	}
	return constant.Int64Val(k.Val())
}

// spdyUniq sorts and de-duplicates.
func spdyUniq(s []string) []string {
	sort.Strings(s)
	var out []string
	for i, x := range s {
		if i == 0 || x != s[i-1] {
			out = append(out, x)
		}
	}
	return out
}
