package rules

import (
	"fmt"
	"go/ast"
	"go/constant"
	"go/token"
	"go/types"
	"sort"
	"strings"

	"golang.org/x/tools/go/ssa"

	"verif/internal/core"
)

// C45 — TLS handshake messages round-trip and parse safely.
func init() {
	Register(&Rule{
		ID: "C45", Section: "5 C45",
		Technique: "table agreement (extension ids written by marshal vs. switch labels of unmarshal; message type byte vs. readHandshake's dispatch), length-prefix agreement on go/ssa (copied field vs. stored len(), header length vs. allocation), difference-bound lower bounds on len() from dominating comparisons for constant-index reads in unmarshal, window agreement of adjacent byte stores / byte joins of big-endian fields, interval (upper-bound) analysis of integers assembled from message bytes against the width of their type",
		Meta: core.Meta{
			Level:       "other",
			Explanation: "Decides: (a) for clientHelloMsg and serverHelloMsg every extension id that marshal writes is a case label of the extension switch of the same type's unmarshal (resolved through the constant objects / values); (b) the type byte each marshal stores at offset 0 is dispatched by Conn.readHandshake to the same message type; (c) in every marshal (12 handshake messages + sessionState) each variable-length receiver field copied into the output has a byte derived from len() of that same field stored into the output, and the three header length bytes are derived from the same value as the allocation size minus 4; (d) in every unmarshal each read data[k] / re-slice data[k:] / data[:k] with constant k on a byte slice is dominated by comparisons that bound len() of that slice (through re-slicing, phis and integer lower bounds) to at least k+1 resp. k; variable-bound slicings are proven when a dominating comparison bounds the length by the same expression, the others are only counted (note); (e) big-endian fields: in every marshal each stored byte of the form byte((q*m)>>s), s>0 (a non-lowest byte of a multi-byte field: header lengths, vector lengths, versions, suite ids, element lengths) is followed, at the next index of the same buffer value, by the next lower 8-bit window byte((q*m)>>(s-8)) of the same quantity q (scalings by shifts/constant factors normalised, so len>>7 / len<<1 is the 16-bit window pair of 2*len), and in every unmarshal each integer assembled by |/+ of shifted message bytes takes consecutive indices of one slice with shifts 8(n-1)…8,0 in index order.; (f) rule int-wrap: in every unmarshal each +, * and << whose operands are computed from message bytes and have known upper bounds (byte loads, shifts/ors/sums of them, constants, len() taken as < 2^31, narrowed by dominating comparisons), and each narrowing conversion of such a value, cannot leave the range of its type — a 32-bit length plus a header size that wraps around satisfies the very comparison with len() that (d) accepts as its bound. Not covered: value equality of marshal/unmarshal round trips beyond the extension-table clause, variable-index reads inside element loops (no general bounds prover: the compiler's own prover leaves 221 checks open in this file), integer truncation of over-long fields in length prefixes.",
			RuleText:    "obligations = each extension id written by a hello marshal; each marshal's type byte; each copied variable-length field of each marshal; each marshal's header length; each constant-index read or constant-bound re-slice in each unmarshal; each right-shifted byte store of each marshal; each byte join of each unmarshal; per unmarshal the arithmetic on wire integers (no wrap-around)",
		},
		Run: runC45,
		Mutants: []Mutant{
			{Name: "server-hello-alpn-id-typo", File: "bfe_tls/handshake_messages.go", Old: "		case extensionALPN:\n			d := data[:length]\n			if len(d) < 3 {", New: "		case extensionALPN + 1:\n			d := data[:length]\n			if len(d) < 3 {", Expect: "ext-table|serverHelloMsg:extensionALPN"},
			{Name: "wrong-type-byte", File: "bfe_tls/handshake_messages.go", Old: "	x[0] = typeClientKeyExchange\n", New: "	x[0] = typeServerKeyExchange\n", Expect: "msg-type|clientKeyExchangeMsg"},
			{Name: "session-id-length-of-other-field", File: "bfe_tls/handshake_messages.go", Old: "	x[38] = uint8(len(m.sessionId))\n	copy(x[39:39+len(m.sessionId)], m.sessionId)\n	y := x[39+len(m.sessionId):]", New: "	x[38] = uint8(len(m.random))\n	copy(x[39:39+len(m.sessionId)], m.sessionId)\n	y := x[39+len(m.sessionId):]", Expect: "len-prefix|clientHelloMsg.marshal:sessionId"},
			{Name: "ticket-length-dropped", File: "bfe_tls/handshake_messages.go", Old: "	x[8] = uint8(ticketLen >> 8)\n	x[9] = uint8(ticketLen)\n", New: "	x[8] = 0\n	x[9] = 0\n", Expect: "len-prefix|newSessionTicketMsg.marshal:ticket"},
			{Name: "header-length-off", File: "bfe_tls/handshake_messages.go", Old: "	length := len(m.ciphertext)\n	x := make([]byte, length+4)\n	x[0] = typeClientKeyExchange\n	x[1] = uint8(length >> 16)", New: "	length := len(m.ciphertext)\n	x := make([]byte, length+4)\n	x[0] = typeClientKeyExchange\n	x[1] = uint8(len(m.raw) >> 16)", Expect: "hdr-length|clientKeyExchangeMsg.marshal"},
			{Name: "client-hello-min-length-weakened", File: "bfe_tls/handshake_messages.go", Old: "func (m *clientHelloMsg) unmarshal(data []byte) bool {\n	if len(data) < 42 {", New: "func (m *clientHelloMsg) unmarshal(data []byte) bool {\n	if len(data) < 38 {", Expect: "index-bound|clientHelloMsg.unmarshal"},
			{Name: "extension-header-check-dropped", File: "bfe_tls/handshake_messages.go", Old: "		extension := uint16(data[0])<<8 | uint16(data[1])\n		length := int(data[2])<<8 | int(data[3])\n		data = data[4:]\n		if len(data) < length {\n			return false\n		}\n\n		m.extensionIds", New: "		extension := uint16(data[0])<<8 | uint16(data[1])\n		length := int(data[2])<<8 | int(data[3])\n		data = data[4:]\n\n		m.extensionIds", Expect: "index-bound|clientHelloMsg.unmarshal"},
			{Name: "cert-status-check-moved-after-use", File: "bfe_tls/handshake_messages.go", Old: "		if len(data) < 8 {\n			return false\n		}\n		respLen := uint32(data[5])<<16 | uint32(data[6])<<8 | uint32(data[7])\n", New: "		respLen := uint32(data[5])<<16 | uint32(data[6])<<8 | uint32(data[7])\n		if len(data) < 8 {\n			return false\n		}\n", Expect: "index-bound|certificateStatusMsg.unmarshal"},
			{Name: "session-state-guard-off-by-one", File: "bfe_tls/ticket.go", Old: "		if len(data) < 4 {\n			return false\n		}\n		certLen := int(data[0])<<24", New: "		if len(data) < 3 {\n			return false\n		}\n		certLen := int(data[0])<<24", Expect: "index-bound|sessionState.unmarshal"},
			{Name: "ticket-length-high-byte-wrong-window", File: "bfe_tls/handshake_messages.go", Old: "	x[8] = uint8(ticketLen >> 8)\n", New: "	x[8] = uint8(ticketLen >> 16)\n", Expect: "byte-window|newSessionTicketMsg.marshal"},
			{Name: "certificate-octets-middle-byte-repeated", File: "bfe_tls/handshake_messages.go", Old: "	x[5] = uint8(certificateOctets >> 8)\n", New: "	x[5] = uint8(certificateOctets >> 16)\n", Expect: "byte-window|certificateMsg.marshal"},
			{Name: "ticket-length-read-with-short-shift", File: "bfe_tls/handshake_messages.go", Old: "	ticketLen := int(data[8])<<8 + int(data[9])\n", New: "	ticketLen := int(data[8])<<7 + int(data[9])\n", Expect: "byte-join|newSessionTicketMsg.unmarshal"},
			{Name: "ca-list-length-bytes-swapped", File: "bfe_tls/handshake_messages.go", Old: "	casLength := uint16(data[0])<<8 | uint16(data[1])\n", New: "	casLength := uint16(data[1])<<8 | uint16(data[0])\n", Expect: "byte-join|certificateRequestMsg.unmarshal"},
			{Name: "cert-length-32bit-sum-wraps", File: "bfe_tls/handshake_messages.go", Old: "		certLen := uint32(d[0])<<16 | uint32(d[1])<<8 | uint32(d[2])\n		if uint32(len(d)) < 3+certLen {", New: "		certLen := uint32(d[0])<<24 | uint32(d[1])<<16 | uint32(d[2])<<8\n		if uint32(len(d)) < 3+certLen {", Expect: "int-wrap|certificateMsg.unmarshal"},
			{Name: "session-state-cert-length-uint32-sum", File: "bfe_tls/ticket.go", Old: "		certLen := int(data[0])<<24 | int(data[1])<<16 | int(data[2])<<8 | int(data[3])\n		data = data[4:]\n		if certLen < 0 {\n			return false\n		}\n		if len(data) < certLen {\n			return false\n		}\n		s.certificates[i] = data[:certLen]\n		data = data[certLen:]\n", New: "		certLen := uint32(data[0])<<24 | uint32(data[1])<<16 | uint32(data[2])<<8 | uint32(data[3])\n		if uint32(len(data)) < 4+certLen {\n			return false\n		}\n		s.certificates[i] = data[4 : 4+certLen]\n		data = data[4+certLen:]\n", Expect: "int-wrap|sessionState.unmarshal"},
			{Name: "ticket-length-in-byte-arithmetic", File: "bfe_tls/handshake_messages.go", Old: "	ticketLen := int(data[8])<<8 + int(data[9])\n", New: "	ticketLen := int(data[8]<<8 + data[9])\n", Expect: "int-wrap|newSessionTicketMsg.unmarshal"},
			{Name: "silent-status-length-sum-hoisted", Silent: true, File: "bfe_tls/handshake_messages.go", Old: "		if uint32(len(data)) != 4+4+respLen {\n", New: "		total := respLen + 8\n		if uint32(len(data)) != total {\n"},
			{Name: "silent-suite-vector-length-precomputed", Silent: true, File: "bfe_tls/handshake_messages.go", Old: "	y[0] = uint8(len(m.cipherSuites) >> 7)\n	y[1] = uint8(len(m.cipherSuites) << 1)\n", New: "	suiteBytes := 2 * len(m.cipherSuites)\n	y[0] = uint8(suiteBytes >> 8)\n	y[1] = uint8(suiteBytes)\n"},
			{Name: "silent-ca-list-loop-extracted", Silent: true, File: "bfe_tls/handshake_messages.go", Old: "\tm.certificateAuthorities = nil\n\tfor len(cas) > 0 {\n\t\tif len(cas) < 2 {\n\t\t\treturn false\n\t\t}\n\t\tcaLen := uint16(cas[0])<<8 | uint16(cas[1])\n\t\tcas = cas[2:]\n\n\t\tif len(cas) < int(caLen) {\n\t\t\treturn false\n\t\t}\n\n\t\tm.certificateAuthorities = append(m.certificateAuthorities, cas[:caLen])\n\t\tcas = cas[caLen:]\n\t}\n\n\treturn len(data) <= 0", New: "\tvar casOk bool\n\tm.certificateAuthorities, casOk = splitCertificateAuthorities(cas)\n\tif !casOk {\n\t\treturn false\n\t}\n\n\treturn len(data) <= 0\n}\n\n// splitCertificateAuthorities splits a list of 16-bit length prefixed\n// distinguished names. It returns the names collected so far together with\n// false if the list is truncated.\nfunc splitCertificateAuthorities(cas []byte) ([][]byte, bool) {\n\tvar names [][]byte\n\tfor len(cas) > 0 {\n\t\tif len(cas) < 2 {\n\t\t\treturn names, false\n\t\t}\n\t\tcaLen := uint16(cas[0])<<8 | uint16(cas[1])\n\t\tcas = cas[2:]\n\n\t\tif len(cas) < int(caLen) {\n\t\t\treturn names, false\n\t\t}\n\n\t\tnames = append(names, cas[:caLen])\n\t\tcas = cas[caLen:]\n\t}\n\n\treturn names, true"},
			{Name: "silent-guard-rewritten", Silent: true, File: "bfe_tls/handshake_messages.go", Old: "func (m *clientKeyExchangeMsg) unmarshal(data []byte) bool {\n	m.raw = data\n	if len(data) < 4 {\n		return false\n	}", New: "func (m *clientKeyExchangeMsg) unmarshal(data []byte) bool {\n	m.raw = data\n	if n := len(data); !(n >= 4) {\n		return false\n	}"},
		},
	})
}

var c45Messages = []string{"clientHelloMsg", "serverHelloMsg", "certificateMsg", "serverKeyExchangeMsg", "certificateStatusMsg", "serverHelloDoneMsg", "clientKeyExchangeMsg", "finishedMsg", "nextProtoMsg", "certificateRequestMsg", "certificateVerifyMsg", "newSessionTicketMsg"}

func runC45(c *core.Ctx) {
	if c.P.Pkg(tlsPkg) == nil {
		c.Missing(tlsPkg)
		return
	}
	proven, windows, arith := 0, 0, 0
	c45ExtTable(c)
	c45TypeByte(c)
	for _, m := range append(append([]string{}, c45Messages...), "sessionState") {
		if fn := tlsFunc(c, m+".marshal"); fn != nil {
			c45LenPrefix(c, m, fn)
			windows += c45Windows(c, m+".marshal", fn)
			if m != "sessionState" {
				c45Header(c, m, fn)
			}
		}
		if fn := tlsFunc(c, m+".unmarshal"); fn != nil {
			proven += c45Bounds(c, m, fn)
			arith += c45NoWrap(c, m, fn)
			c45Joins(c, m+".unmarshal", fn)
			// private helpers of the parser (a block of unmarshal extracted into
			// an unexported function that only unmarshal calls) parse message
			// bytes as well: the same three rules apply to each byte-slice
			// parameter of each helper. Helpers are numbered in region order
			// (their names are free to change).
			hn := 0
			for _, h := range c.P.Region(fn) {
				if h == fn || h.Parent() != nil || h.Blocks == nil {
					continue
				}
				hn++
				hkey := fmt.Sprintf("%s.unmarshal:helper#%d", m, hn)
				c.Analysed(core.FuncKey(h))
				for _, p := range h.Params {
					if c45IsByteSlice(p.Type()) {
						proven += c45BoundsOn(c, m, hkey, h, p)
					}
				}
				arith += c45NoWrap(c, hkey, h)
				c45Joins(c, hkey, h)
			}
		}
	}
	c.Min("len-prefix", 15)
	c.Min("hdr-length", 11)
	c.Min("index-bound", 11)
	c.Min("byte-window", 40)
	c.Min("byte-join", 25)
	c.Min("int-wrap", 8)
	c.Check("int-wrap", "examined-total", token.NoPos, arith >= 40, fmt.Sprintf("only %d arithmetic operations on wire integers were examined over all unmarshal functions: the rule no longer sees the parsers' length arithmetic", arith))
	c.Note("big-endian fields: %d high-byte stores checked against their successor byte in marshal functions", windows)
	c.Check("index-bound", "proven-sites-total", token.NoPos, proven >= 120, fmt.Sprintf("only %d reads / re-slices were proven over all unmarshal functions; at least 120 were on the reference tree: the rule no longer sees the parsers' accesses", proven))
}

// (a) extension ids: marshal ⊆ unmarshal's switch.
func c45ExtTable(c *core.Ctx) {
	pk := c.P.Pkg(tlsPkg)
	anchor := c.P.Obj(tlsPkg, "extensionServerName")
	if anchor == nil {
		c.Missing(tlsPkg + ".extensionServerName")
		return
	}
	group := map[types.Object]bool{}
	for _, f := range pk.Syntax {
		for _, d := range f.Decls {
			gd, ok := d.(*ast.GenDecl)
			if !ok || gd.Tok != token.CONST {
				continue
			}
			has := false
			var objs []types.Object
			for _, s := range gd.Specs {
				for _, n := range s.(*ast.ValueSpec).Names {
					o := pk.TypesInfo.Defs[n]
					objs = append(objs, o)
					if o == anchor {
						has = true
					}
				}
			}
			if has {
				for _, o := range objs {
					group[o] = true
				}
			}
		}
	}
	for _, m := range []string{"clientHelloMsg", "serverHelloMsg"} {
		md, _ := c.P.FuncDecl(tlsPkg, m+".marshal")
		ud, _ := c.P.FuncDecl(tlsPkg, m+".unmarshal")
		if md == nil || ud == nil || md.Body == nil || ud.Body == nil {
			c.Missing(tlsPkg + "." + m + ".marshal/unmarshal")
			continue
		}
		written := map[string]constant.Value{}
		ast.Inspect(md.Body, func(n ast.Node) bool {
			if id, ok := n.(*ast.Ident); ok {
				if o := pk.TypesInfo.Uses[id]; o != nil && group[o] {
					written[o.Name()] = o.(*types.Const).Val()
				}
			}
			return true
		})
		// the switch of unmarshal that has an extension constant among its labels
		labels := map[string]bool{}
		found := false
		ast.Inspect(ud.Body, func(n ast.Node) bool {
			sw, ok := n.(*ast.SwitchStmt)
			if !ok || sw.Tag == nil {
				return true
			}
			vals := map[string]bool{}
			isExt := false
			for _, cl := range sw.Body.List {
				for _, e := range cl.(*ast.CaseClause).List {
					if tv, ok := pk.TypesInfo.Types[e]; ok && tv.Value != nil {
						vals[tv.Value.ExactString()] = true
					}
					ast.Inspect(e, func(x ast.Node) bool {
						if id, ok := x.(*ast.Ident); ok && group[pk.TypesInfo.Uses[id]] {
							isExt = true
						}
						return true
					})
				}
			}
			if isExt {
				found = true
				for k := range vals {
					labels[k] = true
				}
			}
			return true
		})
		if !found {
			c.Check("ext-table", m+":switch", ud.Pos(), false, m+".unmarshal has no switch over extension ids")
			continue
		}
		var names []string
		for n := range written {
			names = append(names, n)
		}
		sort.Strings(names)
		for _, n := range names {
			c.Check("ext-table", m+":"+n, md.Pos(), labels[written[n].ExactString()],
				fmt.Sprintf("%s.marshal writes extension %s (%s) but the extension switch of %s.unmarshal has no case for that value: the field carried by the extension does not survive a marshal/unmarshal round trip", m, n, written[n].ExactString(), m))
		}
	}
	c.Min("ext-table", 12)
}

// (b) type byte vs. readHandshake dispatch.
func c45TypeByte(c *core.Ctx) {
	rh := tlsFunc(c, "Conn.readHandshake")
	if rh == nil {
		return
	}
	// value -> message type allocated under data[0] == value
	dispatch := map[int64]string{}
	for _, in := range tlsInstrs(rh) {
		al, ok := in.(*ssa.Alloc)
		if !ok || !al.Heap {
			continue
		}
		pt, ok := al.Type().(*types.Pointer)
		if !ok {
			continue
		}
		nt, ok := pt.Elem().(*types.Named)
		if !ok || !strings.HasSuffix(nt.Obj().Name(), "Msg") {
			continue
		}
		for _, f := range tlsFactsAt(al.Block()) {
			x, y, op, isRel := tlsRel(f)
			if !isRel || op != token.EQL {
				continue
			}
			for _, pr := range [][2]ssa.Value{{x, y}, {y, x}} {
				if k, isK := tlsConstInt(pr[1]); isK {
					if _, isElem := tlsElemOf(pr[0]); isElem {
						dispatch[k] = nt.Obj().Name()
					}
				}
			}
		}
	}
	for _, m := range c45Messages {
		fn := c.P.Func(tlsPkg, m+".marshal")
		if fn == nil {
			continue
		}
		var vals []int64
		for _, in := range tlsInstrs(fn) {
			st, ok := in.(*ssa.Store)
			if !ok {
				continue
			}
			ia, ok := st.Addr.(*ssa.IndexAddr)
			if !ok {
				continue
			}
			if i, isK := tlsConstInt(ia.Index); !isK || i != 0 {
				continue
			}
			if !c45IsBufferStart(ia.X, 0) {
				continue
			}
			if v, isK := tlsConstInt(st.Val); isK {
				vals = append(vals, v)
			}
		}
		ok := len(vals) > 0
		got := ""
		for _, v := range vals {
			if dispatch[v] != m {
				ok = false
				got = fmt.Sprintf("%d -> %q", v, dispatch[v])
			}
		}
		c.Check("msg-type", m, fn.Pos(), ok, m+".marshal's type byte is not dispatched to "+m+" by Conn.readHandshake ("+got+"): the message would be parsed as another type")
	}
	c.Min("msg-type", 12)
}

// c45IsBufferStart: v is a freshly allocated output buffer at offset 0
// (make / new array, re-sliced only as x[:] or x[0:], possibly through a phi).
func c45IsBufferStart(v ssa.Value, depth int) bool {
	if depth > 6 {
		return false
	}
	switch x := v.(type) {
	case *ssa.MakeSlice:
		return true
	case *ssa.Alloc:
		return x.Heap
	case *ssa.Slice:
		if x.Low != nil {
			if k, ok := tlsConstInt(x.Low); !ok || k != 0 {
				return false
			}
		}
		return c45IsBufferStart(x.X, depth+1)
	case *ssa.Phi:
		any := false
		for _, e := range x.Edges {
			if tlsIsNil(e) {
				continue
			}
			if !c45IsBufferStart(e, depth+1) {
				return false
			}
			any = true
		}
		return any
	}
	return false
}

// c45FieldPath names a value rooted at the receiver: "sessionId",
// "certificates[]" (an element), "" when it is not such a value.
func c45FieldPath(v ssa.Value, recv ssa.Value) string {
	v = core.StripConv(v)
	if s, ok := v.(*ssa.Slice); ok {
		// v[0:l] of a field or element
		return c45FieldPath(s.X, recv)
	}
	if l, isElem := tlsElemOf(v); isElem {
		if p := c45FieldPath(l, recv); p != "" {
			return p + "[]"
		}
		return ""
	}
	if f, base := tlsFieldOf(v); f != nil && base == recv {
		return f.Name()
	}
	return ""
}

// c45SoleLen: v encodes len(<value of path>) and nothing else variable:
// conversions, shifts/masks/multiplications by constants and +/- constants
// are peeled; through phis every non-constant leaf must be such a value.
// (The message's total length also mentions every field's len(); it is not
// a prefix of this field.)
func c45SoleLen(v ssa.Value, path string, recv ssa.Value, seen map[ssa.Value]bool, depth int) bool {
	if v == nil || depth > 12 {
		return false
	}
	switch x := v.(type) {
	case *ssa.Call:
		if core.CalleeKey(&x.Call) == "builtin:len" && len(x.Call.Args) == 1 {
			return c45FieldPath(x.Call.Args[0], recv) == path
		}
		return false
	case *ssa.Convert:
		return c45SoleLen(x.X, path, recv, seen, depth+1)
	case *ssa.ChangeType:
		return c45SoleLen(x.X, path, recv, seen, depth+1)
	case *ssa.BinOp:
		switch x.Op {
		case token.SHR, token.SHL, token.AND, token.ADD, token.SUB, token.MUL:
		default:
			return false
		}
		if _, isK := tlsConstInt(x.Y); isK {
			return c45SoleLen(x.X, path, recv, seen, depth+1)
		}
		if _, isK := tlsConstInt(x.X); isK && x.Op != token.SUB && x.Op != token.SHR && x.Op != token.SHL {
			return c45SoleLen(x.Y, path, recv, seen, depth+1)
		}
		return false
	case *ssa.Phi:
		if seen[x] {
			return true
		}
		seen[x] = true
		any := false
		for _, e := range x.Edges {
			if _, isK := tlsConstInt(e); isK {
				continue
			}
			if !c45SoleLen(e, path, recv, seen, depth+1) {
				return false
			}
			any = true
		}
		return any
	}
	return false
}

// (c) every copied variable-length field has its length written.
func c45LenPrefix(c *core.Ctx, m string, fn *ssa.Function) {
	if len(fn.Params) == 0 {
		return
	}
	recv := ssa.Value(fn.Params[0])
	done := map[string]bool{}
	for _, in := range tlsInstrs(fn) {
		cp, ok := in.(*ssa.Call)
		if !ok || core.CalleeKey(&cp.Call) != "builtin:copy" || len(cp.Call.Args) != 2 {
			continue
		}
		path := c45FieldPath(cp.Call.Args[1], recv)
		if path == "" || done[path] {
			continue
		}
		// fixed-width destination (e.g. the 32-byte random): no prefix on the wire
		if d, ok := core.StripConv(cp.Call.Args[0]).(*ssa.Slice); ok && d.Low != nil && d.High != nil {
			_, k1 := tlsConstInt(d.Low)
			_, k2 := tlsConstInt(d.High)
			if k1 && k2 {
				continue
			}
		}
		done[path] = true
		written := false
		// preferred form: the byte right before the copy's destination, on the
		// same buffer value, encodes len(path) (low byte of the prefix)
		adjacent := false
		if d, ok := core.StripConv(cp.Call.Args[0]).(*ssa.Slice); ok && d.Low != nil {
			if lo, isK := tlsConstInt(d.Low); isK && lo >= 1 {
				for _, x := range tlsInstrs(fn) {
					st, ok := x.(*ssa.Store)
					if !ok {
						continue
					}
					ia, ok := st.Addr.(*ssa.IndexAddr)
					if !ok || ia.X != d.X {
						continue
					}
					if idx, isK := tlsConstInt(ia.Index); isK && idx == lo-1 {
						// a direct store exists at that position: it decides
						adjacent = true
						if c45SoleLen(st.Val, path, recv, map[ssa.Value]bool{}, 0) {
							written = true
						}
					}
				}
			}
		}
		for _, x := range tlsInstrs(fn) {
			if adjacent {
				break
			}
			st, ok := x.(*ssa.Store)
			if !ok {
				continue
			}
			ia, ok := st.Addr.(*ssa.IndexAddr)
			if !ok {
				continue
			}
			if bt, ok := st.Val.Type().Underlying().(*types.Basic); !ok || bt.Kind() != types.Uint8 {
				continue
			}
			_ = ia
			if c45SoleLen(st.Val, path, recv, map[ssa.Value]bool{}, 0) {
				written = true
				break
			}
		}
		c.Check("len-prefix", m+".marshal:"+path, cp.Pos(), written,
			m+".marshal copies the variable-length field "+path+" into the message but the byte preceding it (or, for cursor-style writers, any output byte) does not encode len("+path+") alone: the length prefix on the wire does not describe the bytes that follow")
	}
}

// header: x[1..3] encode the allocation size minus 4.
func c45Header(c *core.Ctx, m string, fn *ssa.Function) {
	// allocation sizes: MakeSlice(4+L) or a constant-size array
	var allocs []ssa.Value
	for _, in := range tlsInstrs(fn) {
		switch x := in.(type) {
		case *ssa.MakeSlice:
			allocs = append(allocs, x)
		case *ssa.Alloc:
			if pt, ok := x.Type().(*types.Pointer); ok {
				if at, ok := pt.Elem().Underlying().(*types.Array); ok {
					if bt, ok := at.Elem().Underlying().(*types.Basic); ok && bt.Kind() == types.Uint8 && x.Heap {
						allocs = append(allocs, x)
					}
				}
			}
		}
	}
	if len(allocs) == 0 {
		c.Check("hdr-length", m+".marshal", fn.Pos(), false, m+".marshal allocates no output buffer that the rule can follow")
		return
	}
	okAll, why := true, ""
	for _, a := range allocs {
		ms, isMake := a.(*ssa.MakeSlice)
		if !isMake {
			continue // constant-size literal (serverHelloDone, non-OCSP status): header bytes are literals
		}
		tL, kL := c45Terms(ms.Len)
		sort.Strings(tL)
		shifts := map[int64]bool{}
		for _, in := range tlsInstrs(fn) {
			st, ok := in.(*ssa.Store)
			if !ok {
				continue
			}
			ia, ok := st.Addr.(*ssa.IndexAddr)
			if !ok || !c45SameBuffer(ia.X, ms) {
				continue
			}
			idx, isK := tlsConstInt(ia.Index)
			if !isK || idx < 1 || idx > 3 {
				continue
			}
			v := core.StripConv(st.Val)
			var sh int64
			if b, ok := v.(*ssa.BinOp); ok && b.Op == token.SHR {
				sh, _ = tlsConstInt(b.Y)
				v = b.X
			}
			tv, kv := c45Terms(v)
			sort.Strings(tv)
			if strings.Join(tv, "+") != strings.Join(tL, "+") || kv+4 != kL {
				okAll, why = false, fmt.Sprintf("header byte %d encodes %s, but the buffer is allocated with %s bytes (expected header value = allocation - 4)", idx, core.Render(v), core.Render(ms.Len))
			}
			if sh != (3-idx)*8 {
				okAll, why = false, fmt.Sprintf("header byte %d uses shift %d", idx, sh)
			}
			shifts[idx] = true
		}
		// the low byte must be written; absent high bytes stay zero (messages shorter than 256 bytes)
		if !shifts[3] {
			okAll, why = false, "the low header length byte x[3] is not stored"
		}
	}
	c.Check("hdr-length", m+".marshal", fn.Pos(), okAll, m+".marshal: "+why)
}

// c45Terms splits an integer expression into non-constant terms and a constant.
func c45Terms(v ssa.Value) ([]string, int64) {
	if k, ok := tlsConstInt(v); ok {
		return nil, k
	}
	if b, ok := v.(*ssa.BinOp); ok && b.Op == token.ADD {
		t1, k1 := c45Terms(b.X)
		t2, k2 := c45Terms(b.Y)
		return append(t1, t2...), k1 + k2
	}
	return []string{core.Render(v)}, 0
}

func c45SameBuffer(v ssa.Value, buf ssa.Value) bool {
	for i := 0; i < 6; i++ {
		if v == buf {
			return true
		}
		switch x := v.(type) {
		case *ssa.Phi:
			for _, e := range x.Edges {
				if e == buf {
					return true
				}
			}
			return false
		case *ssa.Slice:
			// only x[:] / x[0:] keep the offsets
			if x.Low != nil {
				if k, ok := tlsConstInt(x.Low); !ok || k != 0 {
					return false
				}
			}
			v = x.X
		default:
			return false
		}
	}
	return false
}

// ---- (d) bounds ----------------------------------------------------------

type c45Prover struct {
	facts map[*ssa.BasicBlock][]tlsFact
}

func (p *c45Prover) factsAt(b *ssa.BasicBlock) []tlsFact {
	if f, ok := p.facts[b]; ok {
		return f
	}
	f := tlsFactsAt(b)
	p.facts[b] = f
	return f
}

func c45IsLenOf(v ssa.Value, x ssa.Value) bool {
	call, ok := v.(*ssa.Call)
	return ok && core.CalleeKey(&call.Call) == "builtin:len" && len(call.Call.Args) == 1 && call.Call.Args[0] == x
}

// lb: a lower bound of integer value v that holds at block b.
func (p *c45Prover) lb(v ssa.Value, b *ssa.BasicBlock, depth int, seen map[ssa.Value]bool) (int64, bool) {
	if depth > 10 || v == nil {
		return 0, false
	}
	if k, ok := tlsConstInt(v); ok {
		return k, true
	}
	best, have := int64(0), false
	take := func(n int64) {
		if !have || n > best {
			best, have = n, true
		}
	}
	unsigned := func(t types.Type) bool {
		bt, ok := t.Underlying().(*types.Basic)
		return ok && bt.Info()&types.IsUnsigned != 0
	}
	if unsigned(v.Type()) {
		take(0)
	}
	switch x := v.(type) {
	case *ssa.Convert:
		if n, ok := p.lb(x.X, b, depth+1, seen); ok && n >= 0 {
			take(n)
		} else if unsigned(x.X.Type()) {
			take(0)
		}
	case *ssa.ChangeType:
		if n, ok := p.lb(x.X, b, depth+1, seen); ok {
			take(n)
		}
	case *ssa.BinOp:
		a, okA := p.lb(x.X, b, depth+1, seen)
		c2, okB := p.lb(x.Y, b, depth+1, seen)
		switch x.Op {
		case token.ADD:
			if okA && okB && a >= 0 && c2 >= 0 {
				take(a + c2)
			}
		case token.SUB:
			if k, isK := tlsConstInt(x.Y); isK && okA && !unsigned(v.Type()) {
				take(a - k)
			}
		case token.OR, token.SHL, token.MUL, token.AND, token.QUO, token.REM, token.SHR:
			if okA && okB && a >= 0 && c2 >= 0 && !unsigned(v.Type()) {
				take(0)
			}
		}
	case *ssa.Call:
		if core.CalleeKey(&x.Call) == "builtin:len" && len(x.Call.Args) == 1 {
			take(p.lenLB(x.Call.Args[0], b, depth+1, seen))
		}
	case *ssa.Phi:
		if !seen[x] {
			seen[x] = true
			min, all := int64(0), true
			for i, e := range x.Edges {
				n, ok := p.lb(e, b, depth+1, seen)
				if !ok {
					all = false
					break
				}
				if i == 0 || n < min {
					min = n
				}
			}
			delete(seen, x)
			if all && len(x.Edges) > 0 {
				take(min)
			}
		}
	case *ssa.UnOp:
		if x.Op == token.MUL { // load of a byte etc.
			if unsigned(v.Type()) {
				take(0)
			}
		}
	}
	// facts about v itself
	for _, f := range p.factsAt(b) {
		x, y, op, ok := tlsRel(f)
		if !ok {
			continue
		}
		other := y
		if y == v {
			other, op = x, tlsFlip(op)
		} else if x != v {
			continue
		}
		if other == v {
			continue
		}
		n, okN := p.lb(other, b, depth+2, seen)
		if !okN {
			continue
		}
		switch op {
		case token.GEQ, token.EQL:
			take(n)
		case token.GTR:
			take(n + 1)
		case token.NEQ:
			if k, isK := tlsConstInt(other); isK && k == 0 && have && best == 0 {
				take(1)
			}
		}
	}
	return best, have
}

// lenLB: a lower bound of len(x) that holds at block b (always >= 0).
func (p *c45Prover) lenLB(x ssa.Value, b *ssa.BasicBlock, depth int, seen map[ssa.Value]bool) int64 {
	best := int64(0)
	if depth > 10 {
		return 0
	}
	// comparisons on len(x)
	for _, f := range p.factsAt(b) {
		l, r, op, ok := tlsRel(f)
		if !ok {
			continue
		}
		other := r
		lenSide := core.StripConv(l)
		if c45IsLenOf(core.StripConv(r), x) {
			other, op, lenSide = l, tlsFlip(op), core.StripConv(r)
		} else if !c45IsLenOf(lenSide, x) {
			continue
		}
		n, okN := p.lb(other, b, depth+1, seen)
		if !okN {
			continue
		}
		switch op {
		case token.GEQ, token.EQL:
			if n > best {
				best = n
			}
		case token.GTR:
			if n+1 > best {
				best = n + 1
			}
		case token.NEQ:
			if k, isK := tlsConstInt(other); isK && k == 0 && best < 1 {
				best = 1
			}
		}
	}
	// structure
	switch s := x.(type) {
	case *ssa.Slice:
		if _, isPtr := s.X.Type().Underlying().(*types.Pointer); isPtr {
			break
		}
		lo := int64(0)
		loK := true
		if s.Low != nil {
			lo, loK = tlsConstInt(s.Low)
		}
		if s.High == nil {
			if loK {
				if n := p.lenLB(s.X, b, depth+1, seen) - lo; n > best {
					best = n
				}
			}
		} else if loK {
			if h, ok := p.lb(s.High, b, depth+1, seen); ok && h-lo > best {
				best = h - lo
			}
		}
	case *ssa.Phi:
		if !seen[s] {
			seen[s] = true
			min := int64(-1)
			for _, e := range s.Edges {
				n := p.lenLB(e, b, depth+1, seen)
				if min < 0 || n < min {
					min = n
				}
			}
			delete(seen, s)
			if min > best {
				best = min
			}
		}
	case *ssa.MakeSlice:
		if n, ok := p.lb(s.Len, b, depth+1, seen); ok && n > best {
			best = n
		}
	}
	return best
}

// symbolic: len(x) >= h established by a dominating comparison on the very
// same expression (possibly len(x) != h+k / == forms are not used).
func (p *c45Prover) lenGESym(x ssa.Value, h ssa.Value, b *ssa.BasicBlock) bool {
	h = core.StripConv(h)
	want := core.Render(h)
	for _, f := range p.factsAt(b) {
		l, r, op, ok := tlsRel(f)
		if !ok {
			continue
		}
		other := r
		if c45IsLenOf(core.StripConv(r), x) {
			other, op = l, tlsFlip(op)
		} else if !c45IsLenOf(core.StripConv(l), x) {
			continue
		}
		other = core.StripConv(other)
		if (op == token.GEQ || op == token.GTR || op == token.EQL) && (other == h || core.Render(other) == want) {
			return true
		}
	}
	return false
}

func c45IsByteSlice(t types.Type) bool {
	s, ok := t.Underlying().(*types.Slice)
	if !ok {
		return false
	}
	bt, ok := s.Elem().Underlying().(*types.Basic)
	return ok && bt.Kind() == types.Uint8
}

// c45FromInput: the slice derives from the function's input parameter
// (through re-slicing and phis), not from a fresh allocation.
func c45FromInput(v ssa.Value, data *ssa.Parameter, seen map[ssa.Value]bool) bool {
	if seen[v] {
		return false
	}
	seen[v] = true
	switch x := v.(type) {
	case *ssa.Parameter:
		return x == data
	case *ssa.Slice:
		return c45FromInput(x.X, data, seen)
	case *ssa.Phi:
		for _, e := range x.Edges {
			if c45FromInput(e, data, seen) {
				return true
			}
		}
	}
	return false
}

// c45Reviewed: element loops whose reads are safe by arithmetic the rule
// cannot follow (one entry per function and filled field, with the reason).
var c45Reviewed = map[string]string{
	"clientHelloMsg.unmarshal/supportedCurves":           "l even, length == l+2 and len(data) >= length are checked before the loop; numCurves = l/2 iterations consume exactly 2 bytes each of data[2:]",
	"clientHelloMsg.unmarshal/signatureAndHashes":        "length even and >= 2, l == length-2 and len(data) >= length are checked before the loop; n = l/2 iterations consume exactly 2 bytes each of data[2:]",
	"certificateMsg.unmarshal/certificates":              "second pass over data[7:]: the first pass walked the same bytes with explicit length checks and counted numCerts",
	"certificateRequestMsg.unmarshal/signatureAndHashes": "sigAndHashLen even and len(data) >= sigAndHashLen are checked before the loop; sigAndHashLen/2 iterations consume exactly 2 bytes each",
}

// c45ElementLoopField: the site reads a loop-carried slice (phi) in a loop
// that fills elements of a receiver field; returns that field's name.
func c45ElementLoopField(x ssa.Value, fn *ssa.Function) string {
	for i := 0; i < 4; i++ {
		if s, ok := x.(*ssa.Slice); ok {
			x = s.X
		}
	}
	phi, ok := x.(*ssa.Phi)
	if !ok || len(fn.Params) == 0 {
		return ""
	}
	head := phi.Block()
	recv := ssa.Value(fn.Params[0])
	name := ""
	for _, in := range tlsInstrs(fn) {
		st, ok := in.(*ssa.Store)
		if !ok || !head.Dominates(st.Block()) {
			continue
		}
		addr := st.Addr
		if fa, ok := addr.(*ssa.FieldAddr); ok {
			addr = fa.X
		}
		ia, ok := addr.(*ssa.IndexAddr)
		if !ok {
			continue
		}
		f, base := tlsFieldOf(ia.X)
		if f == nil || base != recv {
			continue
		}
		// the store must be inside the loop: the header is reachable again
		back := false
		for _, p := range head.Preds {
			if st.Block() == p || st.Block().Dominates(p) {
				back = true
			}
		}
		if back {
			name = f.Name()
		}
	}
	return name
}

func c45Bounds(c *core.Ctx, m string, fn *ssa.Function) int {
	if len(fn.Params) < 2 {
		return 0
	}
	return c45BoundsOn(c, m, m+".unmarshal", fn, fn.Params[1])
}

// c45BoundsOn checks the reads of fn that derive from its byte-slice parameter
// data; key names the obligation (the parser itself or one of its helpers).
func c45BoundsOn(c *core.Ctx, m, key string, fn *ssa.Function, data *ssa.Parameter) int {
	p := &c45Prover{facts: map[*ssa.BasicBlock][]tlsFact{}}
	sites, nProven := 0, 0
	reviewed := map[string]int{}
	var open []string
	for _, in := range tlsInstrs(fn) {
		var x ssa.Value
		var need int64 = -1
		var desc string
		var symHigh ssa.Value
		switch s := in.(type) {
		case *ssa.IndexAddr:
			if !c45IsByteSlice(s.X.Type()) || !c45FromInput(s.X, data, map[ssa.Value]bool{}) {
				continue
			}
			k, isK := tlsConstInt(s.Index)
			if !isK {
				continue
			}
			x, need, desc = s.X, k+1, fmt.Sprintf("[%d]", k)
		case *ssa.Slice:
			if !c45IsByteSlice(s.X.Type()) || !c45FromInput(s.X, data, map[ssa.Value]bool{}) {
				continue
			}
			x = s.X
			switch {
			case s.High != nil:
				if k, isK := tlsConstInt(s.High); isK {
					need, desc = k, fmt.Sprintf("[:%d]", k)
				} else {
					symHigh = s.High
				}
			case s.Low != nil:
				if k, isK := tlsConstInt(s.Low); isK {
					need, desc = k, fmt.Sprintf("[%d:]", k)
				} else {
					symHigh = s.Low
				}
			default:
				continue
			}
		default:
			continue
		}
		b := in.Block()
		sites++
		proven := false
		var what string
		if symHigh != nil {
			proven = p.lenGESym(x, symHigh, b)
			what = fmt.Sprintf("%s sliced at the variable bound %s without a dominating comparison of its length with that expression", core.Render(x), core.Render(symHigh))
		} else {
			if need <= 0 {
				sites--
				continue
			}
			got := p.lenLB(x, b, 0, map[ssa.Value]bool{})
			proven = got >= need
			what = fmt.Sprintf("%s%s read while the dominating comparisons only establish len >= %d (need %d)", core.Render(x), desc, got, need)
		}
		if proven {
			nProven++
			continue
		}
		if f := c45ElementLoopField(x, fn); f != "" {
			if _, ok := c45Reviewed[m+".unmarshal/"+f]; ok {
				reviewed[f]++
				continue
			}
		}
		if len(what) > 260 {
			what = what[:260] + "…"
		}
		open = append(open, c.P.Pos(in.Pos())+": "+what)
	}
	if sites == 0 {
		return 0
	}
	var rv []string
	for f, n := range reviewed {
		rv = append(rv, fmt.Sprintf("%d in the element loop filling %s (%s)", n, f, c45Reviewed[m+".unmarshal/"+f]))
	}
	sort.Strings(rv)
	if len(rv) > 0 {
		c.Note("%s.unmarshal: reads accepted by the reviewed table, not proven: %s", m, strings.Join(rv, "; "))
	}
	c.Check("index-bound", key, fn.Pos(), len(open) == 0,
		fmt.Sprintf("%s.unmarshal: %d of %d constant-index reads / re-slices of the message bytes are not covered by a dominating length comparison (a short or crafted message makes the parser panic or read outside the message): %s", m, len(open), sites, strings.Join(open, " | ")))
	return nProven
}

// ---- (e) big-endian byte windows --------------------------------------------

// c45Window reads a stored byte value as ((base * mul) >> shr) truncated to 8
// bits: conversions are peeled, right shifts by constants are collected from
// the outside, left shifts / multiplications by constants below them. ok is
// false for constants and for forms where a left shift is applied after a
// right shift (not a window of base).
func c45Window(v ssa.Value) (base ssa.Value, mul, shr int64, ok bool) {
	mul = 1
	peel := func() {
		for {
			switch x := v.(type) {
			case *ssa.Convert:
				v = x.X
				continue
			case *ssa.ChangeType:
				v = x.X
				continue
			}
			return
		}
	}
	for {
		peel()
		if b, isB := v.(*ssa.BinOp); isB && b.Op == token.SHR {
			if k, isK := tlsConstInt(b.Y); isK && k >= 0 && k < 64 {
				shr += k
				v = b.X
				continue
			}
		}
		if b, isB := v.(*ssa.BinOp); isB && b.Op == token.AND {
			// a mask that keeps at least the low byte does not change the stored byte when no shift follows
			if k, isK := tlsConstInt(b.Y); isK && k&0xff == 0xff && shr == 0 {
				v = b.X
				continue
			}
		}
		break
	}
	for {
		peel()
		b, isB := v.(*ssa.BinOp)
		if !isB {
			break
		}
		if k, isK := tlsConstInt(b.Y); isK && b.Op == token.SHL && k >= 0 && k < 32 {
			mul <<= uint(k)
			v = b.X
			continue
		}
		if k, isK := tlsConstInt(b.Y); isK && b.Op == token.MUL && k > 0 && k < 1<<16 {
			mul *= k
			v = b.X
			continue
		}
		if k, isK := tlsConstInt(b.X); isK && b.Op == token.MUL && k > 0 && k < 1<<16 {
			mul *= k
			v = b.Y
			continue
		}
		break
	}
	if _, isK := v.(*ssa.Const); isK || mul <= 0 || mul > 1<<40 {
		return nil, 0, 0, false
	}
	return v, mul, shr, true
}

type c45ByteStore struct {
	st    *ssa.Store
	buf   ssa.Value
	terms string
	k     int64
}

func c45ByteStores(fn *ssa.Function) []c45ByteStore {
	var out []c45ByteStore
	for _, in := range tlsInstrs(fn) {
		st, ok := in.(*ssa.Store)
		if !ok {
			continue
		}
		ia, ok := st.Addr.(*ssa.IndexAddr)
		if !ok {
			continue
		}
		if bt, ok := st.Val.Type().Underlying().(*types.Basic); !ok || bt.Kind() != types.Uint8 {
			continue
		}
		t, k := c45Terms(ia.Index)
		sort.Strings(t)
		// z[0] = hi; z = z[1:]; z[0] = lo: constant re-slices are folded into the index
		buf := ia.X
		for i := 0; i < 6; i++ {
			sl, ok := buf.(*ssa.Slice)
			if !ok || sl.High != nil || sl.Max != nil {
				break
			}
			if _, isPtr := sl.X.Type().Underlying().(*types.Pointer); isPtr {
				break
			}
			lo := int64(0)
			if sl.Low != nil {
				var isK bool
				if lo, isK = tlsConstInt(sl.Low); !isK {
					break
				}
			}
			buf, k = sl.X, k+lo
		}
		out = append(out, c45ByteStore{st, buf, strings.Join(t, "+"), k})
	}
	return out
}

// c45Windows: a byte that is a right-shifted window of a quantity is the
// non-lowest byte of a big-endian field; the byte stored right after it (same
// buffer value, index + 1) must be the next lower 8-bit window of the same
// quantity: ((q*m) >> s) is followed by ((q*m) >> (s-8)). Returns the number of
// obligations.
func c45Windows(c *core.Ctx, key string, fn *ssa.Function) int {
	stores := c45ByteStores(fn)
	n := 0
	for _, hi := range stores {
		base, mul, shr, ok := c45Window(hi.st.Val)
		if !ok || shr == 0 {
			continue
		}
		n++
		what := core.Render(base)
		if len(what) > 60 {
			what = what[:60] + "…"
		}
		found, good, got := false, false, ""
		for _, lo := range stores {
			if lo.buf != hi.buf || lo.terms != hi.terms || lo.k != hi.k+1 {
				continue
			}
			found = true
			b2, m2, s2, ok2 := c45Window(lo.st.Val)
			got = core.Render(lo.st.Val)
			if !ok2 || (b2 != base && core.Render(b2) != core.Render(base)) {
				continue
			}
			// hi = (q*mul)>>shr must equal ((q*m2)>>s2)>>8
			if shr < 63 && s2+8 < 63 && m2<<uint(shr) == mul<<uint(s2+8) {
				good = true
			}
		}
		detail := ""
		switch {
		case !found:
			detail = "no byte is stored at the next index of the same buffer"
		case !good:
			detail = "the next byte stores " + got + ", which is not the next lower 8-bit window of that quantity"
		}
		c.Check("byte-window", fmt.Sprintf("%s:high-byte#%d", key, n), hi.st.Pos(), good,
			fmt.Sprintf("%s writes byte(%s * %d >> %d) as a non-lowest byte of a big-endian field, but %s: for large values the field on the wire is not the quantity that was meant (lengths lose their high bits, the message no longer parses back)", key, what, mul, shr, detail))
	}
	return n
}

// c45Joins is the reading counterpart of c45Windows: an integer assembled by
// or-ing / adding shifted bytes of one slice (int(d[k])<<8 | int(d[k+1]), …)
// must take consecutive indices with shifts 8*(n-1), …, 8, 0 in index order.
func c45Joins(c *core.Ctx, key string, fn *ssa.Function) {
	// a byte term is d[i] or d[i]<<k (conversions peeled)
	byteTerm := func(v ssa.Value) bool {
		v = core.StripConv(v)
		if b, ok := v.(*ssa.BinOp); ok && b.Op == token.SHL {
			if _, isK := tlsConstInt(b.Y); !isK {
				return false
			}
			v = core.StripConv(b.X)
		}
		a, isLoad := tlsLoad(v)
		if !isLoad {
			return false
		}
		ia, ok := a.(*ssa.IndexAddr)
		return ok && c45IsByteSlice(ia.X.Type())
	}
	// a join is an | of anything, or a + whose operands are byte terms / joins
	var isJoin func(v ssa.Value) *ssa.BinOp
	isJoin = func(v ssa.Value) *ssa.BinOp {
		b, ok := v.(*ssa.BinOp)
		if !ok {
			return nil
		}
		if b.Op == token.OR {
			return b
		}
		if b.Op == token.ADD && (byteTerm(b.X) || isJoin(b.X) != nil) && (byteTerm(b.Y) || isJoin(b.Y) != nil) {
			return b
		}
		return nil
	}
	type leaf struct {
		x     ssa.Value
		terms string
		k, sh int64
	}
	n := 0
	for _, in := range tlsInstrs(fn) {
		root := isJoin(valueOf(in))
		if root == nil {
			continue
		}
		inner := false
		if root.Referrers() != nil {
			for _, r := range *root.Referrers() {
				if isJoin(valueOf(r)) != nil {
					inner = true
				}
			}
		}
		if inner {
			continue
		}
		var leaves []leaf
		okTree := true
		var flat func(v ssa.Value)
		flat = func(v ssa.Value) {
			if b := isJoin(v); b != nil {
				flat(b.X)
				flat(b.Y)
				return
			}
			var sh int64
			v = core.StripConv(v)
			if b, ok := v.(*ssa.BinOp); ok && b.Op == token.SHL {
				k, isK := tlsConstInt(b.Y)
				if !isK {
					okTree = false
					return
				}
				sh, v = k, core.StripConv(b.X)
			}
			a, isLoad := tlsLoad(v)
			if !isLoad {
				okTree = false
				return
			}
			ia, ok := a.(*ssa.IndexAddr)
			if !ok || !c45IsByteSlice(ia.X.Type()) {
				okTree = false
				return
			}
			t, k := c45Terms(ia.Index)
			sort.Strings(t)
			leaves = append(leaves, leaf{ia.X, strings.Join(t, "+"), k, sh})
		}
		flat(root)
		if !okTree || len(leaves) < 2 {
			continue
		}
		n++
		sort.Slice(leaves, func(i, j int) bool { return leaves[i].k < leaves[j].k })
		good := true
		var desc []string
		for j, l := range leaves {
			desc = append(desc, fmt.Sprintf("[%d]<<%d", l.k, l.sh))
			if l.x != leaves[0].x || l.terms != leaves[0].terms || l.k != leaves[0].k+int64(j) || l.sh != 8*int64(len(leaves)-1-j) {
				good = false
			}
		}
		c.Check("byte-join", fmt.Sprintf("%s:join#%d", key, n), root.Pos(), good,
			fmt.Sprintf("%s assembles an integer from message bytes as %s of %s; a big-endian field takes consecutive bytes of one slice with shifts %d…8,0 in index order: the value read is not the value written (lengths above 255 are mis-read)", key, strings.Join(desc, " "), core.Render(leaves[0].x), 8*(len(leaves)-1)))
	}
}

func valueOf(in ssa.Instruction) ssa.Value {
	v, _ := in.(ssa.Value)
	return v
}
