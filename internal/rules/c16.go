package rules

import (
	"fmt"
	"go/ast"
	"go/token"
	"go/types"
	"os"
	"sort"
	"strconv"
	"strings"
	"sync"
	"time"

	"golang.org/x/tools/go/ssa"

	"verif/internal/core"
)

// C16 — condition expressions evaluate with the documented precedence.
//
// The property is decided as a chain of agreements, each link an obligation
// set: documentation table -> %left/%right declarations of cond.y -> LALR
// tables committed in y.go (regenerated with goyacc and compared value for
// value; the committed tables are also interpreted by a reference driver and
// compared with a parser built from the documentation table on every
// expression up to a bound) -> semantic actions -> scanner -> build ->
// Match.
func init() {
	Register(&Rule{
		ID: "C16", Section: "4 C16",
		Technique: "translation validation of a yacc grammar: doc table vs %left/%right declarations, goyacc regeneration and table comparison, reference interpretation of the committed LALR tables against a parser derived from the documentation, SSA/AST checks of actions, scanner, build and Match",
		Meta: core.Meta{
			Level:       "translation_validation",
			Explanation: "Decides the whole chain from docs/en_us/condition/condition_grammar.md to BinaryCond/UnaryCond.Match: (1) the documented table orders () > ! (right) > && (left) > || (left); (2) cond.y declares NOT above LAND above LOR with those associativities, has exactly the documented expr productions and no %prec; (3) y.go is what goyacc (x/tools v0.29.0, built from the module cache) generates from cond.y: the 11 parser tables, token constants and token names are equal value for value and every other declaration (driver, semantic actions, lexer glue) is syntactically equal modulo goyacc's int narrowing; the LALR automaton printed by goyacc resolves `expr OP expr .` on a following operator exactly as the committed tables do; (4) the committed tables, run by a reference implementation of the yacc driver with the semantic actions read from y.go, give the same tree and truth table as a Pratt parser built from the documented table for every expression of up to 11 symbols over {primitive, &&, ||, !, (, )} (exhaustive; language equality on every prefix); (5) each action builds BinaryExpr/UnaryExpr/ParenExpr with the production's own operator and operands in source order; (6) the scanner yields LAND only for `&&`, LOR only for `||`, NOT for `!`, LPAREN/RPAREN for `(`/`)`, and condLex.Lex passes these tokens unchanged; Parser.Parse stores the top production's node; (7) build dispatches by node type, buildBinary/buildUnary pass Op, X, Y through unchanged; (8) BinaryCond.Match is `lc && rc` under op==LAND and `lc || rc` under op==LOR over exactly the two operands, UnaryCond.Match is `!cond` under op==NOT. Not covered: expressions longer than the enumeration bound are covered only through the table-equality and automaton links (3), which trust goyacc's LALR construction; the truth values of the primitives themselves (C18); error recovery of the driver on malformed input (C17).",
			RuleText:    "obligations = rows of the documentation table, %left/%right relations, each generated table, the automaton's resolution of each (completed binary/unary production, following operator) pair, the three expression classes of the exhaustive comparison (language, unmixed, mixed &&/||), each semantic action, each operator token in the scanner and in Lex, each field of BinaryCond/UnaryCond built, each arm of the two Match methods. A `program` is one accepted token string; it is non-trivial when it contains at least two operators.",
			Assumptions: []string{"goyacc of x/tools v0.29.0 implements yacc precedence resolution (later %left/%right line = higher precedence) and LALR(1) construction correctly", "condition primitives have no side effects, so two trees with equal truth tables are equivalent"},
		},
		Run: runC16,
		Mutants: []Mutant{
			{Name: "action-land-builds-lor", File: "bfe_basic/condition/parser/y.go", Old: "condVAL.Node = &BinaryExpr{condDollar[1].Node.(Expr), LAND, condDollar[3].Node.(Expr)}", New: "condVAL.Node = &BinaryExpr{condDollar[1].Node.(Expr), LOR, condDollar[3].Node.(Expr)}", Expect: "actions|expr LAND expr"},
			{Name: "action-operands-swapped", File: "bfe_basic/condition/parser/y.go", Old: "condVAL.Node = &BinaryExpr{condDollar[1].Node.(Expr), LOR, condDollar[3].Node.(Expr)}", New: "condVAL.Node = &BinaryExpr{condDollar[3].Node.(Expr), LOR, condDollar[3].Node.(Expr)}", Expect: "actions|expr LOR expr"},
			{Name: "table-not-loses-precedence", File: "bfe_basic/condition/parser/y.go", Old: "	0, -2, 1, 0, 0, 6, 7, 0, 0, 0,\n	5, 0, 3, 4, 2, 0, 9, 10, 8, 0,", New: "	0, -2, 1, 0, 0, 6, 7, 0, 0, 0,\n	0, 0, 3, 4, 2, 0, 9, 10, 8, 0,", Expect: "regen-tables|condDef"},
			{Name: "scanner-and-yields-lor", File: "bfe_basic/condition/parser/scanner.go", Old: "			tok = LAND\n", New: "			tok = LOR\n", Expect: "scanner|LAND"},
			{Name: "scanner-single-amp-is-and", File: "bfe_basic/condition/parser/scanner.go", Old: "		case '&':\n			if s.ch == '&' {", New: "		case '&':\n			if s.ch == '&' || s.ch != '&' {", Expect: "scanner|LAND"},
			{Name: "lex-maps-lor-to-land", File: "bfe_basic/condition/parser/y.go", Old: "		case LPAREN, RPAREN, LAND, LOR, SEMICOLON, COMMA, NOT:\n			lastTokenPos = pos\n			return int(tok)", New: "		case LOR:\n			return LAND\n		case LPAREN, RPAREN, LAND, SEMICOLON, COMMA, NOT:\n			lastTokenPos = pos\n			return int(tok)", Expect: "lex|LOR"},
			{Name: "match-and-becomes-or", File: "bfe_basic/condition/composite.go", Old: "return bc.lc.Match(req) && bc.rc.Match(req)", New: "return bc.lc.Match(req) || bc.rc.Match(req)", Expect: "eval|BinaryCond.Match:LAND"},
			{Name: "match-not-dropped", File: "bfe_basic/condition/composite.go", Old: "return !uc.cond.Match(req)", New: "return uc.cond.Match(req)", Expect: "eval|UnaryCond.Match:NOT"},
			{Name: "build-right-operand-lost", File: "bfe_basic/condition/build.go", Old: "return &BinaryCond{op: node.Op, lc: l, rc: r}, nil", New: "_ = r\n\treturn &BinaryCond{op: node.Op, lc: l, rc: l}, nil", Expect: "build|buildBinary:rc"},
			{Name: "build-paren-dropped-negation", File: "bfe_basic/condition/build.go", Old: "	return &UnaryCond{op: node.Op, cond: c}, nil", New: "	return c, nil", Expect: "build|buildUnary"},
			{Name: "silent-match-rewritten-as-if", File: "bfe_basic/condition/composite.go", Old: "	switch uc.op {\n	case parser.NOT:\n		return !uc.cond.Match(req)\n	default:\n		return false\n	}", New: "	if uc.op == parser.NOT {\n		inner := uc.cond\n		return !inner.Match(req)\n	}\n	return false", Silent: true},
			{Name: "silent-build-locals-renamed", File: "bfe_basic/condition/build.go", Old: "	r, err := build(node.Y)\n	if err != nil {\n		return nil, err\n	}\n\n	return &BinaryCond{op: node.Op, lc: l, rc: r}, nil", New: "	right, err := build(node.Y)\n	if err != nil {\n		return nil, err\n	}\n	res := &BinaryCond{lc: l}\n	res.rc = right\n	res.op = node.Op\n	return res, nil", Silent: true},
		},
	})
}

// ---- documentation table ---------------------------------------------------

type docOp struct {
	Sym   string // "()", "!", "&&", "||"
	Prec  int    // 1 = binds tightest
	Assoc string // left | right
}

func docPrecedence() ([]docOp, error) {
	doc, err := cxReadRepoFile(condDocs + "/condition_grammar.md")
	if err != nil {
		return nil, err
	}
	var ops []docOp
	for _, r := range cxMdTableRows(doc) {
		if len(r) < 4 {
			continue
		}
		p, err := strconv.Atoi(r[0])
		if err != nil {
			continue
		}
		a := ""
		switch strings.ToLower(r[3]) {
		case "left-to-right":
			a = "left"
		case "right-to-left":
			a = "right"
		}
		ops = append(ops, docOp{Sym: strings.ReplaceAll(r[1], " ", ""), Prec: p, Assoc: a})
	}
	if len(ops) == 0 {
		return nil, fmt.Errorf("no operator precedence table found")
	}
	return ops, nil
}

// ---- reference parser derived from the documentation table -------------------

type refParser struct {
	syms   string // a & | ! ( )
	pos    int
	bp     map[byte]int // binding power, larger = tighter
	right  map[byte]bool
	natoms int
	err    bool
}

func newRefParser(ops []docOp, syms string) *refParser {
	p := &refParser{syms: syms, bp: map[byte]int{}, right: map[byte]bool{}}
	maxp := 0
	for _, o := range ops {
		if o.Prec > maxp {
			maxp = o.Prec
		}
	}
	for _, o := range ops {
		var k byte
		switch o.Sym {
		case "!":
			k = '!'
		case "&&":
			k = '&'
		case "||":
			k = '|'
		default:
			continue
		}
		p.bp[k] = maxp + 1 - o.Prec
		p.right[k] = o.Assoc == "right"
	}
	return p
}

func (p *refParser) peek() byte {
	if p.pos < len(p.syms) {
		return p.syms[p.pos]
	}
	return 0
}

func (p *refParser) expr(min int) *condTree {
	var left *condTree
	switch p.peek() {
	case 'a':
		p.pos++
		left = &condTree{Kind: "atom", Atom: p.natoms}
		p.natoms++
	case '(':
		p.pos++
		in := p.expr(0)
		if p.peek() != ')' {
			p.err = true
			return nil
		}
		p.pos++
		left = &condTree{Kind: "paren", L: in}
	case '!':
		p.pos++
		left = &condTree{Kind: "not", L: p.expr(p.bp['!'])}
	default:
		p.err = true
		return nil
	}
	for !p.err {
		op := p.peek()
		if op != '&' && op != '|' || p.bp[op] < min {
			break
		}
		p.pos++
		next := p.bp[op] + 1
		if p.right[op] {
			next = p.bp[op]
		}
		r := p.expr(next)
		k := "and"
		if op == '|' {
			k = "or"
		}
		left = &condTree{Kind: k, L: left, R: r}
	}
	return left
}

func refParse(ops []docOp, syms string) *condTree {
	p := newRefParser(ops, syms)
	t := p.expr(0)
	if p.err || p.pos != len(syms) {
		return nil
	}
	return t
}

// refViable: is the symbol string a prefix of some expression, and is it a
// complete expression (documented grammar, token level)?
func refViable(s string) (viable, complete bool) {
	depth, have := 0, false
	for i := 0; i < len(s); i++ {
		switch s[i] {
		case 'a':
			if have {
				return false, false
			}
			have = true
		case '!', '(':
			if have {
				return false, false
			}
			if s[i] == '(' {
				depth++
			}
		case ')':
			if !have || depth == 0 {
				return false, false
			}
			depth--
		case '&', '|':
			if !have {
				return false, false
			}
			have = false
		}
	}
	return true, have && depth == 0
}

func symsToSource(s string) string {
	var b []string
	n := 0
	for i := 0; i < len(s); i++ {
		switch s[i] {
		case 'a':
			b = append(b, fmt.Sprintf("p%d()", n))
			n++
		case '&':
			b = append(b, "&&")
		case '|':
			b = append(b, "||")
		default:
			b = append(b, string(s[i]))
		}
	}
	return strings.Join(b, " ")
}

// ---- semantic actions of y.go ------------------------------------------------

// cxDollarIndex: condDollar[i].Node(.(T))? -> i
func cxDollarIndex(e ast.Expr) (int, bool) {
	for {
		switch x := e.(type) {
		case *ast.TypeAssertExpr:
			e = x.X
			continue
		case *ast.ParenExpr:
			e = x.X
			continue
		case *ast.SelectorExpr:
			if x.Sel.Name != "Node" {
				return 0, false
			}
			ie, ok := x.X.(*ast.IndexExpr)
			if !ok {
				return 0, false
			}
			if id, ok := ie.X.(*ast.Ident); !ok || !strings.HasSuffix(id.Name, "Dollar") {
				return 0, false
			}
			return cxEvalIntExpr(ie.Index, nil)
		}
		return 0, false
	}
}

func cxDescribeAction(rhs ast.Expr, info *types.Info) yAction {
	if i, ok := cxDollarIndex(rhs); ok {
		return yAction{Kind: "copy", X: i}
	}
	e := rhs
	if u, ok := e.(*ast.UnaryExpr); ok && u.Op == token.AND {
		e = u.X
	}
	if call, ok := e.(*ast.CallExpr); ok {
		if id, ok := call.Fun.(*ast.Ident); ok && id.Name == "append" {
			return yAction{Kind: "list"}
		}
	}
	cl, ok := e.(*ast.CompositeLit)
	if !ok {
		return yAction{Kind: "unknown"}
	}
	tn := ""
	var st *types.Struct
	if t := info.TypeOf(cl); t != nil {
		if n, ok := t.(*types.Named); ok {
			tn = n.Obj().Name()
		}
		st, _ = t.Underlying().(*types.Struct)
	}
	fields := map[string]ast.Expr{}
	for i, el := range cl.Elts {
		if kv, ok := el.(*ast.KeyValueExpr); ok {
			if id, ok := kv.Key.(*ast.Ident); ok {
				fields[id.Name] = kv.Value
			}
			continue
		}
		if st != nil && i < st.NumFields() {
			fields[st.Field(i).Name()] = el
		}
	}
	constName := func(e ast.Expr) string {
		if id, ok := e.(*ast.Ident); ok {
			if k, ok := info.Uses[id].(*types.Const); ok {
				return k.Name()
			}
		}
		return "?"
	}
	idx := func(name string) int {
		if e, ok := fields[name]; ok {
			if i, ok := cxDollarIndex(e); ok {
				return i
			}
		}
		return -1
	}
	switch tn {
	case "BinaryExpr":
		return yAction{Kind: "binary", Op: constName(fields["Op"]), X: idx("X"), Y: idx("Y")}
	case "UnaryExpr":
		return yAction{Kind: "unary", Op: constName(fields["Op"]), X: idx("X")}
	case "ParenExpr":
		return yAction{Kind: "paren", X: idx("X")}
	case "CallExpr":
		return yAction{Kind: "call"}
	case "BasicLitList":
		return yAction{Kind: "list"}
	}
	return yAction{Kind: "unknown"}
}

// yActions reads the `switch <prefix>nt { case N: … }` of the generated Parse.
func yActions(f *ast.File, info *types.Info, prefix string) map[int]yAction {
	out := map[int]yAction{}
	ast.Inspect(f, func(n ast.Node) bool {
		sw, ok := n.(*ast.SwitchStmt)
		if !ok {
			return true
		}
		if id, ok := sw.Tag.(*ast.Ident); !ok || id.Name != prefix+"nt" {
			return true
		}
		for _, s := range sw.Body.List {
			cc, ok := s.(*ast.CaseClause)
			if !ok || len(cc.List) != 1 {
				continue
			}
			n, ok := cxEvalIntExpr(cc.List[0], info)
			if !ok {
				continue
			}
			act := yAction{Kind: "unknown"}
			nAssign := 0
			for _, st := range cc.Body {
				ast.Inspect(st, func(m ast.Node) bool {
					as, ok := m.(*ast.AssignStmt)
					if !ok || len(as.Lhs) != 1 || len(as.Rhs) != 1 {
						return true
					}
					switch l := as.Lhs[0].(type) {
					case *ast.SelectorExpr:
						if id, ok := l.X.(*ast.Ident); ok && id.Name == prefix+"VAL" && l.Sel.Name == "Node" {
							act = cxDescribeAction(as.Rhs[0], info)
							nAssign++
						}
					case *ast.Ident:
						if l.Name == "parseNode" {
							if i, ok := cxDollarIndex(as.Rhs[0]); ok {
								act = yAction{Kind: "top", X: i}
							}
							nAssign++
						}
					}
					return true
				})
			}
			if nAssign != 1 {
				act = yAction{Kind: "unknown"}
			}
			out[n] = act
		}
		return false
	})
	return out
}

var c16ExtraOnce sync.Once

// ---- the check -----------------------------------------------------------------

func runC16(c *core.Ctx) {
	pk := c.P.Pkg(condParse)
	if pk == nil {
		c.Missing(condParse)
		return
	}
	// (1) documentation
	ops, err := docPrecedence()
	if err != nil {
		c.Missing(condDocs + "/condition_grammar.md operator precedence table (" + err.Error() + ")")
		return
	}
	docWhere := condDocs + "/condition_grammar.md"
	byS := map[string]docOp{}
	for _, o := range ops {
		byS[o.Sym] = o
	}
	for _, s := range []string{"()", "!", "&&", "||"} {
		_, ok := byS[s]
		c.CheckAt("doc-table", "row:"+s, docWhere, ok, "the documented precedence table has no row for "+s)
	}
	c.CheckAt("doc-table", "order", docWhere, byS["()"].Prec < byS["!"].Prec && byS["!"].Prec < byS["&&"].Prec && byS["&&"].Prec < byS["||"].Prec,
		fmt.Sprintf("the property states () > ! > && > ||; the documentation table lists precedence numbers ()=%d !=%d &&=%d ||=%d", byS["()"].Prec, byS["!"].Prec, byS["&&"].Prec, byS["||"].Prec))
	c.CheckAt("doc-table", "assoc", docWhere, byS["!"].Assoc == "right" && byS["&&"].Assoc == "left" && byS["||"].Assoc == "left",
		fmt.Sprintf("documented associativity !=%s &&=%s ||=%s, the property states right, left, left", byS["!"].Assoc, byS["&&"].Assoc, byS["||"].Assoc))
	c.Min("doc-table", 6)

	// (2) grammar
	ysrcB, err := os.ReadFile(core.FileOf(condParse + "/cond.y"))
	if err != nil {
		c.Missing(condParse + "/cond.y")
		return
	}
	yWhere := condParse + "/cond.y"
	sp, err := parseYacc(string(ysrcB))
	if err != nil {
		c.CheckAt("grammar-rules", "cond.y:parse", yWhere, false, "cannot read the yacc source: "+err.Error())
		return
	}
	tokOf := map[string]string{"!": "NOT", "&&": "LAND", "||": "LOR"}
	rel := func(hi, lo string) {
		h, l := tokOf[hi], tokOf[lo]
		ok := sp.Level[h] > 0 && sp.Level[l] > 0 && sp.Level[h] > sp.Level[l]
		c.CheckAt("grammar-prec", fmt.Sprintf("cond.y:level(%s)>level(%s)", h, l), yWhere, ok,
			fmt.Sprintf("the documentation gives %s higher precedence than %s, but cond.y declares %s at level %d and %s at level %d (a later %%left/%%right line binds tighter): `a %s b %s c` groups the %s operands first", hi, lo, h, sp.Level[h], l, sp.Level[l], lo, hi, lo))
	}
	type pair struct{ hi, lo string }
	var pairs []pair
	for _, a := range []string{"!", "&&", "||"} {
		for _, b := range []string{"!", "&&", "||"} {
			if byS[a].Prec < byS[b].Prec {
				pairs = append(pairs, pair{a, b})
			}
		}
	}
	for _, p := range pairs {
		rel(p.hi, p.lo)
	}
	for _, s := range []string{"!", "&&", "||"} {
		c.CheckAt("grammar-prec", "cond.y:assoc("+tokOf[s]+")", yWhere, sp.Assoc[tokOf[s]] == byS[s].Assoc,
			fmt.Sprintf("documented associativity of %s is %s, cond.y declares %%%s", s, byS[s].Assoc, sp.Assoc[tokOf[s]]))
	}
	c.Min("grammar-prec", 6)
	wantRules := [][]string{{"LPAREN", "expr", "RPAREN"}, {"expr", "LAND", "expr"}, {"expr", "LOR", "expr"}, {"NOT", "expr"}, {"callExpr"}, {"IDENT"}}
	got := map[string]bool{}
	hasPrec := ""
	for _, r := range sp.Rules {
		if r.LHS == "expr" {
			got[strings.Join(r.RHS, " ")] = true
		}
		if r.Prec != "" {
			hasPrec += r.LHS + ": " + strings.Join(r.RHS, " ") + " %prec " + r.Prec + "; "
		}
	}
	for _, w := range wantRules {
		k := strings.Join(w, " ")
		c.CheckAt("grammar-rules", "expr: "+k, yWhere, got[k], "cond.y lacks the production expr: "+k)
		delete(got, k)
	}
	c.CheckAt("grammar-rules", "expr:no-other-productions", yWhere, len(got) == 0, "cond.y has expr productions outside the documented grammar: "+strings.Join(cxSortedKeys(got), "; "))
	c.CheckAt("grammar-rules", "no-%prec", yWhere, hasPrec == "", "a %prec directive overrides the declared precedence: "+hasPrec)
	top := sp.ruleIndex("top", "expr")
	c.CheckAt("grammar-rules", "top: expr", yWhere, top == 1, "the start production is not `top: expr`")
	c.Min("grammar-rules", 9)

	// committed tables (overlay-aware: read from the loaded syntax)
	actObj := pk.Types.Scope().Lookup("condAct")
	yf := cxFileOfObj(pk, actObj)
	if yf == nil {
		c.Missing(condParse + ".condAct (generated parser tables in y.go)")
		return
	}
	yt, err := extractYTables(yf, pk.TypesInfo, "cond")
	if err != nil {
		c.Missing(condParse + " generated tables: " + err.Error())
		return
	}
	actions := yActions(yf, pk.TypesInfo, "cond")

	// (3) regeneration
	reg := runGoyacc(ysrcB, "cond")
	if reg.Err != nil {
		panic("INFRA: cannot regenerate the parser with goyacc: " + reg.Err.Error())
	}
	rf, err := cxParseGoSrc("y.go", reg.Go)
	if err != nil {
		panic("INFRA: goyacc output does not parse: " + err.Error())
	}
	rt, err := extractYTables(rf, nil, "cond")
	if err != nil {
		panic("INFRA: goyacc output has no tables: " + err.Error())
	}
	for _, n := range yTableNames {
		same := len(yt.T[n]) == len(rt.T[n])
		diffAt := -1
		if same {
			for i := range yt.T[n] {
				if yt.T[n][i] != rt.T[n][i] {
					same = false
					diffAt = i
					break
				}
			}
		}
		c.Check("regen-tables", "cond"+n, cxPosOf(pk.Types.Scope().Lookup("cond"+n)), same,
			fmt.Sprintf("table cond%s committed in y.go differs from the table goyacc generates from cond.y (first difference at index %d; %d vs %d entries): y.go is not the translation of the grammar", n, diffAt, len(yt.T[n]), len(rt.T[n])))
	}
	constsSame, constDiff := true, ""
	for k, v := range rt.Consts {
		if yt.Consts[k] != v {
			constsSame = false
			constDiff += fmt.Sprintf("%s: y.go %d, regenerated %d; ", k, yt.Consts[k], v)
		}
	}
	c.Check("regen-tables", "token-constants", yf.Pos(), constsSame && len(rt.Consts) > 10, "integer constants differ: "+constDiff)
	c.Check("regen-tables", "condToknames", yf.Pos(), strings.Join(yt.Toknames, ",") == strings.Join(rt.Toknames, ","), "token name table differs from the regenerated one")
	c.Min("regen-tables", 13)
	// every other declaration
	regDecl := map[string]ast.Decl{}
	for _, d := range rf.Decls {
		for _, n := range cxDeclNames(d) {
			regDecl[n] = d
		}
	}
	var diffs []string
	seen := map[string]bool{}
	for _, d := range yf.Decls {
		for _, n := range cxDeclNames(d) {
			seen[n] = true
			rd, ok := regDecl[n]
			if !ok {
				diffs = append(diffs, n+" (only in y.go)")
				continue
			}
			if c16IsTableDecl(n) {
				continue
			}
			if !cxAstEqualNorm(d, rd) {
				diffs = append(diffs, n)
			}
		}
	}
	for n := range regDecl {
		if !seen[n] {
			diffs = append(diffs, n+" (only in regenerated output)")
		}
	}
	sort.Strings(diffs)
	c.Check("regen-code", "y.go:driver-actions-lexer", yf.Pos(), len(diffs) == 0,
		"declarations of y.go that differ from goyacc's output for cond.y (modulo int narrowing): "+strings.Join(cxUniq(diffs), ", "))
	c.Min("regen-code", 1)

	// (5) semantic actions
	type wantAct struct {
		key string
		rhs []string
		lhs string
		act yAction
	}
	wants := []wantAct{
		{"top: expr", []string{"expr"}, "top", yAction{Kind: "top", X: 1}},
		{"LPAREN expr RPAREN", []string{"LPAREN", "expr", "RPAREN"}, "expr", yAction{Kind: "paren", X: 2}},
		{"expr LAND expr", []string{"expr", "LAND", "expr"}, "expr", yAction{Kind: "binary", Op: "LAND", X: 1, Y: 3}},
		{"expr LOR expr", []string{"expr", "LOR", "expr"}, "expr", yAction{Kind: "binary", Op: "LOR", X: 1, Y: 3}},
		{"NOT expr", []string{"NOT", "expr"}, "expr", yAction{Kind: "unary", Op: "NOT", X: 2}},
		{"callExpr", []string{"callExpr"}, "expr", yAction{Kind: "copy", X: 1}},
	}
	for _, w := range wants {
		n := sp.ruleIndex(w.lhs, w.rhs...)
		a, ok := actions[n]
		good := n > 0 && ok && a.Kind == w.act.Kind && a.Op == w.act.Op && a.X == w.act.X && a.Y == w.act.Y
		if n > 0 && n < len(yt.T["R2"]) && yt.T["R2"][n] != len(w.rhs) {
			good = false
		}
		c.Check("actions", w.key, yf.Pos(), good,
			fmt.Sprintf("production %d (%s: %s): the generated action is %+v, expected %+v (operator of the production, operands in source order)", n, w.lhs, strings.Join(w.rhs, " "), a, w.act))
	}
	c.Min("actions", 6)

	// (3b) automaton: how the committed tables resolve `expr OP expr .` / `NOT expr .` on a following operator
	tokVal := func(name string) int { return yt.Consts[name] }
	feedAll := func(names ...string) *lrMachine {
		m := newLR(yt, "cond", actions)
		for _, n := range names {
			if m.feed(tokVal(n)) != "shift" {
				return nil
			}
		}
		return m
	}
	atom := []string{"IDENT", "LPAREN", "RPAREN"}
	type item struct {
		name string
		toks []string
		op   string // documented symbol of the completed production's operator
	}
	items := []item{
		{"expr LAND expr", append(append(append([]string{}, atom...), "LAND"), atom...), "&&"},
		{"expr LOR expr", append(append(append([]string{}, atom...), "LOR"), atom...), "||"},
		{"NOT expr", append([]string{"NOT"}, atom...), "!"},
	}
	states := parseYOutput(reg.Output)
	outAgree, outDetail := true, ""
	for _, it := range items {
		for _, la := range []string{"&&", "||"} {
			want := "reduce"
			po, pl := byS[it.op], byS[la]
			if pl.Prec < po.Prec || pl.Prec == po.Prec && po.Assoc == "right" {
				want = "shift"
			}
			m := feedAll(it.toks...)
			gotAct := "error"
			if m != nil {
				// the callExpr -> expr reductions are unconditional; find the first action that
				// is taken with the production completed on the stack
				mm := m.clone()
				tok := mm.internalTok(tokVal(tokOf[la]))
				for i := 0; i < 50; i++ {
					a, prod := mm.step(tok, nil)
					if a == "reduce" && (prod == sp.ruleIndex("expr", "callExpr") || prod == sp.ruleIndex("callExpr", "IDENT", "LPAREN", "RPAREN")) {
						continue
					}
					gotAct = a
					if a == "reduce" && prod != sp.ruleIndex("expr", strings.Fields(it.name)...) {
						gotAct = fmt.Sprintf("reduce %d", prod)
					}
					break
				}
			}
			c.Check("automaton", fmt.Sprintf("after(%s) on %s", it.name, tokOf[la]), cxPosOf(actObj), gotAct == want,
				fmt.Sprintf("with `%s` complete on the stack and %s as lookahead the committed tables %s; the documented precedence (%s=%d, %s=%d, %s-associative) requires %s", it.name, la, gotAct, it.op, po.Prec, la, pl.Prec, po.Assoc, want))
			// the automaton goyacc prints for cond.y must resolve the same way
			outAct := "?"
			for _, st := range states {
				for _, itx := range st.Items {
					if itx == "expr: "+it.name+" ." {
						a, ok := st.Actions[tokOf[la]]
						if !ok {
							a = st.Actions["."]
						}
						outAct = strings.Fields(a + " ?")[0]
					}
				}
			}
			if outAct != strings.Fields(gotAct)[0] {
				outAgree = false
				outDetail += fmt.Sprintf("after(%s) on %s: y.output %s, tables %s; ", it.name, tokOf[la], outAct, gotAct)
			}
		}
	}
	c.Min("automaton", 6)
	c.Check("regen-automaton", "y.output-agrees-with-tables", yf.Pos(), outAgree && len(states) > 5,
		"the LALR automaton goyacc prints for cond.y resolves operator conflicts differently from the committed tables: "+outDetail)

	// (4) exhaustive comparison up to a bound
	const maxSyms = 11
	enumStart := time.Now()
	alphabet := []struct {
		sym  byte
		toks []string
	}{{'a', atom}, {'&', []string{"LAND"}}, {'|', []string{"LOR"}}, {'!', []string{"NOT"}}, {'(', []string{"LPAREN"}}, {')', []string{"RPAREN"}}}
	var (
		programs, nontrivial, langDis, unmixedDis, mixedDis, mixedN, explained int
		firstLang, firstUnmixed, firstMixed                                    string
		samples                                                                []interface{}
		firstMixedLen, truthDis                                                int
	)
	swapped := append([]docOp(nil), ops...)
	for i := range swapped {
		switch swapped[i].Sym {
		case "&&":
			swapped[i].Prec = byS["||"].Prec
		case "||":
			swapped[i].Prec = byS["&&"].Prec
		}
	}
	truthEq := func(a, b *condTree, n int) bool {
		for as := uint(0); as < 1<<uint(n); as++ {
			x, ok1 := a.eval(as)
			y, ok2 := b.eval(as)
			if !ok1 || !ok2 || x != y {
				return false
			}
		}
		return true
	}
	var dfs func(prefix string, m *lrMachine)
	dfs = func(prefix string, m *lrMachine) {
		// complete?
		rv, rc := refViable(prefix)
		if m != nil {
			end := m.clone()
			acc := end.feed(0) == "accept" && end.result != nil
			if acc != (rv && rc) {
				langDis++
				if firstLang == "" {
					firstLang = fmt.Sprintf("`%s`: tables accept=%v, documented grammar accept=%v", symsToSource(prefix), acc, rv && rc)
				}
			} else if acc {
				programs++
				nops := strings.Count(prefix, "&") + strings.Count(prefix, "|") + strings.Count(prefix, "!")
				if nops >= 2 {
					nontrivial++
				}
				ref := refParse(ops, prefix)
				n := strings.Count(prefix, "a")
				agree := ref != nil && ref.shape() == end.result.shape() // equal shapes have equal truth tables
				if !agree && ref != nil && !truthEq(ref, end.result, n) {
					truthDis++
				}
				mixed := strings.Contains(prefix, "&") && strings.Contains(prefix, "|")
				if mixed {
					mixedN++
				}
				if !agree {
					if mixed {
						mixedDis++
						if sw := refParse(swapped, prefix); sw != nil && sw.shape() == end.result.shape() {
							explained++
						}
						if firstMixed == "" || len(prefix) < firstMixedLen {
							firstMixedLen = len(prefix)
							firstMixed = fmt.Sprintf("`%s` parses as %s, documented: %s", symsToSource(prefix), end.result.shape(), ref.shape())
						}
					} else {
						unmixedDis++
						if firstUnmixed == "" {
							firstUnmixed = fmt.Sprintf("`%s` parses as %s, documented: %s", symsToSource(prefix), end.result.shape(), ref.shape())
						}
					}
				}
				if len(samples) < 12 && (programs%97 == 5 || (!agree && len(samples) < 4)) {
					samples = append(samples, map[string]interface{}{"expression": symsToSource(prefix), "tables_parse": end.result.shape(), "documented_parse": ref.shape(), "agree": agree})
				}
			}
		} else if rv && rc {
			langDis++
			if firstLang == "" {
				firstLang = fmt.Sprintf("`%s`: rejected by the tables, accepted by the documented grammar", symsToSource(prefix))
			}
		}
		if len(prefix) >= maxSyms {
			return
		}
		for _, al := range alphabet {
			np := prefix + string(al.sym)
			var nm *lrMachine
			if m != nil {
				nm = m.clone()
				for _, t := range al.toks {
					if nm.feed(tokVal(t)) != "shift" {
						nm = nil
						break
					}
				}
			}
			nrv, _ := refViable(np)
			if nm == nil && !nrv {
				continue
			}
			if (nm != nil) != nrv {
				langDis++
				if firstLang == "" {
					firstLang = fmt.Sprintf("prefix `%s`: viable for the tables=%v, for the documented grammar=%v", symsToSource(np), nm != nil, nrv)
				}
				if nm == nil {
					continue
				}
			}
			dfs(np, nm)
		}
	}
	dfs("", newLR(yt, "cond", actions))
	c.Check("parse-agreement", "language", cxPosOf(actObj), langDis == 0 && programs > 1000,
		fmt.Sprintf("%d expressions compared; %d token strings are accepted by one of {committed tables, documented grammar} and not the other; first: %s", programs, langDis, firstLang))
	c.Check("parse-agreement", "unmixed", cxPosOf(actObj), unmixedDis == 0,
		fmt.Sprintf("%d expressions without a &&/|| mix parse differently from the documented grammar; first: %s", unmixedDis, firstUnmixed))
	c.Check("parse-agreement", "mixed-LAND-LOR", cxPosOf(actObj), mixedDis == 0 && mixedN > 100,
		fmt.Sprintf("%d of %d expressions that mix && and || without full parenthesisation get a different tree from the committed tables than from the documented precedence (%d of them are exactly the parse with && and || precedence swapped; %d also differ in truth value for some assignment of the primitives); first: %s", mixedDis, mixedN, explained, truthDis, firstMixed))
	c.Min("parse-agreement", 3)
	c.Note("exhaustive comparison: %d accepted expressions of <= %d symbols (%d with >= 2 operators, %d mixing && and ||), %d disagreements (%d explained by swapped &&/|| precedence), %d language differences; enumeration took %d ms", programs, maxSyms, nontrivial, mixedN, mixedDis+unmixedDis, explained, langDis, time.Since(enumStart).Milliseconds())
	c16ExtraOnce.Do(func() {
		if r := Get("C16"); r != nil {
			if len(samples) == 0 {
				samples = append(samples, "no expression enumerated")
			}
			r.Meta.Extra = map[string]interface{}{
				"programs":              programs,
				"disagreements_checked": mixedDis + unmixedDis + langDis,
				"samples":               samples,
				"evaluations":           programs,
				"distinct_nontrivial":   nontrivial,
				"exhaustive":            true,
				"bound":                 fmt.Sprintf("all token strings of <= %d symbols over {primitive call, &&, ||, !, (, )}", maxSyms),
				"trusted_base":          []string{"go/types", "go/packages", "golang.org/x/tools/go/ssa v0.29.0", "golang.org/x/tools/cmd/goyacc v0.29.0 (LALR construction and precedence resolution)", "the reference yacc driver and Pratt parser in /verif/internal/rules/x_cond.go, c16.go"},
			}
		}
	})

	c16Scanner(c, yt)
	c16Lex(c, yt)
	c16Build(c)
	c16Eval(c, yt)
}

func c16IsTableDecl(n string) bool {
	if !strings.HasPrefix(n, "var cond") {
		return false
	}
	s := strings.TrimPrefix(n, "var cond")
	for _, t := range yTableNames {
		if s == t {
			return true
		}
	}
	return false
}

func cxPosOf(o types.Object) token.Pos {
	if o == nil {
		return token.NoPos
	}
	return o.Pos()
}

// ---- (6) scanner and Lex -----------------------------------------------------------

// cxTokenEdges walks the phi web of v and returns, per constant token value, the
// predecessor blocks from which that constant flows (the block in which the
// assignment `tok = T` was the last one).
func cxTokenEdges(v ssa.Value) map[int64][]*ssa.BasicBlock {
	out := map[int64][]*ssa.BasicBlock{}
	seen := map[ssa.Value]bool{}
	var walk func(v ssa.Value, from *ssa.BasicBlock)
	walk = func(v ssa.Value, from *ssa.BasicBlock) {
		switch x := v.(type) {
		case *ssa.Phi:
			if seen[x] {
				return
			}
			seen[x] = true
			for i, e := range x.Edges {
				walk(e, x.Block().Preds[i])
			}
		case *ssa.Const:
			if n, ok := cxConstInt(x); ok && from != nil {
				out[n] = append(out[n], from)
			}
		}
	}
	walk(v, nil)
	return out
}

// cxCharTests returns the distinct branch conditions `<load of s.ch> == ch`
// that hold at b.
func cxCharTests(b *ssa.BasicBlock, ch rune) map[ssa.Value]bool {
	out := map[ssa.Value]bool{}
	for _, g := range core.GuardsAt(b) {
		if !g.Pol {
			continue
		}
		bo, ok := g.Cond.(*ssa.BinOp)
		if !ok || bo.Op != token.EQL {
			continue
		}
		for _, pr := range [][2]ssa.Value{{bo.X, bo.Y}, {bo.Y, bo.X}} {
			if n, ok := cxConstInt(pr[1]); ok && n == int64(ch) && strings.HasSuffix(core.Render(pr[0]), ".ch") {
				out[g.Cond] = true
			}
		}
	}
	return out
}

func c16Scanner(c *core.Ctx, yt *yTables) {
	scan := c.P.Func(condParse, "Scanner.Scan")
	if scan == nil {
		c.Missing(condParse + ".Scanner.Scan")
		return
	}
	c.Analysed(core.FuncKey(scan))
	rets := core.Returns(scan)
	if len(rets) == 0 {
		c.Missing(condParse + ".Scanner.Scan: return")
		return
	}
	edges := map[int64][]*ssa.BasicBlock{}
	for _, r := range rets {
		rv := core.RetVals(r)
		if len(rv) != 3 {
			continue
		}
		if k, ok := cxConstInt(rv[1]); ok {
			edges[k] = append(edges[k], r.Block())
		}
		for k, bs := range cxTokenEdges(rv[1]) {
			edges[k] = append(edges[k], bs...)
		}
	}
	type want struct {
		tok string
		ch  rune
		n   int
	}
	wants := []want{{"LAND", '&', 2}, {"LOR", '|', 2}, {"NOT", '!', 1}, {"LPAREN", '(', 1}, {"RPAREN", ')', 1}}
	for _, w := range wants {
		val, okc := yt.Consts[w.tok]
		bs := edges[int64(val)]
		ok := okc && len(bs) > 0
		detail := ""
		for _, b := range bs {
			if n := len(cxCharTests(b, w.ch)); n < w.n {
				ok = false
				detail += fmt.Sprintf("an assignment of %s is reached with %d test(s) of the current character against %q (need %d); guards: %s; ", w.tok, n, w.ch, w.n, cxTrim(strings.Join(core.GuardStrs(b), " && "), 300))
			}
		}
		if len(bs) == 0 {
			detail = "Scan never yields " + w.tok
		}
		// conversely: no other token is produced under the same character tests
		for k, obs := range edges {
			if k == int64(val) {
				continue
			}
			for _, b := range obs {
				if len(cxCharTests(b, w.ch)) >= w.n && w.n == 2 {
					ok = false
					detail += fmt.Sprintf("token value %d is produced after %d tests against %q, where %s is expected; ", k, w.n, w.ch, w.tok)
				}
				if w.n == 1 && len(cxCharTests(b, w.ch)) >= 1 {
					ok = false
					detail += fmt.Sprintf("token value %d is produced for character %q, where %s is expected; ", k, w.ch, w.tok)
				}
			}
		}
		c.Check("scanner", w.tok, scan.Pos(), ok, "Scanner.Scan: "+detail)
	}
	c.Min("scanner", 5)
}

func c16Lex(c *core.Ctx, yt *yTables) {
	lex := c.P.Func(condParse, "condLex.Lex")
	if lex == nil {
		c.Missing(condParse + ".condLex.Lex")
		return
	}
	c.Analysed(core.FuncKey(lex))
	// the token scanned
	var scanned ssa.Value
	for _, call := range core.Calls(lex, condParse+".Scanner.Scan") {
		if v, ok := call.(*ssa.Call); ok && v.Referrers() != nil {
			for _, r := range *v.Referrers() {
				if ex, ok := r.(*ssa.Extract); ok && ex.Index == 1 {
					scanned = ex
				}
			}
		}
	}
	if scanned == nil {
		c.Missing(condParse + ".condLex.Lex: the token returned by Scanner.Scan")
		return
	}
	for _, t := range []string{"LAND", "LOR", "NOT", "LPAREN", "RPAREN"} {
		val := int64(yt.Consts[t])
		// every return reached under `tok == T` returns tok itself (or the same constant)
		n, ok, detail := 0, true, ""
		for _, r := range core.Returns(lex) {
			for _, p := range append([]*ssa.BasicBlock{nil}, r.Block().Preds...) {
				var gs []core.Guard
				if p == nil {
					gs = core.GuardsAt(r.Block())
				} else {
					gs = core.GuardsOnEdge(p, r.Block())
				}
				hit := false
				for _, g := range gs {
					bo, isb := g.Cond.(*ssa.BinOp)
					if !g.Pol || !isb || bo.Op != token.EQL {
						continue
					}
					if k, isk := cxConstInt(bo.Y); isk && k == val && bo.X == scanned {
						hit = true
					}
					if k, isk := cxConstInt(bo.X); isk && k == val && bo.Y == scanned {
						hit = true
					}
				}
				if !hit {
					continue
				}
				n++
				rv := core.RetVals(r)[0]
				if k, isk := cxConstInt(rv); isk {
					if k != val {
						ok = false
						detail = fmt.Sprintf("returns the constant %d when the scanner produced %s (%d)", k, t, val)
					}
				} else if core.StripConv(rv) != scanned {
					ok = false
					detail = "returns " + core.Render(rv) + " when the scanner produced " + t
				}
			}
		}
		if n == 0 {
			ok = false
			detail = "no return is controlled by tok == " + t + ": the token is not passed to the parser"
		}
		c.Check("lex", t, lex.Pos(), ok, "condLex.Lex "+detail)
	}
	c.Min("lex", 5)
	// Parser.Parse: runs condParse on the lexer and stores parseNode as the result
	if fn := c.P.Func(condParse, "Parser.Parse"); fn == nil {
		c.Missing(condParse + ".Parser.Parse")
	} else {
		c.Analysed(core.FuncKey(fn))
		calls := core.Calls(fn, condParse+".condParse")
		stored := false
		core.Instrs(fn, func(in ssa.Instruction) {
			if st, ok := in.(*ssa.Store); ok && core.Render(st.Addr) == cxP(fn, 0)+".ast" && core.Render(st.Val) == "parser.parseNode" {
				stored = len(calls) > 0 && core.Dominates(calls[0].(ssa.Instruction), st)
			}
		})
		c.Check("lex", "Parser.Parse:result", fn.Pos(), stored, "Parser.Parse must run condParse and then take the tree from parseNode (set by the top production)")
	}
}

// ---- (7) build -------------------------------------------------------------------

// cxFieldStoreVals returns, for the struct allocated as the result, the values
// stored in each named field (all stores in fn to fields of a *T alloc).
func cxFieldStoreVals(fn *ssa.Function, typeName string) map[string][]ssa.Value {
	out := map[string][]ssa.Value{}
	core.Instrs(fn, func(in ssa.Instruction) {
		st, ok := in.(*ssa.Store)
		if !ok {
			return
		}
		fa, ok := st.Addr.(*ssa.FieldAddr)
		if !ok {
			return
		}
		pt, ok := fa.X.Type().Underlying().(*types.Pointer)
		if !ok {
			return
		}
		n, ok := pt.Elem().(*types.Named)
		if !ok || n.Obj().Name() != typeName {
			return
		}
		if f := core.FieldObj(fa.X, fa.Field); f != nil {
			out[f.Name()] = append(out[f.Name()], st.Val)
		}
	})
	return out
}

// c16IsBuildOf: v is result #0 of build(<node>.<field>).
func c16IsBuildOf(v ssa.Value, node, field string) bool {
	ex, ok := core.StripConv(v).(*ssa.Extract)
	if !ok || ex.Index != 0 {
		return false
	}
	call, ok := ex.Tuple.(*ssa.Call)
	if !ok || !core.CallIs(&call.Call, condPkg+".build") || len(call.Call.Args) != 1 {
		return false
	}
	return core.Render(call.Call.Args[0]) == node+"."+field
}

func c16Build(c *core.Ctx) {
	bb := c.P.Func(condPkg, "buildBinary")
	if bb == nil {
		c.Missing(condPkg + ".buildBinary")
	} else {
		c.Analysed(core.FuncKey(bb))
		fs := cxFieldStoreVals(bb, "BinaryCond")
		one := func(name string, pred func(ssa.Value) bool, want string) {
			vs := fs[name]
			ok := len(vs) > 0
			got := ""
			for _, v := range vs {
				got += core.Render(v) + " "
				if !pred(v) {
					ok = false
				}
			}
			c.Check("build", "buildBinary:"+name, bb.Pos(), ok, "BinaryCond."+name+" is built from "+got+"; expected "+want)
		}
		one("op", func(v ssa.Value) bool { return core.Render(v) == cxP(bb, 0)+".Op" }, "node.Op")
		one("lc", func(v ssa.Value) bool { return c16IsBuildOf(v, cxP(bb, 0), "X") }, "build(node.X)")
		one("rc", func(v ssa.Value) bool { return c16IsBuildOf(v, cxP(bb, 0), "Y") }, "build(node.Y)")
	}
	bu := c.P.Func(condPkg, "buildUnary")
	if bu == nil {
		c.Missing(condPkg + ".buildUnary")
	} else {
		c.Analysed(core.FuncKey(bu))
		fs := cxFieldStoreVals(bu, "UnaryCond")
		okOp := len(fs["op"]) > 0
		for _, v := range fs["op"] {
			okOp = okOp && core.Render(v) == cxP(bu, 0)+".Op"
		}
		okC := len(fs["cond"]) > 0
		for _, v := range fs["cond"] {
			okC = okC && c16IsBuildOf(v, cxP(bu, 0), "X")
		}
		c.Check("build", "buildUnary:op", bu.Pos(), okOp, "UnaryCond.op must be node.Op")
		c.Check("build", "buildUnary:cond", bu.Pos(), okC, "UnaryCond.cond must be build(node.X)")
		// every success return returns the UnaryCond built here
		for i, r := range core.Returns(bu) {
			rv := core.RetVals(r)
			if len(rv) != 2 || !isNilConst(rv[1]) {
				continue
			}
			a, isAlloc := core.StripConv(rv[0]).(*ssa.Alloc)
			ok := isAlloc && strings.HasSuffix(core.TypeStr(a.Type()), "UnaryCond")
			c.Check("build", fmt.Sprintf("buildUnary:success-return#%d", i), r.Pos(), ok, "buildUnary returns "+core.Render(rv[0])+" on success instead of the UnaryCond wrapping the operand: the negation is lost")
		}
	}
	if bb != nil {
		for i, r := range core.Returns(bb) {
			rv := core.RetVals(r)
			if len(rv) != 2 || !isNilConst(rv[1]) {
				continue
			}
			a, isAlloc := core.StripConv(rv[0]).(*ssa.Alloc)
			ok := isAlloc && strings.HasSuffix(core.TypeStr(a.Type()), "BinaryCond")
			c.Check("build", fmt.Sprintf("buildBinary:success-return#%d", i), r.Pos(), ok, "buildBinary returns "+core.Render(rv[0])+" on success instead of the BinaryCond built from both operands")
		}
	}
	// dispatch in build
	b := c.P.Func(condPkg, "build")
	if b == nil {
		c.Missing(condPkg + ".build")
		return
	}
	c.Analysed(core.FuncKey(b))
	wantDisp := map[string]string{"BinaryExpr": condPkg + ".buildBinary", "UnaryExpr": condPkg + ".buildUnary", "ParenExpr": condPkg + ".build", "CallExpr": condPkg + ".buildPrimitive"}
	found := map[string]bool{}
	for _, call := range core.AllCalls(b) {
		callee := core.CalleeKey(call.Common())
		_, ts := enclosingArm(call.Block())
		if len(ts) != 1 || len(call.Common().Args) != 1 {
			continue
		}
		tn := core.TypeStr(ts[0])
		tn = tn[strings.LastIndex(tn, ".")+1:]
		want, isNode := wantDisp[tn]
		if !isNode || !strings.HasPrefix(callee, condPkg+".build") {
			continue
		}
		found[tn] = true
		ok := callee == want
		if tn == "ParenExpr" {
			ok = ok && strings.HasSuffix(core.Render(call.Common().Args[0]), ".X")
		}
		// the arm returns the callee's results
		val, isVal := call.(*ssa.Call)
		retOK := false
		if isVal {
			for _, r := range core.Returns(b) {
				rv := core.RetVals(r)
				if len(rv) == 2 {
					if ex, ok := rv[0].(*ssa.Extract); ok && ex.Tuple == val && ex.Index == 0 {
						retOK = true
					}
				}
			}
		}
		c.Check("build", "build:"+tn, call.Pos(), ok && retOK, fmt.Sprintf("build handles *parser.%s by calling %s(%s) (result returned: %v); expected %s on the node itself (ParenExpr: on its X)", tn, callee, core.Render(call.Common().Args[0]), retOK, want))
	}
	for tn := range wantDisp {
		if !found[tn] {
			c.Check("build", "build:"+tn, b.Pos(), false, "build has no arm for *parser."+tn)
		}
	}
	c.Min("build", 11)
}

// ---- (8) evaluation ---------------------------------------------------------------

// cxShortCircuit recognises the SSA of `L && R` / `L || R`: a two-edge phi with
// one boolean constant edge coming straight from the block that branches on L.
func cxShortCircuit(v ssa.Value) (op string, l, r ssa.Value) {
	phi, ok := v.(*ssa.Phi)
	if !ok || len(phi.Edges) != 2 {
		return "", nil, nil
	}
	for i, e := range phi.Edges {
		k, ok := e.(*ssa.Const)
		if !ok || k.Value == nil {
			continue
		}
		pred := phi.Block().Preds[i]
		ifi, ok := pred.Instrs[len(pred.Instrs)-1].(*ssa.If)
		if !ok {
			continue
		}
		other := phi.Edges[1-i]
		constTrue := k.Value.ExactString() == "true"
		// && : the false edge of L jumps to the join with constant false
		if !constTrue && pred.Succs[1] == phi.Block() {
			return "&&", ifi.Cond, other
		}
		if constTrue && pred.Succs[0] == phi.Block() {
			return "||", ifi.Cond, other
		}
	}
	return "", nil, nil
}

// cxIsMatchOn: v is `invoke <recv>.<field>.Match(req)`.
func cxIsMatchOn(v ssa.Value, path string) bool {
	call, ok := v.(*ssa.Call)
	if !ok || !call.Call.IsInvoke() || call.Call.Method.Name() != "Match" || len(call.Call.Args) != 1 {
		return false
	}
	if _, isParam := call.Call.Args[0].(*ssa.Parameter); !isParam {
		return false
	}
	return core.Render(call.Call.Value) == path
}

// cxOpGuard: the block is reached only when <recv>.op == val.
func cxOpGuard(b *ssa.BasicBlock, path string, val int64) bool {
	return core.AllEdgesGuarded(b, func(g core.Guard) bool {
		bo, ok := g.Cond.(*ssa.BinOp)
		if !ok {
			return false
		}
		for _, pr := range [][2]ssa.Value{{bo.X, bo.Y}, {bo.Y, bo.X}} {
			if k, isk := cxConstInt(pr[1]); isk && k == val && core.Render(pr[0]) == path {
				return bo.Op == token.EQL && g.Pol || bo.Op == token.NEQ && !g.Pol
			}
		}
		return false
	})
}

func c16Eval(c *core.Ctx, yt *yTables) {
	bm := c.P.Func(condPkg, "BinaryCond.Match")
	if bm == nil {
		c.Missing(condPkg + ".BinaryCond.Match")
	} else {
		c.Analysed(core.FuncKey(bm))
		recv := bm.Params[0].Name()
		for _, w := range []struct{ tok, op string }{{"LAND", "&&"}, {"LOR", "||"}} {
			n, ok, detail := 0, true, ""
			for _, r := range core.Returns(bm) {
				if !cxOpGuard(r.Block(), recv+".op", int64(yt.Consts[w.tok])) {
					continue
				}
				n++
				rv := core.RetVals(r)[0]
				op, l, rr := cxShortCircuit(rv)
				// operand order does not change the truth value (primitives have no side effects): accept either
				direct := cxIsMatchOn(l, recv+".lc") && cxIsMatchOn(rr, recv+".rc")
				swapped := cxIsMatchOn(l, recv+".rc") && cxIsMatchOn(rr, recv+".lc")
				if op != w.op || !(direct || swapped) {
					ok = false
					detail = fmt.Sprintf("returns %s (recognised as %q of %s, %s)", cxTrim(core.Render(rv), 200), op, core.Render(l), core.Render(rr))
				}
			}
			if n == 0 {
				ok = false
				detail = "has no return under op == " + w.tok
			}
			c.Check("eval", "BinaryCond.Match:"+w.tok, bm.Pos(), ok, "BinaryCond.Match under op == "+w.tok+" "+detail+"; expected lc.Match(req) "+w.op+" rc.Match(req)")
		}
		// any other operator value: false
		okDef := true
		for _, r := range core.Returns(bm) {
			if cxOpGuard(r.Block(), recv+".op", int64(yt.Consts["LAND"])) || cxOpGuard(r.Block(), recv+".op", int64(yt.Consts["LOR"])) {
				continue
			}
			if core.Render(core.RetVals(r)[0]) != "false" {
				okDef = false
			}
		}
		c.Check("eval", "BinaryCond.Match:other-op", bm.Pos(), okDef, "BinaryCond.Match returns something other than false for an operator that is neither LAND nor LOR")
	}
	um := c.P.Func(condPkg, "UnaryCond.Match")
	if um == nil {
		c.Missing(condPkg + ".UnaryCond.Match")
	} else {
		c.Analysed(core.FuncKey(um))
		recv := um.Params[0].Name()
		n, ok, detail := 0, true, ""
		for _, r := range core.Returns(um) {
			if !cxOpGuard(r.Block(), recv+".op", int64(yt.Consts["NOT"])) {
				continue
			}
			n++
			rv := core.RetVals(r)[0]
			u, isU := rv.(*ssa.UnOp)
			if !isU || u.Op != token.NOT || !cxIsMatchOn(u.X, recv+".cond") {
				ok = false
				detail = "returns " + cxTrim(core.Render(rv), 200)
			}
		}
		if n == 0 {
			ok = false
			detail = "has no return under op == NOT"
		}
		c.Check("eval", "UnaryCond.Match:NOT", um.Pos(), ok, "UnaryCond.Match under op == NOT "+detail+"; expected !cond.Match(req)")
	}
	c.Min("eval", 4)
}
