package rules

import (
	"fmt"
	"go/ast"
	"go/token"
	"go/types"
	"os"
	"sort"
	"strconv"
	"strings"
	"sync"
	"time"

	"golang.org/x/tools/go/ssa"

	"verif/internal/core"
)

// C16 — condition expressions evaluate with the documented precedence.
//
// The property is decided as a chain of agreements, each link an obligation
// set: documentation table -> %left/%right declarations of cond.y -> LALR
// tables committed in y.go (regenerated with goyacc and compared value for
// value; the committed tables are also interpreted by a reference driver and
// compared with a parser built from the documentation table on every
// expression up to a bound) -> semantic actions -> scanner -> build ->
// Match.
func init() {
	Register(&Rule{
		ID: "C16", Section: "4 C16",
		Technique: "translation validation of a yacc grammar: doc table vs %left/%right declarations, goyacc regeneration and table comparison, reference interpretation of the committed LALR tables against a parser derived from the documentation, SSA/AST checks of actions, scanner, build and Match",
		Meta: core.Meta{
			Level:       "translation_validation",
			Explanation: "Decides the whole chain from docs/en_us/condition/condition_grammar.md to BinaryCond/UnaryCond.Match: (1) the documented table orders () > ! (right) > && (left) > || (left); (2) cond.y declares NOT above LAND above LOR with those associativities, has exactly the documented expr productions and no %prec; (3) y.go is what goyacc (x/tools v0.29.0, built from the module cache) generates from cond.y: the 11 parser tables, token constants and token names are equal value for value and every other declaration (driver, semantic actions, lexer glue) is syntactically equal modulo goyacc's int narrowing; the LALR automaton printed by goyacc resolves `expr OP expr .` on a following operator exactly as the committed tables do; (4) the committed tables, run by a reference implementation of the yacc driver with the semantic actions read from y.go, give the same tree and truth table as a Pratt parser built from the documented table for every expression of up to 11 symbols over {primitive, &&, ||, !, (, )} (exhaustive; language equality on every prefix); (5) each action builds BinaryExpr/UnaryExpr/ParenExpr with the production's own operator and operands in source order; (6) the scanner yields LAND only for `&&`, LOR only for `||`, NOT for `!`, LPAREN/RPAREN for `(`/`)`, and condLex.Lex passes these tokens unchanged; Parser.Parse stores the top production's node; (7) the function that receives the tree of parser.Parse from Build dispatches on the node type (found by that role, not by name): for a BinaryExpr/UnaryExpr every success result, followed through private helpers and constructor helpers or written in place, is a BinaryCond/UnaryCond whose op is the node's own Op and whose operands are the conditions built from the node's own X (and Y); a ParenExpr yields the condition of its X and a CallExpr buildPrimitive of the node; (8) BinaryCond.Match and UnaryCond.Match are evaluated by an SSA interpreter on every combination of operator value and operand truth values (private helpers included; a branch the inputs do not determine is explored both ways and must not change the result): the result is lc && rc under LAND, lc || rc under LOR, !cond under NOT and false for any other operator, whatever the spelling (switch, if-chain, early returns, explicit short-circuit, named booleans). Not covered: a Match method that walks operand trees itself (loops, type assertions on operands) is reported as undecided rather than analysed; semantic actions are read as one assignment of a composite literal to $$ whose operands are $-values or block locals defined once from them; operand evaluation order and the number of evaluations (primitives have no side effects); expressions longer than the enumeration bound are covered only through the table-equality and automaton links (3), which trust goyacc's LALR construction; the truth values of the primitives themselves (C18); error recovery of the driver on malformed input (C17).",
			RuleText:    "obligations = rows of the documentation table, %left/%right relations, each generated table, the automaton's resolution of each (completed binary/unary production, following operator) pair, the three expression classes of the exhaustive comparison (language, unmixed, mixed &&/||), each semantic action, each operator token in the scanner and in Lex, each arm of the type dispatch and each field of the BinaryCond/UnaryCond it yields, each operator class of the two Match methods (all operand truth-value combinations). A `program` is one accepted token string; it is non-trivial when it contains at least two operators.",
			Assumptions: []string{"goyacc of x/tools v0.29.0 implements yacc precedence resolution (later %left/%right line = higher precedence) and LALR(1) construction correctly", "condition primitives have no side effects, so two trees with equal truth tables are equivalent"},
		},
		Run: runC16,
		Mutants: []Mutant{
			{Name: "action-land-builds-lor", File: "bfe_basic/condition/parser/y.go", Old: "condVAL.Node = &BinaryExpr{condDollar[1].Node.(Expr), LAND, condDollar[3].Node.(Expr)}", New: "condVAL.Node = &BinaryExpr{condDollar[1].Node.(Expr), LOR, condDollar[3].Node.(Expr)}", Expect: "actions|expr LAND expr"},
			{Name: "action-operands-swapped", File: "bfe_basic/condition/parser/y.go", Old: "condVAL.Node = &BinaryExpr{condDollar[1].Node.(Expr), LOR, condDollar[3].Node.(Expr)}", New: "condVAL.Node = &BinaryExpr{condDollar[3].Node.(Expr), LOR, condDollar[3].Node.(Expr)}", Expect: "actions|expr LOR expr"},
			{Name: "table-not-loses-precedence", File: "bfe_basic/condition/parser/y.go", Old: "	0, -2, 1, 0, 0, 6, 7, 0, 0, 0,\n	5, 0, 3, 4, 2, 0, 9, 10, 8, 0,", New: "	0, -2, 1, 0, 0, 6, 7, 0, 0, 0,\n	0, 0, 3, 4, 2, 0, 9, 10, 8, 0,", Expect: "regen-tables|condDef"},
			{Name: "scanner-and-yields-lor", File: "bfe_basic/condition/parser/scanner.go", Old: "			tok = LAND\n", New: "			tok = LOR\n", Expect: "scanner|LAND"},
			{Name: "scanner-single-amp-is-and", File: "bfe_basic/condition/parser/scanner.go", Old: "		case '&':\n			if s.ch == '&' {", New: "		case '&':\n			if s.ch == '&' || s.ch != '&' {", Expect: "scanner|LAND"},
			{Name: "lex-maps-lor-to-land", File: "bfe_basic/condition/parser/y.go", Old: "		case LPAREN, RPAREN, LAND, LOR, SEMICOLON, COMMA, NOT:\n			lastTokenPos = pos\n			return int(tok)", New: "		case LOR:\n			return LAND\n		case LPAREN, RPAREN, LAND, SEMICOLON, COMMA, NOT:\n			lastTokenPos = pos\n			return int(tok)", Expect: "lex|LOR"},
			{Name: "match-and-becomes-or", File: "bfe_basic/condition/composite.go", Old: "return bc.lc.Match(req) && bc.rc.Match(req)", New: "return bc.lc.Match(req) || bc.rc.Match(req)", Expect: "eval|BinaryCond.Match:LAND"},
			{Name: "match-not-dropped", File: "bfe_basic/condition/composite.go", Old: "return !uc.cond.Match(req)", New: "return uc.cond.Match(req)", Expect: "eval|UnaryCond.Match:NOT"},
			{Name: "build-right-operand-lost", File: "bfe_basic/condition/build.go", Old: "return &BinaryCond{op: node.Op, lc: l, rc: r}, nil", New: "_ = r\n\treturn &BinaryCond{op: node.Op, lc: l, rc: l}, nil", Expect: "build|buildBinary:rc"},
			{Name: "build-paren-dropped-negation", File: "bfe_basic/condition/build.go", Old: "	return &UnaryCond{op: node.Op, cond: c}, nil", New: "	return c, nil", Expect: "build|buildUnary"},
			{Name: "silent-match-rewritten-as-if", File: "bfe_basic/condition/composite.go", Old: "	switch uc.op {\n	case parser.NOT:\n		return !uc.cond.Match(req)\n	default:\n		return false\n	}", New: "	if uc.op == parser.NOT {\n		inner := uc.cond\n		return !inner.Match(req)\n	}\n	return false", Silent: true},
			{Name: "silent-binary-match-as-early-returns", File: "bfe_basic/condition/composite.go", Old: "\tswitch bc.op {\n\tcase parser.LAND:\n\t\treturn bc.lc.Match(req) && bc.rc.Match(req)\n\tcase parser.LOR:\n\t\treturn bc.lc.Match(req) || bc.rc.Match(req)\n\tdefault:\n\t\treturn false\n\t}", New: "\tif bc.op == parser.LOR {\n\t\tif bc.lc.Match(req) {\n\t\t\treturn true\n\t\t}\n\t\treturn bc.rc.Match(req)\n\t}\n\tif bc.op != parser.LAND {\n\t\treturn false\n\t}\n\tleft := bc.lc.Match(req)\n\tif !left {\n\t\treturn false\n\t}\n\treturn bc.rc.Match(req)", Silent: true},
			{Name: "silent-build-unary-inlined", File: "bfe_basic/condition/build.go", Old: "\tcase *parser.UnaryExpr:\n\t\treturn buildUnary(n)\n\tcase *parser.BinaryExpr:\n\t\treturn buildBinary(n)\n\tcase *parser.ParenExpr:\n\t\treturn build(n.X)\n\tdefault:\n\t\treturn nil, fmt.Errorf(\"unsupported node %s\", node)\n\t}\n}\n\nfunc buildUnary(node *parser.UnaryExpr) (Condition, error) {\n\tc, err := build(node.X)\n\tif err != nil {\n\t\treturn nil, err\n\t}\n\n\treturn &UnaryCond{op: node.Op, cond: c}, nil\n\n}\n", New: "\tcase *parser.UnaryExpr:\n\t\toperand, err := build(n.X)\n\t\tif err != nil {\n\t\t\treturn nil, err\n\t\t}\n\t\treturn &UnaryCond{op: n.Op, cond: operand}, nil\n\tcase *parser.BinaryExpr:\n\t\treturn buildBinary(n)\n\tcase *parser.ParenExpr:\n\t\treturn build(n.X)\n\tdefault:\n\t\treturn nil, fmt.Errorf(\"unsupported node %s\", node)\n\t}\n}\n", Silent: true},
			{Name: "silent-build-binary-ctor-extracted", File: "bfe_basic/condition/build.go", Old: "\tr, err := build(node.Y)\n\tif err != nil {\n\t\treturn nil, err\n\t}\n\n\treturn &BinaryCond{op: node.Op, lc: l, rc: r}, nil\n}\n", New: "\tr, err := build(node.Y)\n\tif err != nil {\n\t\treturn nil, err\n\t}\n\tif l == nil || r == nil {\n\t\treturn nil, fmt.Errorf(\"binary expr %s: operand not built\", node.Op)\n\t}\n\n\treturn newBinaryCond(node, l, r), nil\n}\n\nfunc newBinaryCond(expr *parser.BinaryExpr, left, right Condition) Condition {\n\treturn &BinaryCond{op: expr.Op, lc: left, rc: right}\n}\n", Silent: true},
			{Name: "silent-scanner-and-test-inverted", File: "bfe_basic/condition/parser/scanner.go", Old: "\t\tcase '&':\n\t\t\tif s.ch == '&' {\n\t\t\t\ts.next()\n\t\t\t\ttok = LAND\n\t\t\t\tlit = \"&&\"\n\t\t\t} else {\n\t\t\t\ttok = ILLEGAL\n\t\t\t\tlit = string(ch)\n\t\t\t}", New: "\t\tcase '&':\n\t\t\tif '&' != s.ch {\n\t\t\t\ttok = ILLEGAL\n\t\t\t\tlit = string(ch)\n\t\t\t} else {\n\t\t\t\ts.next()\n\t\t\t\ttok = LAND\n\t\t\t\tlit = \"&&\"\n\t\t\t}", Silent: true},
			{Name: "silent-build-locals-renamed", File: "bfe_basic/condition/build.go", Old: "	r, err := build(node.Y)\n	if err != nil {\n		return nil, err\n	}\n\n	return &BinaryCond{op: node.Op, lc: l, rc: r}, nil", New: "	right, err := build(node.Y)\n	if err != nil {\n		return nil, err\n	}\n	res := &BinaryCond{lc: l}\n	res.rc = right\n	res.op = node.Op\n	return res, nil", Silent: true},
		},
	})
}

// ---- documentation table ---------------------------------------------------

type docOp struct {
	Sym   string // "()", "!", "&&", "||"
	Prec  int    // 1 = binds tightest
	Assoc string // left | right
}

func docPrecedence() ([]docOp, error) {
	doc, err := cxReadRepoFile(condDocs + "/condition_grammar.md")
	if err != nil {
		return nil, err
	}
	var ops []docOp
	for _, r := range cxMdTableRows(doc) {
		if len(r) < 4 {
			continue
		}
		p, err := strconv.Atoi(r[0])
		if err != nil {
			continue
		}
		a := ""
		switch strings.ToLower(r[3]) {
		case "left-to-right":
			a = "left"
		case "right-to-left":
			a = "right"
		}
		ops = append(ops, docOp{Sym: strings.ReplaceAll(r[1], " ", ""), Prec: p, Assoc: a})
	}
	if len(ops) == 0 {
		return nil, fmt.Errorf("no operator precedence table found")
	}
	return ops, nil
}

// ---- reference parser derived from the documentation table -------------------

type refParser struct {
	syms   string // a & | ! ( )
	pos    int
	bp     map[byte]int // binding power, larger = tighter
	right  map[byte]bool
	natoms int
	err    bool
}

func newRefParser(ops []docOp, syms string) *refParser {
	p := &refParser{syms: syms, bp: map[byte]int{}, right: map[byte]bool{}}
	maxp := 0
	for _, o := range ops {
		if o.Prec > maxp {
			maxp = o.Prec
		}
	}
	for _, o := range ops {
		var k byte
		switch o.Sym {
		case "!":
			k = '!'
		case "&&":
			k = '&'
		case "||":
			k = '|'
		default:
			continue
		}
		p.bp[k] = maxp + 1 - o.Prec
		p.right[k] = o.Assoc == "right"
	}
	return p
}

func (p *refParser) peek() byte {
	if p.pos < len(p.syms) {
		return p.syms[p.pos]
	}
	return 0
}

func (p *refParser) expr(min int) *condTree {
	var left *condTree
	switch p.peek() {
	case 'a':
		p.pos++
		left = &condTree{Kind: "atom", Atom: p.natoms}
		p.natoms++
	case '(':
		p.pos++
		in := p.expr(0)
		if p.peek() != ')' {
			p.err = true
			return nil
		}
		p.pos++
		left = &condTree{Kind: "paren", L: in}
	case '!':
		p.pos++
		left = &condTree{Kind: "not", L: p.expr(p.bp['!'])}
	default:
		p.err = true
		return nil
	}
	for !p.err {
		op := p.peek()
		if op != '&' && op != '|' || p.bp[op] < min {
			break
		}
		p.pos++
		next := p.bp[op] + 1
		if p.right[op] {
			next = p.bp[op]
		}
		r := p.expr(next)
		k := "and"
		if op == '|' {
			k = "or"
		}
		left = &condTree{Kind: k, L: left, R: r}
	}
	return left
}

func refParse(ops []docOp, syms string) *condTree {
	p := newRefParser(ops, syms)
	t := p.expr(0)
	if p.err || p.pos != len(syms) {
		return nil
	}
	return t
}

// refViable: is the symbol string a prefix of some expression, and is it a
// complete expression (documented grammar, token level)?
func refViable(s string) (viable, complete bool) {
	depth, have := 0, false
	for i := 0; i < len(s); i++ {
		switch s[i] {
		case 'a':
			if have {
				return false, false
			}
			have = true
		case '!', '(':
			if have {
				return false, false
			}
			if s[i] == '(' {
				depth++
			}
		case ')':
			if !have || depth == 0 {
				return false, false
			}
			depth--
		case '&', '|':
			if !have {
				return false, false
			}
			have = false
		}
	}
	return true, have && depth == 0
}

func symsToSource(s string) string {
	var b []string
	n := 0
	for i := 0; i < len(s); i++ {
		switch s[i] {
		case 'a':
			b = append(b, fmt.Sprintf("p%d()", n))
			n++
		case '&':
			b = append(b, "&&")
		case '|':
			b = append(b, "||")
		default:
			b = append(b, string(s[i]))
		}
	}
	return strings.Join(b, " ")
}

// ---- semantic actions of y.go ------------------------------------------------

// cxLocalDefs maps the block-scoped locals of one semantic action that are
// defined once (`lhs := $1.Node.(Expr)`) and never reassigned to their
// defining expression, so that an action written with named intermediates is
// read like the same action with the expressions in place.
type cxLocalDefs struct {
	info *types.Info
	defs map[types.Object]ast.Expr
}

func cxCollectLocalDefs(body []ast.Stmt, info *types.Info) *cxLocalDefs {
	ld := &cxLocalDefs{info: info, defs: map[types.Object]ast.Expr{}}
	if info == nil {
		return ld
	}
	reassigned := map[types.Object]bool{}
	for _, st := range body {
		ast.Inspect(st, func(n ast.Node) bool {
			switch x := n.(type) {
			case *ast.AssignStmt:
				for i, l := range x.Lhs {
					id, ok := l.(*ast.Ident)
					if !ok {
						continue
					}
					if o := info.Defs[id]; o != nil && x.Tok == token.DEFINE && len(x.Lhs) == len(x.Rhs) {
						if _, dup := ld.defs[o]; dup {
							reassigned[o] = true
						}
						ld.defs[o] = x.Rhs[i]
						continue
					}
					if o := info.Uses[id]; o != nil {
						reassigned[o] = true
					}
				}
			case *ast.IncDecStmt:
				if id, ok := x.X.(*ast.Ident); ok {
					if o := info.Uses[id]; o != nil {
						reassigned[o] = true
					}
				}
			case *ast.UnaryExpr:
				if id, ok := x.X.(*ast.Ident); ok && x.Op == token.AND {
					if o := info.Uses[id]; o != nil {
						reassigned[o] = true
					}
				}
			}
			return true
		})
	}
	for o := range reassigned {
		delete(ld.defs, o)
	}
	return ld
}

// subst replaces a local defined once by its defining expression (transitively).
func (ld *cxLocalDefs) subst(e ast.Expr) ast.Expr {
	for i := 0; ld != nil && ld.info != nil && i < 8; i++ {
		switch x := e.(type) {
		case *ast.ParenExpr:
			e = x.X
			continue
		case *ast.Ident:
			if o := ld.info.Uses[x]; o != nil {
				if d, ok := ld.defs[o]; ok {
					e = d
					continue
				}
			}
		}
		break
	}
	return e
}

// cxDollarIndex: condDollar[i].Node(.(T))? -> i
func cxDollarIndex(e ast.Expr, ld *cxLocalDefs) (int, bool) {
	for {
		e = ld.subst(e)
		switch x := e.(type) {
		case *ast.TypeAssertExpr:
			e = x.X
			continue
		case *ast.ParenExpr:
			e = x.X
			continue
		case *ast.SelectorExpr:
			if x.Sel.Name != "Node" {
				return 0, false
			}
			ie, ok := x.X.(*ast.IndexExpr)
			if !ok {
				return 0, false
			}
			if id, ok := ie.X.(*ast.Ident); !ok || !strings.HasSuffix(id.Name, "Dollar") {
				return 0, false
			}
			return cxEvalIntExpr(ie.Index, nil)
		}
		return 0, false
	}
}

func cxDescribeAction(rhs ast.Expr, info *types.Info, ld *cxLocalDefs) yAction {
	if i, ok := cxDollarIndex(rhs, ld); ok {
		return yAction{Kind: "copy", X: i}
	}
	e := ld.subst(rhs)
	if u, ok := e.(*ast.UnaryExpr); ok && u.Op == token.AND {
		e = u.X
	}
	if call, ok := e.(*ast.CallExpr); ok {
		if id, ok := call.Fun.(*ast.Ident); ok && id.Name == "append" {
			return yAction{Kind: "list"}
		}
	}
	cl, ok := e.(*ast.CompositeLit)
	if !ok {
		return yAction{Kind: "unknown"}
	}
	tn := ""
	var st *types.Struct
	if t := info.TypeOf(cl); t != nil {
		if n, ok := t.(*types.Named); ok {
			tn = n.Obj().Name()
		}
		st, _ = t.Underlying().(*types.Struct)
	}
	fields := map[string]ast.Expr{}
	for i, el := range cl.Elts {
		if kv, ok := el.(*ast.KeyValueExpr); ok {
			if id, ok := kv.Key.(*ast.Ident); ok {
				fields[id.Name] = kv.Value
			}
			continue
		}
		if st != nil && i < st.NumFields() {
			fields[st.Field(i).Name()] = el
		}
	}
	constName := func(e ast.Expr) string {
		if id, ok := ld.subst(e).(*ast.Ident); ok {
			if k, ok := info.Uses[id].(*types.Const); ok {
				return k.Name()
			}
		}
		return "?"
	}
	idx := func(name string) int {
		if e, ok := fields[name]; ok {
			if i, ok := cxDollarIndex(e, ld); ok {
				return i
			}
		}
		return -1
	}
	switch tn {
	case "BinaryExpr":
		return yAction{Kind: "binary", Op: constName(fields["Op"]), X: idx("X"), Y: idx("Y")}
	case "UnaryExpr":
		return yAction{Kind: "unary", Op: constName(fields["Op"]), X: idx("X")}
	case "ParenExpr":
		return yAction{Kind: "paren", X: idx("X")}
	case "CallExpr":
		return yAction{Kind: "call"}
	case "BasicLitList":
		return yAction{Kind: "list"}
	}
	return yAction{Kind: "unknown"}
}

// yActions reads the `switch <prefix>nt { case N: … }` of the generated Parse.
func yActions(f *ast.File, info *types.Info, prefix string) map[int]yAction {
	out := map[int]yAction{}
	ast.Inspect(f, func(n ast.Node) bool {
		sw, ok := n.(*ast.SwitchStmt)
		if !ok {
			return true
		}
		if id, ok := sw.Tag.(*ast.Ident); !ok || id.Name != prefix+"nt" {
			return true
		}
		for _, s := range sw.Body.List {
			cc, ok := s.(*ast.CaseClause)
			if !ok || len(cc.List) != 1 {
				continue
			}
			n, ok := cxEvalIntExpr(cc.List[0], info)
			if !ok {
				continue
			}
			act := yAction{Kind: "unknown"}
			nAssign := 0
			ld := cxCollectLocalDefs(cc.Body, info)
			for _, st := range cc.Body {
				ast.Inspect(st, func(m ast.Node) bool {
					as, ok := m.(*ast.AssignStmt)
					if !ok || len(as.Lhs) != 1 || len(as.Rhs) != 1 {
						return true
					}
					switch l := as.Lhs[0].(type) {
					case *ast.SelectorExpr:
						if id, ok := l.X.(*ast.Ident); ok && id.Name == prefix+"VAL" && l.Sel.Name == "Node" {
							act = cxDescribeAction(as.Rhs[0], info, ld)
							nAssign++
						}
					case *ast.Ident:
						if l.Name == "parseNode" {
							if i, ok := cxDollarIndex(as.Rhs[0], ld); ok {
								act = yAction{Kind: "top", X: i}
							}
							nAssign++
						}
					}
					return true
				})
			}
			if nAssign != 1 {
				act = yAction{Kind: "unknown"}
			}
			out[n] = act
		}
		return false
	})
	return out
}

var c16ExtraOnce sync.Once

// ---- the check -----------------------------------------------------------------

func runC16(c *core.Ctx) {
	pk := c.P.Pkg(condParse)
	if pk == nil {
		c.Missing(condParse)
		return
	}
	// (1) documentation
	ops, err := docPrecedence()
	if err != nil {
		c.Missing(condDocs + "/condition_grammar.md operator precedence table (" + err.Error() + ")")
		return
	}
	docWhere := condDocs + "/condition_grammar.md"
	byS := map[string]docOp{}
	for _, o := range ops {
		byS[o.Sym] = o
	}
	for _, s := range []string{"()", "!", "&&", "||"} {
		_, ok := byS[s]
		c.CheckAt("doc-table", "row:"+s, docWhere, ok, "the documented precedence table has no row for "+s)
	}
	c.CheckAt("doc-table", "order", docWhere, byS["()"].Prec < byS["!"].Prec && byS["!"].Prec < byS["&&"].Prec && byS["&&"].Prec < byS["||"].Prec,
		fmt.Sprintf("the property states () > ! > && > ||; the documentation table lists precedence numbers ()=%d !=%d &&=%d ||=%d", byS["()"].Prec, byS["!"].Prec, byS["&&"].Prec, byS["||"].Prec))
	c.CheckAt("doc-table", "assoc", docWhere, byS["!"].Assoc == "right" && byS["&&"].Assoc == "left" && byS["||"].Assoc == "left",
		fmt.Sprintf("documented associativity !=%s &&=%s ||=%s, the property states right, left, left", byS["!"].Assoc, byS["&&"].Assoc, byS["||"].Assoc))
	c.Min("doc-table", 6)

	// (2) grammar
	ysrcB, err := os.ReadFile(core.FileOf(condParse + "/cond.y"))
	if err != nil {
		c.Missing(condParse + "/cond.y")
		return
	}
	yWhere := condParse + "/cond.y"
	sp, err := parseYacc(string(ysrcB))
	if err != nil {
		c.CheckAt("grammar-rules", "cond.y:parse", yWhere, false, "cannot read the yacc source: "+err.Error())
		return
	}
	tokOf := map[string]string{"!": "NOT", "&&": "LAND", "||": "LOR"}
	rel := func(hi, lo string) {
		h, l := tokOf[hi], tokOf[lo]
		ok := sp.Level[h] > 0 && sp.Level[l] > 0 && sp.Level[h] > sp.Level[l]
		c.CheckAt("grammar-prec", fmt.Sprintf("cond.y:level(%s)>level(%s)", h, l), yWhere, ok,
			fmt.Sprintf("the documentation gives %s higher precedence than %s, but cond.y declares %s at level %d and %s at level %d (a later %%left/%%right line binds tighter): `a %s b %s c` groups the %s operands first", hi, lo, h, sp.Level[h], l, sp.Level[l], lo, hi, lo))
	}
	type pair struct{ hi, lo string }
	var pairs []pair
	for _, a := range []string{"!", "&&", "||"} {
		for _, b := range []string{"!", "&&", "||"} {
			if byS[a].Prec < byS[b].Prec {
				pairs = append(pairs, pair{a, b})
			}
		}
	}
	for _, p := range pairs {
		rel(p.hi, p.lo)
	}
	for _, s := range []string{"!", "&&", "||"} {
		c.CheckAt("grammar-prec", "cond.y:assoc("+tokOf[s]+")", yWhere, sp.Assoc[tokOf[s]] == byS[s].Assoc,
			fmt.Sprintf("documented associativity of %s is %s, cond.y declares %%%s", s, byS[s].Assoc, sp.Assoc[tokOf[s]]))
	}
	c.Min("grammar-prec", 6)
	wantRules := [][]string{{"LPAREN", "expr", "RPAREN"}, {"expr", "LAND", "expr"}, {"expr", "LOR", "expr"}, {"NOT", "expr"}, {"callExpr"}, {"IDENT"}}
	got := map[string]bool{}
	hasPrec := ""
	for _, r := range sp.Rules {
		if r.LHS == "expr" {
			got[strings.Join(r.RHS, " ")] = true
		}
		if r.Prec != "" {
			hasPrec += r.LHS + ": " + strings.Join(r.RHS, " ") + " %prec " + r.Prec + "; "
		}
	}
	for _, w := range wantRules {
		k := strings.Join(w, " ")
		c.CheckAt("grammar-rules", "expr: "+k, yWhere, got[k], "cond.y lacks the production expr: "+k)
		delete(got, k)
	}
	c.CheckAt("grammar-rules", "expr:no-other-productions", yWhere, len(got) == 0, "cond.y has expr productions outside the documented grammar: "+strings.Join(cxSortedKeys(got), "; "))
	c.CheckAt("grammar-rules", "no-%prec", yWhere, hasPrec == "", "a %prec directive overrides the declared precedence: "+hasPrec)
	top := sp.ruleIndex("top", "expr")
	c.CheckAt("grammar-rules", "top: expr", yWhere, top == 1, "the start production is not `top: expr`")
	c.Min("grammar-rules", 9)

	// committed tables (overlay-aware: read from the loaded syntax)
	actObj := pk.Types.Scope().Lookup("condAct")
	yf := cxFileOfObj(pk, actObj)
	if yf == nil {
		c.Missing(condParse + ".condAct (generated parser tables in y.go)")
		return
	}
	yt, err := extractYTables(yf, pk.TypesInfo, "cond")
	if err != nil {
		c.Missing(condParse + " generated tables: " + err.Error())
		return
	}
	actions := yActions(yf, pk.TypesInfo, "cond")

	// (3) regeneration
	reg := runGoyacc(ysrcB, "cond")
	if reg.Err != nil {
		panic("INFRA: cannot regenerate the parser with goyacc: " + reg.Err.Error())
	}
	rf, err := cxParseGoSrc("y.go", reg.Go)
	if err != nil {
		panic("INFRA: goyacc output does not parse: " + err.Error())
	}
	rt, err := extractYTables(rf, nil, "cond")
	if err != nil {
		panic("INFRA: goyacc output has no tables: " + err.Error())
	}
	for _, n := range yTableNames {
		same := len(yt.T[n]) == len(rt.T[n])
		diffAt := -1
		if same {
			for i := range yt.T[n] {
				if yt.T[n][i] != rt.T[n][i] {
					same = false
					diffAt = i
					break
				}
			}
		}
		c.Check("regen-tables", "cond"+n, cxPosOf(pk.Types.Scope().Lookup("cond"+n)), same,
			fmt.Sprintf("table cond%s committed in y.go differs from the table goyacc generates from cond.y (first difference at index %d; %d vs %d entries): y.go is not the translation of the grammar", n, diffAt, len(yt.T[n]), len(rt.T[n])))
	}
	constsSame, constDiff := true, ""
	for k, v := range rt.Consts {
		if yt.Consts[k] != v {
			constsSame = false
			constDiff += fmt.Sprintf("%s: y.go %d, regenerated %d; ", k, yt.Consts[k], v)
		}
	}
	c.Check("regen-tables", "token-constants", yf.Pos(), constsSame && len(rt.Consts) > 10, "integer constants differ: "+constDiff)
	c.Check("regen-tables", "condToknames", yf.Pos(), strings.Join(yt.Toknames, ",") == strings.Join(rt.Toknames, ","), "token name table differs from the regenerated one")
	c.Min("regen-tables", 13)
	// every other declaration
	regDecl := map[string]ast.Decl{}
	for _, d := range rf.Decls {
		for _, n := range cxDeclNames(d) {
			regDecl[n] = d
		}
	}
	var diffs []string
	seen := map[string]bool{}
	for _, d := range yf.Decls {
		for _, n := range cxDeclNames(d) {
			seen[n] = true
			rd, ok := regDecl[n]
			if !ok {
				diffs = append(diffs, n+" (only in y.go)")
				continue
			}
			if c16IsTableDecl(n) {
				continue
			}
			if !cxAstEqualNorm(d, rd) {
				diffs = append(diffs, n)
			}
		}
	}
	for n := range regDecl {
		if !seen[n] {
			diffs = append(diffs, n+" (only in regenerated output)")
		}
	}
	sort.Strings(diffs)
	c.Check("regen-code", "y.go:driver-actions-lexer", yf.Pos(), len(diffs) == 0,
		"declarations of y.go that differ from goyacc's output for cond.y (modulo int narrowing): "+strings.Join(cxUniq(diffs), ", "))
	c.Min("regen-code", 1)

	// (5) semantic actions
	type wantAct struct {
		key string
		rhs []string
		lhs string
		act yAction
	}
	wants := []wantAct{
		{"top: expr", []string{"expr"}, "top", yAction{Kind: "top", X: 1}},
		{"LPAREN expr RPAREN", []string{"LPAREN", "expr", "RPAREN"}, "expr", yAction{Kind: "paren", X: 2}},
		{"expr LAND expr", []string{"expr", "LAND", "expr"}, "expr", yAction{Kind: "binary", Op: "LAND", X: 1, Y: 3}},
		{"expr LOR expr", []string{"expr", "LOR", "expr"}, "expr", yAction{Kind: "binary", Op: "LOR", X: 1, Y: 3}},
		{"NOT expr", []string{"NOT", "expr"}, "expr", yAction{Kind: "unary", Op: "NOT", X: 2}},
		{"callExpr", []string{"callExpr"}, "expr", yAction{Kind: "copy", X: 1}},
	}
	for _, w := range wants {
		n := sp.ruleIndex(w.lhs, w.rhs...)
		a, ok := actions[n]
		good := n > 0 && ok && a.Kind == w.act.Kind && a.Op == w.act.Op && a.X == w.act.X && a.Y == w.act.Y
		if n > 0 && n < len(yt.T["R2"]) && yt.T["R2"][n] != len(w.rhs) {
			good = false
		}
		c.Check("actions", w.key, yf.Pos(), good,
			fmt.Sprintf("production %d (%s: %s): the generated action is %+v, expected %+v (operator of the production, operands in source order)", n, w.lhs, strings.Join(w.rhs, " "), a, w.act))
	}
	c.Min("actions", 6)

	// (3b) automaton: how the committed tables resolve `expr OP expr .` / `NOT expr .` on a following operator
	tokVal := func(name string) int { return yt.Consts[name] }
	feedAll := func(names ...string) *lrMachine {
		m := newLR(yt, "cond", actions)
		for _, n := range names {
			if m.feed(tokVal(n)) != "shift" {
				return nil
			}
		}
		return m
	}
	atom := []string{"IDENT", "LPAREN", "RPAREN"}
	type item struct {
		name string
		toks []string
		op   string // documented symbol of the completed production's operator
	}
	items := []item{
		{"expr LAND expr", append(append(append([]string{}, atom...), "LAND"), atom...), "&&"},
		{"expr LOR expr", append(append(append([]string{}, atom...), "LOR"), atom...), "||"},
		{"NOT expr", append([]string{"NOT"}, atom...), "!"},
	}
	states := parseYOutput(reg.Output)
	outAgree, outDetail := true, ""
	for _, it := range items {
		for _, la := range []string{"&&", "||"} {
			want := "reduce"
			po, pl := byS[it.op], byS[la]
			if pl.Prec < po.Prec || pl.Prec == po.Prec && po.Assoc == "right" {
				want = "shift"
			}
			m := feedAll(it.toks...)
			gotAct := "error"
			if m != nil {
				// the callExpr -> expr reductions are unconditional; find the first action that
				// is taken with the production completed on the stack
				mm := m.clone()
				tok := mm.internalTok(tokVal(tokOf[la]))
				for i := 0; i < 50; i++ {
					a, prod := mm.step(tok, nil)
					if a == "reduce" && (prod == sp.ruleIndex("expr", "callExpr") || prod == sp.ruleIndex("callExpr", "IDENT", "LPAREN", "RPAREN")) {
						continue
					}
					gotAct = a
					if a == "reduce" && prod != sp.ruleIndex("expr", strings.Fields(it.name)...) {
						gotAct = fmt.Sprintf("reduce %d", prod)
					}
					break
				}
			}
			c.Check("automaton", fmt.Sprintf("after(%s) on %s", it.name, tokOf[la]), cxPosOf(actObj), gotAct == want,
				fmt.Sprintf("with `%s` complete on the stack and %s as lookahead the committed tables %s; the documented precedence (%s=%d, %s=%d, %s-associative) requires %s", it.name, la, gotAct, it.op, po.Prec, la, pl.Prec, po.Assoc, want))
			// the automaton goyacc prints for cond.y must resolve the same way
			outAct := "?"
			for _, st := range states {
				for _, itx := range st.Items {
					if itx == "expr: "+it.name+" ." {
						a, ok := st.Actions[tokOf[la]]
						if !ok {
							a = st.Actions["."]
						}
						outAct = strings.Fields(a + " ?")[0]
					}
				}
			}
			if outAct != strings.Fields(gotAct)[0] {
				outAgree = false
				outDetail += fmt.Sprintf("after(%s) on %s: y.output %s, tables %s; ", it.name, tokOf[la], outAct, gotAct)
			}
		}
	}
	c.Min("automaton", 6)
	c.Check("regen-automaton", "y.output-agrees-with-tables", yf.Pos(), outAgree && len(states) > 5,
		"the LALR automaton goyacc prints for cond.y resolves operator conflicts differently from the committed tables: "+outDetail)

	// (4) exhaustive comparison up to a bound
	const maxSyms = 11
	enumStart := time.Now()
	alphabet := []struct {
		sym  byte
		toks []string
	}{{'a', atom}, {'&', []string{"LAND"}}, {'|', []string{"LOR"}}, {'!', []string{"NOT"}}, {'(', []string{"LPAREN"}}, {')', []string{"RPAREN"}}}
	var (
		programs, nontrivial, langDis, unmixedDis, mixedDis, mixedN, explained int
		firstLang, firstUnmixed, firstMixed                                    string
		samples                                                                []interface{}
		firstMixedLen, truthDis                                                int
	)
	swapped := append([]docOp(nil), ops...)
	for i := range swapped {
		switch swapped[i].Sym {
		case "&&":
			swapped[i].Prec = byS["||"].Prec
		case "||":
			swapped[i].Prec = byS["&&"].Prec
		}
	}
	truthEq := func(a, b *condTree, n int) bool {
		for as := uint(0); as < 1<<uint(n); as++ {
			x, ok1 := a.eval(as)
			y, ok2 := b.eval(as)
			if !ok1 || !ok2 || x != y {
				return false
			}
		}
		return true
	}
	var dfs func(prefix string, m *lrMachine)
	dfs = func(prefix string, m *lrMachine) {
		// complete?
		rv, rc := refViable(prefix)
		if m != nil {
			end := m.clone()
			acc := end.feed(0) == "accept" && end.result != nil
			if acc != (rv && rc) {
				langDis++
				if firstLang == "" {
					firstLang = fmt.Sprintf("`%s`: tables accept=%v, documented grammar accept=%v", symsToSource(prefix), acc, rv && rc)
				}
			} else if acc {
				programs++
				nops := strings.Count(prefix, "&") + strings.Count(prefix, "|") + strings.Count(prefix, "!")
				if nops >= 2 {
					nontrivial++
				}
				ref := refParse(ops, prefix)
				n := strings.Count(prefix, "a")
				agree := ref != nil && ref.shape() == end.result.shape() // equal shapes have equal truth tables
				if !agree && ref != nil && !truthEq(ref, end.result, n) {
					truthDis++
				}
				mixed := strings.Contains(prefix, "&") && strings.Contains(prefix, "|")
				if mixed {
					mixedN++
				}
				if !agree {
					if mixed {
						mixedDis++
						if sw := refParse(swapped, prefix); sw != nil && sw.shape() == end.result.shape() {
							explained++
						}
						if firstMixed == "" || len(prefix) < firstMixedLen {
							firstMixedLen = len(prefix)
							firstMixed = fmt.Sprintf("`%s` parses as %s, documented: %s", symsToSource(prefix), end.result.shape(), ref.shape())
						}
					} else {
						unmixedDis++
						if firstUnmixed == "" {
							firstUnmixed = fmt.Sprintf("`%s` parses as %s, documented: %s", symsToSource(prefix), end.result.shape(), ref.shape())
						}
					}
				}
				if len(samples) < 12 && (programs%97 == 5 || (!agree && len(samples) < 4)) {
					samples = append(samples, map[string]interface{}{"expression": symsToSource(prefix), "tables_parse": end.result.shape(), "documented_parse": ref.shape(), "agree": agree})
				}
			}
		} else if rv && rc {
			langDis++
			if firstLang == "" {
				firstLang = fmt.Sprintf("`%s`: rejected by the tables, accepted by the documented grammar", symsToSource(prefix))
			}
		}
		if len(prefix) >= maxSyms {
			return
		}
		for _, al := range alphabet {
			np := prefix + string(al.sym)
			var nm *lrMachine
			if m != nil {
				nm = m.clone()
				for _, t := range al.toks {
					if nm.feed(tokVal(t)) != "shift" {
						nm = nil
						break
					}
				}
			}
			nrv, _ := refViable(np)
			if nm == nil && !nrv {
				continue
			}
			if (nm != nil) != nrv {
				langDis++
				if firstLang == "" {
					firstLang = fmt.Sprintf("prefix `%s`: viable for the tables=%v, for the documented grammar=%v", symsToSource(np), nm != nil, nrv)
				}
				if nm == nil {
					continue
				}
			}
			dfs(np, nm)
		}
	}
	dfs("", newLR(yt, "cond", actions))
	c.Check("parse-agreement", "language", cxPosOf(actObj), langDis == 0 && programs > 1000,
		fmt.Sprintf("%d expressions compared; %d token strings are accepted by one of {committed tables, documented grammar} and not the other; first: %s", programs, langDis, firstLang))
	c.Check("parse-agreement", "unmixed", cxPosOf(actObj), unmixedDis == 0,
		fmt.Sprintf("%d expressions without a &&/|| mix parse differently from the documented grammar; first: %s", unmixedDis, firstUnmixed))
	c.Check("parse-agreement", "mixed-LAND-LOR", cxPosOf(actObj), mixedDis == 0 && mixedN > 100,
		fmt.Sprintf("%d of %d expressions that mix && and || without full parenthesisation get a different tree from the committed tables than from the documented precedence (%d of them are exactly the parse with && and || precedence swapped; %d also differ in truth value for some assignment of the primitives); first: %s", mixedDis, mixedN, explained, truthDis, firstMixed))
	c.Min("parse-agreement", 3)
	c.Note("exhaustive comparison: %d accepted expressions of <= %d symbols (%d with >= 2 operators, %d mixing && and ||), %d disagreements (%d explained by swapped &&/|| precedence), %d language differences; enumeration took %d ms", programs, maxSyms, nontrivial, mixedN, mixedDis+unmixedDis, explained, langDis, time.Since(enumStart).Milliseconds())
	c16ExtraOnce.Do(func() {
		if r := Get("C16"); r != nil {
			if len(samples) == 0 {
				samples = append(samples, "no expression enumerated")
			}
			r.Meta.Extra = map[string]interface{}{
				"programs":              programs,
				"disagreements_checked": mixedDis + unmixedDis + langDis,
				"samples":               samples,
				"evaluations":           programs,
				"distinct_nontrivial":   nontrivial,
				"exhaustive":            true,
				"bound":                 fmt.Sprintf("all token strings of <= %d symbols over {primitive call, &&, ||, !, (, )}", maxSyms),
				"trusted_base":          []string{"go/types", "go/packages", "golang.org/x/tools/go/ssa v0.29.0", "golang.org/x/tools/cmd/goyacc v0.29.0 (LALR construction and precedence resolution)", "the reference yacc driver and Pratt parser in /verif/internal/rules/x_cond.go, c16.go"},
			}
		}
	})

	c16Scanner(c, yt)
	c16Lex(c, yt)
	c16Build(c)
	c16Eval(c, yt)
}

func c16IsTableDecl(n string) bool {
	if !strings.HasPrefix(n, "var cond") {
		return false
	}
	s := strings.TrimPrefix(n, "var cond")
	for _, t := range yTableNames {
		if s == t {
			return true
		}
	}
	return false
}

func cxPosOf(o types.Object) token.Pos {
	if o == nil {
		return token.NoPos
	}
	return o.Pos()
}

// ---- (6) scanner and Lex -----------------------------------------------------------

// cxTokenEdges walks the phi web of v and returns, per constant token value, the
// predecessor blocks from which that constant flows (the block in which the
// assignment `tok = T` was the last one).
func cxTokenEdges(v ssa.Value) map[int64][]*ssa.BasicBlock {
	out := map[int64][]*ssa.BasicBlock{}
	seen := map[ssa.Value]bool{}
	var walk func(v ssa.Value, from *ssa.BasicBlock)
	walk = func(v ssa.Value, from *ssa.BasicBlock) {
		switch x := v.(type) {
		case *ssa.Phi:
			if seen[x] {
				return
			}
			seen[x] = true
			for i, e := range x.Edges {
				walk(e, x.Block().Preds[i])
			}
		case *ssa.Const:
			if n, ok := cxConstInt(x); ok && from != nil {
				out[n] = append(out[n], from)
			}
		}
	}
	walk(v, nil)
	return out
}

// cxCharTests returns the distinct branch conditions `<load of s.ch> == ch`
// that hold at b.
func cxCharTests(b *ssa.BasicBlock, ch rune) map[ssa.Value]bool {
	out := map[ssa.Value]bool{}
	isCh := func(v ssa.Value) bool { _, ok := cxLoadField(v, "ch"); return ok }
	isK := func(v ssa.Value) bool { n, ok := cxConstInt(v); return ok && n == int64(ch) }
	for _, g := range cxFactsAt(b) {
		// `s.ch == c` in any spelling: mirrored operands, `!(s.ch != c)`, the else branch of `s.ch != c`
		if g.CmpIs(token.EQL, isCh, isK) {
			out[g.Cond] = true
		}
	}
	return out
}

func c16Scanner(c *core.Ctx, yt *yTables) {
	scan := c.P.Func(condParse, "Scanner.Scan")
	if scan == nil {
		c.Missing(condParse + ".Scanner.Scan")
		return
	}
	c.Analysed(core.FuncKey(scan))
	rets := core.Returns(scan)
	if len(rets) == 0 {
		c.Missing(condParse + ".Scanner.Scan: return")
		return
	}
	edges := map[int64][]*ssa.BasicBlock{}
	for _, r := range rets {
		rv := core.RetVals(r)
		if len(rv) != 3 {
			continue
		}
		if k, ok := cxConstInt(rv[1]); ok {
			edges[k] = append(edges[k], r.Block())
		}
		for k, bs := range cxTokenEdges(rv[1]) {
			edges[k] = append(edges[k], bs...)
		}
	}
	type want struct {
		tok string
		ch  rune
		n   int
	}
	wants := []want{{"LAND", '&', 2}, {"LOR", '|', 2}, {"NOT", '!', 1}, {"LPAREN", '(', 1}, {"RPAREN", ')', 1}}
	for _, w := range wants {
		val, okc := yt.Consts[w.tok]
		bs := edges[int64(val)]
		ok := okc && len(bs) > 0
		detail := ""
		for _, b := range bs {
			if n := len(cxCharTests(b, w.ch)); n < w.n {
				ok = false
				detail += fmt.Sprintf("an assignment of %s is reached with %d test(s) of the current character against %q (need %d); guards: %s; ", w.tok, n, w.ch, w.n, cxTrim(strings.Join(core.GuardStrs(b), " && "), 300))
			}
		}
		if len(bs) == 0 {
			detail = "Scan never yields " + w.tok
		}
		// conversely: no other token is produced under the same character tests
		for k, obs := range edges {
			if k == int64(val) {
				continue
			}
			for _, b := range obs {
				if len(cxCharTests(b, w.ch)) >= w.n && w.n == 2 {
					ok = false
					detail += fmt.Sprintf("token value %d is produced after %d tests against %q, where %s is expected; ", k, w.n, w.ch, w.tok)
				}
				if w.n == 1 && len(cxCharTests(b, w.ch)) >= 1 {
					ok = false
					detail += fmt.Sprintf("token value %d is produced for character %q, where %s is expected; ", k, w.ch, w.tok)
				}
			}
		}
		c.Check("scanner", w.tok, scan.Pos(), ok, "Scanner.Scan: "+detail)
	}
	c.Min("scanner", 5)
}

func c16Lex(c *core.Ctx, yt *yTables) {
	lex := c.P.Func(condParse, "condLex.Lex")
	if lex == nil {
		c.Missing(condParse + ".condLex.Lex")
		return
	}
	c.Analysed(core.FuncKey(lex))
	// the token scanned
	var scanned ssa.Value
	for _, call := range core.Calls(lex, condParse+".Scanner.Scan") {
		if v, ok := call.(*ssa.Call); ok && v.Referrers() != nil {
			for _, r := range *v.Referrers() {
				if ex, ok := r.(*ssa.Extract); ok && ex.Index == 1 {
					scanned = ex
				}
			}
		}
	}
	if scanned == nil {
		c.Missing(condParse + ".condLex.Lex: the token returned by Scanner.Scan")
		return
	}
	for _, t := range []string{"LAND", "LOR", "NOT", "LPAREN", "RPAREN"} {
		val := int64(yt.Consts[t])
		// every return reached under `tok == T` returns tok itself (or the same constant)
		n, ok, detail := 0, true, ""
		for _, r := range core.Returns(lex) {
			for _, p := range append([]*ssa.BasicBlock{nil}, r.Block().Preds...) {
				var gs []core.Guard
				if p == nil {
					gs = core.GuardsAt(r.Block())
				} else {
					gs = core.GuardsOnEdge(p, r.Block())
				}
				hit := false
				for _, g := range cxExpand(gs) {
					if g.CmpIs(token.EQL, func(v ssa.Value) bool { return v == scanned }, func(v ssa.Value) bool { k, isk := cxConstInt(v); return isk && k == val }) {
						hit = true
					}
				}
				if !hit {
					continue
				}
				n++
				rv := core.RetVals(r)[0]
				if k, isk := cxConstInt(rv); isk {
					if k != val {
						ok = false
						detail = fmt.Sprintf("returns the constant %d when the scanner produced %s (%d)", k, t, val)
					}
				} else if core.StripConv(rv) != scanned {
					ok = false
					detail = "returns " + core.Render(rv) + " when the scanner produced " + t
				}
			}
		}
		if n == 0 {
			ok = false
			detail = "no return is controlled by tok == " + t + ": the token is not passed to the parser"
		}
		c.Check("lex", t, lex.Pos(), ok, "condLex.Lex "+detail)
	}
	c.Min("lex", 5)
	// Parser.Parse: runs condParse on the lexer and stores parseNode as the result
	if fn := c.P.Func(condParse, "Parser.Parse"); fn == nil {
		c.Missing(condParse + ".Parser.Parse")
	} else {
		c.Analysed(core.FuncKey(fn))
		calls := core.Calls(fn, condParse+".condParse")
		stored := false
		core.Instrs(fn, func(in ssa.Instruction) {
			if st, ok := in.(*ssa.Store); ok && core.Render(st.Addr) == cxP(fn, 0)+".ast" && core.Render(st.Val) == "parser.parseNode" {
				stored = len(calls) > 0 && core.Dominates(calls[0].(ssa.Instruction), st)
			}
		})
		c.Check("lex", "Parser.Parse:result", fn.Pos(), stored, "Parser.Parse must run condParse and then take the tree from parseNode (set by the top production)")
	}
}

// ---- (7) build -------------------------------------------------------------------

// c16Dispatcher finds the function that dispatches on the dynamic type of the
// parse tree: starting from the tree handed out by parser.Parse in Build, follow
// the value through calls of functions of the package until a function applies
// type assertions to it. The function is identified by that role, not by name.
func c16Dispatcher(c *core.Ctx, build *ssa.Function) (*ssa.Function, *ssa.Parameter, ssa.CallInstruction) {
	var node ssa.Value
	for _, g := range c.P.Region(build) {
		for _, call := range core.Calls(g, condParse+".Parse") {
			if v, ok := call.(*ssa.Call); ok && v.Referrers() != nil {
				for _, r := range *v.Referrers() {
					if ex, ok := r.(*ssa.Extract); ok && ex.Index == 0 {
						node = ex
					}
				}
			}
		}
	}
	if node == nil {
		return nil, nil, nil
	}
	var first ssa.CallInstruction
	seen := map[ssa.Value]bool{}
	var follow func(v ssa.Value, depth int) (*ssa.Function, *ssa.Parameter)
	follow = func(v ssa.Value, depth int) (*ssa.Function, *ssa.Parameter) {
		if v.Referrers() == nil || depth > 4 || seen[v] {
			return nil, nil
		}
		seen[v] = true
		for _, r := range *v.Referrers() {
			switch x := r.(type) {
			case *ssa.TypeAssert:
				if p, ok := v.(*ssa.Parameter); ok && strings.Contains(core.TypeStr(x.AssertedType), condParse+".") {
					return p.Parent(), p
				}
			case *ssa.ChangeInterface, *ssa.MakeInterface, *ssa.ChangeType, *ssa.Phi:
				if f, p := follow(x.(ssa.Value), depth); f != nil {
					return f, p
				}
			case ssa.CallInstruction:
				h := x.Common().StaticCallee()
				if h == nil || h.Blocks == nil || core.FuncPkgRel(h) != condPkg {
					continue
				}
				for i, a := range x.Common().Args {
					if a == v && i < len(h.Params) {
						if depth == 0 && first == nil {
							first = x
						}
						if f, p := follow(h.Params[i], depth+1); f != nil {
							return f, p
						}
					}
				}
			}
		}
		return nil, nil
	}
	f, p := follow(node, 0)
	return f, p, first
}

// c16Origin is one value a builder function can hand back as the condition
// built for a node: an allocation, the result of a recursive call of the
// dispatcher, the result of a call of another function, or anything else.
type c16Origin struct {
	v    ssa.Value // the value (conversions stripped)
	bind cxBind    // parameter binding of the frame v lives in
	call *ssa.Call // when v is result #0 of a call that is not expanded
}

// c16Origins resolves the success results of fn restricted to the returns for
// which inArm holds: a return (x, nil) yields x; x that is the first result of
// a call of a private function of the package is replaced by that function's
// success results (depth <= 3); `return f(…)` is the same with f's results.
func c16Origins(c *core.Ctx, fn *ssa.Function, bind cxBind, inArm func(*ssa.Return) bool, disp *ssa.Function, depth int) (out []c16Origin, nRet int) {
	var ofValue func(v ssa.Value, bind cxBind, depth int) []c16Origin
	ofValue = func(v ssa.Value, bind cxBind, depth int) []c16Origin {
		v = core.StripConv(v)
		if p, ok := v.(*ssa.Parameter); ok {
			if a, bound := bind[p]; bound {
				v = a
			}
		}
		if phi, ok := v.(*ssa.Phi); ok {
			var r []c16Origin
			for _, e := range phi.Edges {
				r = append(r, ofValue(e, bind, depth)...)
			}
			return r
		}
		var call *ssa.Call
		switch x := v.(type) {
		case *ssa.Extract:
			if x.Index == 0 {
				call, _ = x.Tuple.(*ssa.Call)
			}
		case *ssa.Call:
			if x.Call.Signature().Results().Len() == 1 {
				call = x
			}
		}
		if call == nil {
			return []c16Origin{{v: v, bind: bind}}
		}
		h := call.Call.StaticCallee()
		if h == nil || h == disp || h.Blocks == nil || core.FuncPkgRel(h) != condPkg || depth >= 3 || h.Object() == nil || h.Object().Exported() || h.Name() == "buildPrimitive" {
			return []c16Origin{{v: v, bind: bind, call: call}}
		}
		sub, _ := c16Origins(c, h, bind.enter(h, &call.Call), nil, disp, depth+1)
		return sub
	}
	for _, r := range core.Returns(fn) {
		if inArm != nil && !inArm(r) {
			continue
		}
		rv := core.RetVals(r)
		if len(rv) == 1 { // a helper that only constructs: every return hands back its value
			nRet++
			out = append(out, ofValue(rv[0], bind, depth)...)
			continue
		}
		if len(rv) != 2 {
			continue
		}
		if isNilConst(rv[1]) {
			nRet++
			out = append(out, ofValue(rv[0], bind, depth)...)
			continue
		}
		// tail call: return f(…)
		e0, ok0 := rv[0].(*ssa.Extract)
		e1, ok1 := rv[1].(*ssa.Extract)
		if ok0 && ok1 && e0.Tuple == e1.Tuple && e0.Index == 0 && e1.Index == 1 {
			nRet++
			out = append(out, ofValue(e0, bind, depth)...)
		}
	}
	return out, nRet
}

// c16IsBuildOf: v is result #0 of disp(<node>.<field>) where <node> resolves to want.
func c16IsBuildOf(v ssa.Value, bind cxBind, disp *ssa.Function, nodeParam *ssa.Parameter, want ssa.Value, field string) bool {
	ex, ok := bind.resolve(v).(*ssa.Extract)
	if !ok || ex.Index != 0 {
		return false
	}
	call, ok := ex.Tuple.(*ssa.Call)
	if !ok || call.Call.StaticCallee() != disp {
		return false
	}
	idx := -1
	for i, p := range disp.Params {
		if p == nodeParam {
			idx = i
		}
	}
	if idx < 0 || idx >= len(call.Call.Args) {
		return false
	}
	base, ok := cxLoadField(call.Call.Args[idx], field)
	return ok && bind.resolve(base) == want
}

func c16Build(c *core.Ctx) {
	build := c.P.Func(condPkg, "Build")
	if build == nil {
		c.Missing(condPkg + ".Build")
		return
	}
	disp, nodeParam, _ := c16Dispatcher(c, build)
	if disp == nil {
		c.Missing(condPkg + ": the function that dispatches on the type of the tree returned by parser.Parse (build)")
		return
	}
	c.Analysed(core.FuncKey(build), core.FuncKey(disp))
	// the arms: comma-ok type assertions of the node
	type arm struct {
		val ssa.Value // the node with its asserted type
		ok  ssa.Value
	}
	arms := map[string]arm{}
	if nodeParam.Referrers() != nil {
		for _, r := range *nodeParam.Referrers() {
			ta, isTA := r.(*ssa.TypeAssert)
			if !isTA || !ta.CommaOk || ta.Referrers() == nil {
				continue
			}
			tn := cxNamedElem(ta.AssertedType)
			var a arm
			for _, u := range *ta.Referrers() {
				if ex, ok := u.(*ssa.Extract); ok {
					if ex.Index == 0 {
						a.val = ex
					} else {
						a.ok = ex
					}
				}
			}
			if a.ok != nil {
				arms[tn] = a
			}
		}
	}
	inArm := func(a arm) func(*ssa.Return) bool {
		return func(r *ssa.Return) bool {
			return cxAllEdgesFact(r.Block(), func(g core.Guard) bool { return g.Cond == a.ok && g.Pol })
		}
	}
	describe := func(os []c16Origin) string {
		var s []string
		for _, o := range os {
			s = append(s, cxTrim(core.Render(o.v), 80))
		}
		return strings.Join(s, " | ")
	}
	// composite nodes: the arm yields exactly the composite condition built from the node's own parts
	type fieldWant struct{ field, from string }
	composite := func(tn, condType, keyName string, fields []fieldWant) {
		a, has := arms[tn]
		if !has || a.val == nil {
			c.Check("build", "build:"+tn, disp.Pos(), false, core.FuncKey(disp)+" has no arm for *parser."+tn)
			return
		}
		origins, nRet := c16Origins(c, disp, cxBind{}, inArm(a), disp, 0)
		okDisp := nRet > 0 && len(origins) > 0
		fieldOK := map[string]bool{}
		fieldGot := map[string]string{}
		for _, f := range fields {
			fieldOK[f.field] = len(origins) > 0
		}
		for _, o := range origins {
			al, isAlloc := o.v.(*ssa.Alloc)
			if !isAlloc || cxNamedElem(al.Type()) != condType {
				okDisp = false
				continue
			}
			c.Analysed(core.FuncKey(al.Parent()))
			stores := cxAllocFieldStores(al)
			for _, f := range fields {
				vs := stores[f.field]
				if len(vs) == 0 {
					fieldOK[f.field] = false
				}
				for _, v := range vs {
					fieldGot[f.field] += cxTrim(core.Render(v), 80) + " "
					good := false
					if f.from == "Op" {
						base, ok := cxLoadField(v, "Op")
						good = ok && o.bind.resolve(base) == a.val
					} else {
						good = c16IsBuildOf(v, o.bind, disp, nodeParam, a.val, f.from)
					}
					if !good {
						fieldOK[f.field] = false
					}
				}
			}
		}
		c.Check("build", "build:"+tn, disp.Pos(), okDisp, fmt.Sprintf("for a *parser.%s the builder yields {%s} (%d success returns); expected on every success path the %s built from that node", tn, describe(origins), nRet, condType))
		c.Check("build", keyName+":success-returns", disp.Pos(), okDisp, fmt.Sprintf("a success return for *parser.%s hands back %s instead of the %s built from the node's operands", tn, describe(origins), condType))
		for _, f := range fields {
			want := "node." + f.from
			if f.from != "Op" {
				want = "the condition built from node." + f.from
			}
			c.Check("build", keyName+":"+f.field, disp.Pos(), fieldOK[f.field], fmt.Sprintf("%s.%s is built from %s; expected %s (of the same node)", condType, f.field, fieldGot[f.field], want))
		}
	}
	composite("BinaryExpr", "BinaryCond", "buildBinary", []fieldWant{{"op", "Op"}, {"lc", "X"}, {"rc", "Y"}})
	composite("UnaryExpr", "UnaryCond", "buildUnary", []fieldWant{{"op", "Op"}, {"cond", "X"}})
	// ParenExpr: the condition of the inner expression; CallExpr: buildPrimitive of the node
	if a, has := arms["ParenExpr"]; !has || a.val == nil {
		c.Check("build", "build:ParenExpr", disp.Pos(), false, core.FuncKey(disp)+" has no arm for *parser.ParenExpr")
	} else {
		origins, nRet := c16Origins(c, disp, cxBind{}, inArm(a), disp, 0)
		ok := nRet > 0 && len(origins) > 0
		for _, o := range origins {
			if !c16IsBuildOf(o.v, o.bind, disp, nodeParam, a.val, "X") {
				ok = false
			}
		}
		c.Check("build", "build:ParenExpr", disp.Pos(), ok, fmt.Sprintf("for a *parser.ParenExpr the builder yields {%s}; expected the condition built from its X", describe(origins)))
	}
	if a, has := arms["CallExpr"]; !has || a.val == nil {
		c.Check("build", "build:CallExpr", disp.Pos(), false, core.FuncKey(disp)+" has no arm for *parser.CallExpr")
	} else {
		origins, nRet := c16Origins(c, disp, cxBind{}, inArm(a), disp, 0)
		ok := nRet > 0 && len(origins) > 0
		for _, o := range origins {
			good := o.call != nil && core.CallIs(&o.call.Call, condPkg+".buildPrimitive") && len(o.call.Call.Args) == 1 && o.bind.resolve(o.call.Call.Args[0]) == a.val
			if !good {
				ok = false
			}
		}
		c.Check("build", "build:CallExpr", disp.Pos(), ok, fmt.Sprintf("for a *parser.CallExpr the builder yields {%s}; expected buildPrimitive of the node itself", describe(origins)))
	}
	c.Min("build", 11)
}

// ---- (8) evaluation ---------------------------------------------------------------

// cxShortCircuit recognises the SSA of `L && R` / `L || R`: a two-edge phi with
// one boolean constant edge coming straight from the block that branches on L.
func cxShortCircuit(v ssa.Value) (op string, l, r ssa.Value) {
	phi, ok := v.(*ssa.Phi)
	if !ok || len(phi.Edges) != 2 {
		return "", nil, nil
	}
	for i, e := range phi.Edges {
		k, ok := e.(*ssa.Const)
		if !ok || k.Value == nil {
			continue
		}
		pred := phi.Block().Preds[i]
		ifi, ok := pred.Instrs[len(pred.Instrs)-1].(*ssa.If)
		if !ok {
			continue
		}
		other := phi.Edges[1-i]
		constTrue := k.Value.ExactString() == "true"
		// && : the false edge of L jumps to the join with constant false
		if !constTrue && pred.Succs[1] == phi.Block() {
			return "&&", ifi.Cond, other
		}
		if constTrue && pred.Succs[0] == phi.Block() {
			return "||", ifi.Cond, other
		}
	}
	return "", nil, nil
}

// c16MatchTable evaluates a Match method of a composite condition on abstract
// inputs: the operator stored in the receiver and the truth values of the
// operand conditions (field name -> value of <recv>.<field>.Match(req)).
// Switches, if-chains, short-circuit operators, early returns, named booleans
// and private helpers all evaluate to the same result.
func c16MatchTable(fn *ssa.Function, op int64, operands map[string]bool) (result, ok bool, why string) {
	it := &cxInterp{NonNil: true}
	it.Oracle = func(it *cxInterp, fr *cxFrame, v ssa.Value) (cxVal, bool) {
		switch x := v.(type) {
		case *ssa.UnOp:
			if x.Op == token.MUL {
				if k, isSym := cxSymKey(it.get(fr, x.X)); isSym && k == "&recv.op" {
					return op, true
				}
			}
		case *ssa.Call:
			if x.Call.IsInvoke() && x.Call.Method.Name() == "Match" && len(x.Call.Args) == 1 {
				rk, ok1 := cxSymKey(it.get(fr, x.Call.Value))
				ak, ok2 := cxSymKey(it.get(fr, x.Call.Args[0]))
				if ok1 && ok2 && ak == "req" && strings.HasPrefix(rk, "recv.") {
					if b, known := operands[strings.TrimPrefix(rk, "recv.")]; known {
						return b, true
					}
				}
				return nil, true
			}
		}
		return nil, false
	}
	res, done := it.Run(fn, []cxVal{cxSym{"recv"}, cxSym{"req"}})
	if !done || len(res) != 1 {
		return false, false, it.Why
	}
	b, isBool := res[0].(bool)
	if !isBool {
		return false, false, "the result is not determined by the operator and the operands' truth values"
	}
	return b, true, ""
}

func c16Eval(c *core.Ctx, yt *yTables) {
	tv := func(b bool) string {
		if b {
			return "T"
		}
		return "F"
	}
	bm := c.P.Func(condPkg, "BinaryCond.Match")
	if bm == nil {
		c.Missing(condPkg + ".BinaryCond.Match")
	} else {
		c.Analysed(core.FuncKey(bm))
		for _, w := range []struct{ tok, op string }{{"LAND", "&&"}, {"LOR", "||"}} {
			ok, detail := true, ""
			for _, l := range []bool{false, true} {
				for _, r := range []bool{false, true} {
					want := l && r
					if w.op == "||" {
						want = l || r
					}
					got, decided, why := c16MatchTable(bm, int64(yt.Consts[w.tok]), map[string]bool{"lc": l, "rc": r})
					switch {
					case !decided:
						ok = false
						detail += fmt.Sprintf("lc=%s rc=%s: undecided (%s); ", tv(l), tv(r), why)
					case got != want:
						ok = false
						detail += fmt.Sprintf("lc=%s rc=%s: returns %s; ", tv(l), tv(r), tv(got))
					}
				}
			}
			c.Check("eval", "BinaryCond.Match:"+w.tok, bm.Pos(), ok, "BinaryCond.Match under op == "+w.tok+": "+detail+"expected lc.Match(req) "+w.op+" rc.Match(req)")
		}
		// any other operator value: false
		okDef, detail := true, ""
		for _, other := range []int64{int64(yt.Consts["NOT"]), 0, 1 << 20} {
			for _, l := range []bool{false, true} {
				for _, r := range []bool{false, true} {
					got, decided, why := c16MatchTable(bm, other, map[string]bool{"lc": l, "rc": r})
					if !decided || got {
						okDef = false
						detail = fmt.Sprintf("op=%d lc=%s rc=%s: %s %s", other, tv(l), tv(r), tv(got), why)
					}
				}
			}
		}
		c.Check("eval", "BinaryCond.Match:other-op", bm.Pos(), okDef, "BinaryCond.Match returns something other than false for an operator that is neither LAND nor LOR ("+detail+")")
	}
	um := c.P.Func(condPkg, "UnaryCond.Match")
	if um == nil {
		c.Missing(condPkg + ".UnaryCond.Match")
	} else {
		c.Analysed(core.FuncKey(um))
		ok, detail := true, ""
		for _, v := range []bool{false, true} {
			got, decided, why := c16MatchTable(um, int64(yt.Consts["NOT"]), map[string]bool{"cond": v})
			switch {
			case !decided:
				ok = false
				detail += fmt.Sprintf("cond=%s: undecided (%s); ", tv(v), why)
			case got != !v:
				ok = false
				detail += fmt.Sprintf("cond=%s: returns %s; ", tv(v), tv(got))
			}
		}
		c.Check("eval", "UnaryCond.Match:NOT", um.Pos(), ok, "UnaryCond.Match under op == NOT: "+detail+"expected !cond.Match(req)")
	}
	c.Min("eval", 4)
}
