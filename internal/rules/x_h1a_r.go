package rules

// Robustness helpers of the HTTP/1 rules (C23, C24, C25): the rules must give
// the same verdict on behaviour-preserving refactorings of the code they
// inspect. This file provides
//   - a per-program index of static call sites / functions used as values, and
//     the notion of a *private helper* (unexported, same package, one static
//     call site, never used as a value): extracting such a helper from an
//     anchored function or inlining it back does not change behaviour;
//   - cross-frame value resolution (a parameter of a private helper is the
//     argument at its call site), used by the structural matchers;
//   - regions (anchor + private helpers, not descending into other anchors);
//   - event paths: the feasible paths of a function with the calls of its
//     private helpers expanded in place, phis resolved to the incoming value
//     of the edge taken and results of expanded calls resolved to the value
//     returned on the expanded path, so that path rules do not depend on how
//     the code is cut into helpers or on boolean values being named.

import (
	"go/token"
	"go/types"
	"strings"
	"sync"

	"golang.org/x/tools/go/ssa"

	"verif/internal/core"
)

// ---------------------------------------------------------------- program index

type h1rInfo struct {
	p       *core.Prog
	refs    int
	once    sync.Once
	sites   map[*ssa.Function][]ssa.CallInstruction
	taken   map[*ssa.Function]bool
	opaque  map[*ssa.Function]bool // anchors: never treated as private helpers
	fx      *h1aFacts
	busyRes map[*ssa.Call]bool
}

var (
	h1rMu  sync.Mutex
	h1rMap = map[*ssa.Program]*h1rInfo{}
)

// h1rRegister makes the program known to the context-free helpers of this
// file (they find it through fn.Prog); the returned function releases it.
func h1rRegister(p *core.Prog) func() {
	if p == nil || p.SSA == nil {
		return func() {}
	}
	h1rMu.Lock()
	inf := h1rMap[p.SSA]
	if inf == nil {
		inf = &h1rInfo{p: p, opaque: map[*ssa.Function]bool{}}
		h1rMap[p.SSA] = inf
	}
	inf.refs++
	h1rMu.Unlock()
	return func() {
		h1rMu.Lock()
		inf.refs--
		if inf.refs <= 0 {
			delete(h1rMap, p.SSA)
		}
		h1rMu.Unlock()
	}
}

// h1rAnchors marks the named functions of package rel as anchors of the
// running property: they are analysed under their own name and therefore are
// neither expanded into their callers nor given their callers' context.
func h1rAnchors(p *core.Prog, rel string, names ...string) {
	h1rMu.Lock()
	inf := h1rMap[p.SSA]
	h1rMu.Unlock()
	if inf == nil {
		return
	}
	for _, n := range names {
		if fn := p.Func(rel, n); fn != nil {
			h1rMu.Lock()
			inf.opaque[fn] = true
			h1rMu.Unlock()
		}
	}
}

func h1rInfoOf(fn *ssa.Function) *h1rInfo {
	if fn == nil || fn.Prog == nil {
		return nil
	}
	h1rMu.Lock()
	inf := h1rMap[fn.Prog]
	h1rMu.Unlock()
	if inf == nil {
		return nil
	}
	inf.once.Do(func() {
		inf.sites = map[*ssa.Function][]ssa.CallInstruction{}
		inf.taken = map[*ssa.Function]bool{}
		for _, f := range inf.p.SrcFuncs("") {
			core.Instrs(f, func(in ssa.Instruction) {
				var callee ssa.Value
				if ci, ok := in.(ssa.CallInstruction); ok {
					if sc := ci.Common().StaticCallee(); sc != nil {
						inf.sites[sc] = append(inf.sites[sc], ci)
					}
					if !ci.Common().IsInvoke() {
						callee = ci.Common().Value
					}
				}
				if _, isMC := in.(*ssa.MakeClosure); isMC {
					return
				}
				for _, op := range in.Operands(nil) {
					if op == nil || *op == nil {
						continue
					}
					if g, ok := (*op).(*ssa.Function); ok && callee != ssa.Value(g) {
						inf.taken[g] = true
					}
				}
			})
		}
	})
	return inf
}

func h1rIsOpaque(fn *ssa.Function) bool {
	inf := h1rInfoOf(fn)
	if inf == nil {
		return true
	}
	h1rMu.Lock()
	defer h1rMu.Unlock()
	return inf.opaque[fn]
}

// h1rSites returns the static call sites of fn in the module.
func h1rSites(fn *ssa.Function) []ssa.CallInstruction {
	inf := h1rInfoOf(fn)
	if inf == nil {
		return nil
	}
	return inf.sites[fn]
}

// h1rIsHelperLike: an unexported, named function with a body that is never
// used as a value and is not an anchor of the running property.
func h1rIsHelperLike(fn *ssa.Function) bool {
	if fn == nil || fn.Blocks == nil || fn.Parent() != nil {
		return false
	}
	o := fn.Object()
	if o == nil || o.Exported() {
		return false
	}
	inf := h1rInfoOf(fn)
	if inf == nil || inf.taken[fn] {
		return false
	}
	return !h1rIsOpaque(fn)
}

// h1rPrivateSite returns the single static call site of fn when fn is a
// private helper (see the file comment), nil otherwise. An anonymous function
// whose closure value is used only by one call / defer is private as well.
func h1rPrivateSite(fn *ssa.Function) ssa.CallInstruction {
	if fn == nil || fn.Blocks == nil {
		return nil
	}
	if fn.Parent() != nil {
		var site ssa.CallInstruction
		n := 0
		core.Instrs(fn.Parent(), func(in ssa.Instruction) {
			mc, ok := in.(*ssa.MakeClosure)
			if !ok || mc.Fn != ssa.Value(fn) {
				return
			}
			n++
			if refs := mc.Referrers(); refs != nil && len(*refs) == 1 {
				if ci, ok := (*refs)[0].(ssa.CallInstruction); ok && ci.Common().Value == ssa.Value(mc) {
					if _, isGo := ci.(*ssa.Go); !isGo {
						site = ci
					}
				}
			}
		})
		if n == 1 {
			return site
		}
		return nil
	}
	if !h1rIsHelperLike(fn) {
		return nil
	}
	s := h1rSites(fn)
	if len(s) != 1 || s[0].Parent() == fn {
		return nil
	}
	if _, isGo := s[0].(*ssa.Go); isGo {
		return nil
	}
	if root := s[0].Parent(); root == nil || core.FuncPkgRel(root) != core.FuncPkgRel(fn) {
		return nil
	}
	return s[0]
}

// h1aRes is h1aResolve across call boundaries: a parameter of a private
// helper denotes the argument at its call site (and a free variable of a
// private closure its binding).
func h1aRes(v ssa.Value) ssa.Value {
	for i := 0; i < 12; i++ {
		v = h1aResolve(v)
		switch x := v.(type) {
		case *ssa.Parameter:
			fn := x.Parent()
			site := h1rPrivateSite(fn)
			if site == nil {
				return v
			}
			idx := -1
			for j, q := range fn.Params {
				if q == x {
					idx = j
				}
			}
			args := site.Common().Args
			if idx < 0 || idx >= len(args) {
				return v
			}
			v = args[idx]
		case *ssa.Call, *ssa.Extract:
			call, idx := h1rCallResult(v)
			if call == nil {
				return v
			}
			r := h1rResultVal(call, idx)
			if r == nil {
				return v
			}
			v = r
		default:
			return v
		}
	}
	return v
}

// h1rResultVal: result #idx of a call of a helper of the package (unexported,
// not an anchor) is the value X when every return of the helper that matters
// returns X at that position; returns on which the helper's error result is
// certainly non-nil do not matter for the other results.
func h1rResultVal(call *ssa.Call, idx int) ssa.Value {
	h := h1rFactHelper(call)
	if h == nil || h1rIsOpaque(h) {
		return nil
	}
	inf := h1rInfoOf(h)
	if inf == nil || inf.busyRes[call] {
		return nil
	}
	if inf.busyRes == nil {
		inf.busyRes = map[*ssa.Call]bool{}
	}
	if inf.fx == nil {
		inf.fx = h1aNewFacts()
	}
	inf.busyRes[call] = true
	defer delete(inf.busyRes, call)
	res := h.Signature.Results()
	last := res.Len() - 1
	if idx > last {
		return nil
	}
	// verdicts (bool / error results) are handled by the facts, not as values
	if b, ok := res.At(idx).Type().Underlying().(*types.Basic); ok && b.Kind() == types.Bool {
		return nil
	}
	if h1rIsErrorType(res.At(idx).Type()) {
		return nil
	}
	errLast := last >= 0 && h1rIsErrorType(res.At(last).Type())
	var cand ssa.Value
	for _, r := range core.Returns(h) {
		rv := core.RetVals(r)
		if idx >= len(rv) {
			return nil
		}
		if errLast && idx != last && h1aNonNilErr(rv[last], inf.fx.At(r.Block()), nil) {
			continue
		}
		x := h1aRes(rv[idx])
		if cand == nil {
			cand = x
		} else if cand != x {
			return nil
		}
	}
	if _, isK := cand.(*ssa.Const); isK {
		return nil
	}
	return cand
}

// h1aResConv is h1aRes that also looks through conversions.
func h1aResConv(v ssa.Value) ssa.Value {
	for i := 0; i < 8; i++ {
		w := h1aRes(core.StripConv(v))
		if w == v {
			return v
		}
		v = w
	}
	return v
}

// ---------------------------------------------------------------- regions

// h1rRegion returns fn (with its closures) followed by its private helpers:
// helper-like functions of the same package reached through static calls from
// the region (depth <= 4) whose every static call site lies inside the region.
// Anchors of the running property are not entered.
func h1rRegion(fn *ssa.Function) []*ssa.Function {
	if fn == nil {
		return nil
	}
	in := map[*ssa.Function]bool{}
	var out []*ssa.Function
	add := func(f *ssa.Function) {
		for _, g := range core.WithClosures(f) {
			if !in[g] {
				in[g] = true
				out = append(out, g)
			}
		}
	}
	add(fn)
	for depth := 0; depth < 4; depth++ {
		grew := false
		for _, f := range append([]*ssa.Function(nil), out...) {
			core.Instrs(f, func(x ssa.Instruction) {
				ci, ok := x.(ssa.CallInstruction)
				if !ok {
					return
				}
				h := ci.Common().StaticCallee()
				if h == nil || in[h] || !h1rIsHelperLike(h) || core.FuncPkgRel(h) != core.FuncPkgRel(fn) {
					return
				}
				for _, s := range h1rSites(h) {
					if !in[s.Parent()] {
						return
					}
				}
				add(h)
				grew = true
			})
		}
		if !grew {
			break
		}
	}
	return out
}

// h1rRegionCalls lists the calls of fn's region whose callee matches names.
func h1rRegionCalls(fn *ssa.Function, names ...string) []ssa.CallInstruction {
	var out []ssa.CallInstruction
	for _, g := range h1rRegion(fn) {
		out = append(out, core.Calls(g, names...)...)
	}
	return out
}

// h1rRegionAllCalls lists every call instruction of fn's region.
func h1rRegionAllCalls(fn *ssa.Function) []ssa.CallInstruction {
	var out []ssa.CallInstruction
	for _, g := range h1rRegion(fn) {
		out = append(out, core.AllCalls(g)...)
	}
	return out
}

// h1rRegionInstrs calls f for every instruction of fn's region.
func h1rRegionInstrs(fn *ssa.Function, f func(ssa.Instruction)) {
	for _, g := range h1rRegion(fn) {
		core.Instrs(g, f)
	}
}

// h1rRegionReturns lists the returns of the anchor itself (returns of helpers
// and closures are not exits of the anchored function).
func h1rInRegion(fn *ssa.Function, g *ssa.Function) bool {
	for _, x := range h1rRegion(fn) {
		if x == g {
			return true
		}
	}
	return false
}

// h1rReturns lists the returns of fn, where a return that merely hands on all
// results of a call of a private helper (`return helper(x)`) is replaced by the
// returns of that helper: the exits of the anchored function, wherever the
// tail of its body lives. Facts at a helper's return include those of the call
// site, values are compared across frames by h1aRes.
func h1rReturns(fn *ssa.Function) []*ssa.Return { return h1rReturnsD(fn, 0) }

func h1rReturnsD(fn *ssa.Function, d int) []*ssa.Return {
	var out []*ssa.Return
	for _, r := range core.Returns(fn) {
		if d < 3 {
			if h := h1rTailCallee(r); h != nil {
				out = append(out, h1rReturnsD(h, d+1)...)
				continue
			}
		}
		out = append(out, r)
	}
	return out
}

func h1rTailCallee(r *ssa.Return) *ssa.Function {
	rv := core.RetVals(r)
	if len(rv) == 0 {
		return nil
	}
	var call *ssa.Call
	for i, v := range rv {
		c, idx := h1rCallResult(v)
		if c == nil || idx != i || (call != nil && c != call) {
			return nil
		}
		call = c
	}
	if len(rv) != call.Call.Signature().Results().Len() {
		return nil
	}
	h := call.Call.StaticCallee()
	if h == nil {
		return nil
	}
	if site := h1rPrivateSite(h); site == nil || site != ssa.CallInstruction(call) {
		return nil
	}
	return h
}

// h1rPointsInto: v is the object pointer obj itself or an address computed
// from it (field / element / slice of an addressed part) without a load: a
// callee that receives it can store into the object.
func h1rPointsInto(v ssa.Value, obj ssa.Value) bool {
	for i := 0; i < 16; i++ {
		v = core.StripConv(v)
		switch x := v.(type) {
		case *ssa.FieldAddr:
			v = x.X
			continue
		case *ssa.IndexAddr:
			v = x.X
			continue
		case *ssa.Slice:
			v = x.X
			continue
		}
		break
	}
	return h1aRes(v) == obj
}

// h1rClosure returns fn and the helper-like functions of its package reachable
// from it through static calls (depth <= 3), whatever their other call sites:
// the code that may run on behalf of fn (census rules).
func h1rClosure(fn *ssa.Function) []*ssa.Function {
	if fn == nil {
		return nil
	}
	in := map[*ssa.Function]bool{}
	var out []*ssa.Function
	var walk func(f *ssa.Function, d int)
	walk = func(f *ssa.Function, d int) {
		for _, g := range core.WithClosures(f) {
			if in[g] {
				continue
			}
			in[g] = true
			out = append(out, g)
			if d == 0 {
				continue
			}
			core.Instrs(g, func(x ssa.Instruction) {
				ci, ok := x.(ssa.CallInstruction)
				if !ok {
					return
				}
				h := ci.Common().StaticCallee()
				if h != nil && !in[h] && h1rIsHelperLike(h) && core.FuncPkgRel(h) == core.FuncPkgRel(fn) {
					walk(h, d-1)
				}
			})
		}
	}
	walk(fn, 3)
	return out
}

// h1rLift returns the instruction of target that stands for in: in itself when
// it lies in target (or a closure of it), otherwise the call site of the
// private helper that contains it (recursively). When must is set, an
// instruction inside a helper is lifted only if it is executed on every path
// through the helper (it dominates all of the helper's returns).
func h1rLift(in ssa.Instruction, target *ssa.Function, must bool) ssa.Instruction {
	for i := 0; i < 6 && in != nil; i++ {
		f := in.Parent()
		if f == target {
			return in
		}
		site := h1rPrivateSite(f)
		if site == nil {
			return nil
		}
		if must {
			for _, r := range core.Returns(f) {
				if !core.Dominates(in, r) {
					return nil
				}
			}
		}
		in = site.(ssa.Instruction)
	}
	return nil
}

// h1rDominates: a is executed before b on every path reaching b, where a
// and/or b may lie inside private helpers of anchor.
func h1rDominates(a, b ssa.Instruction, anchor *ssa.Function) bool {
	if a.Parent() == b.Parent() {
		return core.Dominates(a, b)
	}
	// b inside a helper called after a
	chainB := []ssa.Instruction{b}
	for x := b; x != nil && x.Parent() != anchor && len(chainB) < 6; {
		site := h1rPrivateSite(x.Parent())
		if site == nil {
			break
		}
		x = site.(ssa.Instruction)
		chainB = append(chainB, x)
	}
	for _, bb := range chainB {
		if la := h1rLift(a, bb.Parent(), true); la != nil && la != bb {
			return core.Dominates(la, bb)
		}
	}
	return false
}

// ---------------------------------------------------------------- event paths

// h1rEvent is one step of an event path: an instruction, or a branch edge with
// the (resolved) condition and the polarity taken.
type h1rEvent struct {
	In    ssa.Instruction
	Cond  ssa.Value
	Pol   bool
	Depth int // > 0 inside an expanded helper call
}

// h1rPath is a feasible path of an anchored function with the calls of its
// private helpers expanded.
type h1rPath struct {
	Evs  []h1rEvent
	Last ssa.Instruction // the Return / Panic that ends the path
	val  map[ssa.Value]ssa.Value
}

// Res resolves a value with respect to the path: phis to the incoming value of
// the edge taken, results of expanded helper calls to the value returned.
func (p *h1rPath) Res(v ssa.Value) ssa.Value {
	for i := 0; i < 32 && v != nil; i++ {
		nv, ok := p.val[v]
		if !ok || nv == v || nv == nil {
			return v
		}
		v = nv
	}
	return v
}

// cond resolves a branch condition on the path: strips negations, resolves
// phis / call results. known is set when the condition is a constant.
func (p *h1rPath) cond(c ssa.Value, pol bool) (ssa.Value, bool, bool, bool) {
	for i := 0; i < 32; i++ {
		c = p.Res(c)
		if u, ok := c.(*ssa.UnOp); ok && u.Op == token.NOT {
			c, pol = u.X, !pol
			continue
		}
		break
	}
	if b, ok := h1aConstBool(c); ok {
		return c, pol, true, b
	}
	return c, pol, false, false
}

// Sig renders the branch decisions of the path (for messages).
func (p *h1rPath) Sig() string {
	var parts []string
	for _, e := range p.Evs {
		if e.In != nil {
			continue
		}
		s := core.Render(e.Cond)
		if !e.Pol {
			s = "!" + s
		}
		parts = append(parts, s)
	}
	if len(parts) > 14 {
		parts = append(parts[:14], "…")
	}
	return strings.Join(parts, " ; ")
}

type h1rPaths struct {
	inline func(*ssa.Function) bool
	limit  int
	n      int
	ok     bool
	memo   map[*ssa.Function][]*h1rPath
	busy   map[*ssa.Function]bool
}

// h1rEventPaths enumerates the event paths of fn (each block at most once per
// frame); calls of functions accepted by inline are expanded (depth <= 3).
// Returns false when the enumeration was cut off at limit paths.
func h1rEventPaths(fn *ssa.Function, inline func(*ssa.Function) bool, limit int, f func(p *h1rPath)) bool {
	g := &h1rPaths{inline: inline, limit: limit, ok: true, memo: map[*ssa.Function][]*h1rPath{}, busy: map[*ssa.Function]bool{}}
	paths := g.gen(fn, 0)
	if !g.ok {
		return false
	}
	for _, p := range paths {
		f(p)
	}
	return true
}

func (g *h1rPaths) gen(fn *ssa.Function, depth int) []*h1rPath {
	if m, ok := g.memo[fn]; ok {
		return m
	}
	if g.busy[fn] {
		g.ok = false
		return nil
	}
	g.busy[fn] = true
	defer delete(g.busy, fn)
	var out []*h1rPath
	complete := core.EnumPaths(fn, 1, g.limit, func(cp *core.Path) {
		if !g.ok {
			return
		}
		// phi values of this path
		val := map[ssa.Value]ssa.Value{}
		for i, b := range cp.Blocks {
			if i == 0 {
				continue
			}
			pi := -1
			for j, pr := range b.Preds {
				if pr == cp.Blocks[i-1] {
					pi = j
				}
			}
			if pi < 0 {
				continue
			}
			nv := map[ssa.Value]ssa.Value{}
			for _, in := range b.Instrs {
				phi, ok := in.(*ssa.Phi)
				if !ok {
					break
				}
				e := phi.Edges[pi]
				if r, ok := val[e]; ok {
					e = r
				}
				nv[phi] = e
			}
			for k, v := range nv {
				val[k] = v
			}
		}
		partials := []*h1rPath{{val: val}}
		clone := func(p *h1rPath) *h1rPath {
			q := &h1rPath{Evs: append([]h1rEvent(nil), p.Evs...), val: map[ssa.Value]ssa.Value{}}
			for k, v := range p.val {
				q.val[k] = v
			}
			return q
		}
		for i, b := range cp.Blocks {
			for _, in := range b.Instrs {
				if _, isPhi := in.(*ssa.Phi); isPhi {
					continue
				}
				call, isCall := in.(*ssa.Call)
				var h *ssa.Function
				if isCall {
					h = call.Call.StaticCallee()
				}
				if h == nil || depth >= 3 || h == fn || g.inline == nil || !g.inline(h) {
					for _, p := range partials {
						p.Evs = append(p.Evs, h1rEvent{In: in, Depth: depth})
					}
					continue
				}
				subs := g.gen(h, depth+1)
				if !g.ok {
					return
				}
				var next []*h1rPath
				for _, p := range partials {
					for _, s := range subs {
						q := clone(p)
						q.Evs = append(q.Evs, h1rEvent{In: in, Depth: depth})
						q.Evs = append(q.Evs, s.Evs...)
						for k, v := range s.val {
							q.val[k] = v
						}
						ret, isRet := s.Last.(*ssa.Return)
						if !isRet {
							// the helper panics: the path ends there
							q.Last = s.Last
							out = append(out, q)
							continue
						}
						rv := core.RetVals(ret)
						if len(rv) == 1 {
							q.val[call] = s.Res(rv[0])
						} else if call.Referrers() != nil {
							for _, r := range *call.Referrers() {
								if ex, ok := r.(*ssa.Extract); ok && ex.Index < len(rv) {
									q.val[ex] = s.Res(rv[ex.Index])
								}
							}
						}
						next = append(next, q)
					}
				}
				partials = next
				g.n += len(partials)
				if g.n > g.limit*8 {
					g.ok = false
					return
				}
			}
			if i+1 < len(cp.Blocks) {
				if ifi, ok := b.Instrs[len(b.Instrs)-1].(*ssa.If); ok && len(b.Succs) == 2 && b.Succs[0] != b.Succs[1] {
					pol := b.Succs[0] == cp.Blocks[i+1]
					var keep []*h1rPath
					for _, p := range partials {
						c, pl, known, bv := p.cond(ifi.Cond, pol)
						if known {
							if bv == pl {
								keep = append(keep, p)
							}
							continue // a decided branch: no event; the infeasible combination is dropped
						}
						p.Evs = append(p.Evs, h1rEvent{Cond: c, Pol: pl, Depth: depth})
						keep = append(keep, p)
					}
					partials = keep
				}
			}
		}
		last := cp.Last()
		for _, p := range partials {
			p.Last = last
			out = append(out, p)
		}
	})
	if !complete {
		g.ok = false
	}
	g.memo[fn] = out
	return out
}

// ---------------------------------------------------------------- structural matchers

// h1rFieldIs: addr is &recv.<name> where recv (resolved across frames) is obj.
func h1rFieldIs(addr ssa.Value, obj ssa.Value, name string) bool {
	fa, ok := addr.(*ssa.FieldAddr)
	if !ok {
		return false
	}
	f := core.FieldObj(fa.X, fa.Field)
	return f != nil && f.Name() == name && h1aRes(fa.X) == obj
}

// h1rLoadOfField: v (conversions stripped) is a load of obj.<name>.
func h1rLoadOfField(v ssa.Value, obj ssa.Value, name string) bool {
	u, ok := core.StripConv(v).(*ssa.UnOp)
	return ok && u.Op == token.MUL && h1rFieldIs(u.X, obj, name)
}

// h1rIsLenOf: v is len(x) (conversions stripped) with x accepted by isX.
func h1rIsLenOf(v ssa.Value, isX func(ssa.Value) bool) bool {
	lc, ok := core.StripConv(v).(*ssa.Call)
	if !ok || len(lc.Call.Args) != 1 {
		return false
	}
	bi, ok := lc.Call.Value.(*ssa.Builtin)
	return ok && bi.Name() == "len" && isX(lc.Call.Args[0])
}

// h1rMayWriteField: the instruction may change obj.<name>: a store to it, or a
// call that receives the object.
func h1rMayWriteField(in ssa.Instruction, obj ssa.Value, name string) bool {
	switch x := in.(type) {
	case *ssa.Store:
		return h1rFieldIs(x.Addr, obj, name)
	case ssa.CallInstruction:
		cc := x.Common()
		vals := append([]ssa.Value{}, cc.Args...)
		if cc.IsInvoke() {
			vals = append(vals, cc.Value)
		}
		for _, a := range vals {
			if h1rPointsInto(a, obj) {
				return true
			}
		}
	}
	return false
}

// h1rIsErrorType reports whether t is the predeclared error type.
func h1rIsErrorType(t types.Type) bool {
	return types.Identical(t, types.Universe.Lookup("error").Type())
}
