package rules

// Armed-state engine of C47 (prefix c47a): a forward may-analysis of the
// state that the set-up code of a tunnel arms on its two long-lived
// connections (read/write deadlines), followed across calls inside the
// package, closures, defers and field/return hand-overs, up to the points
// where the connections are handed to the copy goroutines.

import (
	"fmt"
	"go/types"
	"regexp"
	"sort"
	"strings"

	"golang.org/x/tools/go/ssa"

	"verif/internal/core"
)

// c47fact: kind 'R'/'W' = a read/write deadline may be armed on the
// connection with access path key; kind 'S' (key "") = the copy goroutines
// have been started and the serve loop does not wait yet.
type c47fact struct {
	key  string
	kind byte
}

// c47state maps a fact to the description of the site that armed it.
type c47state map[c47fact]string

func (s c47state) clone() c47state {
	o := make(c47state, len(s))
	for k, v := range s {
		o[k] = v
	}
	return o
}

func (s c47state) sig() string {
	var parts []string
	for k := range s {
		parts = append(parts, k.key+"|"+string(k.kind))
	}
	sort.Strings(parts)
	return strings.Join(parts, ";")
}

// c47join adds src to dst; reports whether dst grew.
func c47join(dst, src c47state) bool {
	grew := false
	for k, v := range src {
		if _, ok := dst[k]; !ok {
			dst[k] = v
			grew = true
		}
	}
	return grew
}

var c47assertSuffix = regexp.MustCompile(`\.\([^()]*\)(#0)?$`)

// c47key is the access path of a connection value: nxOrigin, with type
// assertions and interface conversions looked through (tlsConn obtained by
// c.rwc.(*tls.Conn) is the connection c.rwc).
func c47key(v ssa.Value) string {
	for i := 0; i < 6; i++ {
		switch x := v.(type) {
		case *ssa.TypeAssert:
			v = x.X
			continue
		case *ssa.Extract:
			if ta, ok := x.Tuple.(*ssa.TypeAssert); ok && x.Index == 0 {
				v = ta.X
				continue
			}
		case *ssa.MakeInterface:
			v = x.X
			continue
		case *ssa.ChangeInterface:
			v = x.X
			continue
		case *ssa.ChangeType:
			v = x.X
			continue
		}
		break
	}
	s := nxOrigin(v)
	for i := 0; i < 4 && c47assertSuffix.MatchString(s); i++ {
		s = c47assertSuffix.ReplaceAllString(s, "")
	}
	return s
}

func c47isTime(t types.Type) bool {
	n, ok := t.(*types.Named)
	return ok && n.Obj().Name() == "Time" && n.Obj().Pkg() != nil && n.Obj().Pkg().Path() == "time"
}

// c47deadline recognises X.Set{,Read,Write}Deadline(t) on any receiver.
func c47deadline(cc *ssa.CallCommon) (recv, t ssa.Value, kinds string, ok bool) {
	name := ""
	if cc.IsInvoke() {
		if len(cc.Args) != 1 {
			return
		}
		name, recv, t = cc.Method.Name(), cc.Value, cc.Args[0]
	} else if f := cc.StaticCallee(); f != nil && f.Signature.Recv() != nil {
		if len(cc.Args) != 2 {
			return
		}
		name, recv, t = f.Name(), cc.Args[0], cc.Args[1]
	} else {
		return
	}
	switch name {
	case "SetDeadline":
		kinds = "RW"
	case "SetReadDeadline":
		kinds = "R"
	case "SetWriteDeadline":
		kinds = "W"
	default:
		return
	}
	if !c47isTime(t.Type()) {
		return
	}
	return recv, t, kinds, true
}

// c47zeroTime: v is provably the zero time.Time (which disarms a deadline):
// the zero constant, a load of a never-written local or of a package variable
// only ever assigned zero times, a phi of such, or the result of a function
// all of whose returns are such.
func c47zeroTime(p *core.Prog, v ssa.Value, d int) bool {
	if d > 4 || v == nil {
		return false
	}
	switch x := v.(type) {
	case *ssa.Const:
		return x.Value == nil
	case *ssa.ChangeType:
		return c47zeroTime(p, x.X, d+1)
	case *ssa.Phi:
		for _, e := range x.Edges {
			if !c47zeroTime(p, e, d+1) {
				return false
			}
		}
		return len(x.Edges) > 0
	case *ssa.UnOp:
		if x.Op.String() != "*" {
			return false
		}
		switch a := x.X.(type) {
		case *ssa.Alloc:
			if a.Referrers() == nil {
				return false
			}
			for _, r := range *a.Referrers() {
				switch y := r.(type) {
				case *ssa.UnOp, *ssa.DebugRef:
				case *ssa.Store:
					if y.Addr != a || !c47zeroTime(p, y.Val, d+1) {
						return false
					}
				default:
					return false
				}
			}
			return true
		case *ssa.Global:
			if a.Pkg == nil || !strings.HasPrefix(a.Pkg.Pkg.Path(), core.ModPath) {
				return false
			}
			rel := strings.TrimPrefix(strings.TrimPrefix(a.Pkg.Pkg.Path(), core.ModPath), "/")
			if rel == "" {
				rel = "."
			}
			bad := false
			for _, f := range p.SrcFuncs(rel) {
				core.Instrs(f, func(in ssa.Instruction) {
					for _, op := range in.Operands(nil) {
						if op == nil || *op != ssa.Value(a) {
							continue
						}
						switch y := in.(type) {
						case *ssa.UnOp:
						case *ssa.Store:
							if y.Addr != ssa.Value(a) || !c47zeroTime(p, y.Val, d+1) {
								bad = true
							}
						default:
							bad = true
						}
					}
				})
			}
			return !bad
		}
	case *ssa.Call:
		f := x.Call.StaticCallee()
		if f == nil || f.Blocks == nil {
			return false
		}
		rets := core.Returns(f)
		for _, r := range rets {
			if len(r.Results) != 1 || !c47zeroTime(p, r.Results[0], d+1) {
				return false
			}
		}
		return len(rets) > 0
	}
	return false
}

// c47xlat translates connection keys between a caller and a callee.
type c47xlat struct {
	names []string // callee parameter names
	args  []string // caller keys of the corresponding arguments
	open  bool     // closure: keys that are not parameter-rooted are shared
	rets  []string // caller keys of the call's results
}

func c47rooted(k, root string) (rest string, ok bool) {
	if root == "" || !strings.HasPrefix(k, root) {
		return "", false
	}
	rest = k[len(root):]
	if rest == "" || rest[0] == '.' || rest[0] == '#' {
		return rest, true
	}
	return "", false
}

func (x *c47xlat) in(k string) []string {
	var out []string
	for i, a := range x.args {
		if i < len(x.names) {
			if rest, ok := c47rooted(k, a); ok {
				out = append(out, x.names[i]+rest)
			}
		}
	}
	if len(out) == 0 && x.open {
		out = append(out, k)
	}
	return out
}

func (x *c47xlat) out(k string) []string {
	var out []string
	for i, n := range x.names {
		if i < len(x.args) {
			if rest, ok := c47rooted(k, n); ok {
				out = append(out, x.args[i]+rest)
			}
		}
	}
	if rest, ok := c47rooted(k, "ret"); ok && strings.HasPrefix(rest, "#") {
		var j int
		if _, err := fmt.Sscanf(rest, "#%d", &j); err == nil && j < len(x.rets) {
			out = append(out, x.rets[j])
		}
		return out
	}
	if len(out) == 0 && x.open {
		out = append(out, k)
	}
	return out
}

// c47armed is one run of the engine over the functions of one package.
type c47armed struct {
	c      *core.Ctx
	pkg    string
	hijack string // kinds that may be armed on the connection returned by Hijack()
	// hook, when non-nil, is called in the reporting pass for every call
	// instruction with the state before it.
	hook func(fn *ssa.Function, call ssa.CallInstruction, st c47state)

	interesting map[*ssa.Function]bool
	memo        map[string]c47state
	active      map[*ssa.Function]int

	goSites  map[string]ssa.Instruction // go-site key -> instruction
	goOrder  []string
	goBad    map[string][]string // go-site key -> armed state reaching its copy
	late     []string            // arming calls while the tunnel already runs
	lateSeen map[ssa.Instruction]bool
	nCalls   int // deadline calls seen
}

func c47newArmed(c *core.Ctx, pkg, hijack string) *c47armed {
	a := &c47armed{c: c, pkg: pkg, hijack: hijack,
		interesting: map[*ssa.Function]bool{}, memo: map[string]c47state{}, active: map[*ssa.Function]int{},
		goSites: map[string]ssa.Instruction{}, goBad: map[string][]string{}, lateSeen: map[ssa.Instruction]bool{}}
	// functions of the package that (transitively, through static calls and
	// closures of the package) touch deadlines, start goroutines, copy or hijack
	fns := c.P.SrcFuncs(pkg)
	inPkg := map[*ssa.Function]bool{}
	for _, f := range fns {
		if core.FuncPkgRel(f) == pkg {
			inPkg[f] = true
		}
	}
	direct := func(f *ssa.Function) bool {
		hit := false
		core.Instrs(f, func(in ssa.Instruction) {
			switch x := in.(type) {
			case *ssa.Go:
				hit = true
			case ssa.CallInstruction:
				cc := x.Common()
				if _, _, _, ok := c47deadline(cc); ok {
					hit = true
				}
				if cc.IsInvoke() && cc.Method.Name() == "Hijack" || core.CallIs(cc, "io.Copy", "io.CopyBuffer") {
					hit = true
				}
			}
		})
		return hit
	}
	for f := range inPkg {
		if direct(f) {
			a.interesting[f] = true
		}
	}
	for changed := true; changed; {
		changed = false
		for f := range inPkg {
			if a.interesting[f] {
				continue
			}
			core.Instrs(f, func(in ssa.Instruction) {
				if a.interesting[f] {
					return
				}
				switch x := in.(type) {
				case *ssa.MakeClosure:
					if g, ok := x.Fn.(*ssa.Function); ok && a.interesting[g] {
						a.interesting[f] = true
					}
				case ssa.CallInstruction:
					for _, g := range a.bodies(x.Common(), true) {
						if a.interesting[g] {
							a.interesting[f] = true
						}
					}
				}
			})
			if a.interesting[f] {
				changed = true
			}
		}
	}
	return a
}

// bodies resolves the functions a call may enter: a static callee or closure
// of the package, or — one level — the functions a package function returns
// when the callee value is the result of calling it (sc.srv.proxyHandler()).
func (a *c47armed) bodies(cc *ssa.CallCommon, all bool) []*ssa.Function {
	ok := func(f *ssa.Function) bool {
		return f != nil && f.Blocks != nil && core.FuncPkgRel(f) == a.pkg && (all || a.interesting[f])
	}
	if cc.IsInvoke() {
		return nil
	}
	if mc, isMC := cc.Value.(*ssa.MakeClosure); isMC {
		if f, _ := mc.Fn.(*ssa.Function); ok(f) {
			return []*ssa.Function{f}
		}
		return nil
	}
	if f := cc.StaticCallee(); f != nil {
		if ok(f) {
			return []*ssa.Function{f}
		}
		return nil
	}
	var out []*ssa.Function
	if pc, _ := nxCallResult(cc.Value); pc != nil {
		if g := pc.Call.StaticCallee(); g != nil && g.Blocks != nil && core.FuncPkgRel(g) == a.pkg {
			for _, r := range core.Returns(g) {
				if len(r.Results) != 1 {
					continue
				}
				for _, l := range nxPhiLeaves(r.Results[0]) {
					if f, isFn := core.StripConv(l.V).(*ssa.Function); isFn && ok(f) {
						out = append(out, f)
					}
				}
			}
		}
	}
	return out
}

func c47goKeys(fn *ssa.Function) map[ssa.Instruction]string {
	name := nxShort(fn)
	if i := strings.LastIndex(name, "."); i >= 0 {
		name = name[i+1:]
	}
	out := map[ssa.Instruction]string{}
	n := 0
	for _, in := range allInstrs(fn) {
		if g, ok := in.(*ssa.Go); ok {
			out[g] = fmt.Sprintf("%s:go#%d", name, n)
			n++
		}
	}
	return out
}

func c47kindName(k byte) string {
	if k == 'R' {
		return "read"
	}
	return "write"
}

// run analyses fn from the given entry state and returns the state at its
// returns (in fn's key space; results that are returned are renamed ret#i).
func (a *c47armed) run(fn *ssa.Function, entry c47state, goKey string, report bool, depth int) c47state {
	if fn == nil || len(fn.Blocks) == 0 || depth > 8 || a.active[fn] > 0 {
		return entry.clone()
	}
	mk := ""
	if !report {
		mk = core.FuncKey(fn) + "@" + entry.sig()
		if r, ok := a.memo[mk]; ok {
			return r.clone()
		}
	}
	a.active[fn]++
	defer func() { a.active[fn]-- }()
	a.c.Analysed(core.FuncKey(fn))

	in := map[*ssa.BasicBlock]c47state{fn.Blocks[0]: entry.clone()}
	work := []*ssa.BasicBlock{fn.Blocks[0]}
	for len(work) > 0 {
		b := work[0]
		work = work[1:]
		s := in[b].clone()
		for _, ins := range b.Instrs {
			s = a.step(fn, ins, s, goKey, false, depth)
		}
		for _, succ := range b.Succs {
			if in[succ] == nil {
				in[succ] = c47state{}
				c47join(in[succ], s)
				work = append(work, succ)
			} else if c47join(in[succ], s) {
				work = append(work, succ)
			}
		}
	}
	exit := c47state{}
	for _, b := range fn.Blocks {
		s0, ok := in[b]
		if !ok {
			continue
		}
		s := s0.clone()
		for _, ins := range b.Instrs {
			if r, isRet := ins.(*ssa.Return); isRet {
				for f, why := range s {
					root := f.key
					if i := strings.IndexAny(root, ".#"); i >= 0 {
						root = root[:i]
					}
					rooted := f.kind == 'S' || fn.Parent() != nil
					for _, p := range fn.Params {
						if p.Name() == root {
							rooted = true
						}
					}
					if rooted {
						c47join(exit, c47state{f: why})
					}
					for j, res := range r.Results {
						if f.kind != 'S' && c47key(res) == f.key {
							c47join(exit, c47state{c47fact{fmt.Sprintf("ret#%d", j), f.kind}: why})
						}
					}
				}
				continue
			}
			s = a.step(fn, ins, s, goKey, report, depth)
		}
	}
	if !report {
		a.memo[mk] = exit.clone()
	}
	return exit
}

func (a *c47armed) where(in ssa.Instruction) string {
	return fmt.Sprintf("%s in %s", a.c.P.Pos(in.Pos()), nxShort(in.Parent()))
}

// enter runs the bodies of a call with the state translated into their key
// space and returns the state after the call.
func (a *c47armed) enter(fn *ssa.Function, cc *ssa.CallCommon, callVal ssa.Value, bodies []*ssa.Function, s c47state, goKey string, report bool, depth int) c47state {
	out := c47state{}
	for bi, body := range bodies {
		x := &c47xlat{open: body.Parent() != nil}
		for i, p := range body.Params {
			if i < len(cc.Args) {
				x.names = append(x.names, p.Name())
				x.args = append(x.args, c47key(cc.Args[i]))
			}
		}
		if callVal != nil {
			n := body.Signature.Results().Len()
			if n == 1 {
				x.rets = []string{c47key(callVal)}
			} else {
				for j := 0; j < n; j++ {
					x.rets = append(x.rets, fmt.Sprintf("%s#%d", core.Render(callVal), j))
				}
			}
		}
		entry := c47state{}
		images := map[c47fact][]c47fact{}
		kept := c47state{}
		for f, why := range s {
			if f.kind == 'S' {
				entry[f] = why
				images[f] = []c47fact{f}
				continue
			}
			ks := x.in(f.key)
			if len(ks) == 0 {
				kept[f] = why // the callee cannot name this connection
				continue
			}
			for _, k := range ks {
				cf := c47fact{k, f.kind}
				entry[cf] = why
				images[f] = append(images[f], cf)
			}
		}
		exit := a.run(body, entry, goKey, report, depth+1)
		res := kept
		for f, why := range exit {
			if f.kind == 'S' {
				res[f] = why
				continue
			}
			for _, k := range x.out(f.key) {
				c47join(res, c47state{c47fact{k, f.kind}: why})
			}
		}
		// a connection passed under several names is disarmed when any of
		// its names was disarmed
		for f, imgs := range images {
			for _, cf := range imgs {
				if _, still := exit[cf]; !still {
					delete(res, f)
				}
			}
		}
		if bi == 0 {
			out = res
		} else {
			c47join(out, res)
		}
	}
	return out
}

func (a *c47armed) deadline(ins ssa.Instruction, cc *ssa.CallCommon, s c47state, report, sync bool) bool {
	recv, t, kinds, ok := c47deadline(cc)
	if !ok {
		return false
	}
	key := c47key(recv)
	zero := c47zeroTime(a.c.P, t, 0)
	if report {
		a.nCalls++
	}
	for i := 0; i < len(kinds); i++ {
		f := c47fact{key, kinds[i]}
		if zero {
			if sync {
				delete(s, f)
			}
			continue
		}
		if _, dup := s[f]; !dup {
			name := "Set" + map[string]string{"RW": "", "R": "Read", "W": "Write"}[kinds] + "Deadline"
			s[f] = fmt.Sprintf("%s.%s(%s) at %s", key, name, core.Render(t), a.where(ins))
		}
	}
	if _, started := s[c47fact{"", 'S'}]; started && !zero && report && !a.lateSeen[ins] {
		a.lateSeen[ins] = true
		a.late = append(a.late, fmt.Sprintf("%s (%s deadline on %s)", a.where(ins), map[string]string{"RW": "read and write", "R": "read", "W": "write"}[kinds], key))
	}
	return true
}

func (a *c47armed) step(fn *ssa.Function, ins ssa.Instruction, s c47state, goKey string, report bool, depth int) c47state {
	switch x := ins.(type) {
	case *ssa.Call:
		cc := x.Common()
		if report && a.hook != nil {
			a.hook(fn, x, s)
		}
		if a.deadline(x, cc, s, report, true) {
			return s
		}
		if cc.IsInvoke() && cc.Method.Name() == "Hijack" && x.Referrers() != nil {
			for _, r := range *x.Referrers() {
				if ex, ok := r.(*ssa.Extract); ok && ex.Index == 0 {
					for i := 0; i < len(a.hijack); i++ {
						f := c47fact{c47key(ex), a.hijack[i]}
						if _, dup := s[f]; !dup {
							s[f] = fmt.Sprintf("the %s deadline of the request phase, which Hijack() (%s) does not clear", c47kindName(a.hijack[i]), a.where(x))
						}
					}
				}
			}
			return s
		}
		if core.CallIs(cc, "io.Copy", "io.CopyBuffer") && len(cc.Args) >= 2 {
			if report && goKey != "" {
				dst, src := c47key(cc.Args[0]), c47key(cc.Args[1])
				for f, why := range s {
					if f.kind == 'W' && f.key == dst || f.kind == 'R' && f.key == src {
						a.goBad[goKey] = append(a.goBad[goKey], fmt.Sprintf("io.Copy(%s <- %s) starts while the %s deadline armed by %s may still be armed on %s", dst, src, c47kindName(f.kind), why, f.key))
					}
				}
			}
			return s
		}
		if bodies := a.bodies(cc, false); len(bodies) > 0 {
			return a.enter(fn, cc, x, bodies, s, goKey, report, depth)
		}
	case *ssa.Go:
		key := c47goKeys(fn)[x]
		if report {
			if _, ok := a.goSites[key]; !ok {
				a.goSites[key] = x
				a.goOrder = append(a.goOrder, key)
			}
		}
		if bodies := a.bodies(x.Common(), true); len(bodies) > 0 {
			gs := s.clone()
			delete(gs, c47fact{"", 'S'})
			a.enter(fn, x.Common(), nil, bodies, gs, key, report, depth)
		}
		s[c47fact{"", 'S'}] = "go at " + a.where(x)
	case *ssa.Select:
		if x.Blocking {
			delete(s, c47fact{"", 'S'})
		}
	case *ssa.Store:
		if len(s) == 0 {
			return s
		}
		if _, isField := x.Addr.(*ssa.FieldAddr); !isField {
			return s
		}
		if !types.IsInterface(x.Val.Type()) {
			if _, isPtr := x.Val.Type().Underlying().(*types.Pointer); !isPtr {
				return s
			}
		}
		ak, vk := nxOriginAddr(x.Addr), c47key(x.Val)
		if ak == vk {
			return s
		}
		for _, k := range []byte{'R', 'W'} {
			why, armed := s[c47fact{vk, k}]
			delete(s, c47fact{ak, k})
			if armed {
				s[c47fact{ak, k}] = why
			}
		}
	case *ssa.RunDefers:
		// deferred deadline calls and deferred closures run here, last first
		var defers []*ssa.Defer
		for _, in := range allInstrs(fn) {
			if d, ok := in.(*ssa.Defer); ok {
				defers = append(defers, d)
			}
		}
		for i := len(defers) - 1; i >= 0; i-- {
			d := defers[i]
			must := d.Block().Dominates(x.Block())
			if a.deadline(d, d.Common(), s, report, must) {
				continue
			}
			if bodies := a.bodies(d.Common(), false); len(bodies) > 0 {
				after := a.enter(fn, d.Common(), nil, bodies, s.clone(), goKey, report, depth)
				if must {
					s = after
				} else {
					c47join(s, after)
				}
			}
		}
	}
	return s
}

// c47hijackArmed decides which deadlines may still be armed on the
// connection that bfe_server's response.Hijack returns: the request phase
// arms read and write deadlines on it (conn.serve, ReverseProxy.setTimeout),
// so a kind is clean only if every path to a return of a non-nil connection
// passes a Set{,Read,Write}Deadline(zero time) on that connection.
func c47hijackArmed(c *core.Ctx) string {
	fn := c.P.Func("bfe_server", "response.Hijack")
	if fn == nil || fn.Blocks == nil {
		return "RW"
	}
	c.Analysed(core.FuncKey(fn))
	armed := ""
	for _, kind := range []byte{'R', 'W'} {
		clean := true
		n := 0
		for _, r := range core.Returns(fn) {
			if len(r.Results) < 1 || isNilConst(r.Results[0]) {
				continue
			}
			n++
			key := c47key(r.Results[0])
			disarm := func(in ssa.Instruction) bool {
				call, ok := in.(*ssa.Call)
				if !ok {
					return false
				}
				recv, t, kinds, ok := c47deadline(call.Common())
				return ok && strings.IndexByte(kinds, kind) >= 0 && c47key(recv) == key && c47zeroTime(c.P, t, 0)
			}
			if core.ReachAvoiding(fn, nil, disarm, func(in ssa.Instruction) bool { return in == ssa.Instruction(r) }) != nil {
				clean = false
			}
		}
		if !clean || n == 0 {
			armed += string(kind)
		}
	}
	return armed
}

// c47nextProtoArmed decides which deadlines may still be armed on the TLS
// connection when bfe_server's conn.serve hands it to a TLSNextProto handler
// (the stream tunnel is one): the state at the call of the function looked up
// in the TLSNextProto map, restricted to the connection argument.
func c47nextProtoArmed(c *core.Ctx) (armed string, why string) {
	fn := c.P.Func("bfe_server", "conn.serve")
	if fn == nil || fn.Blocks == nil {
		return "RW", "bfe_server.conn.serve not found"
	}
	a := c47newArmed(c, "bfe_server", "")
	found := 0
	kinds := map[byte]string{}
	a.hook = func(f *ssa.Function, call ssa.CallInstruction, st c47state) {
		cc := call.Common()
		if f != fn || cc.IsInvoke() || cc.StaticCallee() != nil || len(cc.Args) != 3 {
			return
		}
		fromMap := nxFlows(cc.Value, func(v ssa.Value) bool {
			l, ok := v.(*ssa.Lookup)
			return ok && strings.HasSuffix(core.Render(l.X), ".TLSNextProto")
		}, nil)
		if !fromMap {
			return
		}
		found++
		key := c47key(cc.Args[1])
		for fct, w := range st {
			if fct.key == key && fct.kind != 'S' {
				kinds[fct.kind] = w
			}
		}
	}
	a.run(fn, c47state{}, "", true, 0)
	if found == 0 {
		return "RW", "the hand-off call fn(srv, tlsConn, handler) of bfe_server.conn.serve was not found"
	}
	for _, k := range []byte{'R', 'W'} {
		if w, ok := kinds[k]; ok {
			armed += string(k)
			why = w
		}
	}
	return armed, why
}

// c47checkArmed records the tunnel-armed obligations of one tunnel package.
func c47checkArmed(c *core.Ctx, pkg string, serve *ssa.Function, entry c47state, hijack string) {
	a := c47newArmed(c, pkg, hijack)
	a.run(serve, entry, "", true, 0)
	for _, key := range a.goOrder {
		bad := a.goBad[key]
		sort.Strings(bad)
		bad = c47uniq(bad)
		c.Check("tunnel-armed", key, a.goSites[key].Pos(), len(bad) == 0,
			"a deadline armed on a tunnel connection during set-up outlives the set-up: "+strings.Join(bad, "; ")+
				" — once it expires every read/write of the copy loop fails with an i/o timeout, later bytes are dropped and the tunnel is torn down; clear it with Set*Deadline(time.Time{}) on every path before the copy goroutines start")
	}
	sort.Strings(a.late)
	c.Check("tunnel-armed", pkg+":after-start", serve.Pos(), len(a.late) == 0,
		"a deadline is armed on a connection after the copy goroutines were started and before the serve loop waits for them: "+strings.Join(a.late, "; ")+
			" — the running copy loops fail with an i/o timeout when it expires")
	c.Note("tunnel-armed %s: %d Set*Deadline call(s) on the analysed paths, %d go site(s)", pkg, a.nCalls, len(a.goOrder))
}

func c47uniq(s []string) []string {
	var out []string
	for i, x := range s {
		if i == 0 || x != s[i-1] {
			out = append(out, x)
		}
	}
	return out
}
