package rules

import (
	"fmt"
	"go/constant"
	"go/token"
	"go/types"
	"strings"

	"golang.org/x/tools/go/ssa"

	"verif/internal/core"
)

// C54 — mod_compress: a compressed body is announced with the matching
// Content-Encoding, loses its Content-Length, is produced only for a request
// that accepts that coding and a response that is not yet encoded, and the
// compressing reader finalises the stream.
func init() {
	Register(&Rule{
		ID: "C54", Section: "5 C54",
		Technique: "guard analysis and must-pass path queries on the handler for every store to Response.Body, table agreement (filter kind / Accept-Encoding token / Content-Encoding value / command), feasible-path bounds of the configured quality against the compressor's admissible range, structural checks of the filters' Read/Close",
		Meta: core.Meta{
			Level:       "other",
			Explanation: "Decides for bfe_modules/mod_compress: (1) every store to the response body in the package installs the result of a filter constructor that wraps the previous res.Body; (2) from each such store every path to a return (other than the constructor-error return) sets Content-Encoding on the same response to the coding of that filter's compressor (compress/gzip -> gzip, andybalholm/brotli -> br), no other Content-Encoding value is reachable, and Content-Length is deleted; (3) the store is control-dependent on the Accept-Encoding header of the request containing that same token (bfe_http.HasToken) and on the response not carrying a non-identity Content-Encoding; (4) the command arm (GZIP/BROTLI) matches the filter and the handler knows exactly the commands ActionFileCheck accepts; (5) the constructor's error path cannot leave res.Body overwritten: either the store is dominated by the error test or the constructor fails only on a compression level that ActionFileCheck's range check excludes on every accepting path; (6) each filter's constructor compresses into its own buffer and keeps the given source; Read copies source -> compressor, does not treat io.EOF as failure, flushes after data, closes the compressor exactly when nothing more was copied (finalising the stream) and returns what the buffer yields; Close closes the source. The per-store obligations (2)-(4) are decided over the calling context: when the store sits in a private helper of the handler (unexported, one static call site, never used as a value) the branch facts of the call site count, parameters are translated to the arguments passed, the must-pass paths continue in the caller after the call along the branch edges consistent with the constant the helper returns, and a call that hands the response to a function all of whose paths set / delete the header counts as doing so. Comparisons are accepted in every spelling (mirrored operands, negated branch). Not covered: a response handed to a helper as anything but the *Response itself (e.g. only its Header), helpers reached through closures or function values, quality range checks moved out of ActionFileCheck's own body, decompression equality of the produced bytes (compressor libraries are trusted), write chunking, interaction with other modules that touch Content-Encoding later.",
			RuleText:    "obligations = each Response.Body store x {wraps-original, encoding, length, accept gate, prior-encoding gate, command arm, constructor-error safety}; each filter type x {constructor, copy, EOF, flush, finalise, output, close}; command table agreement",
			Assumptions: []string{"content-coding names: compress/gzip produces `gzip`, andybalholm/brotli produces `br` (IANA registry)", "mod_compress writes response headers only through bfe_http.Header.Set/Add/Del"},
		},
		Run: runC54,
		Mutants: []Mutant{
			{Name: "gzip-announced-as-br", File: "bfe_modules/mod_compress/mod_compress.go", Old: "		res.Header.Set(\"Content-Encoding\", EncodeGzip)", New: "		res.Header.Set(\"Content-Encoding\", EncodeBrotli)", Expect: "encoding-set|NewGzipFilter"},
			{Name: "encoding-not-set-for-brotli", File: "bfe_modules/mod_compress/mod_compress.go", Old: "		res.Header.Set(\"Content-Encoding\", EncodeBrotli)\n", New: "", Expect: "encoding-set|NewBrotliFilter"},
			{Name: "stale-content-length", File: "bfe_modules/mod_compress/mod_compress.go", Old: "	res.Header.Del(\"Content-Length\")\n", New: "", Expect: "length-dropped"},
			{Name: "brotli-without-accept", File: "bfe_modules/mod_compress/mod_compress.go", Old: "		if !checkSupportBrotliCompress(acceptEncoding) {", New: "		if !checkSupportCompress(acceptEncoding) {", Expect: "accept-gate|NewBrotliFilter"},
			{Name: "gzip-token-mismatch", File: "bfe_modules/mod_compress/mod_compress.go", Old: "	return bfe_http.HasToken(acceptEncoding, EncodeGzip)", New: "	return bfe_http.HasToken(acceptEncoding, EncodeBrotli)", Expect: "accept-gate|NewGzipFilter"},
			{Name: "double-encoding", File: "bfe_modules/mod_compress/mod_compress.go", Old: "	if len(contentEncoding) != 0 && contentEncoding != EncodeIdentity {", New: "	if contentEncoding == EncodeGzip {", Expect: "prior-encoding"},
			{Name: "wraps-request-body", File: "bfe_modules/mod_compress/mod_compress.go", Old: "		res.Body, err = NewGzipFilter(res.Body, ", New: "		res.Body, err = NewGzipFilter(req.HttpRequest.Body, ", Expect: "body-filter|NewGzipFilter"},
			{Name: "quality-range-widened", File: "bfe_modules/mod_compress/action.go", Old: "*conf.Quality > gzip.BestCompression {", New: "*conf.Quality > gzip.BestCompression+1 {", Expect: "ctor-error|NewGzipFilter"},
			{Name: "gzip-stream-not-finalised", File: "bfe_modules/mod_compress/gzip_filter.go", Old: "		b.closed = true\n		if err := b.writer.Close(); err != nil {\n			return 0, err\n		}\n", New: "		b.closed = true\n", Expect: "filter-read|GzipFilter:finalise"},
			{Name: "brotli-eof-is-error", File: "bfe_modules/mod_compress/brotli_filter.go", Old: "	if err != nil && err != io.EOF {", New: "	if err != nil {", Expect: "filter-read|BrotliFilter:eof"},
			{Name: "brotli-flush-dropped", File: "bfe_modules/mod_compress/brotli_filter.go", Old: "		if err := b.writer.Flush(); err != nil {\n			return 0, err\n		}\n", New: "		b.closed = false\n", Expect: "filter-read|BrotliFilter:flush"},
			{Name: "gzip-source-leaked", File: "bfe_modules/mod_compress/gzip_filter.go", Old: "	if err := b.source.Close(); err != nil {\n		return err\n	}\n	return nil", New: "	return nil", Expect: "filter-close|GzipFilter"},
			{Name: "brotli-command-unknown-to-handler", File: "bfe_modules/mod_compress/action.go", Old: "	case ActionBrotli:\n		if", New: "	case ActionBrotli, \"ZSTD\":\n		if", Expect: "command-known"},
			{Name: "silent-assign-after-error-test", File: "bfe_modules/mod_compress/mod_compress.go", Old: "		res.Body, err = NewGzipFilter(res.Body, rule.Action.Quality, rule.Action.FlushSize)\n		if err != nil {\n			return bfe_module.BfeHandlerGoOn\n		}\n", New: "		filter, err := NewGzipFilter(res.Body, rule.Action.Quality, rule.Action.FlushSize)\n		if err != nil {\n			return bfe_module.BfeHandlerGoOn\n		}\n		res.Body = filter\n", Silent: true},
			{Name: "silent-accept-inline", File: "bfe_modules/mod_compress/mod_compress.go", Old: "		if !checkSupportGzipCompress(acceptEncoding) {\n			return bfe_module.BfeHandlerGoOn\n		}\n", New: "		if ok := bfe_http.HasToken(acceptEncoding, EncodeGzip); !ok {\n			return bfe_module.BfeHandlerGoOn\n		}\n", Silent: true},
			{Name: "silent-length-drop-in-helper", File: "bfe_modules/mod_compress/mod_compress.go", Old: "\tres.Header.Del(\"Content-Length\")\n\tm.state.ResEncodeCompress.Inc(1)\n\n\treturn bfe_module.BfeHandlerGoOn\n}\n", New: "\tm.markCompressed(res)\n\n\treturn bfe_module.BfeHandlerGoOn\n}\n\nfunc (m *ModuleCompress) markCompressed(res *bfe_http.Response) {\n\tres.Header.Del(\"Content-Length\")\n\tm.state.ResEncodeCompress.Inc(1)\n}\n", Silent: true},
			{Name: "silent-gzip-arm-in-helper", File: "bfe_modules/mod_compress/mod_compress.go", Old: "func (m *ModuleCompress) compressHandler(req *bfe_basic.Request, res *bfe_http.Response) int {\n\tacceptEncoding := req.HttpRequest.Header.GetDirect(\"Accept-Encoding\")\n\tif !checkSupportCompress(acceptEncoding) {\n\t\treturn bfe_module.BfeHandlerGoOn\n\t}\n\tm.state.ReqSupportCompress.Inc(1)\n\n\tcontentEncoding := res.Header.GetDirect(\"Content-Encoding\")\n\tif len(contentEncoding) != 0 && contentEncoding != EncodeIdentity {\n\t\treturn bfe_module.BfeHandlerGoOn\n\t}\n\n\trule, err := m.getCompressRule(req)\n\tif err != nil {\n\t\treturn bfe_module.BfeHandlerGoOn\n\t}\n\n\tswitch rule.Action.Cmd {\n\tcase ActionGzip:\n\t\tif !checkSupportGzipCompress(acceptEncoding) {\n\t\t\treturn bfe_module.BfeHandlerGoOn\n\t\t}\n\n\t\tres.Body, err = NewGzipFilter(res.Body, rule.Action.Quality, rule.Action.FlushSize)\n\t\tif err != nil {\n\t\t\treturn bfe_module.BfeHandlerGoOn\n\t\t}\n\n\t\tres.Header.Set(\"Content-Encoding\", EncodeGzip)\n\t\tm.state.ResEncodeGzipCompress.Inc(1)\n", New: "func (m *ModuleCompress) installGzip(accepted string, res *bfe_http.Response, rule *compressRule) bool {\n\tif !checkSupportGzipCompress(accepted) {\n\t\treturn false\n\t}\n\n\tvar err error\n\tres.Body, err = NewGzipFilter(res.Body, rule.Action.Quality, rule.Action.FlushSize)\n\tif err != nil {\n\t\treturn false\n\t}\n\n\tres.Header.Set(\"Content-Encoding\", EncodeGzip)\n\tm.state.ResEncodeGzipCompress.Inc(1)\n\treturn true\n}\n\nfunc (m *ModuleCompress) compressHandler(req *bfe_basic.Request, res *bfe_http.Response) int {\n\tacceptEncoding := req.HttpRequest.Header.GetDirect(\"Accept-Encoding\")\n\tif !checkSupportCompress(acceptEncoding) {\n\t\treturn bfe_module.BfeHandlerGoOn\n\t}\n\tm.state.ReqSupportCompress.Inc(1)\n\n\tcontentEncoding := res.Header.GetDirect(\"Content-Encoding\")\n\tif len(contentEncoding) != 0 && contentEncoding != EncodeIdentity {\n\t\treturn bfe_module.BfeHandlerGoOn\n\t}\n\n\trule, err := m.getCompressRule(req)\n\tif err != nil {\n\t\treturn bfe_module.BfeHandlerGoOn\n\t}\n\n\tswitch rule.Action.Cmd {\n\tcase ActionGzip:\n\t\tif !m.installGzip(acceptEncoding, res, rule) {\n\t\t\treturn bfe_module.BfeHandlerGoOn\n\t\t}\n", Silent: true},
			{Name: "silent-prior-encoding-mirrored", File: "bfe_modules/mod_compress/mod_compress.go", Old: "\tif len(contentEncoding) != 0 && contentEncoding != EncodeIdentity {", New: "\tif 0 < len(contentEncoding) && EncodeIdentity != contentEncoding {", Silent: true},
			{Name: "silent-copied-mirrored", File: "bfe_modules/mod_compress/gzip_filter.go", Old: "\tif c != 0 {\n", New: "\tif 0 < c {\n", Silent: true},
		},
	})
}

// mdCmdCoding: the coding each documented mod_compress command asks for.
var mdCmdCoding = map[string]string{"GZIP": "gzip", "BROTLI": "br"}

// mdCodingOf: content-coding produced by the compressor package.
var mdCodingOf = map[string]string{"compress/gzip": "gzip", "github.com/andybalholm/brotli": "br"}

func mdHeaderOp(in ssa.Instruction, names ...string) (*ssa.CallCommon, bool) {
	c, ok := in.(ssa.CallInstruction)
	if !ok {
		return nil, false
	}
	var full []string
	for _, n := range names {
		full = append(full, "bfe_http.Header."+n)
	}
	if !core.CallIs(c.Common(), full...) {
		return nil, false
	}
	return c.Common(), true
}

// mdHeaderOf: the struct whose Header field is the receiver of a header call.
func mdHeaderOf(cc *ssa.CallCommon) ssa.Value {
	if len(cc.Args) == 0 {
		return nil
	}
	x, ok := mdFieldLoadNamed(cc.Args[0], "Header")
	if !ok {
		return nil
	}
	return x
}

func mdFieldOfType(t types.Type, pred func(types.Type) bool) *types.Var {
	if p, ok := t.Underlying().(*types.Pointer); ok {
		t = p.Elem()
	}
	st, ok := t.Underlying().(*types.Struct)
	if !ok {
		return nil
	}
	var found *types.Var
	for i := 0; i < st.NumFields(); i++ {
		if pred(st.Field(i).Type()) {
			if found != nil {
				return nil
			}
			found = st.Field(i)
		}
	}
	return found
}

func mdLoadOfField(v ssa.Value, f *types.Var, of ssa.Value) bool {
	if f == nil {
		return false
	}
	x, ok := mdFieldLoadNamed(v, f.Name())
	return ok && (of == nil || x == of)
}

func mdAddrOfField(v ssa.Value, f *types.Var, of ssa.Value) bool {
	fa, ok := v.(*ssa.FieldAddr)
	return ok && f != nil && core.FieldObj(fa.X, fa.Field) == f && (of == nil || fa.X == of)
}

func runC54(c *core.Ctx) {
	const pkg = "bfe_modules/mod_compress"
	if c.P.Pkg(pkg) == nil {
		c.Missing(pkg)
		return
	}
	handler := c.P.Func(pkg, "ModuleCompress.compressHandler")
	if handler == nil {
		c.Missing(pkg + ".ModuleCompress.compressHandler")
		return
	}
	m := mdNewCmdModel(c.P, pkg)

	// accepted commands and quality bounds per command from ActionFileCheck
	type bounds struct {
		lo, hi     int64
		hasLo, has bool
	}
	quality := map[string][]bounds{}
	chk := c.P.Func(pkg, "ActionFileCheck")
	if chk == nil {
		c.Missing(pkg + ".ActionFileCheck")
	} else {
		c.Analysed(core.FuncKey(chk))
		isQuality := func(v ssa.Value) bool {
			if _, ok := mdFieldLoadNamed(v, "Quality"); ok {
				return true
			}
			if u, ok := v.(*ssa.UnOp); ok && u.Op == token.MUL {
				_, ok := mdFieldLoadNamed(u.X, "Quality")
				return ok
			}
			return false
		}
		complete := core.EnumPaths(chk, 2, 20000, func(p *core.Path) {
			ret, isRet := p.Last().(*ssa.Return)
			if !isRet || !mdErrNil(ret) {
				return
			}
			label := ""
			var bd bounds
			for i := 0; i+1 < len(p.Blocks); i++ {
				f, ok := mdEdgeFact(p.Blocks[i], p.Blocks[i+1])
				if !ok {
					continue
				}
				if a, ok := m.atomOf(f); ok && a.kind == "cmd" && a.op == mdAtomEq && a.off == 0 {
					label = a.label
				}
				b, ok := f.Cond.(*ssa.BinOp)
				if !ok {
					continue
				}
				op, x, y := b.Op, b.X, b.Y
				k, isK := mdIntConst(y)
				if !isK || !isQuality(x) {
					if k2, isK2 := mdIntConst(x); isK2 && isQuality(y) {
						// K op q  ==  q op' K
						k, x = k2, y
						switch op {
						case token.LSS:
							op = token.GTR
						case token.GTR:
							op = token.LSS
						case token.LEQ:
							op = token.GEQ
						case token.GEQ:
							op = token.LEQ
						}
					} else {
						continue
					}
				}
				if !f.Pol { // negate
					switch op {
					case token.LSS:
						op = token.GEQ
					case token.GTR:
						op = token.LEQ
					case token.LEQ:
						op = token.GTR
					case token.GEQ:
						op = token.LSS
					default:
						continue
					}
				}
				switch op {
				case token.GEQ:
					if !bd.hasLo || k > bd.lo {
						bd.lo, bd.hasLo = k, true
					}
				case token.GTR:
					if !bd.hasLo || k+1 > bd.lo {
						bd.lo, bd.hasLo = k+1, true
					}
				case token.LEQ:
					if !bd.has || k < bd.hi {
						bd.hi, bd.has = k, true
					}
				case token.LSS:
					if !bd.has || k-1 < bd.hi {
						bd.hi, bd.has = k-1, true
					}
				}
			}
			if label != "" {
				quality[label] = append(quality[label], bd)
			}
		})
		if !complete {
			c.Check("command-known", pkg+".ActionFileCheck:paths", chk.Pos(), false, "path enumeration of ActionFileCheck did not complete")
		}
		s := m.summarize(chk, 0)
		c.Check("command-known", pkg+".ActionFileCheck:closed", chk.Pos(), s.complete && !s.defaultAccepts && s.hasCmdTests, "mod_compress's ActionFileCheck must reject commands it does not list")
	}

	// ---- Body stores in the package -----------------------------------------
	type storeInfo struct {
		st   *ssa.Store
		ctor *ssa.Call
		res  ssa.Value
	}
	var stores []storeInfo
	for _, fn := range m.fns {
		core.Instrs(fn, func(in ssa.Instruction) {
			st, ok := in.(*ssa.Store)
			if !ok {
				return
			}
			fa, ok := st.Addr.(*ssa.FieldAddr)
			if !ok {
				return
			}
			f := core.FieldObj(fa.X, fa.Field)
			if f == nil || f.Name() != "Body" || !strings.HasSuffix(core.TypeStr(fa.X.Type()), "bfe_http.Response") {
				return
			}
			info := storeInfo{st: st, res: fa.X}
			if c2, idx := mdCallOf(st.Val); c2 != nil && idx <= 0 {
				if ex, ok := core.StripConv(st.Val).(*ssa.Extract); ok {
					info.ctor, _ = ex.Tuple.(*ssa.Call)
				} else if cv, ok := core.StripConv(st.Val).(*ssa.Call); ok {
					info.ctor = cv
				}
			}
			stores = append(stores, info)
		})
	}
	handlerArms := map[string]bool{}
	for _, g := range c.P.Region(handler) {
		for k, live := range m.armLabels(g) {
			handlerArms[k] = handlerArms[k] || live
		}
	}
	armOfCtor := map[string]string{}
	seenCtor := map[string]int{}
	for _, si := range stores {
		fn := si.st.Parent()
		c.Analysed(core.FuncKey(fn))
		var ctorFn *ssa.Function
		name := "?"
		if si.ctor != nil {
			ctorFn = si.ctor.Call.StaticCallee()
		}
		if ctorFn != nil {
			name = ctorFn.Name()
		}
		seenCtor[name]++
		key := name
		if seenCtor[name] > 1 {
			key = fmt.Sprintf("%s#%d", name, seenCtor[name])
		}
		pos := si.st.Pos()
		// (1) wraps the previous body of the same response
		wraps := false
		coding := ""
		if ctorFn != nil && core.FuncPkgRel(ctorFn) == pkg && len(si.ctor.Call.Args) >= 1 {
			if x, ok := mdFieldLoadNamed(core.StripConv(si.ctor.Call.Args[0]), "Body"); ok && x == si.res {
				wraps = true
			}
			// filter kind: the compressor constructed inside the constructor
			for _, call := range core.AllCalls(ctorFn) {
				if sc := call.Common().StaticCallee(); sc != nil && sc.Pkg != nil && strings.HasPrefix(sc.Name(), "NewWriter") {
					if cd, ok := mdCodingOf[sc.Pkg.Pkg.Path()]; ok {
						coding = cd
					}
				}
			}
		}
		c.Check("body-filter", key, pos, wraps && coding != "", "the response body is replaced by "+core.Render(si.st.Val)+"; it must be a mod_compress filter built around the previous body of the same response (compressor coding found: "+coding+")")
		if si.ctor == nil || ctorFn == nil {
			continue
		}
		ctorErr := func(nonNilWanted bool) func(f mdFact) bool {
			return func(f mdFact) bool {
				x, nonNil, ok := mdNilTest(f)
				c2, idx := mdCallOf(x)
				return ok && nonNil == nonNilWanted && c2 == &si.ctor.Call && idx == 1
			}
		}
		normalReturn := func(in ssa.Instruction) bool {
			r, ok := in.(*ssa.Return)
			return ok && !mdEstablished(r.Block(), ctorErr(true))
		}
		// (2) Content-Encoding and Content-Length. The queries run over the
		// calling context: when the store sits in a private helper of the
		// handler the paths continue after the helper's call, and a call that
		// hands the response to a function that always sets the header counts.
		ceEv := func(want func(string) bool) m2Ev {
			return func(in ssa.Instruction, obj ssa.Value, resolve func(ssa.Value) ssa.Value) bool {
				cc, ok := mdHeaderOp(in, "Set", "Add")
				if !ok || len(cc.Args) != 3 || obj == nil || mdHeaderOf(cc) != obj {
					return false
				}
				if n, ok := core.ConstString(resolve(cc.Args[1])); !ok || n != "Content-Encoding" {
					return false
				}
				v, ok := core.ConstString(resolve(cc.Args[2]))
				if !ok {
					v = "?"
				}
				return want(v)
			}
		}
		delEv := func(in ssa.Instruction, obj ssa.Value, resolve func(ssa.Value) ssa.Value) bool {
			cc, ok := mdHeaderOp(in, "Del")
			if !ok || len(cc.Args) != 2 || obj == nil || mdHeaderOf(cc) != obj {
				return false
			}
			n, ok := core.ConstString(resolve(cc.Args[1]))
			return ok && n == "Content-Length"
		}
		normalRet := func(r *ssa.Return) bool { return normalReturn(r) }
		missing := m2EscapesCtx(c.P, si.st, normalRet, func(up func(ssa.Value) ssa.Value) func(ssa.Instruction) bool {
			return m2Must(ceEv(func(v string) bool { return v == coding }), up(si.res), m2Ident, 2)
		})
		wrong := m2ReachAnyCtx(c.P, si.st, func(up func(ssa.Value) ssa.Value) func(ssa.Instruction) bool {
			return m2May(ceEv(func(v string) bool { return v != coding }), up(si.res), m2Ident, 2)
		})
		c.Check("encoding-set", key, pos, missing == nil && wrong == nil && coding != "",
			fmt.Sprintf("after installing the %s filter: a path returns without Content-Encoding: %s being set on the response (%v) or another Content-Encoding value is set (%v)", coding, coding, missing != nil, wrong != nil))
		noDel := m2EscapesCtx(c.P, si.st, normalRet, func(up func(ssa.Value) ssa.Value) func(ssa.Instruction) bool {
			return m2Must(delEv, up(si.res), m2Ident, 2)
		})
		c.Check("length-dropped", key, pos, noDel == nil, "after installing the filter a path returns with the backend's Content-Length still present (the compressed body has a different length)")
		// (3) accept gate
		accept := m2EstablishedCtx(c.P, si.st.Block(), func(f mdFact, _ func(ssa.Value) ssa.Value) bool {
			if !f.Pol {
				return false
			}
			tok, arg := mdAcceptTest(c.P, pkg, f.Cond)
			if tok == "" || tok != coding {
				return false
			}
			return m2SliceHasCtx(c.P, arg, func(v ssa.Value) bool {
				c2, _ := mdCallOf(v)
				if c2 == nil || !core.CallIs(c2, "bfe_http.Header.GetDirect", "bfe_http.Header.Get") || len(c2.Args) != 2 {
					return false
				}
				n, ok := core.ConstString(c2.Args[1])
				if !ok || n != "Accept-Encoding" {
					return false
				}
				h := mdHeaderOf(c2)
				return h != nil && strings.HasSuffix(core.TypeStr(h.Type()), "bfe_http.Request")
			}, 0)
		})
		c.Check("accept-gate", key, pos, accept, "the "+coding+" filter is installed without the request's Accept-Encoding having been tested for the token `"+coding+"`; facts: "+m2FactStrsCtx(c.P, si.st.Block()))
		// prior encoding
		prior := m2EstablishedCtx(c.P, si.st.Block(), func(f mdFact, up func(ssa.Value) ssa.Value) bool {
			res := up(si.res) // the response in the frame the fact lives in
			isRespCE := func(v ssa.Value) bool {
				c2, _ := mdCallOf(v)
				if c2 == nil || res == nil || !core.CallIs(c2, "bfe_http.Header.GetDirect", "bfe_http.Header.Get") || len(c2.Args) != 2 || mdHeaderOf(c2) != res {
					return false
				}
				n, ok := core.ConstString(c2.Args[1])
				return ok && n == "Content-Encoding"
			}
			if x, s, equal, ok := mdStrTest(f); ok && isRespCE(x) {
				return equal && (s == "" || s == "identity")
			}
			// len(ce) == 0 in any spelling: len(ce) == 0, 0 == len(ce), !(len(ce) != 0), !(len(ce) > 0), len(ce) < 1, ...
			isLenCE := func(v ssa.Value) bool {
				c2, _ := mdCallOf(v)
				if c2 == nil || len(c2.Args) != 1 {
					return false
				}
				bi, isB := c2.Value.(*ssa.Builtin)
				return isB && bi.Name() == "len" && isRespCE(c2.Args[0])
			}
			isK := func(k int64) func(ssa.Value) bool {
				return func(v ssa.Value) bool { n, ok := mdIntConst(v); return ok && n == k }
			}
			g := core.Guard{Cond: f.Cond, Pol: f.Pol}
			return g.CmpIs(token.EQL, isLenCE, isK(0)) || g.CmpIs(token.LEQ, isLenCE, isK(0)) || g.CmpIs(token.LSS, isLenCE, isK(1))
		})
		c.Check("prior-encoding", key, pos, prior, "the filter is installed although the response may already carry a non-identity Content-Encoding (double encoding); facts: "+m2FactStrsCtx(c.P, si.st.Block()))
		// (4) command arm
		arm := ""
		for _, fr := range m2Frames(c.P, si.st.Block()) {
			for _, clause := range m.consAt(fr.Block) {
				if len(clause) == 1 && clause[0].kind == "cmd" && clause[0].op == mdAtomEq {
					arm = clause[0].label
				}
			}
			if arm != "" {
				break
			}
		}
		armOfCtor[name] = arm
		c.Check("command-arm", key, pos, arm != "" && coding != "" && mdCmdCoding[arm] == coding, "the "+coding+" filter must be installed in the arm of the command that asks for that coding (GZIP -> gzip, BROTLI -> br); arm label: "+arm)
		// (5) constructor error
		safeOrder := mdEstablished(si.st.Block(), ctorErr(false))
		neverFails, failsOnlyOnLevel := true, true
		var lvlCall *ssa.CallCommon
		for _, r := range core.Returns(ctorFn) {
			rv := core.RetVals(r)
			ev := rv[len(rv)-1]
			if mdIsNil(ev) {
				continue
			}
			neverFails = false
			c2, idx := mdCallOf(ev)
			if c2 != nil && idx == 1 && len(ctorFn.Params) >= 2 && c2.StaticCallee() != nil && c2.StaticCallee().Name() == "NewWriterLevel" && len(c2.Args) == 2 && c2.Args[1] == ssa.Value(ctorFn.Params[1]) {
				lvlCall = c2
			} else {
				failsOnlyOnLevel = false
			}
		}
		why := ""
		okErr := safeOrder || neverFails
		if !okErr && failsOnlyOnLevel && lvlCall != nil {
			// level argument = rule.Action.Quality, validated range within the compressor's
			_, isQ := mdFieldLoadNamed(si.ctor.Call.Args[1], "Quality")
			lo, hi, haveRange := mdLevelRange(c.P, pkg, lvlCall)
			bs := quality[arm]
			inRange := isQ && haveRange && len(bs) > 0
			for _, b := range bs {
				if !b.hasLo || !b.has || b.lo < lo || b.hi > hi {
					inRange = false
				}
			}
			okErr = inRange
			why = fmt.Sprintf("constructor fails only for a level outside [%d,%d] (range known=%v); level is the rule's Quality=%v; ActionFileCheck bounds on accepting %s paths=%v", lo, hi, haveRange, isQ, arm, bs)
		}
		c.Check("ctor-error", key, pos, okErr, "res.Body is overwritten before the constructor's error is tested and the error is not excluded by configuration checks: on failure the response keeps a nil filter as body. "+why)
	}
	c.Min("body-filter", 2)
	c.Min("encoding-set", 2)
	c.Min("length-dropped", 2)
	c.Min("accept-gate", 2)
	c.Min("prior-encoding", 2)
	c.Min("command-arm", 2)
	c.Min("ctor-error", 2)

	// command tables agree
	if chk != nil {
		s := m.summarize(chk, 0)
		n := 0
		for k := range s.byCmd {
			if k == "*" {
				continue
			}
			n++
			c.Check("command-known", "mod_compress:"+k, chk.Pos(), handlerArms[k], "ActionFileCheck accepts "+k+" but compressHandler has no arm for it")
		}
		for k, live := range handlerArms {
			_, acc := s.byCmd[k]
			c.Check("command-known", "mod_compress.handler:"+k, handler.Pos(), acc || !live, "compressHandler has an arm for "+k+", which ActionFileCheck rejects")
		}
		if n == 0 {
			c.Check("command-known", "mod_compress:none", chk.Pos(), false, "no accepted command found")
		}
	}
	c.Min("command-known", 5)

	// ---- (6) the filters --------------------------------------------------------
	for _, tn := range []struct{ typ, ctor string }{{"GzipFilter", "NewGzipFilter"}, {"BrotliFilter", "NewBrotliFilter"}} {
		tobj, _ := c.P.Obj(pkg, tn.typ).(*types.TypeName)
		ctor := c.P.Func(pkg, tn.ctor)
		read := c.P.Func(pkg, tn.typ+".Read")
		cls := c.P.Func(pkg, tn.typ+".Close")
		if tobj == nil || ctor == nil || read == nil || cls == nil {
			c.Missing(pkg + "." + tn.typ + " / " + tn.ctor + " / Read / Close")
			continue
		}
		c.Analysed(core.FuncKey(ctor), core.FuncKey(read), core.FuncKey(cls))
		if !mdNeedParams(c, 1, ctor, cls) || !mdNeedParams(c, 2, read) {
			continue
		}
		T := tobj.Type()
		fWriter := mdFieldOfType(T, func(t types.Type) bool {
			s := types.TypeString(t, nil)
			return strings.HasSuffix(s, "gzip.Writer") || strings.HasSuffix(s, "brotli.Writer")
		})
		fBuf := mdFieldOfType(T, func(t types.Type) bool { return types.TypeString(t, nil) == "bytes.Buffer" })
		fSrc := mdFieldOfType(T, func(t types.Type) bool {
			s := types.TypeString(t, nil)
			return s == "io.ReadCloser" || s == "io.Reader"
		})
		fClosed := mdFieldOfType(T, func(t types.Type) bool { return types.TypeString(t, nil) == "bool" })
		if fWriter == nil || fBuf == nil || fSrc == nil || fClosed == nil {
			c.Check("filter-ctor", tn.typ+":fields", tobj.Pos(), false, "cannot identify the writer / buffer / source / closed fields of "+tn.typ+" by type")
			continue
		}
		// constructor
		wOK, sOK := false, false
		core.Instrs(ctor, func(in ssa.Instruction) {
			st, ok := in.(*ssa.Store)
			if !ok {
				return
			}
			fa, ok := st.Addr.(*ssa.FieldAddr)
			if !ok {
				return
			}
			switch core.FieldObj(fa.X, fa.Field) {
			case fWriter:
				if c2, _ := mdCallOf(st.Val); c2 != nil && len(c2.Args) >= 1 && mdAddrOfField(core.StripConv(c2.Args[0]), fBuf, fa.X) {
					wOK = true
				}
			case fSrc:
				if core.StripConv(st.Val) == ssa.Value(ctor.Params[0]) {
					sOK = true
				}
			}
		})
		c.Check("filter-ctor", tn.typ+":writer-into-own-buffer", ctor.Pos(), wOK, "the compressor must be constructed over the filter's own buffer")
		c.Check("filter-ctor", tn.typ+":keeps-source", ctor.Pos(), sOK, "the constructor must keep the given source as the data to compress")
		// Read
		recv := ssa.Value(read.Params[0])
		var copyCall *ssa.Call
		for _, call := range core.Calls(read, "io.CopyN", "io.Copy", "io.CopyBuffer") {
			cv, ok := call.(*ssa.Call)
			if !ok || len(cv.Call.Args) < 2 {
				continue
			}
			if mdLoadOfField(core.StripConv(cv.Call.Args[0]), fWriter, recv) && mdLoadOfField(core.StripConv(cv.Call.Args[1]), fSrc, recv) {
				copyCall = cv
			}
		}
		c.Check("filter-read", tn.typ+":copy", read.Pos(), copyCall != nil, "Read must copy from the source into the compressor")
		if copyCall == nil {
			continue
		}
		fromCopy := func(v ssa.Value, idx int) bool {
			c2, i := mdCallOf(v)
			return c2 == &copyCall.Call && i == idx
		}
		// copied(nonZero): the fact says the copy moved some / no bytes, in any
		// spelling (c != 0, 0 < c, c >= 1, !(c == 0); c == 0, c <= 0, c < 1, ...)
		copied := func(nonZero bool) func(f mdFact) bool {
			isC := func(v ssa.Value) bool { return fromCopy(v, 0) }
			isK := func(k int64) func(ssa.Value) bool {
				return func(v ssa.Value) bool { n, ok := mdIntConst(v); return ok && n == k }
			}
			return func(f mdFact) bool {
				g := core.Guard{Cond: f.Cond, Pol: f.Pol}
				if nonZero {
					return g.CmpIs(token.NEQ, isC, isK(0)) || g.CmpIs(token.GTR, isC, isK(0)) || g.CmpIs(token.GEQ, isC, isK(1))
				}
				return g.CmpIs(token.EQL, isC, isK(0)) || g.CmpIs(token.LEQ, isC, isK(0)) || g.CmpIs(token.LSS, isC, isK(1))
			}
		}
		// EOF is not a failure
		eofOK, sawErrRet := true, false
		for _, r := range core.Returns(read) {
			rv := core.RetVals(r)
			if len(rv) == 2 && fromCopy(rv[1], 1) {
				sawErrRet = true
				if !mdEstablished(r.Block(), func(f mdFact) bool {
					b, ok := f.Cond.(*ssa.BinOp)
					if !ok || (b.Op != token.NEQ && b.Op != token.EQL) || (b.Op == token.NEQ) != f.Pol {
						return false
					}
					isEOF := func(v ssa.Value) bool {
						u, ok := v.(*ssa.UnOp)
						if !ok {
							return false
						}
						g, ok := u.X.(*ssa.Global)
						return ok && g.Name() == "EOF" && (g.Pkg == nil || g.Pkg.Pkg.Path() == "io")
					}
					return (fromCopy(b.X, 1) && isEOF(b.Y)) || (fromCopy(b.Y, 1) && isEOF(b.X))
				}) {
					eofOK = false
				}
			}
		}
		c.Check("filter-read", tn.typ+":eof", read.Pos(), eofOK && sawErrRet, "Read must pass on copy errors but not io.EOF (the final chunk and the stream trailer would be lost)")
		// flush and finalise
		flushOK, closeOK, markOK := false, false, false
		for _, call := range core.AllCalls(read) {
			cc := call.Common()
			sc := cc.StaticCallee()
			if sc == nil || len(cc.Args) < 1 || !mdLoadOfField(cc.Args[0], fWriter, recv) {
				continue
			}
			b := call.(ssa.Instruction).Block()
			switch sc.Name() {
			case "Flush":
				if mdEstablished(b, copied(true)) {
					flushOK = true
				}
			case "Close":
				if mdEstablished(b, copied(false)) {
					closeOK = true
					// the closed flag is tested before and set in the same region
					if mdEstablished(b, func(f mdFact) bool { return !f.Pol && mdLoadOfField(f.Cond, fClosed, recv) }) {
						markOK = true
					}
				}
			}
		}
		setClosed := false
		core.Instrs(read, func(in ssa.Instruction) {
			if st, ok := in.(*ssa.Store); ok && mdAddrOfField(st.Addr, fClosed, recv) && mdIsTrue(st.Val) {
				setClosed = true
			}
		})
		c.Check("filter-read", tn.typ+":flush", read.Pos(), flushOK, "after copying data Read must Flush the compressor so that the buffer holds output")
		c.Check("filter-read", tn.typ+":finalise", read.Pos(), closeOK && markOK && setClosed, fmt.Sprintf("when nothing more was copied Read must Close the compressor once (writes the stream trailer): close under copied==0=%v, guarded by !closed=%v, closed set=%v", closeOK, markOK, setClosed))
		// output
		outOK := false
		for _, r := range core.Returns(read) {
			rv := core.RetVals(r)
			if len(rv) != 2 {
				continue
			}
			c0, i0 := mdCallOf(rv[0])
			c1, i1 := mdCallOf(rv[1])
			if c0 != nil && c0 == c1 && i0 == 0 && i1 == 1 && core.CallIs(c0, "bytes.Buffer.Read") && len(c0.Args) == 2 && mdAddrOfField(c0.Args[0], fBuf, recv) && c0.Args[1] == ssa.Value(read.Params[1]) {
				outOK = true
			}
		}
		c.Check("filter-read", tn.typ+":output", read.Pos(), outOK, "Read must return what the filter's buffer yields for the caller's slice")
		// Close
		clOK := false
		for _, call := range core.AllCalls(cls) {
			cc := call.Common()
			if cc.IsInvoke() && cc.Method.Name() == "Close" && mdLoadOfField(cc.Value, fSrc, ssa.Value(cls.Params[0])) {
				clOK = true
			}
		}
		c.Check("filter-close", tn.typ, cls.Pos(), clOK, "Close must close the wrapped source (the backend body)")
	}
	c.Min("filter-ctor", 4)
	c.Min("filter-read", 10)
	c.Min("filter-close", 2)
}

// mdAcceptTest: cond is HasToken(x, "tok") or a call of a package function
// whose only return is HasToken(param0, "tok"); returns tok and x.
func mdAcceptTest(p *core.Prog, pkg string, cond ssa.Value) (string, ssa.Value) {
	c2, _ := mdCallOf(cond)
	if c2 == nil {
		return "", nil
	}
	if core.CallIs(c2, "bfe_http.HasToken") && len(c2.Args) == 2 {
		if t, ok := core.ConstString(c2.Args[1]); ok {
			return t, c2.Args[0]
		}
		return "", nil
	}
	sc := c2.StaticCallee()
	if sc == nil || core.FuncPkgRel(sc) != pkg || len(sc.Params) != 1 || len(c2.Args) != 1 {
		return "", nil
	}
	rets := core.Returns(sc)
	if len(rets) != 1 || len(rets[0].Results) != 1 {
		return "", nil
	}
	c3, _ := mdCallOf(rets[0].Results[0])
	if c3 == nil || !core.CallIs(c3, "bfe_http.HasToken") || len(c3.Args) != 2 || c3.Args[0] != ssa.Value(sc.Params[0]) {
		return "", nil
	}
	if t, ok := core.ConstString(c3.Args[1]); ok {
		return t, c2.Args[0]
	}
	return "", nil
}

// mdLevelRange: the admissible level range of the compressor constructor
// called by call (compress/gzip: [HuffmanOnly, BestCompression]).
func mdLevelRange(p *core.Prog, pkg string, call *ssa.CallCommon) (lo, hi int64, ok bool) {
	sc := call.StaticCallee()
	if sc == nil || sc.Pkg == nil || sc.Pkg.Pkg.Path() != "compress/gzip" {
		return 0, 0, false
	}
	scope := sc.Pkg.Pkg.Scope()
	l, ok1 := scope.Lookup("HuffmanOnly").(*types.Const)
	h, ok2 := scope.Lookup("BestCompression").(*types.Const)
	if !ok1 || !ok2 {
		return 0, 0, false
	}
	lo, _ = constant.Int64Val(l.Val())
	hi, _ = constant.Int64Val(h.Val())
	return lo, hi, true
}
