package rules

import (
	"fmt"
	"go/token"
	"go/types"
	"sort"
	"strings"

	"golang.org/x/tools/go/ssa"

	"verif/internal/core"
)

// Second-round rules of C19, C21 and C22: invariants of the merge step of the
// IP dictionary, of the slide / pooling / wait discipline of the body pipe and
// of the unread mechanism of the buffered reader.

// ---------------------------------------------------------------- shared

// uuNetGlobal: v is a load of a package-level variable of package net; returns its name.
func uuNetGlobal(v ssa.Value) string {
	u, ok := uuResolve(v).(*ssa.UnOp)
	if !ok || u.Op != token.MUL {
		return ""
	}
	g, ok := u.X.(*ssa.Global)
	if !ok || g.Pkg == nil || g.Pkg.Pkg.Path() != "net" {
		return ""
	}
	return g.Name()
}

// uuIsBuiltinCall: in is a call of the named builtin.
func uuIsBuiltinCall(in ssa.Instruction, name string) *ssa.Call {
	call, ok := in.(*ssa.Call)
	if !ok {
		return nil
	}
	if b, isB := call.Call.Value.(*ssa.Builtin); isB && b.Name() == name {
		return call
	}
	return nil
}

// uuForwardSlice returns every instruction that uses v or a value computed
// from v (through phis, conversions, arithmetic, comparisons, selections and
// the results of calls that receive it). Memory is not followed.
func uuForwardSlice(v ssa.Value) map[ssa.Instruction]bool {
	out := map[ssa.Instruction]bool{}
	seen := map[ssa.Value]bool{v: true}
	work := []ssa.Value{v}
	for len(work) > 0 {
		x := work[len(work)-1]
		work = work[:len(work)-1]
		refs := x.Referrers()
		if refs == nil {
			continue
		}
		for _, r := range *refs {
			out[r] = true
			val, isVal := r.(ssa.Value)
			if !isVal || seen[val] {
				continue
			}
			if _, isMC := r.(*ssa.MakeClosure); isMC {
				continue
			}
			seen[val] = true
			work = append(work, val)
		}
	}
	return out
}

// uuSlide is the verdict on one "slide to the front" of a cursor buffer.
type uuSlide struct {
	pos    token.Pos
	ok     bool
	detail string
}

// uuSlideChecks finds every place of fn where the read cursor rF is reset to 0
// while the write cursor is rebased with w -= r (unread data is kept) and
// demands that the unread region buf[r:w] was moved to the front before: a
// copy that dominates both cursor stores, whose source is buf[r:] / buf[r:w]
// and whose destination starts at buf[0] and is not capped below the number
// of unread bytes.
func uuSlideChecks(fn *ssa.Function, bufF, rF, wF *types.Var) []uuSlide {
	var out []uuSlide
	isLoad := func(v ssa.Value, f *types.Var) bool { g, _ := uuFieldLoad(v); return g == f }
	isLenBuf := func(v ssa.Value) bool {
		call, ok := uuResolve(v).(*ssa.Call)
		if !ok {
			return false
		}
		b, isB := call.Call.Value.(*ssa.Builtin)
		return isB && b.Name() == "len" && isLoad(call.Call.Args[0], bufF)
	}
	ofBuf := func(v ssa.Value) bool {
		if isLoad(v, bufF) {
			return true
		}
		sl, ok := uuResolve(v).(*ssa.Slice)
		return ok && isLoad(sl.X, bufF)
	}
	for _, in := range uuInstrs(fn) {
		st, ok := in.(*ssa.Store)
		if !ok {
			continue
		}
		if f, _ := uuFieldAddr(st.Addr); f != rF {
			continue
		}
		if k, isK := uuConstInt(st.Val); !isK || k != 0 {
			continue
		}
		var wst *ssa.Store
		for _, in2 := range st.Block().Instrs {
			st2, ok := in2.(*ssa.Store)
			if !ok {
				continue
			}
			if f, _ := uuFieldAddr(st2.Addr); f != wF {
				continue
			}
			if b, isB := st2.Val.(*ssa.BinOp); isB && b.Op == token.SUB && isLoad(b.X, wF) && isLoad(b.Y, rF) {
				wst = st2
			}
		}
		if wst == nil {
			continue // not a slide (w = 0: nothing unread)
		}
		var why []string
		n := 0
		for _, in2 := range uuInstrs(fn) {
			cp := uuIsBuiltinCall(in2, "copy")
			if cp == nil || !ofBuf(cp.Call.Args[0]) || !ofBuf(cp.Call.Args[1]) {
				continue
			}
			if !core.Dominates(cp, st) || !core.Dominates(cp, wst) {
				continue
			}
			n++
			// source: buf[r:] or buf[r:w]
			src, _ := uuResolve(cp.Call.Args[1]).(*ssa.Slice)
			if src == nil || src.Low == nil || !isLoad(src.Low, rF) || (src.High != nil && !isLoad(src.High, wF)) {
				why = append(why, "the copy source is "+core.Render(cp.Call.Args[1])+", not the unread region buf[r:w]")
			}
			// destination: buf, buf[0:], or buf[0:h] with h >= w-r evident
			if !isLoad(cp.Call.Args[0], bufF) {
				dst, _ := uuResolve(cp.Call.Args[0]).(*ssa.Slice)
				lowOK := dst != nil && (dst.Low == nil || func() bool { k, ok := uuConstInt(dst.Low); return ok && k == 0 }())
				highOK := dst != nil && (dst.High == nil || isLenBuf(dst.High) || isLoad(dst.High, wF) || func() bool {
					b, ok := uuResolve(dst.High).(*ssa.BinOp)
					return ok && b.Op == token.SUB && isLoad(b.X, wF) && isLoad(b.Y, rF)
				}())
				if !lowOK {
					why = append(why, "the copy destination "+core.Render(cp.Call.Args[0])+" does not start at buf[0], but r is reset to 0")
				}
				if !highOK {
					why = append(why, "the copy destination "+core.Render(cp.Call.Args[0])+" is capped: copy moves min(len(dst), len(src)) bytes, so unread bytes beyond the cap stay behind while w is still reduced by r")
				}
			}
		}
		if n == 0 {
			why = append(why, "no copy within buf precedes the cursor reset: the unread bytes are not moved to the front")
		}
		out = append(out, uuSlide{st.Pos(), len(why) == 0, strings.Join(why, "; ")})
	}
	return out
}

// ---------------------------------------------------------------- C19: merge step

// c19bound: v is a load of ipPair.startIP / ipPair.endIP; returns the field
// and the pair it is read from (address or value) with its rendering.
func c19bound(v ssa.Value, startFld, endFld *types.Var) (fld *types.Var, elem ssa.Value, ok bool) {
	switch x := uuResolve(v).(type) {
	case *ssa.UnOp:
		if x.Op != token.MUL {
			return nil, nil, false
		}
		if fa, isFA := x.X.(*ssa.FieldAddr); isFA {
			if f := core.FieldObj(fa.X, fa.Field); f != nil && (f == startFld || f == endFld) {
				return f, fa.X, true
			}
		}
	case *ssa.Field:
		if f := core.FieldObj(x.X, x.Field); f != nil && (f == startFld || f == endFld) {
			return f, x.X, true
		}
	}
	return nil, nil, false
}

// c19elemKey names the pair a bound is read from; a local copy of an element
// (`lower := items[j]`) is named after the element it was copied from.
func c19elemKey(v ssa.Value) string {
	if a, ok := v.(*ssa.Alloc); ok {
		if s := uuSingleStore(a); s != nil {
			return core.Render(s)
		}
	}
	return core.Render(v)
}

// mergeRules checks the merge step that IPItems.Sort runs between its two
// sorts (every in-package function reachable from Sort).
func (x *c19ctx) mergeRules(startFld, endFld *types.Var) {
	c := x.c
	var scope []*ssa.Function
	inScope := map[*ssa.Function]bool{}
	for _, f := range core.TransitiveCallees(x.sortFn, 5) {
		if core.FuncPkgRel(f) == c19pkg && !inScope[f] {
			inScope[f] = true
			scope = append(scope, f)
			c.Analysed(core.FuncKey(f))
		}
	}
	short := func(fn *ssa.Function) string { return strings.TrimPrefix(uuShort(fn), "ipdict.") }
	// isPairAddr: v addresses an ipPair (an element of the slice, or the pair a
	// helper receives by pointer); the key identifies the pair within fn.
	isPairAddr := func(v ssa.Value) (string, bool) {
		if v == nil {
			return "", false
		}
		pt, ok := v.Type().Underlying().(*types.Pointer)
		if !ok || !strings.HasSuffix(core.TypeStr(pt.Elem()), "ipdict.ipPair") {
			return "", false
		}
		if ia, isIA := v.(*ssa.IndexAddr); isIA {
			return fmt.Sprintf("%p|%p", uuResolve(ia.X), ia.Index), true
		}
		return fmt.Sprintf("%p", v), true
	}

	// ---- (1) operands of the ordering / equality tests are stored bounds ----
	var okArg func(v ssa.Value, fn *ssa.Function, depth int) bool
	okArg = func(v ssa.Value, fn *ssa.Function, depth int) bool {
		if _, _, ok := c19bound(v, startFld, endFld); ok {
			return true
		}
		if uuNetGlobal(v) != "" {
			return true
		}
		prm, isPrm := uuResolve(v).(*ssa.Parameter)
		if !isPrm || depth >= 2 || fn == x.sortFn {
			return false
		}
		pi := -1
		for i, q := range fn.Params {
			if q == prm {
				pi = i
			}
		}
		sites := 0
		for _, caller := range scope {
			for _, call := range core.AllCalls(caller) {
				if call.Common().StaticCallee() != fn || pi < 0 || pi >= len(call.Common().Args) {
					continue
				}
				sites++
				if !okArg(call.Common().Args[pi], caller, depth+1) {
					return false
				}
			}
		}
		return sites > 0
	}
	type zeroTest struct {
		call   *ssa.Call
		fn     *ssa.Function
		fld    *types.Var
		elem   ssa.Value
		global string
	}
	var zeroTests []zeroTest
	for _, fn := range scope {
		ord := uuOrd{}
		for _, in := range uuInstrs(fn) {
			call, ok := in.(*ssa.Call)
			if !ok || !core.CallIs(&call.Call, "bytes.Compare", "bytes.Equal", "net.IP.Equal") || len(call.Call.Args) != 2 {
				continue
			}
			var bad []string
			for _, a := range call.Call.Args {
				if !okArg(a, fn, 0) {
					bad = append(bad, core.Render(a))
				}
			}
			c.Check("merge-operands", ord.key(short(fn), "compare"), call.Pos(), len(bad) == 0,
				"the merge step of IPItems.Sort compares "+strings.Join(bad, " and ")+", which is not a stored bound (ipPair.startIP/endIP) but a value computed from one: address arithmetic is not order-preserving at the ends of the address space (an increment of ff…ff wraps to ::), so whether overlapping or nested ranges are merged can no longer be established")
			for i, a := range call.Call.Args {
				if g := uuNetGlobal(a); g != "" {
					f, elem, _ := c19bound(call.Call.Args[1-i], startFld, endFld)
					zeroTests = append(zeroTests, zeroTest{call, fn, f, elem, g})
				}
			}
		}
	}
	c.Min("merge-operands", 4)

	// ---- (2) absorbing a range: the guard reads the bounds it protects ----
	nAbsorb := 0
	for _, fn := range scope {
		ord := uuOrd{}
		for _, in := range uuInstrs(fn) {
			st, ok := in.(*ssa.Store)
			if !ok {
				continue
			}
			tf, tbase := uuFieldAddr(st.Addr)
			if tf != startFld && tf != endFld {
				continue
			}
			if _, isElem := isPairAddr(tbase); !isElem {
				continue
			}
			sf, sbase, isBound := c19bound(st.Val, startFld, endFld)
			if !isBound {
				continue
			}
			nAbsorb++
			tgt, src := c19elemKey(tbase), c19elemKey(sbase)
			kind := "absorb-" + strings.TrimSuffix(tf.Name(), "IP")
			var why []string
			if sf != tf {
				why = append(why, tf.Name()+" of "+tgt+" is overwritten with "+sf.Name()+" of "+src)
			}
			found := false
			for _, g := range uuGuardsAt(st.Block()) {
				call, set, isCmp := uuCmpSet(g.Cond, g.Pol)
				if !isCmp {
					continue
				}
				fa, ea, okA := c19bound(call.Call.Args[0], startFld, endFld)
				fb, eb, okB := c19bound(call.Call.Args[1], startFld, endFld)
				if !okA || !okB {
					continue
				}
				ra, rb := c19elemKey(ea), c19elemKey(eb)
				if ra == tgt && rb == src {
					fa, fb, ra, rb = fb, fa, rb, ra
					set[0], set[2] = set[2], set[0]
				}
				// now (a) should be the absorbed range's end, (b) the bound being overwritten
				if ra != src || rb != tgt || fa != endFld || fb != tf {
					continue
				}
				found = true
				if !set[2] || set[0] {
					why = append(why, "the guard holds for compare("+src+".endIP, "+tgt+"."+tf.Name()+") in "+uuSetStr(set)+"; it must hold when the absorbed range ends above the bound ('>') and must not hold when it ends below ('<')")
				}
			}
			if !found {
				why = append(why, "no guard compares "+src+".endIP (the end of the range being absorbed) with "+tgt+"."+tf.Name()+" (the bound being overwritten)")
			}
			c.Check("merge-guard", ord.key(short(fn), kind), st.Pos(), len(why) == 0,
				"the merge step stores "+src+"."+sf.Name()+" into "+tgt+"."+tf.Name()+" although "+strings.Join(why, "; ")+": a nested range would shrink the range that contains it, or disjoint ranges would be joined")
		}
	}
	c.Min("merge-guard", 2)

	// ---- (3) tombstones ----
	type tomb struct {
		fields  map[*types.Var]string
		pos     token.Pos
		fn      *ssa.Function
		element string
		elem    ssa.Value
	}
	tombs := map[string]*tomb{}
	var tombKeys []string
	written := map[string]bool{}
	for _, fn := range scope {
		for _, in := range uuInstrs(fn) {
			st, ok := in.(*ssa.Store)
			if !ok {
				continue
			}
			tf, tbase := uuFieldAddr(st.Addr)
			if tf != startFld && tf != endFld {
				continue
			}
			pk, isElem := isPairAddr(tbase)
			g := uuNetGlobal(st.Val)
			if !isElem || g == "" {
				continue
			}
			k := short(fn) + "|" + pk
			t := tombs[k]
			if t == nil {
				t = &tomb{fields: map[*types.Var]string{}, fn: fn, element: core.Render(tbase), elem: tbase}
				tombs[k] = t
				tombKeys = append(tombKeys, k)
			}
			t.fields[tf] = g
			t.pos = st.Pos()
			written[g] = true
		}
	}
	// a tombstone written by a private helper that receives the entry through
	// its parameters (`clearPair(items, k)`, `func(p *ipPair){…}(&items[j])`)
	// is one instance per call site of the helper: sharing the helper between
	// two places that mark entries as merged does not make one of them vanish
	paramOnly := func(fn *ssa.Function, elem ssa.Value) bool {
		isPrm := func(v ssa.Value) bool { _, ok := uuResolve(v).(*ssa.Parameter); return ok }
		switch e := elem.(type) {
		case *ssa.Parameter:
			return true
		case *ssa.IndexAddr:
			return isPrm(e.X) && isPrm(e.Index)
		}
		return false
	}
	helperSites := func(fn *ssa.Function) []ssa.CallInstruction {
		if fn.Parent() == nil && (fn.Object() == nil || fn.Object().Exported()) {
			return nil
		}
		sites := c.P.CallSites(fn)
		for _, s := range sites {
			if _, isCall := s.(*ssa.Call); !isCall || !inScope[s.Parent()] || s.Parent() == fn {
				return nil
			}
		}
		return sites
	}
	ordT := uuOrd{}
	for _, k := range tombKeys {
		t := tombs[k]
		var why []string
		for _, f := range []*types.Var{startFld, endFld} {
			switch g, set := t.fields[f]; {
			case !set:
				why = append(why, f.Name()+" keeps its old value")
			case g != "IPv6zero":
				why = append(why, f.Name()+" is set to net."+g+", not to net.IPv6zero (the all-zero 16-byte value, the minimum under bytes.Compare)")
			}
		}
		type inst struct {
			fn   *ssa.Function
			pos  token.Pos
			what string
		}
		insts := []inst{{t.fn, t.pos, t.element}}
		if sites := helperSites(t.fn); len(sites) > 0 && paramOnly(t.fn, t.elem) {
			insts = nil
			for _, s := range sites {
				var args []string
				for _, a := range s.Common().Args {
					args = append(args, core.Render(a))
				}
				insts = append(insts, inst{s.Parent(), s.Pos(), short(t.fn) + "(" + strings.Join(args, ", ") + ")"})
			}
		}
		for _, i := range insts {
			c.Check("tombstone-write", ordT.key(short(i.fn), "tombstone"), i.pos, len(why) == 0,
				"the merge step marks "+i.what+" as merged but "+strings.Join(why, "; ")+": the re-sort in IPItems.Sort must move every merged entry behind all live ranges (start = ::) so that the truncation by mergedNum cuts exactly them, and the skip test must recognise it (end = ::)")
		}
	}
	c.Min("tombstone-write", 2)

	tested := map[string]bool{}
	ordZ := map[*ssa.Function]uuOrd{}
	for _, z := range zeroTests {
		if ordZ[z.fn] == nil {
			ordZ[z.fn] = uuOrd{}
		}
		ok, detail := false, ""
		switch {
		case z.fld == endFld:
			ok = true
			tested[z.global] = true
		case z.fld == startFld:
			// acceptable only in conjunction with an end test on the same pair
			for _, z2 := range zeroTests {
				if z2.fn != z.fn || z2.fld != endFld || c19elemKey(z2.elem) != c19elemKey(z.elem) {
					continue
				}
				isRes := func(call *ssa.Call) func(g core.Guard) bool {
					return func(g core.Guard) bool { return g.Pol && uuResolve(g.Cond) == ssa.Value(call) }
				}
				if uuHasGuard(z.call.Block(), isRes(z2.call)) || uuHasGuard(z2.call.Block(), isRes(z.call)) {
					ok = true
				}
			}
			detail = "the 'already merged' test reads startIP of " + core.Render(z.elem) + ": a loaded range may start at ::/0.0.0.0 (checkIPPair only demands start <= end), so a live range is taken for a merged entry and never absorbs the ranges nested in it; only endIP == :: implies that the entry holds no address above ::"
		default:
			detail = "a comparison with net." + z.global + " in the merge step does not read a bound of an ipPair the rule can follow (" + core.Render(z.call) + ")"
		}
		c.Check("tombstone-test", ordZ[z.fn].key(short(z.fn), "zero-test"), z.call.Pos(), ok, detail)
	}
	c.Min("tombstone-test", 2)
	var missing []string
	for g := range written {
		if !tested[g] {
			missing = append(missing, "net."+g)
		}
	}
	sort.Strings(missing)
	c.Check("tombstone-test", "written-value-recognised", x.sortFn.Pos(), len(written) > 0 && len(missing) == 0,
		"merged entries are marked with "+strings.Join(missing, ", ")+" but no skip test of the merge step compares endIP with that value: merged entries would be merged (and counted in mergedNum) again")
	_ = nAbsorb
}

// ---------------------------------------------------------------- C21: stale reads across Wait, pool discipline

// c21FreshAfterWait: a value read from a field guarded by p.mu must not be
// used after the lock was given up without being read again. classify tells,
// for an instruction, whether it gives the lock up and takes it again (1:
// Cond.Wait, an Unlock that a Lock follows — the function goes on working on
// the shared state, so every use of a value read before is a stale snapshot)
// or gives it up for good (2: a final explicit Unlock — a snapshot taken under
// the lock may still be compared and returned, exactly as with a deferred
// Unlock, but it must not be acted through: no call on / with it, no store to
// shared memory, no send, no close). The staleness itself is a forward
// dataflow (uuStaleUse): a value is fresh again as soon as the field was read
// again on the path, phis take the state of the edge they are entered over.
func c21FreshAfterWait(c *core.Ctx, pkgFns []*ssa.Function, fields []*types.Var, classify func(in ssa.Instruction) int, short func(fn *ssa.Function) string) {
	anyUse := func(in ssa.Instruction) bool {
		_, isDbg := in.(*ssa.DebugRef)
		return !isDbg
	}
	acting := func(in ssa.Instruction) bool {
		switch v := in.(type) {
		case ssa.CallInstruction:
			if b, isB := v.Common().Value.(*ssa.Builtin); isB && (b.Name() == "len" || b.Name() == "cap") {
				return false
			}
			return true
		case *ssa.Store:
			_, local := v.Addr.(*ssa.Alloc)
			return !local
		case *ssa.Send, *ssa.MapUpdate, *ssa.Panic:
			return true
		}
		return false
	}
	for _, fn := range pkgFns {
		strict, lenient := map[ssa.Instruction]bool{}, map[ssa.Instruction]bool{}
		for _, in := range uuInstrs(fn) {
			switch classify(in) {
			case 1:
				strict[in] = true
			case 2:
				lenient[in] = true
			}
		}
		if len(strict) == 0 && len(lenient) == 0 {
			continue
		}
		for _, f := range fields {
			loads := map[ssa.Instruction]bool{}
			var firstPos token.Pos
			core.Instrs(fn, func(in ssa.Instruction) {
				fa, ok := in.(*ssa.FieldAddr)
				if !ok || core.FieldObj(fa.X, fa.Field) != f || fa.Referrers() == nil {
					return
				}
				if a, isAlloc := fa.X.(*ssa.Alloc); isAlloc && a.Heap {
					return
				}
				for _, r := range *fa.Referrers() {
					ld, isLd := r.(*ssa.UnOp)
					if !isLd || ld.Op != token.MUL {
						continue
					}
					loads[ld] = true
					if firstPos == token.NoPos {
						firstPos = ld.Pos()
					}
				}
			})
			if len(loads) == 0 {
				continue
			}
			isLoad := func(in ssa.Instruction) bool { return loads[in] }
			ok, detail, pos := true, "", firstPos
			report := func(u ssa.Instruction, how string) {
				ok = false
				if u.Pos() != token.NoPos {
					pos = u.Pos()
				}
				detail = fmt.Sprintf("%s uses a value read from Pipe.%s (%s) %s without reading the field again: the lock is not held in between, so the field can have changed (buffer released to the pool and handed to another pipe, error set); the function acts on a stale snapshot", short(fn), f.Name(), strings.TrimSpace(u.String()), how)
			}
			if len(strict) > 0 {
				if u := uuStaleUse(fn, strict, isLoad, anyUse); u != nil {
					report(u, "on a path that comes from a point where p.mu was given up and taken again (Cond.Wait / Unlock…Lock)")
				}
			}
			if ok && len(lenient) > 0 {
				if u := uuStaleUse(fn, lenient, isLoad, acting); u != nil {
					report(u, "after p.mu was unlocked, in a call / store (a snapshot may only be compared and returned)")
				}
			}
			c.Check("fresh-after-wait", short(fn)+":"+f.Name(), pos, ok, detail)
		}
	}
}

// c21PoolRelease: a buffer handed back to a sync.Pool is clean, is not
// touched afterwards and is no longer reachable through the pipe.
func c21PoolRelease(c *core.Ctx, pkgFns []*ssa.Function, bF *types.Var, short func(fn *ssa.Function) string) {
	isLoadOfB := func(v ssa.Value) (ssa.Value, bool) {
		f, base := uuFieldLoad(v)
		return base, f == bF && f != nil
	}
	for _, fn := range pkgFns {
		ord := uuOrd{}
		for _, put := range uuCallsIn(fn, "sync.Pool.Put") {
			if len(put.Common().Args) != 2 {
				continue
			}
			base, isB := isLoadOfB(put.Common().Args[1])
			if !isB {
				continue
			}
			pi := put.(ssa.Instruction)
			key := ord.key(short(fn), "put")
			sameBase := func(v ssa.Value) bool { return core.Render(v) == core.Render(base) }
			isClear := func(in ssa.Instruction) bool {
				st, ok := in.(*ssa.Store)
				if !ok || !uuIsNil(st.Val) {
					return false
				}
				f, b := uuFieldAddr(st.Addr)
				return f == bF && sameBase(b)
			}
			isBufUse := func(in ssa.Instruction) bool {
				ci, ok := in.(ssa.CallInstruction)
				if !ok || in == pi {
					return false
				}
				cc := ci.Common()
				if cc.IsInvoke() {
					if _, isB := isLoadOfB(cc.Value); isB {
						return true
					}
				}
				for _, a := range cc.Args {
					if _, isB := isLoadOfB(a); isB {
						return true
					}
				}
				return false
			}
			c.Check("pool-release", key+":cleared", put.Pos(), core.MustPass(fn, pi, isClear) == nil,
				short(fn)+" puts the pipe's buffer into the pool but a path to its exit leaves Pipe.b pointing at it: the buffer would be shared between this pipe and the next taker of the pool")
			use := core.ReachAvoiding(fn, pi, isClear, isBufUse)
			c.Check("pool-release", key+":no-use-after-put", put.Pos(), use == nil,
				short(fn)+" uses the buffer after it was handed to the pool (another pipe may already own and fill it)")
			reset := false
			for _, in := range uuInstrs(fn) {
				call, ok := in.(*ssa.Call)
				if !ok || !call.Call.IsInvoke() || call.Call.Method.Name() != "Reset" {
					continue
				}
				if _, isB := isLoadOfB(call.Call.Value); isB && core.Dominates(call, pi) {
					reset = true
				}
			}
			c.Check("pool-release", key+":reset-before-put", put.Pos(), reset,
				short(fn)+" returns the buffer to the pool without Reset(): NewPipeFromBufferPool uses pooled buffers as they are, so unread bytes of this pipe would be delivered by the next pipe")
		}
	}
}

// ---------------------------------------------------------------- C22: unread after a read that bypassed the buffer

type c22unreadFields struct {
	buf, r, w, rd, lastByte, lastRune *types.Var
}

// c22BypassAndUnread: (1) a read that hands the caller's slice straight to the
// underlying reader happens only with an empty buffer and records the last
// byte it delivered; (2) in the state such a read leaves behind (r == w,
// lastByte >= 0) every successful UnreadByte stores lastByte into the buffer
// cell the read cursor is moved to; (3) every slide of the buffer moves the
// whole unread region.
func c22BypassAndUnread(c *core.Ctx, methods []*ssa.Function, F c22unreadFields, unread *ssa.Function) {
	isLoad := func(v ssa.Value, f *types.Var) bool { g, _ := uuFieldLoad(v); return g == f && f != nil }
	ofBuf := func(v ssa.Value) bool {
		if isLoad(v, F.buf) {
			return true
		}
		sl, ok := uuResolve(v).(*ssa.Slice)
		return ok && isLoad(sl.X, F.buf)
	}
	for _, fn := range methods {
		if len(fn.Params) == 0 {
			continue
		}
		name := "Reader." + fn.Name()
		ord := uuOrd{}
		for _, in := range uuInstrs(fn) {
			call, ok := in.(*ssa.Call)
			if !ok || !call.Call.IsInvoke() || call.Call.Method.Name() != "Read" || len(call.Call.Args) != 1 {
				continue
			}
			if !isLoad(call.Call.Value, F.rd) || ofBuf(call.Call.Args[0]) {
				continue
			}
			key := ord.key(name, "direct")
			empty := uuHasRelCtx(c.P, call.Block(), func(r uuRel) bool {
				return r.Op == token.EQL && ((isLoad(r.X, F.r) && isLoad(r.Y, F.w)) || (isLoad(r.X, F.w) && isLoad(r.Y, F.r)))
			})
			c.Check("bypass-state", key+":empty-buffer", call.Pos(), empty,
				name+" reads from the underlying reader straight into the caller's slice although b.r == b.w (nothing buffered) is not established: buffered bytes would be overtaken")
			lastOK, runeOK := false, false
			for _, in2 := range uuInstrs(fn) {
				st, isSt := in2.(*ssa.Store)
				if !isSt || !core.Dominates(call, st) {
					continue
				}
				switch f, _ := uuFieldAddr(st.Addr); f {
				case F.lastByte:
					cv, _ := st.Val.(*ssa.Convert)
					if cv == nil {
						continue
					}
					ld, _ := cv.X.(*ssa.UnOp)
					if ld == nil || ld.Op != token.MUL {
						continue
					}
					ia, _ := ld.X.(*ssa.IndexAddr)
					if ia == nil || uuResolve(ia.X) != uuResolve(call.Call.Args[0]) {
						continue
					}
					if sub, isSub := ia.Index.(*ssa.BinOp); isSub && sub.Op == token.SUB && uuExtractOf(sub.X, call, 0) {
						if k, isK := uuConstInt(sub.Y); isK && k == 1 {
							lastOK = true
						}
					}
				case F.lastRune:
					if k, isK := uuConstInt(st.Val); isK && k < 0 {
						runeOK = true
					}
				}
			}
			c.Check("bypass-state", key+":records-last-byte", call.Pos(), lastOK,
				name+" does not record the last byte it delivered directly (lastByte = p[n-1]): UnreadByte can only restore a byte that never went through the buffer from lastByte")
			c.Check("bypass-state", key+":invalidates-rune", call.Pos(), runeOK,
				name+" does not invalidate lastRuneSize after a direct read: UnreadRune would step back over stale buffer content")
		}
		for i, s := range uuSlideChecks(fn, F.buf, F.r, F.w) {
			c.Check("slide", fmt.Sprintf("%s:slide#%d", name, i+1), s.pos, s.ok, name+" slides the buffer but "+s.detail+": buffered bytes are lost or delivered twice")
		}
	}
	c.Min("bypass-state", 3)
	c.Min("slide", 1)

	if unread == nil || len(unread.Params) == 0 {
		return
	}
	c.Analysed(core.FuncKey(unread))
	recv := ssa.Value(unread.Params[0])
	fieldOfLoad := func(v ssa.Value) *types.Var {
		if f, base := uuFieldLoadRaw(v); f != nil && base == recv {
			return f
		}
		return nil
	}
	type verdict struct {
		feasible int
		bad      string
	}
	verdicts := map[*ssa.Return]*verdict{}
	complete := core.EnumPaths(unread, 1, 4000, func(p *core.Path) {
		ret, isRet := p.Last().(*ssa.Return)
		if !isRet {
			return
		}
		rv := core.RetVals(ret)
		if len(rv) != 1 || !uuIsNil(rv[0]) {
			return
		}
		v := verdicts[ret]
		if v == nil {
			v = &verdict{}
			verdicts[ret] = v
		}
		// walk the path in execution order
		seq := 0
		stored := map[*types.Var]int{}        // field -> seq of the last store
		lastVal := map[*types.Var]ssa.Value{} // field -> last stored value
		entry := map[ssa.Value]*types.Var{}   // loads that still see the entry value
		loadSeq := map[ssa.Value]int{}
		type restore struct {
			idx ssa.Value
			seq int
		}
		var restores []restore
		feasible := true
		sym := func(x ssa.Value) (string, int64, bool) {
			if k, ok := uuConstInt(x); ok {
				return "", k, true
			}
			switch entry[x] {
			case F.r:
				return "r", 0, true
			case F.w:
				return "w", 0, true
			case F.lastByte:
				return "lb", 0, true
			}
			return "", 0, false
		}
		holds := func(op token.Token, a, b int64) bool {
			switch op {
			case token.EQL:
				return a == b
			case token.NEQ:
				return a != b
			case token.LSS:
				return a < b
			case token.LEQ:
				return a <= b
			case token.GTR:
				return a > b
			case token.GEQ:
				return a >= b
			}
			return false
		}
		// truth of a condition in the state r == w, 0 <= lastByte <= 255
		truth := func(cond ssa.Value) (val, known bool) {
			r, ok := uuRelOf(cond, true)
			if !ok {
				return false, false
			}
			xs, xk, okX := sym(r.X)
			ys, yk, okY := sym(r.Y)
			if !okX || !okY {
				return false, false
			}
			switch {
			case (xs == "r" && ys == "w") || (xs == "w" && ys == "r"):
				return holds(r.Op, 0, 0), true
			case xs == "lb" && ys == "", xs == "" && ys == "lb":
				op, k := r.Op, yk
				if xs == "" {
					op, k = uuFlip(r.Op), xk
				}
				all, none := true, true
				for _, probe := range []int64{0, 255, k - 1, k, k + 1} {
					if probe < 0 || probe > 255 {
						continue
					}
					if holds(op, probe, k) {
						none = false
					} else {
						all = false
					}
				}
				if all {
					return true, true
				}
				if none {
					return false, true
				}
			}
			return false, false
		}
		for bi, blk := range p.Blocks {
			for _, in := range blk.Instrs {
				seq++
				switch x := in.(type) {
				case *ssa.UnOp:
					if x.Op != token.MUL {
						continue
					}
					if f := fieldOfLoad(x); f != nil {
						loadSeq[x] = seq
						if _, was := stored[f]; !was {
							entry[x] = f
						}
					}
				case *ssa.Store:
					if f, base := uuFieldAddr(x.Addr); f != nil && base == recv {
						stored[f] = seq
						lastVal[f] = x.Val
						continue
					}
					ia, isIA := x.Addr.(*ssa.IndexAddr)
					if !isIA || fieldOfLoad(ia.X) != F.buf {
						continue
					}
					val := x.Val
					if cv, isCv := val.(*ssa.Convert); isCv {
						val = cv.X
					}
					if entry[val] == F.lastByte {
						restores = append(restores, restore{ia.Index, seq})
					}
				case *ssa.If:
					if bi+1 >= len(p.Blocks) || blk.Succs[0] == blk.Succs[1] {
						continue
					}
					taken := blk.Succs[0] == p.Blocks[bi+1]
					if val, known := truth(x.Cond); known && val != taken {
						feasible = false
					}
				}
			}
		}
		if !feasible {
			return
		}
		v.feasible++
		if v.bad != "" {
			return
		}
		sig := c22pathSig(p)
		if len(restores) == 0 {
			v.bad = "on the path [" + sig + "], which can be taken when b.r == b.w and lastByte >= 0 (the state a direct read leaves behind), no b.buf[…] = byte(b.lastByte) is executed: the cell the cursor steps back to holds bytes of an earlier fill, not the byte delivered last"
			return
		}
		okIdx := false
		rSeq, rStored := stored[F.r]
		for _, rs := range restores {
			if k, isK := uuConstInt(rs.idx); isK {
				if kv, isKV := uuConstInt(lastVal[F.r]); rStored && isKV && kv == k {
					okIdx = true
				}
				continue
			}
			if fieldOfLoad(rs.idx) == F.r && (!rStored || loadSeq[rs.idx] > rSeq) {
				okIdx = true
			}
		}
		if !okIdx {
			v.bad = "on the path [" + sig + "] lastByte is stored into a buffer cell that is not provably the one the read cursor b.r ends at"
		}
	})
	rets := core.Returns(unread)
	sort.Slice(rets, func(i, j int) bool { return rets[i].Pos() < rets[j].Pos() })
	name := "Reader." + unread.Name()
	c.Check("unread-restore", name+":paths", unread.Pos(), complete, "path enumeration of "+name+" is incomplete: undecided")
	n := 0
	for i, r := range rets {
		v := verdicts[r]
		if v == nil {
			continue
		}
		n++
		c.Check("unread-restore", fmt.Sprintf("%s:return#%d", name, i+1), r.Pos(), v.bad == "", name+" reports success although "+v.bad)
	}
	if n == 0 {
		c.Check("unread-restore", name+":success-return", unread.Pos(), false, name+" has no return of a nil error the rule can follow")
	}
	c.Min("unread-restore", 2)
}
