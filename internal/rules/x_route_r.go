package rules

// Robustness layer of the routing properties (C10, C11, C12).
//
// rtPathsR: feasible-path enumeration that looks through private helpers. A
// path of F that executes a call of an unexported function (or local closure)
// of F's package continues through every feasible path of that helper: the
// helper's items are spliced in after the call item, its parameters resolve to
// the arguments of that call (rtPath.R), the call's results resolve to the
// values the helper returned on that path, and branch conditions over them are
// evaluated like any other fact. A rule written over the paths of F therefore
// gives the same verdict when a block of F is extracted into a helper or a
// helper is inlined back. Functions the rule names as anchors (its "stop" set),
// exported functions, functions of other packages and recursive calls stay
// opaque call items.
//
// Library facts (rtNeverHolds): branch conditions that cannot hold whatever the
// input - len(strings.Split(s, sep)) == 0 for a non-empty constant sep,
// !strings.HasPrefix(k, p) for p the prefix radix LongestPrefix(k) returned -
// make the path infeasible, so a defensive check that cannot fire adds no path.
//
// String predicates (rtStr*): "s starts with / ends in the byte c", "s is
// empty", "s contains c", "s without its first / last byte" are recognised in
// every spelling the standard library offers (index expression, HasPrefix /
// HasSuffix, TrimPrefix / TrimSuffix, Contains / Index* >= 0, slicing), so a
// rule asks for the predicate, not for one spelling of it.

import (
	"go/constant"
	"go/token"
	"go/types"
	"strings"

	"golang.org/x/tools/go/ssa"

	"verif/internal/core"
)

// rtBind records one inlined call: the parameters of fn are bound to args.
type rtBind struct {
	at      int // item index of the call
	fn      *ssa.Function
	args    []ssa.Value // resolved at the call
	closure *ssa.MakeClosure
}

// rtRetRec records the completion of an inlined call.
type rtRetRec struct {
	call  *ssa.Call
	at    int         // item index of the call
	retAt int         // item index of the helper's return
	vals  []ssa.Value // resolved at the return
}

type rtInl struct {
	root     *ssa.Function
	stop     map[string]bool
	maxVisit int
	seqs     map[*ssa.Function][][]*ssa.BasicBlock
	complete bool
	out      []*rtPath
	limit    int
}

type rtFrame struct {
	fn      *ssa.Function
	blocks  []*ssa.BasicBlock
	env     map[*ssa.Phi]ssa.Value
	visited map[*ssa.BasicBlock]bool // copy-on-write
	parent  *rtFrame
	depth   int
}

// rtPathsR enumerates the feasible paths of fn, continuing through private
// helpers of fn's package. stop lists function keys (core.FuncKey) that must
// stay opaque calls (the anchors a rule looks for by name).
func rtPathsR(fn *ssa.Function, maxVisit int, stop ...string) (paths []*rtPath, complete bool) {
	t := &rtInl{root: fn, stop: map[string]bool{}, maxVisit: maxVisit, seqs: map[*ssa.Function][][]*ssa.BasicBlock{}, complete: true, limit: 20000}
	for _, s := range stop {
		t.stop[s] = true
	}
	for _, s := range t.sequences(fn) {
		p := &rtPath{Fn: fn}
		fr := &rtFrame{fn: fn, blocks: s, env: map[*ssa.Phi]ssa.Value{}, visited: map[*ssa.BasicBlock]bool{}}
		t.run(p, fr, 0, 0, func(q *rtPath, last int) { t.emit(q) })
	}
	return t.out, t.complete
}

func (t *rtInl) emit(p *rtPath) {
	if len(t.out) >= t.limit {
		t.complete = false
		return
	}
	t.out = append(t.out, p)
}

func (t *rtInl) sequences(fn *ssa.Function) [][]*ssa.BasicBlock {
	if s, ok := t.seqs[fn]; ok {
		return s
	}
	var out [][]*ssa.BasicBlock
	if !core.EnumPaths(fn, t.maxVisit, 5000, func(cp *core.Path) {
		out = append(out, append([]*ssa.BasicBlock(nil), cp.Blocks...))
	}) {
		t.complete = false
	}
	t.seqs[fn] = out
	return out
}

// inlinable: the helper a call continues through, or nil.
func (t *rtInl) inlinable(call *ssa.Call, fr *rtFrame) *ssa.Function {
	if call.Call.IsInvoke() || fr.depth >= 3 {
		return nil
	}
	h := call.Call.StaticCallee()
	if h == nil || h.Blocks == nil || len(h.Blocks) == 0 {
		return nil
	}
	if core.FuncPkgRel(h) == "" || core.FuncPkgRel(h) != core.FuncPkgRel(t.root) {
		return nil
	}
	if h.Parent() == nil {
		if h.Object() == nil || h.Object().Exported() {
			return nil
		}
	}
	if t.stop[core.FuncKey(h)] || h.Recover != nil {
		return nil
	}
	for f := fr; f != nil; f = f.parent {
		if f.fn == h {
			return nil
		}
	}
	if len(h.Params) != len(call.Call.Args) {
		return nil
	}
	return h
}

func (p *rtPath) clone() *rtPath {
	q := &rtPath{Fn: p.Fn}
	q.Items = append(make([]rtItem, 0, len(p.Items)+16), p.Items...)
	q.Facts = append(make([]rtFact, 0, len(p.Facts)+8), p.Facts...)
	q.binds = append([]rtBind(nil), p.binds...)
	q.rets = append([]rtRetRec(nil), p.rets...)
	return q
}

// run traces fr.blocks from instruction j of block k, appending to p; finish is
// called with the index of the last item when the sequence is exhausted. The
// trace forks (on clones of p) at every call that is continued through a helper.
func (t *rtInl) run(p *rtPath, fr *rtFrame, k, j int, finish func(p *rtPath, last int)) {
	if !t.complete && len(t.out) >= t.limit {
		return
	}
	env, visited := fr.env, fr.visited
	blocks := fr.blocks
	for ; k < len(blocks); k++ {
		b := blocks[k]
		if j == 0 {
			if k > 0 {
				pred := blocks[k-1]
				pi := -1
				for i, q := range b.Preds {
					if q == pred {
						pi = i
					}
				}
				nenv := make(map[*ssa.Phi]ssa.Value, len(env)+2)
				for ph, v := range env {
					nenv[ph] = v
				}
				for _, in := range b.Instrs {
					phi, ok := in.(*ssa.Phi)
					if !ok {
						break
					}
					if pi < 0 {
						continue
					}
					e := phi.Edges[pi]
					if ep, ok := e.(*ssa.Phi); ok {
						if v, ok := env[ep]; ok {
							e = v
						}
					}
					nenv[phi] = e
				}
				env = nenv
			}
			if visited[b] {
				def := map[ssa.Value]bool{}
				for _, in := range b.Instrs {
					if v, ok := in.(ssa.Value); ok {
						def[v] = true
					}
				}
				for i := range p.Facts {
					f := &p.Facts[i]
					if def[f.X] || def[f.Y] || def[f.V] {
						f.stale = true
					}
				}
			} else {
				nv := make(map[*ssa.BasicBlock]bool, len(visited)+1)
				for x := range visited {
					nv[x] = true
				}
				nv[b] = true
				visited = nv
			}
		}
		for ; j < len(b.Instrs); j++ {
			in := b.Instrs[j]
			if _, ok := in.(*ssa.Phi); ok {
				continue
			}
			it := rtItem{In: in, Taken: -1, env: env}
			ifi, isIf := in.(*ssa.If)
			if isIf && k+1 < len(blocks) && b.Succs[0] != b.Succs[1] {
				if b.Succs[0] == blocks[k+1] {
					it.Taken = 1
				} else {
					it.Taken = 0
				}
			}
			p.Items = append(p.Items, it)
			if isIf && it.Taken >= 0 {
				if !p.addFact(len(p.Items)-1, ifi.Cond, it.Taken == 1) {
					return
				}
			}
			call, isCall := in.(*ssa.Call)
			if !isCall {
				continue
			}
			h := t.inlinable(call, fr)
			if h == nil {
				continue
			}
			callAt := len(p.Items) - 1
			args := make([]ssa.Value, len(call.Call.Args))
			for i, a := range call.Call.Args {
				args[i] = p.R(callAt, a)
			}
			var mc *ssa.MakeClosure
			if len(h.FreeVars) > 0 {
				mc, _ = p.R(callAt, call.Call.Value).(*ssa.MakeClosure)
				if mc == nil {
					continue // captured variables cannot be resolved: opaque
				}
			}
			seqs := t.sequences(h)
			if len(seqs) == 0 {
				continue
			}
			kk, jj := k, j+1
			for _, s := range seqs {
				q := p.clone()
				q.binds = append(q.binds, rtBind{at: callAt, fn: h, args: args, closure: mc})
				cont := &rtFrame{fn: fr.fn, blocks: blocks, env: env, visited: visited, parent: fr.parent, depth: fr.depth}
				sub := &rtFrame{fn: h, blocks: s, env: map[*ssa.Phi]ssa.Value{}, visited: map[*ssa.BasicBlock]bool{}, parent: cont, depth: fr.depth + 1}
				t.run(q, sub, 0, 0, func(q *rtPath, last int) {
					ret, ok := q.Items[last].In.(*ssa.Return)
					if !ok {
						t.emit(q) // the helper panics: the path ends there
						return
					}
					vals := core.RetVals(ret)
					res := make([]ssa.Value, len(vals))
					for i, v := range vals {
						res[i] = q.R(last, v)
					}
					q.rets = append(q.rets, rtRetRec{call: call, at: callAt, retAt: last, vals: res})
					t.run(q, cont, kk, jj, finish)
				})
			}
			return
		}
		j = 0
	}
	finish(p, len(p.Items)-1)
}

// bindOf: the latest binding of fn's parameters at or before item i.
func (p *rtPath) bindOf(i int, fn *ssa.Function) *rtBind {
	for k := len(p.binds) - 1; k >= 0; k-- {
		if b := &p.binds[k]; b.fn == fn && b.at <= i {
			return b
		}
	}
	return nil
}

// retOf: the latest completed inlined execution of call at or before item i.
func (p *rtPath) retOf(i int, call *ssa.Call) *rtRetRec {
	for k := len(p.rets) - 1; k >= 0; k-- {
		if r := &p.rets[k]; r.call == call && r.retAt <= i {
			return r
		}
	}
	return nil
}

// inlined reports whether the call item at index i was continued through its callee.
func (p *rtPath) inlined(i int) bool {
	for k := range p.binds {
		if p.binds[k].at == i {
			return true
		}
	}
	return false
}

// frameFn: the function whose body item i belongs to.
func (p *rtPath) frameFn(i int) *ssa.Function {
	if i < 0 || i >= len(p.Items) {
		return p.Fn
	}
	return p.Items[i].In.Parent()
}

// AP is rtAP for a value seen at item i of a path that may run through helpers:
// a root that is a parameter of a helper is replaced by the access path of the
// argument it is bound to, so "p1.Route.Product" names the same location
// whichever function of the region reads it. Parameters are numbered in the
// path's own function.
func (p *rtPath) AP(i int, v ssa.Value) string {
	if v == nil {
		return "<nothing>"
	}
	var fields []string
	cur := v
	for n := 0; n < 8; n++ {
		root, fs := rtPathOf(cur)
		fields = append(append([]string{}, fs...), fields...)
		par, ok := root.(*ssa.Parameter)
		if ok && par.Parent() != p.Fn {
			if r := p.R(i, par); r != ssa.Value(par) {
				cur = r
				continue
			}
		}
		if fv, ok := root.(*ssa.FreeVar); ok {
			if r := p.R(i, fv); r != ssa.Value(fv) {
				cur = r
				continue
			}
		}
		if rr := p.R(i, root); rr != root {
			if _, isLoad := root.(*ssa.UnOp); !isLoad {
				cur = rr
				continue
			}
		}
		s := ""
		if ok && par.Parent() != nil {
			for k, q := range par.Parent().Params {
				if q == par {
					s = "p" + itoa(k)
				}
			}
		}
		if s == "" {
			if root == v && len(fields) == 0 {
				return core.Render(v)
			}
			s = core.Render(root)
		}
		if len(fields) > 0 {
			s += "." + strings.Join(fields, ".")
		}
		return s
	}
	return rtAP(v)
}

func itoa(k int) string {
	if k == 0 {
		return "0"
	}
	s := ""
	for k > 0 {
		s = string(rune('0'+k%10)) + s
		k /= 10
	}
	return s
}

// ---- library facts ---------------------------------------------------------------

// rtLenRange: a lower bound for len(v) that holds whatever the input.
func rtLenMin(p *rtPath, i int, v ssa.Value) int64 {
	v = p.R(i, v)
	if call, ok := v.(*ssa.Call); ok {
		if core.CallIs(&call.Call, "strings.Split", "strings.SplitN") && len(call.Call.Args) >= 2 {
			if sep, ok := core.ConstString(call.Call.Args[1]); ok && sep != "" {
				if len(call.Call.Args) == 3 {
					if n, ok := rtConstInt(call.Call.Args[2]); !ok || n == 0 {
						return 0
					}
				}
				return 1
			}
		}
	}
	return 0
}

// rtNeverHolds: the canonical fact (x op y) == pol cannot hold on any input.
func rtNeverHolds(p *rtPath, i int, f rtFact) bool {
	switch f.Op {
	case token.ILLEGAL:
		call, ok := f.V.(*ssa.Call)
		if !ok {
			return false
		}
		// strings.HasPrefix(k, prefix) with prefix = LongestPrefix(k)#0 always holds
		if core.CallIs(&call.Call, "strings.HasPrefix") && len(call.Call.Args) == 2 && !f.Pol {
			if ex, ok := p.R(i, call.Call.Args[1]).(*ssa.Extract); ok && ex.Index == 0 {
				if lp, ok := ex.Tuple.(*ssa.Call); ok && core.CallIs(&lp.Call, c11RLP) && len(lp.Call.Args) == 2 {
					return rtSameStr(p, i, call.Call.Args[0], lp.Call.Args[1])
				}
			}
		}
		return false
	case token.EQL, token.LSS, token.LEQ:
		for _, side := range [][2]ssa.Value{{f.X, f.Y}, {f.Y, f.X}} {
			lc, ok := side[0].(*ssa.Call)
			if !ok {
				continue
			}
			b, ok := lc.Call.Value.(*ssa.Builtin)
			if !ok || b.Name() != "len" || len(lc.Call.Args) != 1 {
				continue
			}
			k, ok := rtConstInt(side[1])
			if !ok {
				continue
			}
			min := rtLenMin(p, i, lc.Call.Args[0])
			if min == 0 {
				continue
			}
			lenIsX := side[0] == f.X
			// is there any n >= min with (n op k) == pol (or (k op n) == pol)?
			possible := false
			for _, n := range []int64{min, min + 1, k - 1, k, k + 1, 1 << 40} {
				if n < min {
					continue
				}
				var r bool
				if lenIsX {
					r = rt3Rel(f.Op, n, k)
				} else {
					r = rt3Rel(f.Op, k, n)
				}
				if r == f.Pol {
					possible = true
				}
			}
			return !possible
		}
	}
	return false
}

// rtSameStr: a and b resolve to the same SSA value at item i.
func rtSameStr(p *rtPath, i int, a, b ssa.Value) bool {
	return core.StripConv(p.R(i, a)) == core.StripConv(p.R(i, b))
}

// ---- length facts ------------------------------------------------------------------

// rtLenExpr: v is len(x) where x is s itself (off 0) or s[k:] (off k).
func rtLenExpr(p *rtPath, i int, v ssa.Value, isS func(ssa.Value) bool) (off int64, ok bool) {
	call, isCall := v.(*ssa.Call)
	if !isCall {
		return 0, false
	}
	b, isB := call.Call.Value.(*ssa.Builtin)
	if !isB || b.Name() != "len" || len(call.Call.Args) != 1 {
		return 0, false
	}
	x := p.R(i, call.Call.Args[0])
	if isS(x) || isS(call.Call.Args[0]) {
		return 0, true
	}
	if sl, isSl := x.(*ssa.Slice); isSl && sl.High == nil && sl.Max == nil && sl.Low != nil {
		if k, isK := rtConstInt(sl.Low); isK && (isS(sl.X) || isS(p.R(i, sl.X))) {
			return k, true
		}
	}
	return 0, false
}

// lenRange: the interval of len(s) established by the facts before item i
// (comparisons of len(s) or len(s[k:]) with constants, s with the constant "").
func (p *rtPath) lenRange(i int, isS func(ssa.Value) bool) ivl {
	r := ivl{0, ivPosInf}
	for _, f := range p.Facts {
		if f.I >= i || f.stale {
			continue
		}
		switch f.Op {
		case token.EQL, token.LSS, token.LEQ:
		default:
			continue
		}
		if f.Op == token.EQL {
			// s == ""
			for _, side := range [][2]ssa.Value{{f.X, f.Y}, {f.Y, f.X}} {
				if (isS(side[0]) || isS(p.R(f.I, side[0]))) && rtConstStr(side[1], "") {
					if f.Pol {
						r = ivMeet(r, ivl{0, 0})
					} else {
						r = ivMeet(r, ivl{1, ivPosInf})
					}
				}
			}
		}
		for _, side := range [][2]ssa.Value{{f.X, f.Y}, {f.Y, f.X}} {
			off, ok := rtLenExpr(p, f.I, side[0], isS)
			if !ok {
				continue
			}
			k, ok := rtConstInt(side[1])
			if !ok {
				continue
			}
			k += off // len(s) REL k
			lenIsX := side[0] == f.X
			c := ivl{0, ivPosInf}
			switch f.Op {
			case token.EQL:
				if f.Pol {
					c = ivl{k, k}
				} else if r.lo == k {
					c = ivl{k + 1, ivPosInf}
				} else if r.hi == k {
					c = ivl{0, k - 1}
				}
			case token.LSS:
				switch {
				case lenIsX && f.Pol: // len < k
					c.hi = k - 1
				case lenIsX: // len >= k
					c.lo = k
				case f.Pol: // k < len
					c.lo = k + 1
				default: // k >= len
					c.hi = k
				}
			case token.LEQ:
				switch {
				case lenIsX && f.Pol: // len <= k
					c.hi = k
				case lenIsX: // len > k
					c.lo = k + 1
				case f.Pol: // k <= len
					c.lo = k
				default: // k > len
					c.hi = k - 1
				}
			}
			r = ivMeet(r, c)
			break
		}
	}
	return r
}

// lenIs: is len(s) == want established / excluded by the facts before item i?
func (p *rtPath) lenIs(i int, isS func(ssa.Value) bool, want int64) (eq, known bool) {
	r := p.lenRange(i, isS)
	switch {
	case r.lo == want && r.hi == want:
		return true, true
	case want < r.lo || want > r.hi:
		return false, true
	}
	return false, false
}

// ---- string predicates ----------------------------------------------------------------

// rtByteConst: v is the constant byte / one-byte string c.
func rtByteOf(v ssa.Value) (byte, bool) {
	if k, ok := rtConstInt(v); ok && k >= 0 && k < 256 {
		return byte(k), true
	}
	if s, ok := core.ConstString(v); ok && len(s) == 1 {
		return s[0], true
	}
	return 0, false
}

// rtStrFact describes what a branch fact says about a string value.
type rtStrFact struct {
	kind string // "first", "last" (byte c), "contains" (byte c), "empty"
	c    byte
	pol  bool
}

// strFacts: the facts before item i (all when i < 0) about the string accepted
// by isS, in every recognised spelling:
//
//	first:    s[0] == c, strings.HasPrefix(s, "c")
//	last:     s[len(s)-1] == c, strings.HasSuffix(s, "c")
//	contains: strings.Contains(s, "c"), ContainsRune/ContainsAny, Index*(s, c) >= 0 / != -1 / < 0 / == -1
//	empty:    s == "", len(s) == 0 (via lenRange)
func (p *rtPath) strFacts(i int, isS func(ssa.Value) bool) []rtStrFact {
	var out []rtStrFact
	is := func(at int, v ssa.Value) bool {
		if v == nil {
			return false
		}
		v = core.StripConv(v)
		return isS(v) || isS(core.StripConv(p.R(at, v)))
	}
	for _, f := range p.Facts {
		if (i >= 0 && f.I >= i) || f.stale {
			continue
		}
		switch f.Op {
		case token.ILLEGAL:
			call, ok := f.V.(*ssa.Call)
			if !ok || len(call.Call.Args) != 2 || !is(f.I, call.Call.Args[0]) {
				continue
			}
			c, ok := rtByteOf(call.Call.Args[1])
			if !ok {
				continue
			}
			switch {
			case core.CallIs(&call.Call, "strings.HasPrefix"):
				out = append(out, rtStrFact{"first", c, f.Pol})
			case core.CallIs(&call.Call, "strings.HasSuffix"):
				out = append(out, rtStrFact{"last", c, f.Pol})
			case core.CallIs(&call.Call, "strings.Contains", "strings.ContainsRune", "strings.ContainsAny"):
				out = append(out, rtStrFact{"contains", c, f.Pol})
			}
		case token.EQL, token.LSS, token.LEQ:
			for _, side := range [][2]ssa.Value{{f.X, f.Y}, {f.Y, f.X}} {
				x, y := core.StripConv(side[0]), side[1]
				// byte of s
				if s, ix, ok := rtStrIndex(x); ok && is(f.I, s) && f.Op == token.EQL {
					c, ok := rtByteOf(y)
					if !ok {
						continue
					}
					ixr := p.R(f.I, ix)
					if k, ok := rtConstInt(ixr); ok && k == 0 {
						out = append(out, rtStrFact{"first", c, f.Pol})
					} else if b, ok := ixr.(*ssa.BinOp); ok && b.Op == token.SUB {
						if k, ok := rtConstInt(b.Y); ok && k == 1 {
							if _, isLen := rtLenExpr(p, f.I, b.X, func(v ssa.Value) bool { return is(f.I, v) }); isLen {
								out = append(out, rtStrFact{"last", c, f.Pol})
							}
						}
					}
					continue
				}
				// strings.Index*(s, c) compared with 0 / -1
				call, ok := x.(*ssa.Call)
				if !ok || !core.CallIs(&call.Call, "strings.Index", "strings.IndexByte", "strings.IndexRune", "strings.IndexAny", "strings.LastIndex", "strings.LastIndexByte") || len(call.Call.Args) != 2 || !is(f.I, call.Call.Args[0]) {
					continue
				}
				c, ok := rtByteOf(call.Call.Args[1])
				if !ok {
					continue
				}
				k, ok := rtConstInt(y)
				if !ok {
					continue
				}
				idxIsX := side[0] == f.X
				// truth of the relation for "found" (idx >= 0, sample 0 and large) and "absent" (idx == -1)
				rel := func(n int64) bool {
					if idxIsX {
						return rt3Rel(f.Op, n, k)
					}
					return rt3Rel(f.Op, k, n)
				}
				absent := rel(-1)
				found0, foundBig := rel(0), rel(1<<40)
				if found0 == foundBig && found0 != absent {
					// the relation separates found from absent
					out = append(out, rtStrFact{"contains", c, found0 == f.Pol})
				}
			}
		}
	}
	if r := p.lenRange(func() int {
		if i < 0 {
			return len(p.Items) + 1
		}
		return i
	}(), isS); r.hi == 0 {
		out = append(out, rtStrFact{"empty", 0, true})
	} else if r.lo >= 1 {
		out = append(out, rtStrFact{"empty", 0, false})
	}
	return out
}

// strFact: the polarity of the latest fact of the given kind about byte c.
func (p *rtPath) strFact(i int, isS func(ssa.Value) bool, kind string, c byte) (pol, known bool) {
	for _, f := range p.strFacts(i, isS) {
		if f.kind == kind && (f.c == c || kind == "empty") {
			pol, known = f.pol, true
		}
	}
	return
}

// rtStripFirst: v is s without its first byte c: s[1:] or strings.TrimPrefix(s, "c").
// Returns s.
func rtStripFirst(p *rtPath, i int, v ssa.Value, c byte) (ssa.Value, bool) {
	v = core.StripConv(p.R(i, v))
	switch x := v.(type) {
	case *ssa.Slice:
		if x.High == nil && x.Low != nil && rtIsString(x.X.Type()) {
			if k, ok := rtConstInt(x.Low); ok && k == 1 {
				return p.R(i, x.X), true
			}
		}
	case *ssa.Call:
		if core.CallIs(&x.Call, "strings.TrimPrefix") && len(x.Call.Args) == 2 {
			if b, ok := rtByteOf(x.Call.Args[1]); ok && b == c {
				return p.R(i, x.Call.Args[0]), true
			}
		}
	}
	return nil, false
}

// rtStripLast: v is s without its last byte c: s[:len(s)-1] or strings.TrimSuffix(s, "c").
func rtStripLast(p *rtPath, i int, v ssa.Value, c byte) (ssa.Value, bool) {
	v = core.StripConv(p.R(i, v))
	switch x := v.(type) {
	case *ssa.Slice:
		if x.Low == nil && x.High != nil && rtIsString(x.X.Type()) {
			if hb, ok := p.R(i, x.High).(*ssa.BinOp); ok && hb.Op == token.SUB {
				if k, ok := rtConstInt(hb.Y); ok && k == 1 {
					s := p.R(i, x.X)
					if _, isLen := rtLenExpr(p, i, hb.X, func(w ssa.Value) bool { return w == s || w == x.X }); isLen {
						return s, true
					}
				}
			}
		}
	case *ssa.Call:
		if core.CallIs(&x.Call, "strings.TrimSuffix") && len(x.Call.Args) == 2 {
			if b, ok := rtByteOf(x.Call.Args[1]); ok && b == c {
				return p.R(i, x.Call.Args[0]), true
			}
		}
	}
	return nil, false
}

// rtRemainder: v is key with the prefix pre removed: strings.TrimPrefix(key, pre)
// or key[len(pre):]. Returns (key, pre).
func rtRemainder(p *rtPath, i int, v ssa.Value) (key, pre ssa.Value, ok bool) {
	v = core.StripConv(p.R(i, v))
	switch x := v.(type) {
	case *ssa.Call:
		if core.CallIs(&x.Call, "strings.TrimPrefix") && len(x.Call.Args) == 2 {
			return p.R(i, x.Call.Args[0]), p.R(i, x.Call.Args[1]), true
		}
	case *ssa.Slice:
		if x.High == nil && x.Low != nil && rtIsString(x.X.Type()) {
			if lc, isCall := p.R(i, x.Low).(*ssa.Call); isCall {
				if b, isB := lc.Call.Value.(*ssa.Builtin); isB && b.Name() == "len" && len(lc.Call.Args) == 1 {
					return p.R(i, x.X), p.R(i, lc.Call.Args[0]), true
				}
			}
		}
	}
	return nil, nil, false
}

// rtZeroOf: v is the zero value of a struct/array type (a load of a fresh
// Alloc without stores, or a nil/zero constant).
func rtIsErrType(t types.Type) bool {
	n, ok := t.(*types.Named)
	return ok && n.Obj().Pkg() == nil && n.Obj().Name() == "error"
}

var _ = constant.MakeBool

// ---- static chains across the call boundary -------------------------------------------

// rtSingleArg: par is a parameter of a private helper with exactly one static
// call site (not address-taken); returns the argument bound to it there.
func rtSingleArg(prog *core.Prog, par *ssa.Parameter) ssa.Value {
	h := par.Parent()
	if h == nil || prog == nil {
		return nil
	}
	if h.Parent() == nil && (h.Object() == nil || h.Object().Exported()) {
		return nil
	}
	sites := prog.CallSites(h)
	if len(sites) != 1 {
		return nil
	}
	if _, isCall := sites[0].(*ssa.Call); !isCall {
		return nil
	}
	// used as a value anywhere?
	taken := false
	for _, fn := range prog.SrcFuncs(core.FuncPkgRel(h)) {
		core.Instrs(fn, func(in ssa.Instruction) {
			for _, op := range in.Operands(nil) {
				if op != nil && *op == ssa.Value(h) {
					if ci, ok := in.(ssa.CallInstruction); ok && ci.Common().Value == ssa.Value(h) {
						continue
					}
					taken = true
				}
			}
		})
	}
	if taken {
		return nil
	}
	args := sites[0].Common().Args
	for k, q := range h.Params {
		if q == par && k < len(args) {
			return args[k]
		}
	}
	return nil
}

// rtChainRegion is rtChain (no path) continued from a parameter of a private
// helper to the argument at the helper's single call site: the chain of a key
// does not depend on whether a part of it was extracted into a helper.
func rtChainRegion(prog *core.Prog, v ssa.Value) (steps []string, root ssa.Value) {
	for n := 0; n < 4; n++ {
		s, r := rtChain(v, nil)
		steps = append(steps, s...)
		root = r
		par, ok := r.(*ssa.Parameter)
		if !ok {
			return
		}
		arg := rtSingleArg(prog, par)
		if arg == nil {
			return
		}
		v = arg
	}
	return
}

// rtAPRegion is rtAP with a root parameter of a private single-site helper
// replaced by its argument.
func rtAPRegion(prog *core.Prog, v ssa.Value) string {
	var fields []string
	cur := v
	for n := 0; n < 4; n++ {
		root, fs := rtPathOf(cur)
		fields = append(append([]string{}, fs...), fields...)
		par, ok := root.(*ssa.Parameter)
		if !ok {
			break
		}
		arg := rtSingleArg(prog, par)
		if arg == nil {
			s := rtAP(par)
			if len(fields) > 0 {
				s += "." + strings.Join(fields, ".")
			}
			return s
		}
		cur = arg
	}
	if len(fields) == 0 {
		return rtAP(cur)
	}
	root, _ := rtPathOf(cur)
	return rtAP(root) + "." + strings.Join(fields, ".")
}

// rtDeadReturn: the return can never execute: a guard established at its block
// cannot hold on any input (library facts, see rtNeverHolds).
func rtDeadReturn(r *ssa.Return) bool {
	empty := &rtPath{Fn: r.Parent()}
	for _, g := range core.GuardsAt(r.Block()) {
		f, ok := rt3MkFact(empty, 0, g.Cond, g.Pol)
		if ok && rtNeverHolds(empty, 0, f) {
			return true
		}
	}
	return false
}
