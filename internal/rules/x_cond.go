package rules

// Shared helpers of the condition-language properties (C16, C17, C18):
// a reader for the yacc source cond.y, extraction of the goyacc tables from
// the (overlay-aware) syntax of y.go, a reference interpreter of those tables,
// an on-demand goyacc runner, Markdown table readers for docs/en_us/condition
// and a few SSA conveniences.

import (
	"bytes"
	"fmt"
	"go/ast"
	"go/constant"
	"go/parser"
	"go/token"
	"go/types"
	"os"
	"os/exec"
	"path/filepath"
	"reflect"
	"regexp"
	"sort"
	"strconv"
	"strings"
	"sync"

	"golang.org/x/tools/go/packages"
	"golang.org/x/tools/go/ssa"

	"verif/internal/core"
)

const (
	condPkg   = "bfe_basic/condition"
	condParse = "bfe_basic/condition/parser"
	condDocs  = "docs/en_us/condition"
)

// ---------------------------------------------------------------- cond.y

type yaccRule struct {
	LHS    string
	RHS    []string
	Action string
	Prec   string // %prec TOKEN, "" when absent
}

type yaccSpec struct {
	Tokens []string
	Level  map[string]int    // token -> precedence level, 1 = lowest (first %left/%right line)
	Assoc  map[string]string // token -> left|right|nonassoc
	Rules  []yaccRule        // Rules[0] is production 1
	Prefix string
}

// parseYacc reads the declarations and rules sections of a yacc source.
func parseYacc(src string) (*yaccSpec, error) {
	parts := strings.SplitN(src, "\n%%", 3)
	if len(parts) < 2 {
		return nil, fmt.Errorf("no %%%% separator")
	}
	sp := &yaccSpec{Level: map[string]int{}, Assoc: map[string]string{}}
	level := 0
	inCode, inUnion := false, false
	for _, ln := range strings.Split(parts[0], "\n") {
		t := strings.TrimSpace(ln)
		switch {
		case strings.HasPrefix(t, "%{"):
			inCode = true
			continue
		case strings.HasPrefix(t, "%}"):
			inCode = false
			continue
		}
		if inCode {
			continue
		}
		if strings.HasPrefix(t, "%union") {
			inUnion = !strings.Contains(t, "}")
			continue
		}
		if inUnion {
			if strings.Contains(t, "}") {
				inUnion = false
			}
			continue
		}
		f := strings.Fields(t)
		if len(f) == 0 {
			continue
		}
		switch f[0] {
		case "%token":
			for _, x := range f[1:] {
				if !strings.HasPrefix(x, "<") {
					sp.Tokens = append(sp.Tokens, x)
				}
			}
		case "%left", "%right", "%nonassoc":
			level++
			for _, x := range f[1:] {
				if strings.HasPrefix(x, "<") {
					continue
				}
				sp.Level[x] = level
				sp.Assoc[x] = strings.TrimPrefix(f[0], "%")
			}
		}
	}
	// rules section: tokenise
	type tk struct{ kind, text string }
	var toks []tk
	body := strings.TrimPrefix(parts[1], "\n")
	body = strings.TrimLeft(body, "%")
	for i := 0; i < len(body); {
		ch := body[i]
		switch {
		case ch == ' ' || ch == '\t' || ch == '\n' || ch == '\r':
			i++
		case ch == '/' && i+1 < len(body) && body[i+1] == '/':
			for i < len(body) && body[i] != '\n' {
				i++
			}
		case ch == '/' && i+1 < len(body) && body[i+1] == '*':
			j := strings.Index(body[i+2:], "*/")
			if j < 0 {
				return nil, fmt.Errorf("unterminated comment in rules section")
			}
			i += j + 4
		case ch == '{':
			depth, j := 0, i
			for ; j < len(body); j++ {
				switch body[j] {
				case '{':
					depth++
				case '}':
					depth--
				case '"', '`', '\'':
					q := body[j]
					for j++; j < len(body) && body[j] != q; j++ {
						if body[j] == '\\' && q != '`' {
							j++
						}
					}
				}
				if depth == 0 {
					break
				}
			}
			if depth != 0 {
				return nil, fmt.Errorf("unbalanced action braces")
			}
			toks = append(toks, tk{"action", body[i : j+1]})
			i = j + 1
		case ch == ':' || ch == '|' || ch == ';':
			toks = append(toks, tk{string(ch), string(ch)})
			i++
		case ch == '%':
			j := i + 1
			for j < len(body) && (body[j] == '_' || body[j] >= 'a' && body[j] <= 'z') {
				j++
			}
			toks = append(toks, tk{"dir", body[i:j]})
			i = j
		case ch == '\'':
			j := i + 1
			for j < len(body) && body[j] != '\'' {
				if body[j] == '\\' {
					j++
				}
				j++
			}
			toks = append(toks, tk{"id", body[i : j+1]})
			i = j + 1
		default:
			j := i
			for j < len(body) && (body[j] == '_' || body[j] == '.' || body[j] >= '0' && body[j] <= '9' || body[j] >= 'a' && body[j] <= 'z' || body[j] >= 'A' && body[j] <= 'Z') {
				j++
			}
			if j == i {
				return nil, fmt.Errorf("unexpected character %q in rules section", ch)
			}
			toks = append(toks, tk{"id", body[i:j]})
			i = j
		}
	}
	lhs := ""
	var cur *yaccRule
	flush := func() {
		if cur != nil {
			sp.Rules = append(sp.Rules, *cur)
			cur = nil
		}
	}
	for i := 0; i < len(toks); i++ {
		t := toks[i]
		switch t.kind {
		case "id":
			if i+1 < len(toks) && toks[i+1].kind == ":" {
				flush()
				lhs = t.text
				cur = &yaccRule{LHS: lhs}
				i++
				continue
			}
			if cur == nil {
				return nil, fmt.Errorf("symbol %s outside a rule", t.text)
			}
			cur.RHS = append(cur.RHS, t.text)
		case "|":
			flush()
			cur = &yaccRule{LHS: lhs}
		case ";":
			flush()
		case "action":
			if cur == nil {
				return nil, fmt.Errorf("action outside a rule")
			}
			cur.Action = t.text
		case "dir":
			if t.text == "%prec" && i+1 < len(toks) && cur != nil {
				cur.Prec = toks[i+1].text
				i++
			}
		}
	}
	flush()
	if len(sp.Rules) == 0 {
		return nil, fmt.Errorf("no grammar rules found")
	}
	return sp, nil
}

// ruleIndex returns the 1-based production number of lhs: rhs…, 0 if absent.
func (sp *yaccSpec) ruleIndex(lhs string, rhs ...string) int {
	for i, r := range sp.Rules {
		if r.LHS == lhs && strings.Join(r.RHS, " ") == strings.Join(rhs, " ") {
			return i + 1
		}
	}
	return 0
}

// ---------------------------------------------------------------- y.go tables

var yTableNames = []string{"Exca", "Act", "Pact", "Pgo", "R1", "R2", "Chk", "Def", "Tok1", "Tok2", "Tok3"}

// yTables are the goyacc tables and constants of one generated parser.
type yTables struct {
	T        map[string][]int // by short name (Act, Pact, …)
	Consts   map[string]int   // token constants and <prefix>Private/Last/Flag/…
	Toknames []string
	File     *ast.File
}

func cxEvalIntExpr(e ast.Expr, info *types.Info) (int, bool) {
	if info != nil {
		if tv, ok := info.Types[e]; ok && tv.Value != nil {
			if v, ok := constant.Int64Val(constant.ToInt(tv.Value)); ok {
				return int(v), true
			}
		}
	}
	switch x := e.(type) {
	case *ast.BasicLit:
		if x.Kind == token.INT {
			v, err := strconv.ParseInt(x.Value, 0, 64)
			return int(v), err == nil
		}
	case *ast.UnaryExpr:
		if v, ok := cxEvalIntExpr(x.X, info); ok {
			switch x.Op {
			case token.SUB:
				return -v, true
			case token.ADD:
				return v, true
			}
		}
	case *ast.ParenExpr:
		return cxEvalIntExpr(x.X, info)
	}
	return 0, false
}

// extractYTables reads `var <prefix>Act = [...]int{…}` etc. and the integer
// constants of a goyacc output file.
func extractYTables(f *ast.File, info *types.Info, prefix string) (*yTables, error) {
	yt := &yTables{T: map[string][]int{}, Consts: map[string]int{}, File: f}
	for _, d := range f.Decls {
		gd, ok := d.(*ast.GenDecl)
		if !ok {
			continue
		}
		for _, s := range gd.Specs {
			vs, ok := s.(*ast.ValueSpec)
			if !ok || len(vs.Names) != 1 || len(vs.Values) != 1 {
				continue
			}
			name := vs.Names[0].Name
			if gd.Tok == token.CONST {
				if v, ok := cxEvalIntExpr(vs.Values[0], info); ok {
					yt.Consts[name] = v
				}
				continue
			}
			cl, ok := vs.Values[0].(*ast.CompositeLit)
			if !ok || !strings.HasPrefix(name, prefix) {
				continue
			}
			short := strings.TrimPrefix(name, prefix)
			if short == "Toknames" {
				for _, e := range cl.Elts {
					if bl, ok := e.(*ast.BasicLit); ok && bl.Kind == token.STRING {
						s, _ := strconv.Unquote(bl.Value)
						yt.Toknames = append(yt.Toknames, s)
					}
				}
				continue
			}
			want := false
			for _, n := range yTableNames {
				if n == short {
					want = true
				}
			}
			if !want {
				continue
			}
			vals := make([]int, 0, len(cl.Elts))
			for _, e := range cl.Elts {
				v, ok := cxEvalIntExpr(e, info)
				if !ok {
					return nil, fmt.Errorf("table %s: non-constant element", name)
				}
				vals = append(vals, v)
			}
			yt.T[short] = vals
		}
	}
	for _, n := range yTableNames {
		if _, ok := yt.T[n]; !ok {
			return nil, fmt.Errorf("table %s%s not found", prefix, n)
		}
	}
	for _, n := range []string{"Private", "Last"} {
		if _, ok := yt.Consts[prefix+n]; !ok {
			return nil, fmt.Errorf("constant %s%s not found", prefix, n)
		}
	}
	return yt, nil
}

// ---------------------------------------------------------------- table interpreter

// condTree is the abstract result of a semantic action.
type condTree struct {
	Kind string // atom | and | or | not | paren | other
	L, R *condTree
	Atom int
}

func (t *condTree) String() string {
	if t == nil {
		return "<nil>"
	}
	switch t.Kind {
	case "atom":
		return fmt.Sprintf("p%d", t.Atom)
	case "and":
		return "(" + t.L.String() + " && " + t.R.String() + ")"
	case "or":
		return "(" + t.L.String() + " || " + t.R.String() + ")"
	case "not":
		return "!" + t.L.String()
	case "paren":
		return "[" + t.L.String() + "]"
	}
	return "<" + t.Kind + ">"
}

// shape is String with grouping parentheses of the input made transparent.
func (t *condTree) shape() string {
	if t == nil {
		return "<nil>"
	}
	switch t.Kind {
	case "paren":
		return t.L.shape()
	case "and":
		return "(" + t.L.shape() + " && " + t.R.shape() + ")"
	case "or":
		return "(" + t.L.shape() + " || " + t.R.shape() + ")"
	case "not":
		return "!" + t.L.shape()
	}
	return t.String()
}

func (t *condTree) eval(assign uint) (val, ok bool) {
	if t == nil {
		return false, false
	}
	switch t.Kind {
	case "atom":
		return assign&(1<<uint(t.Atom)) != 0, true
	case "paren":
		return t.L.eval(assign)
	case "not":
		v, ok := t.L.eval(assign)
		return !v, ok
	case "and", "or":
		l, ok1 := t.L.eval(assign)
		r, ok2 := t.R.eval(assign)
		if t.Kind == "and" {
			return l && r, ok1 && ok2
		}
		return l || r, ok1 && ok2
	}
	return false, false
}

// yAction describes what the Go code of `case N:` in the generated parser
// builds: Kind binary/unary/paren/copy/top/call/list/unknown, the operator
// constant and the $-indices the operands come from.
type yAction struct {
	Kind string
	Op   string
	X, Y int
	Src  string
}

type lrFrame struct {
	state int
	val   *condTree
}

// lrMachine interprets goyacc tables exactly like the generated driver
// ($$Parse in yaccpar), without error recovery: an error action rejects.
type lrMachine struct {
	t       *yTables
	prefix  string
	actions map[int]yAction
	stack   []lrFrame
	result  *condTree
	natoms  int
	tabs    *lrTabs
}

// lrTabs caches the tables as slices (the interpreter is run on ~10^5 prefixes).
type lrTabs struct {
	tab        map[string][]int
	last, priv int
}

func newLR(t *yTables, prefix string, actions map[int]yAction) *lrMachine {
	tb := &lrTabs{tab: t.T, last: t.Consts[prefix+"Last"], priv: t.Consts[prefix+"Private"]}
	return &lrMachine{t: t, prefix: prefix, actions: actions, stack: []lrFrame{{0, nil}}, tabs: tb}
}

func (m *lrMachine) clone() *lrMachine {
	n := *m
	n.stack = append([]lrFrame(nil), m.stack...)
	return &n
}

// internalTok translates the value returned by the lexer (token constant, 0
// for EOF) into goyacc's internal numbering, as $$lex1 does.
func (m *lrMachine) internalTok(char int) int {
	T := m.tabs.tab
	priv := m.tabs.priv
	tok := 0
	switch {
	case char <= 0:
		tok = T["Tok1"][0]
	case char < len(T["Tok1"]):
		tok = T["Tok1"][char]
	case char >= priv && char < priv+len(T["Tok2"]):
		tok = T["Tok2"][char-priv]
	default:
		for i := 0; i+1 < len(T["Tok3"]); i += 2 {
			if T["Tok3"][i] == char {
				tok = T["Tok3"][i+1]
				break
			}
		}
	}
	if tok == 0 {
		tok = T["Tok2"][1]
	}
	return tok
}

const lrFlag = -1000

// step performs one parser action for lookahead tok (internal numbering):
// "shift", "reduce" (then the lookahead is still pending), "accept", "error".
func (m *lrMachine) step(tok int, atom *condTree) (string, int) {
	T := m.tabs.tab
	last := m.tabs.last
	tPact, tAct, tChk, tDef, tR1, tR2, tPgo := T["Pact"], T["Act"], T["Chk"], T["Def"], T["R1"], T["R2"], T["Pgo"]
	at := func(tab string, i int) (int, bool) {
		var t []int
		switch tab {
		case "Pact":
			t = tPact
		case "Act":
			t = tAct
		case "Chk":
			t = tChk
		case "Def":
			t = tDef
		case "R1":
			t = tR1
		case "R2":
			t = tR2
		case "Pgo":
			t = tPgo
		default:
			t = T[tab]
		}
		if i < 0 || i >= len(t) {
			return 0, false
		}
		return t[i], true
	}
	state := m.stack[len(m.stack)-1].state
	n, ok := at("Pact", state)
	if !ok {
		return "error", 0
	}
	if n > lrFlag {
		n += tok
		if n >= 0 && n < last {
			if a, ok := at("Act", n); ok {
				if c, ok := at("Chk", a); ok && c == tok {
					m.stack = append(m.stack, lrFrame{a, atom})
					return "shift", a
				}
			}
		}
	}
	n, ok = at("Def", state)
	if !ok {
		return "error", 0
	}
	if n == -2 {
		ex := T["Exca"]
		xi := 0
		for {
			if xi+1 >= len(ex) {
				return "error", 0
			}
			if ex[xi] == -1 && ex[xi+1] == state {
				break
			}
			xi += 2
		}
		for xi += 2; ; xi += 2 {
			if xi+1 >= len(ex) {
				return "error", 0
			}
			n = ex[xi]
			if n < 0 || n == tok {
				break
			}
		}
		n = ex[xi+1]
		if n < 0 {
			return "accept", 0
		}
	}
	if n == 0 {
		return "error", 0
	}
	prod := n
	r2, ok1 := at("R2", prod)
	r1, ok2 := at("R1", prod)
	if !ok1 || !ok2 || r2 < 0 || r2 >= len(m.stack) {
		return "error", 0
	}
	dollar := make([]*condTree, r2+1)
	for i := 1; i <= r2; i++ {
		dollar[i] = m.stack[len(m.stack)-r2+i-1].val
	}
	m.stack = m.stack[:len(m.stack)-r2]
	var val *condTree
	if r2 >= 1 {
		val = dollar[1] // yacc default action $$ = $1
	}
	pick := func(i int) *condTree {
		if i >= 1 && i < len(dollar) {
			return dollar[i]
		}
		return nil
	}
	switch a := m.actions[prod]; a.Kind {
	case "binary":
		k := "other"
		switch a.Op {
		case "LAND":
			k = "and"
		case "LOR":
			k = "or"
		}
		val = &condTree{Kind: k, L: pick(a.X), R: pick(a.Y)}
	case "unary":
		k := "other"
		if a.Op == "NOT" {
			k = "not"
		}
		val = &condTree{Kind: k, L: pick(a.X)}
	case "paren":
		val = &condTree{Kind: "paren", L: pick(a.X)}
	case "copy":
		val = pick(a.X)
	case "top":
		m.result = pick(a.X)
	case "call":
		val = &condTree{Kind: "atom", Atom: m.natoms}
		m.natoms++
	case "list":
		val = &condTree{Kind: "other"}
	default:
		val = &condTree{Kind: "other"}
	}
	pgo, ok := at("Pgo", r1)
	if !ok {
		return "error", 0
	}
	top := m.stack[len(m.stack)-1].state
	j := pgo + top + 1
	var ns int
	if j >= last {
		ns, _ = at("Act", pgo)
	} else {
		ns, ok = at("Act", j)
		if c, ok2 := at("Chk", ns); !ok || !ok2 || c != -r1 {
			ns, _ = at("Act", pgo)
		}
	}
	m.stack = append(m.stack, lrFrame{ns, val})
	return "reduce", prod
}

// feed consumes one lexer token (char = token constant, 0 = EOF). It returns
// "shift" when the token was consumed, "accept" or "error".
func (m *lrMachine) feed(char int) string {
	tok := m.internalTok(char)
	for guard := 0; guard < 10000; guard++ {
		act, _ := m.step(tok, nil)
		switch act {
		case "reduce":
			continue
		default:
			return act
		}
	}
	return "error"
}

// firstAction reports the first action the machine would take on char
// without changing it.
func (m *lrMachine) firstAction(char int) (string, int) {
	return m.clone().step(m.internalTok(char), nil)
}

// ---------------------------------------------------------------- goyacc

var (
	goyaccMu   sync.Mutex
	goyaccMemo = map[string]*goyaccOut{}
)

type goyaccOut struct {
	Go     []byte
	Output []byte
	Err    error
}

// goyaccBin builds (once) goyacc from the x/tools version pinned by the verif
// module and returns its path.
func goyaccBin() (string, error) {
	// a goyacc next to the running bfecheck binary (built by setup_cmd) is used first, so that
	// the check also works with -verif pointing at a scratch directory
	modDir := core.VerifDir
	if exe, err := os.Executable(); err == nil {
		cand := filepath.Join(filepath.Dir(exe), "goyacc")
		if st, err := os.Stat(cand); err == nil && st.Mode().IsRegular() && st.Size() > 0 {
			return cand, nil
		}
		if _, err := os.Stat(filepath.Join(filepath.Dir(filepath.Dir(exe)), "go.mod")); err == nil {
			modDir = filepath.Dir(filepath.Dir(exe))
		}
	}
	bin := filepath.Join(modDir, "bin", "goyacc")
	if st, err := os.Stat(bin); err == nil && st.Mode().IsRegular() && st.Size() > 0 {
		return bin, nil
	}
	if err := os.MkdirAll(filepath.Dir(bin), 0o755); err != nil {
		return "", err
	}
	tmp := bin + fmt.Sprintf(".tmp%d", os.Getpid())
	cmd := exec.Command("go", "build", "-o", tmp, "golang.org/x/tools/cmd/goyacc")
	cmd.Dir = modDir
	cmd.Env = append(os.Environ(), "GOFLAGS=-mod=mod", "GOPROXY=off", "GOSUMDB=off", "GOTOOLCHAIN=local", "GOWORK=off")
	if out, err := cmd.CombinedOutput(); err != nil {
		os.Remove(tmp)
		return "", fmt.Errorf("go build goyacc: %v: %s", err, strings.TrimSpace(string(out)))
	}
	if err := os.Rename(tmp, bin); err != nil {
		os.Remove(tmp)
		return "", err
	}
	return bin, nil
}

// runGoyacc regenerates the parser from the given yacc source in a fresh
// temporary directory (removed afterwards); results are memoised per content.
func runGoyacc(src []byte, prefix string) *goyaccOut {
	goyaccMu.Lock()
	defer goyaccMu.Unlock()
	key := prefix + "\x00" + string(src)
	if r, ok := goyaccMemo[key]; ok {
		return r
	}
	r := &goyaccOut{}
	goyaccMemo[key] = r
	bin, err := goyaccBin()
	if err != nil {
		r.Err = err
		return r
	}
	dir, err := os.MkdirTemp("", "bfecheck-goyacc-")
	if err != nil {
		r.Err = err
		return r
	}
	defer os.RemoveAll(dir)
	if err := os.WriteFile(filepath.Join(dir, "cond.y"), src, 0o644); err != nil {
		r.Err = err
		return r
	}
	cmd := exec.Command(bin, "-p", prefix, "-o", "y.go", "-v", "y.output", "cond.y")
	cmd.Dir = dir
	if out, err := cmd.CombinedOutput(); err != nil {
		r.Err = fmt.Errorf("goyacc: %v: %s", err, strings.TrimSpace(string(out)))
		return r
	}
	if r.Go, err = os.ReadFile(filepath.Join(dir, "y.go")); err != nil {
		r.Err = err
		return r
	}
	if r.Output, err = os.ReadFile(filepath.Join(dir, "y.output")); err != nil {
		r.Err = err
	}
	return r
}

// yState is one state of goyacc's y.output.
type yState struct {
	N       int
	Items   []string          // "expr: expr LAND expr ." normalised
	Actions map[string]string // token or "." -> "shift 7" | "reduce 3" | "error" | "accept"
}

var (
	reYState  = regexp.MustCompile(`^state (\d+)`)
	reYAction = regexp.MustCompile(`^\t(\S+)\s+(shift \d+|reduce \d+|error|accept)`)
)

func parseYOutput(b []byte) []yState {
	var out []yState
	var cur *yState
	for _, ln := range strings.Split(string(b), "\n") {
		if m := reYState.FindStringSubmatch(ln); m != nil {
			n, _ := strconv.Atoi(m[1])
			out = append(out, yState{N: n, Actions: map[string]string{}})
			cur = &out[len(out)-1]
			continue
		}
		if cur == nil || !strings.HasPrefix(ln, "\t") {
			continue
		}
		if m := reYAction.FindStringSubmatch(ln); m != nil && !strings.Contains(ln, ":") {
			cur.Actions[m[1]] = m[2]
			continue
		}
		if strings.Contains(ln, ":") && strings.Contains(ln, ".") {
			s := ln
			if i := strings.Index(s, "    ("); i >= 0 {
				s = s[:i]
			}
			s = strings.ReplaceAll(s, ".", " . ")
			cur.Items = append(cur.Items, strings.Join(strings.Fields(s), " "))
		}
	}
	return out
}

// ---------------------------------------------------------------- AST equality

// cxAstEqualNorm compares two syntax trees ignoring positions, comments,
// resolution objects, `int(x)` conversions (newer goyacc narrows table element
// types and converts at the use sites) and array element types of composite
// literals of integer tables.
func cxAstEqualNorm(a, b ast.Node) bool {
	return cxAstEq(reflect.ValueOf(a), reflect.ValueOf(b))
}

func cxStripIntConv(v reflect.Value) reflect.Value {
	for v.IsValid() && v.Kind() == reflect.Interface && !v.IsNil() {
		if ce, ok := v.Interface().(*ast.CallExpr); ok && len(ce.Args) == 1 {
			if id, ok := ce.Fun.(*ast.Ident); ok && id.Name == "int" {
				var e ast.Expr = ce.Args[0]
				v = reflect.ValueOf(&e).Elem()
				continue
			}
		}
		if pe, ok := v.Interface().(*ast.ParenExpr); ok {
			var e ast.Expr = pe.X
			v = reflect.ValueOf(&e).Elem()
			continue
		}
		break
	}
	return v
}

var (
	tyPos     = reflect.TypeOf(token.Pos(0))
	tyCG      = reflect.TypeOf((*ast.CommentGroup)(nil))
	tyObj     = reflect.TypeOf((*ast.Object)(nil))
	tyScope   = reflect.TypeOf((*ast.Scope)(nil))
	tyIntKind = map[string]bool{"int": true, "int8": true, "int16": true, "int32": true, "int64": true, "uint8": true, "uint16": true}
)

func cxAstEq(a, b reflect.Value) bool {
	a, b = cxStripIntConv(a), cxStripIntConv(b)
	if !a.IsValid() || !b.IsValid() {
		return a.IsValid() == b.IsValid()
	}
	if a.Type() != b.Type() {
		return false
	}
	switch a.Type() {
	case tyPos, tyCG, tyObj, tyScope:
		return true
	}
	switch a.Kind() {
	case reflect.Interface:
		if a.IsNil() || b.IsNil() {
			return a.IsNil() == b.IsNil()
		}
		return cxAstEq(a.Elem(), b.Elem())
	case reflect.Ptr:
		if a.IsNil() || b.IsNil() {
			return a.IsNil() == b.IsNil()
		}
		if ia, ok := a.Interface().(*ast.Ident); ok {
			ib := b.Interface().(*ast.Ident)
			if tyIntKind[ia.Name] && tyIntKind[ib.Name] {
				return true
			}
			return ia.Name == ib.Name
		}
		return cxAstEq(a.Elem(), b.Elem())
	case reflect.Struct:
		for i := 0; i < a.NumField(); i++ {
			if !cxAstEq(a.Field(i), b.Field(i)) {
				return false
			}
		}
		return true
	case reflect.Slice:
		if a.Len() != b.Len() {
			return false
		}
		for i := 0; i < a.Len(); i++ {
			if !cxAstEq(a.Index(i), b.Index(i)) {
				return false
			}
		}
		return true
	case reflect.String:
		return a.String() == b.String()
	case reflect.Int, reflect.Int64, reflect.Int32:
		return a.Int() == b.Int()
	case reflect.Bool:
		return a.Bool() == b.Bool()
	case reflect.Map:
		return true
	}
	return true
}

// declName names a top-level declaration ("func condParserImpl.Parse", "var condAct").
func cxDeclNames(d ast.Decl) []string {
	switch x := d.(type) {
	case *ast.FuncDecl:
		n := x.Name.Name
		if x.Recv != nil && len(x.Recv.List) == 1 {
			t := x.Recv.List[0].Type
			if s, ok := t.(*ast.StarExpr); ok {
				t = s.X
			}
			if id, ok := t.(*ast.Ident); ok {
				n = id.Name + "." + n
			}
		}
		return []string{"func " + n}
	case *ast.GenDecl:
		var out []string
		for _, s := range x.Specs {
			switch y := s.(type) {
			case *ast.ValueSpec:
				for _, n := range y.Names {
					out = append(out, x.Tok.String()+" "+n.Name)
				}
			case *ast.TypeSpec:
				out = append(out, "type "+y.Name.Name)
			case *ast.ImportSpec:
				n := "import " + y.Path.Value
				if y.Name != nil {
					n = "import " + y.Name.Name + " " + y.Path.Value
				}
				out = append(out, n)
			}
		}
		return out
	}
	return nil
}

// cxFileOfObj returns the syntax file of pk that declares the object.
func cxFileOfObj(pk *packages.Package, o types.Object) *ast.File {
	if pk == nil || o == nil {
		return nil
	}
	for _, f := range pk.Syntax {
		if f.Pos() <= o.Pos() && o.Pos() <= f.End() {
			return f
		}
	}
	return nil
}

func cxParseGoSrc(name string, src []byte) (*ast.File, error) {
	return parser.ParseFile(token.NewFileSet(), name, src, parser.SkipObjectResolution)
}

// ---------------------------------------------------------------- Markdown

// cxMdTableRows returns the cells of every Markdown table row of a document
// (separator rows removed); `\|` inside a cell is kept as "|".
func cxMdTableRows(doc string) [][]string {
	var rows [][]string
	for _, ln := range strings.Split(doc, "\n") {
		t := strings.TrimSpace(ln)
		if !strings.HasPrefix(t, "|") {
			continue
		}
		t = strings.ReplaceAll(t, `\|`, "\x00")
		cells := strings.Split(strings.Trim(t, "|"), "|")
		sep := true
		for i := range cells {
			cells[i] = strings.ReplaceAll(strings.TrimSpace(cells[i]), "\x00", "|")
			if strings.Trim(cells[i], "-: ") != "" {
				sep = false
			}
		}
		if !sep {
			rows = append(rows, cells)
		}
	}
	return rows
}

var reMdPrim = regexp.MustCompile(`^\s*(?:[*-]|##+)\s*([a-z][a-z0-9_]*)\s*\(([^)]*)\)\s*$`)

// cxMdPrimitives lists `name(params)` entries (bullets or headings) of a document.
func cxMdPrimitives(doc string) map[string][]string {
	out := map[string][]string{}
	for _, ln := range strings.Split(doc, "\n") {
		m := reMdPrim.FindStringSubmatch(ln)
		if m == nil {
			continue
		}
		var ps []string
		for _, p := range strings.Split(m[2], ",") {
			if p = strings.TrimSpace(p); p != "" {
				ps = append(ps, p)
			}
		}
		out[m[1]] = ps
	}
	return out
}

func cxReadRepoFile(rel string) (string, error) {
	b, err := os.ReadFile(core.FileOf(rel))
	return string(b), err
}

// ---------------------------------------------------------------- SSA conveniences

// cxConstInt returns the integer value of an SSA constant.
func cxConstInt(v ssa.Value) (int64, bool) {
	c, ok := core.StripConv(v).(*ssa.Const)
	if !ok || c.Value == nil || c.Value.Kind() != constant.Int {
		return 0, false
	}
	return constant.Int64Val(c.Value)
}

// cxObjConstInt returns the value of a package-level integer constant.
func cxObjConstInt(p *core.Prog, pkg, name string) (int64, bool) {
	k, ok := p.Obj(pkg, name).(*types.Const)
	if !ok {
		return 0, false
	}
	return constant.Int64Val(constant.ToInt(k.Val()))
}

func cxSortedKeys(m map[string]bool) []string {
	var s []string
	for k := range m {
		s = append(s, k)
	}
	sort.Strings(s)
	return s
}

// cxP is the name of parameter i of fn (the receiver is parameter 0).
func cxP(fn *ssa.Function, i int) string {
	if fn == nil || i >= len(fn.Params) {
		return "?"
	}
	return fn.Params[i].Name()
}

// cxCanon rewrites parameter names in a rendered expression to the given
// canonical names, so that renaming a receiver or parameter does not change
// fingerprints.
func cxCanon(fn *ssa.Function, s string, canon ...string) string {
	for i, cn := range canon {
		if fn == nil || i >= len(fn.Params) || cn == "" || fn.Params[i].Name() == cn {
			continue
		}
		re := regexp.MustCompile(`(^|[^A-Za-z0-9_.])` + regexp.QuoteMeta(fn.Params[i].Name()) + `($|[^A-Za-z0-9_])`)
		for k := 0; k < 2; k++ { // overlapping matches
			s = re.ReplaceAllString(s, "${1}"+cn+"${2}")
		}
	}
	return s
}

func cxUniq(s []string) []string {
	var out []string
	for i, x := range s {
		if i == 0 || x != s[i-1] {
			out = append(out, x)
		}
	}
	return out
}

func cxTrim(s string, n int) string {
	if len(s) > n {
		return s[:n] + "…"
	}
	return s
}

var _ = bytes.Compare
