package rules

import (
	"fmt"
	"go/token"
	"sort"

	"golang.org/x/tools/go/ssa"

	"verif/internal/core"
)

// C36 — the HTTP/2 priority tree stays acyclic.
func init() {
	Register(&Rule{
		ID: "C36", Section: "5 C36",
		Technique: "who-may-write census of stream.parent, guard (control-dependence) and dominance/path queries on go/ssa of adjustStreamPriority, loop-header census",
		Meta: core.Meta{
			Level:       "other",
			Explanation: "Decides the structural clauses that keep re-parenting acyclic in bfe_http2.adjustStreamPriority: (1) stream.parent is written only in adjustStreamPriority and only in three reviewed forms (re-parent st, move the new parent out of st's subtree, exclusive adoption of siblings); (2) `st.parent = parent` is reachable only when parent != st was established (self-dependency ignored); (3) it is dominated by the ancestor walk: a cursor that starts at the new parent, advances by .parent, stops at nil and is compared with st, every edge leaving the walk loop is either cursor == nil or cursor == st (no depth/work cap or other early exit can leave ancestors unexamined), and when st is found the new parent is first moved to st's previous parent (`parent.parent = st.parent`) on every path before st is re-parented (paths on which the new parent is known to be nil are exempt: st becomes a root, no cycle can close); the value moved may be st.parent read into a local ahead of the walk, as long as that read cannot follow the re-parenting store; (4) the exclusive loop assigns `x.parent = st` only for x != st whose parent equals st's new parent, only under priority.Exclusive and only after st was re-parented; (5) every loop of the function is either a range over the stream map or the nil-terminated parent walk (termination given acyclicity); (6) both callers pass the connection's stream map and processHeaders registers the new stream before prioritising it. Robustness: every anchor function is analysed together with its private helpers (unexported functions of bfe_http2 that are never used as values and whose every call site lies in the anchor or another such helper, depth <= 4): stores, calls and loops found there count as the anchor's; values are followed across the call boundary (a helper's parameter is the argument at its single call site, the result of a helper call is the one value the helper returns); guards hold inside a single-call-site helper when they hold at its call site; branch facts are read through negations, mirrored comparisons, named booleans, short-circuit phis (the fact must follow on every edge that can yield the value, edges contradicting other known guards excluded) and boolean helper functions (the fact must follow at every return that can yield the value); dominance, must-pass and reachability are decided on the call-stack-sensitive supergraph of the region (calls of helpers entered, constant boolean results matched with the branch on them in the caller). Not followed: helpers that are used as function values or invoked through an interface, helpers called through defer or go, values passed through struct fields or closures' free variables into a helper, helpers with more than one call site for parameter identity (their code is still attributed to the anchor when all call sites lie in the region). Not covered: acyclicity as a graph invariant over arbitrary histories (it follows from these clauses by induction, which the checker does not perform); weights; dependency on streams that were already removed from the map.",
			RuleText:    "obligations = each store to stream.parent (census + form), the self-dependency guard, the clauses of the ancestor walk, each exit edge of the walk loop, the guards of the exclusive adoption, each loop header of adjustStreamPriority, each caller",
		},
		Run: runC36,
		Mutants: []Mutant{
			{Name: "self-dependency-accepted", File: "bfe_http2/server.go", Old: "	if parent == st {\n", New: "	if parent == nil {\n", Expect: "self-dep"},
			{Name: "walk-compares-wrong-stream", File: "bfe_http2/server.go", Old: "		if piter == st {\n", New: "		if piter == parent {\n", Expect: "ancestor-walk"},
			{Name: "dependency-not-moved", File: "bfe_http2/server.go", Old: "			parent.parent = st.parent\n", New: "			parent.parent = nil\n", Expect: "ancestor-walk"},
			{Name: "reparent-before-walk", File: "bfe_http2/server.go", Old: "	for piter := parent; piter != nil; piter = piter.parent {\n		if piter == st {\n			parent.parent = st.parent\n			break\n		}\n	}\n	st.parent = parent\n", New: "	st.parent = parent\n	for piter := parent; piter != nil; piter = piter.parent {\n		if piter == st {\n			parent.parent = st.parent\n			break\n		}\n	}\n", Expect: "ancestor-walk"},
			{Name: "walk-removed", File: "bfe_http2/server.go", Old: "	for piter := parent; piter != nil; piter = piter.parent {\n		if piter == st {\n			parent.parent = st.parent\n			break\n		}\n	}\n	st.parent = parent\n", New: "	st.parent = parent\n", Expect: "ancestor-walk"},
			{Name: "exclusive-adopts-itself", File: "bfe_http2/server.go", Old: "			if openStream != st && openStream.parent == st.parent {\n", New: "			if openStream.parent == st.parent {\n", Expect: "exclusive"},
			{Name: "exclusive-adopts-everyone", File: "bfe_http2/server.go", Old: "			if openStream != st && openStream.parent == st.parent {\n", New: "			if openStream != st {\n", Expect: "exclusive"},
			{Name: "parent-written-elsewhere", File: "bfe_http2/server.go", Old: "		st.gotReset = true\n", New: "		st.gotReset = true\n		st.parent = st\n", Expect: "parent-writers"},
			{Name: "walk-does-not-advance", File: "bfe_http2/server.go", Old: "piter != nil; piter = piter.parent {", New: "piter != nil; piter = piter {", Expect: "ancestor-walk"},
			{Name: "prioritised-before-registered", File: "bfe_http2/server.go", Old: "	sc.streams[id] = st\n	if f.HasPriority() {\n		adjustStreamPriority(sc.streams, st.id, f.Priority)\n	}\n", New: "	if f.HasPriority() {\n		adjustStreamPriority(sc.streams, st.id, f.Priority)\n	}\n	sc.streams[id] = st\n", Expect: "prio-callers"},
			{Name: "walk-work-capped", File: "bfe_http2/server.go", Old: "	for piter := parent; piter != nil; piter = piter.parent {\n		if piter == st {\n", New: "	steps := 0\n	for piter := parent; piter != nil; piter = piter.parent {\n		if steps++; steps > 100 {\n			break\n		}\n		if piter == st {\n", Expect: "walk-complete"},
			{Name: "walk-stops-at-older-stream", File: "bfe_http2/server.go", Old: "		if piter == st {\n			parent.parent = st.parent\n", New: "		if piter.id < st.id {\n			break\n		}\n		if piter == st {\n			parent.parent = st.parent\n", Expect: "walk-complete"},
			{Name: "silent-walk-break-at-root", File: "bfe_http2/server.go", Old: "	for piter := parent; piter != nil; piter = piter.parent {\n		if piter == st {\n", New: "	for piter := parent; ; piter = piter.parent {\n		if piter == nil {\n			break\n		}\n		if piter == st {\n", Silent: true},
			{Name: "silent-rename-cursor", File: "bfe_http2/server.go", Old: "	for piter := parent; piter != nil; piter = piter.parent {\n		if piter == st {\n", New: "	for anc := parent; anc != nil; anc = anc.parent {\n		if anc == st {\n", Silent: true},
			{Name: "silent-switch-form", File: "bfe_http2/server.go", Old: "	if parent == st {\n		// if client tries to set this stream to be the parent of itself\n		// ignore and keep going\n		return\n	}\n", New: "	switch {\n	case parent == st:\n		return\n	}\n", Silent: true},
			{Name: "silent-walk-and-adoption-in-helpers", File: "bfe_http2/server.go", Old: "\tfor piter := parent; piter != nil; piter = piter.parent {\n\t\tif piter == st {\n\t\t\tparent.parent = st.parent\n\t\t\tbreak\n\t\t}\n\t}\n\tst.parent = parent\n\tif priority.Exclusive && (st.parent != nil || priority.StreamDep == 0) {\n\t\tfor _, openStream := range streams {\n\t\t\tif openStream != st && openStream.parent == st.parent {\n\t\t\t\topenStream.parent = st\n\t\t\t}\n\t\t}\n\t}\n}\n", New: "\tdetachFromSubtree(st, parent)\n\tst.parent = parent\n\tif priority.Exclusive && (st.parent != nil || priority.StreamDep == 0) {\n\t\tadoptChildrenOfParent(streams, st)\n\t}\n}\n\nfunc detachFromSubtree(st, parent *stream) {\n\tfor piter := parent; piter != nil; piter = piter.parent {\n\t\tif piter == st {\n\t\t\tparent.parent = st.parent\n\t\t\treturn\n\t\t}\n\t}\n}\n\nfunc adoptChildrenOfParent(streams map[uint32]*stream, st *stream) {\n\tfor _, openStream := range streams {\n\t\tif openStream != st && openStream.parent == st.parent {\n\t\t\topenStream.parent = st\n\t\t}\n\t}\n}\n", Silent: true},
			{Name: "silent-walk-continue-form-early-returns", File: "bfe_http2/server.go", Old: "\tfor piter := parent; piter != nil; piter = piter.parent {\n\t\tif piter == st {\n\t\t\tparent.parent = st.parent\n\t\t\tbreak\n\t\t}\n\t}\n\tst.parent = parent\n\tif priority.Exclusive && (st.parent != nil || priority.StreamDep == 0) {\n\t\tfor _, openStream := range streams {\n\t\t\tif openStream != st && openStream.parent == st.parent {\n\t\t\t\topenStream.parent = st\n\t\t\t}\n\t\t}\n\t}\n}\n", New: "\tpiter := parent\n\tfor piter != nil {\n\t\tif piter != st {\n\t\t\tpiter = piter.parent\n\t\t\tcontinue\n\t\t}\n\t\tparent.parent = st.parent\n\t\tbreak\n\t}\n\tst.parent = parent\n\tif !priority.Exclusive {\n\t\treturn\n\t}\n\tif st.parent == nil && priority.StreamDep != 0 {\n\t\treturn\n\t}\n\tfor _, openStream := range streams {\n\t\tif openStream == st {\n\t\t\tcontinue\n\t\t}\n\t\tif openStream.parent != st.parent {\n\t\t\tcontinue\n\t\t}\n\t\topenStream.parent = st\n\t}\n}\n", Silent: true},
			{Name: "silent-old-parent-read-ahead", File: "bfe_http2/server.go", Old: "\tfor piter := parent; piter != nil; piter = piter.parent {\n\t\tif piter == st {\n\t\t\tparent.parent = st.parent\n\t\t\tbreak\n\t\t}\n\t}\n\tst.parent = parent\n\tif priority.Exclusive && (st.parent != nil || priority.StreamDep == 0) {\n\t\tfor _, openStream := range streams {\n\t\t\tif openStream != st && openStream.parent == st.parent {\n\t\t\t\topenStream.parent = st\n\t\t\t}\n\t\t}\n\t}\n}\n", New: "\toldParent := st.parent\n\tfor anc := parent; anc != nil; anc = anc.parent {\n\t\tif anc == st {\n\t\t\tparent.parent = oldParent\n\t\t\tbreak\n\t\t}\n\t}\n\tst.parent = parent\n\tdepIsRoot := priority.StreamDep == 0\n\tif priority.Exclusive && (parent != nil || depIsRoot) {\n\t\tfor _, sibling := range streams {\n\t\t\tif sibling != st && sibling.parent == parent {\n\t\t\t\tsibling.parent = st\n\t\t\t}\n\t\t}\n\t}\n}\n", Silent: true},
			{Name: "silent-defensive-nil-parent-named-booleans-logging", File: "bfe_http2/server.go", Old: "\tfor piter := parent; piter != nil; piter = piter.parent {\n\t\tif piter == st {\n\t\t\tparent.parent = st.parent\n\t\t\tbreak\n\t\t}\n\t}\n\tst.parent = parent\n\tif priority.Exclusive && (st.parent != nil || priority.StreamDep == 0) {\n\t\tfor _, openStream := range streams {\n\t\t\tif openStream != st && openStream.parent == st.parent {\n\t\t\t\topenStream.parent = st\n\t\t\t}\n\t\t}\n\t}\n}\n", New: "\tlifted := false\n\tfor piter := parent; piter != nil; piter = piter.parent {\n\t\tif piter == st {\n\t\t\tif parent == nil {\n\t\t\t\tbreak\n\t\t\t}\n\t\t\tparent.parent = st.parent\n\t\t\tlifted = true\n\t\t\tbreak\n\t\t}\n\t}\n\tst.parent = parent\n\thasParent := st.parent != nil\n\tdepIsRoot := priority.StreamDep == 0\n\tmakeExclusive := priority.Exclusive && (hasParent || depIsRoot)\n\tadopted := 0\n\tif makeExclusive {\n\t\tfor _, openStream := range streams {\n\t\t\tisSelf := openStream == st\n\t\t\tisSibling := openStream.parent == st.parent\n\t\t\tif !isSelf && isSibling {\n\t\t\t\topenStream.parent = st\n\t\t\t\tadopted++\n\t\t\t}\n\t\t}\n\t}\n\tlog.Logger.Debug(\"http2: priority of stream %d: lifted=%v adopted=%d\", streamID, lifted, adopted)\n}\n", Silent: true},
		},
	})
}

func runC36(c *core.Ctx) {
	e := h2bNew(c)
	if e == nil {
		return
	}
	fn := e.fn("adjustStreamPriority")
	parentF := e.field("stream.parent")
	if fn == nil || parentF == nil {
		return
	}
	if len(fn.Params) < 2 {
		c.Missing("adjustStreamPriority(streams, streamID, priority): signature changed")
		return
	}
	// the rule looks at adjustStreamPriority together with its private helpers
	// (the ancestor walk or the sibling loop may live in a helper)
	reg := e.region(fn)
	for _, f := range reg.fns {
		c.Analysed(core.FuncKey(f))
	}
	key := func(s string) string { return "adjustStreamPriority:" + s }
	nilV := h2bNilV

	// the re-prioritised stream: comma-ok lookup in the map parameter
	var st, newParent ssa.Value
	for _, in := range reg.all() {
		lk, ok := in.(*ssa.Lookup)
		if !ok || e.rep(lk.X) != e.rep(fn.Params[0]) {
			continue
		}
		if lk.CommaOk && e.rep(lk.Index) == e.rep(fn.Params[1]) {
			for _, r := range *lk.Referrers() {
				if ex, ok := r.(*ssa.Extract); ok && ex.Index == 0 {
					st = ex
				}
			}
		}
	}
	if st == nil {
		c.Missing("adjustStreamPriority: lookup of the re-prioritised stream streams[streamID]")
		return
	}

	// (1) census of writers
	var sSelf, sMove *ssa.Store
	var sExcl []*ssa.Store
	for _, s := range core.FieldStores(e.fns, parentF) {
		if !reg.in[s.Fn] {
			c.Check("parent-writers", h2bShort(s.Fn), s.Store.Pos(), false,
				"stream.parent is written in "+h2bShort(s.Fn)+"; only adjustStreamPriority maintains the dependency tree (its cycle checks are bypassed)")
			continue
		}
		base, _ := h2bStoreField(s.Store, parentF)
		switch {
		case e.eq(base, st):
			ok := sSelf == nil
			c.Check("parent-writers", key("reparent"), s.Store.Pos(), ok, "more than one `st.parent = …` store in adjustStreamPriority")
			if sSelf == nil {
				sSelf = s.Store
			}
		case h2bIsRangeElem(e.rep(base)):
			sExcl = append(sExcl, s.Store)
			c.Check("parent-writers", key(fmt.Sprintf("exclusive-adopt#%d", len(sExcl))), s.Store.Pos(), true, "")
		default:
			ok := sMove == nil
			c.Check("parent-writers", key("move-dependency"), s.Store.Pos(), ok, "unreviewed additional store to stream.parent of "+core.Render(base))
			if sMove == nil {
				sMove = s.Store
			}
		}
	}
	c.Min("parent-writers", 3)
	if sSelf == nil {
		c.Check("parent-writers", key("reparent"), fn.Pos(), false, "no store `st.parent = …` for the re-prioritised stream found")
		return
	}
	newParent = e.rep(sSelf.Val)
	// the new parent is the map entry of priority.StreamDep
	{
		lk, ok := newParent.(*ssa.Lookup)
		okP := ok && !lk.CommaOk && e.rep(lk.X) == e.rep(fn.Params[0])
		if okP {
			f, _ := h2bAnyFieldLoad(e.rep(lk.Index))
			okP = f != nil && f.Name() == "StreamDep"
		}
		c.Check("ancestor-walk", key("new-parent-source"), sSelf.Pos(), okP,
			"st.parent is assigned "+core.Render(newParent)+", expected streams[priority.StreamDep]")
	}
	// a path on which the new parent is known to be nil cannot close a cycle: st becomes a root
	parentNil := map[*ssa.BasicBlock]bool{}
	knownRoot := func(b *ssa.BasicBlock) bool {
		v, ok := parentNil[b]
		if !ok {
			v = e.guarded(b, func(r h2bRel) bool { return r.Cmp(token.EQL, e.is(newParent), nilV) })
			parentNil[b] = v
		}
		return v
	}

	// (2) self dependency
	c.Check("self-dep", key("reparent"), sSelf.Pos(),
		e.guarded(sSelf.Block(), func(r h2bRel) bool { return r.Cmp(token.NEQ, e.is(newParent), e.is(st)) }),
		"`st.parent = parent` is reachable without parent != st having been established (a stream may become its own parent); guards: "+e.guardList(sSelf.Block()))
	c.Min("self-dep", 1)

	// (3) ancestor walk: a cursor every incoming value of which is the new parent
	// or the cursor's own .parent (at least one of each)
	var cursor *ssa.Phi
	for _, in := range reg.all() {
		phi, ok := in.(*ssa.Phi)
		if !ok || len(phi.Edges) < 2 {
			continue
		}
		nStart, nStep := 0, 0
		for _, ed := range phi.Edges {
			if base, ok := h2bFieldLoad(ed, parentF); ok && h2bCanon(base) == ssa.Value(phi) {
				nStep++
			} else if e.eq(ed, newParent) {
				nStart++
			} else {
				nStart, nStep = -1000, -1000
			}
		}
		if nStart > 0 && nStep > 0 {
			cursor = phi
		}
	}
	c.Check("ancestor-walk", key("cursor"), fn.Pos(), cursor != nil,
		"no cursor that starts at the new parent and advances by .parent (for piter := parent; …; piter = piter.parent) found")
	if cursor != nil {
		hdr := cursor.Block()
		wfn := hdr.Parent()
		var walk *core.Loop
		for _, l := range core.Loops(wfn) {
			if l.Header == hdr {
				walk = l
			}
		}
		// nil-terminated: inside the walk the cursor is tested against nil
		nilTest := false
		for _, ifi := range h2bIfs(wfn) {
			if walk != nil && walk.Body[ifi.Block()] {
				r := h2bRelOfCond(ifi.Cond, true)
				if r.Cmp(token.NEQ, e.is(cursor), nilV) || r.Cmp(token.EQL, e.is(cursor), nilV) {
					nilTest = true
				}
			}
		}
		c.Check("ancestor-walk", key("nil-terminated"), hdr.Instrs[0].Pos(), nilTest, "the walk's loop does not test the cursor against nil")
		c.Check("ancestor-walk", key("dominates-reparent"), sSelf.Pos(), reg.dominates(cursor, sSelf),
			"`st.parent = parent` is not dominated by the ancestor walk: the stream can be re-parented under one of its own descendants without the walk having run")
		// the comparison with st (either spelling: `if piter == st {…}` or `if piter != st {advance; continue}`)
		var inWalk []*ssa.If
		for _, ifi := range h2bIfs(wfn) {
			if hdr.Dominates(ifi.Block()) {
				inWalk = append(inWalk, ifi)
			}
		}
		found, hit := e.branchOn(inWalk, func(r h2bRel) bool { return r.Cmp(token.EQL, e.is(cursor), e.is(st)) }, nil)
		c.Check("ancestor-walk", key("compares-with-st"), hdr.Instrs[0].Pos(), found != nil,
			"inside the walk the cursor is never compared with the re-prioritised stream st")
		c36WalkComplete(c, e, walk, hdr, cursor, st, key)
		if found != nil {
			isMove := func(in ssa.Instruction) bool {
				return (sMove != nil && in == ssa.Instruction(sMove)) || knownRoot(in.Block())
			}
			// an edge taken only when the new parent is nil leads to no cycle either
			rootEdge := func(b *ssa.BasicBlock, i int) bool {
				ifi := h2bIfOf(b)
				return ifi != nil && h2bImplies(e, ifi.Cond, i == 0, func(r h2bRel) bool { return r.Cmp(token.EQL, e.is(newParent), nilV) }, 0)
			}
			bad := reg.reachE([]h2bAt{{hit, 0}}, isMove, h2bInstrIs(sSelf), rootEdge)
			c.Check("ancestor-walk", key("move-before-reparent"), h2bPos(found), sMove != nil && bad == nil,
				"when st is found among the new parent's ancestors, `st.parent = parent` is reached without first executing `parent.parent = st.parent`: a cycle is created")
		}
		if sMove != nil {
			base, _ := h2bStoreField(sMove, parentF)
			vb, isLoad := h2bFieldLoad(e.rep(sMove.Val), parentF)
			c.Check("ancestor-walk", key("move-form"), sMove.Pos(), e.eq(base, newParent) && isLoad && e.eq(vb, st),
				"the dependency move is "+core.Render(sMove.Addr)+" = "+core.Render(sMove.Val)+", expected parent.parent = st.parent (RFC 7540 5.3.3)")
			c.Check("ancestor-walk", key("move-guard"), sMove.Pos(),
				e.guarded(sMove.Block(), func(r h2bRel) bool { return r.Cmp(token.EQL, e.is(cursor), e.is(st)) }),
				"parent.parent is rewritten although st was not found among the new parent's ancestors; guards: "+e.guardList(sMove.Block()))
			// st.parent must be read before it is overwritten: the load whose value is
			// moved (it may be a named local read ahead of the walk) is not reachable
			// from the re-parenting store
			okRead := isLoad
			if ld, isIn := e.rep(sMove.Val).(ssa.Instruction); isLoad && isIn {
				okRead = reg.reachAfter(sSelf, nil, h2bInstrIs(ld)) == nil
			}
			c.Check("ancestor-walk", key("move-reads-old-parent"), sMove.Pos(), okRead,
				"`parent.parent = st.parent` can read st.parent after it was already overwritten")
		} else {
			c.Check("ancestor-walk", key("move-form"), fn.Pos(), false, "no store moving the new parent out of st's subtree (parent.parent = st.parent)")
		}
	}
	c.Min("ancestor-walk", 7)
	c.Min("walk-complete", 2)

	// (4) exclusive adoption
	for i, s := range sExcl {
		k := key(fmt.Sprintf("exclusive-adopt#%d", i+1))
		elem, _ := h2bStoreField(s, parentF)
		c.Check("exclusive", k+":value", s.Pos(), e.eq(s.Val, st), "exclusive adoption stores "+core.Render(s.Val)+" as parent, expected the re-prioritised stream")
		c.Check("exclusive", k+":not-self", s.Pos(),
			e.guarded(s.Block(), func(r h2bRel) bool { return r.Cmp(token.NEQ, e.is(elem), e.is(st)) }),
			"the exclusive loop can make st its own parent: the adoption is not guarded by openStream != st; guards: "+e.guardList(s.Block()))
		// st's (new) parent: st.parent re-read, or the value that was just stored into it
		stParent := func(v ssa.Value) bool {
			if e.eq(v, newParent) {
				return true
			}
			b, ok := h2bFieldLoad(e.rep(v), parentF)
			return ok && e.eq(b, st)
		}
		c.Check("exclusive", k+":sibling-only", s.Pos(),
			e.guarded(s.Block(), func(r h2bRel) bool {
				return r.Cmp(token.EQL, e.fieldLoadOn(parentF, elem), stParent)
			}),
			"the exclusive loop adopts streams that are not children of st's new parent (an ancestor of st could become its child); guards: "+e.guardList(s.Block()))
		c.Check("exclusive", k+":flag", s.Pos(),
			e.guarded(s.Block(), func(r h2bRel) bool {
				return r.Flag(true, func(v ssa.Value) bool { f, _ := h2bAnyFieldLoad(e.rep(v)); return f != nil && f.Name() == "Exclusive" })
			}),
			"siblings are adopted although priority.Exclusive was not tested")
		c.Check("exclusive", k+":after-reparent", s.Pos(), reg.dominates(sSelf, s),
			"siblings are adopted before st itself was re-parented (st.parent still names the old parent)")
	}
	c.Min("exclusive", 5)

	// (5) loops
	nLoop := 0
	for _, f := range reg.fns {
		for _, h := range h2bLoopHeaders(f) {
			nLoop++
			kind := ""
			for _, in := range h.Instrs {
				if _, ok := in.(*ssa.Next); ok {
					kind = "range" // the header of a range loop asks the iterator for the next element
				}
				if cursor != nil && in == ssa.Instruction(cursor) {
					kind = "parent-walk"
				}
			}
			c.Check("prio-loops", key(fmt.Sprintf("loop#%d", nLoop)), h2bPos(h.Instrs[len(h.Instrs)-1]), kind != "",
				"adjustStreamPriority contains a loop that is neither a range over the stream map nor the nil-terminated parent walk; its termination is not reviewed")
		}
	}
	c.Min("prio-loops", 2)

	// (6) callers
	streamsF := e.field("serverConn.streams")
	ph := c.P.Func(h2bPkg, "serverConn.processHeaders")
	for _, s := range e.callSites("adjustStreamPriority") {
		home := e.home(s.Fn, ph)
		k := h2bShort(home)
		args := s.Call.Common().Args
		_, okMap := h2bFieldLoad(e.rep(args[0]), streamsF)
		c.Check("prio-callers", k+":map", s.Call.Pos(), streamsF != nil && okMap, "adjustStreamPriority is applied to "+core.Render(args[0])+", expected the connection's stream map sc.streams")
		if ph != nil && home == ph {
			// the new stream is registered first
			preg := e.region(ph)
			var regIn ssa.Instruction
			for _, in := range preg.all() {
				if mu, ok := in.(*ssa.MapUpdate); ok {
					if _, ok := h2bFieldLoad(e.rep(mu.Map), streamsF); ok {
						regIn = in
					}
				}
			}
			c.Check("prio-callers", k+":registered-first", s.Call.Pos(), regIn != nil && preg.dominates(regIn, s.Call.(ssa.Instruction)),
				"processHeaders prioritises the new stream before registering it in sc.streams (the PRIORITY information of HEADERS is lost / applied to a stale entry)")
		}
	}
	c.Min("prio-callers", 3)
}

// h2bIsRangeElem: v is an element extracted from a range iteration (next).
func h2bIsRangeElem(v ssa.Value) bool {
	ex, ok := h2bCanon(v).(*ssa.Extract)
	if !ok {
		return false
	}
	_, ok = ex.Tuple.(*ssa.Next)
	return ok
}

// c36WalkComplete: the ancestor walk may stop only at the root (cursor == nil)
// or at st itself. Any other way out of the loop (a depth/work cap, an id
// comparison, a "seen enough" flag) leaves part of the ancestor chain
// unexamined: a descendant of st beyond the cut-off is not recognised and
// `st.parent = parent` closes a cycle. One obligation per edge leaving the
// natural loop of the cursor.
func c36WalkComplete(c *core.Ctx, e *h2bEnv, l *core.Loop, hdr *ssa.BasicBlock, cursor *ssa.Phi, st ssa.Value, key func(string) string) {
	nExit := 0
	if l != nil {
		var blocks []*ssa.BasicBlock
		for b := range l.Body {
			blocks = append(blocks, b)
		}
		sort.Slice(blocks, func(i, j int) bool { return blocks[i].Index < blocks[j].Index })
		for _, b := range blocks {
			for si, s := range b.Succs {
				if l.Body[s] {
					continue
				}
				nExit++
				why, ok := "an unconditional jump", false
				if ifi := h2bIfOf(b); ifi != nil && b.Succs[0] != b.Succs[1] {
					why = core.Render(ifi.Cond)
					if si == 1 {
						why = "!" + why
					}
					ok = h2bImplies(e, ifi.Cond, si == 0, func(r h2bRel) bool {
						return r.Cmp(token.EQL, e.is(cursor), h2bNilV) || r.Cmp(token.EQL, e.is(cursor), e.is(st))
					}, 0)
				}
				c.Check("walk-complete", key(fmt.Sprintf("walk-exit#%d", nExit)), h2bPos(b.Instrs[len(b.Instrs)-1]), ok,
					"the ancestor walk can stop on "+why+", i.e. before it reached the root (cursor == nil) or found st: a descendant of st beyond that point is not detected and re-parenting st under it creates a cycle (RFC 7540 5.3.3)")
			}
		}
	}
	if nExit == 0 {
		c.Check("walk-complete", key("walk-exit#0"), hdr.Instrs[0].Pos(), false, "the ancestor walk has no exit edge that the checker can classify")
	}
}
