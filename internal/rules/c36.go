package rules

import (
	"fmt"
	"go/token"
	"sort"

	"golang.org/x/tools/go/ssa"

	"verif/internal/core"
)

// C36 — the HTTP/2 priority tree stays acyclic.
func init() {
	Register(&Rule{
		ID: "C36", Section: "5 C36",
		Technique: "who-may-write census of stream.parent, guard (control-dependence) and dominance/path queries on go/ssa of adjustStreamPriority, loop-header census",
		Meta: core.Meta{
			Level:       "other",
			Explanation: "Decides the structural clauses that keep re-parenting acyclic in bfe_http2.adjustStreamPriority: (1) stream.parent is written only in adjustStreamPriority and only in three reviewed forms (re-parent st, move the new parent out of st's subtree, exclusive adoption of siblings); (2) `st.parent = parent` is reachable only when parent != st was established (self-dependency ignored); (3) it is dominated by the ancestor walk: a cursor that starts at the new parent, advances by .parent, stops at nil and is compared with st, every edge leaving the walk loop is either cursor == nil or cursor == st (no depth/work cap or other early exit can leave ancestors unexamined), and when st is found the new parent is first moved to st's previous parent (`parent.parent = st.parent`) on every path before st is re-parented; (4) the exclusive loop assigns `x.parent = st` only for x != st whose parent equals st's new parent, only under priority.Exclusive and only after st was re-parented; (5) every loop of the function is either a range over the stream map or the nil-terminated parent walk (termination given acyclicity); (6) both callers pass the connection's stream map and processHeaders registers the new stream before prioritising it. Not covered: acyclicity as a graph invariant over arbitrary histories (it follows from these clauses by induction, which the checker does not perform); weights; dependency on streams that were already removed from the map.",
			RuleText:    "obligations = each store to stream.parent (census + form), the self-dependency guard, the clauses of the ancestor walk, each exit edge of the walk loop, the guards of the exclusive adoption, each loop header of adjustStreamPriority, each caller",
		},
		Run: runC36,
		Mutants: []Mutant{
			{Name: "self-dependency-accepted", File: "bfe_http2/server.go", Old: "	if parent == st {\n", New: "	if parent == nil {\n", Expect: "self-dep"},
			{Name: "walk-compares-wrong-stream", File: "bfe_http2/server.go", Old: "		if piter == st {\n", New: "		if piter == parent {\n", Expect: "ancestor-walk"},
			{Name: "dependency-not-moved", File: "bfe_http2/server.go", Old: "			parent.parent = st.parent\n", New: "			parent.parent = nil\n", Expect: "ancestor-walk"},
			{Name: "reparent-before-walk", File: "bfe_http2/server.go", Old: "	for piter := parent; piter != nil; piter = piter.parent {\n		if piter == st {\n			parent.parent = st.parent\n			break\n		}\n	}\n	st.parent = parent\n", New: "	st.parent = parent\n	for piter := parent; piter != nil; piter = piter.parent {\n		if piter == st {\n			parent.parent = st.parent\n			break\n		}\n	}\n", Expect: "ancestor-walk"},
			{Name: "walk-removed", File: "bfe_http2/server.go", Old: "	for piter := parent; piter != nil; piter = piter.parent {\n		if piter == st {\n			parent.parent = st.parent\n			break\n		}\n	}\n	st.parent = parent\n", New: "	st.parent = parent\n", Expect: "ancestor-walk"},
			{Name: "exclusive-adopts-itself", File: "bfe_http2/server.go", Old: "			if openStream != st && openStream.parent == st.parent {\n", New: "			if openStream.parent == st.parent {\n", Expect: "exclusive"},
			{Name: "exclusive-adopts-everyone", File: "bfe_http2/server.go", Old: "			if openStream != st && openStream.parent == st.parent {\n", New: "			if openStream != st {\n", Expect: "exclusive"},
			{Name: "parent-written-elsewhere", File: "bfe_http2/server.go", Old: "		st.gotReset = true\n", New: "		st.gotReset = true\n		st.parent = st\n", Expect: "parent-writers"},
			{Name: "walk-does-not-advance", File: "bfe_http2/server.go", Old: "piter != nil; piter = piter.parent {", New: "piter != nil; piter = piter {", Expect: "ancestor-walk"},
			{Name: "prioritised-before-registered", File: "bfe_http2/server.go", Old: "	sc.streams[id] = st\n	if f.HasPriority() {\n		adjustStreamPriority(sc.streams, st.id, f.Priority)\n	}\n", New: "	if f.HasPriority() {\n		adjustStreamPriority(sc.streams, st.id, f.Priority)\n	}\n	sc.streams[id] = st\n", Expect: "prio-callers"},
			{Name: "walk-work-capped", File: "bfe_http2/server.go", Old: "	for piter := parent; piter != nil; piter = piter.parent {\n		if piter == st {\n", New: "	steps := 0\n	for piter := parent; piter != nil; piter = piter.parent {\n		if steps++; steps > 100 {\n			break\n		}\n		if piter == st {\n", Expect: "walk-complete"},
			{Name: "walk-stops-at-older-stream", File: "bfe_http2/server.go", Old: "		if piter == st {\n			parent.parent = st.parent\n", New: "		if piter.id < st.id {\n			break\n		}\n		if piter == st {\n			parent.parent = st.parent\n", Expect: "walk-complete"},
			{Name: "silent-walk-break-at-root", File: "bfe_http2/server.go", Old: "	for piter := parent; piter != nil; piter = piter.parent {\n		if piter == st {\n", New: "	for piter := parent; ; piter = piter.parent {\n		if piter == nil {\n			break\n		}\n		if piter == st {\n", Silent: true},
			{Name: "silent-rename-cursor", File: "bfe_http2/server.go", Old: "	for piter := parent; piter != nil; piter = piter.parent {\n		if piter == st {\n", New: "	for anc := parent; anc != nil; anc = anc.parent {\n		if anc == st {\n", Silent: true},
			{Name: "silent-switch-form", File: "bfe_http2/server.go", Old: "	if parent == st {\n		// if client tries to set this stream to be the parent of itself\n		// ignore and keep going\n		return\n	}\n", New: "	switch {\n	case parent == st:\n		return\n	}\n", Silent: true},
		},
	})
}

func runC36(c *core.Ctx) {
	e := h2bNew(c)
	if e == nil {
		return
	}
	fn := e.fn("adjustStreamPriority")
	parentF := e.field("stream.parent")
	if fn == nil || parentF == nil {
		return
	}
	key := func(s string) string { return "adjustStreamPriority:" + s }

	// the re-prioritised stream: comma-ok lookup in the map parameter
	var st, newParent ssa.Value
	for _, in := range h2bAll(fn) {
		lk, ok := in.(*ssa.Lookup)
		if !ok || len(fn.Params) < 2 || h2bCanon(lk.X) != fn.Params[0] {
			continue
		}
		if lk.CommaOk && h2bCanon(lk.Index) == fn.Params[1] {
			for _, r := range *lk.Referrers() {
				if ex, ok := r.(*ssa.Extract); ok && ex.Index == 0 {
					st = ex
				}
			}
		}
	}
	if st == nil {
		c.Missing("adjustStreamPriority: lookup of the re-prioritised stream streams[streamID]")
		return
	}

	// (1) census of writers
	var sSelf, sMove *ssa.Store
	var sExcl []*ssa.Store
	for _, s := range core.FieldStores(e.fns, parentF) {
		if s.Fn != fn {
			c.Check("parent-writers", h2bShort(s.Fn), s.Store.Pos(), false,
				"stream.parent is written in "+h2bShort(s.Fn)+"; only adjustStreamPriority maintains the dependency tree (its cycle checks are bypassed)")
			continue
		}
		base, _ := h2bStoreField(s.Store, parentF)
		switch {
		case h2bEq(base, st):
			ok := sSelf == nil
			c.Check("parent-writers", key("reparent"), s.Store.Pos(), ok, "more than one `st.parent = …` store in adjustStreamPriority")
			if sSelf == nil {
				sSelf = s.Store
			}
		case h2bIsRangeElem(base):
			sExcl = append(sExcl, s.Store)
			c.Check("parent-writers", key(fmt.Sprintf("exclusive-adopt#%d", len(sExcl))), s.Store.Pos(), true, "")
		default:
			ok := sMove == nil
			c.Check("parent-writers", key("move-dependency"), s.Store.Pos(), ok, "unreviewed additional store to stream.parent of "+core.Render(base))
			if sMove == nil {
				sMove = s.Store
			}
		}
	}
	c.Min("parent-writers", 3)
	if sSelf == nil {
		c.Check("parent-writers", key("reparent"), fn.Pos(), false, "no store `st.parent = …` for the re-prioritised stream found")
		return
	}
	newParent = sSelf.Val
	// the new parent is the map entry of priority.StreamDep
	{
		lk, ok := h2bCanon(newParent).(*ssa.Lookup)
		okP := ok && !lk.CommaOk && h2bCanon(lk.X) == fn.Params[0]
		if okP {
			f, _ := h2bAnyFieldLoad(lk.Index)
			okP = f != nil && f.Name() == "StreamDep"
		}
		c.Check("ancestor-walk", key("new-parent-source"), sSelf.Pos(), okP,
			"st.parent is assigned "+core.Render(newParent)+", expected streams[priority.StreamDep]")
	}

	// (2) self dependency
	c.Check("self-dep", key("reparent"), sSelf.Pos(),
		h2bGuarded(sSelf.Block(), func(r h2bRel) bool { return r.Cmp(token.NEQ, h2bIs(newParent), h2bIs(st)) }),
		"`st.parent = parent` is reachable without parent != st having been established (a stream may become its own parent); guards: "+h2bGuardList(sSelf.Block()))
	c.Min("self-dep", 1)

	// (3) ancestor walk
	var cursor *ssa.Phi
	for _, in := range h2bAll(fn) {
		phi, ok := in.(*ssa.Phi)
		if !ok || len(phi.Edges) != 2 {
			continue
		}
		for i := 0; i < 2; i++ {
			if !h2bEq(phi.Edges[i], newParent) {
				continue
			}
			if base, ok := h2bFieldLoad(phi.Edges[1-i], parentF); ok && h2bCanon(base) == ssa.Value(phi) {
				cursor = phi
			}
		}
	}
	c.Check("ancestor-walk", key("cursor"), fn.Pos(), cursor != nil,
		"no cursor that starts at the new parent and advances by .parent (for piter := parent; …; piter = piter.parent) found")
	if cursor != nil {
		hdr := cursor.Block()
		// nil-terminated
		nilTest := false
		if ifi := h2bIfOf(hdr); ifi != nil {
			r := h2bRelOfCond(ifi.Cond, true)
			nilTest = r.Cmp(token.NEQ, h2bIs(cursor), h2bNilV) || r.Cmp(token.EQL, h2bIs(cursor), h2bNilV)
		}
		c.Check("ancestor-walk", key("nil-terminated"), hdr.Instrs[0].Pos(), nilTest, "the walk's loop header does not test the cursor against nil")
		c.Check("ancestor-walk", key("dominates-reparent"), sSelf.Pos(), hdr.Dominates(sSelf.Block()) && hdr != sSelf.Block(),
			"`st.parent = parent` is not dominated by the ancestor walk: the stream can be re-parented under one of its own descendants without the walk having run")
		// the comparison with st
		var found *ssa.If
		for _, ifi := range h2bIfs(fn) {
			if !hdr.Dominates(ifi.Block()) {
				continue
			}
			if h2bRelOfCond(ifi.Cond, true).Cmp(token.EQL, h2bIs(cursor), h2bIs(st)) {
				found = ifi
			}
		}
		c.Check("ancestor-walk", key("compares-with-st"), hdr.Instrs[0].Pos(), found != nil,
			"inside the walk the cursor is never compared with the re-prioritised stream st")
		c36WalkComplete(c, fn, hdr, cursor, st, key)
		if found != nil {
			hit := found.Block().Succs[0]
			isMove := func(in ssa.Instruction) bool { return sMove != nil && in == ssa.Instruction(sMove) }
			bad := h2bReachFromBlock(hit, isMove, h2bInstrIs(sSelf))
			c.Check("ancestor-walk", key("move-before-reparent"), h2bPos(found), sMove != nil && bad == nil,
				"when st is found among the new parent's ancestors, `st.parent = parent` is reached without first executing `parent.parent = st.parent`: a cycle is created")
		}
		if sMove != nil {
			base, _ := h2bStoreField(sMove, parentF)
			vb, isLoad := h2bFieldLoad(sMove.Val, parentF)
			c.Check("ancestor-walk", key("move-form"), sMove.Pos(), h2bEq(base, newParent) && isLoad && h2bEq(vb, st),
				"the dependency move is "+core.Render(sMove.Addr)+" = "+core.Render(sMove.Val)+", expected parent.parent = st.parent (RFC 7540 5.3.3)")
			c.Check("ancestor-walk", key("move-guard"), sMove.Pos(),
				h2bGuarded(sMove.Block(), func(r h2bRel) bool { return r.Cmp(token.EQL, h2bIs(cursor), h2bIs(st)) }),
				"parent.parent is rewritten although st was not found among the new parent's ancestors; guards: "+h2bGuardList(sMove.Block()))
			// st.parent must be read before it is overwritten
			c.Check("ancestor-walk", key("move-reads-old-parent"), sMove.Pos(), core.ReachAvoiding(fn, sSelf, nil, h2bInstrIs(sMove)) == nil,
				"`parent.parent = st.parent` can execute after st.parent was already overwritten")
		} else {
			c.Check("ancestor-walk", key("move-form"), fn.Pos(), false, "no store moving the new parent out of st's subtree (parent.parent = st.parent)")
		}
	}
	c.Min("ancestor-walk", 7)
	c.Min("walk-complete", 2)

	// (4) exclusive adoption
	for i, s := range sExcl {
		k := key(fmt.Sprintf("exclusive-adopt#%d", i+1))
		elem, _ := h2bStoreField(s, parentF)
		c.Check("exclusive", k+":value", s.Pos(), h2bEq(s.Val, st), "exclusive adoption stores "+core.Render(s.Val)+" as parent, expected the re-prioritised stream")
		c.Check("exclusive", k+":not-self", s.Pos(),
			h2bGuarded(s.Block(), func(r h2bRel) bool { return r.Cmp(token.NEQ, h2bIs(elem), h2bIs(st)) }),
			"the exclusive loop can make st its own parent: the adoption is not guarded by openStream != st; guards: "+h2bGuardList(s.Block()))
		c.Check("exclusive", k+":sibling-only", s.Pos(),
			h2bGuarded(s.Block(), func(r h2bRel) bool {
				return r.Cmp(token.EQL, func(v ssa.Value) bool { b, ok := h2bFieldLoad(v, parentF); return ok && h2bEq(b, elem) },
					func(v ssa.Value) bool { b, ok := h2bFieldLoad(v, parentF); return ok && h2bEq(b, st) })
			}),
			"the exclusive loop adopts streams that are not children of st's new parent (an ancestor of st could become its child); guards: "+h2bGuardList(s.Block()))
		c.Check("exclusive", k+":flag", s.Pos(),
			h2bGuarded(s.Block(), func(r h2bRel) bool {
				return r.Flag(true, func(v ssa.Value) bool { f, _ := h2bAnyFieldLoad(v); return f != nil && f.Name() == "Exclusive" })
			}),
			"siblings are adopted although priority.Exclusive was not tested")
		c.Check("exclusive", k+":after-reparent", s.Pos(), core.Dominates(sSelf, s),
			"siblings are adopted before st itself was re-parented (st.parent still names the old parent)")
	}
	c.Min("exclusive", 5)

	// (5) loops
	for i, h := range h2bLoopHeaders(fn) {
		kind := ""
		for _, in := range h.Instrs {
			if _, ok := in.(*ssa.Next); ok {
				kind = "range"
			}
			if cursor != nil && in == ssa.Instruction(cursor) {
				kind = "parent-walk"
			}
		}
		c.Check("prio-loops", key(fmt.Sprintf("loop#%d", i+1)), h2bPos(h.Instrs[len(h.Instrs)-1]), kind != "",
			"adjustStreamPriority contains a loop that is neither a range over the stream map nor the nil-terminated parent walk; its termination is not reviewed")
	}
	c.Min("prio-loops", 2)

	// (6) callers
	streamsF := e.field("serverConn.streams")
	for _, s := range e.callSites("adjustStreamPriority") {
		k := h2bShort(s.Fn)
		args := s.Call.Common().Args
		_, okMap := h2bFieldLoad(args[0], streamsF)
		c.Check("prio-callers", k+":map", s.Call.Pos(), streamsF != nil && okMap, "adjustStreamPriority is applied to "+core.Render(args[0])+", expected the connection's stream map sc.streams")
		if h2bShort(s.Fn) == "serverConn.processHeaders" {
			// the new stream is registered first
			var reg ssa.Instruction
			for _, in := range h2bAll(s.Fn) {
				if mu, ok := in.(*ssa.MapUpdate); ok {
					if _, ok := h2bFieldLoad(mu.Map, streamsF); ok {
						reg = in
					}
				}
			}
			c.Check("prio-callers", k+":registered-first", s.Call.Pos(), reg != nil && core.Dominates(reg, s.Call.(ssa.Instruction)),
				"processHeaders prioritises the new stream before registering it in sc.streams (the PRIORITY information of HEADERS is lost / applied to a stale entry)")
		}
	}
	c.Min("prio-callers", 3)
}

// h2bIsRangeElem: v is an element extracted from a range iteration (next).
func h2bIsRangeElem(v ssa.Value) bool {
	ex, ok := h2bCanon(v).(*ssa.Extract)
	if !ok {
		return false
	}
	_, ok = ex.Tuple.(*ssa.Next)
	return ok
}

// c36WalkComplete: the ancestor walk may stop only at the root (cursor == nil)
// or at st itself. Any other way out of the loop (a depth/work cap, an id
// comparison, a "seen enough" flag) leaves part of the ancestor chain
// unexamined: a descendant of st beyond the cut-off is not recognised and
// `st.parent = parent` closes a cycle. One obligation per edge leaving the
// natural loop of the cursor.
func c36WalkComplete(c *core.Ctx, fn *ssa.Function, hdr *ssa.BasicBlock, cursor *ssa.Phi, st ssa.Value, key func(string) string) {
	nExit := 0
	for _, l := range core.Loops(fn) {
		if l.Header != hdr {
			continue
		}
		var blocks []*ssa.BasicBlock
		for b := range l.Body {
			blocks = append(blocks, b)
		}
		sort.Slice(blocks, func(i, j int) bool { return blocks[i].Index < blocks[j].Index })
		for _, b := range blocks {
			for si, s := range b.Succs {
				if l.Body[s] {
					continue
				}
				nExit++
				why, ok := "an unconditional jump", false
				if ifi := h2bIfOf(b); ifi != nil && b.Succs[0] != b.Succs[1] {
					why = core.Render(ifi.Cond)
					if si == 1 {
						why = "!" + why
					}
					for _, r := range h2bExpand(ifi.Cond, si == 0, 0) {
						if r.Cmp(token.EQL, h2bIs(cursor), h2bNilV) || r.Cmp(token.EQL, h2bIs(cursor), h2bIs(st)) {
							ok = true
						}
					}
				}
				c.Check("walk-complete", key(fmt.Sprintf("walk-exit#%d", nExit)), h2bPos(b.Instrs[len(b.Instrs)-1]), ok,
					"the ancestor walk can stop on "+why+", i.e. before it reached the root (cursor == nil) or found st: a descendant of st beyond that point is not detected and re-parenting st under it creates a cycle (RFC 7540 5.3.3)")
			}
		}
	}
	if nExit == 0 {
		c.Check("walk-complete", key("walk-exit#0"), hdr.Instrs[0].Pos(), false, "the ancestor walk has no exit edge that the checker can classify")
	}
}
