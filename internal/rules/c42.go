package rules

import (
	"fmt"
	"go/token"
	"go/types"
	"strings"

	"golang.org/x/tools/go/ssa"

	"verif/internal/core"
)

// C42 — TLS records are integrity-protected.
func init() {
	Register(&Rule{
		ID: "C42", Section: "5 C42",
		Technique: "guard census (dominance, disjunctive merge guards) on halfConn.decrypt's success return, error gating of the AEAD Open call, value-flow of the sequence number into the MAC / AEAD additional data, path queries for incSeq placement, who-may-write census of halfConn.seq, sticky-error chain readRecord -> setErrorLocked -> Conn.Read / readHandshake",
		Meta: core.Meta{
			Level:       "other",
			Explanation: "Decides: (a) halfConn.decrypt returns ok only if, when a MAC is configured, a comparison of the locally computed MAC (macFunction.MAC over hc.seq, the record header and the payload head) with the received tail succeeded and the padding check byte is 255; the AEAD arm's Open error leads only to failure returns and its additional data receives hc.seq and the record header; every failure return carries alertBadRecordMAC (never alert 0 = close_notify, which sendAlertLocked maps to a nil error); (b) incSeq is called on every path to a success return, on no path to a failure return, never before the MAC/Open of the same record, and incSeq itself cannot return after a wrap; hc.seq is written only by incSeq / changeCipherSpec / resetSeq and resetSeq has no other caller; (c) every macFunction implementation hashes seq, header and data; every aead wrapper forwards the additional data and the inner Open error; (d) in readRecord the ok result of decrypt is tested and on the failure edge c.in.setErrorLocked(c.sendAlert(alert of decrypt)) is executed before any return, any store to c.input and any write to the handshake buffer; readRecord returns the sticky error afterwards; Conn.Read consumes c.input only under c.in.err == nil read after the last readRecord, and Conn.Read / readHandshake test every readRecord result before consuming. Not covered: cryptographic strength, constant-timeness, the padding arithmetic (C43), truncation by a clean TCP close without close_notify (accepted as EOF by design of this code), that c.input is not assigned at all on the failure path (it is, but unreachable for the application because of the sticky error).",
			RuleText:    "obligations = each return of decrypt (guards / alert / incSeq placement), each MAC and Open call (inputs), each writer of halfConn.seq, each macFunction / aead implementation, the decrypt call in readRecord and each sink after it, each readRecord call and consume site in Conn.Read and readHandshake",
			Assumptions: []string{"crypto/subtle.ConstantTimeCompare, crypto/hmac.Equal and bytes.Equal compare their two arguments", "hash.Hash.Write/Sum and cipher.AEAD.Open of the standard library behave as documented"},
		},
		Run: runC42,
		Mutants: []Mutant{
			{Name: "mac-result-ignored", File: "bfe_tls/conn.go", Old: "		if subtle.ConstantTimeCompare(localMAC, remoteMAC) != 1 || paddingGood != 255 {\n			return false, 0, alertBadRecordMAC\n		}\n", New: "		if subtle.ConstantTimeCompare(localMAC, remoteMAC) != 1 && paddingGood != 255 {\n			return false, 0, alertBadRecordMAC\n		}\n", Expect: "decrypt-mac"},
			{Name: "padding-check-dropped", File: "bfe_tls/conn.go", Old: "subtle.ConstantTimeCompare(localMAC, remoteMAC) != 1 || paddingGood != 255 {", New: "subtle.ConstantTimeCompare(localMAC, remoteMAC) != 1 || (paddingGood != 255 && macSize < 0) {", Expect: "decrypt-padding"},
			{Name: "mac-compared-with-itself", File: "bfe_tls/conn.go", Old: "subtle.ConstantTimeCompare(localMAC, remoteMAC) != 1 ||", New: "subtle.ConstantTimeCompare(localMAC, localMAC[:len(remoteMAC)]) != 1 ||", Expect: "decrypt-mac"},
			{Name: "aead-error-ignored", File: "bfe_tls/conn.go", Old: "			payload, err = c.Open(payload[:0], nonce, payload, additionalData[:])\n			if err != nil {\n				return false, 0, alertBadRecordMAC\n			}\n", New: "			payload, err = c.Open(payload[:0], nonce, payload, additionalData[:])\n			if err != nil && len(payload) == 0 {\n				return false, 0, alertBadRecordMAC\n			}\n", Expect: "aead-open-gated"},
			{Name: "seq-not-in-mac", File: "bfe_tls/conn.go", Old: "		localMAC := hc.mac.MAC(hc.inDigestBuf, hc.seq[0:], b.data[:recordHeaderLen], payload[:n])", New: "		localMAC := hc.mac.MAC(hc.inDigestBuf, hc.inDigestBuf[:0], b.data[:recordHeaderLen], payload[:n])", Expect: "mac-seq"},
			{Name: "seq-not-in-aead-ad", File: "bfe_tls/conn.go", Old: "			var additionalData [13]byte\n			copy(additionalData[:], hc.seq[:])\n			copy(additionalData[8:], b.data[:3])\n			n := len(payload) - c.Overhead()", New: "			var additionalData [13]byte\n			copy(additionalData[8:], b.data[:3])\n			n := len(payload) - c.Overhead()", Expect: "aead-ad"},
			{Name: "incseq-skipped-without-mac", File: "bfe_tls/conn.go", Old: "		hc.inDigestBuf = localMAC\n	}\n	hc.incSeq()\n", New: "		hc.inDigestBuf = localMAC\n		hc.incSeq()\n	}\n", Expect: "incseq-success"},
			{Name: "incseq-before-mac", File: "bfe_tls/conn.go", Old: "	// check, strip mac\n	if hc.mac != nil {\n		if len(payload) < macSize {", New: "	hc.incSeq()\n	// check, strip mac\n	if hc.mac != nil {\n		if len(payload) < macSize {", Expect: "incseq-"},
			{Name: "failure-alert-zero", File: "bfe_tls/conn.go", Old: "		if len(payload) < macSize {\n			return false, 0, alertBadRecordMAC\n		}", New: "		if len(payload) < macSize {\n			return false, 0, 0\n		}", Expect: "decrypt-fail-alert"},
			{Name: "decrypt-failure-not-recorded", File: "bfe_tls/conn.go", Old: "	ok, off, err := c.in.decrypt(b)\n	if !ok {\n		c.in.setErrorLocked(c.sendAlert(err))\n	}\n", New: "	ok, off, err := c.in.decrypt(b)\n	if !ok {\n		c.sendAlert(err)\n	}\n", Expect: "record-fail-sticky"},
			{Name: "read-ignores-sticky-error", File: "bfe_tls/conn.go", Old: "		if err := c.in.err; err != nil {\n			return 0, err\n		}\n\n		n, err = c.input.Read(b)", New: "		n, err = c.input.Read(b)", Expect: "read-consume"},
			{Name: "seq-wrap-silent", File: "bfe_tls/conn.go", Old: "	panic(\"TLS: sequence number wraparound\")\n}", New: "}", Expect: "incseq-wrap"},
			{Name: "seq-reset-on-alert", File: "bfe_tls/conn.go", Old: "		case alertLevelWarning:\n			// drop on the floor\n			c.in.freeBlock(b)", New: "		case alertLevelWarning:\n			// drop on the floor\n			c.in.resetSeq()\n			c.in.freeBlock(b)", Expect: "seq-reset-callers"},
			{Name: "mac-omits-header", File: "bfe_tls/cipher_suites.go", Old: "func (s tls10MAC) MAC(digestBuf, seq, header, data []byte) []byte {\n	s.h.Reset()\n	s.h.Write(seq)\n	s.h.Write(header)\n", New: "func (s tls10MAC) MAC(digestBuf, seq, header, data []byte) []byte {\n	s.h.Reset()\n	s.h.Write(seq)\n", Expect: "mac-impl|tls10MAC.MAC:header"},
			{Name: "silent-aead-arm-extracted", Silent: true, File: "bfe_tls/conn.go", Old: "// decrypt checks and strips the mac and decrypts the data in b. Returns a\n// success boolean, the number of bytes to skip from the start of the record in\n// order to get the application payload, and an optional alert value.\nfunc (hc *halfConn) decrypt(b *block) (ok bool, prefixLen int, alertValue alert) {\n\t// pull out payload\n\tpayload := b.data[recordHeaderLen:]\n\n\tmacSize := 0\n\tif hc.mac != nil {\n\t\tmacSize = hc.mac.Size()\n\t}\n\n\tpaddingGood := byte(255)\n\texplicitIVLen := 0\n\n\t// decrypt\n\tif hc.cipher != nil {\n\t\tswitch c := hc.cipher.(type) {\n\t\tcase cipher.Stream:\n\t\t\tc.XORKeyStream(payload, payload)\n\t\tcase aead:\n\t\t\texplicitIVLen = c.explicitNonceLen()\n\t\t\tif len(payload) < explicitIVLen {\n\t\t\t\treturn false, 0, alertBadRecordMAC\n\t\t\t}\n\t\t\tnonce := payload[:explicitIVLen]\n\t\t\tpayload = payload[explicitIVLen:]\n\t\t\tif len(nonce) == 0 {\n\t\t\t\tnonce = hc.seq[:]\n\t\t\t}\n\n\t\t\tvar additionalData [13]byte\n\t\t\tcopy(additionalData[:], hc.seq[:])\n\t\t\tcopy(additionalData[8:], b.data[:3])\n\t\t\tn := len(payload) - c.Overhead()\n\t\t\tadditionalData[11] = byte(n >> 8)\n\t\t\tadditionalData[12] = byte(n)\n\t\t\tvar err error\n\t\t\tpayload, err = c.Open(payload[:0], nonce, payload, additionalData[:])\n\t\t\tif err != nil {\n\t\t\t\treturn false, 0, alertBadRecordMAC\n\t\t\t}\n\t\t\tb.resize(recordHeaderLen + explicitIVLen + len(payload))", New: "// openAEADRecord authenticates and decrypts the AEAD-protected payload of the\n// record held in b. It returns the plaintext, the length of the explicit nonce\n// that precedes it in the record, and whether authentication succeeded. On\n// success b is shrunk to cover the header, explicit nonce and plaintext only.\nfunc (hc *halfConn) openAEADRecord(c aead, b *block, payload []byte) (plaintext []byte, explicitIVLen int, opened bool) {\n\texplicitIVLen = c.explicitNonceLen()\n\tif len(payload) < explicitIVLen {\n\t\treturn payload, explicitIVLen, false\n\t}\n\tnonce := payload[:explicitIVLen]\n\tpayload = payload[explicitIVLen:]\n\tif len(nonce) == 0 {\n\t\tnonce = hc.seq[:]\n\t}\n\n\tvar additionalData [13]byte\n\tcopy(additionalData[:], hc.seq[:])\n\tcopy(additionalData[8:], b.data[:3])\n\tn := len(payload) - c.Overhead()\n\tadditionalData[11] = byte(n >> 8)\n\tadditionalData[12] = byte(n)\n\tplaintext, err := c.Open(payload[:0], nonce, payload, additionalData[:])\n\tif err != nil {\n\t\treturn plaintext, explicitIVLen, false\n\t}\n\tb.resize(recordHeaderLen + explicitIVLen + len(plaintext))\n\treturn plaintext, explicitIVLen, true\n}\n\n// decrypt checks and strips the mac and decrypts the data in b. Returns a\n// success boolean, the number of bytes to skip from the start of the record in\n// order to get the application payload, and an optional alert value.\nfunc (hc *halfConn) decrypt(b *block) (ok bool, prefixLen int, alertValue alert) {\n\t// pull out payload\n\tpayload := b.data[recordHeaderLen:]\n\n\tmacSize := 0\n\tif hc.mac != nil {\n\t\tmacSize = hc.mac.Size()\n\t}\n\n\tpaddingGood := byte(255)\n\texplicitIVLen := 0\n\n\t// decrypt\n\tif hc.cipher != nil {\n\t\tswitch c := hc.cipher.(type) {\n\t\tcase cipher.Stream:\n\t\t\tc.XORKeyStream(payload, payload)\n\t\tcase aead:\n\t\t\tvar opened bool\n\t\t\tpayload, explicitIVLen, opened = hc.openAEADRecord(c, b, payload)\n\t\t\tif !opened {\n\t\t\t\treturn false, 0, alertBadRecordMAC\n\t\t\t}"},
			{Name: "silent-incseq-flag-variable", Silent: true, File: "bfe_tls/conn.go", Old: "\tfor i := 7; i >= 0; i-- {\n\t\thc.seq[i]++\n\t\tif hc.seq[i] != 0 {\n\t\t\treturn\n\t\t}\n\t}\n\n\t// Not allowed to let sequence number wrap.\n\t// Instead, must renegotiate before it does.\n\t// Not likely enough to bother.\n\tpanic(\"TLS: sequence number wraparound\")\n}\n", New: "\twrapped := true\n\tfor i := 7; i >= 0; i-- {\n\t\thc.seq[i] += 1\n\t\tif hc.seq[i] != 0 {\n\t\t\twrapped = false\n\t\t\tbreak\n\t\t}\n\t}\n\n\t// Not allowed to let sequence number wrap.\n\tif wrapped {\n\t\tpanic(\"TLS: sequence number wraparound\")\n\t}\n}\n"},
			{Name: "silent-incseq-break-and-index-test", Silent: true, File: "bfe_tls/conn.go", Old: "\tfor i := 7; i >= 0; i-- {\n\t\thc.seq[i]++\n\t\tif hc.seq[i] != 0 {\n\t\t\treturn\n\t\t}\n\t}\n\n\t// Not allowed to let sequence number wrap.\n", New: "\tpos := 7\n\tfor ; pos >= 0; pos-- {\n\t\thc.seq[pos]++\n\t\tif hc.seq[pos] != 0 {\n\t\t\tbreak\n\t\t}\n\t}\n\tif !(pos < 0) {\n\t\treturn\n\t}\n\n\t// Not allowed to let sequence number wrap.\n"},
			{Name: "silent-cipher-change-resets-through-helper", Silent: true, File: "bfe_tls/conn.go", Old: "\thc.nextMac = nil\n\tfor i := range hc.seq {\n\t\thc.seq[i] = 0\n\t}\n\treturn nil\n", New: "\thc.nextMac = nil\n\thc.resetSeq()\n\treturn nil\n"},
			{Name: "silent-extract-compare", Silent: true, File: "bfe_tls/conn.go", Old: "		if subtle.ConstantTimeCompare(localMAC, remoteMAC) != 1 || paddingGood != 255 {\n			return false, 0, alertBadRecordMAC\n		}\n", New: "		macOK := subtle.ConstantTimeCompare(localMAC, remoteMAC) == 1\n		if !macOK {\n			return false, 0, alertBadRecordMAC\n		}\n		if paddingGood != 255 {\n			return false, 0, alertBadRecordMAC\n		}\n"},
		},
	})
}

func runC42(c *core.Ctx) {
	if c.P.Pkg(tlsPkg) == nil {
		c.Missing(tlsPkg)
		return
	}
	fns := c.P.SrcFuncs(tlsPkg)
	c42Decrypt(c)
	c42Seq(c, fns)
	c42Impls(c)
	c42ReadRecord(c)
	c42Consumers(c)
}

// c42IsMACCall: invoke of macFunction.MAC.
func c42IsMACCall(v ssa.Value) *ssa.Call {
	call, ok := core.StripConv(v).(*ssa.Call)
	if !ok || !call.Call.IsInvoke() || call.Call.Method.Name() != "MAC" {
		return nil
	}
	if core.ObjKey(call.Call.Method) != tlsPkg+".macFunction.MAC" {
		return nil
	}
	return call
}

// c42Compare: v is a comparison call of two byte strings; returns the call
// and the result value meaning "equal".
func c42Compare(v ssa.Value) (*ssa.Call, int64) {
	call, ok := core.StripConv(v).(*ssa.Call)
	if !ok {
		return nil, 0
	}
	switch core.CalleeKey(&call.Call) {
	case "crypto/subtle.ConstantTimeCompare":
		return call, 1
	case "bytes.Equal", "crypto/hmac.Equal":
		return call, -1 // boolean
	}
	return nil, 0
}

// c42MACOK: the fact says "local MAC equals the received MAC".
func c42MACOK(f tlsFact) bool {
	check := func(call *ssa.Call) bool {
		if len(call.Call.Args) != 2 {
			return false
		}
		a, b := call.Call.Args[0], call.Call.Args[1]
		if c42IsMACCall(b) != nil {
			a, b = b, a
		}
		if c42IsMACCall(a) == nil || c42IsMACCall(b) != nil || core.StripConv(a) == core.StripConv(b) {
			return false
		}
		// the received MAC: a slice of the record bytes, not derived from the computed MAC
		root, isSlice := core.StripConv(b), false
		for i := 0; i < 4; i++ {
			sl, ok := root.(*ssa.Slice)
			if !ok {
				break
			}
			isSlice, root = true, core.StripConv(sl.X)
		}
		return isSlice && c42IsMACCall(root) == nil
	}
	if call, eq := c42Compare(f.V); call != nil && eq == -1 {
		return f.Pol && check(call)
	}
	x, y, op, ok := tlsRel(f)
	if !ok || op != token.EQL {
		return false
	}
	for _, pr := range [][2]ssa.Value{{x, y}, {y, x}} {
		if call, eq := c42Compare(pr[0]); call != nil && eq == 1 {
			if k, isK := tlsConstInt(pr[1]); isK && k == 1 {
				return check(call)
			}
		}
	}
	return false
}

func c42Decrypt(c *core.Ctx) {
	dec := tlsFunc(c, "halfConn.decrypt")
	macF := tlsField(c, "halfConn.mac")
	seqF := tlsField(c, "halfConn.seq")
	dataF := tlsField(c, "block.data")
	badMAC, okK := tlsPkgConst(c, "alertBadRecordMAC")
	if dec == nil || macF == nil || seqF == nil || dataF == nil || !okK {
		return
	}
	const incName = tlsPkg + ".halfConn.incSeq"
	isInc := func(in ssa.Instruction) bool {
		ci, ok := in.(ssa.CallInstruction)
		return ok && core.CallIs(ci.Common(), incName)
	}
	// sameHC: base is decrypt's own half connection: decrypt's receiver, or the
	// receiver/parameter of a private helper that every call site binds to it
	var sameHC func(base ssa.Value, depth int) bool
	sameHC = func(base ssa.Value, depth int) bool {
		if len(dec.Params) > 0 && base == ssa.Value(dec.Params[0]) {
			return true
		}
		p, isP := base.(*ssa.Parameter)
		if !isP || depth > 3 || p.Parent() == dec {
			return false
		}
		h := p.Parent()
		idx := -1
		for i, q := range h.Params {
			if q == p {
				idx = i
			}
		}
		sites := c.P.CallSites(h)
		if idx < 0 || len(sites) == 0 {
			return false
		}
		for _, s := range sites {
			if idx >= len(s.Common().Args) || !sameHC(s.Common().Args[idx], depth+1) {
				return false
			}
		}
		return true
	}
	isSeqSlice := func(v ssa.Value) bool {
		s, ok := core.StripConv(v).(*ssa.Slice)
		if !ok {
			return false
		}
		f, base := tlsFieldAddrOf(s.X)
		return f == seqF && sameHC(base, 0)
	}
	// decrypt's region: decrypt plus its private helpers (an arm of the cipher
	// switch extracted into a method is still part of decrypt)
	var regionInstrs []ssa.Instruction
	c.P.RegionInstrs(dec, func(in ssa.Instruction) { regionInstrs = append(regionInstrs, in) })
	for _, h := range c.P.Region(dec) {
		if h != dec {
			c.Analysed(core.FuncKey(h))
		}
	}
	// inDec(in): the instruction of decrypt through which `in` (an instruction of
	// decrypt's region) executes: itself, or the call of the helper that holds it
	var inDec func(in ssa.Instruction, depth int) []ssa.Instruction
	inDec = func(in ssa.Instruction, depth int) []ssa.Instruction {
		fn := in.Parent()
		for fn != nil && fn.Parent() != nil {
			fn = fn.Parent() // closures run where they are created (conservative)
		}
		if fn == dec {
			return []ssa.Instruction{in}
		}
		if depth > 3 {
			return nil
		}
		var out []ssa.Instruction
		for _, s := range c.P.CallSites(fn) {
			out = append(out, inDec(s.(ssa.Instruction), depth+1)...)
		}
		return out
	}
	var succ, fail []*ssa.Return
	for _, r := range core.Returns(dec) {
		rv := core.RetVals(r)
		if len(rv) != 3 {
			continue
		}
		if b, isK := tlsIsBoolConst(rv[0]); isK && !b {
			fail = append(fail, r)
		} else {
			succ = append(succ, r)
		}
	}
	macNil := func(f tlsFact) bool {
		// hc.mac == nil
		x, y, op, ok := tlsRel(f)
		return ok && op == token.EQL && ((tlsIsField(x, macF) && tlsIsNil(y)) || (tlsIsField(y, macF) && tlsIsNil(x)))
	}
	for i, r := range succ {
		key := fmt.Sprintf("decrypt:success#%d", i+1)
		rv := core.RetVals(r)
		b, isK := tlsIsBoolConst(rv[0])
		c.Check("decrypt-mac", key+":ok-const", r.Pos(), isK && b, "decrypt's ok result is "+core.Render(rv[0])+", expected the constant true on a fully guarded path")
		c.Check("decrypt-mac", key, r.Pos(), tlsDomGuarded(r.Block(), func(f tlsFact) bool { return macNil(f) || c42MACOK(f) }),
			"decrypt reports success although, with a MAC configured, equality of the computed MAC (macFunction.MAC) and the received MAC was not established on this path; facts: "+tlsFactStrs(r.Block()))
		c.Check("decrypt-padding", key, r.Pos(), tlsDomGuarded(r.Block(), func(f tlsFact) bool {
			if macNil(f) {
				return true
			}
			x, y, op, ok := tlsRel(f)
			if !ok || op != token.EQL {
				return false
			}
			for _, pr := range [][2]ssa.Value{{x, y}, {y, x}} {
				if k, isK := tlsConstInt(pr[1]); isK && k == 255 {
					for _, leaf := range tlsPhiLeaves(pr[0]) {
						if call := tlsExtractOf(leaf, 1); call != nil && core.CallIs(&call.Call, tlsPkg+".removePadding", tlsPkg+".removePaddingSSL30") {
							return true
						}
					}
				}
			}
			return false
		}), "decrypt reports success although the padding check byte of removePadding/removePaddingSSL30 was not required to be 255; facts: "+tlsFactStrs(r.Block()))
		// incSeq on every path to this return (a helper that always calls incSeq counts)
		bad := core.ReachAvoiding(dec, nil, core.LiftMust(isInc, 2), func(in ssa.Instruction) bool { return in == ssa.Instruction(r) })
		c.Check("incseq-success", key, r.Pos(), bad == nil, "a path reaches decrypt's success return without incSeq: the next record would be verified under the same sequence number (replay accepted)")
	}
	c.Min("decrypt-mac", 2)
	c.Min("decrypt-padding", 1)
	c.Min("incseq-success", 1)
	// instructions of decrypt that may run incSeq (directly or inside a callee)
	var incs []ssa.CallInstruction
	mayInc := core.LiftMay(isInc, 2)
	for _, in := range tlsInstrs(dec) {
		if ci, ok := in.(ssa.CallInstruction); ok && mayInc(in) {
			incs = append(incs, ci)
		}
	}
	for i, r := range fail {
		key := fmt.Sprintf("decrypt:failure#%d", i+1)
		rv := core.RetVals(r)
		k, isK := tlsConstInt(rv[2])
		c.Check("decrypt-fail-alert", key, r.Pos(), isK && k == badMAC && k != 0,
			"decrypt fails with alert "+core.Render(rv[2])+"; expected alertBadRecordMAC (alert 0 is close_notify, for which sendAlertLocked returns nil and the failure would not become a connection error)")
		reach := false
		for _, ic := range incs {
			if tlsReaches(dec, ic.(ssa.Instruction), nil, func(in ssa.Instruction) bool { return in == ssa.Instruction(r) }) {
				reach = true
			}
		}
		c.Check("incseq-failure", key, r.Pos(), !reach, "incSeq lies on a path to a failure return of decrypt: a rejected record consumes a sequence number")
	}
	// floors: 5 failure exits on the reference tree; folding the AEAD arm's two
	// exits into one test of a helper's result legitimately leaves 4
	c.Min("decrypt-fail-alert", 4)
	c.Min("incseq-failure", 4)
	// MAC calls: seq, header, payload
	nm := 0
	for _, in := range regionInstrs {
		v, ok := in.(ssa.Value)
		if !ok {
			continue
		}
		call := c42IsMACCall(v)
		if call == nil || len(call.Call.Args) != 4 {
			continue
		}
		nm++
		key := fmt.Sprintf("decrypt:MAC#%d", nm)
		c.Check("mac-seq", key, call.Pos(), isSeqSlice(call.Call.Args[1]), "the MAC is computed over "+core.Render(call.Call.Args[1])+" as sequence number, expected hc.seq[:]: reordered or replayed records would verify")
		hs, isS := core.StripConv(call.Call.Args[2]).(*ssa.Slice)
		c.Check("mac-header", key, call.Pos(), isS && tlsIsField(hs.X, dataF), "the MAC's header input is "+core.Render(call.Call.Args[2])+", expected the record header b.data[:recordHeaderLen]")
		_, isS = core.StripConv(call.Call.Args[3]).(*ssa.Slice)
		c.Check("mac-payload", key, call.Pos(), isS, "the MAC's data input is "+core.Render(call.Call.Args[3])+", expected the payload without the MAC")
		for _, ic := range incs {
			before := false
			for _, at := range inDec(in, 0) {
				at := at
				if tlsReaches(dec, ic.(ssa.Instruction), nil, func(x ssa.Instruction) bool { return x == at }) {
					before = true
				}
			}
			c.Check("incseq-order", key, call.Pos(), !before, "incSeq can run before the MAC of the same record is computed")
		}
	}
	c.Min("mac-seq", 1)
	c.Min("incseq-order", 1)
	// AEAD Open (in decrypt or in a private helper of it)
	isSucc := func(y ssa.Instruction) bool {
		for _, r := range succ {
			if y == ssa.Instruction(r) {
				return true
			}
		}
		return false
	}
	// failKs(fn): for a private helper of decrypt, the boolean result positions
	// whose value false makes decrypt fail: at every call site that result is
	// branched on, nothing but the branch follows the call, and the false edge
	// only reaches failure (recursively up to decrypt).
	var failOnly func(fn *ssa.Function, b *ssa.BasicBlock, depth int) (bool, int)
	var failKs func(fn *ssa.Function, depth int) []int
	failKs = func(fn *ssa.Function, depth int) []int {
		if depth > 3 {
			return nil
		}
		var out []int
		res := fn.Signature.Results()
		sites := c.P.CallSites(fn)
		for k := 0; k < res.Len() && len(sites) > 0; k++ {
			if bt, ok := res.At(k).Type().Underlying().(*types.Basic); !ok || bt.Kind() != types.Bool {
				continue
			}
			all := true
			for _, site := range sites {
				call, isCall := site.(*ssa.Call)
				if !isCall {
					all = false
					break
				}
				caller := call.Parent()
				tested := false
				for _, x := range tlsInstrs(caller) {
					ifi, isIf := x.(*ssa.If)
					if !isIf {
						continue
					}
					f := tlsNorm(ifi.Cond, true)
					if !((res.Len() == 1 && f.V == ssa.Value(call)) || (res.Len() > 1 && tlsExtractOf(f.V, k) == call)) {
						continue
					}
					failSucc := ifi.Block().Succs[1]
					if !f.Pol {
						failSucc = ifi.Block().Succs[0]
					}
					bypass := core.ReachAvoiding(caller, call, func(y ssa.Instruction) bool { return y == ssa.Instruction(ifi) }, core.IsReturn)
					if fo, _ := failOnly(caller, failSucc, depth+1); fo && bypass == nil {
						tested = true
					}
				}
				if !tested {
					all = false
					break
				}
			}
			if all {
				out = append(out, k)
			}
		}
		return out
	}
	// failOnly(fn, b): entering block b of fn, decrypt cannot succeed any more;
	// for a helper also returns the result position that reports the failure.
	failOnly = func(fn *ssa.Function, b *ssa.BasicBlock, depth int) (bool, int) {
		if fn == dec {
			return !tlsBlockReaches(dec, b, isSucc), -1
		}
		for _, k := range failKs(fn, depth) {
			all := true
			for _, r := range core.Returns(fn) {
				r := r
				if !tlsBlockReaches(fn, b, func(in ssa.Instruction) bool { return in == ssa.Instruction(r) }) {
					continue
				}
				rv := core.RetVals(r)
				if bv, isK := tlsIsBoolConst(rv[k]); !isK || bv {
					all = false
				}
			}
			if all {
				return true, k
			}
		}
		return false, -1
	}
	no := 0
	for _, in := range regionInstrs {
		call, ok := in.(*ssa.Call)
		if !ok || !call.Call.IsInvoke() || call.Call.Method.Name() != "Open" || len(call.Call.Args) != 4 {
			continue
		}
		no++
		key := fmt.Sprintf("decrypt:Open#%d", no)
		of := call.Parent()
		// error gating
		gated := false
		for _, x := range tlsInstrs(of) {
			ifi, ok := x.(*ssa.If)
			if !ok {
				continue
			}
			f := tlsNorm(ifi.Cond, true)
			a, b, op, isRel := tlsRel(f)
			if !isRel || (op != token.NEQ && op != token.EQL) {
				continue
			}
			if !((tlsExtractOf(a, 1) == call && tlsIsNil(b)) || (tlsExtractOf(b, 1) == call && tlsIsNil(a))) {
				continue
			}
			errSucc := ifi.Block().Succs[0]
			if op == token.EQL {
				errSucc = ifi.Block().Succs[1]
			}
			fo, k := failOnly(of, errSucc, 0)
			// a return that does not report failure must not be reachable from the call around the test
			goodRet := func(y ssa.Instruction) bool {
				if of == dec {
					return isSucc(y)
				}
				r, isR := y.(*ssa.Return)
				if !isR || k < 0 {
					return isR
				}
				bv, isK := tlsIsBoolConst(core.RetVals(r)[k])
				return !isK || bv
			}
			bypass := core.ReachAvoiding(of, call, func(y ssa.Instruction) bool { return y == ssa.Instruction(ifi) }, goodRet)
			if fo && bypass == nil {
				gated = true
			}
		}
		c.Check("aead-open-gated", key, call.Pos(), gated, "the error of the AEAD Open call does not force a failure return of decrypt: a record with a bad tag can be accepted")
		// additional data
		ad, isS := core.StripConv(call.Call.Args[3]).(*ssa.Slice)
		hasSeq, hasHdr := false, false
		if isS {
			for _, x := range tlsInstrs(of) {
				cp, ok := x.(*ssa.Call)
				if !ok || core.CalleeKey(&cp.Call) != "builtin:copy" || len(cp.Call.Args) != 2 {
					continue
				}
				dst, ok := core.StripConv(cp.Call.Args[0]).(*ssa.Slice)
				if !ok || dst.X != ad.X || !core.Dominates(cp, call) {
					continue
				}
				if isSeqSlice(cp.Call.Args[1]) && dst.Low == nil {
					hasSeq = true
				}
				if src, ok := core.StripConv(cp.Call.Args[1]).(*ssa.Slice); ok && tlsIsField(src.X, dataF) {
					hasHdr = true
				}
			}
		}
		c.Check("aead-ad", key+":seq", call.Pos(), hasSeq, "the AEAD additional data does not start with hc.seq: reordered or replayed records would verify")
		c.Check("aead-ad", key+":header", call.Pos(), hasHdr, "the AEAD additional data does not include the record header (type, version)")
		for _, ic := range incs {
			before := false
			for _, at := range inDec(in, 0) {
				at := at
				if tlsReaches(dec, ic.(ssa.Instruction), nil, func(x ssa.Instruction) bool { return x == at }) {
					before = true
				}
			}
			c.Check("incseq-order", key, call.Pos(), !before, "incSeq can run before the AEAD Open of the same record")
		}
	}
	c.Min("aead-open-gated", 1)
	c.Min("aead-ad", 2)
}

func c42Seq(c *core.Ctx, fns []*ssa.Function) {
	seqF := tlsField(c, "halfConn.seq")
	inc := tlsFunc(c, "halfConn.incSeq")
	if seqF == nil || inc == nil {
		return
	}
	allowed := map[string]bool{tlsPkg + ".halfConn.incSeq": true, tlsPkg + ".halfConn.changeCipherSpec": true, tlsPkg + ".halfConn.resetSeq": true}
	isSeqAddr := func(a ssa.Value) bool {
		switch x := a.(type) {
		case *ssa.FieldAddr:
			return core.FieldObj(x.X, x.Field) == seqF
		case *ssa.IndexAddr:
			f, _ := tlsFieldAddrOf(x.X)
			return f == seqF
		}
		return false
	}
	ord := map[string]int{}
	for _, fn := range fns {
		for _, in := range tlsInstrs(fn) {
			write := false
			switch x := in.(type) {
			case *ssa.Store:
				write = isSeqAddr(x.Addr)
			case *ssa.Call:
				if core.CalleeKey(&x.Call) == "builtin:copy" && len(x.Call.Args) == 2 {
					if s, ok := core.StripConv(x.Call.Args[0]).(*ssa.Slice); ok {
						f, _ := tlsFieldAddrOf(s.X)
						write = f == seqF
					}
				}
			}
			if !write {
				continue
			}
			k := core.FuncKey(fn)
			ord[k]++
			c.Check("seq-writers", fmt.Sprintf("%s#%d", strings.TrimPrefix(k, tlsPkg+"."), ord[k]), in.Pos(), allowed[k],
				"halfConn.seq is written in "+k+"; only incSeq, changeCipherSpec and resetSeq may change the record sequence number")
		}
	}
	// incSeq, changeCipherSpec, resetSeq on the reference tree; changeCipherSpec may
	// legitimately delegate its zeroing loop to resetSeq (2 writers left)
	c.Min("seq-writers", 2)
	// resetSeq callers
	var badCallers []string
	if rs := c.P.Func(tlsPkg, "halfConn.resetSeq"); rs != nil {
		for _, site := range tlsStaticCallers(c.P.SrcFuncs(""), rs) {
			if k := core.FuncKey(site.Parent()); k != tlsPkg+".halfConn.changeCipherSpec" {
				badCallers = append(badCallers, k)
			}
		}
	}
	c.Check("seq-reset-callers", "halfConn.resetSeq", inc.Pos(), len(badCallers) == 0, "resetSeq is called outside changeCipherSpec ("+strings.Join(badCallers, ", ")+"): a sequence number reset within one cipher state lets old records verify again")
	c.Min("seq-reset-callers", 1)
	// incSeq: increments an element of hc.seq and returns only when it did not wrap
	hasInc := false
	for _, in := range tlsInstrs(inc) {
		st, ok := in.(*ssa.Store)
		if !ok || !isSeqAddr(st.Addr) {
			continue
		}
		if b, ok := st.Val.(*ssa.BinOp); ok && b.Op == token.ADD {
			if k, isK := tlsConstInt(b.Y); isK && k == 1 {
				if a, isL := tlsLoad(b.X); isL && isSeqAddr(a) {
					hasInc = true
				}
			}
		}
	}
	c.Check("incseq-wrap", "incSeq:increment", inc.Pos(), hasInc, "incSeq does not increment an element of hc.seq by one")
	for i, r := range core.Returns(inc) {
		ok := tlsDomGuarded(r.Block(), func(f tlsFact) bool {
			x, y, op, isRel := tlsRel(f)
			if !isRel || op != token.NEQ {
				return false
			}
			for _, pr := range [][2]ssa.Value{{x, y}, {y, x}} {
				if k, isK := tlsConstInt(pr[1]); isK && k == 0 {
					if a, isL := tlsLoad(pr[0]); isL && isSeqAddr(a) {
						return true
					}
				}
			}
			return false
		})
		c.Check("incseq-wrap", fmt.Sprintf("incSeq:return#%d", i+1), r.Pos(), ok, "incSeq returns without having observed a non-zero byte after the increment: the 64-bit sequence number can wrap silently")
	}
	c.Min("incseq-wrap", 2)
}

func c42Impls(c *core.Ctx) {
	pk := c.P.Pkg(tlsPkg)
	macI, _ := c.P.Obj(tlsPkg, "macFunction").(*types.TypeName)
	aeadI, _ := c.P.Obj(tlsPkg, "aead").(*types.TypeName)
	if macI == nil {
		c.Missing(tlsPkg + ".macFunction")
	}
	if aeadI == nil {
		c.Missing(tlsPkg + ".aead")
	}
	if macI == nil || aeadI == nil {
		return
	}
	mi, ok1 := macI.Type().Underlying().(*types.Interface)
	ai, ok2 := aeadI.Type().Underlying().(*types.Interface)
	if !ok1 || !ok2 {
		c.Missing(tlsPkg + ".macFunction/aead interfaces")
		return
	}
	scope := pk.Types.Scope()
	for _, name := range scope.Names() {
		tn, ok := scope.Lookup(name).(*types.TypeName)
		if !ok || types.IsInterface(tn.Type()) {
			continue
		}
		implements := func(i *types.Interface) bool {
			return types.Implements(tn.Type(), i) || types.Implements(types.NewPointer(tn.Type()), i)
		}
		if implements(mi) {
			fn := c.P.Func(tlsPkg, name+".MAC")
			if fn == nil || fn.Blocks == nil {
				c.Missing(tlsPkg + "." + name + ".MAC")
				continue
			}
			c.Analysed(core.FuncKey(fn))
			// MAC(digestBuf, seq, header, data): parameters by position (receiver is #0)
			for pi, pn := range []string{"seq", "header", "data"} {
				p := tlsParamAt(fn, 2+pi)
				written := false
				for _, ci := range core.AllCalls(fn) {
					cc := ci.Common()
					if !cc.IsInvoke() || cc.Method.Name() != "Write" || len(cc.Args) != 1 {
						continue
					}
					a := core.StripConv(cc.Args[0])
					if s, ok := a.(*ssa.Slice); ok {
						a = core.StripConv(s.X)
					}
					if tlsIsParam(a, p) {
						written = true
					}
				}
				c.Check("mac-impl", name+".MAC:"+pn, fn.Pos(), p != nil && written, name+".MAC does not feed its "+pn+" argument into the hash: that part of the record is not integrity-protected")
			}
		}
		if implements(ai) {
			fn := c.P.Func(tlsPkg, name+".Open")
			if fn == nil || fn.Blocks == nil {
				c.Missing(tlsPkg + "." + name + ".Open")
				continue
			}
			c.Analysed(core.FuncKey(fn))
			adP := tlsParamAt(fn, 4) // Open(out, nonce, ciphertext, additionalData)
			var inner *ssa.Call
			for _, ci := range core.AllCalls(fn) {
				cc := ci.Common()
				if call, ok := ci.(*ssa.Call); ok && cc.IsInvoke() && cc.Method.Name() == "Open" && len(cc.Args) == 4 {
					inner = call
				}
			}
			okAD := inner != nil && tlsIsParam(inner.Call.Args[3], adP)
			okErr := inner != nil
			for _, r := range core.Returns(fn) {
				rv := core.RetVals(r)
				if len(rv) != 2 || tlsExtractOf(rv[1], 1) != inner {
					okErr = false
				}
			}
			c.Check("aead-impl", name+".Open:additional-data", fn.Pos(), okAD, name+".Open does not pass its additionalData (sequence number, header, length) to the wrapped AEAD")
			c.Check("aead-impl", name+".Open:error", fn.Pos(), okErr, name+".Open does not return the wrapped AEAD's authentication error")
		}
	}
	c.Min("mac-impl", 9)
	c.Min("aead-impl", 4)
}

func c42ReadRecord(c *core.Ctx) {
	rr := tlsFunc(c, "Conn.readRecord")
	inF := tlsField(c, "Conn.in")
	inputF := tlsField(c, "Conn.input")
	handF := tlsField(c, "Conn.hand")
	errF := tlsField(c, "halfConn.err")
	if rr == nil || inF == nil || inputF == nil || handF == nil || errF == nil {
		return
	}
	const decName, setName, alertName = tlsPkg + ".halfConn.decrypt", tlsPkg + ".halfConn.setErrorLocked", tlsPkg + ".Conn.sendAlert"
	decs := core.Calls(rr, decName)
	c.Check("record-decrypt", "readRecord:decrypt-call", rr.Pos(), len(decs) == 1, fmt.Sprintf("expected exactly one halfConn.decrypt call in readRecord, found %d", len(decs)))
	c.Min("record-decrypt", 1)
	if len(decs) != 1 {
		return
	}
	dec, _ := decs[0].(*ssa.Call)
	if dec == nil {
		return
	}
	onIn := func(v ssa.Value) bool { f, _ := tlsFieldAddrOf(v); return f == inF }
	c.Check("record-decrypt", "readRecord:decrypt-receiver", dec.Pos(), len(dec.Call.Args) == 2 && onIn(dec.Call.Args[0]), "decrypt is invoked on "+core.Render(dec.Call.Args[0])+", expected the inbound half connection c.in")
	// the branch on ok
	var failSucc *ssa.BasicBlock
	for _, in := range tlsInstrs(rr) {
		ifi, ok := in.(*ssa.If)
		if !ok {
			continue
		}
		f := tlsNorm(ifi.Cond, true)
		if tlsExtractOf(f.V, 0) == dec {
			// f.Pol true: cond true means ok
			if f.Pol {
				failSucc = ifi.Block().Succs[1]
			} else {
				failSucc = ifi.Block().Succs[0]
			}
		}
	}
	if failSucc == nil {
		c.Check("record-fail-sticky", "readRecord:ok-tested", dec.Pos(), false, "the ok result of decrypt is not tested in readRecord")
		c.Min("record-fail-sticky", 1)
		return
	}
	isSticky := func(in ssa.Instruction) bool {
		ci, ok := in.(ssa.CallInstruction)
		if !ok || !core.CallIs(ci.Common(), setName) || len(ci.Common().Args) != 2 || !onIn(ci.Common().Args[0]) {
			return false
		}
		sa := tlsCallOf(ci.Common().Args[1], alertName)
		if sa == nil || len(sa.Call.Args) != 2 {
			return false
		}
		return tlsExtractOf(sa.Call.Args[1], 2) == dec
	}
	sinkName := func(in ssa.Instruction) string {
		switch x := in.(type) {
		case *ssa.Return:
			return "return"
		case *ssa.Store:
			if f, _ := tlsFieldAddrOf(x.Addr); f == inputF {
				return "store to c.input"
			}
		case ssa.CallInstruction:
			cc := x.Common()
			if cc.StaticCallee() != nil && cc.StaticCallee().Name() == "Write" && len(cc.Args) > 0 {
				if f, _ := tlsFieldAddrOf(cc.Args[0]); f == handF {
					return "write to the handshake buffer c.hand"
				}
			}
		}
		return ""
	}
	var reached ssa.Instruction
	target := func(in ssa.Instruction) bool { return sinkName(in) != "" }
	if len(failSucc.Instrs) > 0 {
		first := failSucc.Instrs[0]
		switch {
		case isSticky(first):
		case target(first):
			reached = first
		default:
			reached = core.ReachAvoiding(rr, first, isSticky, target)
		}
	}
	what := ""
	if reached != nil {
		what = sinkName(reached) + " at " + c.P.Pos(reached.Pos())
	}
	c.Check("record-fail-sticky", "readRecord:ok-tested", dec.Pos(), reached == nil,
		"after decrypt reported failure, "+what+" is reachable without c.in.setErrorLocked(c.sendAlert(<decrypt's alert>)): the tampered record is processed and no connection error is recorded")
	c.Min("record-fail-sticky", 1)
	// returns after decrypt never return a literal nil
	n := 0
	for _, r := range core.Returns(rr) {
		if !core.Dominates(dec, r) {
			continue // reachable without decrypting a record (or only through the `goto Again` loop)
		}
		n++
		rv := core.RetVals(r)
		ok := len(rv) == 1 && !tlsIsNil(rv[0])
		if ok {
			v := core.StripConv(rv[0])
			isErrLoad := false
			if f, base := tlsFieldOf(v); f == errF && onIn(base) {
				isErrLoad = true
			}
			ok = isErrLoad || tlsCallOf(v, setName) != nil
		}
		c.Check("record-return", fmt.Sprintf("readRecord:return-after-decrypt#%d", n), r.Pos(), ok,
			"readRecord returns "+core.Render(core.RetVals(r)[0])+" after decrypting a record; expected the sticky error c.in.err or the result of c.in.setErrorLocked, so that a failed record is reported to the caller")
	}
	c.Min("record-return", 3)
	// the sticky-error chain: setErrorLocked stores its argument, sendAlertLocked returns nil only for close_notify
	if set := tlsFunc(c, "halfConn.setErrorLocked"); set != nil {
		ep := tlsParamAt(set, 1)
		stores := false
		for _, st := range core.FieldStores([]*ssa.Function{set}, errF) {
			if tlsIsParam(st.Store.Val, ep) {
				stores = true
			}
		}
		rets := true
		for _, r := range core.Returns(set) {
			if rv := core.RetVals(r); len(rv) != 1 || !tlsIsParam(rv[0], ep) {
				rets = false
			}
		}
		c.Check("sticky-chain", "setErrorLocked", set.Pos(), stores && rets, "halfConn.setErrorLocked must store its argument in hc.err and return it")
	}
	if sal := tlsFunc(c, "Conn.sendAlertLocked"); sal != nil {
		ep := tlsParamAt(sal, 1)
		n := 0
		for _, r := range core.Returns(sal) {
			rv := core.RetVals(r)
			if len(rv) != 1 || !tlsIsNil(rv[0]) {
				continue
			}
			n++
			ok := tlsDomGuarded(r.Block(), func(f tlsFact) bool {
				return tlsHolds(f, func(v ssa.Value) bool { return tlsIsParam(v, ep) }, func(v ssa.Value) bool { k, ok := tlsConstInt(v); return ok && k == 0 }, token.EQL)
			})
			c.Check("sticky-chain", fmt.Sprintf("sendAlertLocked:nil-return#%d", n), r.Pos(), ok, "sendAlertLocked returns a nil error for an alert other than close_notify: the failure would not become a connection error")
		}
	}
	if sa := tlsFunc(c, "Conn.sendAlert"); sa != nil {
		ok := true
		for _, r := range core.Returns(sa) {
			rv := core.RetVals(r)
			if len(rv) != 1 || tlsCallOf(rv[0], tlsPkg+".Conn.sendAlertLocked") == nil {
				ok = false
			}
		}
		c.Check("sticky-chain", "sendAlert", sa.Pos(), ok, "Conn.sendAlert must return the result of sendAlertLocked")
	}
	c.Min("sticky-chain", 3)
}

func c42Consumers(c *core.Ctx) {
	inF := tlsField(c, "Conn.in")
	inputF := tlsField(c, "Conn.input")
	handF := tlsField(c, "Conn.hand")
	errF := tlsField(c, "halfConn.err")
	rd := tlsFunc(c, "Conn.Read")
	rh := tlsFunc(c, "Conn.readHandshake")
	if inF == nil || inputF == nil || handF == nil || errF == nil || rd == nil || rh == nil {
		return
	}
	const rrName = tlsPkg + ".Conn.readRecord"
	isRR := func(in ssa.Instruction) bool {
		ci, ok := in.(ssa.CallInstruction)
		return ok && core.CallIs(ci.Common(), rrName)
	}
	onIn := func(v ssa.Value) bool { f, _ := tlsFieldAddrOf(v); return f == inF }
	// Conn.Read: c.input.Read(b) only under c.in.err == nil observed after the last readRecord
	n := 0
	var consumesRead, guardLoads []ssa.Instruction
	for _, ci := range core.Calls(rd, tlsPkg+".block.Read") {
		if len(ci.Common().Args) < 1 || !tlsIsField(ci.Common().Args[0], inputF) {
			continue
		}
		n++
		in := ci.(ssa.Instruction)
		consumesRead = append(consumesRead, in)
		var loads []ssa.Instruction
		guard := tlsDomGuarded(in.Block(), func(f tlsFact) bool {
			x, y, op, ok := tlsRel(f)
			if !ok || op != token.EQL {
				return false
			}
			for _, pr := range [][2]ssa.Value{{x, y}, {y, x}} {
				if fl, base := tlsFieldOf(pr[0]); fl == errF && onIn(base) && tlsIsNil(pr[1]) {
					if li, ok := core.StripConv(pr[0]).(ssa.Instruction); ok {
						loads = append(loads, li)
					}
					return true
				}
			}
			return false
		})
		fresh := guard
		guardLoads = append(guardLoads, loads...)
		for _, l := range loads {
			if core.ReachAvoiding(rd, l, func(x ssa.Instruction) bool { return x == in }, isRR) != nil {
				fresh = false
			}
		}
		c.Check("read-consume", fmt.Sprintf("Conn.Read:input.Read#%d", n), in.Pos(), guard && fresh,
			fmt.Sprintf("Conn.Read hands record bytes to the caller without c.in.err == nil being established after the last readRecord (guard=%v, no-readRecord-in-between=%v): bytes of a record that failed verification could be delivered", guard, fresh))
	}
	c.Min("read-consume", 1)
	// every readRecord call from which a consume is reachable has its result tested
	check := func(fn *ssa.Function, name string, protect []ssa.Instruction, isConsume func(ssa.Instruction) bool) {
		isProtect := func(in ssa.Instruction) bool {
			for _, x := range protect {
				if x == in {
					return true
				}
			}
			return false
		}
		k := 0
		for _, ci := range core.Calls(fn, rrName) {
			call, ok := ci.(*ssa.Call)
			if !ok {
				continue
			}
			if !tlsReaches(fn, call, nil, isConsume) {
				continue
			}
			k++
			// protected: every path to a consume re-reads the sticky error first
			tested := len(protect) > 0 && !tlsReaches(fn, call, isProtect, isConsume)
			for _, x := range call.Block().Instrs {
				ifi, ok := x.(*ssa.If)
				if !ok {
					continue
				}
				a, b, op, isRel := tlsRel(tlsNorm(ifi.Cond, true))
				if !isRel || !((a == ssa.Value(call) && tlsIsNil(b)) || (b == ssa.Value(call) && tlsIsNil(a))) {
					continue
				}
				errSucc := ifi.Block().Succs[0]
				if op == token.EQL {
					errSucc = ifi.Block().Succs[1]
				} else if op != token.NEQ {
					continue
				}
				// on error: no consume before another readRecord result test; simplest: consume unreachable without passing readRecord again
				if len(errSucc.Instrs) > 0 {
					first := errSucc.Instrs[0]
					if !isConsume(first) && (isRR(first) || core.ReachAvoiding(fn, first, isRR, isConsume) == nil) {
						tested = true
					}
				}
			}
			c.Check("record-result-tested", fmt.Sprintf("%s:readRecord#%d", name, k), call.Pos(), tested,
				name+" consumes record data after a readRecord call although neither its error result nor a re-read of the sticky error c.in.err prevents it")
		}
	}
	check(rd, "Conn.Read", guardLoads, func(in ssa.Instruction) bool {
		for _, x := range consumesRead {
			if x == in {
				return true
			}
		}
		return false
	})
	check(rh, "Conn.readHandshake", nil, func(in ssa.Instruction) bool {
		ci, ok := in.(ssa.CallInstruction)
		if !ok {
			return false
		}
		cc := ci.Common()
		if sc := cc.StaticCallee(); sc != nil && (sc.Name() == "Next" || sc.Name() == "Bytes") && len(cc.Args) > 0 {
			f, _ := tlsFieldAddrOf(cc.Args[0])
			return f == handF
		}
		return false
	})
	c.Min("record-result-tested", 3)
}
